(** * Mesh_wf (C09 b): well-formedness of the neighbour indices, and the panic sites each operation can reach.
    - [WF M]: every neighbour index stored in a slot is in range and is not the slot itself.  It is preserved by
      EVERY operation whatever its outcome (Ok, Err or Panic), hence by every history.
    - [NP sites op]: the certified enumeration of the panic sites of [op]; site 60 (Edge::from_i out of range)
      and site 10 (the unwrap in Triangle3D::new) are in none of them.
    Valid for every number instance. *)
From Coq Require Import ZArith Bool List Arith Lia.
From G3 Require Import Model.Num Model.Base Model.Vec Model.Segment Model.Triangle Model.Loop Model.Polygon Model.Triangulation Proofs.Mesh_base.
Import ListNotations.

Section WFSec.
  Context {K : Type} {NK : Num K}.
  Notation V := (V3 K).
  Notation TP := (TriPiece K).
  Notation Mesh := (Mesh K).

  Definition WFl (l : list TP) : Prop :=
    forall i t, nth_error l i = Some t -> forall e j, tp_neighbour t e = Some j -> j < length l /\ j <> i.
  Definition WF (M : Mesh) : Prop := WFl (tris M).
  Definition Rwf (M M' : Mesh) : Prop := length (tris M) <= length (tris M') /\ (WF M -> WF M').
  Lemma Rwf_refl M : Rwf M M. Proof. split; [lia | tauto]. Qed.
  Lemma Rwf_trans M1 M2 M3 : Rwf M1 M2 -> Rwf M2 M3 -> Rwf M1 M3.
  Proof. intros [H1 H2] [H3 H4]. split; [lia | tauto]. Qed.
  Notation PW := (Pres Rwf).
  Definition wf_bind {A B} := @pres_bind K Rwf Rwf_trans A B.
  Definition wf_ret {A} := @pres_ret K Rwf Rwf_refl A.
  Definition wf_lift {A} := @pres_lift K Rwf Rwf_refl A.
  Definition wf_get := @pres_get K Rwf Rwf_refl.
  Definition wf_when := @pres_when K Rwf Rwf_refl.
  Definition wf_read {A} := @pres_read K Rwf Rwf_refl A.
  Definition wf_state {A} := @pres_state K Rwf A.

  (** *** primitives *)
  Lemma WFl_upd (i : nat) (f : TP -> TP) (l : list TP) :
    (forall t e, tp_neighbour (f t) e = tp_neighbour t e) -> WFl l -> WFl (upd i f l).
  Proof.
    intros Hf W k t Hk e j Hn. rewrite upd_length. rewrite nth_error_upd in Hk. destruct (Nat.eqb i k).
    - destruct (nth_error l k) as [u|] eqn:Eu; [|discriminate]. inversion Hk; subst. rewrite Hf in Hn. eapply W; eassumption.
    - eapply W; eassumption.
  Qed.
  Lemma constrain_neighbours e' (t : TP) e : tp_neighbour (tp_constrain e' t) e = tp_neighbour t e.
  Proof. destruct e', e; reflexivity. Qed.
  Lemma invalidate_neighbours (t : TP) e : tp_neighbour (tp_invalidate t) e = tp_neighbour t e.
  Proof. destruct e; reflexivity. Qed.
  Lemma wf_mupd s i (f : TP -> TP) : (forall t e, tp_neighbour (f t) e = tp_neighbour t e) -> PW (mupd s i f).
  Proof.
    intros Hf M M' r H. unfold mupd in H. destruct (Nat.ltb i (length (tris M))); inversion H; subst; [|apply Rwf_refl].
    split; cbn [tris]; [rewrite upd_length; lia|]. intros W. unfold WF; cbn [tris]. apply WFl_upd; assumption.
  Qed.
  Lemma wf_constrain s i e : PW (mupd s i (tp_constrain e)).
  Proof. apply wf_mupd. apply constrain_neighbours. Qed.
  Lemma wf_invalidate i : PW (mesh_invalidate (K:=K) i).
  Proof.
    intros M M' r H. unfold mesh_invalidate in H. destruct (Nat.ltb i (length (tris M))); [|inversion H; subst; apply Rwf_refl].
    destruct (nvalid M); inversion H; subst; (split; cbn [tris]; [rewrite upd_length; lia|]; intros W; unfold WF; cbn [tris];
      apply WFl_upd; [apply invalidate_neighbours | exact W]).
  Qed.

  Lemma tp_new_neighbours (a b c : V) (n : nat) (t : TP) : tp_new a b c n = Ok t -> forall e, tp_neighbour t e = None.
  Proof. unfold tp_new. destruct (tri_new a b c); cbn [rbind]; try discriminate. intros H; inversion H; subst. intros []; reflexivity. Qed.
  Lemma wf_push (a b c : V) (la : nat) : PW (mesh_push a b c la).
  Proof.
    intros M M' r H. unfold mesh_push in H.
    destruct (get_first_invalid M la) as [n|] eqn:Eg.
    - destruct (tp_new a b c n) as [t| |] eqn:Et; inversion H; subst; try apply Rwf_refl.
      split; cbn [tris]; [rewrite set_nth_length; lia|]. intros W. unfold WF in *; cbn [tris] in *. intros k u Hk e j Hn. rewrite set_nth_length.
      rewrite nth_error_set_nth in Hk. destruct (Nat.eqb n k).
      + destruct (Nat.ltb k (length (tris M))); [|discriminate]. inversion Hk; subst.
        rewrite (tp_new_neighbours _ _ _ _ _ Et) in Hn. discriminate.
      + eapply W; eassumption.
    - destruct (tp_new a b c (length (tris M))) as [t| |] eqn:Et; inversion H; subst; try apply Rwf_refl.
      split; cbn [tris]; [rewrite app_length; cbn; lia|]. intros W. unfold WF in *; cbn [tris] in *. intros k u Hk e j Hn. rewrite app_length; cbn [length].
      destruct (Nat.lt_ge_cases k (length (tris M))) as [Hlt|Hge].
      + rewrite nth_error_app1 in Hk by exact Hlt. destruct (W k u Hk e j Hn). split; [lia|assumption].
      + rewrite nth_error_app2 in Hk by exact Hge. destruct (k - length (tris M)) as [|d]; cbn in Hk.
        * inversion Hk; subst. rewrite (tp_new_neighbours _ _ _ _ _ Et) in Hn. discriminate.
        * destruct d; discriminate.
  Qed.

  Lemma set_neighbour_neighbours e' i' (t : TP) e j :
    tp_neighbour (tp_set_neighbour e' i' t) e = Some j -> j = i' \/ tp_neighbour t e = Some j.
  Proof. destruct e', e; cbn; intros H; try (right; exact H); left; inversion H; reflexivity. Qed.
  Lemma WFl_set_neighbour (i i' : nat) (e' : Edge) (l : list TP) :
    i' < length l -> i' <> i -> WFl l -> WFl (upd i (tp_set_neighbour e' i') l).
  Proof.
    intros Hlt Hne W k t Hk e j Hn. rewrite upd_length. rewrite nth_error_upd in Hk. destruct (Nat.eqb_spec i k).
    - subst k. destruct (nth_error l i) as [u|] eqn:Eu; [|discriminate]. inversion Hk; subst.
      apply set_neighbour_neighbours in Hn. destruct Hn as [->|Hn]; [split; assumption | eapply W; eassumption].
    - eapply W; eassumption.
  Qed.
  Lemma wf_mark (i1 : nat) (e1 : Edge) (i2 : nat) : PW (mark_as_neighbours (K:=K) i1 e1 i2).
  Proof.
    intros M M' r H. unfold mark_as_neighbours in H.
    destruct (Nat.eqb_spec i1 i2) as [|Hne]; [inversion H; subst; apply Rwf_refl|].
    apply mbind_inv in H. destruct H as [(t1 & M1 & H1 & H) | [(c & H1 & _) | (s & H1 & _)]];
      [| unfold mget in H1; inversion H1; subst; apply Rwf_refl | unfold mget in H1; inversion H1; subst; apply Rwf_refl].
    unfold mget in H1. destruct (nth_error (tris M) i1) as [t1'|] eqn:E1; inversion H1; subst M1 t1'. clear H1.
    destruct (negb (tp_valid t1)); [inversion H; subst; apply Rwf_refl|].
    apply mbind_inv in H. destruct H as [(seg1 & M1 & H1 & H) | [(c & H1 & _) | (s & H1 & _)]];
      [| inversion H1; subst; apply Rwf_refl | inversion H1; subst; apply Rwf_refl].
    inversion H1; subst M1. clear H1.
    apply mbind_inv in H. destruct H as [(t2 & M1 & H1 & H) | [(c & H1 & _) | (s & H1 & _)]];
      [| unfold mget in H1; inversion H1; subst; apply Rwf_refl | unfold mget in H1; inversion H1; subst; apply Rwf_refl].
    unfold mget in H1. destruct (nth_error (tris M) i2) as [t2'|] eqn:E2; inversion H1; subst M1 t2'. clear H1.
    destruct (negb (tp_valid t2)); [inversion H; subst; apply Rwf_refl|].
    apply mbind_inv in H. destruct H as [(e2 & M1 & H1 & H) | [(c & H1 & _) | (s & H1 & _)]];
      [| inversion H1; subst; apply Rwf_refl | inversion H1; subst; apply Rwf_refl].
    inversion H1; subst M1. clear H1.
    apply mbind_inv in H. destruct H as [(edge2 & M1 & H1 & H) | [(c & H1 & _) | (s & H1 & _)]];
      [| inversion H1; subst; apply Rwf_refl | inversion H1; subst; apply Rwf_refl].
    inversion H1; subst M1. clear H1.
    assert (L1 : i1 < length (tris M)) by (apply nth_error_Some; congruence).
    assert (L2 : i2 < length (tris M)) by (apply nth_error_Some; congruence).
    unfold mbind, mupd in H. apply Nat.ltb_lt in L1. rewrite L1 in H. cbn [tris nvalid] in H. rewrite upd_length in H.
    apply Nat.ltb_lt in L2. rewrite L2 in H. inversion H; subst. clear H. apply Nat.ltb_lt in L1. apply Nat.ltb_lt in L2.
    split; cbn [tris]; [rewrite !upd_length; lia|]. intros W. unfold WF; cbn [tris].
    apply WFl_set_neighbour; [rewrite upd_length; exact L1 | auto |]. apply WFl_set_neighbour; [exact L2 | auto | exact W].
  Qed.

  (** *** the composed operations: by the structure of their definitions *)
  Ltac wf_step :=
    match goal with
    | |- Pres Rwf (mbind _ _) => apply wf_bind; [|intros ?]
    | |- Pres Rwf (mret _) => apply wf_ret
    | |- Pres Rwf (mlift _) => apply wf_lift
    | |- Pres Rwf (mget _ _) => apply wf_get
    | |- Pres Rwf (mwhen _ _) => apply wf_when
    | |- Pres Rwf (mupd _ _ (tp_constrain _)) => apply wf_constrain
    | |- Pres Rwf (mesh_invalidate _) => apply wf_invalidate
    | |- Pres Rwf (mesh_push _ _ _ _) => apply wf_push
    | |- Pres Rwf (mark_as_neighbours _ _ _) => apply wf_mark
    | |- Pres Rwf (if ?b then _ else _) => destruct b
    | |- Pres Rwf (match ?x with _ => _ end) => destruct x
    | |- Pres Rwf (let '(_, _) := ?x in _) => destruct x
    end.
  Ltac wf_tac := repeat wf_step.

  Lemma wf_flip (i : nat) (e : Edge) : PW (flip_diagonal (K:=K) i e).
  Proof. unfold flip_diagonal. wf_tac. Qed.
  Lemma wf_hemisphere (s : Seg K) (p : V) (i : nat) : PW (process_hemisphere s p i).
  Proof. unfold process_hemisphere. wf_tac. Qed.
  Lemma wf_precheck (s : Seg K) (p : V) (i : nat) : PW (split_precheck s p i).
  Proof. unfold split_precheck. wf_tac. Qed.
  Lemma wf_split_edge (i : nat) (e : Edge) (p : V) : PW (split_edge i e p).
  Proof. unfold split_edge. repeat first [apply wf_hemisphere | apply wf_precheck | wf_step]. Qed.
  Lemma wf_split_triangle (i : nat) (p : V) : PW (split_triangle i p).
  Proof. unfold split_triangle. wf_tac. Qed.

  Lemma wf_rd_pass (m : K) : forall cnt i l any, PW (rd_pass m cnt i l any).
  Proof.
    induction cnt as [|cnt IH]; intros i l any; cbn [rd_pass]; [apply wf_ret|].
    destruct l as [|t l']; [apply wf_lift|].
    destruct (negb (tp_valid t)); [apply IH|]. destruct (nltb (tp_ar t) m); [apply IH|].
    apply wf_bind; [apply wf_read|]. intros b. destruct (fst b); [|apply IH].
    apply wf_bind; [apply wf_flip|]. intros _. intros M M' r H. exact (IH _ _ _ M M' r H).
  Qed.
  Lemma wf_rd_loops (m : K) (n : nat) : forall loops, PW (rd_loops m n loops).
  Proof.
    induction loops as [|l IH]; cbn [rd_loops]; [apply wf_ret|].
    apply wf_bind; [intros M M' r H; exact (wf_rd_pass m _ _ _ _ M M' r H)|]. intros any. destruct any; [apply IH | apply wf_ret].
  Qed.
  Lemma wf_restore (m : K) : PW (restore_delaunay m).
  Proof. unfold restore_delaunay. intros M M' r H. exact (wf_rd_loops m _ _ M M' r H). Qed.

  Lemma wf_aptt (i : nat) (p : V) (loc : PIT) : PW (add_point_to_triangle i p loc).
  Proof. unfold add_point_to_triangle. wf_tac; try apply wf_split_edge; try apply wf_split_triangle. Qed.
  Lemma wf_add_point (p : V) : PW (add_point p).
  Proof.
    intros M M' r H. unfold add_point in H. destruct (find_container (tris M) 0 p) as [[i loc]|].
    - eapply wf_aptt. exact H.
    - inversion H; subst. apply Rwf_refl.
  Qed.

  Lemma wf_refine_pass (a m : K) : forall cnt i l any, PW (refine_pass a m cnt i l any).
  Proof.
    induction cnt as [|cnt IH]; intros i l any; cbn [refine_pass]; [apply wf_ret|].
    destruct l as [|t l']; [apply wf_lift|].
    destruct (negb (tp_valid t)); [apply wf_lift|]. destruct (nltb (tarea (tp_tri t)) c1em3); [apply IH|].
    assert (Hc : forall b, PW (fun M : Mesh => refine_pass a m cnt (S i) (skipn (S i) (tris M)) b M))
      by (intros b M M' r H; exact (IH _ _ _ M M' r H)).
    destruct (nltb m (tp_ar t)).
    { apply wf_bind; [apply wf_lift|]. intros [s_i s]. apply wf_bind; [apply wf_lift|]. intros ed.
      apply wf_bind; [apply wf_split_edge|]. intros _. apply wf_bind; [apply wf_restore|]. intros _. apply Hc. }
    destruct (nltb a (tarea (tp_tri t))); [|apply IH].
    intros M M' r H. destruct (add_point (tp_cc t) M) as [M1 [did| c | s]] eqn:Eadd.
    - pose proof (wf_add_point _ _ _ _ Eadd) as G1. destruct did.
      + eapply Rwf_trans; [exact G1|]. revert H. apply wf_bind; [apply wf_restore|]. intros _. apply Hc.
      + eapply Rwf_trans; [exact G1|]. eapply Hc. exact H.
    - pose proof (wf_add_point _ _ _ _ Eadd) as G1. eapply Rwf_trans; [exact G1|]. revert H.
      apply wf_bind; [apply wf_get|]. intros t'. apply wf_bind; [apply wf_aptt|]. intros did. destruct did; [|apply Hc].
      apply wf_bind; [apply wf_restore|]. intros _. apply Hc.
    - pose proof (wf_add_point _ _ _ _ Eadd) as G1. inversion H; subst. exact G1.
  Qed.
  Lemma wf_refine (a m : K) : forall fuel, PW (refine fuel a m).
  Proof.
    induction fuel as [|f IH]; cbn [refine]; [apply wf_ret|].
    intros M M' r H. revert H. apply wf_bind; [apply wf_refine_pass|]. intros any. destruct any; [apply IH | apply wf_ret].
  Qed.
  Lemma wf_step (op : mop K) : PW (mesh_step op).
  Proof.
    destruct op; cbn [mesh_step]; repeat wf_step; try apply wf_split_edge; try apply wf_split_triangle; try apply wf_flip;
      try apply wf_restore; try apply wf_add_point; try apply wf_refine.
  Qed.

  (** every history keeps the neighbour indices well formed, whatever the outcomes of its steps *)
  Theorem wf_run (ops : list (mop K)) : forall M, WF M -> WF (fst (mesh_run M ops)).
  Proof.
    induction ops as [|op ops IH]; intros M W; cbn [mesh_run]; [exact W|].
    destruct (mesh_step op M) as [M1 o] eqn:E1. pose proof (wf_step op M M1 o E1) as [_ G].
    specialize (IH M1 (G W)). destruct (mesh_run M1 ops) as [M2 os]. exact IH.
  Qed.
  Lemma WF_new : WF (mesh_new (K:=K)).
  Proof. intros i t H. destruct i; discriminate. Qed.
End WFSec.
