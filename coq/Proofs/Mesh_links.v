(** * Mesh_links (C08, the link geometry as an INVARIANT).  Every number instance.

    [LNKG M]: for every live slot i and edge e with [tp_neighbour t e = Some j]: j <> i, slot j is live, and slot j has
    an edge e' whose two points are EXACTLY (Leibniz equality of the V3 values) the points of e in the opposite order, and
    [tp_neighbour t_j e' = Some i].  (= [LNK] + reciprocity + [flip_shared] packaged per link.  The REVERSED order is
    required -- and is what the steps produce -- because the region identities need it.)
    [SEP M]: on the vertices of the live triangles [Point3D::compare] (tolerance 1e-5) decides Leibniz equality:
    [vcompare x y = true <-> x = y] (no two distinct mesh vertices within the tolerance; every vertex compares equal to
    itself: no NaN).  [DIST M]: the three vertices of every live triangle are distinct (under SEP: what Triangle3D::new checks).
    Under SEP the coordinate comparisons of [mark_as_neighbours] / [get_edge_index_from_segment] identify edges exactly,
    every [mark_as_neighbours] of a step is deterministic, and the final neighbour table is a list of overrides of the
    initial one: LNKG and DIST are re-established by split_triangle, flip_diagonal, split_edge returning Ok. *)
From Coq Require Import ZArith Bool List Arith Lia Permutation.
From G3 Require Import Model.Num Model.Base Model.Vec Model.Segment Model.Triangle Model.Loop Model.Polygon Model.Triangulation
  Proofs.Mesh_base Proofs.Mesh_wf Proofs.Mesh_sites Proofs.Mesh_conf Proofs.Mesh_region Proofs.Mesh_atomic.
Import ListNotations.

Section Links.
  Context {K : Type} {NK : Num K}.
  Notation V := (V3 K).
  Notation TP := (TriPiece K).
  Notation Mesh := (Mesh K).

  (** ** exact geometry of edges *)
  Definition edge_pts (T : Tri K) (e : Edge) : V * V :=
    match e with Ab => (ta T, tb T) | Bc => (tb T, tc T) | Ca => (tc T, ta T) end.
  Definition rev2 (x : V * V) : V * V := (snd x, fst x).
  Definition pair_of (s : Seg K) : V * V := (sstart s, send s).
  Definition same_seg (p q : V * V) : Prop := p = q \/ p = rev2 q.
  Definition tri_distinct (T : Tri K) : Prop := ta T <> tb T /\ ta T <> tc T /\ tb T <> tc T.
  Definition tri_in (P : V -> Prop) (T : Tri K) : Prop := P (ta T) /\ P (tb T) /\ P (tc T).
  (** on [P], Point3D::compare decides equality *)
  Definition VSEP (P : V -> Prop) : Prop := forall x y, P x -> P y -> (vcompare x y = true <-> x = y).

  Lemma rev2_invol (x : V * V) : rev2 (rev2 x) = x. Proof. destruct x; reflexivity. Qed.
  Lemma same_seg_sym (p q : V * V) : same_seg p q -> same_seg q p.
  Proof. intros [E|E]; subst p; [left; reflexivity | right; symmetry; apply rev2_invol]. Qed.
  Lemma same_seg_rev (p q : V * V) : same_seg p q -> same_seg p (rev2 q).
  Proof. intros [E|E]; subst p; [right; symmetry; apply rev2_invol | left; reflexivity]. Qed.
  Lemma tri_segment_pts (T : Tri K) (e : Edge) : exists sg, tri_segment T (edge_as_i e) = Ok sg /\ pair_of sg = edge_pts T e.
  Proof. destruct e; eexists; split; reflexivity. Qed.
  Lemma edge_pts_in (P : V -> Prop) (T : Tri K) (e : Edge) : tri_in P T -> P (fst (edge_pts T e)) /\ P (snd (edge_pts T e)).
  Proof. intros (A & B & C). destruct e; cbn; auto. Qed.
  (** two edges of a triangle with distinct vertices never have the same two end points *)
  Lemma edge_unique (T : Tri K) (q : V * V) (e e2 : Edge) :
    tri_distinct T -> same_seg q (edge_pts T e) -> same_seg q (edge_pts T e2) -> e = e2.
  Proof.
    intros (D1 & D2 & D3) H1 H2. destruct q as [x y].
    destruct e, e2; try reflexivity; exfalso; unfold same_seg, rev2, edge_pts in H1, H2; cbn [fst snd] in H1, H2;
      destruct H1 as [H1|H1], H2 as [H2|H2]; inversion H1; inversion H2; subst; congruence.
  Qed.
  Lemma edge_pts_neq (T : Tri K) (e : Edge) : tri_distinct T -> fst (edge_pts T e) <> snd (edge_pts T e).
  Proof. intros (D1 & D2 & D3). destruct e; cbn; congruence. Qed.

  Section Sep.
    Variable P : V -> Prop.
    Hypothesis HP : VSEP P.
    Lemma seg_compare_exact (s o : Seg K) : P (sstart s) -> P (send s) -> P (sstart o) -> P (send o) ->
      (seg_compare s o = true <-> same_seg (pair_of s) (pair_of o)).
    Proof.
      intros A B C D. unfold seg_compare, same_seg, pair_of, rev2. cbn [fst snd]. rewrite orb_true_iff, !andb_true_iff.
      rewrite (HP _ _ A C), (HP _ _ B D), (HP _ _ B C), (HP _ _ A D). split.
      - intros [[E1 E2] | [E1 E2]]; rewrite E1, E2; [left | right]; reflexivity.
      - intros [E|E]; inversion E; subst; [left | right]; split; reflexivity.
    Qed.
    Lemma edge_index_sound (T : Tri K) (s : Seg K) (k : N) : tri_in P T -> P (sstart s) -> P (send s) ->
      tri_get_edge_index_from_segment T s = Some k -> exists e, k = edge_as_i e /\ same_seg (pair_of s) (edge_pts T e).
    Proof.
      intros (A & B & C) Hs He H. unfold tri_get_edge_index_from_segment in H.
      destruct (seg_compare s (tri_ab T)) eqn:E1; [inversion H; exists Ab; split; [reflexivity|]; apply (seg_compare_exact s (tri_ab T)); assumption|].
      destruct (seg_compare s (tri_bc T)) eqn:E2; [inversion H; exists Bc; split; [reflexivity|]; apply (seg_compare_exact s (tri_bc T)); assumption|].
      destruct (seg_compare s (tri_ca T)) eqn:E3; [inversion H; exists Ca; split; [reflexivity|]; apply (seg_compare_exact s (tri_ca T)); assumption|].
      discriminate.
    Qed.
    Lemma edge_index_complete (T : Tri K) (s : Seg K) (e : Edge) : tri_in P T -> tri_distinct T -> P (sstart s) -> P (send s) ->
      same_seg (pair_of s) (edge_pts T e) -> tri_get_edge_index_from_segment T s = Some (edge_as_i e).
    Proof.
      intros HT HD Hs He H. pose proof HT as (A & B & C). unfold tri_get_edge_index_from_segment.
      destruct (seg_compare s (tri_ab T)) eqn:E1.
      { apply (seg_compare_exact s (tri_ab T)) in E1; try assumption. rewrite (edge_unique T _ e Ab HD H E1). reflexivity. }
      destruct (seg_compare s (tri_bc T)) eqn:E2.
      { apply (seg_compare_exact s (tri_bc T)) in E2; try assumption. rewrite (edge_unique T _ e Bc HD H E2). reflexivity. }
      destruct (seg_compare s (tri_ca T)) eqn:E3.
      { apply (seg_compare_exact s (tri_ca T)) in E3; try assumption. rewrite (edge_unique T _ e Ca HD H E3). reflexivity. }
      exfalso. destruct e.
      - apply (seg_compare_exact s (tri_ab T)) in H; try assumption. congruence.
      - apply (seg_compare_exact s (tri_bc T)) in H; try assumption. congruence.
      - apply (seg_compare_exact s (tri_ca T)) in H; try assumption. congruence.
    Qed.
    (** the edge found is THE edge with these end points *)
    Lemma edge_index_exact (T : Tri K) (s : Seg K) (e : Edge) (k : N) : tri_in P T -> tri_distinct T -> P (sstart s) -> P (send s) ->
      same_seg (pair_of s) (edge_pts T e) -> tri_get_edge_index_from_segment T s = Some k -> k = edge_as_i e.
    Proof. intros HT HD Hs He H Hk. rewrite (edge_index_complete T s e HT HD Hs He H) in Hk. inversion Hk; reflexivity. Qed.
    Lemma tri_new_distinct (a b c : V) (T : Tri K) : P a -> P b -> P c -> tri_new a b c = Ok T -> tri_distinct T.
    Proof.
      intros A B C H. pose proof (tri_new_pts _ _ _ _ H) as E. unfold tri_pts in E. inversion E as [[Ea Eb Ec]]. unfold tri_new in H.
      destruct (vcompare a b) eqn:E1; [discriminate|]. destruct (vcompare a c) eqn:E2; [discriminate|]. destruct (vcompare b c) eqn:E3; [discriminate|].
      unfold tri_distinct. rewrite Ea, Eb, Ec. repeat split; intros Heq; [apply (HP _ _ A B) in Heq | apply (HP _ _ A C) in Heq | apply (HP _ _ B C) in Heq]; congruence.
    Qed.
  End Sep.

  (** ** the neighbour table and the live triangles of a mesh; the invariant *)
  Definition lk (M : Mesh) (j : nat) (e : Edge) : option nat :=
    match nth_error (tris M) j with Some t => tp_neighbour t e | None => None end.
  Definition lvM (M : Mesh) (j : nat) (T : Tri K) : Prop := lvT (skel (tris M)) j T.
  Definition good (M : Mesh) (j : nat) (e : Edge) (k : nat) : Prop :=
    k <> j /\ exists T U e', lvM M j T /\ lvM M k U /\ lk M k e' = Some j /\ edge_pts U e' = rev2 (edge_pts T e).
  (** every link of a live slot is good, or exempt ([B]: the entries a step in progress still has to overwrite) *)
  Definition G (B : nat -> Edge -> Prop) (M : Mesh) : Prop :=
    forall j T, lvM M j T -> forall e k, lk M j e = Some k -> B j e \/ good M j e k.
  Definition LNKG (M : Mesh) : Prop := forall j T, lvM M j T -> forall e k, lk M j e = Some k -> good M j e k.
  Definition mesh_vert (M : Mesh) (x : V) : Prop := exists j T, lvM M j T /\ (x = ta T \/ x = tb T \/ x = tc T).
  Definition SEP (M : Mesh) : Prop := VSEP (mesh_vert M).
  Definition DIST (M : Mesh) : Prop := forall j T, lvM M j T -> tri_distinct T.

  Lemma LNKG_G M : LNKG M -> G (fun _ _ => False) M.
  Proof. intros H j T L e k E. right. eapply H; eassumption. Qed.
  Lemma G_LNKG (B : nat -> Edge -> Prop) M : G B M -> (forall j T e k, lvM M j T -> lk M j e = Some k -> ~ B j e) -> LNKG M.
  Proof. intros H HB j T L e k E. destruct (H j T L e k E) as [A|A]; [exfalso; eapply HB; eassumption | exact A]. Qed.
  Lemma G_weaken (B B' : nat -> Edge -> Prop) M : (forall j e, B j e -> B' j e) -> G B M -> G B' M.
  Proof. intros HB H j T L e k E. destruct (H j T L e k E); auto. Qed.
  Lemma lvM_fun M j T U : lvM M j T -> lvM M j U -> T = U.
  Proof. unfold lvM, lvT. intros A B. rewrite A in B. inversion B. reflexivity. Qed.
  Lemma lvM_live M j T : lvM M j T -> live M j.
  Proof. intros H. destruct (lvT_slot _ _ _ H) as (t & A & B & _). exists t. split; assumption. Qed.
  Lemma mesh_vert_tri M j T : lvM M j T -> tri_in (mesh_vert M) T.
  Proof. intros H. repeat split; exists j, T; split; auto. Qed.
  Lemma LNKG_LNK M : LNKG M -> LNK M.
  Proof.
    intros H j t Hj Hv e k Hk. assert (L : lvM M j (tp_tri t)) by (apply slot_lvT; assumption).
    assert (E : lk M j e = Some k) by (unfold lk; rewrite Hj; exact Hk).
    destruct (H j _ L e k E) as (_ & T & U & e' & _ & LU & _). eapply lvM_live; exact LU.
  Qed.
  Lemma LNKG_WF_neq M j T e k : LNKG M -> lvM M j T -> lk M j e = Some k -> k <> j.
  Proof. intros H L E. exact (proj1 (H j T L e k E)). Qed.

  (** [G] only looks at the skeleton and the neighbour table *)
  Lemma G_ext (B : nat -> Edge -> Prop) M M' : skel (tris M') = skel (tris M) -> (forall j e, lk M' j e = lk M j e) -> G B M -> G B M'.
  Proof.
    intros Hs Hl H j T L e k E. unfold lvM in *. rewrite Hs in L. rewrite Hl in E. destruct (H j T L e k E) as [A | (A1 & T' & U & e' & A2 & A3 & A4 & A5)]; [left; exact A|].
    right. split; [exact A1|]. exists T', U, e'. unfold lvM. rewrite Hs, Hl. repeat split; assumption.
  Qed.

  (** ** transitions *)
  Lemma lk_invalidate (i : nat) (M M' : Mesh) (r : res unit) : mesh_invalidate i M = (M', r) -> forall j e, lk M' j e = lk M j e.
  Proof.
    intros H j e. unfold mesh_invalidate in H. destruct (Nat.ltb _ _); [|inversion H; reflexivity].
    assert (E : tris M' = upd i tp_invalidate (tris M)) by (destruct (nvalid M); inversion H; reflexivity).
    unfold lk. rewrite E, nth_error_upd. destruct (Nat.eqb i j); [|reflexivity].
    destruct (nth_error (tris M) j) as [t|]; cbn [option_map]; [apply invalidate_neighbours | reflexivity].
  Qed.
  Lemma lv_invalidate (i : nat) (t : TP) (M M' : Mesh) : nth_error (tris M) i = Some t -> mesh_invalidate i M = (M', Ok tt) ->
    forall j T, lvM M' j T <-> (lvM M j T /\ j <> i).
  Proof.
    intros Et H j T. destruct (invalidate_slot _ _ _ _ Et H) as (E & _). unfold lvM, lvT. rewrite !skel_nth, E, nth_error_upd.
    destruct (Nat.eqb_spec i j) as [->|Hne].
    - rewrite Et. cbn [option_map tp_invalidate tp_tri tp_valid]. split; [intros A; inversion A | intros [_ A]; exfalso; apply A; reflexivity].
    - split; [intros A; split; [exact A | congruence] | intros [A _]; exact A].
  Qed.
  Lemma push_nth (a b c : V) (la : nat) (M M' : Mesh) (n : nat) :
    mesh_push a b c la M = (M', Ok n) -> forall j, j <> n -> nth_error (tris M') j = nth_error (tris M) j.
  Proof.
    intros H j Hj. unfold mesh_push in H. destruct (get_first_invalid M la) as [k|] eqn:Eg.
    - destruct (tp_new a b c k) as [t| |]; inversion H; subst. cbn [tris]. rewrite nth_error_set_nth. destruct (Nat.eqb_spec n j); [exfalso; apply Hj; congruence | reflexivity].
    - destruct (tp_new a b c (length (tris M))) as [t| |]; inversion H; subst. cbn [tris].
      destruct (Nat.lt_ge_cases j (length (tris M))) as [Hlt|Hge]; [rewrite nth_error_app1 by exact Hlt; reflexivity|].
      assert (E1 : nth_error (tris M) j = None) by (apply nth_error_None; lia). rewrite E1. apply nth_error_None. rewrite app_length. cbn [length]. lia.
  Qed.
  Lemma push_lk_lv (a b c : V) (la : nat) (M M' : Mesh) (n : nat) :
    mesh_push a b c la M = (M', Ok n) ->
    exists T, tri_new a b c = Ok T /\ lvM M' n T /\ (forall e, lk M' n e = None) /\ (forall U, ~ lvM M n U) /\
      (forall j, j <> n -> (forall e, lk M' j e = lk M j e) /\ (forall U, lvM M' j U <-> lvM M j U)).
  Proof.
    intros H. destruct (push_tri _ _ _ _ _ _ _ H) as ((t & Et & Vt & Qt) & _). destruct (push_slot _ _ _ _ _ _ _ H) as (D & _ & _ & _ & _ & Hnew).
    exists (tp_tri t). split; [exact Qt|]. split; [apply slot_lvT; assumption|]. split; [intros e; unfold lk; rewrite Et; apply (Hnew t Et)|].
    split; [intros U L; apply D; eapply lvM_live; exact L|].
    intros j Hj. pose proof (push_nth _ _ _ _ _ _ _ H j Hj) as E. split; [intros e; unfold lk; rewrite E; reflexivity|].
    intros U. unfold lvM, lvT. rewrite !skel_nth, E. reflexivity.
  Qed.

  Lemma G_invalidate (B : nat -> Edge -> Prop) (i : nat) (t : TP) (M M' : Mesh) :
    nth_error (tris M) i = Some t -> mesh_invalidate i M = (M', Ok tt) -> G B M -> G (fun j e => B j e \/ lk M j e = Some i) M'.
  Proof.
    intros Et H HG j T L e k E. pose proof (lv_invalidate _ _ _ _ Et H) as Hlv. pose proof (lk_invalidate _ _ _ _ H) as Hlk.
    apply Hlv in L. destruct L as [L Hji]. rewrite Hlk in E.
    destruct (Nat.eq_dec k i) as [->|Hki]; [left; right; exact E|].
    destruct (HG j T L e k E) as [A | (A1 & T' & U & e' & A2 & A3 & A4 & A5)]; [left; left; exact A|].
    right. split; [exact A1|]. exists T', U, e'. rewrite Hlk. repeat split; try assumption; apply Hlv; split; assumption.
  Qed.
  Lemma G_push (B : nat -> Edge -> Prop) (a b c : V) (la : nat) (M M' : Mesh) (n : nat) :
    mesh_push a b c la M = (M', Ok n) -> G B M -> G B M'.
  Proof.
    intros H HG j T L e k E. destruct (push_lk_lv _ _ _ _ _ _ _ H) as (Tn & _ & Ln & Hnone & Hdead & Hold).
    destruct (Nat.eq_dec j n) as [->|Hjn]; [rewrite Hnone in E; discriminate|].
    destruct (Hold j Hjn) as [Hl Hv]. rewrite Hl in E. apply Hv in L.
    destruct (HG j T L e k E) as [A | (A1 & T' & U & e' & A2 & A3 & A4 & A5)]; [left; exact A|].
    assert (Hkn : k <> n) by (intros ->; exact (Hdead U A3)). destruct (Hold k Hkn) as [Hl' Hv'].
    right. split; [exact A1|]. exists T', U, e'. rewrite Hl'. repeat split; try assumption; [apply Hv; exact A2 | apply Hv'; exact A3].
  Qed.

  (** ** the deterministic [mark_as_neighbours] *)
  Lemma edge_eq_dec (e e' : Edge) : {e = e'} + {e <> e'}.
  Proof. decide equality. Qed.
  Lemma lk_upd_set (i : nat) (e0 : Edge) (v : nat) (l : list TP) (nv : nat) (j : nat) (e : Edge) : i < length l ->
    lk (mkMesh (upd i (tp_set_neighbour e0 v) l) nv) j e = if Nat.eq_dec j i then (if edge_eq_dec e e0 then Some v else lk (mkMesh l nv) j e) else lk (mkMesh l nv) j e.
  Proof.
    intros Hi. unfold lk. cbn [tris]. rewrite nth_error_upd. destruct (Nat.eq_dec j i) as [->|Hne].
    - rewrite Nat.eqb_refl. destruct (nth_error l i) as [t|] eqn:Et; [|apply nth_error_None in Et; lia]. cbn [option_map].
      destruct (edge_eq_dec e e0) as [->|He]; [destruct e0; reflexivity | destruct e0, e; try reflexivity; exfalso; apply He; reflexivity].
    - destruct (Nat.eqb_spec i j); [exfalso; apply Hne; congruence | reflexivity].
  Qed.
  Lemma mark_exact (i1 : nat) (e1 : Edge) (i2 : nat) (T1 T2 : Tri K) (k0 : Edge) (M M' : Mesh) :
    lvM M i1 T1 -> lvM M i2 T2 -> i1 <> i2 ->
    (forall sg k, tri_segment T1 (edge_as_i e1) = Ok sg -> tri_get_edge_index_from_segment T2 sg = Some k -> k = edge_as_i k0) ->
    mark_as_neighbours i1 e1 i2 M = (M', Ok tt) ->
    skel (tris M') = skel (tris M) /\
    lk M' i1 e1 = Some i2 /\ lk M' i2 k0 = Some i1 /\
    (forall j e, ~ (j = i1 /\ e = e1) -> ~ (j = i2 /\ e = k0) -> lk M' j e = lk M j e).
  Proof.
    intros L1 L2 Hne Hdet H. pose proof (sk_mark _ _ _ _ _ _ H) as Hsk. split; [exact Hsk|].
    destruct (lvT_slot _ _ _ L1) as (t1 & E1 & V1 & Q1). destruct (lvT_slot _ _ _ L2) as (t2 & E2 & V2 & Q2).
    unfold mark_as_neighbours in H. destruct (Nat.eqb_spec i1 i2) as [Heq|_]; [contradiction|].
    apply bind_get_ok in H. destruct H as (t1' & E1' & H). rewrite E1 in E1'. inversion E1'; subst t1'. clear E1'.
    rewrite V1 in H. cbn [negb] in H.
    apply bind_lift_ok in H. destruct H as (sg & Es & H).
    apply bind_get_ok in H. destruct H as (t2' & E2' & H). rewrite E2 in E2'. inversion E2'; subst t2'. clear E2'.
    rewrite V2 in H. cbn [negb] in H.
    apply bind_lift_ok in H. destruct H as (k & Ek & H).
    destruct (tri_get_edge_index_from_segment (tp_tri t2) sg) as [k'|] eqn:Ek'; inversion Ek; subst k'. clear Ek.
    rewrite Q1 in Es. rewrite Q2 in Ek'. pose proof (Hdet sg k Es Ek') as Hk. subst k.
    apply bind_lift_ok in H. destruct H as (ed & Eed & H).
    assert (ed = k0) by (destruct k0; cbn in Eed; inversion Eed; reflexivity). subst ed.
    assert (A1 : i1 < length (tris M)) by (apply nth_error_Some; congruence).
    assert (A2 : i2 < length (tris M)) by (apply nth_error_Some; congruence).
    unfold mbind, mupd in H. pose proof A1 as A1'. pose proof A2 as A2'. apply Nat.ltb_lt in A1', A2'. rewrite A1' in H. cbn [tris nvalid] in H. rewrite upd_length, A2' in H.
    inversion H; subst M'. clear H.
    assert (F : forall j e, lk (mkMesh (upd i2 (tp_set_neighbour k0 i1) (upd i1 (tp_set_neighbour e1 i2) (tris M))) (nvalid M)) j e =
                  if Nat.eq_dec j i2 then (if edge_eq_dec e k0 then Some i1 else lk M j e)
                  else if Nat.eq_dec j i1 then (if edge_eq_dec e e1 then Some i2 else lk M j e) else lk M j e).
    { intros j e. rewrite lk_upd_set by (rewrite upd_length; exact A2). rewrite lk_upd_set by exact A1.
      assert (EM : forall j e, lk (mkMesh (tris M) (nvalid M)) j e = lk M j e) by reflexivity. rewrite !EM.
      destruct (Nat.eq_dec j i2) as [->|]; [|reflexivity]. destruct (Nat.eq_dec i2 i1); [exfalso; apply Hne; congruence | reflexivity]. }
    split; [|split].
    - rewrite F. destruct (Nat.eq_dec i1 i2); [contradiction|]. destruct (Nat.eq_dec i1 i1); [|congruence]. destruct (edge_eq_dec e1 e1); [reflexivity | congruence].
    - rewrite F. destruct (Nat.eq_dec i2 i2); [|congruence]. destruct (edge_eq_dec k0 k0); [reflexivity | congruence].
    - intros j e N1 N2. rewrite F. destruct (Nat.eq_dec j i2) as [->|].
      + destruct (edge_eq_dec e k0) as [->|]; [exfalso; apply N2; split; reflexivity | reflexivity].
      + destruct (Nat.eq_dec j i1) as [->|]; [|reflexivity]. destruct (edge_eq_dec e e1) as [->|]; [exfalso; apply N1; split; reflexivity | reflexivity].
  Qed.

  (** the link step of the invariant: the two entries written become mates; nothing else breaks *)
  Lemma G_mark (B : nat -> Edge -> Prop) (i1 : nat) (e1 : Edge) (i2 : nat) (T1 T2 : Tri K) (k0 : Edge) (M M' : Mesh) :
    G B M -> lvM M i1 T1 -> lvM M i2 T2 -> i1 <> i2 ->
    (forall sg k, tri_segment T1 (edge_as_i e1) = Ok sg -> tri_get_edge_index_from_segment T2 sg = Some k -> k = edge_as_i k0) ->
    edge_pts T2 k0 = rev2 (edge_pts T1 e1) ->
    lk M i1 e1 = None ->
    (forall x U e'', lk M i2 k0 = Some x -> lvM M x U -> edge_pts U e'' = rev2 (edge_pts T2 k0) -> x = i1 /\ e'' = e1) ->
    mark_as_neighbours i1 e1 i2 M = (M', Ok tt) ->
    G (fun j e => B j e /\ ~ (j = i2 /\ e = k0) /\ ~ (j = i1 /\ e = e1)) M' /\ skel (tris M') = skel (tris M) /\
    lk M' i1 e1 = Some i2 /\ lk M' i2 k0 = Some i1 /\
    (forall j e, ~ (j = i1 /\ e = e1) -> ~ (j = i2 /\ e = k0) -> lk M' j e = lk M j e).
  Proof.
    intros HG L1 L2 Hne Hdet Hgeo Hnone Hvict H.
    destruct (mark_exact _ _ _ _ _ _ _ _ L1 L2 Hne Hdet H) as (Hsk & F1 & F2 & F3). split; [|repeat split; assumption].
    assert (Hlv : forall j T, lvM M' j T <-> lvM M j T) by (intros j T; unfold lvM; rewrite Hsk; reflexivity).
    intros j T L e k E. apply Hlv in L.
    destruct (Nat.eq_dec j i2) as [->|Hj2].
    { destruct (edge_eq_dec e k0) as [->|He].
      - rewrite F2 in E. inversion E; subst k. right. split; [exact Hne|]. exists T, T1, e1. rewrite (lvM_fun _ _ _ _ L L2).
        repeat split; [apply Hlv; exact L2 | apply Hlv; exact L1 | exact F1 | rewrite Hgeo; symmetry; apply rev2_invol].
      - assert (N1 : ~ (i2 = i1 /\ e = e1)) by (intros [A _]; apply Hne; congruence). assert (N2 : ~ (i2 = i2 /\ e = k0)) by (intros [_ A]; contradiction).
        rewrite (F3 _ _ N1 N2) in E. destruct (HG i2 T L e k E) as [A | (A1 & T' & U & e' & A2 & A3 & A4 & A5)]; [left; split; [exact A | split; assumption]|].
        right. split; [exact A1|]. exists T', U, e'. repeat split; try (apply Hlv; assumption); [|exact A5].
        assert (M1 : ~ (k = i1 /\ e' = e1)) by (intros [-> ->]; rewrite Hnone in A4; discriminate).
        assert (M2 : ~ (k = i2 /\ e' = k0)) by (intros [A _]; contradiction).
        rewrite (F3 _ _ M1 M2). exact A4. }
    destruct (Nat.eq_dec j i1) as [->|Hj1].
    { destruct (edge_eq_dec e e1) as [->|He].
      - rewrite F1 in E. inversion E; subst k. right. split; [intros A; apply Hne; congruence|]. exists T, T2, k0. rewrite (lvM_fun _ _ _ _ L L1).
        repeat split; [apply Hlv; exact L1 | apply Hlv; exact L2 | exact F2 | exact Hgeo].
      - assert (N1 : ~ (i1 = i1 /\ e = e1)) by (intros [_ A]; contradiction). assert (N2 : ~ (i1 = i2 /\ e = k0)) by (intros [A _]; contradiction).
        rewrite (F3 _ _ N1 N2) in E. destruct (HG i1 T L e k E) as [A | (A1 & T' & U & e' & A2 & A3 & A4 & A5)]; [left; split; [exact A | split; assumption]|].
        right. split; [exact A1|]. exists T', U, e'. repeat split; try (apply Hlv; assumption); [|exact A5].
        assert (M1 : ~ (k = i1 /\ e' = e1)) by (intros [A _]; contradiction).
        assert (M2 : ~ (k = i2 /\ e' = k0)).
        { intros [-> ->]. destruct (Hvict i1 T' e A4 A2) as [_ B']; [rewrite (lvM_fun _ _ _ _ A3 L2) in A5; rewrite A5; rewrite rev2_invol; reflexivity | contradiction]. }
        rewrite (F3 _ _ M1 M2). exact A4. }
    assert (N1 : ~ (j = i1 /\ e = e1)) by (intros [A _]; contradiction). assert (N2 : ~ (j = i2 /\ e = k0)) by (intros [A _]; contradiction).
    rewrite (F3 _ _ N1 N2) in E. destruct (HG j T L e k E) as [A | (A1 & T' & U & e' & A2 & A3 & A4 & A5)]; [left; split; [exact A | split; assumption]|].
    right. split; [exact A1|]. exists T', U, e'. repeat split; try (apply Hlv; assumption); [|exact A5].
    assert (M1 : ~ (k = i1 /\ e' = e1)) by (intros [-> ->]; rewrite Hnone in A4; discriminate).
    assert (M2 : ~ (k = i2 /\ e' = k0)).
    { intros [-> ->]. destruct (Hvict j T' e A4 A2) as [B' _]; [rewrite (lvM_fun _ _ _ _ A3 L2) in A5; rewrite A5; rewrite rev2_invol; reflexivity | contradiction]. }
    rewrite (F3 _ _ M1 M2). exact A4.
  Qed.

  (** the same with the determinism of the edge search derived from separation *)
  Lemma G_mark_sep (P : V -> Prop) (B : nat -> Edge -> Prop) (i1 : nat) (e1 : Edge) (i2 : nat) (T1 T2 : Tri K) (k0 : Edge) (M M' : Mesh) :
    VSEP P -> tri_in P T1 -> tri_in P T2 -> tri_distinct T2 ->
    G B M -> lvM M i1 T1 -> lvM M i2 T2 -> i1 <> i2 ->
    edge_pts T2 k0 = rev2 (edge_pts T1 e1) ->
    lk M i1 e1 = None ->
    (forall x U e'', lk M i2 k0 = Some x -> lvM M x U -> edge_pts U e'' = edge_pts T1 e1 -> x = i1 /\ e'' = e1) ->
    mark_as_neighbours i1 e1 i2 M = (M', Ok tt) ->
    G (fun j e => B j e /\ ~ (j = i2 /\ e = k0) /\ ~ (j = i1 /\ e = e1)) M' /\ skel (tris M') = skel (tris M) /\
    lk M' i1 e1 = Some i2 /\ lk M' i2 k0 = Some i1 /\
    (forall j e, ~ (j = i1 /\ e = e1) -> ~ (j = i2 /\ e = k0) -> lk M' j e = lk M j e).
  Proof.
    intros HP I1 I2 D2 HG L1 L2 Hne Hgeo Hnone Hvict H.
    apply (G_mark B i1 e1 i2 T1 T2 k0 M M' HG L1 L2 Hne); try assumption.
    - intros sg k Es Ek. destruct (tri_segment_pts T1 e1) as (sg' & Es' & Ep). rewrite Es in Es'. inversion Es'; subst sg'.
      destruct (edge_pts_in P T1 e1 I1) as [Q1 Q2]. rewrite <- Ep in Q1, Q2. cbn [pair_of fst snd] in Q1, Q2.
      apply (edge_index_exact P HP T2 sg k0 k I2 D2 Q1 Q2); [|exact Ek]. right. rewrite Ep, Hgeo, rev2_invol. reflexivity.
    - intros x U e'' A1 A2 A3. apply (Hvict x U e'' A1 A2). rewrite A3, Hgeo, rev2_invol. reflexivity.
  Qed.

  (** ** rotation of the edges of a triangle *)
  Definition next_e (e : Edge) : Edge := match e with Ab => Bc | Bc => Ca | Ca => Ab end.
  Definition opp_v (T : Tri K) (e : Edge) : V := match e with Ab => tc T | Bc => ta T | Ca => tb T end.
  Lemma edge_pts_next (T : Tri K) (e : Edge) :
    edge_pts T (next_e e) = (snd (edge_pts T e), opp_v T e) /\ edge_pts T (next_e (next_e e)) = (opp_v T e, fst (edge_pts T e)).
  Proof. destruct e; split; reflexivity. Qed.
  Lemma edges_all (e x : Edge) : x = e \/ x = next_e e \/ x = next_e (next_e e).
  Proof. destruct e, x; cbn; auto. Qed.
  Lemma opp_v_in (P : V -> Prop) (T : Tri K) (e : Edge) : tri_in P T -> P (opp_v T e).
  Proof. intros (A & B & C). destruct e; assumption. Qed.
  Lemma tri_distinct_edge (T : Tri K) (e : Edge) : tri_distinct T ->
    fst (edge_pts T e) <> snd (edge_pts T e) /\ fst (edge_pts T e) <> opp_v T e /\ snd (edge_pts T e) <> opp_v T e.
  Proof. intros (A & B & C). destruct e; cbn; repeat split; congruence. Qed.
  Lemma opposite_exact (P : V -> Prop) (T : Tri K) (s : Seg K) (e : Edge) (o : V) :
    VSEP P -> tri_in P T -> tri_distinct T -> P (sstart s) -> P (send s) -> same_seg (pair_of s) (edge_pts T e) ->
    get_opposite_vertex T s = Ok o -> o = opp_v T e.
  Proof.
    intros HP I D Q1 Q2 Hs H. unfold get_opposite_vertex in H. rewrite (edge_index_complete P HP T s e I D Q1 Q2 Hs) in H.
    destruct e; cbn in H; inversion H; reflexivity.
  Qed.
  Lemma edge_of_points_exact (P : V -> Prop) (site : N) (T : Tri K) (x y : V) (e0 e : Edge) :
    VSEP P -> tri_in P T -> tri_distinct T -> P x -> P y -> same_seg (x, y) (edge_pts T e0) -> edge_of_points site T x y = Ok e -> e = e0.
  Proof.
    intros HP I D Qx Qy Hs H. unfold edge_of_points, tri_get_edge_index_from_points in H.
    rewrite (edge_index_complete P HP T (seg_new x y) e0 I D Qx Qy Hs) in H. destruct e0; cbn in H; inversion H; reflexivity.
  Qed.
  Lemma edge_of_points_err_exact (P : V -> Prop) (T : Tri K) (x y : V) (e0 e : Edge) :
    VSEP P -> tri_in P T -> tri_distinct T -> P x -> P y -> same_seg (x, y) (edge_pts T e0) -> edge_of_points_err T x y = Ok e -> e = e0.
  Proof.
    intros HP I D Qx Qy Hs H. unfold edge_of_points_err, tri_get_edge_index_from_points in H.
    rewrite (edge_index_complete P HP T (seg_new x y) e0 I D Qx Qy Hs) in H. destruct e0; cbn in H; inversion H; reflexivity.
  Qed.
  Lemma good_inv (M : Mesh) (j : nat) (T : Tri K) (e : Edge) (n : nat) : LNKG M -> lvM M j T -> lk M j e = Some n ->
    n <> j /\ exists U k, lvM M n U /\ lk M n k = Some j /\ edge_pts U k = rev2 (edge_pts T e).
  Proof.
    intros H L E. destruct (H j T L e n E) as (A1 & T' & U & e' & A2 & A3 & A4 & A5). split; [exact A1|]. exists U, e'.
    rewrite (lvM_fun _ _ _ _ L A2). repeat split; assumption.
  Qed.

  (** ** building blocks for the linking suffix of a step *)
  (** an optional link ([match o with Some n => mark_as_neighbours i1 e1 n | None => mret tt end]) *)
  Definition Wr (o : option nat) (i1 : nat) (e1 k0 : Edge) (j : nat) (e : Edge) : Prop :=
    o <> None /\ ((j = i1 /\ e = e1) \/ (o = Some j /\ e = k0)).
  Lemma G_mark_opt (P : V -> Prop) (B : nat -> Edge -> Prop) (o : option nat) (i1 : nat) (e1 : Edge) (T1 : Tri K) (M M' : Mesh) :
    VSEP P -> tri_in P T1 -> G B M -> lvM M i1 T1 -> lk M i1 e1 = None ->
    (forall n, o = Some n -> exists T2 k0, tri_in P T2 /\ tri_distinct T2 /\ lvM M n T2 /\ i1 <> n /\ edge_pts T2 k0 = rev2 (edge_pts T1 e1) /\
       (forall x U e'', lk M n k0 = Some x -> lvM M x U -> edge_pts U e'' = edge_pts T1 e1 -> x = i1 /\ e'' = e1)) ->
    match o with Some n => mark_as_neighbours i1 e1 n | None => mret tt end M = (M', Ok tt) ->
    exists k0,
    G (fun j e => B j e /\ ~ Wr o i1 e1 k0 j e) M' /\ skel (tris M') = skel (tris M) /\
    (forall j e, ~ Wr o i1 e1 k0 j e -> lk M' j e = lk M j e) /\
    (forall n, o = Some n -> lk M' i1 e1 = Some n /\ lk M' n k0 = Some i1 /\ exists T2, lvM M n T2 /\ edge_pts T2 k0 = rev2 (edge_pts T1 e1)).
  Proof.
    intros HP I1 HG L1 Hnone Hn H. destruct o as [n|].
    - destruct (Hn n eq_refl) as (T2 & k0 & I2 & D2 & L2 & Hne & Hgeo & Hvict). exists k0.
      destruct (G_mark_sep P B i1 e1 n T1 T2 k0 M M' HP I1 I2 D2 HG L1 L2 Hne Hgeo Hnone Hvict H) as (A1 & A2 & A3 & A4 & A5).
      split; [|split; [exact A2 | split]].
      + revert A1. apply G_weaken. intros j e (Q1 & Q2 & Q3). split; [exact Q1|]. intros (_ & [Q | (Q & Q')]); [apply Q3; exact Q | apply Q2; inversion Q; split; [reflexivity | exact Q']].
      + intros j e Hw. apply A5; intros [Q Q']; apply Hw; (split; [discriminate|]); [left; split; assumption | right; split; [congruence | assumption]].
      + intros n' E. inversion E; subst n'. split; [exact A3 | split; [exact A4 | exists T2; split; assumption]].
    - exists Ab. inversion H; subst M'. split; [|split; [reflexivity | split; [reflexivity | intros n E; discriminate]]].
      revert HG. apply G_weaken. intros j e Q. split; [exact Q | intros (Q' & _); apply Q'; reflexivity].
  Qed.
  (** constrain steps change neither the skeleton nor the neighbour table *)
  Lemma constrain_same (b : bool) (s : N) (i : nat) (e0 : Edge) (M M' : Mesh) (r : res unit) :
    mwhen b (mupd s i (tp_constrain e0)) M = (M', r) -> skel (tris M') = skel (tris M) /\ forall j e, lk M' j e = lk M j e.
  Proof.
    intros H. destruct b; [|inversion H; split; reflexivity]. cbn [mwhen] in H.
    split; [exact (sk_mupd s i (tp_constrain e0) (constrain_tri e0) (constrain_valid e0) _ _ _ H)|].
    intros j e. unfold mupd in H. destruct (Nat.ltb _ _); inversion H; subst; [|reflexivity].
    unfold lk. cbn [tris]. rewrite nth_error_upd. destruct (Nat.eqb i j); [|reflexivity].
    destruct (nth_error (tris M) j); cbn [option_map]; [apply constrain_neighbours | reflexivity].
  Qed.
  Lemma lvM_skel (M M' : Mesh) : skel (tris M') = skel (tris M) -> forall j T, lvM M' j T <-> lvM M j T.
  Proof. intros H j T. unfold lvM. rewrite H. reflexivity. Qed.
  (** a slot that has been invalidated, and the other slots *)
  Lemma invalidate_dead (i : nat) (t : TP) (M M' : Mesh) : nth_error (tris M) i = Some t -> mesh_invalidate i M = (M', Ok tt) ->
    (exists u, nth_error (tris M') i = Some u /\ tp_valid u = false) /\ (forall j, j <> i -> nth_error (tris M') j = nth_error (tris M) j).
  Proof.
    intros Et H. destruct (invalidate_slot _ _ _ _ Et H) as (E & _). split.
    - exists (tp_invalidate t). rewrite E, nth_error_upd, Nat.eqb_refl, Et. split; reflexivity.
    - intros j Hj. rewrite E, nth_error_upd. destruct (Nat.eqb_spec i j); [exfalso; apply Hj; congruence | reflexivity].
  Qed.
  Lemma flip_abc (T : Tri K) (e : Edge) (a b c : V) :
    tri_vertex T (N.modulo (edge_as_i e) 3) = Ok a -> tri_vertex T (N.modulo (edge_as_i e + 1) 3) = Ok b -> tri_vertex T (N.modulo (edge_as_i e + 2) 3) = Ok c ->
    edge_pts T e = (a, b) /\ opp_v T e = c.
  Proof. destruct e; vm_compute; intros H1 H2 H3; inversion H1; inversion H2; inversion H3; split; reflexivity. Qed.

  (** ** the same lemmas up to steps that change neither skeleton nor neighbour table (the constrain steps) *)
  Definition Meq (M M' : Mesh) : Prop := skel (tris M') = skel (tris M) /\ forall j e, lk M' j e = lk M j e.
  Lemma Meq_refl M : Meq M M. Proof. split; reflexivity. Qed.
  Lemma Meq_trans M1 M2 M3 : Meq M1 M2 -> Meq M2 M3 -> Meq M1 M3.
  Proof. intros [A1 A2] [B1 B2]. split; [rewrite B1; exact A1 | intros j e; rewrite B2; apply A2]. Qed.
  Lemma Meq_constrain (b : bool) (s : N) (i : nat) (e0 : Edge) (M M' : Mesh) (r : res unit) : mwhen b (mupd s i (tp_constrain e0)) M = (M', r) -> Meq M M'.
  Proof. apply constrain_same. Qed.
  Lemma Wr_dec (o : option nat) (i1 : nat) (e1 k0 : Edge) (j : nat) (e : Edge) : Wr o i1 e1 k0 j e \/ ~ Wr o i1 e1 k0 j e.
  Proof.
    unfold Wr. destruct o as [n|]; [|right; intros [Q _]; apply Q; reflexivity].
    destruct (Nat.eq_dec j i1) as [->|A]; [destruct (edge_eq_dec e e1) as [->|A']; [left; split; [discriminate | left; split; reflexivity]|]|].
    - destruct (Nat.eq_dec i1 n) as [->|B']; [destruct (edge_eq_dec e k0) as [->|B'']; [left; split; [discriminate | right; split; reflexivity]|]|].
      + right. intros (_ & [[_ Q] | [_ Q]]); contradiction.
      + right. intros (_ & [[_ Q] | [Q _]]); [contradiction | inversion Q; congruence].
    - destruct (Nat.eq_dec j n) as [->|B']; [destruct (edge_eq_dec e k0) as [->|B'']; [left; split; [discriminate | right; split; reflexivity]|]|].
      + right. intros (_ & [[Q _] | [_ Q]]); contradiction.
      + right. intros (_ & [[Q _] | [Q _]]); [contradiction | inversion Q; congruence].
  Qed.
  Lemma G_mark_opt_gen (P : V -> Prop) (B : nat -> Edge -> Prop) (o : option nat) (i1 : nat) (e1 : Edge) (T1 : Tri K) (M Ma Mb M' : Mesh) :
    VSEP P -> tri_in P T1 -> G B M -> lvM M i1 T1 -> lk M i1 e1 = None ->
    (forall n, o = Some n -> exists T2 k0, tri_in P T2 /\ tri_distinct T2 /\ lvM M n T2 /\ i1 <> n /\ edge_pts T2 k0 = rev2 (edge_pts T1 e1) /\
       (forall x U e'', lk M n k0 = Some x -> lvM M x U -> edge_pts U e'' = edge_pts T1 e1 -> x = i1 /\ e'' = e1)) ->
    Meq M Ma -> match o with Some n => mark_as_neighbours i1 e1 n | None => mret tt end Ma = (Mb, Ok tt) -> Meq Mb M' ->
    exists k0,
    G (fun j e => B j e /\ ~ Wr o i1 e1 k0 j e) M' /\ skel (tris M') = skel (tris M) /\
    (forall j e, ~ Wr o i1 e1 k0 j e -> lk M' j e = lk M j e) /\
    (forall n, o = Some n -> lk M' i1 e1 = Some n /\ lk M' n k0 = Some i1 /\ exists T2, lvM M n T2 /\ edge_pts T2 k0 = rev2 (edge_pts T1 e1)).
  Proof.
    intros HP I1 HG L1 Hnone Hn [Sa La] H [Sb Lb].
    assert (HGa : G B Ma) by (eapply G_ext; eassumption).
    assert (L1a : lvM Ma i1 T1) by (apply (lvM_skel _ _ Sa); exact L1).
    assert (Hnonea : lk Ma i1 e1 = None) by (rewrite La; exact Hnone).
    assert (Hna : forall n, o = Some n -> exists T2 k0, tri_in P T2 /\ tri_distinct T2 /\ lvM Ma n T2 /\ i1 <> n /\ edge_pts T2 k0 = rev2 (edge_pts T1 e1) /\
       (forall x U e'', lk Ma n k0 = Some x -> lvM Ma x U -> edge_pts U e'' = edge_pts T1 e1 -> x = i1 /\ e'' = e1)).
    { intros n E. destruct (Hn n E) as (T2 & k0 & A1 & A2 & A3 & A4 & A5 & A6). exists T2, k0.
      split; [exact A1|]. split; [exact A2|]. split; [apply (lvM_skel _ _ Sa); exact A3|]. split; [exact A4|]. split; [exact A5|].
      intros x U e'' Q1 Q2 Q3. apply (A6 x U e''); [rewrite <- La; exact Q1 | apply (lvM_skel _ _ Sa); exact Q2 | exact Q3]. }
    destruct (G_mark_opt P B o i1 e1 T1 Ma Mb HP I1 HGa L1a Hnonea Hna H) as (k0 & A1 & A2 & A3 & A4). exists k0.
    split; [eapply G_ext; eassumption|]. split; [rewrite Sb, A2; exact Sa|]. split.
    - intros j e Hw. rewrite Lb, (A3 j e Hw). apply La.
    - intros n E. destruct (A4 n E) as (Q1 & Q2 & T2 & Q3 & Q4). rewrite !Lb. split; [exact Q1 | split; [exact Q2|]]. exists T2. split; [apply (lvM_skel _ _ Sa); exact Q3 | exact Q4].
  Qed.

  Lemma G_weaken_live (B B' : nat -> Edge -> Prop) M :
    (forall j T e k, lvM M j T -> lk M j e = Some k -> B j e -> B' j e) -> G B M -> G B' M.
  Proof. intros HB H j T L e k E. destruct (H j T L e k E) as [A|A]; [left; eapply HB; eassumption | right; exact A]. Qed.
  Lemma edge_add_next (e : Edge) : edge_add e 1 = Ok (next_e e) /\ edge_add e 2 = Ok (next_e (next_e e)).
  Proof. destruct e; split; reflexivity. Qed.
  Lemma edge_from_as (e : Edge) : edge_from_i (edge_as_i e) = Ok e.
  Proof. destruct e; reflexivity. Qed.
End Links.
