(** * C12 proofs, part 2: the explicit form of the hole walk, and the edge-sum identity of a splice.

    (d) What is needed from the theory library for the area / winding consequences has exactly this
    shape: for an edge functional [phi : V -> V -> R] that is ANTISYMMETRIC ([phi a b = - phi b a]) --
    each component of the cross product [a x b] (Newell / shoelace sum), and the signed angle under
    which the edge ab is seen from a query point q (winding number) are such functionals --
    the cyclic sum over the merged outline is

        cyc_sum phi (splice outer me (walk hole id)) = cyc_sum phi outer -+ cyc_sum phi hole

    (minus when the hole is wound like the outline, plus otherwise): the two bridge edges e->h and
    h->e cancel ([edge_sum_splice] below, proved here directly by list induction).  With [Theory/Shoelace.v]
    ([newell] = cyc_sum of the cross product, area = |n . newell| / 2) and [Theory/Winding.v] ([wn q] = cyc_sum of the
    angle functional / 2 pi; lemma [wn_bridge]) this yields  area(merged) = area(outer) - sum area(holes)
    and  wn(merged, q) = wn(outer, q) - sum wn(holes, q)  once the holes are known to be wound against /
    normalised to the outer orientation, which is what the [same_dir] switch of the walk does. *)
From Coq Require Import ZArith Reals Lra Bool List Arith Lia.
From G3 Require Import Model.Num Model.Base Model.Vec Model.Segment Model.Loop Model.Polygon Model.PolyAux Theory.RInst Proofs.C12_merge.
Import ListNotations.

Section ListFacts.
  Context {A : Type}.
  Lemma nth_firstn_lt (l : list A) (d : A) : forall i j, i < j -> nth i (firstn j l) d = nth i l d.
  Proof. induction l as [|a l IH]; intros i j H; [rewrite firstn_nil; reflexivity|]. destruct j; [lia|]. destruct i; [reflexivity|]. cbn. apply IH. lia. Qed.
  Lemma nth_skipn_add (l : list A) (d : A) : forall i j, nth i (skipn j l) d = nth (j + i) l d.
  Proof. induction l as [|a l IH]; intros i j; [rewrite skipn_nil; destruct i, j; reflexivity|]. destruct j; [reflexivity|]. cbn. apply IH. Qed.
  Lemma nth_map_seq {B} (f : nat -> B) (d : B) : forall len s k, k < len -> nth k (map f (seq s len)) d = f (s + k).
  Proof.
    induction len as [|len IH]; intros s k H; [lia|]. cbn [seq map]. destruct k; [cbn; f_equal; lia|].
    cbn [nth]. rewrite IH by lia. f_equal; lia.
  Qed.
  Lemma skipn_cons_nth (l : list A) (d : A) : forall i, i < length l -> skipn i l = nth i l d :: skipn (S i) l.
  Proof. induction l as [|a l IH]; intros i H; [cbn in H; lia|]. destruct i; [reflexivity|]. cbn [skipn nth]. apply IH. cbn in H. lia. Qed.
  Lemma firstn_S_nth (l : list A) (d : A) : forall i, i < length l -> firstn (S i) l = firstn i l ++ [nth i l d].
  Proof. induction l as [|a l IH]; intros i H; [cbn in H; lia|]. destruct i; [reflexivity|]. cbn [firstn nth app]. f_equal. apply IH. cbn in H. lia. Qed.
End ListFacts.

(** ** the walk, explicitly: forwards = the hole rotated to start at [id], then [id] again;
    backwards = the reversed hole rotated to start at [id], then [id] again *)
Section Walk.
  Context {K : Type} {NK : Num K}.
  Notation V := (V3 K).
  Lemma walk_length (sd : bool) (hvs : list V) (id : nat) : length (walk_list false sd hvs id) = S (length hvs).
  Proof. unfold walk_list. rewrite map_length, seq_length. reflexivity. Qed.
  Lemma walk_forward (hvs : list V) (id : nat) : id < length hvs ->
    walk_list false false hvs id = (skipn id hvs ++ firstn id hvs) ++ [vnth hvs id].
  Proof.
    intros Hi. set (n := length hvs). apply (nth_ext _ _ vzero vzero).
    - rewrite walk_length, !app_length, skipn_length, firstn_length. cbn [length]. fold n. lia.
    - rewrite walk_length. fold n. intros k Hk. unfold walk_list. fold n. rewrite nth_map_seq by lia. cbn [Nat.add].
      rewrite hole_index_eq by lia. unfold vnth.
      assert (Ls : length (skipn id hvs) = n - id) by (rewrite skipn_length; reflexivity).
      assert (Lf : length (firstn id hvs) = id) by (rewrite firstn_length; fold n; lia).
      destruct (Nat.ltb_spec (id + k) n) as [E|E].
      + rewrite app_nth1 by (rewrite app_length; lia). rewrite app_nth1 by lia. rewrite nth_skipn_add. reflexivity.
      + destruct (Nat.eq_dec k n) as [->|Hne].
        * rewrite app_nth2 by (rewrite app_length; lia). rewrite app_length, Ls, Lf. replace (n - (n - id + id)) with 0 by lia. cbn [nth]. f_equal; lia.
        * rewrite app_nth1 by (rewrite app_length; lia). rewrite app_nth2 by lia. rewrite Ls, nth_firstn_lt by lia. f_equal; lia.
  Qed.
  Lemma walk_backward (hvs : list V) (id : nat) : id < length hvs ->
    walk_list false true hvs id = rev (skipn (S id) hvs ++ firstn (S id) hvs) ++ [vnth hvs id].
  Proof.
    intros Hi. set (n := length hvs). rewrite rev_app_distr. apply (nth_ext _ _ vzero vzero).
    - rewrite walk_length, !app_length, !rev_length, skipn_length, firstn_length. cbn [length]. fold n. lia.
    - rewrite walk_length. fold n. intros k Hk. unfold walk_list. fold n. rewrite nth_map_seq by lia. cbn [Nat.add].
      rewrite hole_index_eq by lia. unfold vnth.
      assert (Ls : length (skipn (S id) hvs) = n - S id) by (rewrite skipn_length; reflexivity).
      assert (Lf : length (firstn (S id) hvs) = S id) by (rewrite firstn_length; fold n; lia).
      destruct (Nat.leb_spec k id) as [E|E].
      + rewrite app_nth1 by (rewrite app_length, !rev_length; lia). rewrite app_nth1 by (rewrite rev_length; lia).
        rewrite rev_nth by lia. rewrite Lf, nth_firstn_lt by lia. f_equal; lia.
      + destruct (Nat.eq_dec k n) as [->|Hne].
        * rewrite app_nth2 by (rewrite app_length, !rev_length; lia). rewrite app_length, !rev_length, Ls, Lf.
          replace (n - (S id + (n - S id))) with 0 by lia. cbn [nth]. f_equal; lia.
        * rewrite app_nth1 by (rewrite app_length, !rev_length; lia). rewrite app_nth2 by (rewrite rev_length; lia).
          rewrite rev_length, Lf. rewrite rev_nth by lia. rewrite Ls, nth_skipn_add. f_equal; lia.
  Qed.

  (** where the splice happens *)
  Lemma splice_above (w : list V) (me : nat) : forall l i, me < i -> splice l i me w = l.
  Proof. induction l as [|a l IH]; intros i H; cbn [splice]; [reflexivity|]. destruct (Nat.eqb_spec i me); [lia|]. f_equal. apply IH. lia. Qed.
  Lemma splice_at (w : list V) (e : V) (post : list V) : forall pre i,
    splice (pre ++ e :: post) i (i + length pre) w = pre ++ e :: w ++ e :: post.
  Proof.
    induction pre as [|a pre IH]; intros i; cbn [app length splice].
    - rewrite Nat.add_0_r, Nat.eqb_refl. rewrite splice_above by lia. reflexivity.
    - destruct (Nat.eqb_spec i (i + S (length pre))); [lia|]. f_equal. replace (i + S (length pre)) with (S i + length pre) by lia. apply IH.
  Qed.
  Lemma splice_split (w : list V) (evs : list V) (me : nat) : me < length evs ->
    splice evs 0 me w = firstn me evs ++ vnth evs me :: w ++ vnth evs me :: skipn (S me) evs.
  Proof.
    intros H. rewrite <- (firstn_skipn me evs) at 1. rewrite (skipn_cons_nth evs vzero me H).
    assert (L : length (firstn me evs) = me) by (rewrite firstn_length; lia).
    pose proof (splice_at w (nth me evs vzero) (skipn (S me) evs) (firstn me evs) 0) as S0. rewrite L in S0. exact S0.
  Qed.
  (** the merged outline in exactly the shape of [Theory/Cyclic.v: csum_bridge] (hence of
      [Shoelace.newell_bridge], [Shoelace.area2_bridge], [Winding.wn_bridge]):
        pre ++ e :: h0 :: hs ++ h0 :: e :: post
      with [h0 :: hs] the hole rotated to start at its nearest vertex (reversed first when it is wound like the outline) *)
  Theorem bridge_shape (evs hvs : list V) (me id : nat) (sd : bool) : me < length evs -> id < length hvs ->
    exists hs,
      splice evs 0 me (walk_list false sd hvs id) =
        firstn me evs ++ vnth evs me :: vnth hvs id :: hs ++ vnth hvs id :: vnth evs me :: skipn (S me) evs /\
      vnth hvs id :: hs = (if sd then rev (skipn (S id) hvs ++ firstn (S id) hvs) else skipn id hvs ++ firstn id hvs).
  Proof.
    intros Hme Hid. rewrite splice_split by exact Hme. destruct sd.
    - rewrite walk_backward by exact Hid.
      exists (rev (firstn id hvs) ++ rev (skipn (S id) hvs)).
      assert (E : rev (skipn (S id) hvs ++ firstn (S id) hvs) = vnth hvs id :: rev (firstn id hvs) ++ rev (skipn (S id) hvs)).
      { rewrite rev_app_distr, (firstn_S_nth hvs vzero id Hid), rev_app_distr. reflexivity. }
      rewrite E. split; [|reflexivity]. cbn [app]. rewrite <- !app_assoc. reflexivity.
    - rewrite walk_forward by exact Hid.
      exists (skipn (S id) hvs ++ firstn id hvs).
      assert (E : skipn id hvs ++ firstn id hvs = vnth hvs id :: skipn (S id) hvs ++ firstn id hvs).
      { rewrite (skipn_cons_nth hvs vzero id Hid). reflexivity. }
      rewrite E. split; [|reflexivity]. cbn [app]. rewrite <- !app_assoc. reflexivity.
  Qed.
End Walk.

(** ** antisymmetric edge sums *)
Section EdgeSum.
  Context {A : Type}.
  Variable phi : A -> A -> R.
  Hypothesis anti : forall a b, phi a b = (- phi b a)%R.
  Local Open Scope R_scope.

  Fixpoint path_sum (l : list A) : R :=
    match l with
    | a :: ((b :: _) as tl) => phi a b + path_sum tl
    | _ => 0
    end.
  (** the closed polygon: every edge including the closing one *)
  Definition cyc_sum (l : list A) : R := match l with [] => 0 | a :: _ => path_sum (l ++ [a]) end.

  Lemma path_sum_app (x : A) (l2 : list A) : forall l1, path_sum (l1 ++ x :: l2) = path_sum (l1 ++ [x]) + path_sum (x :: l2).
  Proof.
    induction l1 as [|a l1 IH]; [cbn; lra|]. destruct l1 as [|b l1].
    - cbn [app path_sum]. destruct l2; cbn [path_sum]; lra.
    - change ((a :: b :: l1) ++ x :: l2) with (a :: (b :: l1) ++ x :: l2). change ((a :: b :: l1) ++ [x]) with (a :: (b :: l1) ++ [x]).
      cbn [app path_sum] in *. rewrite IH. lra.
  Qed.
  Lemma path_sum_rev : forall l, path_sum (rev l) = - path_sum l.
  Proof.
    induction l as [|a l IH]; [cbn; lra|]. destruct l as [|b l]; [cbn; lra|].
    cbn [rev] in *. rewrite <- app_assoc. cbn [app]. rewrite path_sum_app, IH. cbn [path_sum]. rewrite (anti b a). lra.
  Qed.
  Ltac lnorm := cbn [app]; repeat (rewrite <- !app_assoc; cbn [app]).
  Lemma cyc_cons (a : A) (l : list A) : cyc_sum (a :: l) = path_sum (a :: l ++ [a]).
  Proof. reflexivity. Qed.
  Lemma cyc_sum_rotate (l1 l2 : list A) : cyc_sum (l1 ++ l2) = cyc_sum (l2 ++ l1).
  Proof.
    destruct l1 as [|a l1]; [rewrite app_nil_r; reflexivity|]. destruct l2 as [|b l2]; [rewrite app_nil_r; reflexivity|].
    cbn [app]. rewrite !cyc_cons.
    replace (a :: (l1 ++ b :: l2) ++ [a]) with ((a :: l1) ++ b :: (l2 ++ [a])) by (lnorm; reflexivity).
    replace (b :: (l2 ++ a :: l1) ++ [b]) with ((b :: l2) ++ a :: (l1 ++ [b])) by (lnorm; reflexivity).
    rewrite (path_sum_app b (l2 ++ [a]) (a :: l1)), (path_sum_app a (l1 ++ [b]) (b :: l2)). cbn [app]. lra.
  Qed.
  Lemma cyc_sum_rev (l : list A) : cyc_sum (rev l) = - cyc_sum l.
  Proof.
    destruct l as [|a l]; [cbn; lra|]. cbn [rev]. rewrite cyc_sum_rotate. cbn [app]. rewrite !cyc_cons.
    replace (a :: rev l ++ [a]) with (rev (a :: l ++ [a])) by (cbn [rev]; rewrite rev_app_distr; reflexivity).
    rewrite path_sum_rev. reflexivity.
  Qed.
  (** inserting, after the vertex [e], a closed walk [cw ++ [h]] (h the first element of cw) and [e] again:
      the two bridge edges e->h, h->e cancel *)
  Lemma cyc_sum_insert (pre post cw : list A) (e h : A) : hd h cw = h -> cw <> [] ->
    cyc_sum (pre ++ e :: (cw ++ [h]) ++ e :: post) = cyc_sum (pre ++ e :: post) + cyc_sum cw.
  Proof.
    intros Hh Hne. destruct cw as [|c cw]; [contradiction|]. cbn [hd] in Hh. subst c.
    rewrite cyc_sum_rotate. rewrite (cyc_sum_rotate pre). cbn [app]. rewrite !cyc_cons.
    replace (e :: (h :: ((cw ++ [h]) ++ e :: post) ++ pre) ++ [e]) with ((e :: h :: cw ++ [h]) ++ e :: (post ++ pre ++ [e])) by (lnorm; reflexivity).
    rewrite (path_sum_app e (post ++ pre ++ [e]) (e :: h :: cw ++ [h])).
    replace ((e :: h :: cw ++ [h]) ++ [e]) with ((e :: h :: cw) ++ h :: [e]) by (lnorm; reflexivity).
    rewrite (path_sum_app h [e] (e :: h :: cw)).
    replace (e :: (post ++ pre) ++ [e]) with (e :: post ++ pre ++ [e]) by (lnorm; reflexivity).
    change ((e :: h :: cw) ++ [h]) with (e :: h :: cw ++ [h]).
    change (path_sum (e :: h :: cw ++ [h])) with (phi e h + path_sum (h :: cw ++ [h])).
    change (path_sum [h; e]) with (phi h e + 0). rewrite (anti h e). lra.
  Qed.

  (** THE identity: splicing the walk of a hole into an outline adds (walk forwards) or subtracts (walk
      backwards) the hole's cyclic sum *)
  Theorem edge_sum_splice_gen (walk_fwd walk_bwd : list A -> nat -> list A) (nthA : list A -> nat -> A)
      (splc : list A -> nat -> list A -> list A) :
    (forall hvs id, (id < length hvs)%nat -> walk_fwd hvs id = (skipn id hvs ++ firstn id hvs) ++ [nthA hvs id]) ->
    (forall hvs id, (id < length hvs)%nat -> walk_bwd hvs id = rev (skipn (S id) hvs ++ firstn (S id) hvs) ++ [nthA hvs id]) ->
    (forall hvs id d, nthA hvs id = nth id hvs d \/ (length hvs <= id)%nat) ->
    (forall w evs me, (me < length evs)%nat -> splc evs me w = firstn me evs ++ nthA evs me :: w ++ nthA evs me :: skipn (S me) evs) ->
    forall evs hvs me id, (me < length evs)%nat -> (id < length hvs)%nat ->
      cyc_sum (splc evs me (walk_fwd hvs id)) = cyc_sum evs + cyc_sum hvs /\
      cyc_sum (splc evs me (walk_bwd hvs id)) = cyc_sum evs - cyc_sum hvs.
  Proof.
    intros Hf Hb Hn Hs evs hvs me id Hme Hid.
    assert (Hnth : forall d, nthA hvs id = nth id hvs d) by (intros d; destruct (Hn hvs id d); [assumption | lia]).
    assert (Hev : forall d, nthA evs me = nth me evs d) by (intros d; destruct (Hn evs me d); [assumption | lia]).
    assert (Eevs : cyc_sum (firstn me evs ++ nthA evs me :: skipn (S me) evs) = cyc_sum evs).
    { rewrite (Hev (nthA evs me)), <- skipn_cons_nth by exact Hme. rewrite firstn_skipn. reflexivity. }
    split.
    - rewrite Hs, Hf by assumption. rewrite cyc_sum_insert.
      + rewrite Eevs. f_equal. rewrite cyc_sum_rotate, firstn_skipn. reflexivity.
      + rewrite (skipn_cons_nth hvs (nthA hvs id) id Hid). cbn [app hd]. symmetry. apply Hnth.
      + rewrite (skipn_cons_nth hvs (nthA hvs id) id Hid). discriminate.
    - rewrite Hs, Hb by assumption. rewrite cyc_sum_insert.
      + rewrite Eevs. rewrite cyc_sum_rev, cyc_sum_rotate, firstn_skipn. lra.
      + rewrite rev_app_distr, (firstn_S_nth hvs (nthA hvs id) id Hid), rev_app_distr. cbn [rev app hd]. symmetry. apply Hnth.
      + rewrite rev_app_distr, (firstn_S_nth hvs (nthA hvs id) id Hid), rev_app_distr. discriminate.
  Qed.
End EdgeSum.

(** ** on the model's own functions *)
Section Model.
  Context {K : Type} {NK : Num K}.
  Notation V := (V3 K).
  Variable phi : V -> V -> R.
  Hypothesis anti : forall a b, phi a b = (- phi b a)%R.
  Theorem edge_sum_splice (evs hvs : list V) (me id : nat) (sd : bool) : me < length evs -> id < length hvs ->
    cyc_sum phi (splice evs 0 me (walk_list false sd hvs id)) = (cyc_sum phi evs + (if sd then - cyc_sum phi hvs else cyc_sum phi hvs))%R.
  Proof.
    intros Hme Hid.
    destruct (edge_sum_splice_gen phi anti (walk_list false false) (walk_list false true) vnth (fun evs me w => splice evs 0 me w)
                (fun hvs id H => walk_forward hvs id H) (fun hvs id H => walk_backward hvs id H)) with (evs := evs) (hvs := hvs) (me := me) (id := id) as [Hf Hb]; try assumption.
    - intros l i d. destruct (Nat.lt_ge_cases i (length l)) as [H|H]; [left; unfold vnth; apply nth_indep; exact H | right; exact H].
    - intros w l m H. apply splice_split. exact H.
    - destruct sd; [rewrite Hb | rewrite Hf]; lra.
  Qed.
End Model.

(** the Newell sum of the model ([sum_cross], the numerator of Loop3D::set_area) on the real instance is,
    component by component, such a cyclic sum -- so  S(merged) = S(outer) -+ S(hole)  for it *)
Section Newell.
  Local Open Scope R_scope.
  Notation V := (V3 R).
  Definition cx (a b : V) : R := vx (vcross a b).
  Definition cy (a b : V) : R := vy (vcross a b).
  Definition cz (a b : V) : R := vz (vcross a b).
  Lemma cx_anti a b : cx a b = - cx b a. Proof. unfold cx, vcross; cbn [vx]; rnum; ring. Qed.
  Lemma cy_anti a b : cy a b = - cy b a. Proof. unfold cy, vcross; cbn [vy]; rnum; ring. Qed.
  Lemma cz_anti a b : cz a b = - cz b a. Proof. unfold cz, vcross; cbn [vz]; rnum; ring. Qed.
  Lemma sum_cross_path (first : V) : forall (vs : list V) (acc : V),
    vx (sum_cross vs first acc) = vx acc + path_sum cx (vs ++ [first]) /\
    vy (sum_cross vs first acc) = vy acc + path_sum cy (vs ++ [first]) /\
    vz (sum_cross vs first acc) = vz acc + path_sum cz (vs ++ [first]).
  Proof.
    induction vs as [|v tl IH]; intros acc; cbn [sum_cross app]; [cbn; repeat split; lra|].
    destruct (IH (vadd acc (vcross v (match tl with [] => first | w :: _ => w end)))) as (Hx & Hy & Hz). rewrite Hx, Hy, Hz.
    destruct tl as [|w tl]; cbn [app path_sum vadd vx vy vz]; unfold cx, cy, cz; rnum; repeat split; lra.
  Qed.
  Definition newell (vs : list V) : V := sum_cross vs (vnth vs 0) vzero.
  Lemma newell_cyc (vs : list V) : vx (newell vs) = cyc_sum cx vs /\ vy (newell vs) = cyc_sum cy vs /\ vz (newell vs) = cyc_sum cz vs.
  Proof.
    unfold newell. destruct vs as [|a vs]; [cbn; rnum; repeat split; reflexivity|].
    destruct (sum_cross_path (vnth (a :: vs) 0) (a :: vs) vzero) as (Hx & Hy & Hz). rewrite Hx, Hy, Hz.
    unfold cyc_sum, vnth. cbn [nth vzero vx vy vz]. rnum. repeat split; lra.
  Qed.
  Theorem newell_splice (evs hvs : list V) (me id : nat) (sd : bool) : (me < length evs)%nat -> (id < length hvs)%nat ->
    let m := newell (splice evs 0 me (walk_list false sd hvs id)) in
    let s := if sd then (-1) else 1 in
    vx m = vx (newell evs) + s * vx (newell hvs) /\ vy m = vy (newell evs) + s * vy (newell hvs) /\ vz m = vz (newell evs) + s * vz (newell hvs).
  Proof.
    intros Hme Hid. cbn zeta.
    destruct (newell_cyc (splice evs 0 me (walk_list false sd hvs id))) as (Mx & My & Mz).
    destruct (newell_cyc evs) as (Ex & Ey & Ez). destruct (newell_cyc hvs) as (Hx & Hy & Hz).
    rewrite Mx, My, Mz, Ex, Ey, Ez, Hx, Hy, Hz.
    rewrite (edge_sum_splice cx cx_anti), (edge_sum_splice cy cy_anti), (edge_sum_splice cz cz_anti) by assumption.
    destruct sd; repeat split; lra.
  Qed.
End Newell.
