(** * Mesh_fp_sites (C09 b): the certified enumeration of the panic sites of [from_polygon] and [mesh_polygon].
    Every number instance (no property of the arithmetic is used: only the control structure of the model).

    - the Loop3D leaves used by the ear clipping never panic: [loop_sanitize], [loop_test_point], [loop_push],
      [loop_close] never; [loop_is_diagonal] only at site 22 and only on an EMPTY loop;
    - [mark_neighbourhouds] never panics (sites 96, 62, 63, 64, 60 unreachable from it);
    - the capped ear-clipping loop [fp_loop] never panics when entered with a non-empty loop that is open when it
      has a single vertex (sites 21, 22, 25, 93, 95, 96, 62, 63, 64, 10, 60 unreachable);
    - [poly_get_closed_loop] can only panic at site 41 (push(..).unwrap()) or, when the polygon has an EMPTY hole,
      at site 42 ([% 0]) or, when its OUTLINE is empty, at site 21 (`ret_loop[min_ext_vertex_id]` in the attachment
      search of fix bcb072e); the other occurrences of site 21 are unreachable; with no hole it returns Ok;
    - hence [from_polygon P = Panic s -> s = 41] for every polygon whose outline and holes are non-empty, and never for a
      polygon without holes; [mesh_polygon] adds the sites of [refine] only, of which 67, 73 (neighbour look-ups),
      85 and 90 (sweep cursors) are unreachable because the initial mesh is well formed ([WF]);
    - every polygon built through the API (Loop3D push/close histories, Polygon3D::new, cut_hole histories) has
      a non-empty outline and non-empty holes: a closed Loop3D is never empty. *)
From Coq Require Import ZArith Bool List Arith Lia.
From G3 Require Import Model.Num Model.Base Model.Vec Model.Segment Model.Triangle Model.Loop Model.Polygon Model.Triangulation
  Proofs.C04_loop Proofs.C11_cut_hole Proofs.C12_merge
  Proofs.Mesh_base Proofs.Mesh_wf Proofs.Mesh_sites Proofs.Mesh_fp Proofs.Mesh_conf Proofs.Mesh_init.
Import ListNotations.

Section FpSites.
  Context {K : Type} {NK : Num K}.
  Notation V := (V3 K).
  Notation TP := (TriPiece K).
  Notation Mesh := (Mesh K).

  (** ** 1. the Loop3D leaves *)
  Lemma np_seg_contains (s input : Seg K) : no_panic (seg_contains s input).
  Proof.
    unfold seg_contains. apply np_if; [apply np_err|].
    apply C11_cut_hole.np_bind; [apply np_is_collinear|]. intros c1. apply np_if; [apply np_ok|].
    apply C11_cut_hole.np_bind; [apply np_is_collinear|]. intros c2. apply np_if; [apply np_ok|].
    repeat (apply np_if; [apply np_ok|]). apply np_err.
  Qed.
  Lemma np_diag_edge_blocks (s : Seg K) (a b : V) : no_panic (diag_edge_blocks s a b).
  Proof. unfold diag_edge_blocks. apply C11_cut_hole.np_bind; [apply np_seg_contains|]. intros c. apply np_ok. Qed.
  Lemma np_diag_scan (s : Seg K) (vs : list V) (n : nat) : forall count i, no_panic (diag_scan s vs n i count).
  Proof.
    induction count as [|c IH]; intros i; cbn [diag_scan]; [apply np_ok|].
    apply C11_cut_hole.np_bind; [apply np_diag_edge_blocks|]. intros blk. apply np_if; [apply np_ok | apply IH].
  Qed.
  (** [is_diagonal]: the only panic is the [% 0] on an empty loop *)
  Lemma is_diagonal_panic (L : Loop K) (s : Seg K) (k : N) : loop_is_diagonal L s = Panic k -> k = 22%N /\ llen L = 0.
  Proof.
    unfold loop_is_diagonal. destruct (nltb _ _); [discriminate|]. destruct (Nat.eqb_spec (llen L) 0) as [E|E].
    - intros H; inversion H; subst. split; [reflexivity | exact E].
    - intros H. exfalso. revert H. apply C11_cut_hole.np_bind; [apply np_diag_scan|]. intros blocked.
      apply np_if; [apply np_ok|]. apply C11_cut_hole.np_bind; [apply np_loop_test_point|]. intros inside. apply np_ok.
  Qed.
  Lemma np_is_diagonal (L : Loop K) (s : Seg K) : llen L <> 0 -> no_panic (loop_is_diagonal L s).
  Proof. intros Hn k H. apply is_diagonal_panic in H. destruct H as [_ H]. exact (Hn H). Qed.
  (** an OPEN loop has no diagonal: the final [test_point] refuses it (Err 34) *)
  Lemma is_diagonal_open (L : Loop K) (s : Seg K) : lclosed L = false -> loop_is_diagonal L s <> Ok true.
  Proof.
    intros Ho. unfold loop_is_diagonal. destruct (nltb _ _); [discriminate|]. destruct (Nat.eqb _ 0); [discriminate|].
    destruct (diag_scan _ _ _ _ _) as [blocked| |]; cbn [rbind]; try discriminate. destruct blocked; [discriminate|].
    unfold loop_test_point. rewrite Ho. cbn [negb rbind]. discriminate.
  Qed.

  Lemma np_push_all : forall (vs : list V) (L : Loop K), no_panic (push_all L vs).
  Proof.
    induction vs as [|v vs IH]; intros L; cbn [push_all]; [apply np_ok|].
    apply C11_cut_hole.np_bind; [intros s; apply push_no_panic | intros L'; apply IH].
  Qed.
  Theorem sanitize_no_panic (L : Loop K) : forall s, loop_sanitize L <> Panic s.
  Proof.
    unfold loop_sanitize. apply C11_cut_hole.np_bind; [apply np_push_all|]. intros nw.
    destruct (lclosed L && Nat.leb 3 (llen nw)); [|apply np_ok].
    pose proof (close_no_panic nw) as H. destruct (loop_close nw) as [nw' r]. cbn [snd] in H.
    intros s. destruct r as [u| |s']; cbn [rbind]; try discriminate. intros E; inversion E; subst. exact (H s eq_refl).
  Qed.
  Theorem test_point_no_panic (L : Loop K) (p : V) : forall s, loop_test_point L p <> Panic s.
  Proof. exact (np_loop_test_point L p). Qed.

  (** ** 2. what [push] / [sanitize] / [remove] do to the length and to the [closed] flag *)
  Lemma set_normal_closed (L L' : Loop K) : loop_set_normal L = Ok L' -> lclosed L' = lclosed L.
  Proof. unfold loop_set_normal. destruct (verts L) as [|a [|b [|c l]]]; try discriminate. intros H; inversion H; reflexivity. Qed.
  Lemma push_open (L L' : Loop K) (p : V) : loop_push L p = Ok L' -> lclosed L' = false.
  Proof.
    unfold loop_push.
    destruct (valid_to_add L p) eqn:Ev; cbn [rbind]; try discriminate.
    assert (Ho : lclosed L = false) by (unfold valid_to_add in Ev; destruct (lclosed L); [discriminate | reflexivity]).
    match goal with |- rbind ?x _ = _ -> _ => destruct x as [vs| |]; cbn [rbind]; try discriminate end.
    destruct (Nat.eqb (length vs) 3); intros H.
    - apply set_normal_closed in H. rewrite H. exact Ho.
    - destruct (Nat.ltb (length vs) 3); inversion H; subst; exact Ho.
  Qed.
  Lemma push_nonempty (L L' : Loop K) (p : V) : loop_push L p = Ok L' -> 1 <= llen L'.
  Proof.
    intros H. destruct (push_cases _ _ _ H) as [(keep & Hk & E)|[E H2]]; unfold llen in *; rewrite E.
    - rewrite app_length. cbn [length]. lia.
    - rewrite C12_merge.removelast_length. lia.
  Qed.
  Lemma push_all_shape : forall (vs : list V) (L L' : Loop K), push_all L vs = Ok L' -> vs <> [] -> 1 <= llen L' /\ lclosed L' = false.
  Proof.
    induction vs as [|v vs IH]; intros L L' H Hne; [exfalso; apply Hne; reflexivity|]. cbn [push_all] in H.
    destruct (loop_push L v) as [L1| |] eqn:E1; cbn [rbind] in H; try discriminate.
    destruct vs as [|w vs'].
    - cbn [push_all] in H. inversion H; subst. split; [eapply push_nonempty; exact E1 | eapply push_open; exact E1].
    - eapply IH; [exact H | discriminate].
  Qed.
  (** the shape invariant of the outline inside the ear-clipping loop: never empty, and open when reduced to one
      vertex ([sanitize] returns an open loop when fewer than three vertices survive) *)
  Definition LoopInv (L : Loop K) : Prop := 1 <= llen L /\ (llen L = 1 -> lclosed L = false).
  Lemma sanitize_inv (L L' : Loop K) : 1 <= llen L -> loop_sanitize L = Ok L' -> LoopInv L'.
  Proof.
    intros Hn. unfold loop_sanitize. destruct (push_all loop_new (verts L)) as [nw| |] eqn:E; cbn [rbind]; try discriminate.
    apply push_all_shape in E; [|intros C; unfold llen in Hn; rewrite C in Hn; cbn in Hn; lia]. destruct E as [E1 E2].
    destruct (lclosed L && Nat.leb 3 (llen nw)).
    - pose proof (close_ok_invariants nw) as C. destruct (loop_close nw) as [nw' r]. cbn [fst snd] in C.
      destruct r as [[]| |]; cbn [rbind]; try discriminate. intros H; inversion H; subst. destruct (C eq_refl) as [_ C3].
      split; [lia | intros C1; lia].
    - intros H; inversion H; subst. split; [exact E1 | intros _; exact E2].
  Qed.

  (** ** 3. [mark_neighbourhouds] never panics *)
  (** the inner loop `for edge_i in 0..3` of [mark_edge_pair], named *)
  Fixpoint mep_go (this_i other_i : nat) (js : list N) : MR (K:=K) unit :=
    match js with
    | [] => mret tt
    | edge_i :: js' =>
      mbind (mget 96%N this_i) (fun t =>
      mbind (mlift (tri_segment (tp_tri t) edge_i)) (fun edge =>
      mbind (mget 96%N other_i) (fun o =>
      match tri_get_edge_index_from_segment (tp_tri o) edge with
      | Some _ => mbind (mlift (edge_from_i edge_i)) (fun e => mark_as_neighbours this_i e other_i)
      | None => mep_go this_i other_i js'
      end)))
    end.
  Lemma mark_edge_pair_eq (a b : nat) : mark_edge_pair (K:=K) a b = mep_go a b [0%N; 1%N; 2%N].
  Proof. reflexivity. Qed.
  Lemma edge_from_i_as_i (i : N) (e : Edge) : edge_from_i i = Ok e -> edge_as_i e = i.
  Proof. destruct i as [|[[]|[]|]]; cbn; intros H; inversion H; reflexivity. Qed.

  (** [mark_as_neighbours] on two slots in range, when the second triangle has the segment of the first: no panic *)
  Lemma mark_no_panic (i1 i2 : nat) (e : Edge) (t1 t2 : TP) (sg : Seg K) (k : N) (M M' : Mesh) (s : N) :
    nth_error (tris M) i1 = Some t1 -> nth_error (tris M) i2 = Some t2 ->
    tri_segment (tp_tri t1) (edge_as_i e) = Ok sg -> tri_get_edge_index_from_segment (tp_tri t2) sg = Some k ->
    mark_as_neighbours i1 e i2 M <> (M', Panic s).
  Proof.
    intros E1 E2 Es Ek. unfold mark_as_neighbours. destruct (Nat.eqb i1 i2); [discriminate|].
    unfold mbind at 1. unfold mget at 1. rewrite E1. destruct (negb (tp_valid t1)); [discriminate|].
    unfold mbind at 1. unfold mlift at 1. rewrite Es.
    unfold mbind at 1. unfold mget at 1. rewrite E2. destruct (negb (tp_valid t2)); [discriminate|].
    unfold mbind at 1. unfold mlift at 1. rewrite Ek.
    destruct (edge_from_i_lt k (edge_index_lt _ _ _ Ek)) as [e2 Ee2].
    unfold mbind at 1. unfold mlift at 1. rewrite Ee2.
    assert (L1 : Nat.ltb i1 (length (tris M)) = true) by (apply Nat.ltb_lt; apply nth_error_Some; congruence).
    assert (L2 : Nat.ltb i2 (length (tris M)) = true) by (apply Nat.ltb_lt; apply nth_error_Some; congruence).
    unfold mbind, mupd. rewrite L1. cbn [tris nvalid]. rewrite upd_length, L2. discriminate.
  Qed.
  Lemma mep_go_no_panic (a b : nat) : forall (js : list N) (M M' : Mesh) (s : N),
    (forall j, In j js -> (j < 3)%N) -> a < length (tris M) -> b < length (tris M) -> mep_go a b js M <> (M', Panic s).
  Proof.
    induction js as [|j js IH]; intros M M' s Hj Ha Hb; cbn [mep_go]; [discriminate|].
    destruct (nth_error (tris M) a) as [t|] eqn:Ea; [|exfalso; apply nth_error_None in Ea; lia].
    destruct (nth_error (tris M) b) as [o|] eqn:Eb; [|exfalso; apply nth_error_None in Eb; lia].
    unfold mbind at 1. unfold mget at 1. rewrite Ea.
    destruct (tri_segment (tp_tri t) j) as [edge| |s'] eqn:Es.
    2:{ unfold mbind, mlift. discriminate. }
    2:{ exfalso. eapply (np_tri_segment (fun _ => false)) in Es. discriminate. }
    unfold mbind at 1. unfold mlift at 1. unfold mbind at 1. unfold mget at 1. rewrite Eb.
    destruct (tri_get_edge_index_from_segment (tp_tri o) edge) as [k|] eqn:Ek.
    - destruct (edge_from_i_lt j (Hj j (or_introl eq_refl))) as [e Ee]. unfold mbind at 1. unfold mlift at 1. rewrite Ee.
      eapply mark_no_panic; try eassumption. rewrite (edge_from_i_as_i _ _ Ee). exact Es.
    - apply IH; try assumption. intros j' Hj'. apply Hj. right. exact Hj'.
  Qed.
  Lemma pair_no_panic (a b : nat) (M M' : Mesh) (s : N) :
    a < length (tris M) -> b < length (tris M) -> mark_edge_pair a b M <> (M', Panic s).
  Proof. rewrite mark_edge_pair_eq. apply mep_go_no_panic. intros j [<-|[<-|[<-|[]]]]; lia. Qed.

  Lemma rtri_length (M M' : Mesh) : Rtri M M' -> length (tris M') = length (tris M).
  Proof. unfold Rtri. intros H. rewrite <- (map_length tp_tri (tris M')), H, map_length. reflexivity. Qed.
  Lemma inner_no_panic (a : nat) : forall (cnt b : nat) (M M' : Mesh) (s : N),
    a < length (tris M) -> b + cnt <= length (tris M) -> mn_inner a b cnt M <> (M', Panic s).
  Proof.
    induction cnt as [|c IH]; intros b M M' s Ha Hb; cbn [mn_inner]; [discriminate|].
    intros H. apply mbind_inv in H. destruct H as [(u & M1 & H1 & H2) | [(c' & H1 & H3) | (s' & H1 & H3)]].
    - pose proof (rtri_length _ _ (rtri_pair a b _ _ _ H1)) as Hl. revert H2. apply IH; lia.
    - discriminate.
    - revert H1. apply pair_no_panic; lia.
  Qed.
  Lemma outer_no_panic : forall (cnt a : nat) (M M' : Mesh) (s : N),
    a + cnt <= length (tris M) -> mn_outer (length (tris M)) a cnt M <> (M', Panic s).
  Proof.
    induction cnt as [|c IH]; intros a M M' s Ha; cbn [mn_outer]; [discriminate|].
    intros H. apply mbind_inv in H. destruct H as [(u & M1 & H1 & H2) | [(c' & H1 & H3) | (s' & H1 & H3)]].
    - pose proof (rtri_length _ _ (rtri_inner a _ _ _ _ _ H1)) as Hl. rewrite <- Hl in H2. revert H2. apply IH. lia.
    - discriminate.
    - revert H1. apply inner_no_panic; lia.
  Qed.
  Theorem mark_neighbourhouds_no_panic (M M' : Mesh) : forall s, mark_neighbourhouds M <> (M', Panic s).
  Proof. intros s. unfold mark_neighbourhouds. apply outer_no_panic. lia. Qed.

  (** ** 4. the capped ear-clipping loop never panics *)
  Lemma loop_index_mod (L : Loop K) (k : nat) : llen L <> 0 -> exists v, loop_index L (k mod llen L) = Ok v.
  Proof.
    intros Hn. unfold loop_index. pose proof (Nat.mod_upper_bound k (llen L) Hn) as Hlt. unfold llen in Hlt.
    destruct (nth_error (verts L) (k mod llen L)) as [v|] eqn:E; [exists v; reflexivity|].
    apply nth_error_None in E. unfold llen in E. lia.
  Qed.
  Lemma ear_test_no_panic (P : Poly K) (L : Loop K) (v0 v1 v2 : V) (il idg : bool) : forall s, ear_test P L v0 v1 v2 il idg <> Panic s.
  Proof.
    intros s. unfold ear_test. destruct (negb (negb il && idg)); [discriminate|]. destruct (negb (ear_convex P v0 v1 v2)); [discriminate|].
    pose proof (tri_new_no_panic v0 v1 v2) as H. destruct (tri_new v0 v1 v2) as [t| |s']; cbn [rbind]; try discriminate.
    intros E; inversion E; subst. exact (H s eq_refl).
  Qed.
  Lemma ear_test_true (P : Poly K) (L : Loop K) (v0 v1 v2 : V) (il idg : bool) : ear_test P L v0 v1 v2 il idg = Ok true -> idg = true.
  Proof. unfold ear_test. destruct idg; [reflexivity|]. rewrite andb_false_r. cbn [negb]. discriminate. Qed.

  Theorem fp_loop_no_panic (P : Poly K) : forall (fuel count anchor : nat) (L : Loop K) (t : Mesh) (s : N),
    LoopInv L -> fp_loop P fuel count anchor L t <> Panic s.
  Proof.
    induction fuel as [|fuel IH]; intros count anchor L t s HL H; cbn [fp_loop] in H; [discriminate|].
    set (L1r := if Nat.eqb (Nat.modulo (S count) 10) 0 then loop_sanitize L else Ok L) in H.
    destruct L1r as [L1| |s'] eqn:EL1; cbn [rbind] in H; try discriminate.
    2:{ unfold L1r in EL1. destruct (Nat.eqb _ 0); [exact (sanitize_no_panic L s' EL1) | discriminate]. }
    assert (HL1 : LoopInv L1).
    { unfold L1r in EL1. destruct (Nat.eqb _ 0); [eapply sanitize_inv; [apply HL | exact EL1] | inversion EL1; subst; exact HL]. }
    destruct HL1 as [N1 O1].
    destruct (Nat.eqb (llen L1) 2) eqn:E2.
    { destruct (mark_neighbourhouds t) as [t' r] eqn:Em. destruct r as [u| |s'']; cbn [rbind] in H; try discriminate.
      exact (mark_neighbourhouds_no_panic t t' s'' Em). }
    apply Nat.eqb_neq in E2.
    destruct (Nat.eqb_spec (llen L1) 0) as [E0|E0]; [lia|].
    destruct (loop_index_mod L1 anchor E0) as [v0 Ev0]. rewrite Ev0 in H. cbn [rbind] in H.
    destruct (loop_index_mod L1 (anchor + 1) E0) as [v1 Ev1]. rewrite Ev1 in H. cbn [rbind] in H.
    destruct (loop_index_mod L1 (anchor + 2) E0) as [v2 Ev2]. rewrite Ev2 in H. cbn [rbind] in H.
    destruct (is_collinear v0 v1 v2) as [is_line| |s''] eqn:Ecol; cbn [rbind] in H; try discriminate.
    2:{ exact (is_collinear_no_panic v0 v1 v2 s'' Ecol). }
    destruct (loop_is_diagonal L1 (seg_new v0 v2)) as [is_diag| |s''] eqn:Ed; cbn [rbind] in H; try discriminate.
    2:{ exact (np_is_diagonal L1 _ E0 s'' Ed). }
    destruct (ear_test P L1 v0 v1 v2 is_line is_diag) as [is_ear| |s''] eqn:Ee; cbn [rbind] in H; try discriminate.
    2:{ exact (ear_test_no_panic P L1 v0 v1 v2 is_line is_diag s'' Ee). }
    destruct is_ear; [|exact (IH _ _ _ _ _ (conj N1 O1) H)].
    (* an ear: the loop is closed, hence has at least three vertices *)
    assert (N3 : 3 <= llen L1).
    { apply ear_test_true in Ee. subst is_diag. destruct (lclosed L1) eqn:Ec.
      - destruct (Nat.eq_dec (llen L1) 1) as [C|C]; [specialize (O1 C); discriminate | lia].
      - exfalso. exact (is_diagonal_open L1 _ Ec Ed). }
    destruct (mesh_push v0 v1 v2 (n_triangles t) t) as [t1 r] eqn:Ep. destruct r as [n| |s'']; cbn [rbind] in H; try discriminate.
    2:{ pose proof (np_push (fun _ => false) v0 v1 v2 (n_triangles t) t t1 s'' Ep). discriminate. }
    unfold n_triangles in Ep. apply push_at_end in Ep. destruct Ep as (tp & Etp & _).
    assert (Hl1 : length (tris t1) = S (length (tris t))) by (rewrite Etp, app_length; cbn [length]; lia).
    (* the three constrain steps hit the slot just pushed *)
    assert (Hc : forall (sg : Seg K) (e : Edge) (m m' : Mesh) (r : res unit),
               length (tris m) = S (length (tris t)) ->
               (if poly_contains_segment P sg then mupd 95%N (n_triangles t) (tp_constrain e) m else (m, Ok tt)) = (m', r) ->
               r = Ok tt /\ length (tris m') = S (length (tris t))).
    { intros sg e m m' r Hm Hr. destruct (poly_contains_segment P sg); [|inversion Hr; subst; split; [reflexivity | exact Hm]].
      unfold mupd, n_triangles in Hr. assert (Hlt : Nat.ltb (length (tris t)) (length (tris m)) = true) by (apply Nat.ltb_lt; lia).
      rewrite Hlt in Hr. inversion Hr; subst. cbn [tris]. rewrite upd_length. split; [reflexivity | exact Hm]. }
    match type of H with context [let '(t2, r) := ?c in _] => destruct c as [t2 r2] eqn:Ec2 end.
    apply Hc in Ec2; [|exact Hl1]. destruct Ec2 as [-> Hl2]. cbn [rbind] in H.
    match type of H with context [let '(t3, r) := ?c in _] => destruct c as [t3 r3] eqn:Ec3 end.
    apply Hc in Ec3; [|exact Hl2]. destruct Ec3 as [-> Hl3]. cbn [rbind] in H.
    match type of H with context [let '(t4, r) := ?c in _] => destruct c as [t4 r4] eqn:Ec4 end.
    apply Hc in Ec4; [|exact Hl3]. destruct Ec4 as [-> Hl4]. cbn [rbind] in H.
    destruct (loop_remove L1 ((anchor + 1) mod llen L1)) as [L2| |s''] eqn:Er; cbn [rbind] in H; try discriminate.
    - apply loop_remove_verts in Er. destruct Er as [_ Er]. apply (IH _ _ _ _ _ (conj (ltac:(lia) : 1 <= llen L2) (ltac:(lia) : llen L2 = 1 -> lclosed L2 = false)) H).
    - unfold loop_remove in Er. pose proof (Nat.mod_upper_bound (anchor + 1) (llen L1) E0) as Hlt. apply Nat.ltb_lt in Hlt. rewrite Hlt in Er. discriminate.
  Qed.

  (** ** 5. get_closed_loop: site 41, or site 42 when the polygon has an empty hole; never site 21 *)
  Definition st_ml (st : Sst (K:=K)) : nat := snd (fst (fst st)).
  Lemma siv_ml (ev : V) (j k : nat) : forall (ivs : list V) (l : nat) (st : Sst),
    st_ml (scan_inner_vertices ev j k ivs l st) = st_ml st \/ st_ml (scan_inner_vertices ev j k ivs l st) = k.
  Proof.
    induction ivs as [|iv ivs IH]; intros l st; cbn [scan_inner_vertices]; [left; reflexivity|].
    destruct st as [[[[md me] ml] il] iv_id]. destruct (nltb (psqdist ev iv) md).
    - destruct (IH (S l) (psqdist ev iv, j, k, k, l)) as [E|E]; [right; rewrite E; reflexivity | right; exact E].
    - apply IH.
  Qed.
  Lemma sil_ml (ev : V) (j : nat) (processed : list nat) : forall (hs : list (Loop K)) (k : nat) (st : Sst),
    st_ml (scan_inner_loops ev j hs k processed st) = st_ml st \/
    (k <= st_ml (scan_inner_loops ev j hs k processed st) < k + length hs).
  Proof.
    induction hs as [|h hs IH]; intros k st; cbn [scan_inner_loops]; [left; reflexivity|].
    set (st' := if existsb (Nat.eqb k) processed then st else scan_inner_vertices ev j k (verts h) 0 st).
    assert (G : st_ml st' = st_ml st \/ st_ml st' = k) by (unfold st'; destruct (existsb _ _); [left; reflexivity | apply siv_ml]).
    cbn [length]. destruct (IH (S k) st') as [E|E]; [rewrite E; destruct G as [G|G]; [left; exact G | right; lia] | right; lia].
  Qed.
  Lemma se_ml (hs : list (Loop K)) (processed : list nat) : forall (evs : list V) (j : nat) (st : Sst),
    st_ml (scan_ext evs j hs processed st) = st_ml st \/ st_ml (scan_ext evs j hs processed st) < length hs.
  Proof.
    induction evs as [|ev evs IH]; intros j st; cbn [scan_ext]; [left; reflexivity|].
    destruct (IH (S j) (scan_inner_loops ev j hs 0 processed st)) as [E|E]; [|right; exact E].
    rewrite E. destruct (sil_ml ev j processed hs 0 st) as [G|G]; [left; exact G | right; lia].
  Qed.

  Lemma unwrap41_push (aux : Loop K) (p : V) (s : N) : unwrap 41%N (loop_push aux p) = Panic s -> s = 41%N.
  Proof.
    pose proof (push_no_panic aux p) as H. destruct (loop_push aux p) as [a|c|s']; cbn [unwrap]; intros E; inversion E; subst; [reflexivity|].
    exfalso. exact (H s eq_refl).
  Qed.
  Lemma walk_panic (hole : Loop K) (sd : bool) (id : nat) (s : N) : llen hole <> 0 ->
    forall count j aux, push_hole_walk false aux hole sd id (llen hole) j count = Panic s -> s = 41%N.
  Proof.
    intros Hn. induction count as [|c IH]; intros j aux; cbn [push_hole_walk]; [discriminate|].
    pose proof (hole_index_lt sd id j (llen hole) Hn) as Hlt. apply Nat.leb_gt in Hlt. rewrite Hlt.
    destruct (unwrap 41 (loop_push aux _)) as [a| |s'] eqn:E; cbn [rbind]; [apply IH | discriminate|].
    intros H; inversion H; subst. eapply unwrap41_push; exact E.
  Qed.
  Lemma rebuild_panic (on : V) (hole : Loop K) (iv me : nat) (s : N) :
    forall evs i aux, rebuild false on evs i me hole iv aux = Panic s -> s = 41%N \/ (s = 42%N /\ llen hole = 0).
  Proof.
    induction evs as [|ev tl IH]; intros i aux; cbn [rebuild]; [discriminate|].
    destruct (unwrap 41 (loop_push aux ev)) as [aux1| |s'] eqn:E1; cbn [rbind]; [|discriminate|].
    2:{ intros H; inversion H; subst. left. eapply unwrap41_push; exact E1. }
    destruct (Nat.eqb i me).
    - destruct (Nat.eqb_spec (llen hole) 0) as [E0|E0].
      + cbn [rbind]. intros H; inversion H; subst. right. split; [reflexivity | exact E0].
      + destruct (push_hole_walk false aux1 hole _ iv (llen hole) 0 (S (llen hole))) as [a| |s'] eqn:Ew; cbn [rbind]; [|discriminate|].
        2:{ intros H; inversion H; subst. left. eapply walk_panic; [exact E0 | exact Ew]. }
        destruct (unwrap 41 (loop_push a ev)) as [a2| |s'] eqn:E2; cbn [rbind]; [apply IH | discriminate|].
        intros H; inversion H; subst. left. eapply unwrap41_push; exact E2.
    - cbn [rbind]. apply IH.
  Qed.
  (** the outline position [me0] returned by the scan: its initial value, or the index of a scanned outline vertex *)
  Definition st_me (st : Sst (K:=K)) : nat := snd (fst (fst (fst st))).
  Lemma siv_me (ev : V) (j k : nat) : forall (ivs : list V) (l : nat) (st : Sst),
    st_me (scan_inner_vertices ev j k ivs l st) = st_me st \/ st_me (scan_inner_vertices ev j k ivs l st) = j.
  Proof.
    induction ivs as [|iv ivs IH]; intros l st; cbn [scan_inner_vertices]; [left; reflexivity|].
    destruct st as [[[[md me] ml] il] iv_id]. destruct (nltb (psqdist ev iv) md).
    - destruct (IH (S l) (psqdist ev iv, j, k, k, l)) as [E|E]; [right; rewrite E; reflexivity | right; exact E].
    - apply IH.
  Qed.
  Lemma sil_me (ev : V) (j : nat) (processed : list nat) : forall (hs : list (Loop K)) (k : nat) (st : Sst),
    st_me (scan_inner_loops ev j hs k processed st) = st_me st \/ st_me (scan_inner_loops ev j hs k processed st) = j.
  Proof.
    induction hs as [|h hs IH]; intros k st; cbn [scan_inner_loops]; [left; reflexivity|].
    set (st' := if existsb (Nat.eqb k) processed then st else scan_inner_vertices ev j k (verts h) 0 st).
    assert (G : st_me st' = st_me st \/ st_me st' = j) by (unfold st'; destruct (existsb _ _); [left; reflexivity | apply siv_me]).
    destruct (IH (S k) st') as [E|E]; [rewrite E; exact G | right; exact E].
  Qed.
  Lemma se_me (hs : list (Loop K)) (processed : list nat) : forall (evs : list V) (j : nat) (st : Sst),
    st_me (scan_ext evs j hs processed st) = st_me st \/ (j <= st_me (scan_ext evs j hs processed st) < j + length evs).
  Proof.
    induction evs as [|ev evs IH]; intros j st; cbn [scan_ext]; [left; reflexivity|]. cbn [length].
    destruct (IH (S j) (scan_inner_loops ev j hs 0 processed st)) as [E|E]; [|right; lia].
    rewrite E. destruct (sil_me ev j processed hs 0 st) as [G|G]; [left; exact G | right; lia].
  Qed.
  (** [attach_index] (fix bcb072e): the index `ret_loop[min_ext_vertex_id]` is out of bounds only if the outline is empty *)
  Lemma attach_panic (P : Poly K) (vs : list V) (me0 : nat) (hole : Loop K) (iv' : nat) (s : N) :
    attach_index false P vs me0 hole iv' = Panic s -> s = 21%N /\ length vs <= me0.
  Proof.
    unfold attach_index. destruct (_ && _); [|discriminate]. destruct (Nat.leb_spec (length vs) me0) as [C|C].
    - intros H; inversion H; subst. split; [reflexivity | exact C].
    - destruct (find_visit _ _ _ _ _ _ _); discriminate.
  Qed.
  (** a rebuilt outline is never empty: its last operation is a successful push *)
  Lemma rebuild_nonempty (on : V) (hole : Loop K) (iv me : nat) :
    forall evs i aux aux', rebuild false on evs i me hole iv aux = Ok aux' -> evs <> [] -> 1 <= llen aux'.
  Proof.
    induction evs as [|ev tl IH]; intros i aux aux' H Hne; [exfalso; apply Hne; reflexivity|]. cbn [rebuild] in H.
    destruct (unwrap 41 (loop_push aux ev)) as [aux1| |] eqn:E1; cbn [rbind] in H; try discriminate. apply unwrap_ok in E1.
    match type of H with rbind ?x _ = _ => destruct x as [aux2| |] eqn:E2; cbn [rbind] in H; try discriminate end.
    assert (N2 : 1 <= llen aux2).
    { destruct (Nat.eqb i me).
      - destruct (Nat.eqb (llen hole) 0); [discriminate|].
        destruct (push_hole_walk false aux1 hole _ iv (llen hole) 0 (S (llen hole))) as [a| |]; cbn [rbind] in E2; try discriminate.
        apply unwrap_ok in E2. eapply push_nonempty; exact E2.
      - inversion E2; subst. eapply push_nonempty; exact E1. }
    destruct tl as [|ev' tl'].
    - cbn [rebuild] in H. inversion H; subst. exact N2.
    - eapply IH; [exact H | discriminate].
  Qed.
  Lemma merge_panic (P : Poly K) (s : N) : forall count (ret : Loop K) processed il iv,
    count <= length (pinner P) -> (llen ret = 0 -> llen (pouter P) = 0) ->
    merge_holes false P count ret processed il iv = Panic s ->
    s = 41%N \/ (s = 42%N /\ exists h, In h (pinner P) /\ llen h = 0) \/ (s = 21%N /\ llen (pouter P) = 0).
  Proof.
    induction count as [|c IH]; intros ret processed il iv Hc Hret; cbn [merge_holes]; [discriminate|].
    pose proof (se_ml (pinner P) processed (verts ret) 0 (scan_start false, 0, 0, il, iv)) as Hml.
    pose proof (se_me (pinner P) processed (verts ret) 0 (scan_start false, 0, 0, il, iv)) as Hme.
    destruct (scan_ext (verts ret) 0 (pinner P) processed (scan_start false, 0, 0, il, iv)) as [[[[md me0] ml] il'] iv'].
    unfold st_ml in Hml. unfold st_me in Hme. cbn [fst snd] in Hml, Hme.
    assert (Hlt : ml < length (pinner P)) by (destruct Hml as [->|Hml]; lia).
    destruct (nth_error (pinner P) ml) as [hole|] eqn:Eh; [|apply nth_error_None in Eh; lia].
    destruct (attach_index false P (verts ret) me0 hole iv') as [me| |s'] eqn:Ea; cbn [rbind]; [|discriminate|].
    2:{ intros H; inversion H; subst. apply attach_panic in Ea. destruct Ea as [-> Ea]. right; right. split; [reflexivity|].
        apply Hret. unfold llen. destruct Hme as [->|Hme]; lia. }
    destruct (rebuild false (lnormal (pouter P)) (verts ret) 0 me hole iv' loop_new) as [aux| |s'] eqn:Er; cbn [rbind]; [|discriminate|].
    - apply IH; [lia|]. intros E0. apply Hret. destruct (verts ret) as [|v vs] eqn:Ev; [unfold llen; rewrite Ev; reflexivity|].
      exfalso. apply rebuild_nonempty in Er; [lia | discriminate].
    - intros H; inversion H; subst. apply rebuild_panic in Er. destruct Er as [Er|[Er E0]]; [left; exact Er | right; left].
      split; [exact Er|]. exists hole. split; [eapply nth_error_In; exact Eh | exact E0].
  Qed.
  Theorem closed_loop_panic (P : Poly K) (s : N) : poly_get_closed_loop P = Panic s ->
    s = 41%N \/ (s = 42%N /\ exists h, In h (pinner P) /\ llen h = 0) \/ (s = 21%N /\ llen (pouter P) = 0).
  Proof. apply merge_panic; [lia|]. intros H. exact H. Qed.
  (** every hole has at least one vertex, and so has the outline (true of every polygon built through the API: see section 7) *)
  Definition holes_nonempty (P : Poly K) : Prop := forall h, In h (pinner P) -> llen h <> 0.
  Corollary closed_loop_panic_41 (P : Poly K) (s : N) : llen (pouter P) <> 0 -> holes_nonempty P -> poly_get_closed_loop P = Panic s -> s = 41%N.
  Proof.
    intros Ho Hh H. apply closed_loop_panic in H. destruct H as [H|[[_ (h & Hin & E0)]|[_ E0]]]; [exact H | exfalso; exact (Hh h Hin E0) | exfalso; exact (Ho E0)].
  Qed.

  (** ** 6. from_polygon and mesh_polygon *)
  (** a panic of [from_polygon] is a panic of [get_closed_loop]: [close] and the ear-clipping loop never panic *)
  Theorem from_polygon_panic_origin (P : Poly K) (s : N) : from_polygon P = Panic s -> poly_get_closed_loop P = Panic s.
  Proof.
    unfold from_polygon. destruct (poly_get_closed_loop P) as [Lm| |s']; cbn [rbind]; try discriminate; [|intros H; inversion H; reflexivity].
    pose proof (close_no_panic Lm) as Hc. pose proof (close_ok_invariants Lm) as Hi.
    destruct (loop_close Lm) as [L r]. cbn [fst snd] in Hc, Hi. destruct r as [[]| |s']; cbn [rbind]; try discriminate.
    2:{ intros _. exfalso. exact (Hc s' eq_refl). }
    destruct (Hi eq_refl) as [_ H3]. destruct (Nat.ltb_spec (llen L) 2) as [C|C]; [lia|].
    intros H. exfalso. revert H. apply fp_loop_no_panic. split; [lia | intros C1; lia].
  Qed.
  Theorem from_polygon_panic_sites (P : Poly K) (s : N) : from_polygon P = Panic s ->
    s = 41%N \/ (s = 42%N /\ exists h, In h (pinner P) /\ llen h = 0) \/ (s = 21%N /\ llen (pouter P) = 0).
  Proof. intros H. apply closed_loop_panic. apply from_polygon_panic_origin. exact H. Qed.
  Theorem from_polygon_panic_41 (P : Poly K) (s : N) : llen (pouter P) <> 0 -> holes_nonempty P -> from_polygon P = Panic s -> s = 41%N.
  Proof. intros Ho Hh H. eapply closed_loop_panic_41; [exact Ho | exact Hh | apply from_polygon_panic_origin; exact H]. Qed.
  Theorem from_polygon_no_holes_no_panic (P : Poly K) : pinner P = [] -> forall s, from_polygon P <> Panic s.
  Proof. intros Hp s H. apply from_polygon_panic_origin in H. rewrite (no_holes_unchanged P Hp) in H. discriminate. Qed.
End FpSites.

(** ** 6b. the sites of [refine] on a well-formed mesh: the neighbour look-ups (67, 73) and the sweep cursors
    (85, 90) are unreachable.  [okb] lists the sites that remain. *)
Section WfSites.
  Context {K : Type} {NK : Num K}.
  Notation V := (V3 K).
  Notation TP := (TriPiece K).
  Notation Mesh := (Mesh K).
  Variable okb : N -> bool.
  Definition okl (xs : list N) (s : N) : bool := existsb (N.eqb s) xs || okb s.
  Lemma okl_mono (xs : list N) (s : N) : okb s = true -> okl xs s = true.
  Proof. intros H. unfold okl. rewrite H. apply orb_true_r. Qed.
  Lemma okl_elim (xs : list N) (s : N) : okl xs s = true -> ~ In s xs -> okb s = true.
  Proof.
    unfold okl. intros H Hn. apply orb_true_iff in H. destruct H as [H|H]; [|exact H].
    apply existsb_exists in H. destruct H as (x & Hx & E). apply N.eqb_eq in E. subst. contradiction.
  Qed.
  Ltac okl_side := first [reflexivity | apply okl_mono; assumption].

  Hypothesis H61 : okb 61%N = true.
  Hypothesis H62 : okb 62%N = true.
  Hypothesis H63 : okb 63%N = true.
  Hypothesis H64 : okb 64%N = true.
  Hypothesis H65 : okb 65%N = true.
  Hypothesis H66 : okb 66%N = true.
  Hypothesis H68 : okb 68%N = true.
  Hypothesis H69 : okb 69%N = true.
  Hypothesis H70 : okb 70%N = true.
  Hypothesis H71 : okb 71%N = true.
  Hypothesis H72 : okb 72%N = true.
  Hypothesis H74 : okb 74%N = true.
  Hypothesis H75 : okb 75%N = true.
  Hypothesis H76 : okb 76%N = true.
  Hypothesis H77 : okb 77%N = true.
  Hypothesis H78 : okb 78%N = true.
  Hypothesis H79 : okb 79%N = true.
  Hypothesis H80 : okb 80%N = true.
  Hypothesis H81 : okb 81%N = true.
  Hypothesis H82 : okb 82%N = true.
  Hypothesis H83 : okb 83%N = true.
  Hypothesis H84 : okb 84%N = true.
  Hypothesis H86 : okb 86%N = true.
  Hypothesis H87 : okb 87%N = true.
  Hypothesis H91 : okb 91%N = true.

  Lemma gfar_w (M : Mesh) (i : nat) (e : Edge) : WF M -> np_res okb (get_flipped_aspect_ratio M i e).
  Proof.
    intros W s H. apply (okl_elim [67%N]).
    - revert H. apply (np_gfar (okl [67%N])); okl_side.
    - intros [<-|[]]. exact (gfar_wf M i e W H).
  Qed.
  Lemma rd_best_w (M : Mesh) (i : nat) (ar : K) : WF M -> forall js best, (forall j, In j js -> (j < 3)%N) -> np_res okb (rd_best M i ar js best).
  Proof.
    intros W. induction js as [|j js IH]; intros best Hj; cbn [rd_best]; [apply np_res_ok|].
    apply np_res_bind; [apply np_edge_from_lt; apply Hj; left; reflexivity|]. intros ed.
    apply np_res_bind; [apply gfar_w; exact W|]. intros r. apply IH. intros j' Hj'. apply Hj. right. exact Hj'.
  Qed.
  Lemma flip_wf_73 (i : nat) (e : Edge) (M M' : Mesh) : WF M -> flip_diagonal i e M <> (M', Panic 73%N).
  Proof.
    intros W H. unfold flip_diagonal in H.
    apply bind_get_inv in H. destruct H as [(t & Et & H) | (_ & H & _)]; [|discriminate].
    destruct (negb (tp_valid t)); [discriminate|].
    destruct (tp_neighbour t e) as [ni|] eqn:En; [|discriminate].
    destruct (W i t Et e ni En) as [Hlt _].
    apply bind_get_inv in H. destruct H as [(nb & Enb & H) | (_ & _ & Hnone)]; [|apply nth_error_None in Hnone; lia].
    revert H. match goal with |- ?f M = _ -> _ =>
      assert (G : NP (fun s => negb (N.eqb s 73)) f) by (repeat first [np_step_g | apply np_tri_new | apply np_tp_new]) end.
    intros H. specialize (G _ _ _ H). discriminate.
  Qed.
  Lemma flip_w (i : nat) (e : Edge) (M M' : Mesh) (s : N) : WF M -> flip_diagonal i e M = (M', Panic s) -> okb s = true.
  Proof.
    intros W H. apply (okl_elim [73%N]).
    - revert H. apply (np_flip (okl [73%N])); okl_side.
    - intros [<-|[]]. exact (flip_wf_73 _ _ _ _ W H).
  Qed.

  Lemma skipn_cons_tail {A} (t : A) (l' : list A) : forall (i : nat) (L : list A), t :: l' = skipn i L -> l' = skipn (S i) L /\ i < length L.
  Proof.
    induction i as [|i IHi]; intros [|x L]; cbn [skipn]; try discriminate; intros E.
    - inversion E. split; [reflexivity | cbn; lia].
    - destruct (IHi L E) as [E1 E2]. split; [exact E1 | cbn [length]; lia].
  Qed.

  Lemma rd_pass_w (m : K) : forall cnt i l any (M M' : Mesh) (s : N),
    WF M -> l = skipn i (tris M) -> cnt <= length l ->
    rd_pass m cnt i l any M = (M', Panic s) -> okb s = true.
  Proof.
    induction cnt as [|cnt IH]; intros i l any M M' s W Hl Hc H; cbn [rd_pass] in H; [discriminate|].
    destruct l as [|t l']; [cbn [length] in Hc; lia|].
    destruct (skipn_cons_tail _ _ _ _ Hl) as [Hl' Hi]. cbn [length] in Hc.
    destruct (negb (tp_valid t)); [eapply IH; try eassumption; lia|].
    destruct (nltb (tp_ar t) m); [eapply IH; try eassumption; lia|].
    apply mbind_inv in H. destruct H as [(b & M1 & H1 & H) | [(c & H1 & E) | (s' & H1 & E)]].
    - inversion H1; subst M1. clear H1. destruct (fst b) as [best|]; [|eapply IH; try eassumption; lia].
      apply mbind_inv in H. destruct H as [(u & M1 & H1 & H) | [(c & H1 & E) | (s' & H1 & E)]].
      + pose proof (wf_flip _ _ _ _ _ H1) as [Hlen W1]. specialize (W1 W).
        eapply IH in H; try eassumption; try reflexivity.
        rewrite skipn_length. subst l'. rewrite skipn_length in Hc. lia.
      + discriminate.
      + inversion E; subst s'. eapply flip_w; eassumption.
    - discriminate.
    - inversion E; subst s'. assert (Hb := f_equal snd H1). cbn [snd] in Hb. revert Hb.
      apply rd_best_w; [exact W|]. intros j [<-|[<-|[<-|[]]]]; lia.
  Qed.
  Lemma rd_loops_w (m : K) (n : nat) : forall loops (M M' : Mesh) (s : N),
    WF M -> n <= length (tris M) -> rd_loops m n loops M = (M', Panic s) -> okb s = true.
  Proof.
    induction loops as [|l IH]; intros M M' s W Hn H; cbn [rd_loops] in H; [discriminate|].
    apply mbind_inv in H. destruct H as [(any & M1 & H1 & H) | [(c & H1 & E) | (s' & H1 & E)]].
    - pose proof (wf_rd_pass m _ _ _ _ _ _ _ H1) as [Hlen W1]. destruct any; [|discriminate].
      eapply IH; [exact (W1 W) | | exact H]. lia.
    - discriminate.
    - inversion E; subst s'. eapply rd_pass_w; [exact W | reflexivity | | exact H1]. cbn [skipn]. exact Hn.
  Qed.
  Lemma restore_w (m : K) (M M' : Mesh) (s : N) : WF M -> restore_delaunay m M = (M', Panic s) -> okb s = true.
  Proof. intros W H. unfold restore_delaunay in H. eapply rd_loops_w; [exact W | | exact H]. lia. Qed.

  Lemma refine_pass_w (a m : K) : forall cnt i l any (M M' : Mesh) (s : N),
    WF M -> l = skipn i (tris M) -> cnt <= length l ->
    refine_pass a m cnt i l any M = (M', Panic s) -> okb s = true.
  Proof.
    induction cnt as [|cnt IH]; intros i l any M M' s W Hl Hc H; cbn [refine_pass] in H; [discriminate|].
    destruct l as [|t l']; [cbn [length] in Hc; lia|].
    destruct (skipn_cons_tail _ _ _ _ Hl) as [Hl' Hi]. cbn [length] in Hc.
    destruct (negb (tp_valid t)); [inversion H; subst; exact H91|].
    destruct (nltb (tarea (tp_tri t)) c1em3); [eapply IH; try eassumption; lia|].
    (* the continuation after a mutation: the cursor is re-read from the (longer) mesh *)
    assert (Hcont : forall b (M1 M2 : Mesh) (s1 : N), WF M1 -> length (tris M) <= length (tris M1) ->
              refine_pass a m cnt (S i) (skipn (S i) (tris M1)) b M1 = (M2, Panic s1) -> okb s1 = true).
    { intros b M1 M2 s1 W1 Hlen H1. eapply IH; [exact W1 | reflexivity | | exact H1].
      rewrite skipn_length. subst l'. rewrite skipn_length in Hc. lia. }
    assert (Hrc : forall b (M1 M2 : Mesh) (s1 : N), WF M1 -> length (tris M) <= length (tris M1) ->
              (mbind (restore_delaunay m) (fun _ => fun M0 : Mesh => refine_pass a m cnt (S i) (skipn (S i) (tris M0)) b M0)) M1 = (M2, Panic s1) -> okb s1 = true).
    { intros b M1 M2 s1 W1 Hlen H1. apply mbind_inv in H1. destruct H1 as [(u & M3 & H3 & H4) | [(c & H3 & E) | (s' & H3 & E)]].
      - pose proof (wf_restore m _ _ _ H3) as [Hlen3 W3]. eapply Hcont; [exact (W3 W1) | | exact H4]. lia.
      - discriminate.
      - inversion E; subst s'. eapply restore_w; [exact W1 | exact H3]. }
    destruct (nltb m (tp_ar t)).
    { apply bind_lift_inv in H. destruct H as [([s_i sg] & Hle & H) | (_ & [(c & E) | (s' & E & Hs)])]; [|discriminate|].
      2:{ exfalso. revert Hs. unfold longest_edge. cbn [tri_segment rbind]. destruct (nltb _ _); destruct (nltb _ _); discriminate. }
      apply bind_lift_inv in H. destruct H as [(ed & _ & H) | (_ & [(c & E) | (s' & E & Hs)])]; [|discriminate|].
      2:{ inversion E; subst s'. revert Hs. apply np_edge_from_lt. eapply longest_edge_lt. exact Hle. }
      apply mbind_inv in H. destruct H as [(u & M1 & H1 & H) | [(c & H1 & E) | (s' & H1 & E)]].
      - pose proof (wf_split_edge _ _ _ _ _ _ H1) as [Hlen1 W1]. eapply Hrc; [exact (W1 W) | exact Hlen1 | exact H].
      - discriminate.
      - inversion E; subst s'. revert H1. apply np_split_edge; assumption. }
    destruct (nltb a (tarea (tp_tri t))); [|eapply IH; try eassumption; lia].
    destruct (add_point (tp_cc t) M) as [M1 [did| c | s']] eqn:Eadd.
    - pose proof (wf_add_point _ _ _ _ Eadd) as [Hlen1 W1]. destruct did.
      + eapply Hrc; [exact (W1 W) | exact Hlen1 | exact H].
      + eapply Hcont; [exact (W1 W) | exact Hlen1 | exact H].
    - pose proof (wf_add_point _ _ _ _ Eadd) as [Hlen1 W1].
      apply bind_get_inv in H. destruct H as [(t' & Et' & H) | (_ & _ & Hnone)]; [|apply nth_error_None in Hnone; lia].
      apply mbind_inv in H. destruct H as [(did & M2 & H2 & H) | [(c' & H2 & E) | (s'' & H2 & E)]].
      + pose proof (wf_aptt _ _ _ _ _ _ H2) as [Hlen2 W2]. destruct did.
        * eapply Hrc; [exact (W2 (W1 W)) | | exact H]. lia.
        * eapply Hcont; [exact (W2 (W1 W)) | | exact H]. lia.
      + discriminate.
      + inversion E; subst s''. revert H2. apply np_aptt; try assumption. discriminate.
    - inversion H; subst. revert Eadd. apply np_add_point; assumption.
  Qed.
  Theorem refine_w (a m : K) : forall fuel (M M' : Mesh) (s : N), WF M -> refine fuel a m M = (M', Panic s) -> okb s = true.
  Proof.
    induction fuel as [|f IH]; intros M M' s W H; cbn [refine] in H; [discriminate|].
    apply mbind_inv in H. destruct H as [(any & M1 & H1 & H) | [(c & H1 & E) | (s' & H1 & E)]].
    - pose proof (wf_refine_pass a m _ _ _ _ _ _ _ H1) as [_ W1]. destruct any; [|discriminate]. eapply IH; [exact (W1 W) | exact H].
    - discriminate.
    - inversion E; subst s'. eapply refine_pass_w; [exact W | reflexivity | | exact H1]. cbn [skipn]. lia.
  Qed.
End WfSites.

(** ** 6c. the concrete lists, and [mesh_polygon] *)
Definition in_sites (l : list N) (s : N) : bool := existsb (N.eqb s) l.
(** the sites [refine] can reach on a well-formed mesh: those of Properties/C09_mesh.v minus 67, 73, 85, 90 *)
Definition sites_refine_wf : list N :=
  [61; 62; 63; 64; 65; 66; 68; 69; 70; 71; 72; 74; 75; 76; 77; 78; 79; 80; 81; 82; 83; 84; 86; 87; 91]%N.

Section Top.
  Context {K : Type} {NK : Num K}.
  Notation V := (V3 K).
  Notation Mesh := (Mesh K).

  Theorem refine_wf_sites (fuel : nat) (a m : K) (M M' : Mesh) (s : N) :
    WF M -> refine fuel a m M = (M', Panic s) -> in_sites sites_refine_wf s = true.
  Proof. intros W H. revert W H. apply (refine_w (in_sites sites_refine_wf)); reflexivity. Qed.

  (** a panic of [mesh_polygon] is a panic of [from_polygon], or a panic of [refine] on the well-formed initial mesh *)
  Theorem mesh_polygon_panic_origin (fuel : nat) (P : Poly K) (a m : K) (s : N) : mesh_polygon fuel P a m = Panic s ->
    from_polygon P = Panic s \/ exists t t', from_polygon P = Ok t /\ WF t /\ CNT t /\ refine fuel a m t = (t', Panic s).
  Proof.
    unfold mesh_polygon. destruct (from_polygon P) as [t| |s'] eqn:Ef; cbn [rbind]; try discriminate.
    - destruct (refine fuel a m t) as [t' r] eqn:Er. destruct r as [o| |s']; cbn [rbind]; try discriminate.
      intros H; inversion H; subst. right. exists t, t'. destruct (from_polygon_invariants P t Ef) as [W C]. split; [reflexivity|]. split; [exact W|]. split; [exact C|]. exact Er.
    - intros H; inversion H; subst. left. reflexivity.
  Qed.
  Theorem mesh_polygon_panic_sites (fuel : nat) (P : Poly K) (a m : K) (s : N) : mesh_polygon fuel P a m = Panic s ->
    s = 41%N \/ (s = 42%N /\ exists h, In h (pinner P) /\ llen h = 0) \/ (s = 21%N /\ llen (pouter P) = 0) \/ in_sites sites_refine_wf s = true.
  Proof.
    intros H. apply mesh_polygon_panic_origin in H. destruct H as [H|(t & t' & _ & W & _ & H)].
    - apply from_polygon_panic_sites in H. destruct H as [H|[H|H]]; [left; exact H | right; left; exact H | right; right; left; exact H].
    - right; right; right. eapply refine_wf_sites; eassumption.
  Qed.
  Theorem mesh_polygon_panic_41 (fuel : nat) (P : Poly K) (a m : K) (s : N) : llen (pouter P) <> 0 -> holes_nonempty P -> mesh_polygon fuel P a m = Panic s ->
    s = 41%N \/ in_sites sites_refine_wf s = true.
  Proof.
    intros Ho Hh H. apply mesh_polygon_panic_sites in H.
    destruct H as [H|[[_ (h & Hin & E0)]|[[_ E0]|H]]]; [left; exact H | exfalso; exact (Hh h Hin E0) | exfalso; exact (Ho E0) | right; exact H].
  Qed.
  Theorem mesh_polygon_no_holes_sites (fuel : nat) (P : Poly K) (a m : K) (s : N) : pinner P = [] -> mesh_polygon fuel P a m = Panic s ->
    in_sites sites_refine_wf s = true.
  Proof.
    intros Hp H. apply mesh_polygon_panic_origin in H. destruct H as [H|(t & t' & _ & W & _ & H)].
    - exfalso. exact (from_polygon_no_holes_no_panic P Hp s H).
    - eapply refine_wf_sites; eassumption.
  Qed.

  (** ** 7. polygons built through the API have non-empty holes: a closed Loop3D is never empty *)
  Definition closed_nonempty (L : Loop K) : Prop := lclosed L = true -> llen L <> 0.
  Lemma pop_redundant_ge2 (fuel : nat) : forall vs : list V, 2 <= length vs -> 2 <= length (fst (pop_redundant vs fuel)).
  Proof.
    induction fuel as [|f IH]; intros vs H; cbn [pop_redundant]; [exact H|].
    unfold last_is_redundant. destruct (Nat.ltb_spec (length vs) 3) as [C|C]; [exact H|].
    destruct (is_collinear _ _ _) as [[|]| |]; cbn [fst]; try exact H.
    apply IH. rewrite C12_merge.removelast_length. lia.
  Qed.
  Lemma drop_first_redundant_ge2 (fuel : nat) : forall vs : list V, 2 <= length vs -> 2 <= length (fst (drop_first_redundant vs fuel)).
  Proof.
    induction fuel as [|f IH]; intros vs H; cbn [drop_first_redundant]; [exact H|].
    destruct (Nat.ltb_spec (length vs) 3) as [C|C]; [exact H|].
    destruct (is_collinear _ _ _) as [[|]| |]; cbn [fst]; try exact H.
    assert (H2 : 2 <= length (tl vs)) by (destruct vs; cbn [tl length] in *; lia).
    pose proof (pop_redundant_ge2 (length vs) (tl vs) H2) as G. destruct (pop_redundant (tl vs) (length vs)) as [vs1 r]. cbn [fst] in G.
    destruct r; cbn [fst]; try exact G. apply IH, G.
  Qed.
  Lemma close_len_ge1 (L : Loop K) : 3 <= llen L -> 1 <= llen (fst (loop_close L)).
  Proof.
    intros H3. unfold loop_close. destruct (lclosed L); [cbn [fst]; lia|]. destruct (Nat.ltb_spec (llen L) 3) as [C|_]; [lia|].
    pose proof (pop_redundant_ge2 (llen L) (verts L) ltac:(unfold llen in H3; lia)) as G1. destruct (pop_redundant (verts L) (llen L)) as [vs1 r1]. cbn [fst] in G1.
    set (L1 := set_verts L vs1). assert (G1' : 1 <= llen L1) by (unfold L1, llen; cbn [verts set_verts]; lia).
    destruct r1; cbn [fst]; try exact G1'.
    destruct (Nat.ltb (length vs1) 3); [exact G1'|].
    destruct (valid_to_add L1 _); cbn [fst]; try exact G1'.
    pose proof (drop_first_redundant_ge2 (length vs1) vs1 G1) as G2. destruct (drop_first_redundant vs1 (length vs1)) as [vs2 r2]. cbn [fst] in G2.
    set (L2 := set_verts L1 vs2). assert (G2' : 1 <= llen L2) by (unfold L2, llen; cbn [verts set_verts]; lia).
    destruct r2; cbn [fst]; try exact G2'.
    destruct (Nat.ltb (length vs2) 3); [exact G2'|].
    match goal with |- context [loop_set_area ?l] => destruct (loop_set_area l) as [L4| |] eqn:E4 end; cbn [fst]; try exact G2'.
    destruct (loop_set_perimeter L4) as [L5| |] eqn:E5; cbn [fst].
    - apply set_perimeter_verts in E5. apply set_area_verts in E4. unfold llen. rewrite E5, E4. exact G2'.
    - apply set_area_verts in E4. unfold llen. rewrite E4. exact G2'.
    - apply set_area_verts in E4. unfold llen. rewrite E4. exact G2'.
  Qed.
  Lemma step_closed_nonempty (L : Loop K) (op : lop K) : closed_nonempty L -> closed_nonempty (fst (loop_step L op)).
  Proof.
    intros HL. destruct op as [p|]; cbn [loop_step].
    - destruct (loop_push L p) as [L'| |] eqn:E; cbn [fst]; try exact HL. intros Hc. rewrite (push_open _ _ _ E) in Hc. discriminate.
    - destruct (Nat.ltb_spec (llen L) 3) as [C|C].
      + unfold loop_close. apply Nat.ltb_lt in C. rewrite C. destruct (lclosed L); exact HL.
      + intros _. pose proof (close_len_ge1 L C). lia.
  Qed.
  Theorem run_closed_nonempty (ops : list (lop K)) : forall L : Loop K, closed_nonempty L -> closed_nonempty (fst (loop_run L ops)).
  Proof.
    induction ops as [|op ops IH]; intros L HL; cbn [loop_run]; [exact HL|].
    pose proof (step_closed_nonempty L op HL) as H1. destruct (loop_step L op) as [L' o]. cbn [fst] in H1.
    specialize (IH L' H1). destruct (loop_run L' ops) as [L'' os]. exact IH.
  Qed.
  Lemma new_closed_nonempty : closed_nonempty (loop_new (K:=K)).
  Proof. intros H. discriminate. Qed.

  Lemma cut_hole_holes (P P' : Poly K) (h : Loop K) : poly_cut_hole P h = Ok P' -> pinner P' = pinner P ++ [h] /\ lclosed h = true.
  Proof.
    unfold poly_cut_hole. destruct (negb _); [discriminate|]. destruct (all_inside P (verts h)) as [ins| |]; cbn [rbind]; try discriminate.
    destruct (negb ins); [discriminate|]. destruct (encloses_any h (pinner P)) as [enc| |]; cbn [rbind]; try discriminate.
    destruct enc; [discriminate|]. unfold loop_area. destruct (lclosed h); cbn [rbind]; [|discriminate].
    intros H; inversion H; subst. split; reflexivity.
  Qed.
  Lemma step_holes_nonempty (P : Poly K) (h : Loop K) : holes_nonempty P -> closed_nonempty h -> holes_nonempty (fst (poly_step P h)).
  Proof.
    intros HP Hh. unfold poly_step. destruct (poly_cut_hole P h) as [P'| |] eqn:E; cbn [fst]; try exact HP.
    apply cut_hole_holes in E. destruct E as [E Hc]. intros h' Hin. rewrite E in Hin. apply in_app_or in Hin.
    destruct Hin as [Hin|[<-|[]]]; [exact (HP h' Hin) | exact (Hh Hc)].
  Qed.
  Theorem run_holes_nonempty (hs : list (Loop K)) : forall P : Poly K,
    holes_nonempty P -> (forall h, In h hs -> closed_nonempty h) -> holes_nonempty (fst (poly_run P hs)).
  Proof.
    induction hs as [|h hs IH]; intros P HP Hhs; cbn [poly_run]; [exact HP|].
    pose proof (step_holes_nonempty P h HP (Hhs h (or_introl eq_refl))) as H1. destruct (poly_step P h) as [P' o]. cbn [fst] in H1.
    specialize (IH P' H1 (fun h' Hin => Hhs h' (or_intror Hin))). destruct (poly_run P' hs) as [P'' os]. exact IH.
  Qed.
  Lemma new_holes_nonempty (outer : Loop K) (P : Poly K) : poly_new outer = Ok P -> holes_nonempty P.
  Proof.
    unfold poly_new. destruct (negb _); [discriminate|]. destruct (loop_area outer); cbn [rbind]; try discriminate.
    intros H; inversion H; subst. intros h [].
  Qed.
  (** Polygon3D::new of any loop, then any history of cut_hole calls (accepted or refused) whose candidate holes were
      each produced by a history of push / close calls on a fresh Loop3D: every hole is non-empty *)
  Theorem api_holes_nonempty (outer : Loop K) (P : Poly K) (hs : list (Loop K)) :
    poly_new outer = Ok P -> (forall h, In h hs -> exists ops, h = fst (loop_run loop_new ops)) ->
    holes_nonempty (fst (poly_run P hs)).
  Proof.
    intros Hn Hhs. apply run_holes_nonempty; [eapply new_holes_nonempty; exact Hn|].
    intros h Hin. destruct (Hhs h Hin) as [ops ->]. apply run_closed_nonempty. apply new_closed_nonempty.
  Qed.
  (** the outline is the loop given to Polygon3D::new (closed, hence non-empty when it comes from the Loop3D API); cut_hole keeps it *)
  Lemma cut_hole_outer (P P' : Poly K) (h : Loop K) : poly_cut_hole P h = Ok P' -> pouter P' = pouter P.
  Proof.
    unfold poly_cut_hole. destruct (negb _); [discriminate|]. destruct (all_inside P (verts h)) as [ins| |]; cbn [rbind]; try discriminate.
    destruct (negb ins); [discriminate|]. destruct (encloses_any h (pinner P)) as [enc| |]; cbn [rbind]; try discriminate.
    destruct enc; [discriminate|]. destruct (loop_area h); cbn [rbind]; try discriminate. intros H; inversion H; reflexivity.
  Qed.
  Lemma run_outer (hs : list (Loop K)) : forall P : Poly K, pouter (fst (poly_run P hs)) = pouter P.
  Proof.
    induction hs as [|h hs IH]; intros P; cbn [poly_run]; [reflexivity|].
    assert (H1 : pouter (fst (poly_step P h)) = pouter P).
    { unfold poly_step. destruct (poly_cut_hole P h) as [P'| |] eqn:E; cbn [fst]; try reflexivity. eapply cut_hole_outer; exact E. }
    destruct (poly_step P h) as [P' o]. cbn [fst] in H1. specialize (IH P'). destruct (poly_run P' hs) as [P'' os]. cbn [fst] in *. congruence.
  Qed.
  Lemma new_outer (outer : Loop K) (P : Poly K) : poly_new outer = Ok P -> pouter P = outer /\ lclosed outer = true.
  Proof.
    unfold poly_new. destruct (lclosed outer); cbn [negb]; [|discriminate]. destruct (loop_area outer); cbn [rbind]; try discriminate.
    intros H; inversion H; subst. split; reflexivity.
  Qed.
  Theorem api_outer_nonempty (ops0 : list (lop K)) (P : Poly K) (hs : list (Loop K)) :
    poly_new (fst (loop_run loop_new ops0)) = Ok P -> llen (pouter (fst (poly_run P hs))) <> 0.
  Proof.
    intros Hn. rewrite run_outer. apply new_outer in Hn. destruct Hn as [-> Hc].
    exact (run_closed_nonempty ops0 loop_new new_closed_nonempty Hc).
  Qed.
  Theorem api_from_polygon_panic_41 (ops0 : list (lop K)) (P : Poly K) (hs : list (Loop K)) (s : N) :
    poly_new (fst (loop_run loop_new ops0)) = Ok P -> (forall h, In h hs -> exists ops, h = fst (loop_run loop_new ops)) ->
    from_polygon (fst (poly_run P hs)) = Panic s -> s = 41%N.
  Proof. intros Hn Hhs. apply from_polygon_panic_41; [eapply api_outer_nonempty; exact Hn | eapply api_holes_nonempty; eassumption]. Qed.
  Theorem api_mesh_polygon_panic (ops0 : list (lop K)) (P : Poly K) (hs : list (Loop K)) (fuel : nat) (a m : K) (s : N) :
    poly_new (fst (loop_run loop_new ops0)) = Ok P -> (forall h, In h hs -> exists ops, h = fst (loop_run loop_new ops)) ->
    mesh_polygon fuel (fst (poly_run P hs)) a m = Panic s -> s = 41%N \/ in_sites sites_refine_wf s = true.
  Proof. intros Hn Hhs. apply mesh_polygon_panic_41; [eapply api_outer_nonempty; exact Hn | eapply api_holes_nonempty; eassumption]. Qed.
End Top.

(** ** 8. witnesses on the executed instance (binary64), evaluated by vm_compute *)
From Coq Require Import Floats.
From G3 Require Import Model.NumF Proofs.Mesh_witness.
Set Warnings "-inexact-float".

Lemma holes_nonempty_b {K : Type} {NK : Num K} (P : Poly K) :
  forallb (fun h => negb (Nat.eqb (llen h) 0)) (pinner P) = true -> holes_nonempty P.
Proof.
  intros H h Hin E. rewrite forallb_forall in H. specialize (H h Hin). rewrite E in H. discriminate.
Qed.

(** W41 -- site 41 IS reachable, from a VALID polygon built through the API (a genuine defect of the crate, reproduced
    through the harness: "called `Result::unwrap()` on an `Err` value: Trying to push a point that would make the Loop3D
    intersect with itself").  The outline is the square [-100,100]^2 with a thin notch whose tip is A = (0,0); the hole
    is the triangle B = (0,1.5), C = (-50,0.7), D = (50,0.7).  The nearest outline/hole VERTEX pair is (A, B), but the
    hole's own edge C-D passes between them: the bridge A-B crosses it, the rebuilt outline A, B, C, D is refused by
    Loop3D::push (self-intersection) and get_closed_loop unwraps the Err. *)
Definition w41_outer : list (V3 float) :=
  [p2 (-100) (-100); p2 (-1) (-100); p2 0 0; p2 1 (-100); p2 100 (-100); p2 100 100; p2 (-100) 100]%float.
Definition w41_hole : list (V3 float) := [p2 0 1.5; p2 (-50) 0.7; p2 50 0.7]%float.
Definition w41_poly : Poly float := get dummy_poly (build_poly w41_outer [w41_hole]).
Lemma w41_panics :
  build_poly w41_outer [w41_hole] = Ok w41_poly /\ holes_nonempty w41_poly /\ length (pinner w41_poly) = 1 /\
  from_polygon w41_poly = Panic 41%N /\ forall fuel a m, mesh_polygon fuel w41_poly a m = Panic 41%N.
Proof.
  assert (F : from_polygon w41_poly = Panic 41%N) by (vm_compute; reflexivity).
  split; [vm_compute; reflexivity|]. split; [apply holes_nonempty_b; vm_compute; reflexivity|].
  split; [vm_compute; reflexivity|]. split; [exact F|]. intros fuel a m. unfold mesh_polygon. rewrite F. reflexivity.
Qed.

(** W42 -- the side condition of [from_polygon_panic_41] is necessary: a polygon RECORD with an empty (closed) hole,
    which no sequence of API calls produces, makes get_closed_loop compute [% 0] *)
Definition w42_poly : Poly float :=
  mkPoly (pouter w4_poly) [mkLoop [] (mkV3 0 0 1) true 0 0]%float (parea w4_poly) (pnormal w4_poly).
Lemma w42_panics : from_polygon w42_poly = Panic 42%N.
Proof. vm_compute. reflexivity. Qed.

(** W21 -- so is "the outline is not empty" since fix bcb072e: a RECORD with an empty outline and two (non-empty) holes
    makes get_closed_loop index `ret_loop[min_ext_vertex_id]` out of bounds (the API cannot produce it either) *)
Definition w21_poly : Poly float :=
  mkPoly (mkLoop [] (mkV3 0 0 1) true 0 0)%float (pinner w5_poly ++ pinner w5_poly) 0%float (mkV3 0 0 1)%float.
Lemma w21_panics : from_polygon w21_poly = Panic 21%N /\ llen (pouter w21_poly) = 0 /\ holes_nonempty w21_poly /\ length (pinner w21_poly) = 2.
Proof. split; [vm_compute; reflexivity|]. split; [reflexivity|]. split; [apply holes_nonempty_b; vm_compute; reflexivity | vm_compute; reflexivity]. Qed.

(** non-vacuity: a hole-free polygon and a polygon with a (non-empty) hole on which from_polygon returns Ok *)
Lemma w_sites_nonvacuous :
  (pinner w4_poly = [] /\ exists M, from_polygon w4_poly = Ok M) /\
  (llen (pouter w5_poly) <> 0 /\ holes_nonempty w5_poly /\ length (pinner w5_poly) = 1 /\ exists M, from_polygon w5_poly = Ok M).
Proof.
  split.
  - split; [vm_compute; reflexivity|]. destruct w_square_ok as (M & H & _). exists M. exact H.
  - split; [vm_compute; discriminate|]. split; [apply holes_nonempty_b; vm_compute; reflexivity|]. destruct w5_from_polygon_ok as (M & H1 & _ & H3). split; [exact H3|]. exists M. exact H1.
Qed.
