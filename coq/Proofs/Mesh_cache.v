(** * Mesh_cache (C18): the values cached in a slot (aspect ratio, circumcentre, centroid) are the ones
    Triangle3D computes from the slot's own triangle.  [CC] holds of the empty mesh and is preserved by every
    operation whatever its outcome, hence it holds of every mesh [from_polygon] / [refine] return.
    Every number instance. *)
From Coq Require Import ZArith Bool List Arith Lia.
From G3 Require Import Model.Num Model.Base Model.Vec Model.Segment Model.Triangle Model.Loop Model.Polygon Model.Triangulation
  Proofs.Mesh_base.
Import ListNotations.

Section Cache.
  Context {K : Type} {NK : Num K}.
  Notation V := (V3 K).
  Notation TP := (TriPiece K).
  Notation Mesh := (Mesh K).

  Definition coherent (t : TP) : Prop :=
    tp_ar t = tri_aspect_ratio (tp_tri t) /\ tp_cc t = tri_circumcenter (tp_tri t) /\ tp_cen t = tri_centroid (tp_tri t).
  Definition CC (M : Mesh) : Prop := Forall coherent (tris M).
  Definition Rcc (M M' : Mesh) : Prop := CC M -> CC M'.
  Lemma Rcc_refl M : Rcc M M. Proof. intros H; exact H. Qed.
  Lemma Rcc_trans M1 M2 M3 : Rcc M1 M2 -> Rcc M2 M3 -> Rcc M1 M3. Proof. unfold Rcc; tauto. Qed.
  Notation PCC := (Pres Rcc).

  Lemma Forall_upd (P : TP -> Prop) (i : nat) (f : TP -> TP) (l : list TP) : (forall t, P t -> P (f t)) -> Forall P l -> Forall P (upd i f l).
  Proof. intros Hf. revert i; induction l as [|t l IH]; intros [|i] H; cbn [upd]; try assumption; inversion H; subst; constructor; auto. Qed.
  Lemma Forall_set_nth (P : TP -> Prop) (i : nat) (x : TP) (l : list TP) : P x -> Forall P l -> Forall P (set_nth i x l).
  Proof. intros Hx. revert i; induction l as [|t l IH]; intros [|i] H; cbn [set_nth]; try assumption; inversion H; subst; constructor; auto. Qed.
  Lemma coh_set_neighbour e i t : coherent t -> coherent (tp_set_neighbour e i t). Proof. destruct e; exact (fun H => H). Qed.
  Lemma coh_constrain e t : coherent t -> coherent (tp_constrain e t). Proof. destruct e; exact (fun H => H). Qed.
  Lemma coh_invalidate t : coherent t -> coherent (tp_invalidate t). Proof. exact (fun H => H). Qed.
  Lemma tp_new_coherent (a b c : V) (n : nat) (t : TP) : tp_new a b c n = Ok t -> coherent t.
  Proof. unfold tp_new. destruct (tri_new a b c); cbn [rbind]; try discriminate. intros H; inversion H; subst. repeat split. Qed.

  Lemma cc_mupd s i (f : TP -> TP) : (forall t, coherent t -> coherent (f t)) -> PCC (mupd s i f).
  Proof. intros Hf M M' r H C. unfold mupd in H. destruct (Nat.ltb _ _); inversion H; subst; [|exact C]. unfold CC; cbn [tris]. apply Forall_upd; assumption. Qed.
  Lemma cc_invalidate i : PCC (mesh_invalidate (K:=K) i).
  Proof.
    intros M M' r H C. unfold mesh_invalidate in H. destruct (Nat.ltb _ _); [|inversion H; subst; exact C].
    destruct (nvalid M); inversion H; subst; unfold CC; cbn [tris]; apply Forall_upd; try assumption; apply coh_invalidate.
  Qed.
  Lemma cc_push (a b c : V) (la : nat) : PCC (mesh_push a b c la).
  Proof.
    intros M M' r H C. unfold mesh_push in H. destruct (get_first_invalid M la) as [n|].
    - destruct (tp_new a b c n) as [t| |] eqn:Et; inversion H; subst; try exact C.
      unfold CC; cbn [tris]. apply Forall_set_nth; [eapply tp_new_coherent; exact Et | exact C].
    - destruct (tp_new a b c (length (tris M))) as [t| |] eqn:Et; inversion H; subst; try exact C.
      unfold CC; cbn [tris]. apply Forall_app. split; [exact C|]. constructor; [eapply tp_new_coherent; exact Et | constructor].
  Qed.
  Ltac cc_step :=
    match goal with
    | |- Pres Rcc (mbind _ _) => apply (pres_bind Rcc Rcc_trans); [|intros ?]
    | |- Pres Rcc (mret _) => apply (pres_ret Rcc Rcc_refl)
    | |- Pres Rcc (mlift _) => apply (pres_lift Rcc Rcc_refl)
    | |- Pres Rcc (mget _ _) => apply (pres_get Rcc Rcc_refl)
    | |- Pres Rcc (mwhen _ _) => apply (pres_when Rcc Rcc_refl)
    | |- Pres Rcc (mupd _ _ (tp_set_neighbour _ _)) => apply cc_mupd; intros ?; apply coh_set_neighbour
    | |- Pres Rcc (mupd _ _ (tp_constrain _)) => apply cc_mupd; intros ?; apply coh_constrain
    | |- Pres Rcc (mesh_push _ _ _ _) => apply cc_push
    | |- Pres Rcc (mesh_invalidate _) => apply cc_invalidate
    | |- Pres Rcc (if ?b then _ else _) => destruct b
    | |- Pres Rcc (match ?x with _ => _ end) => destruct x
    | |- Pres Rcc (let '(_, _) := ?x in _) => destruct x
    end.
  Lemma cc_mark i1 e1 i2 : PCC (mark_as_neighbours (K:=K) i1 e1 i2).
  Proof. unfold mark_as_neighbours. repeat cc_step. Qed.
  Lemma cc_flip i e : PCC (flip_diagonal (K:=K) i e).
  Proof. unfold flip_diagonal. repeat first [apply cc_mark | cc_step]. Qed.
  Lemma cc_hemisphere s p i : PCC (process_hemisphere (K:=K) s p i).
  Proof. unfold process_hemisphere. repeat first [apply cc_mark | cc_step]. Qed.
  Lemma cc_precheck s p i : PCC (split_precheck (K:=K) s p i).
  Proof. unfold split_precheck. repeat cc_step. Qed.
  Lemma cc_split_edge i e p : PCC (split_edge (K:=K) i e p).
  Proof. unfold split_edge. repeat first [apply cc_mark | apply cc_hemisphere | apply cc_precheck | cc_step]. Qed.
  Lemma cc_split_triangle i p : PCC (split_triangle (K:=K) i p).
  Proof. unfold split_triangle. repeat first [apply cc_mark | cc_step]. Qed.
  Lemma cc_rd_pass (m : K) : forall cnt i l any, PCC (rd_pass m cnt i l any).
  Proof.
    induction cnt as [|cnt IH]; intros i l any; cbn [rd_pass]; [apply (pres_ret Rcc Rcc_refl)|].
    destruct l as [|t l']; [apply (pres_lift Rcc Rcc_refl)|].
    destruct (negb (tp_valid t)); [apply IH|]. destruct (nltb (tp_ar t) m); [apply IH|].
    apply (pres_bind Rcc Rcc_trans); [apply (pres_read Rcc Rcc_refl)|]. intros b. destruct (fst b); [|apply IH].
    apply (pres_bind Rcc Rcc_trans); [apply cc_flip|]. intros _ M M' r H. exact (IH _ _ _ M M' r H).
  Qed.
  Lemma cc_rd_loops (m : K) (n : nat) : forall loops, PCC (rd_loops m n loops).
  Proof.
    induction loops as [|l IH]; cbn [rd_loops]; [apply (pres_ret Rcc Rcc_refl)|].
    apply (pres_bind Rcc Rcc_trans); [intros M M' r H; exact (cc_rd_pass m _ _ _ _ M M' r H)|]. intros any. destruct any; [apply IH | apply (pres_ret Rcc Rcc_refl)].
  Qed.
  Lemma cc_restore (m : K) : PCC (restore_delaunay m).
  Proof. unfold restore_delaunay. intros M M' r H. exact (cc_rd_loops m _ _ M M' r H). Qed.
  Lemma cc_aptt i p loc : PCC (add_point_to_triangle (K:=K) i p loc).
  Proof. unfold add_point_to_triangle. repeat first [apply cc_split_edge | apply cc_split_triangle | cc_step]. Qed.
  Lemma cc_add_point p : PCC (add_point (K:=K) p).
  Proof.
    intros M M' r H. unfold add_point in H. destruct (find_container (tris M) 0 p) as [[i loc]|].
    - eapply cc_aptt. exact H.
    - inversion H; subst. apply Rcc_refl.
  Qed.
  Lemma cc_refine_pass (a m : K) : forall cnt i l any, PCC (refine_pass a m cnt i l any).
  Proof.
    induction cnt as [|cnt IH]; intros i l any; cbn [refine_pass]; [apply (pres_ret Rcc Rcc_refl)|].
    destruct l as [|t l']; [apply (pres_lift Rcc Rcc_refl)|].
    destruct (negb (tp_valid t)); [apply (pres_lift Rcc Rcc_refl)|]. destruct (nltb (tarea (tp_tri t)) c1em3); [apply IH|].
    assert (Hc : forall b, PCC (fun M : Mesh => refine_pass a m cnt (S i) (skipn (S i) (tris M)) b M))
      by (intros b M M' r H; exact (IH _ _ _ M M' r H)).
    destruct (nltb m (tp_ar t)).
    { apply (pres_bind Rcc Rcc_trans); [apply (pres_lift Rcc Rcc_refl)|]. intros [s_i s].
      apply (pres_bind Rcc Rcc_trans); [apply (pres_lift Rcc Rcc_refl)|]. intros ed.
      apply (pres_bind Rcc Rcc_trans); [apply cc_split_edge|]. intros _.
      apply (pres_bind Rcc Rcc_trans); [apply cc_restore|]. intros _. apply Hc. }
    destruct (nltb a (tarea (tp_tri t))); [|apply IH].
    intros M M' r H. destruct (add_point (tp_cc t) M) as [M1 [did| c | s]] eqn:Eadd.
    - pose proof (cc_add_point _ _ _ _ Eadd) as G1. destruct did.
      + eapply Rcc_trans; [exact G1|]. revert H. apply (pres_bind Rcc Rcc_trans); [apply cc_restore|]. intros _. apply Hc.
      + eapply Rcc_trans; [exact G1|]. eapply Hc. exact H.
    - pose proof (cc_add_point _ _ _ _ Eadd) as G1. eapply Rcc_trans; [exact G1|]. revert H.
      apply (pres_bind Rcc Rcc_trans); [apply (pres_get Rcc Rcc_refl)|]. intros t'.
      apply (pres_bind Rcc Rcc_trans); [apply cc_aptt|]. intros did. destruct did; [|apply Hc].
      apply (pres_bind Rcc Rcc_trans); [apply cc_restore|]. intros _. apply Hc.
    - pose proof (cc_add_point _ _ _ _ Eadd) as G1. inversion H; subst. exact G1.
  Qed.
  Lemma cc_refine (a m : K) : forall fuel, PCC (refine fuel a m).
  Proof.
    induction fuel as [|f IH]; cbn [refine]; [apply (pres_ret Rcc Rcc_refl)|].
    intros M M' r H. revert H. apply (pres_bind Rcc Rcc_trans); [apply cc_refine_pass|]. intros any. destruct any; [apply IH | apply (pres_ret Rcc Rcc_refl)].
  Qed.

  (** from_polygon *)
  Lemma cc_pair a b : PCC (mark_edge_pair (K:=K) a b).
  Proof. unfold mark_edge_pair. repeat first [apply cc_mark | cc_step]. Qed.
  Lemma cc_inner a : forall cnt b, PCC (mn_inner (K:=K) a b cnt).
  Proof. induction cnt as [|c IH]; intros b; cbn [mn_inner]; repeat cc_step; [apply cc_pair | apply IH]. Qed.
  Lemma cc_outer n : forall cnt a, PCC (mn_outer (K:=K) n a cnt).
  Proof. induction cnt as [|c IH]; intros a; cbn [mn_outer]; repeat cc_step; [apply cc_inner | apply IH]. Qed.
  Lemma cc_neighbourhouds : PCC (mark_neighbourhouds (K:=K)).
  Proof. intros M M' r H. unfold mark_neighbourhouds in H. eapply cc_outer. exact H. Qed.
  Lemma cc_fp_loop (P : Poly K) : forall fuel count anchor (L : Loop K) (t M : Mesh), fp_loop P fuel count anchor L t = Ok M -> CC t -> CC M.
  Proof.
    induction fuel as [|fuel IH]; intros count anchor L t M H C; cbn [fp_loop] in H; [discriminate|].
    destruct (if Nat.eqb _ 0 then loop_sanitize L else Ok L) as [L1| |]; cbn [rbind] in H; try discriminate.
    destruct (Nat.eqb (llen L1) 2).
    { destruct (mark_neighbourhouds t) as [t' r] eqn:Em. destruct r; cbn [rbind] in H; try discriminate. inversion H; subst. eapply cc_neighbourhouds; eassumption. }
    destruct (Nat.eqb (llen L1) 0); [discriminate|].
    destruct (loop_index L1 _) as [v0| |]; cbn [rbind] in H; try discriminate.
    destruct (loop_index L1 _) as [v1| |]; cbn [rbind] in H; try discriminate.
    destruct (loop_index L1 _) as [v2| |]; cbn [rbind] in H; try discriminate.
    destruct (is_collinear v0 v1 v2) as [is_line| |]; cbn [rbind] in H; try discriminate.
    destruct (loop_is_diagonal L1 _) as [is_diag| |]; cbn [rbind] in H; try discriminate.
    destruct (ear_test P L1 v0 v1 v2 is_line is_diag) as [is_ear| |]; cbn [rbind] in H; try discriminate.
    destruct is_ear; [|eapply IH; eassumption].
    destruct (mesh_push v0 v1 v2 (n_triangles t) t) as [t1 r] eqn:Ep. apply cc_push in Ep. destruct r; cbn [rbind] in H; try discriminate.
    assert (Hc : forall (sg : Seg K) (e : Edge) (m m' : Mesh) (r : res unit),
               (if poly_contains_segment P sg then mupd 95%N (n_triangles t) (tp_constrain e) m else (m, Ok tt)) = (m', r) -> Rcc m m').
    { intros sg e m m' r Hm. destruct (poly_contains_segment P sg); [|inversion Hm; subst; apply Rcc_refl].
      eapply cc_mupd; [intros ?; apply coh_constrain | exact Hm]. }
    match type of H with context [let '(t2, r) := ?c in _] => destruct c as [t2 r2] eqn:Ec2 end. apply Hc in Ec2. destruct r2; cbn [rbind] in H; try discriminate.
    match type of H with context [let '(t3, r) := ?c in _] => destruct c as [t3 r3] eqn:Ec3 end. apply Hc in Ec3. destruct r3; cbn [rbind] in H; try discriminate.
    match type of H with context [let '(t4, r) := ?c in _] => destruct c as [t4 r4] eqn:Ec4 end. apply Hc in Ec4. destruct r4; cbn [rbind] in H; try discriminate.
    destruct (loop_remove L1 _) as [L2| |]; cbn [rbind] in H; try discriminate.
    eapply IH; [exact H|]. auto.
  Qed.
  Theorem from_polygon_coherent (P : Poly K) (M : Mesh) : from_polygon P = Ok M -> CC M.
  Proof.
    unfold from_polygon. destruct (poly_get_closed_loop P) as [Lm| |]; cbn [rbind]; try discriminate.
    destruct (loop_close Lm) as [L r]. destruct r; cbn [rbind]; try discriminate. destruct (Nat.ltb _ 2); [discriminate|].
    intros H. eapply cc_fp_loop; [exact H | constructor].
  Qed.
  Theorem mesh_polygon_coherent (fuel : nat) (P : Poly K) (a m : K) (M : Mesh) (o : rres) : mesh_polygon fuel P a m = Ok (M, o) -> CC M.
  Proof.
    unfold mesh_polygon. destruct (from_polygon P) as [t| |] eqn:E; cbn [rbind]; try discriminate.
    destruct (refine fuel a m t) as [t' r] eqn:Er. destruct r; cbn [rbind]; try discriminate. intros H; inversion H; subst.
    eapply cc_refine; [exact Er | eapply from_polygon_coherent; exact E].
  Qed.
End Cache.
