(** * C01 in terms of the POLYGON (outer outline and holes), not of the merged outline.

    Proofs/C01_tiling.v: for a sanitize-stable successful [from_polygon] the triangles are an ear decomposition of the closed
    MERGED outline L, every ear is counter-clockwise for the polygon's normal (fix 4bb2ed8), hence the winding number of L
    about a point counts the triangles containing it, and the absolute triangle areas add up to the shoelace area of L.
    Proofs/C12_region.v: under the decidable side conditions [closed_loop_clean false P] and [closed_loop_wf P] the merged
    outline satisfies  wn merged = wn outer - sum_holes wn (hole oriented like the outer),  the same for area2 and Newell.

    Here the two are composed, over the reals, in the plane coordinates [plane2 o e1 e2] of any frame whose normal
    e1 x e2 is (a positive multiple of) the polygon's normal:
    - [polygon_count]:         #triangles containing q = wn outer q - sum_holes wn (oriented hole) q;
    - [polygon_tile_exactly]:  with the Jordan hypotheses on the INPUT loops at q (outer winds 0 or 1 times, every
                               oriented hole winds >= 0 times, the holes together at most as often as the outer): a point of
                               the region is in exactly one triangle, a point outside the outer outline or in a hole in none,
                               no two triangles overlap;
    - [polygon_area_sum]:      sum |area2 T| = area2 outer - sum_holes area2 (oriented hole);
    - [polygon_area_parea]:    ... = parea P  (loops in one plane with unit normal e1 x e2, stored areas signed, the
                               polygon's own accounting area = outer - holes: the hypotheses of C12_region_net_area).

    Hypotheses (all stated in Properties/C01_tiling.v): C12's two side conditions; [stable_run P M]; [loop_close] keeps the
    vertex list of the merged loop; [frame_normal e1 e2 P]; the ray generic for the polygon's vertices; q on no triangle
    edge; Jordan on the input, pointwise.  Exact tier only. *)
From Coq Require Import ZArith Reals Lra Lia Bool List Arith Psatz Floats.
From G3 Require Import Model.Num Model.NumF Model.Base Model.Vec Model.Segment Model.Triangle Model.Loop Model.Polygon Model.PolyAux Model.Triangulation
  Theory.RInst Theory.LoopGeom Proofs.C05_pointtest Proofs.C12_merge Proofs.C12_region Proofs.C01_tiling Proofs.Mesh_witness.
From G3 Require Theory.Cyclic Theory.Winding Theory.Shoelace.
Import ListNotations.
Local Open Scope R_scope.

Notation PP := Winding.P2.
Notation T2 := (PP * PP * PP)%type.

(** ** sums over the holes *)
Lemma zsum_nonneg (l : list Z) : (forall x, In x l -> (0 <= x)%Z) -> (0 <= zsum l)%Z.
Proof.
  induction l as [|x l IH]; intros H; [cbn; lia|]. unfold zsum in *. cbn [fold_right].
  pose proof (H x (or_introl eq_refl)). assert (0 <= fold_right Z.add 0 l)%Z by (apply IH; intros; apply H; right; assumption). lia.
Qed.
Lemma zsum_member_le (l : list Z) (x : Z) : (forall y, In y l -> (0 <= y)%Z) -> In x l -> (x <= zsum l)%Z.
Proof.
  induction l as [|y l IH]; intros H Hin; [destruct Hin|]. unfold zsum in *. cbn [fold_right]. destruct Hin as [->|Hin].
  - assert (0 <= fold_right Z.add 0 l)%Z by (apply (zsum_nonneg l); intros; apply H; right; assumption). lia.
  - pose proof (H y (or_introl eq_refl)). assert (x <= fold_right Z.add 0 l)%Z by (apply IH; [intros; apply H; right; assumption | exact Hin]). lia.
Qed.
Lemma zsum_all_zero (l : list Z) : (forall x, In x l -> x = 0%Z) -> zsum l = 0%Z.
Proof.
  induction l as [|x l IH]; intros H; [reflexivity|]. unfold zsum in *. cbn [fold_right].
  rewrite (H x (or_introl eq_refl)), IH by (intros; apply H; right; assumption). reflexivity.
Qed.

(** ** the polygon's loops in plane coordinates *)
Definition poly_outer2 (o e1 e2 : V) (P : Poly R) : list PP := map (plane2 o e1 e2) (verts (pouter P)).
(** every hole oriented like the outer outline ([oriented] of Proofs/C12_region.v: the stored list when the stored normals
    have the same direction, its reverse otherwise) *)
Definition poly_holes2 (o e1 e2 : V) (P : Poly R) : list (list PP) :=
  map (fun h => map (plane2 o e1 e2) (oriented (lnormal (pouter P)) h)) (pinner P).
Definition holes_wn (d q : PP) (hs : list (list PP)) : Z := zsum (map (fun l => Winding.wn d l q) hs).
Definition holes_area2 (hs : list (list PP)) : R := rsum (map Shoelace.area2 hs).
(** the ray is generic for the polygon: its line through q meets no vertex of the outer outline or of a hole *)
Definition poly_generic (o e1 e2 : V) (P : Poly R) (d q : PP) : Prop :=
  forall v, In v (poly_verts P) -> Winding.hgt d q (plane2 o e1 e2 v) <> 0.
(** [close] keeps the vertex list of the merged loop (it drops a vertex only when the closing corner is collinear) *)
Definition close_keeps (P : Poly R) : Prop :=
  forall Lm : Loop R, poly_get_closed_loop P = Ok Lm -> verts (fst (loop_close Lm)) = verts Lm.

Section Polygon.
  Variables (o e1 e2 : V).
  Notation pr := (plane2 o e1 e2).
  Variables (P : Poly R) (M : Mesh R).
  Hypothesis Hclean : closed_loop_clean false P = true.
  Hypothesis Hwf : closed_loop_wf P = true.
  Hypothesis Hrun : stable_run P M.
  Hypothesis Hkeep : close_keeps P.
  Hypothesis Hn : frame_normal e1 e2 P.
  Notation Ts := (proj_tris o e1 e2 M).
  Notation O2 := (poly_outer2 o e1 e2 P).
  Notation H2 := (poly_holes2 o e1 e2 P).

  (** the closed merged outline: its projection is that of the merged loop, its vertices are vertices of the polygon *)
  Lemma merged_outline :
    exists L Lm : Loop R, outline_of P L /\ poly_get_closed_loop P = Ok Lm /\ proj_outline o e1 e2 L = map pr (verts Lm) /\
      forall v, In v (verts Lm) -> In v (poly_verts P).
  Proof.
    destruct (stable_run_outline P M Hrun) as (L & Lm & E1 & E2 & EL). exists L, Lm. split; [exists Lm; repeat split; assumption|].
    split; [exact E1|]. split.
    - unfold proj_outline. subst L. rewrite (Hkeep Lm E1). reflexivity.
    - destruct (merged_no_new_vertex P Hclean) as (L' & E' & H'). rewrite E1 in E'. injection E' as <-. exact H'.
  Qed.
  Lemma merged_wn (d q : PP) :
    exists L : Loop R, outline_of P L /\ Winding.wn d (proj_outline o e1 e2 L) q = (Winding.wn d O2 q - holes_wn d q H2)%Z /\
      (poly_generic o e1 e2 P d q -> Winding.generic d q (proj_outline o e1 e2 L)).
  Proof.
    destruct merged_outline as (L & Lm & Ho & E1 & EP & Hv). exists L. split; [exact Ho|]. rewrite EP. split.
    - destruct (wn_merged pr P d q Hclean Hwf) as (L' & E' & H'). rewrite E1 in E'. injection E' as <-. etransitivity; [exact H'|].
      unfold holes_wn, poly_holes2, poly_outer2. rewrite map_map. reflexivity.
    - intros Hg x Hx. apply in_map_iff in Hx. destruct Hx as (v & <- & Hin). apply Hg. apply Hv. exact Hin.
  Qed.

  (** *** 1. the count *)
  Theorem polygon_count (d q : PP) : poly_generic o e1 e2 P d q ->
    (forall a b c, In (a, b, c) Ts -> Winding.off_segs a b c q) ->
    Z.of_nat (Winding.count_inside Ts q) = (Winding.wn d O2 q - holes_wn d q H2)%Z.
  Proof.
    intros Hg Hoff. destruct (merged_wn d q) as (L & Ho & Ew & HG). rewrite <- Ew. symmetry.
    exact (ears_tiling_count_proved o e1 e2 P M L Hrun Ho Hn d q (HG Hg) Hoff).
  Qed.

  (** *** 2. the exact tiling, Jordan hypotheses on the input loops at q *)
  Theorem polygon_tile_exactly (d q : PP) : poly_generic o e1 e2 P d q ->
    (forall a b c, In (a, b, c) Ts -> Winding.off_segs a b c q) ->
    (0 <= Winding.wn d O2 q <= 1)%Z -> (forall l, In l H2 -> (0 <= Winding.wn d l q)%Z) -> (holes_wn d q H2 <= Winding.wn d O2 q)%Z ->
    (* a point of the region: in exactly one triangle *)
    (Winding.wn d O2 q = 1%Z -> (forall l, In l H2 -> Winding.wn d l q = 0%Z) ->
       Winding.count_inside Ts q = 1%nat /\ exists a b c, In (a, b, c) Ts /\ Winding.inside_tri a b c q) /\
    (* a point outside the outer outline, or in a hole: in no triangle *)
    (Winding.wn d O2 q = 0%Z \/ (exists l, In l H2 /\ (0 < Winding.wn d l q)%Z) ->
       Winding.count_inside Ts q = 0%nat /\ forall a b c, In (a, b, c) Ts -> ~ Winding.inside_tri a b c q) /\
    (* no two triangles overlap *)
    (forall (l1 l2 l3 : list T2) (a b c a' b' c' : PP), Ts = l1 ++ (a, b, c) :: l2 ++ (a', b', c') :: l3 ->
       Winding.inside_tri a b c q -> Winding.inside_tri a' b' c' q -> False) /\
    (* in general *)
    Winding.count_inside Ts q = Z.to_nat (Winding.wn d O2 q - holes_wn d q H2).
  Proof.
    intros Hg Hoff Ho Hh Hle. pose proof (polygon_count d q Hg Hoff) as Ec.
    assert (Hh0 : (0 <= holes_wn d q H2)%Z).
    { unfold holes_wn. apply zsum_nonneg. intros x Hx. apply in_map_iff in Hx. destruct Hx as (l & <- & Hl). apply Hh. exact Hl. }
    split; [|split; [|split]].
    - intros H1 Hz. assert (E0 : holes_wn d q H2 = 0%Z).
      { unfold holes_wn. apply zsum_all_zero. intros x Hx. apply in_map_iff in Hx. destruct Hx as (l & <- & Hl). apply Hz. exact Hl. }
      assert (C1 : Winding.count_inside Ts q = 1%nat) by lia. split; [exact C1|]. apply count_pos_cover. lia.
    - intros Hout. assert (C0 : Winding.count_inside Ts q = 0%nat).
      { destruct Hout as [H0|(l & Hl & Hpos)]; [lia|].
        assert (Winding.wn d l q <= holes_wn d q H2)%Z.
        { unfold holes_wn. apply zsum_member_le; [|apply (in_map (fun l0 : list PP => Winding.wn d l0 q)); exact Hl].
          intros y Hy. apply in_map_iff in Hy. destruct Hy as (l' & <- & Hl'). apply Hh. exact Hl'. }
        lia. }
      split; [exact C0 | apply count_zero_none; exact C0].
    - intros l1 l2 l3 a b c a' b' c' E. apply (count_le1_no_overlap q l1 l2 l3). rewrite <- E. lia.
    - lia.
  Qed.

  (** *** 3. the areas *)
  Theorem polygon_area_sum :
    Cyclic.tsum 0 Rplus (fun a b c => Rabs (Shoelace.area2 [a; b; c])) Ts = Shoelace.area2 O2 - holes_area2 H2.
  Proof.
    destruct merged_outline as (L & Lm & Ho & E1 & EP & _).
    rewrite <- (ears_area_sum_proved o e1 e2 P M L Hrun Ho Hn). rewrite EP.
    destruct (area2_merged pr P Hclean Hwf) as (L' & E' & H'). rewrite E1 in E'. injection E' as <-. etransitivity; [exact H'|].
    unfold holes_area2, poly_holes2, poly_outer2. rewrite map_map. reflexivity.
  Qed.
  (** for loops in one plane with the unit normal n = e1 x e2 = the outer loop's stored normal, stored areas = n_loop . S_loop / 2
      (true of every loop closed by Loop3D::close) and the polygon's own accounting (true of every polygon built by new/cut_hole):
      the triangle areas sum to the polygon's area *)
  Theorem polygon_area_parea :
    lnormal (pouter P) = vcross e1 e2 -> vdot (vcross e1 e2) (vcross e1 e2) = 1 -> planar_normals P -> signed_areas P ->
    parea P = larea (pouter P) - rsum (map larea (pinner P)) ->
    Cyclic.tsum 0 Rplus (fun a b c => Rabs (Shoelace.area2 [a; b; c])) Ts = parea P.
  Proof.
    intros En Hu Hpl Hsa Hacc. destruct merged_outline as (L & Lm & Ho & E1 & EP & _).
    rewrite <- (ears_area_sum_proved o e1 e2 P M L Hrun Ho Hn). rewrite EP.
    assert (Hu' : vdot (lnormal (pouter P)) (lnormal (pouter P)) = 1) by (rewrite En; exact Hu).
    destruct (net_area_merged P Hclean Hwf Hu' Hpl Hsa) as (L' & E' & H'). rewrite E1 in E'. injection E' as <-.
    rewrite Hacc, <- H', En. pose proof (area2_plane2_newell o e1 e2 (verts Lm)) as HA. lra.
  Qed.
End Polygon.

(* ------------------------------------------------------------------------------------------------------------ *)
(** * Non-vacuity: the unit square with the triangular hole (0.3,0.3) (0.45,0.6) (0.6,0.3) ([w1_poly])            *)
(** Binary64 instance (vm_compute): both side conditions of C12 hold, [close] keeps the 9 vertices of the merged loop, the
    run is sanitize-stable with 7 triangles, the polygon's normal is the outer loop's normal (0,0,1) = e1 x e2 for the
    frame e1 = (1,0,0), e2 = (0,1,0); the hole is stored clockwise, so "oriented like the outer" is its reverse.
    Over the reals, in units of 1/20 as in Proofs/C01_tiling.v: the outer square and the oriented hole meet the Jordan
    hypotheses at both sample points; a point of the region has wn outer - wn hole = 1 - 0 and is in exactly one
    triangle, a point in the hole has 1 - 1 = 0 and is in none; areas 400 - 18 = 382 = the sum of the triangle areas. *)
Definition ex2_outer : list (Z * Z) := [(0,0);(20,0);(20,20);(0,20)]%Z.
Definition ex2_hole : list (Z * Z) := [(12,6);(9,12);(6,6)]%Z.
Lemma ex2_polygon_float :
  closed_loop_clean false w1_poly = true /\ closed_loop_wf w1_poly = true /\ closed_loop_hits w1_poly = true /\
  pnormal w1_poly = lnormal (pouter w1_poly) /\ map fzp20 [pnormal w1_poly] = [(0, 0)%Z] /\ fz20 (vz (pnormal w1_poly)) = 20%Z /\
  map fzp20 (verts (pouter w1_poly)) = ex2_outer /\
  map (fun h => map fzp20 (oriented (lnormal (pouter w1_poly)) h)) (pinner w1_poly) = [ex2_hole] /\
  (exists Lm : Loop float, poly_get_closed_loop w1_poly = Ok Lm /\ snd (loop_close Lm) = Ok tt /\
     verts (fst (loop_close Lm)) = verts Lm /\ llen Lm = 9%nat) /\
  (exists M : Mesh float, stable_run w1_poly M /\ length (tris M) = 7%nat).
Proof.
  split; [vm_compute; reflexivity|]. split; [vm_compute; reflexivity|]. split; [vm_compute; reflexivity|].
  split; [vm_compute; reflexivity|]. split; [vm_compute; reflexivity|]. split; [vm_compute; reflexivity|].
  split; [vm_compute; reflexivity|]. split; [vm_compute; reflexivity|]. split.
  - eexists. split; [vm_compute; reflexivity|]. repeat split; vm_compute; reflexivity.
  - destruct ex2_run as (M & tr & Lm & H1 & Hs & _ & _ & _ & _ & _ & _ & H7 & _). exists M. split; [exists tr; split; assumption | exact H7].
Qed.
Ltac wn_eval :=
  unfold Winding.wn, Cyclic.csum, Cyclic.esum, Cyclic.edges_closed, Cyclic.edges_to, Winding.crd, Winding.crdR, Winding.hgt, Winding.orient;
  cbn [fold_right fst snd hd];
  repeat match goal with
         | |- context [Winding.rlt ?x ?y] => first [rewrite (Winding.rlt_true x y) by lra | rewrite (Winding.rlt_false x y) by lra]
         end;
  reflexivity.
Lemma ex2_polygon_real :
  let O2 := map zr ex2_outer in let H2 := [map zr ex2_hole] in let Ts := map (map3 zr) ex2_ears in
  (* Jordan data of the input loops at the two sample points *)
  Winding.wn ex_d O2 ex2_q = 1%Z /\ holes_wn ex_d ex2_q H2 = 0%Z /\
  Winding.wn ex_d O2 ex2_qhole = 1%Z /\ holes_wn ex_d ex2_qhole H2 = 1%Z /\
  (* the conclusions of the polygon theorems hold of the triangles *)
  Z.of_nat (Winding.count_inside Ts ex2_q) = (Winding.wn ex_d O2 ex2_q - holes_wn ex_d ex2_q H2)%Z /\
  Z.of_nat (Winding.count_inside Ts ex2_qhole) = (Winding.wn ex_d O2 ex2_qhole - holes_wn ex_d ex2_qhole H2)%Z /\
  Shoelace.area2 O2 = 400 /\ holes_area2 H2 = 18 /\
  Cyclic.tsum 0 Rplus (fun a b c => Rabs (Shoelace.area2 [a; b; c])) Ts = Shoelace.area2 O2 - holes_area2 H2.
Proof.
  cbn zeta.
  assert (W1 : Winding.wn ex_d (map zr ex2_outer) ex2_q = 1%Z) by (unfold ex2_outer, zr, ex_d, ex2_q; cbn [map fst snd]; wn_eval).
  assert (W2 : holes_wn ex_d ex2_q [map zr ex2_hole] = 0%Z) by (unfold holes_wn, zsum, ex2_hole, zr, ex_d, ex2_q; cbn [map fst snd fold_right]; wn_eval).
  assert (W3 : Winding.wn ex_d (map zr ex2_outer) ex2_qhole = 1%Z) by (unfold ex2_outer, zr, ex_d, ex2_qhole; cbn [map fst snd]; wn_eval).
  assert (W4 : holes_wn ex_d ex2_qhole [map zr ex2_hole] = 1%Z) by (unfold holes_wn, zsum, ex2_hole, zr, ex_d, ex2_qhole; cbn [map fst snd fold_right]; wn_eval).
  destruct ex2_hypotheses as (D & Hpos & _ & _ & _ & C1 & _ & _ & _ & Hnone & HA). cbn zeta in *.
  assert (C0 : Winding.count_inside (map (map3 zr) ex2_ears) ex2_qhole = 0%nat).
  { destruct (Nat.eq_dec (Winding.count_inside (map (map3 zr) ex2_ears) ex2_qhole) 0) as [E|E]; [exact E|].
    destruct (count_pos_cover (map (map3 zr) ex2_ears) ex2_qhole) as (a & b & c & Hin & Hins); [lia|]. exfalso. exact (Hnone a b c Hin Hins). }
  assert (A1 : Shoelace.area2 (map zr ex2_outer) = 400).
  { unfold Shoelace.area2, Cyclic.csum, Cyclic.esum, Cyclic.edges_closed, Shoelace.cross2, ex2_outer, zr. cbn [map Cyclic.edges_to fold_right fst snd hd]. lra. }
  assert (A2 : holes_area2 [map zr ex2_hole] = 18).
  { unfold holes_area2, rsum, Shoelace.area2, Cyclic.csum, Cyclic.esum, Cyclic.edges_closed, Shoelace.cross2, ex2_hole, zr. cbn [map Cyclic.edges_to fold_right fst snd hd]. lra. }
  rewrite W1, W2, W3, W4, C1, C0, A1, A2. repeat split; try reflexivity.
  rewrite <- (ed2_area2_abs _ _ D) by (intros a b c Hin; apply Rlt_le, Hpos, Hin). rewrite HA. lra.
Qed.
