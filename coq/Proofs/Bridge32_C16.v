(** * Bridge32_C16: (S) and (M) of C16 at binary32, transferred to the EXECUTED f32 instance.
    The four [*_with_error] / [*_propagate_error] functions of Model/Transform.v on [NumF32] (= [NumF32fast]) return the
    embedding of what they return on the Flocq instance [NumB32] ([Bridge32_model.f32_pt_with_error] ...); (S) and (M)
    of Proofs/C16_errbound.v at (24,128) (u = 2^-24, gamma from binary32's EPSILON) are read back through [to_b32]:
    [tV tM] = [to_b32] over vectors / matrices, [is32V v] / [is32M m]: every entry is a binary32-valued float. *)
From Coq Require Import ZArith Reals Bool Floats Lia Lra.
From Flocq Require Import Core BinarySingleNaN.
From G3 Require Import Model.Num Model.NumF Model.NumF32 Model.Base Model.Vec Model.BBox Model.Transform Run.FastNum32 Run.FastNum32Proof.
From G3 Require Import Theory.PrimBridge Theory.F32Bridge Proofs.Bridge_model Proofs.Bridge32_model.
From G3 Require Import Proofs.C06_transform Proofs.C16_errbound Proofs.C16_ray.
Local Open Scope R_scope.

Definition is32M (m : M4 prim) : Prop := oM (tM m) = m.
Lemma is32M_oM (m : M4 b32) : is32M (oM m).
Proof. unfold is32M. rewrite tM_oM. reflexivity. Qed.
Lemma is32M_entries (m : M4 prim) :
  is32 (m00 m) -> is32 (m01 m) -> is32 (m02 m) -> is32 (m03 m) -> is32 (m10 m) -> is32 (m11 m) -> is32 (m12 m) -> is32 (m13 m) ->
  is32 (m20 m) -> is32 (m21 m) -> is32 (m22 m) -> is32 (m23 m) -> is32 (m30 m) -> is32 (m31 m) -> is32 (m32 m) -> is32 (m33 m) ->
  is32M m.
Proof.
  destruct m as [a00 a01 a02 a03 a10 a11 a12 a13 a20 a21 a22 a23 a30 a31 a32 a33].
  cbn [m00 m01 m02 m03 m10 m11 m12 m13 m20 m21 m22 m23 m30 m31 m32 m33]. intros.
  unfold is32M, mapM4. cbn [m00 m01 m02 m03 m10 m11 m12 m13 m20 m21 m22 m23 m30 m31 m32 m33].
  repeat match goal with H : is32 ?x |- _ => rewrite (is32_back x H); clear H end. reflexivity.
Qed.
Lemma Hp8_24 : (8 <= 24)%Z. Proof. lia. Qed.

Notation B2V32 := (B2V 24 128).
Notation B2M32 := (B2M 24 128).
Notation fin32 := (fin3 24 128).

(** ** the executed run, read back as binary32, is the Flocq binary32 run *)
Theorem f32_pt_with_error_is32 (m : M4 prim) (p : V3 prim) : is32M m -> is32V p ->
  mapP tV tV (@pt_with_error _ NumF32 m p) = @pt_with_error _ NumB32 (tM m) (tV p).
Proof. intros Hm Hp. rewrite <- f32_pt_with_error. rewrite Hm, (oV_tV p Hp). reflexivity. Qed.
Theorem f32_vec_with_error_is32 (m : M4 prim) (v : V3 prim) : is32M m -> is32V v ->
  mapP tV tV (@vec_with_error _ NumF32 m v) = @vec_with_error _ NumB32 (tM m) (tV v).
Proof. intros Hm Hv. rewrite <- f32_vec_with_error. rewrite Hm, (oV_tV v Hv). reflexivity. Qed.
Theorem f32_pt_propagate_error_is32 (m : M4 prim) (p e : V3 prim) : is32M m -> is32V p -> is32V e ->
  mapP tV tV (@pt_propagate_error _ NumF32 m p e) = @pt_propagate_error _ NumB32 (tM m) (tV p) (tV e).
Proof. intros Hm Hp He. rewrite <- f32_pt_propagate_error. rewrite Hm, (oV_tV p Hp), (oV_tV e He). reflexivity. Qed.
Theorem f32_vec_propagate_error_is32 (m : M4 prim) (v e : V3 prim) : is32M m -> is32V v -> is32V e ->
  mapP tV tV (@vec_propagate_error _ NumF32 m v e) = @vec_propagate_error _ NumB32 (tM m) (tV v) (tV e).
Proof. intros Hm Hv He. rewrite <- f32_vec_propagate_error. rewrite Hm, (oV_tV v Hv), (oV_tV e He). reflexivity. Qed.

Ltac transfer32 T E :=
  let X := fresh "X" in
  pose proof T as X; cbv zeta in X; change (NB16 24 128 Hprec24 Hmax128) with NumB32 in X;
  change (binary_float 24 128) with Num.b32 in X; rewrite <- E in X; unfold mapP in X; cbn [fst snd] in X; exact X.

(** ** (S) on the executed f32 instance *)
Theorem f32_S_vec (m : M4 prim) (v : V3 prim) : is32M m -> is32V v ->
  let re := @vec_with_error _ NumF32 m v in
  fin32 (tV (snd re)) -> safe_prods 24 128 (B2M32 (tM m)) (B2V32 (tV v)) ->
  fin32 (tV (fst re)) /\ within 1 (B2V32 (tV (fst re))) (img_vec (B2M32 (tM m)) (B2V32 (tV v))) (B2V32 (tV (snd re))).
Proof. intros Hm Hv. cbv zeta. transfer32 (S_vec 24 128 Hprec24 Hmax128 Hp8_24 (tM m) (tV v)) (f32_vec_with_error_is32 m v Hm Hv). Qed.

Theorem f32_S_point (m : M4 prim) (p : V3 prim) : is32M m -> is32V p ->
  let re := @pt_with_error _ NumF32 m p in
  affine_last 24 128 (tM m) -> fin32 (tV (snd re)) -> safe_prods 24 128 (B2M32 (tM m)) (B2V32 (tV p)) ->
  fin32 (tV (fst re)) /\ within 1 (B2V32 (tV (fst re))) (img_pt (B2M32 (tM m)) (B2V32 (tV p))) (B2V32 (tV (snd re))).
Proof. intros Hm Hp. cbv zeta. transfer32 (S_pt 24 128 Hprec24 Hmax128 Hp8_24 (tM m) (tV p)) (f32_pt_with_error_is32 m p Hm Hp). Qed.

Theorem f32_S_vec_box (m : M4 prim) (v e : V3 prim) : is32M m -> is32V v -> is32V e ->
  let re := @vec_propagate_error _ NumF32 m v e in
  fin32 (tV (snd re)) -> safe_prods 24 128 (B2M32 (tM m)) (B2V32 (tV v)) -> safe_prods 24 128 (B2M32 (tM m)) (B2V32 (tV e)) ->
  fin32 (tV (fst re)) /\
  forall x' : V3 R, inbox (B2V32 (tV v)) (B2V32 (tV e)) x' ->
    within (1 + 4 * uro 24) (B2V32 (tV (fst re))) (img_vec (B2M32 (tM m)) x') (B2V32 (tV (snd re))).
Proof.
  intros Hm Hv He. cbv zeta.
  transfer32 (S_vec_box 24 128 Hprec24 Hmax128 Hp8_24 (tM m) (tV v) (tV e)) (f32_vec_propagate_error_is32 m v e Hm Hv He).
Qed.

Theorem f32_S_point_box (m : M4 prim) (p e : V3 prim) : is32M m -> is32V p -> is32V e ->
  let re := @pt_propagate_error _ NumF32 m p e in
  affine_last 24 128 (tM m) -> fin32 (tV (snd re)) ->
  safe_prods 24 128 (B2M32 (tM m)) (B2V32 (tV p)) -> safe_prods 24 128 (B2M32 (tM m)) (B2V32 (tV e)) ->
  fin32 (tV (fst re)) /\
  forall x' : V3 R, inbox (B2V32 (tV p)) (B2V32 (tV e)) x' ->
    within (1 + 4 * uro 24) (B2V32 (tV (fst re))) (img_pt (B2M32 (tM m)) x') (B2V32 (tV (snd re))).
Proof.
  intros Hm Hp He. cbv zeta.
  transfer32 (S_pt_box 24 128 Hprec24 Hmax128 Hp8_24 (tM m) (tV p) (tV e)) (f32_pt_propagate_error_is32 m p e Hm Hp He).
Qed.

(** ** (M) on the executed f32 instance *)
Theorem f32_M_with_error (m : M4 prim) (p : V3 prim) : is32M m -> is32V p ->
  safe_prods 24 128 (B2M32 (tM m)) (B2V32 (tV p)) -> safe_trans 24 128 (B2M32 (tM m)) ->
  fin32 (tV (snd (@pt_with_error _ NumF32 m p))) ->
  vle (B2V32 (tV (snd (@pt_with_error _ NumF32 m p)))) (vscaleR 2 (first_order (gamma3 24) (B2M32 (tM m)) (B2V32 (tV p)) V0)).
Proof. intros Hm Hp. transfer32 (M_with_error 24 128 Hprec24 Hmax128 Hp8_24 (tM m) (tV p)) (f32_pt_with_error_is32 m p Hm Hp). Qed.

Theorem f32_M_vec_with_error (m : M4 prim) (v : V3 prim) : is32M m -> is32V v ->
  safe_prods 24 128 (B2M32 (tM m)) (B2V32 (tV v)) -> fin32 (tV (snd (@vec_with_error _ NumF32 m v))) ->
  vle (B2V32 (tV (snd (@vec_with_error _ NumF32 m v)))) (vscaleR 2 (vscaleR (gamma3 24) (abs_img (B2M32 (tM m)) (B2V32 (tV v))))).
Proof. intros Hm Hv. transfer32 (M_vec_with_error 24 128 Hprec24 Hmax128 Hp8_24 (tM m) (tV v)) (f32_vec_with_error_is32 m v Hm Hv). Qed.

Theorem f32_M_propagate (m : M4 prim) (p e : V3 prim) : is32M m -> is32V p -> is32V e ->
  safe_prods 24 128 (B2M32 (tM m)) (B2V32 (tV p)) -> safe_prods 24 128 (B2M32 (tM m)) (B2V32 (tV e)) -> safe_trans 24 128 (B2M32 (tM m)) ->
  fin32 (tV (snd (@pt_propagate_error _ NumF32 m p e))) ->
  vle (B2V32 (tV (snd (@pt_propagate_error _ NumF32 m p e))))
      (vscaleR 2 (first_order (gamma3 24) (B2M32 (tM m)) (B2V32 (tV p)) (B2V32 (tV e)))).
Proof.
  intros Hm Hp He.
  transfer32 (M_propagate 24 128 Hprec24 Hmax128 Hp8_24 (tM m) (tV p) (tV e)) (f32_pt_propagate_error_is32 m p e Hm Hp He).
Qed.

Theorem f32_M_vec_propagate (m : M4 prim) (v e : V3 prim) : is32M m -> is32V v -> is32V e ->
  safe_prods 24 128 (B2M32 (tM m)) (B2V32 (tV v)) -> safe_prods 24 128 (B2M32 (tM m)) (B2V32 (tV e)) ->
  fin32 (tV (snd (@vec_propagate_error _ NumF32 m v e))) ->
  vle (B2V32 (tV (snd (@vec_propagate_error _ NumF32 m v e))))
      (vscaleR 2 (first_order_vec (gamma3 24) (B2M32 (tM m)) (B2V32 (tV v)) (B2V32 (tV e)))).
Proof.
  intros Hm Hv He.
  transfer32 (M_vec_propagate 24 128 Hprec24 Hmax128 Hp8_24 (tM m) (tV v) (tV e)) (f32_vec_propagate_error_is32 m v e Hm Hv He).
Qed.

(** ** non-vacuity on the f32 instance: scale (2,3,1) then translate (1,-2,4); point (1,2,3); input error box 1/2 *)
Local Open Scope float_scope.
Definition w32_m : M4 prim := mkM4 2 0 0 1  0 3 0 (-2)  0 0 1 4  0 0 0 1.
Definition w32_p : V3 prim := mkV3 1 2 3.
Definition w32_e : V3 prim := mkV3 0.5 0.5 0.5.
Local Close Scope float_scope.

Lemma is32_by_bits (c : prim) : Prim2SF (r32 c) = Prim2SF c -> is32 c.
Proof. intros E. unfold is32. apply FP.Prim2B_inj. apply B2SF_inj. rewrite !FP.B2SF_Prim2B. exact E. Qed.

Lemma f32_C16_nonvacuous :
  is32M w32_m /\ is32V w32_p /\ is32V w32_e /\
  fin32 (tV (snd (@pt_with_error _ NumF32 w32_m w32_p))) /\ fin32 (tV (snd (@vec_with_error _ NumF32 w32_m w32_p))) /\
  fin32 (tV (snd (@pt_propagate_error _ NumF32 w32_m w32_p w32_e))) /\
  fin32 (tV (snd (@vec_propagate_error _ NumF32 w32_m w32_p w32_e))) /\
  @pt_with_error _ NumF32fast w32_m w32_p = @pt_with_error _ NumF32 w32_m w32_p.
Proof.
  split; [apply is32M_entries; apply is32_by_bits; vm_compute; reflexivity|].
  split; [repeat split; apply is32_by_bits; vm_compute; reflexivity|].
  split; [repeat split; apply is32_by_bits; vm_compute; reflexivity|].
  split; [unfold fin3; repeat split; vm_compute; reflexivity|].
  split; [unfold fin3; repeat split; vm_compute; reflexivity|].
  split; [unfold fin3; repeat split; vm_compute; reflexivity|].
  split; [unfold fin3; repeat split; vm_compute; reflexivity|].
  rewrite NumF32fast_eq. reflexivity.
Qed.
