(** * C19 proofs, part 2: Segment3D on the real instance.
    The live code (after fix ec384e6: coplanarity = distance between the supporting lines <= 1e-5) is Model/Segment.v;
    the code before the fix is Model/PinnedSegment.v ([_pinned]), about which the F5 refutations and the
    characterisation of the old behaviour are kept.  [seg_solve] (projection + Cramer) is shared by both. *)
From Coq Require Import ZArith Reals Lra Bool List Psatz.
From G3 Require Import Model.Num Model.Base Model.Vec Model.Segment Model.PinnedSegment Theory.RInst Proofs.C19_vec.
Local Open Scope R_scope.

Notation S := (Seg R).
Definition e6 : R := 1 / 1000000.
Definition e8 : R := 1 / 100000000.
Lemma c1em8_R : @c1em8 R _ = e8. Proof. reflexivity. Qed.
Lemma c1em6_R : @c1em6 R _ = e6. Proof. reflexivity. Qed.

(** the point of a segment at parameter t *)
Definition seg_at (s : S) (t : R) : V := vadd (sstart s) (vscale (seg_as_vec s) t).
(** [delta . (a x b)]: zero exactly when the four end points are coplanar; divided by |a x b| it is the
    distance between the two supporting lines *)
Definition seg_delta (s r : S) : V := vsub (sstart s) (sstart r).
Definition seg_normal (s r : S) : V := vcross (seg_as_vec s) (seg_as_vec r).
Definition triple (s r : S) : R := vdot (seg_delta s r) (seg_normal s r).
Definition coplanar (s r : S) : Prop := triple s r = 0.

(** which coordinates the reported parameters make coincide, and the residual in the third one *)
Definition solved (s r : S) (ta tb : R) : Prop :=
  let n := seg_normal s r in let P := seg_at s ta in let Q := seg_at r tb in
  (e5 < Rabs (vz n) /\ vx P = vx Q /\ vy P = vy Q /\ (vz P - vz Q) * vz n = triple s r) \/
  (Rabs (vz n) <= e5 /\ e5 < Rabs (vx n) /\ vy P = vy Q /\ vz P = vz Q /\ (vx P - vx Q) * vx n = triple s r) \/
  (Rabs (vz n) <= e5 /\ Rabs (vx n) <= e5 /\ e5 < Rabs (vy n) /\ vx P = vx Q /\ vz P = vz Q /\ (vy P - vy Q) * vy n = triple s r).

Lemma Rabs_gt_neq (x t : R) : 0 <= t -> t < Rabs x -> x <> 0.
Proof. intros Ht H E. subst. rewrite Rabs_R0 in H. lra. Qed.

(** Cramer: whatever [seg_solve] returns solves the projected 2x2 system *)
Lemma seg_solve_solved (s r : S) (ta tb : R) :
  fst (seg_solve (seg_as_vec s) (seg_as_vec r) (seg_delta s r) (seg_normal s r)) = Some (ta, tb) -> solved s r ta tb.
Proof.
  unfold seg_solve, solved. rewrite c1em5_R. pose proof e5_pos as He. rnum.
  destruct s as [[sx sy sz] [ex ey ez] sl], r as [[rx ry rz] [fx fy fz] rl].
  unfold triple, seg_normal, seg_delta, seg_at, seg_as_vec. cbn [sstart send]. vunf.
  rcase e5 (Rabs ((ex - sx) * (fy - ry) - (ey - sy) * (fx - rx))) H1.
  - cbn [fst]. intros E. inversion E; subst; clear E. left.
    pose proof (Rabs_gt_neq _ _ (Rlt_le _ _ He) H1) as Hn.
    assert (Hd : (ey - sy) * (fx - rx) - (ex - sx) * (fy - ry) <> 0) by lra.
    split; [exact H1|]. repeat split; field; exact Hd.
  - rcase e5 (Rabs ((ey - sy) * (fz - rz) - (ez - sz) * (fy - ry))) H2.
    + cbn [fst]. intros E. inversion E; subst; clear E. right; left.
      pose proof (Rabs_gt_neq _ _ (Rlt_le _ _ He) H2) as Hn.
      split; [exact H1|]. split; [exact H2|]. repeat split; field; exact Hn.
    + rcase e5 (Rabs ((ez - sz) * (fx - rx) - (ex - sx) * (fz - rz))) H3; [|discriminate].
      cbn [fst]. intros E. inversion E; subst; clear E. right; right.
      pose proof (Rabs_gt_neq _ _ (Rlt_le _ _ He) H3) as Hn.
      assert (Hd : (ex - sx) * (fz - rz) - (ez - sz) * (fx - rx) <> 0) by lra.
      split; [exact H1|]. split; [exact H2|]. split; [exact H3|]. repeat split; field; exact Hd.
Qed.
Lemma seg_solve_some_iff (s r : S) :
  (exists t, fst (seg_solve (seg_as_vec s) (seg_as_vec r) (seg_delta s r) (seg_normal s r)) = Some t) <->
  (e5 < Rabs (vz (seg_normal s r)) \/ e5 < Rabs (vx (seg_normal s r)) \/ e5 < Rabs (vy (seg_normal s r))).
Proof.
  unfold seg_solve. rewrite c1em5_R. rnum.
  rcase e5 (Rabs (vz (seg_normal s r))) H1; [cbn [fst]; split; [auto | eauto]|].
  rcase e5 (Rabs (vx (seg_normal s r))) H2; [cbn [fst]; split; [auto | eauto]|].
  rcase e5 (Rabs (vy (seg_normal s r))) H3; [cbn [fst]; split; [auto | eauto]|].
  cbn [fst]. split; [intros (t & E); discriminate | intros [?|[?|?]]; lra].
Qed.

(** the pinned code, unfolded onto [seg_solve] *)
Lemma gipP_unfold (s r : S) :
  seg_get_intersection_pt_pinned s r =
  if vis_same_direction (seg_as_vec s) (seg_as_vec r) then None else
  if vis_zero (vcross (seg_delta s r) (seg_normal s r)) then None else
  fst (seg_solve (seg_as_vec s) (seg_as_vec r) (seg_delta s r) (seg_normal s r)).
Proof.
  unfold seg_get_intersection_pt_pinned, seg_get_intersection_pt_tag_pinned, seg_as_vec, seg_delta, seg_normal, seg_as_vec.
  destruct (vis_same_direction _ _); [reflexivity|]. destruct (vis_zero _); reflexivity.
Qed.

(** ** what [get_intersection_pt] guarantees: the projected system is solved ... *)
Lemma gipP_solved (s r : S) (ta tb : R) : seg_get_intersection_pt_pinned s r = Some (ta, tb) -> solved s r ta tb.
Proof.
  rewrite gipP_unfold. destruct (vis_same_direction _ _); [discriminate|]. destruct (vis_zero _); [discriminate|].
  apply seg_solve_solved.
Qed.
(** ... and the two reported points are one 3-D point exactly when the four end points are coplanar *)
Lemma solved_coincide_iff (s r : S) (ta tb : R) : solved s r ta tb -> (seg_at s ta = seg_at r tb <-> coplanar s r).
Proof.
  unfold solved, coplanar. pose proof e5_pos as He. cbv zeta. intros [H|[H|H]].
  - destruct H as (Hn & Ex & Ey & Ez). pose proof (Rabs_gt_neq _ _ (Rlt_le _ _ He) Hn) as Hz. split.
    + intros E. rewrite E in Ez. rewrite <- Ez. ring.
    + intros E. rewrite E in Ez. apply v3_eq; try assumption. apply Rmult_integral in Ez. destruct Ez; lra.
  - destruct H as (_ & Hn & Ey & Ez & Ex). pose proof (Rabs_gt_neq _ _ (Rlt_le _ _ He) Hn) as Hz. split.
    + intros E. rewrite E in Ex. rewrite <- Ex. ring.
    + intros E. rewrite E in Ex. apply v3_eq; try assumption. apply Rmult_integral in Ex. destruct Ex; lra.
  - destruct H as (_ & _ & Hn & Ex & Ez & Ey). pose proof (Rabs_gt_neq _ _ (Rlt_le _ _ He) Hn) as Hz. split.
    + intros E. rewrite E in Ey. rewrite <- Ey. ring.
    + intros E. rewrite E in Ey. apply v3_eq; try assumption. apply Rmult_integral in Ey. destruct Ey; lra.
Qed.
Lemma gipP_coplanar_3d (s r : S) (ta tb : R) :
  seg_get_intersection_pt_pinned s r = Some (ta, tb) -> coplanar s r -> seg_at s ta = seg_at r tb.
Proof. intros H C. apply (solved_coincide_iff s r ta tb (gipP_solved s r ta tb H)), C. Qed.
Lemma gipP_skew_points_differ (s r : S) (ta tb : R) :
  seg_get_intersection_pt_pinned s r = Some (ta, tb) -> ~ coplanar s r -> seg_at s ta <> seg_at r tb.
Proof. intros H C E. apply C, (solved_coincide_iff s r ta tb (gipP_solved s r ta tb H)), E. Qed.

(** when is a pair of parameters returned at all: the scalar triple product does not enter *)
Lemma gipP_some_iff (s r : S) :
  (exists t, seg_get_intersection_pt_pinned s r = Some t) <->
  vis_same_direction (seg_as_vec s) (seg_as_vec r) = false /\
  ~ tiny (vcross (seg_delta s r) (seg_normal s r)) /\
  (e5 < Rabs (vz (seg_normal s r)) \/ e5 < Rabs (vx (seg_normal s r)) \/ e5 < Rabs (vy (seg_normal s r))).
Proof.
  rewrite gipP_unfold. destruct (vis_same_direction _ _).
  - split; [intros (t & E); discriminate | intros (E & _); discriminate].
  - destruct (vis_zero _) eqn:Ez.
    + apply vis_zero_spec in Ez. split; [intros (t & E); discriminate | tauto].
    + apply vis_zero_false in Ez. rewrite seg_solve_some_iff. tauto.
Qed.

(** ** intersect / touches: the parameter windows *)
Lemma in01_spec (x : R) : in01 x = true <-> 0 <= x <= 1.
Proof. unfold in01. rnum. rewrite andb_true_iff, !Rleb_true. reflexivity. Qed.
Lemma in01x_spec (x : R) : in01x x = true <-> 0 <= x < 1.
Proof. unfold in01x. rnum. rewrite andb_true_iff, Rleb_true, Rltb_true. reflexivity. Qed.
Definition crossing_window (ta tb : R) : Prop := 0 <= ta < 1 /\ e8 <= tb < 1 - e8.
Definition touching_window (ta tb : R) : Prop := 0 <= ta <= 1 /\ 0 <= tb <= 1.
Lemma crossing_window_b (ta tb : R) : in01x ta && ((@c1em8 R _ <=? tb)%num && (tb <? n1 - c1em8)%num) = true <-> crossing_window ta tb.
Proof. unfold crossing_window. rewrite c1em8_R. rnum. rewrite !andb_true_iff, in01x_spec, Rleb_true, Rltb_true. reflexivity. Qed.
Lemma touching_window_b (ta tb : R) : in01 ta && in01 tb = true <-> touching_window ta tb.
Proof. unfold touching_window. rewrite andb_true_iff, !in01_spec. reflexivity. Qed.

Lemma seg_intersect_pinned_spec (s r : S) (p : V) :
  seg_intersect_pinned s r = Some p <->
  exists ta tb, seg_get_intersection_pt_pinned s r = Some (ta, tb) /\ crossing_window ta tb /\ p = seg_at s ta.
Proof.
  unfold seg_intersect_pinned. destruct (seg_get_intersection_pt_pinned s r) as [[ta tb]|].
  - destruct (in01x ta && _) eqn:E.
    + apply crossing_window_b in E. split.
      * intros H. inversion H. exists ta, tb. auto.
      * intros (ta' & tb' & H & _ & ->). inversion H; subst. reflexivity.
    + split; [discriminate|]. intros (ta' & tb' & H & W & _). inversion H; subst. apply crossing_window_b in W. congruence.
  - split; [discriminate | intros (? & ? & ? & _); discriminate].
Qed.
Lemma seg_touches_pinned_spec (s r : S) (p : V) :
  seg_touches_pinned s r = Some p <->
  exists ta tb, seg_get_intersection_pt_pinned s r = Some (ta, tb) /\ touching_window ta tb /\ p = seg_at s ta.
Proof.
  unfold seg_touches_pinned. destruct (seg_get_intersection_pt_pinned s r) as [[ta tb]|].
  - destruct (in01 ta && in01 tb) eqn:E.
    + apply touching_window_b in E. split.
      * intros H. inversion H. exists ta, tb. auto.
      * intros (ta' & tb' & H & _ & ->). inversion H; subst. reflexivity.
    + split; [discriminate|]. intros (ta' & tb' & H & W & _). inversion H; subst. apply touching_window_b in W. congruence.
  - split; [discriminate | intros (? & ? & ? & _); discriminate].
Qed.
Lemma crossing_in_touching (ta tb : R) : crossing_window ta tb -> touching_window ta tb.
Proof. unfold crossing_window, touching_window, e8. lra. Qed.
Lemma seg_intersect_touches_pinned (s r : S) (p : V) : seg_intersect_pinned s r = Some p -> seg_touches_pinned s r = Some p.
Proof.
  rewrite seg_intersect_pinned_spec, seg_touches_pinned_spec. intros (ta & tb & H & W & E). exists ta, tb. auto using crossing_in_touching.
Qed.
(** contact at an end point of the second segment (tb = 0 or 1) is never a crossing and always a touch *)
Lemma seg_endpoint_contact_pinned (s r : S) (ta tb : R) :
  seg_get_intersection_pt_pinned s r = Some (ta, tb) -> tb = 0 \/ tb = 1 ->
  seg_intersect_pinned s r = None /\ (0 <= ta <= 1 -> seg_touches_pinned s r = Some (seg_at s ta)).
Proof.
  intros H Hb. split.
  - destruct (seg_intersect_pinned s r) as [p|] eqn:E; [|reflexivity]. apply seg_intersect_pinned_spec in E.
    destruct E as (ta' & tb' & H' & W & _). rewrite H in H'. inversion H'; subst. unfold crossing_window, e8 in W. lra.
  - intros Ha. apply seg_touches_pinned_spec. exists ta, tb. unfold touching_window. repeat split; try tauto; destruct Hb; lra.
Qed.
(** a crossing reported for coplanar segments is a common point of the two segments *)
Lemma seg_touch_coplanar_sound_pinned (s r : S) (p : V) :
  coplanar s r -> seg_touches_pinned s r = Some p ->
  exists ta tb, 0 <= ta <= 1 /\ 0 <= tb <= 1 /\ p = seg_at s ta /\ p = seg_at r tb.
Proof.
  intros C H. apply seg_touches_pinned_spec in H. destruct H as (ta & tb & H & (Wa & Wb) & ->).
  exists ta, tb. repeat split; try tauto. apply gipP_coplanar_3d; assumption.
Qed.

(** ** finding F5, first half: skew segments are reported as crossing.
    Witness of DESIGN.md: (0,0,0)-(1,0,0) and (1/2,-1,1)-(1/2,1,1), one unit apart. *)
Definition f5_s : S := seg_new (mkV3 0 0 0) (mkV3 1 0 0).
Definition f5_r : S := seg_new (mkV3 (1/2) (-1) 1) (mkV3 (1/2) 1 1).
Lemma Rabs_lt_tiny_false (x : R) : 1 <= x \/ x <= -1 -> ~ Rabs x < tinyR.
Proof. intros H A. pose proof tinyR_small. unfold Rabs in A. destruct (Rcase_abs x); lra. Qed.
Lemma f5_gip_pinned : seg_get_intersection_pt_pinned f5_s f5_r = Some (1/2, 1/2).
Proof.
  rewrite gipP_unfold.
  replace (vis_same_direction (seg_as_vec f5_s) (seg_as_vec f5_r)) with false.
  2:{ symmetry. destruct (vis_same_direction _ _) eqn:E; [|reflexivity]. apply vis_same_direction_spec in E.
      destruct E as (_ & _ & E & _). exfalso. revert E. unfold f5_s, f5_r, seg_as_vec, seg_new, e5. cbn [sstart send]. vunf. nra. }
  replace (vis_zero (vcross (seg_delta f5_s f5_r) (seg_normal f5_s f5_r))) with false.
  2:{ symmetry. apply vis_zero_false. intros (A & _). revert A. apply Rabs_lt_tiny_false.
      unfold f5_s, f5_r, seg_delta, seg_normal, seg_as_vec, seg_new. cbn [sstart send]. vunf. left. nra. }
  unfold seg_solve. rewrite c1em5_R. rnum.
  replace (Rltb e5 (Rabs (vz (seg_normal f5_s f5_r)))) with true.
  2:{ symmetry. apply Rltb_true. unfold f5_s, f5_r, seg_normal, seg_as_vec, seg_new, e5. cbn [sstart send]. vunf.
      unfold Rabs. destruct (Rcase_abs _); nra. }
  cbn [fst]. unfold f5_s, f5_r, seg_delta, seg_as_vec, seg_new. cbn [sstart send]. vunf. f_equal. f_equal; field.
Qed.
Lemma f5_refuted :
  seg_get_intersection_pt_pinned f5_s f5_r = Some (1/2, 1/2) /\
  seg_intersect_pinned f5_s f5_r = Some (mkV3 (1/2) 0 0) /\ seg_touches_pinned f5_s f5_r = Some (mkV3 (1/2) 0 0) /\
  seg_at f5_s (1/2) = mkV3 (1/2) 0 0 /\ seg_at f5_r (1/2) = mkV3 (1/2) 0 1 /\
  ~ coplanar f5_s f5_r /\
  (forall ta tb, vlen2 (vsub (seg_at f5_s ta) (seg_at f5_r tb)) >= 1).
Proof.
  pose proof f5_gip_pinned as G.
  assert (P : seg_at f5_s (1/2) = mkV3 (1/2) 0 0).
  { unfold seg_at, f5_s, seg_as_vec, seg_new. cbn [sstart send]. vunf. apply v3_eq; cbn [vx vy vz]; nra. }
  split; [exact G|]. split; [|split; [|split; [exact P|split; [|split]]]].
  - apply seg_intersect_pinned_spec. exists (1/2), (1/2). split; [exact G|]. split; [unfold crossing_window, e8; lra | symmetry; exact P].
  - apply seg_touches_pinned_spec. exists (1/2), (1/2). split; [exact G|]. split; [unfold touching_window; lra | symmetry; exact P].
  - unfold seg_at, f5_r, seg_as_vec, seg_new. cbn [sstart send]. vunf. apply v3_eq; cbn [vx vy vz]; nra.
  - unfold coplanar, triple, f5_s, f5_r, seg_delta, seg_normal, seg_as_vec, seg_new. cbn [sstart send]. vunf. intros E. nra.
  - intros ta tb. unfold seg_at, f5_s, f5_r, seg_as_vec, seg_new. cbn [sstart send]. vunf.
    match goal with |- ?A * ?A + ?B * ?B + ?C * ?C >= 1 =>
      replace (C * C) with 1 by ring; pose proof (Rle_0_sqr A); pose proof (Rle_0_sqr B); unfold Rsqr in *; lra end.
Qed.

(** finding F5, second half: two segments that start at the same point never "touch" *)
Lemma gipP_common_start_none (s r : S) : sstart s = sstart r -> seg_get_intersection_pt_pinned s r = None.
Proof.
  intros E. rewrite gipP_unfold. destruct (vis_same_direction _ _); [reflexivity|].
  replace (vis_zero _) with true; [reflexivity|]. symmetry. apply vis_zero_spec.
  unfold seg_delta. rewrite E. destruct (sstart r) as [px py pz], (seg_normal s r) as [nx ny nz].
  unfold tiny. vunf. pose proof tinyR_pos.
  replace ((py - py) * nz - (pz - pz) * ny) with 0 by ring. replace ((pz - pz) * nx - (px - px) * nz) with 0 by ring.
  replace ((px - px) * ny - (py - py) * nx) with 0 by ring. rewrite Rabs_R0. auto.
Qed.
Lemma common_start_refuted :
  exists s r : S, sstart s = sstart r /\ coplanar s r /\ vdot (seg_as_vec s) (seg_as_vec r) = 0 /\
                  seg_at s 0 = seg_at r 0 /\ seg_touches_pinned s r = None.
Proof.
  exists (seg_new (mkV3 0 0 0) (mkV3 1 0 0)), (seg_new (mkV3 0 0 0) (mkV3 0 1 0)).
  split; [reflexivity|]. split; [|split; [|split]].
  - unfold coplanar, triple, seg_delta, seg_normal, seg_as_vec, seg_new. cbn [sstart send]. vunf. lra.
  - unfold seg_as_vec, seg_new. cbn [sstart send]. vunf. lra.
  - unfold seg_at, seg_as_vec, seg_new. cbn [sstart send]. vunf. apply v3_eq; cbn [vx vy vz]; lra.
  - unfold seg_touches_pinned. rewrite gipP_common_start_none; reflexivity.
Qed.

(** completeness: a genuine common point of the two supporting lines is what is reported, whenever
    anything is reported *)
Lemma seg_solve_complete (s r : S) (ta tb : R) (t : R * R) :
  seg_at s ta = seg_at r tb ->
  fst (seg_solve (seg_as_vec s) (seg_as_vec r) (seg_delta s r) (seg_normal s r)) = Some t -> t = (ta, tb).
Proof.
  unfold seg_solve. rewrite c1em5_R. pose proof e5_pos as He. rnum.
  destruct s as [[sx sy sz] [ex ey ez] sl], r as [[rx ry rz] [fx fy fz] rl].
  unfold seg_normal, seg_delta, seg_at, seg_as_vec. cbn [sstart send]. vunf. intros E. inversion E as [[Ex Ey Ez]]. clear E.
  rcase e5 (Rabs ((ex - sx) * (fy - ry) - (ey - sy) * (fx - rx))) H1.
  - cbn [fst]. intros E. inversion E; subst; clear E.
    pose proof (Rabs_gt_neq _ _ (Rlt_le _ _ He) H1) as Hn.
    assert (Hd : (ey - sy) * (fx - rx) - (ex - sx) * (fy - ry) <> 0) by lra.
    replace (sx - rx) with ((fx - rx) * tb - (ex - sx) * ta) by lra.
    replace (sy - ry) with ((fy - ry) * tb - (ey - sy) * ta) by lra.
    f_equal; field; exact Hd.
  - rcase e5 (Rabs ((ey - sy) * (fz - rz) - (ez - sz) * (fy - ry))) H2.
    + cbn [fst]. intros E. inversion E; subst; clear E.
      pose proof (Rabs_gt_neq _ _ (Rlt_le _ _ He) H2) as Hn.
      replace (sz - rz) with ((fz - rz) * tb - (ez - sz) * ta) by lra.
      replace (sy - ry) with ((fy - ry) * tb - (ey - sy) * ta) by lra.
      f_equal; field; exact Hn.
    + rcase e5 (Rabs ((ez - sz) * (fx - rx) - (ex - sx) * (fz - rz))) H3; [|discriminate].
      cbn [fst]. intros E. inversion E; subst; clear E.
      pose proof (Rabs_gt_neq _ _ (Rlt_le _ _ He) H3) as Hn.
      assert (Hd : (ex - sx) * (fz - rz) - (ez - sz) * (fx - rx) <> 0) by lra.
      replace (sz - rz) with ((fz - rz) * tb - (ez - sz) * ta) by lra.
      replace (sx - rx) with ((fx - rx) * tb - (ex - sx) * ta) by lra.
      f_equal; field; exact Hd.
Qed.
Lemma common_point_coplanar (s r : S) (ta tb : R) : seg_at s ta = seg_at r tb -> coplanar s r.
Proof.
  destruct s as [[sx sy sz] [ex ey ez] sl], r as [[rx ry rz] [fx fy fz] rl].
  unfold coplanar, triple, seg_normal, seg_delta, seg_at, seg_as_vec. cbn [sstart send]. vunf. intros E. inversion E as [[Ex Ey Ez]].
  replace (sx - rx) with ((fx - rx) * tb - (ex - sx) * ta) by lra.
  replace (sy - ry) with ((fy - ry) * tb - (ey - sy) * ta) by lra.
  replace (sz - rz) with ((fz - rz) * tb - (ez - sz) * ta) by lra. ring.
Qed.
Lemma gipP_complete (s r : S) (ta tb : R) (t : R * R) :
  seg_at s ta = seg_at r tb -> seg_get_intersection_pt_pinned s r = Some t -> t = (ta, tb).
Proof.
  intros E. rewrite gipP_unfold. destruct (vis_same_direction _ _); [discriminate|]. destruct (vis_zero _); [discriminate|].
  apply seg_solve_complete, E.
Qed.
Lemma seg_midpoint_spec (s : S) : seg_midpoint s = seg_at s (1 / 2).
Proof.
  destruct s as [[sx sy sz] [ex ey ez] sl]. unfold seg_midpoint, seg_at, seg_as_vec. cbn [sstart send]. vunf.
  apply v3_eq; cbn [vx vy vz]; field.
Qed.

(** ** the recorded failing classes as decidable predicates on the input (DESIGN.md 2.6: Known_P) *)
Definition known_skew (s r : S) : bool := negb (Reqb (triple s r) 0).
Definition known_common_start (s r : S) : bool :=
  Reqb (vx (sstart s)) (vx (sstart r)) && Reqb (vy (sstart s)) (vy (sstart r)) && Reqb (vz (sstart s)) (vz (sstart r)).
Lemma known_skew_false (s r : S) : known_skew s r = false <-> coplanar s r.
Proof. unfold known_skew, coplanar. destruct (Reqb (triple s r) 0) eqn:E; cbn [negb]; [apply Reqb_true in E; tauto|].
  split; [discriminate|]. intros H. apply Reqb_true in H. congruence. Qed.
Lemma known_common_start_true (s r : S) : known_common_start s r = true <-> sstart s = sstart r.
Proof.
  unfold known_common_start. rewrite andb3_true, !Reqb_true. split.
  - intros (A & B & C). apply v3_eq; assumption.
  - intros ->. auto.
Qed.
(** outside the skew class every reported touch / crossing is a genuine common point of the two segments *)
Lemma touches_sound_outside_known_pinned (s r : S) (p : V) : known_skew s r = false -> seg_touches_pinned s r = Some p ->
  exists ta tb, 0 <= ta <= 1 /\ 0 <= tb <= 1 /\ p = seg_at s ta /\ p = seg_at r tb.
Proof. intros K. apply seg_touch_coplanar_sound_pinned, known_skew_false, K. Qed.
(** every member of the skew class that gets an answer gets a wrong one; every member of the common-start class gets none *)
Lemma known_skew_wrong (s r : S) (ta tb : R) : known_skew s r = true -> seg_get_intersection_pt_pinned s r = Some (ta, tb) -> seg_at s ta <> seg_at r tb.
Proof.
  intros K H. apply gipP_skew_points_differ; [exact H|]. intros C. apply known_skew_false in C. congruence.
Qed.
Lemma known_common_start_none (s r : S) : known_common_start s r = true -> seg_get_intersection_pt_pinned s r = None.
Proof. intros K. apply gipP_common_start_none, known_common_start_true, K. Qed.
(** a genuine common point of the supporting lines IS reported with its parameters, outside the common-start band *)
Lemma gipP_reports (s r : S) (ta tb : R) :
  seg_at s ta = seg_at r tb -> vis_same_direction (seg_as_vec s) (seg_as_vec r) = false ->
  ~ tiny (vcross (seg_delta s r) (seg_normal s r)) ->
  (e5 < Rabs (vz (seg_normal s r)) \/ e5 < Rabs (vx (seg_normal s r)) \/ e5 < Rabs (vy (seg_normal s r))) ->
  seg_get_intersection_pt_pinned s r = Some (ta, tb).
Proof.
  intros E D T N. destruct (proj2 (gipP_some_iff s r) (conj D (conj T N))) as (t & G). rewrite G. f_equal. eapply gipP_complete; eassumption.
Qed.

(** ** contains_point / contains: the parameter is read along the FIRST axis whose extent exceeds the
    threshold (EPSILON, resp. 1e-6), not along the dominant one *)
Definition first_axis (thr : R) (d : V) : option (V -> R) :=
  if Rltb thr (Rabs (vx d)) then Some vx else if Rltb thr (Rabs (vy d)) then Some vy
  else if Rltb thr (Rabs (vz d)) then Some vz else None.
Lemma seg_contains_point_spec (s : S) (p : V) :
  seg_contains_point s p =
  match is_collinear p (sstart s) (send s) with
  | Ok true => match first_axis epsR (seg_as_vec s) with
               | Some c => Ok (in01 (c (vsub p (sstart s)) / c (seg_as_vec s)))
               | None => Err 3%N end
  | Ok false => Ok false
  | Err e => Err e
  | Panic q => Panic q
  end.
Proof.
  unfold seg_contains_point, first_axis, seg_as_vec. destruct (is_collinear _ _ _) as [[|]|e|q]; cbn [rbind negb]; try reflexivity.
  rnum. change (/ IZR (2 ^ 52)) with epsR.
  destruct (Rltb epsR (Rabs (vx (vsub (send s) (sstart s))))); [reflexivity|].
  destruct (Rltb epsR (Rabs (vy (vsub (send s) (sstart s))))); [reflexivity|].
  destruct (Rltb epsR (Rabs (vz (vsub (send s) (sstart s))))); reflexivity.
Qed.
Lemma first_axis_some (thr : R) (d : V) (c : V -> R) : 0 <= thr -> first_axis thr d = Some c ->
  c d <> 0 /\ forall (p : V) (t : R), c (vsub (vadd p (vscale d t)) p) / c d = t.
Proof.
  intros Ht. unfold first_axis. destruct d as [dx dy dz]. cbn [vx vy vz].
  rcase thr (Rabs dx) H1; [|rcase thr (Rabs dy) H2; [|rcase thr (Rabs dz) H3; [|discriminate]]]; intros E; inversion E; subst; clear E;
    cbn [vx vy vz]; (split; [eapply Rabs_gt_neq; eassumption|]); intros [px py pz] t; vunf; field; eapply Rabs_gt_neq; eassumption.
Qed.
Lemma first_axis_proj (thr : R) (d : V) (c : V -> R) : first_axis thr d = Some c -> c = vx \/ c = vy \/ c = vz.
Proof.
  unfold first_axis. destruct (Rltb thr (Rabs (vx d))); [intros E; inversion E; auto|].
  destruct (Rltb thr (Rabs (vy d))); [intros E; inversion E; auto|].
  destruct (Rltb thr (Rabs (vz d))); [intros E; inversion E; auto|discriminate].
Qed.
Lemma first_axis_exists (thr : R) (d : V) : thr < Rabs (vx d) \/ thr < Rabs (vy d) \/ thr < Rabs (vz d) -> exists c, first_axis thr d = Some c.
Proof.
  intros H. unfold first_axis. rcase thr (Rabs (vx d)) H1; [eauto|]. rcase thr (Rabs (vy d)) H2; [eauto|].
  rcase thr (Rabs (vz d)) H3; [eauto|]. exfalso. destruct H as [?|[?|?]]; lra.
Qed.
(** a segment with an extent of at least 2e-5 along some axis: no tolerance of the crate confuses its ends *)
Definition long_enough (a b : V) : Prop :=
  2 * e5 <= Rabs (vx b - vx a) \/ 2 * e5 <= Rabs (vy b - vy a) \/ 2 * e5 <= Rabs (vz b - vz a).
Lemma long_not_both (a b p : V) : long_enough a b -> ~ (vcompare p a = true /\ vcompare p b = true).
Proof.
  intros H (A & B). apply vcompare_spec in A. apply vcompare_spec in B. destruct A as (A1 & A2 & A3), B as (B1 & B2 & B3).
  revert A1 A2 A3 B1 B2 B3 H. unfold long_enough, Rabs. repeat destruct (Rcase_abs _); intros; lra.
Qed.
Lemma long_not_compare (a b : V) : long_enough a b -> vcompare a b = false.
Proof.
  intros H. destruct (vcompare a b) eqn:E; [|reflexivity]. exfalso. apply (long_not_both a b a H). split; [apply vcompare_refl | exact E].
Qed.
Lemma on_line_collinear (a b : V) (t : R) : long_enough a b -> forall p, p = vadd a (vscale (vsub b a) t) ->
  is_collinear p a b = Ok true /\ is_collinear a b p = Ok true.
Proof.
  intros H p ->. pose proof e5_pos as He.
  assert (Z : forall x y z : R, x = 0 -> y = 0 -> z = 0 -> vlen (mkV3 x y z) < e5).
  { intros x y z -> -> ->. unfold vlen, vlen2. cbn [vx vy vz]. rnum. replace (0 * 0 + 0 * 0 + 0 * 0) with 0 by ring. rewrite sqrt_0. exact He. }
  split.
  - apply (proj2 (proj2 (is_collinear_spec _ a b))). split; [apply long_not_both, H|]. split; [intros _|reflexivity].
    right; right; right. destruct a as [ax ay az], b as [bx b_y bz]. vunf. apply Z; ring.
  - apply (proj2 (proj2 (is_collinear_spec a b _))). split; [rewrite (long_not_compare a b H); intros (? & _); discriminate|].
    split; [intros _|reflexivity]. right; right; right. destruct a as [ax ay az], b as [bx b_y bz]. vunf. apply Z; ring.
Qed.
Lemma long_first_axis (thr : R) (a b : V) : thr < 2 * e5 -> long_enough a b -> exists c, first_axis thr (vsub b a) = Some c.
Proof. intros Ht H. apply first_axis_exists. destruct a as [ax ay az], b as [bx b_y bz]. unfold long_enough in H. vunf. destruct H as [?|[?|?]]; [left|right;left|right;right]; lra. Qed.
Lemma epsR_small : epsR < e5.
Proof.
  unfold epsR, e5. assert (H : 100000 < IZR (2 ^ 52)) by (apply IZR_lt; reflexivity).
  assert (H2 : / IZR (2 ^ 52) < / 100000) by (apply Rinv_lt_contravar; [apply Rmult_lt_0_compat; lra | exact H]). lra.
Qed.

(** for points exactly on the supporting line the answer is the exact one: inside iff 0 <= t <= 1 *)
Lemma seg_contains_point_exact (s : S) (t : R) : long_enough (sstart s) (send s) ->
  seg_contains_point s (seg_at s t) = Ok (in01 t) /\ (in01 t = true <-> 0 <= t <= 1).
Proof.
  intros H. split; [|apply in01_spec]. rewrite seg_contains_point_spec.
  destruct (on_line_collinear (sstart s) (send s) t H (seg_at s t) eq_refl) as (C & _). rewrite C.
  pose proof epsR_small. pose proof e5_pos. pose proof epsR_pos.
  destruct (long_first_axis epsR (sstart s) (send s) ltac:(lra) H) as (c & Hc). unfold seg_as_vec. rewrite Hc.
  destruct (first_axis_some epsR _ c ltac:(lra) Hc) as (_ & E). unfold seg_at, seg_as_vec. rewrite E. reflexivity.
Qed.

Lemma pdist_ge_extent (a b : V) : long_enough a b -> 2 * e5 <= pdist a b.
Proof.
  intros H. unfold pdist. rnum.
  assert (Hs : forall x, 0 <= x -> 2 * e5 <= Rabs x -> 2 * e5 <= sqrt (x * x)).
  { intros x _ Hx. replace (x * x) with (Rsqr x) by reflexivity. rewrite sqrt_Rsqr_abs. exact Hx. }
  destruct a as [ax ay az], b as [bx b_y bz]. unfold long_enough in H. vunf.
  assert (M : forall u v w, 0 <= u -> 0 <= v -> 0 <= w -> forall x, x = u \/ x = v \/ x = w -> sqrt x <= sqrt (u + v + w)).
  { intros u v w Hu Hv Hw x Hx. apply sqrt_le_1_alt. destruct Hx as [ -> | [ -> | -> ] ]; lra. }
  pose proof (Rle_0_sqr (ax - bx)) as S1. pose proof (Rle_0_sqr (ay - b_y)) as S2. pose proof (Rle_0_sqr (az - bz)) as S3. unfold Rsqr in *.
  destruct H as [H|[H|H]].
  - eapply Rle_trans; [|apply (M _ _ _ S1 S2 S3 ((ax - bx) * (ax - bx))); auto].
    replace ((ax - bx) * (ax - bx)) with (Rsqr (bx - ax)) by (unfold Rsqr; ring). rewrite sqrt_Rsqr_abs. exact H.
  - eapply Rle_trans; [|apply (M _ _ _ S1 S2 S3 ((ay - b_y) * (ay - b_y))); auto].
    replace ((ay - b_y) * (ay - b_y)) with (Rsqr (b_y - ay)) by (unfold Rsqr; ring). rewrite sqrt_Rsqr_abs. exact H.
  - eapply Rle_trans; [|apply (M _ _ _ S1 S2 S3 ((az - bz) * (az - bz))); auto].
    replace ((az - bz) * (az - bz)) with (Rsqr (bz - az)) by (unfold Rsqr; ring). rewrite sqrt_Rsqr_abs. exact H.
Qed.

Lemma seg_contains_unfold (s i : S) :
  seg_contains s i =
  if Rltb (slength s) e6 then Err 4%N else
  do c1 <- is_collinear (sstart s) (send s) (sstart i);
  if negb c1 then Ok false else
  do c2 <- is_collinear (sstart s) (send s) (send i);
  if negb c2 then Ok false else
  match first_axis e6 (vsub (send s) (sstart s)) with
  | Some c => Ok (in01 ((c (sstart i) - c (sstart s)) / c (vsub (send s) (sstart s))) &&
                  in01 ((c (send i) - c (sstart s)) / c (vsub (send s) (sstart s))))
  | None => Err 4%N
  end.
Proof.
  unfold seg_contains, first_axis. rewrite c1em6_R. rnum. destruct (Rltb (slength s) e6); [reflexivity|].
  destruct (is_collinear _ _ (sstart i)) as [[|]|e|q]; cbn [rbind negb]; try reflexivity.
  destruct (is_collinear _ _ (send i)) as [[|]|e|q]; cbn [rbind negb]; try reflexivity.
  destruct (Rltb e6 (Rabs (vx (vsub (send s) (sstart s))))); [reflexivity|].
  destruct (Rltb e6 (Rabs (vy (vsub (send s) (sstart s))))); [reflexivity|].
  destruct (Rltb e6 (Rabs (vz (vsub (send s) (sstart s))))); reflexivity.
Qed.
(** a sub-segment given by two parameters on the supporting line is contained iff both lie in [0,1] *)
Lemma seg_contains_exact (a b : V) (al be : R) : long_enough a b ->
  let s := seg_new a b in
  seg_contains s (seg_new (seg_at s al) (seg_at s be)) = Ok (in01 al && in01 be) /\
  (in01 al && in01 be = true <-> 0 <= al <= 1 /\ 0 <= be <= 1).
Proof.
  intros H s. split; [|rewrite andb_true_iff, !in01_spec; reflexivity].
  rewrite seg_contains_unfold. unfold s, seg_new, seg_at, seg_as_vec. cbn [sstart send slength].
  pose proof (pdist_ge_extent a b H) as Hl. pose proof e5_pos as He.
  replace (Rltb (pdist a b) e6) with false by (symmetry; apply Rltb_false; unfold e6, e5 in *; lra).
  destruct (on_line_collinear a b al H _ eq_refl) as (_ & C1). destruct (on_line_collinear a b be H _ eq_refl) as (_ & C2).
  rewrite C1, C2. cbn [rbind negb].
  destruct (long_first_axis e6 a b ltac:(unfold e6, e5; lra) H) as (c & Hc). rewrite Hc.
  destruct (first_axis_some e6 _ c ltac:(unfold e6; lra) Hc) as (Hn & E).
  assert (A : forall t, (c (vadd a (vscale (vsub b a) t)) - c a) / c (vsub b a) = t).
  { intros t. clear E C1 C2 Hl. destruct (first_axis_proj _ _ _ Hc) as [ -> | [ -> | -> ] ];
      destruct a as [ax ay az], b as [bx b_y bz]; vunf; field; exact Hn. }
  rewrite !A. reflexivity.
Qed.

(** ** the live code (Model/Segment.v, after fix ec384e6) *)
Lemma gip_unfold (s r : S) :
  seg_get_intersection_pt s r =
  if vis_same_direction (seg_as_vec s) (seg_as_vec r) then None else
  if Rltb (e5 * vlen (seg_normal s r)) (Rabs (triple s r)) then None else
  fst (seg_solve (seg_as_vec s) (seg_as_vec r) (seg_delta s r) (seg_normal s r)).
Proof.
  unfold seg_get_intersection_pt, seg_get_intersection_pt_tag, triple, seg_as_vec, seg_delta, seg_normal, seg_as_vec.
  rewrite c1em5_R. rnum. destruct (vis_same_direction _ _); [reflexivity|]. destruct (Rltb _ _); reflexivity.
Qed.
(** the distance between the supporting lines, |delta . n| / |n|, is at most 1e-5 whenever parameters are returned *)
Lemma gip_solved (s r : S) (ta tb : R) : seg_get_intersection_pt s r = Some (ta, tb) ->
  solved s r ta tb /\ Rabs (triple s r) <= e5 * vlen (seg_normal s r).
Proof.
  rewrite gip_unfold. destruct (vis_same_direction _ _); [discriminate|].
  rcase (e5 * vlen (seg_normal s r)) (Rabs (triple s r)) H; [discriminate|]. intros E. split; [apply seg_solve_solved, E | exact H].
Qed.
(** skew segments are never reported: lines further apart than 1e-5 give [None] *)
Lemma gip_skew_none (s r : S) : e5 * vlen (seg_normal s r) < Rabs (triple s r) -> seg_get_intersection_pt s r = None.
Proof.
  intros H. rewrite gip_unfold. destruct (vis_same_direction _ _); [reflexivity|].
  replace (Rltb _ _) with true by (symmetry; apply Rltb_true; exact H). reflexivity.
Qed.
Lemma gip_coplanar_3d (s r : S) (ta tb : R) :
  seg_get_intersection_pt s r = Some (ta, tb) -> coplanar s r -> seg_at s ta = seg_at r tb.
Proof. intros H C. apply (solved_coincide_iff s r ta tb (proj1 (gip_solved s r ta tb H))), C. Qed.
(** the residual between the two reported points lies along one axis and is |triple| / |n_k| *)
Lemma solved_gap (s r : S) (ta tb : R) : solved s r ta tb ->
  exists nk, e5 < Rabs nk /\ (nk = vx (seg_normal s r) \/ nk = vy (seg_normal s r) \/ nk = vz (seg_normal s r)) /\
             vlen2 (vsub (seg_at s ta) (seg_at r tb)) * (nk * nk) = triple s r * triple s r.
Proof.
  unfold solved. cbv zeta. destruct (seg_at s ta) as [px py pz], (seg_at r tb) as [qx qy qz]. cbn [vx vy vz]. intros [H|[H|H]].
  - destruct H as (Hn & -> & -> & E). exists (vz (seg_normal s r)). split; [exact Hn|]. split; [auto|]. rewrite <- E. vunf. ring.
  - destruct H as (_ & Hn & -> & -> & E). exists (vx (seg_normal s r)). split; [exact Hn|]. split; [auto|]. rewrite <- E. vunf. ring.
  - destruct H as (_ & _ & Hn & -> & -> & E). exists (vy (seg_normal s r)). split; [exact Hn|]. split; [auto|]. rewrite <- E. vunf. ring.
Qed.
Lemma gip_reports (s r : S) (ta tb : R) :
  seg_at s ta = seg_at r tb -> vis_same_direction (seg_as_vec s) (seg_as_vec r) = false ->
  (e5 < Rabs (vz (seg_normal s r)) \/ e5 < Rabs (vx (seg_normal s r)) \/ e5 < Rabs (vy (seg_normal s r))) ->
  seg_get_intersection_pt s r = Some (ta, tb).
Proof.
  intros E D N. rewrite gip_unfold, D. pose proof (common_point_coplanar s r ta tb E) as C. unfold coplanar in C.
  replace (Rltb _ _) with false.
  2:{ symmetry. apply Rltb_false. rewrite C, Rabs_R0. apply Rmult_le_pos; [left; apply e5_pos | apply vlen_nonneg]. }
  apply seg_solve_some_iff in N. destruct N as (t & Ht). rewrite Ht. f_equal. eapply seg_solve_complete; eassumption.
Qed.
(** segments with a common start point now touch there *)
Lemma gip_common_start (s r : S) :
  sstart s = sstart r -> vis_same_direction (seg_as_vec s) (seg_as_vec r) = false ->
  (e5 < Rabs (vz (seg_normal s r)) \/ e5 < Rabs (vx (seg_normal s r)) \/ e5 < Rabs (vy (seg_normal s r))) ->
  seg_get_intersection_pt s r = Some (0, 0) /\ seg_touches s r = Some (sstart s) /\ seg_intersect s r = None.
Proof.
  intros E D N.
  assert (P : seg_at s 0 = seg_at r 0).
  { unfold seg_at. rewrite E. destruct (sstart r) as [px py pz], (seg_as_vec s) as [ax ay az], (seg_as_vec r) as [bx b_y bz]. vunf.
    apply v3_eq; cbn [vx vy vz]; ring. }
  pose proof (gip_reports s r 0 0 P D N) as G. split; [exact G|]. unfold seg_touches, seg_intersect. rewrite G.
  replace (in01 0) with true by (symmetry; apply in01_spec; lra). cbn [andb]. split.
  - f_equal. destruct (sstart s) as [px py pz], (vsub (send s) (sstart s)) as [ax ay az]. vunf. apply v3_eq; cbn [vx vy vz]; ring.
  - rewrite c1em8_R. rnum. replace (Rleb e8 0) with false by (symmetry; apply Rleb_false; unfold e8; lra).
    rewrite andb_false_r. reflexivity.
Qed.
(** on coplanar pairs that the current code does not drop, the repair changes nothing *)
Lemma gip_agrees_pinned (s r : S) : coplanar s r -> ~ tiny (vcross (seg_delta s r) (seg_normal s r)) ->
  seg_get_intersection_pt s r = seg_get_intersection_pt_pinned s r.
Proof.
  intros C T. rewrite gip_unfold, gipP_unfold. destruct (vis_same_direction _ _); [reflexivity|].
  replace (vis_zero _) with false by (symmetry; apply vis_zero_false, T).
  unfold coplanar in C. replace (Rltb _ _) with false; [reflexivity|].
  symmetry. apply Rltb_false. rewrite C, Rabs_R0. apply Rmult_le_pos; [left; apply e5_pos | apply vlen_nonneg].
Qed.
Lemma seg_touches_spec (s r : S) (p : V) :
  seg_touches s r = Some p <->
  exists ta tb, seg_get_intersection_pt s r = Some (ta, tb) /\ touching_window ta tb /\ p = seg_at s ta.
Proof.
  unfold seg_touches. destruct (seg_get_intersection_pt s r) as [[ta tb]|].
  - destruct (in01 ta && in01 tb) eqn:E.
    + apply touching_window_b in E. split.
      * intros H. inversion H. exists ta, tb. auto.
      * intros (ta' & tb' & H & _ & ->). inversion H; subst. reflexivity.
    + split; [discriminate|]. intros (ta' & tb' & H & W & _). inversion H; subst. apply touching_window_b in W. congruence.
  - split; [discriminate | intros (? & ? & ? & _); discriminate].
Qed.
Lemma seg_intersect_spec (s r : S) (p : V) :
  seg_intersect s r = Some p <->
  exists ta tb, seg_get_intersection_pt s r = Some (ta, tb) /\ crossing_window ta tb /\ p = seg_at s ta.
Proof.
  unfold seg_intersect. destruct (seg_get_intersection_pt s r) as [[ta tb]|].
  - destruct (in01x ta && _) eqn:E.
    + apply crossing_window_b in E. split.
      * intros H. inversion H. exists ta, tb. auto.
      * intros (ta' & tb' & H & _ & ->). inversion H; subst. reflexivity.
    + split; [discriminate|]. intros (ta' & tb' & H & W & _). inversion H; subst. apply crossing_window_b in W. congruence.
  - split; [discriminate | intros (? & ? & ? & _); discriminate].
Qed.
(** the F5 witness is rejected by the live code *)
Lemma f5_rejected : seg_get_intersection_pt f5_s f5_r = None /\ seg_intersect f5_s f5_r = None /\ seg_touches f5_s f5_r = None.
Proof.
  assert (G : seg_get_intersection_pt f5_s f5_r = None).
  { apply gip_skew_none. unfold triple, seg_normal, seg_delta, f5_s, f5_r, seg_as_vec, seg_new. cbn [sstart send]. vunf.
    unfold vlen, vlen2. cbn [vx vy vz]. rnum.
    replace (((0 - 0) * (1 - 1) - (0 - 0) * (1 - -1)) * ((0 - 0) * (1 - 1) - (0 - 0) * (1 - -1)) +
             ((0 - 0) * (1 / 2 - 1 / 2) - (1 - 0) * (1 - 1)) * ((0 - 0) * (1 / 2 - 1 / 2) - (1 - 0) * (1 - 1)) +
             ((1 - 0) * (1 - -1) - (0 - 0) * (1 / 2 - 1 / 2)) * ((1 - 0) * (1 - -1) - (0 - 0) * (1 / 2 - 1 / 2))) with (Rsqr 2) by (unfold Rsqr; ring).
    rewrite sqrt_Rsqr by lra. unfold e5, Rabs. destruct (Rcase_abs _); nra. }
  unfold seg_intersect, seg_touches. rewrite G. auto.
Qed.

(** ** the live code: further consequences *)
Lemma gip_some_iff (s r : S) :
  (exists t, seg_get_intersection_pt s r = Some t) <->
  vis_same_direction (seg_as_vec s) (seg_as_vec r) = false /\
  Rabs (triple s r) <= e5 * vlen (seg_normal s r) /\
  (e5 < Rabs (vz (seg_normal s r)) \/ e5 < Rabs (vx (seg_normal s r)) \/ e5 < Rabs (vy (seg_normal s r))).
Proof.
  rewrite gip_unfold. destruct (vis_same_direction _ _).
  - split; [intros (t & E); discriminate | intros (E & _); discriminate].
  - rcase (e5 * vlen (seg_normal s r)) (Rabs (triple s r)) H.
    + split; [intros (t & E); discriminate | intros (_ & H' & _); lra].
    + rewrite seg_solve_some_iff. tauto.
Qed.
Lemma gip_complete (s r : S) (ta tb : R) (t : R * R) :
  seg_at s ta = seg_at r tb -> seg_get_intersection_pt s r = Some t -> t = (ta, tb).
Proof.
  intros E. rewrite gip_unfold. destruct (vis_same_direction _ _); [discriminate|]. destruct (Rltb _ _); [discriminate|].
  apply seg_solve_complete, E.
Qed.
Lemma seg_intersect_touches (s r : S) (p : V) : seg_intersect s r = Some p -> seg_touches s r = Some p.
Proof.
  rewrite seg_intersect_spec, seg_touches_spec. intros (ta & tb & H & W & E). exists ta, tb. auto using crossing_in_touching.
Qed.
(** contact at an end point of the second segment (tb = 0 or 1) is never a crossing and always a touch *)
Lemma seg_endpoint_contact (s r : S) (ta tb : R) :
  seg_get_intersection_pt s r = Some (ta, tb) -> tb = 0 \/ tb = 1 ->
  seg_intersect s r = None /\ (0 <= ta <= 1 -> seg_touches s r = Some (seg_at s ta)).
Proof.
  intros H Hb. split.
  - destruct (seg_intersect s r) as [p|] eqn:E; [|reflexivity]. apply seg_intersect_spec in E.
    destruct E as (ta' & tb' & H' & W & _). rewrite H in H'. inversion H'; subst. unfold crossing_window, e8 in W. lra.
  - intros Ha. apply seg_touches_spec. exists ta, tb. unfold touching_window. repeat split; try tauto; destruct Hb; lra.
Qed.
(** a touch (hence a crossing) reported for coplanar segments is a common point of the two segments; in general the two
    supporting lines are at most 1e-5 apart and the two located points differ along one axis by |delta . n| / |n_k| *)
Lemma seg_touch_coplanar_sound (s r : S) (p : V) :
  coplanar s r -> seg_touches s r = Some p ->
  exists ta tb, 0 <= ta <= 1 /\ 0 <= tb <= 1 /\ p = seg_at s ta /\ p = seg_at r tb.
Proof.
  intros C H. apply seg_touches_spec in H. destruct H as (ta & tb & H & (Wa & Wb) & ->).
  exists ta, tb. repeat split; try tauto. apply gip_coplanar_3d; assumption.
Qed.
Lemma seg_touch_lines_close (s r : S) (p : V) : seg_touches s r = Some p ->
  Rabs (triple s r) <= e5 * vlen (seg_normal s r) /\
  exists ta tb, 0 <= ta <= 1 /\ 0 <= tb <= 1 /\ p = seg_at s ta /\ solved s r ta tb.
Proof.
  intros H. apply seg_touches_spec in H. destruct H as (ta & tb & H & (Wa & Wb) & ->).
  destruct (gip_solved s r ta tb H) as (So & B). split; [exact B|]. exists ta, tb. auto.
Qed.
