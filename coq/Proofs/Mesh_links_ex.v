(** * Mesh_links_ex: non-vacuity of the link-geometry invariant (binary64 by vm_compute; reals for the history hypotheses). *)
From Coq Require Import ZArith Reals Lra Lia List Bool Arith Permutation Floats.
Set Warnings "-inexact-float".
From G3 Require Import Model.Num Model.NumF Model.Base Model.Vec Model.Segment Model.Triangle Model.Loop Model.Polygon Model.Triangulation
  Theory.RInst Theory.Cyclic Theory.Winding
  Proofs.Mesh_base Proofs.Mesh_wf Proofs.Mesh_conf Proofs.Mesh_region Proofs.Mesh_atomic Proofs.Mesh_region_ex
  Proofs.Mesh_links Proofs.Mesh_links_steps Proofs.Mesh_links_region.
Import ListNotations.

(** ** binary64: the hand-built unit-square mesh satisfies LNKG, DIST, SEP; a two-step history keeps them *)
Ltac lv_cases H j := unfold lvM, lvT in H; destruct j as [|[|[|[|[|j]]]]]; vm_compute in H; try discriminate H.
Ltac vsep_pair :=
  first [ split; [intros _; reflexivity | intros _; vm_compute; reflexivity]
        | split; [vm_compute; intros Q; discriminate Q | let E := fresh in intros E; exfalso;
                    match goal with |- _ => apply (f_equal (fun v => vcompare v _)) in E; vm_compute in E; discriminate E end] ].
Definition sq_pts : list (V3 float) := [q2 0 0; q2 1 0; q2 1 1; q2 0 1].
Lemma vsep_in (l : list (V3 float)) : (forall x y, In x l -> In y l -> (vcompare x y = true <-> x = y)) -> forall P : V3 float -> Prop, (forall x, P x -> In x l) -> VSEP P.
Proof. intros H P HP x y A B. apply H; apply HP; assumption. Qed.
Lemma sq_pts_sep : forall x y, In x (q2 0.6 0.2 :: sq_pts) -> In y (q2 0.6 0.2 :: sq_pts) -> (vcompare x y = true <-> x = y).
Proof.
  intros x y Hx Hy. cbn [In sq_pts] in Hx, Hy.
  repeat (destruct Hx as [<- | Hx]); try contradiction; repeat (destruct Hy as [<- | Hy]); try contradiction;
    first [ split; [intros _; reflexivity | intros _; vm_compute; reflexivity]
          | split; [vm_compute; intros Q; discriminate Q | intros E; exfalso; apply (f_equal (fun v => vcompare v (q2 0.6 0.2))) in E; vm_compute in E; discriminate E]
          | split; [vm_compute; intros Q; discriminate Q | intros E; exfalso; apply (f_equal (fun v => vcompare v (q2 0 0))) in E; vm_compute in E; discriminate E]
          | split; [vm_compute; intros Q; discriminate Q | intros E; exfalso; apply (f_equal (fun v => vcompare v (q2 1 0))) in E; vm_compute in E; discriminate E]
          | split; [vm_compute; intros Q; discriminate Q | intros E; exfalso; apply (f_equal (fun v => vcompare v (q2 1 1))) in E; vm_compute in E; discriminate E]
          | split; [vm_compute; intros Q; discriminate Q | intros E; exfalso; apply (f_equal (fun v => vcompare v (q2 0 1))) in E; vm_compute in E; discriminate E] ].
Qed.
Lemma sqM_verts (x : V3 float) : mesh_vert sqM x -> In x sq_pts.
Proof.
  intros (j & T & L & Hx). lv_cases L j; inversion L; subst T; cbn [ta tb tc] in Hx; destruct Hx as [-> | [-> | ->]]; vm_compute; auto.
Qed.
Lemma sqM_GEO : GEO sqM /\ SEPp sqM (q2 0.6 0.2).
Proof.
  assert (S : SEPp sqM (q2 0.6 0.2)).
  { apply (vsep_in _ sq_pts_sep). intros x [Q | ->]; [right; apply sqM_verts; exact Q | left; reflexivity]. }
  split; [|exact S]. split; [|split; [|eapply SEPp_SEP; exact S]].
  - intros j T L e k E. lv_cases L j; inversion L; subst T; destruct e; vm_compute in E; try discriminate E; inversion E; subst k.
    + split; [discriminate|]. eexists; eexists; exists Ab. split; [vm_compute; reflexivity|]. split; [vm_compute; reflexivity|]. split; vm_compute; reflexivity.
    + split; [discriminate|]. eexists; eexists; exists Ca. split; [vm_compute; reflexivity|]. split; [vm_compute; reflexivity|]. split; vm_compute; reflexivity.
  - intros j T L. lv_cases L j; inversion L; subst T; cbn [tri_distinct ta tb tc]; repeat split; intros E;
      first [ apply (f_equal (fun v => vcompare v (q2 0 0))) in E; vm_compute in E; discriminate E
            | apply (f_equal (fun v => vcompare v (q2 1 1))) in E; vm_compute in E; discriminate E
            | apply (f_equal (fun v => vcompare v (q2 1 0))) in E; vm_compute in E; discriminate E
            | apply (f_equal (fun v => vcompare v (q2 0 1))) in E; vm_compute in E; discriminate E ].
Qed.
(** flip the diagonal, then split the new triangle of slot 0 at an interior point: both steps return Ok, and the invariant
    holds of the final mesh by [flip_GEO] and [split_triangle_GEO] *)
Lemma links_two_steps :
  exists M1 M2 : Mesh float, GEO sqM /\ flip_diagonal 0 Ca sqM = (M1, Ok tt) /\ GEO M1 /\ SEPp M1 (q2 0.6 0.2) /\
    split_triangle 0 (q2 0.6 0.2) M1 = (M2, Ok tt) /\ GEO M2 /\ length (live_tris M2) = 4%nat.
Proof.
  destruct sqM_GEO as [G0 S0].
  destruct (flip_diagonal 0 Ca sqM) as [M1 r1] eqn:E1. assert (R1 : r1 = Ok tt) by (replace r1 with (snd (flip_diagonal 0 Ca sqM)) by (rewrite E1; reflexivity); vm_compute; reflexivity). subst r1.
  pose proof (flip_GEO _ _ _ _ G0 E1) as G1.
  assert (S1 : SEPp M1 (q2 0.6 0.2)).
  { destruct G0 as (HL & HD & HS). destruct (flip_LNKG _ _ _ _ HL HS HD E1) as (_ & _ & Hv).
    apply (vsep_in _ sq_pts_sep). intros x [Q | ->]; [right; apply sqM_verts; apply Hv; exact Q | left; reflexivity]. }
  destruct (split_triangle 0 (q2 0.6 0.2) M1) as [M2 r2] eqn:E2.
  assert (R2 : r2 = Ok tt /\ length (live_tris M2) = 4%nat).
  { replace r2 with (snd (split_triangle 0 (q2 0.6 0.2) M1)) by (rewrite E2; reflexivity). replace M2 with (fst (split_triangle 0 (q2 0.6 0.2) M1)) by (rewrite E2; reflexivity).
    replace M1 with (fst (flip_diagonal 0 Ca sqM)) by (rewrite E1; reflexivity). split; vm_compute; reflexivity. }
  destruct R2 as [-> R2]. exists M1, M2. pose proof G1 as (A & B & C).
  split; [exact G0 | split; [first [exact E1 | reflexivity] | split; [exact G1 | split; [exact S1 | split; [first [exact E2 | reflexivity] | split; [exact (split_triangle_GEO _ _ _ _ A B S1 E2) | exact R2]]]]]].
Qed.

(** ** reals: the hypotheses of the history theorems are satisfiable (one triangle, split at an interior point) *)
Local Open Scope R_scope.
Lemma xM_verts (x : V3 R) : mesh_vert xM x -> x = wA \/ x = wB \/ x = wC.
Proof.
  intros (j & T & L & Hx). unfold lvM, lvT in L. destruct j as [|[|j]]; cbn in L; try discriminate L. inversion L; subst T. exact Hx.
Qed.
Lemma x_pts_sep : forall x y, In x [wA; wB; wC; xp] -> In y [wA; wB; wC; xp] -> (vcompare x y = true <-> x = y).
Proof.
  assert (N : forall u v : V3 R, vcompare u v = false -> (vx u <> vx v \/ vy u <> vy v) -> (vcompare u v = true <-> u = v)).
  { intros u v E Hn. split; [rewrite E; discriminate | intros ->; destruct Hn as [Q | Q]; exfalso; apply Q; reflexivity]. }
  intros x y Hx Hy. cbn [In] in Hx, Hy.
  repeat (destruct Hx as [<- | Hx]); try contradiction; repeat (destruct Hy as [<- | Hy]); try contradiction;
    first [ split; [intros _; reflexivity | intros _; apply vcompare_refl_R]
          | apply N; [vcdec | unfold wA, wB, wC, xp; cbn [vx vy]; first [left; lra | right; lra]] ].
Qed.
Lemma xM_GEO : GEO xM /\ SEPp xM xp.
Proof.
  assert (S : SEPp xM xp).
  { intros x y Hx Hy. apply x_pts_sep; [destruct Hx as [Q | ->] | destruct Hy as [Q | ->]]; cbn [In]; try (destruct (xM_verts _ Q) as [-> | [-> | ->]]); auto. }
  split; [|exact S]. split; [|split; [|eapply SEPp_SEP; exact S]].
  - intros j T L e k E. unfold lvM, lvT in L. destruct j as [|[|j]]; cbn in L; try discriminate L. destruct e; cbn in E; discriminate E.
  - intros j T L. unfold lvM, lvT in L. destruct j as [|[|j]]; cbn in L; try discriminate L. inversion L; subst T.
    unfold tri_distinct, xT0, wA, wB, wC. cbn [ta tb tc]. repeat split; intros E; inversion E; lra.
Qed.
Lemma history_hyp_nonvacuous :
  exists (M : Mesh R) (ops : list (mop R)) (o e1 e2 : V3 R) (d q : P2),
    GEO M /\ ops <> [] /\ run_hyp between (fun p => hgt d q (C05_pointtest.plane2 o e1 e2 p) <> 0) M ops.
Proof.
  destruct xM_GEO as [G0 S0]. destruct x_split_ok as (M' & H).
  exists xM, [OSplitTriangle 0 xp], wA, wB, wC, (1, 0), (/ 2, / 3). split; [exact G0|]. split; [discriminate|].
  cbn [run_hyp step_hyp]. split; [exact S0|]. split; [|exact I].
  exists None. cbn [mesh_step]. unfold mbind. rewrite H. reflexivity.
Qed.
