(** * C11 proofs: cut_hole is all-or-nothing and accounts for the hole's area.
    Everything here holds for EVERY number instance of the model (reals, Flocq floats, primitive floats). *)
From Coq Require Import ZArith Bool List Arith Lia.
From G3 Require Import Model.Num Model.Base Model.Vec Model.Segment Model.Loop Model.Polygon Model.PolyAux Proofs.C04_loop.
Import ListNotations.
Local Open Scope num_scope.

Section AnyNum.
  Context {K : Type} {NK : Num K}.
  Notation V := (V3 K).

  (** ** never Panic: none of the model's panic sites is reachable from cut_hole *)
  Definition no_panic {A} (r : res A) : Prop := forall s, r <> Panic s.
  Lemma np_ok {A} (a : A) : no_panic (Ok a). Proof. intros s; discriminate. Qed.
  Lemma np_err {A} c : no_panic (@Err A c). Proof. intros s; discriminate. Qed.
  Lemma np_bind {A B} (r : res A) (f : A -> res B) : no_panic r -> (forall a, no_panic (f a)) -> no_panic (rbind r f).
  Proof. intros Hr Hf s. destruct r as [a| |s']; cbn [rbind]; [apply Hf | discriminate | intros _; exact (Hr s' eq_refl)]. Qed.
  Lemma np_if {A} (b : bool) (x y : res A) : no_panic x -> no_panic y -> no_panic (if b then x else y).
  Proof. destruct b; auto. Qed.

  Lemma np_is_collinear (a b c : V) : no_panic (is_collinear a b c).
  Proof. intros s. apply is_collinear_no_panic. Qed.
  Lemma np_contains_point (sg : Seg K) (p : V) : no_panic (seg_contains_point sg p).
  Proof.
    unfold seg_contains_point. apply np_bind; [apply np_is_collinear|]. intros col.
    apply np_if; [apply np_ok|]. repeat (apply np_if; [apply np_ok|]). apply np_err.
  Qed.
  Lemma np_edge_cross (L : Loop K) (p d : V) (ray : Seg K) (a b : V) : no_panic (edge_cross_count L p d ray a b).
  Proof.
    unfold edge_cross_count. apply np_bind; [apply np_contains_point|]. intros on. apply np_if; [apply np_ok|].
    destruct (seg_get_intersection_pt _ _) as [[ta tb]|]; [|apply np_ok].
    apply np_if; [|apply np_ok]. apply np_if; [apply np_ok|]. apply np_if; apply np_ok.
  Qed.
  Lemma np_count_crossings (L : Loop K) (p d : V) (ray : Seg K) (vs : list V) : forall first acc, no_panic (count_crossings L p d ray vs first acc).
  Proof.
    induction vs as [|a tl IH]; intros first acc; cbn [count_crossings]; [apply np_ok|].
    apply np_bind; [apply np_edge_cross|]. intros r. apply np_if; [apply np_ok | apply IH].
  Qed.
  Lemma np_is_coplanar (L : Loop K) (p : V) : no_panic (loop_is_coplanar L p).
  Proof. intros s. apply coplanar_no_panic. Qed.
  Lemma np_loop_test_point (L : Loop K) (p : V) : no_panic (loop_test_point L p).
  Proof.
    unfold loop_test_point. apply np_if; [apply np_err|]. apply np_bind; [apply np_is_coplanar|]. intros cop.
    apply np_if; [apply np_ok|]. apply np_bind; [apply np_count_crossings|]. intros r. apply np_if; apply np_ok.
  Qed.
  Lemma np_in_any_hole (hs : list (Loop K)) (p : V) : no_panic (in_any_hole hs p).
  Proof. induction hs as [|h tl IH]; cbn [in_any_hole]; [apply np_ok|]. apply np_bind; [apply np_loop_test_point|]. intros b. apply np_if; [apply np_ok | exact IH]. Qed.
  Lemma np_poly_test_point (P : Poly K) (p : V) : no_panic (poly_test_point P p).
  Proof.
    unfold poly_test_point. apply np_bind; [apply np_loop_test_point|]. intros o. apply np_if; [apply np_ok|].
    apply np_bind; [apply np_in_any_hole|]. intros h. apply np_ok.
  Qed.
  Lemma np_all_inside (P : Poly K) (vs : list V) : no_panic (all_inside P vs).
  Proof. induction vs as [|v tl IH]; cbn [all_inside]; [apply np_ok|]. apply np_bind; [apply np_poly_test_point|]. intros b. apply np_if; [exact IH | apply np_ok]. Qed.
  Lemma np_any_inside_loop (h : Loop K) (vs : list V) : no_panic (any_inside_loop h vs).
  Proof. induction vs as [|v tl IH]; cbn [any_inside_loop]; [apply np_ok|]. apply np_bind; [apply np_loop_test_point|]. intros b. apply np_if; [apply np_ok | exact IH]. Qed.
  Lemma np_encloses_any (hole : Loop K) (hs : list (Loop K)) : no_panic (encloses_any hole hs).
  Proof. induction hs as [|h tl IH]; cbn [encloses_any]; [apply np_ok|]. apply np_bind; [apply np_any_inside_loop|]. intros b. apply np_if; [apply np_ok | exact IH]. Qed.
  Lemma np_loop_area (L : Loop K) : no_panic (loop_area L).
  Proof. unfold loop_area. apply np_if; [apply np_ok | apply np_err]. Qed.

  Theorem cut_hole_no_panic (P : Poly K) (h : Loop K) : forall s, poly_cut_hole P h <> Panic s.
  Proof.
    unfold poly_cut_hole. apply np_if; [apply np_err|]. apply np_bind; [apply np_all_inside|]. intros ins.
    apply np_if; [apply np_err|]. apply np_bind; [apply np_encloses_any|]. intros enc. apply np_if; [apply np_err|].
    apply np_bind; [apply np_loop_area|]. intros ha. apply np_ok.
  Qed.
  Theorem poly_new_no_panic (outer : Loop K) : forall s, poly_new outer <> Panic s.
  Proof. unfold poly_new. apply np_if; [apply np_err|]. apply np_bind; [apply np_loop_area|]. intros a. apply np_ok. Qed.
  Lemma step_no_panic (P : Poly K) (h : Loop K) : forall s, snd (poly_step P h) <> Panic s.
  Proof.
    intros s. unfold poly_step. pose proof (cut_hole_no_panic P h) as H.
    destruct (poly_cut_hole P h) as [P'| |s']; cbn [snd]; try discriminate. intros _. exact (H s' eq_refl).
  Qed.
  Theorem run_no_panic (hs : list (Loop K)) : forall (P : Poly K) s, ~ In (Panic s) (snd (poly_run P hs)).
  Proof.
    induction hs as [|h hs IH]; intros P s; cbn [poly_run]; [intros []|].
    pose proof (step_no_panic P h s) as H. destruct (poly_step P h) as [P' o]. cbn [snd] in H.
    specialize (IH P' s). destruct (poly_run P' hs) as [P'' os]. cbn [snd] in *. intros [E|E]; [exact (H E) | exact (IH E)].
  Qed.

  (** ** a refused call leaves the polygon unchanged; an accepted one changes exactly area and hole list *)
  Theorem refused_unchanged (P : Poly K) (h : Loop K) : snd (poly_step P h) <> Ok tt -> fst (poly_step P h) = P.
  Proof. unfold poly_step. destruct (poly_cut_hole P h); cbn [fst snd]; intros H; [exfalso; apply H|..]; reflexivity. Qed.

  Theorem accepted_accounts (P P' : Poly K) (h : Loop K) : poly_cut_hole P h = Ok P' ->
    parea P' = parea P - larea h /\ pinner P' = pinner P ++ [h] /\ pouter P' = pouter P /\ pnormal P' = pnormal P /\ lclosed h = true.
  Proof.
    unfold poly_cut_hole. destruct (negb (vis_parallel _ _)); [discriminate|].
    destruct (all_inside P (verts h)) as [ins| |]; cbn [rbind]; try discriminate. destruct (negb ins); [discriminate|].
    destruct (encloses_any h (pinner P)) as [enc| |]; cbn [rbind]; try discriminate. destruct enc; [discriminate|].
    unfold loop_area. destruct (lclosed h); cbn [rbind]; [|discriminate]. intros E; inversion E; subst; cbn. repeat split; reflexivity.
  Qed.

  (** ** histories: after ANY list of candidate holes the area is the outer area minus the accepted
      holes' areas (the float / real expression the code computes, left to right) and the hole list is
      the list of accepted candidates *)
  Definition sub_areas (a : K) (hs : list (Loop K)) : K := fold_left (fun acc h => acc - larea h) hs a.
  Lemma step_cases (P : Poly K) (h : Loop K) :
    (exists P', poly_cut_hole P h = Ok P' /\ poly_step P h = (P', Ok tt)) \/ (is_ok (snd (poly_step P h)) = false /\ fst (poly_step P h) = P).
  Proof. unfold poly_step. destruct (poly_cut_hole P h) as [P'| |]; [left; exists P'; split; reflexivity | right; split; reflexivity ..]. Qed.
  Theorem history_accounting (hs : list (Loop K)) : forall P : Poly K,
    let r := poly_run P hs in
    parea (fst r) = sub_areas (parea P) (accepted_of hs (snd r)) /\
    pinner (fst r) = pinner P ++ accepted_of hs (snd r) /\
    pouter (fst r) = pouter P /\ pnormal (fst r) = pnormal P /\
    length (snd r) = length hs.
  Proof.
    induction hs as [|h hs IH]; intros P; cbn [poly_run].
    - cbn. rewrite app_nil_r. repeat split; reflexivity.
    - destruct (step_cases P h) as [[P' [Hc Hs]]|[Hn Hf]].
      + rewrite Hs. specialize (IH P'). cbn zeta in IH. destruct (poly_run P' hs) as [P'' os]. cbn [fst snd] in *.
        destruct (accepted_accounts _ _ _ Hc) as (Ha & Hi & Ho & Hnn & _). destruct IH as (I1 & I2 & I3 & I4 & I5).
        cbn [accepted_of is_ok]. unfold sub_areas in *. cbn [fold_left]. rewrite I1, I2, I3, I4, Ha, Hi, Ho, Hnn, <- app_assoc. cbn [app length]. rewrite I5. repeat split; reflexivity.
      + destruct (poly_step P h) as [P' o]. cbn [fst snd] in Hn, Hf. subst P'. specialize (IH P). cbn zeta in IH.
        destruct (poly_run P hs) as [P'' os]. cbn [fst snd] in *. cbn [accepted_of]. rewrite Hn. destruct IH as (I1 & I2 & I3 & I4 & I5).
        cbn [length]. rewrite I5. repeat split; assumption.
  Qed.
  Lemma length_accepted (hs : list (Loop K)) : forall os, length (accepted_of hs os) = length (filter (@is_ok unit) (firstn (length hs) os)).
  Proof.
    induction hs as [|h hs IH]; intros os; [reflexivity|]. destruct os as [|o os]; [reflexivity|]. cbn [accepted_of length firstn filter].
    destruct (is_ok o); cbn [length]; rewrite IH; reflexivity.
  Qed.
  (** starting from [Polygon3D::new]: area = outer area - accepted areas, number of holes = number of accepted calls *)
  Theorem history_from_new (outer : Loop K) (P : Poly K) (hs : list (Loop K)) : poly_new outer = Ok P ->
    let r := poly_run P hs in
    parea (fst r) = sub_areas (larea outer) (accepted_of hs (snd r)) /\
    pinner (fst r) = accepted_of hs (snd r) /\
    length (pinner (fst r)) = length (filter (@is_ok unit) (snd r)) /\
    pouter (fst r) = outer /\ pnormal (fst r) = lnormal outer.
  Proof.
    unfold poly_new. destruct (negb (lclosed outer)) eqn:Ec; [discriminate|]. unfold loop_area. destruct (lclosed outer); [|discriminate].
    cbn [rbind]. intros E; inversion E; subst P; clear E. cbn zeta.
    destruct (history_accounting hs (mkPoly outer [] (larea outer) (lnormal outer))) as (I1 & I2 & I3 & I4 & I5). cbn [parea pinner pouter pnormal app] in *.
    repeat split; try assumption. rewrite I2, length_accepted, <- I5, firstn_all. reflexivity.
  Qed.

  (** ** acceptance is exactly the conjunction of the four tests *)
  Lemma all_inside_true (P : Poly K) (vs : list V) : all_inside P vs = Ok true <-> (forall v, In v vs -> poly_test_point P v = Ok true).
  Proof.
    induction vs as [|v tl IH]; cbn [all_inside]; [split; [intros _ v [] | reflexivity]|].
    destruct (poly_test_point P v) as [b| |] eqn:E; cbn [rbind].
    - destruct b.
      + rewrite IH. split; [intros H w [<-|Hw]; [exact E | apply H, Hw] | intros H w Hw; apply H; right; exact Hw].
      + split; [discriminate|]. intros H. specialize (H v (or_introl eq_refl)). congruence.
    - split; [discriminate|]. intros H. specialize (H v (or_introl eq_refl)). congruence.
    - split; [discriminate|]. intros H. specialize (H v (or_introl eq_refl)). congruence.
  Qed.
  Lemma any_inside_false (h : Loop K) (vs : list V) : any_inside_loop h vs = Ok false <-> (forall v, In v vs -> loop_test_point h v = Ok false).
  Proof.
    induction vs as [|v tl IH]; cbn [any_inside_loop]; [split; [intros _ v [] | reflexivity]|].
    destruct (loop_test_point h v) as [b| |] eqn:E; cbn [rbind].
    - destruct b.
      + split; [discriminate|]. intros H. specialize (H v (or_introl eq_refl)). congruence.
      + rewrite IH. split; [intros H w [<-|Hw]; [exact E | apply H, Hw] | intros H w Hw; apply H; right; exact Hw].
    - split; [discriminate|]. intros H. specialize (H v (or_introl eq_refl)). congruence.
    - split; [discriminate|]. intros H. specialize (H v (or_introl eq_refl)). congruence.
  Qed.
  Lemma encloses_false (hole : Loop K) (hs : list (Loop K)) :
    encloses_any hole hs = Ok false <-> (forall g, In g hs -> forall w, In w (verts g) -> loop_test_point hole w = Ok false).
  Proof.
    induction hs as [|g tl IH]; cbn [encloses_any]; [split; [intros _ g [] | reflexivity]|].
    destruct (any_inside_loop hole (verts g)) as [b| |] eqn:E; cbn [rbind].
    - destruct b.
      + split; [discriminate|]. intros H. assert (E' : any_inside_loop hole (verts g) = Ok false) by (apply any_inside_false; apply H; left; reflexivity). congruence.
      + rewrite IH. pose proof (proj1 (any_inside_false hole (verts g)) E) as E2.
        split; [intros H g' [<-|Hg]; [exact E2 | apply H, Hg] | intros H g' Hg; apply H; right; exact Hg].
    - split; [discriminate|]. intros H. assert (E' : any_inside_loop hole (verts g) = Ok false) by (apply any_inside_false; apply H; left; reflexivity). congruence.
    - split; [discriminate|]. intros H. assert (E' : any_inside_loop hole (verts g) = Ok false) by (apply any_inside_false; apply H; left; reflexivity). congruence.
  Qed.

  Theorem acceptance (P : Poly K) (h : Loop K) :
    (exists P', poly_cut_hole P h = Ok P') <->
    vis_parallel (pnormal P) (lnormal h) = true /\
    (forall v, In v (verts h) -> poly_test_point P v = Ok true) /\
    (forall g, In g (pinner P) -> forall w, In w (verts g) -> loop_test_point h w = Ok false) /\
    lclosed h = true.
  Proof.
    rewrite <- all_inside_true, <- encloses_false. unfold poly_cut_hole.
    destruct (vis_parallel (pnormal P) (lnormal h)); cbn [negb]; [|split; [intros [P' E]; discriminate | intros [E _]; discriminate]].
    destruct (all_inside P (verts h)) as [ins| |]; cbn [rbind]; try (split; [intros [P' E]; discriminate | intros (_ & E & _); discriminate]).
    destruct ins; cbn [negb]; [|split; [intros [P' E]; discriminate | intros (_ & E & _); discriminate]].
    destruct (encloses_any h (pinner P)) as [enc| |]; cbn [rbind]; try (split; [intros [P' E]; discriminate | intros (_ & _ & E & _); discriminate]).
    destruct enc; [split; [intros [P' E]; discriminate | intros (_ & _ & E & _); discriminate]|].
    unfold loop_area. destruct (lclosed h); cbn [rbind]; [|split; [intros [P' E]; discriminate | intros (_ & _ & _ & E); discriminate]].
    split; [intros _; repeat split; reflexivity | intros _; eexists; reflexivity].
  Qed.
End AnyNum.
