(** * C12 proofs, part 3: the REGION theorems -- merging the holes preserves the region.

    [poly_get_closed_loop] processes the holes one at a time: at every stage its own nearest-pair scan chooses
    an attachment vertex [me0] of the CURRENT outline (outer outline + the holes merged so far), a hole [ml]
    and a start vertex [iv'] of that hole; since fix bcb072e the position [me] = [attach_index ..] at which the hole's walk
    is spliced in is the visit of that vertex whose interior angle contains the bridge ([attach_same_vertex],
    [attach_index_cases], [in_cone_orient]); the region identities below hold for any position of the current outline.  [merge_trace] records these
    choices ([mstep]); [apply_steps] replays them; [trace_spec] says that this is [merge_spec], i.e.
    (under [closed_loop_clean]) the vertex list of the code's result.

    Everything that is an "edge functional summed around the outline" -- the winding number about a point
    (Theory/Winding.v [wn]), the planar shoelace area (Theory/Shoelace.v [area2]), the Newell vector of the model
    ([sum_cross], Theory/LoopGeom.v [newell]) -- is additive over a splice, the two bridge edges cancelling
    (Theory/Cyclic.v [csum_bridge]).  Folding this over the trace gives, for ANY number of holes, any vertex
    counts, either stored winding, any start vertex:

        F (merged) = F (outer) - sum over the holes of F (hole oriented like the outer outline)

    Side conditions (both decidable, both evaluated by [vm_compute] on the float instance in Properties/C12_region.v):
    - [closed_loop_clean false P = true] (Model/PolyAux.v; the property's general-position quantifier);
    - [closed_loop_wf P = true] (below): at every stage the attachment index is a position of the current outline,
      the start index is a position of the chosen hole, and no hole is chosen twice.  [scan_ext_cases] /
      [hits_wf] show that this can only fail at a stage whose scan finds NO pair of vertices closer than the value
      the scan starts from.  Since fix f0d596d that value is Float::MAX ([scan_start false] = [nmaxf]), so over the reals
      the condition holds whenever every loop has a vertex and the coordinates are below 2^500 ([within_reach_wf],
      [bounded_coords_wf]).  Before the fix the scan started from 9e14 = (3e7)^2 and a hole farther than 3e7 from every
      vertex of the current outline was never chosen (hole 0 was re-merged instead): [far_holes_pinned_refuted] at the
      end of this file (binary64, pinned merge, a clean run); [far_holes_now_merged] is the same polygon on the live model. *)
From Coq Require Import ZArith Reals Lra Lia Bool List Arith Permutation Floats Psatz.
From G3 Require Import Model.Num Model.NumF Model.Base Model.Vec Model.Segment Model.Loop Model.Polygon Model.PolyAux Theory.RInst Theory.LoopGeom
  Proofs.C10_measures Proofs.C11_cut_hole Proofs.C12_merge Proofs.C12_edge_sum.
From G3 Require Theory.Cyclic Theory.Winding Theory.Shoelace Proofs.C05_pointtest Proofs.C05_winding.
Import ListNotations.

(** ** the trace of the merge *)
Section Trace.
  Context {K : Type} {NK : Num K}.
  Notation V := (V3 K).

  (** one stage: attach hole number [ms_ml] (= [ms_hole]) at position [ms_me] of the current outline, walking it
      from its vertex [ms_id].  [ms_me0] is the position found by the nearest-pair scan; since fix bcb072e the
      attachment position [ms_me] = [attach_index] is the visit of that same vertex whose interior angle contains the
      bridge (it can differ from [ms_me0] when the vertex already carries a bridge). *)
  Record mstep := mkStep { ms_me : nat; ms_ml : nat; ms_hole : Loop K; ms_id : nat; ms_me0 : nat }.
  Definition step_walk (on : V) (s : mstep) : list V :=
    walk_list false (vis_same_direction on (lnormal (ms_hole s))) (verts (ms_hole s)) (ms_id s).
  Fixpoint apply_steps (on : V) (vs : list V) (tr : list mstep) : list V :=
    match tr with
    | [] => vs
    | s :: tl => apply_steps on (splice vs 0 (ms_me s) (step_walk on s)) tl
    end.
  Fixpoint merge_trace (P : Poly K) (count : nat) (vs : list V) (processed : list nat) (il iv_id : nat) : option (list mstep) :=
    match count with
    | O => Some []
    | S c =>
      let '(md, me0, ml, il', iv') := scan_ext vs 0 (pinner P) processed (scan_start false, O, O, il, iv_id) in
      match nth_error (pinner P) ml with
      | None => None
      | Some hole =>
        match attach_index false P vs me0 hole iv' with
        | Ok me =>
          let s := mkStep me ml hole iv' me0 in
          option_map (cons s) (merge_trace P c (splice vs 0 me (step_walk (lnormal (pouter P)) s)) (processed ++ [il']) il' iv')
        | _ => None
        end
      end
    end.
  Definition closed_loop_trace (P : Poly K) : option (list mstep) :=
    merge_trace P (length (pinner P)) (verts (pouter P)) [] 0 0.

  Lemma trace_spec (P : Poly K) : forall count vs processed il iv,
    merge_spec false P count vs processed il iv =
    option_map (apply_steps (lnormal (pouter P)) vs) (merge_trace P count vs processed il iv).
  Proof.
    induction count as [|c IH]; intros vs processed il iv; cbn [merge_spec merge_trace]; [reflexivity|].
    destruct (scan_ext vs 0 (pinner P) processed (scan_start false, 0, 0, il, iv)) as [[[[md me0] ml] il'] iv'].
    destruct (nth_error (pinner P) ml) as [hole|]; [|reflexivity].
    destruct (attach_index false P vs me0 hole iv') as [me| |]; try reflexivity.
    rewrite IH. unfold step_walk at 1. cbn [ms_hole ms_id].
    destruct (merge_trace P c _ (processed ++ [il']) il' iv') as [tr|]; reflexivity.
  Qed.
  Lemma trace_facts (P : Poly K) : forall count vs processed il iv tr,
    merge_trace P count vs processed il iv = Some tr ->
    length tr = count /\ Forall (fun s => nth_error (pinner P) (ms_ml s) = Some (ms_hole s)) tr.
  Proof.
    induction count as [|c IH]; intros vs processed il iv tr; cbn [merge_trace].
    - intros H; injection H as H; subst tr. split; [reflexivity | constructor].
    - destruct (scan_ext vs 0 (pinner P) processed (scan_start false, 0, 0, il, iv)) as [[[[md me0] ml] il'] iv'].
      destruct (nth_error (pinner P) ml) as [hole|] eqn:En; [|discriminate].
      destruct (attach_index false P vs me0 hole iv') as [me| |]; try discriminate.
      destruct (merge_trace P c _ (processed ++ [il']) il' iv') as [tr'|] eqn:Et; [|discriminate].
      cbn [option_map]. intros H; injection H as H; subst tr. destruct (IH _ _ _ _ _ Et) as [Hl Hf].
      split; [cbn [length]; f_equal; exact Hl|]. constructor; [exact En | exact Hf].
  Qed.

  (** the decidable well-formedness of the trace *)
  Fixpoint steps_bounds (on : V) (vs : list V) (tr : list mstep) : bool :=
    match tr with
    | [] => true
    | s :: tl => Nat.ltb (ms_me s) (length vs) && Nat.ltb (ms_id s) (llen (ms_hole s)) &&
                 steps_bounds on (splice vs 0 (ms_me s) (step_walk on s)) tl
    end.
  Fixpoint nodupb (l : list nat) : bool :=
    match l with [] => true | a :: tl => negb (existsb (Nat.eqb a) tl) && nodupb tl end.
  Definition closed_loop_wf (P : Poly K) : bool :=
    match closed_loop_trace P with
    | Some tr => steps_bounds (lnormal (pouter P)) (verts (pouter P)) tr && nodupb (map ms_ml tr)
    | None => false
    end.

  Lemma nodupb_NoDup (l : list nat) : nodupb l = true -> NoDup l.
  Proof.
    induction l as [|a l IH]; cbn [nodupb]; intros H; [constructor|]. apply andb_prop in H. destruct H as [H1 H2].
    constructor; [|apply IH; exact H2]. intros Hin. apply negb_true_iff in H1.
    assert (E : existsb (Nat.eqb a) l = true) by (apply existsb_exists; exists a; split; [exact Hin | apply Nat.eqb_refl]).
    rewrite E in H1. discriminate.
  Qed.

  (** the holes of the trace are the holes of the polygon, each exactly once *)
  Lemma map_nth_seq {A} (d : A) (l : list A) : map (fun k => nth k l d) (seq 0 (length l)) = l.
  Proof.
    induction l as [|a l IH]; [reflexivity|]. cbn [length seq map nth]. f_equal.
    rewrite <- seq_shift, map_map. exact IH.
  Qed.
  Lemma trace_holes_perm (P : Poly K) (tr : list mstep) :
    length tr = length (pinner P) -> Forall (fun s => nth_error (pinner P) (ms_ml s) = Some (ms_hole s)) tr ->
    NoDup (map ms_ml tr) -> Permutation (map ms_hole tr) (pinner P).
  Proof.
    intros Hl Hf Hn.
    assert (Hp : Permutation (map ms_ml tr) (seq 0 (length (pinner P)))).
    { apply NoDup_Permutation_bis; [exact Hn | rewrite seq_length, map_length; lia|].
      intros k Hk. apply in_map_iff in Hk. destruct Hk as [s [Es Is]]. subst k.
      rewrite Forall_forall in Hf. specialize (Hf s Is). apply in_seq. split; [lia|]. cbn.
      apply nth_error_Some. rewrite Hf. discriminate. }
    assert (E : map ms_hole tr = map (fun k => nth k (pinner P) loop_new) (map ms_ml tr)).
    { rewrite map_map. apply map_ext_in. intros s Is. rewrite Forall_forall in Hf. specialize (Hf s Is).
      symmetry. apply nth_error_nth. exact Hf. }
    rewrite E. pose proof (Permutation_map (fun k => nth k (pinner P) loop_new) Hp) as Hq. rewrite map_nth_seq in Hq. exact Hq.
  Qed.

  (** ** every vertex occurs *)
  Lemma In_splice_old (w : list V) (me : nat) (v : V) : forall evs i, In v evs -> In v (splice evs i me w).
  Proof.
    induction evs as [|a evs IH]; intros i H; [destruct H|]. cbn [splice].
    destruct (Nat.eqb i me); destruct H as [H|H].
    - left; exact H.
    - right. apply in_or_app. right. right. apply IH. exact H.
    - left; exact H.
    - right. apply IH. exact H.
  Qed.
  Lemma In_splice_walk (w evs : list V) (me : nat) (v : V) : me < length evs -> In v w -> In v (splice evs 0 me w).
  Proof.
    intros Hme H. rewrite splice_split by exact Hme. apply in_or_app. right. right. apply in_or_app. left. exact H.
  Qed.
  Lemma In_walk (sd : bool) (hvs : list V) (id : nat) (v : V) : id < length hvs -> In v hvs -> In v (walk_list false sd hvs id).
  Proof.
    intros Hid H. destruct sd.
    - rewrite walk_backward by exact Hid. apply in_or_app. left. apply -> in_rev.
      rewrite <- (firstn_skipn (S id) hvs) in H. apply in_app_or in H. apply in_or_app. tauto.
    - rewrite walk_forward by exact Hid. apply in_or_app. left.
      rewrite <- (firstn_skipn id hvs) in H. apply in_app_or in H. apply in_or_app. tauto.
  Qed.
  Lemma In_apply_steps_old (on : V) (v : V) : forall tr vs, In v vs -> In v (apply_steps on vs tr).
  Proof. induction tr as [|s tr IH]; intros vs H; cbn [apply_steps]; [exact H|]. apply IH. apply In_splice_old. exact H. Qed.
  Lemma In_apply_steps_hole (on : V) (v : V) (s : mstep) : forall tr vs, steps_bounds on vs tr = true ->
    In s tr -> In v (verts (ms_hole s)) -> In v (apply_steps on vs tr).
  Proof.
    induction tr as [|s' tr IH]; intros vs Hb Is Iv; [destruct Is|]. cbn [steps_bounds] in Hb. cbn [apply_steps].
    apply andb_prop in Hb. destruct Hb as [Hb Hb3]. apply andb_prop in Hb. destruct Hb as [Hb1 Hb2].
    apply Nat.ltb_lt in Hb1. apply Nat.ltb_lt in Hb2. destruct Is as [Is|Is].
    - subst s'. apply In_apply_steps_old. apply In_splice_walk; [exact Hb1|]. unfold step_walk. apply In_walk; assumption.
    - apply IH; assumption.
  Qed.

  (** ** folding a splice-additive functional over the trace *)
  Definition oriented (on : V) (h : Loop K) : list V := if vis_same_direction on (lnormal h) then verts h else rev (verts h).

  Section Functional.
    Variable G : Type.
    Variables (gadd : G -> G -> G) (gopp : G -> G) (g0 : G).
    Hypothesis gadd_comm : forall x y, gadd x y = gadd y x.
    Hypothesis gadd_assoc : forall x y z, gadd (gadd x y) z = gadd x (gadd y z).
    Hypothesis gadd_0_r : forall x, gadd x g0 = x.
    Hypothesis gopp_opp : forall x, gopp (gopp x) = x.
    Hypothesis gopp_add : forall x y, gopp (gadd x y) = gadd (gopp x) (gopp y).
    Hypothesis gopp_0 : gopp g0 = g0.
    Variable F : list V -> G.
    Hypothesis F_splice : forall (evs hvs : list V) (me id : nat) (sd : bool), me < length evs -> id < length hvs ->
      F (splice evs 0 me (walk_list false sd hvs id)) = gadd (F evs) (if sd then gopp (F hvs) else F hvs).
    Hypothesis F_rev : forall l : list V, F (rev l) = gopp (F l).

    Definition gsum (l : list G) : G := fold_right gadd g0 l.
    Lemma gsum_perm (l l' : list G) : Permutation l l' -> gsum l = gsum l'.
    Proof.
      induction 1 as [|x l l' _ IH|x y l|l l' l'' _ IH1 _ IH2]; unfold gsum in *; cbn [fold_right] in *.
      - reflexivity.
      - rewrite IH. reflexivity.
      - rewrite <- !gadd_assoc, (gadd_comm y x). reflexivity.
      - rewrite IH1. exact IH2.
    Qed.
    Lemma gsum_opp (l : list G) : gsum (map gopp l) = gopp (gsum l).
    Proof. unfold gsum. induction l as [|x l IH]; cbn [map fold_right]; [symmetry; exact gopp_0|]. rewrite IH, gopp_add. reflexivity. Qed.

    Lemma F_steps (on : V) : forall tr vs, steps_bounds on vs tr = true ->
      F (apply_steps on vs tr) = gadd (F vs) (gopp (gsum (map (fun s => F (oriented on (ms_hole s))) tr))).
    Proof.
      induction tr as [|s tr IH]; intros vs Hb; cbn [apply_steps map gsum fold_right].
      - rewrite gopp_0, gadd_0_r. reflexivity.
      - cbn [steps_bounds] in Hb. apply andb_prop in Hb. destruct Hb as [Hb Hb3]. apply andb_prop in Hb. destruct Hb as [Hb1 Hb2].
        apply Nat.ltb_lt in Hb1. apply Nat.ltb_lt in Hb2.
        rewrite IH by exact Hb3. unfold step_walk. rewrite F_splice by assumption.
        fold (gsum (map (fun s => F (oriented on (ms_hole s))) tr)). rewrite gopp_add, gadd_assoc. f_equal. f_equal.
        unfold oriented. destruct (vis_same_direction on (lnormal (ms_hole s))); [reflexivity|]. rewrite F_rev, gopp_opp. reflexivity.
    Qed.

    (** the fold: F(merged) = F(outer) - sum over ALL holes of F(hole oriented like the outer outline) *)
    Theorem F_merged (P : Poly K) :
      closed_loop_clean false P = true -> closed_loop_wf P = true ->
      exists L, poly_get_closed_loop P = Ok L /\
        F (verts L) = gadd (F (verts (pouter P))) (gopp (gsum (map (fun h => F (oriented (lnormal (pouter P)) h)) (pinner P)))).
    Proof.
      intros Hc Hw. destruct (closed_loop_characterised P Hc) as [L [HL Hs]]. exists L. split; [exact HL|].
      unfold closed_loop_spec in Hs. rewrite trace_spec in Hs. unfold closed_loop_wf, closed_loop_trace in Hw.
      destruct (merge_trace P (length (pinner P)) (verts (pouter P)) [] 0 0) as [tr|] eqn:Et; [|discriminate].
      cbn [option_map] in Hs. injection Hs as Hs. rewrite <- Hs.
      apply andb_prop in Hw. destruct Hw as [Hb Hn]. destruct (trace_facts _ _ _ _ _ _ _ Et) as [Hl Hf].
      rewrite (F_steps _ _ _ Hb). f_equal. f_equal.
      rewrite <- (map_map ms_hole (fun h => F (oriented (lnormal (pouter P)) h))).
      apply gsum_perm. apply Permutation_map. apply trace_holes_perm; [exact Hl | exact Hf | apply nodupb_NoDup; exact Hn].
    Qed.
  End Functional.

  (** every vertex of the outer loop and of every hole occurs in the merged outline *)
  Theorem merged_has_every_vertex (P : Poly K) :
    closed_loop_clean false P = true -> closed_loop_wf P = true ->
    exists L, poly_get_closed_loop P = Ok L /\
      (forall v, In v (verts (pouter P)) -> In v (verts L)) /\
      (forall h v, In h (pinner P) -> In v (verts h) -> In v (verts L)).
  Proof.
    intros Hc Hw. destruct (closed_loop_characterised P Hc) as [L [HL Hs]]. exists L. split; [exact HL|].
    unfold closed_loop_spec in Hs. rewrite trace_spec in Hs. unfold closed_loop_wf, closed_loop_trace in Hw.
    destruct (merge_trace P (length (pinner P)) (verts (pouter P)) [] 0 0) as [tr|] eqn:Et; [|discriminate].
    cbn [option_map] in Hs. injection Hs as Hs. rewrite <- Hs.
    apply andb_prop in Hw. destruct Hw as [Hb Hn]. destruct (trace_facts _ _ _ _ _ _ _ Et) as [Hl Hf].
    split; [intros v Hv; apply In_apply_steps_old; exact Hv|].
    intros h v Hh Hv.
    pose proof (trace_holes_perm P tr Hl Hf (nodupb_NoDup _ Hn)) as Hp.
    apply (Permutation_in _ (Permutation_sym Hp)) in Hh. apply in_map_iff in Hh. destruct Hh as [s [Es Is]]. subst h.
    apply (In_apply_steps_hole _ _ s _ _ Hb Is Hv).
  Qed.
  (** the merged outline IS the replay of the trace (one stage per hole, holes looked up in the polygon) *)
  Theorem merged_is_trace (P : Poly K) : closed_loop_clean false P = true ->
    exists L tr, poly_get_closed_loop P = Ok L /\ closed_loop_trace P = Some tr /\
      verts L = apply_steps (lnormal (pouter P)) (verts (pouter P)) tr /\ length tr = length (pinner P) /\
      Forall (fun s => nth_error (pinner P) (ms_ml s) = Some (ms_hole s)) tr.
  Proof.
    intros Hc. destruct (closed_loop_characterised P Hc) as [L [HL Hs]]. exists L.
    unfold closed_loop_spec in Hs. rewrite trace_spec in Hs. unfold closed_loop_trace.
    destruct (merge_trace P (length (pinner P)) (verts (pouter P)) [] 0 0) as [tr|] eqn:Et; [|discriminate].
    cbn [option_map] in Hs. injection Hs as Hs. exists tr. destruct (trace_facts _ _ _ _ _ _ _ Et) as [Hl Hf].
    repeat split; [exact HL | symmetry; exact Hs | exact Hl | exact Hf].
  Qed.
  (** the vertex count: the outer vertices, every hole's vertices, and two more per hole (the return to the hole's
      start vertex and the return to the attachment vertex) *)
  Lemma splice_length (w evs : list V) (me : nat) : me < length evs -> length (splice evs 0 me w) = length evs + length w + 1.
  Proof.
    intros H. rewrite splice_split by exact H. rewrite app_length. cbn [length]. rewrite app_length. cbn [length].
    rewrite firstn_length, skipn_length. lia.
  Qed.
End Trace.
Arguments mstep K : clear implicits.

(** ** the splice identity for the cyclic sums of Theory/Cyclic.v (any ring of values, any antisymmetric edge functional) *)
Section CsumSplice.
  Context {K : Type} {NK : Num K}.
  Notation V := (V3 K).
  Variables (G : Type) (rO rI : G) (radd rmul rsub : G -> G -> G) (ropp : G -> G).
  Hypothesis Gth : ring_theory rO rI radd rmul rsub ropp (@eq G).
  Variable f : V -> V -> G.
  Hypothesis f_anti : forall a b : V, f a b = ropp (f b a).
  Lemma csum_splice (evs hvs : list V) (me id : nat) (sd : bool) : me < length evs -> id < length hvs ->
    Cyclic.csum rO radd f (splice evs 0 me (walk_list false sd hvs id)) =
    radd (Cyclic.csum rO radd f evs) (if sd then ropp (Cyclic.csum rO radd f hvs) else Cyclic.csum rO radd f hvs).
  Proof.
    intros Hme Hid. destruct (bridge_shape evs hvs me id sd Hme Hid) as [hs [E1 E2]]. rewrite E1.
    rewrite (Cyclic.csum_bridge Gth f f_anti). rewrite E2.
    unfold vnth at 1. rewrite <- (skipn_cons_nth evs vzero me Hme), firstn_skipn. f_equal.
    destruct sd.
    - rewrite (Cyclic.csum_rev Gth f f_anti), (Cyclic.csum_rot_app Gth), firstn_skipn. reflexivity.
    - rewrite (Cyclic.csum_rot_app Gth), firstn_skipn. reflexivity.
  Qed.
End CsumSplice.

(** ** the real instance: winding number, planar area, Newell vector, reported area and normal *)
Section Region.
  Local Open Scope R_scope.
  Notation P2 := Winding.P2.

  Definition zsum (l : list Z) : Z := fold_right Z.add 0%Z l.
  Definition rsum (l : list R) : R := fold_right Rplus 0 l.

  (** *** 1. winding number, in the coordinates of ANY map [pr] of the vertices to the plane
      (in particular the plane frame [plane2 o e1 e2] of Proofs/C05_pointtest.v).  No genericity hypothesis on the
      ray is needed: the identity holds edge by edge. *)
  Section Planar.
    Variable pr : V -> P2.
    Definition wn_of (d q : P2) (l : list V) : Z := Winding.wn d (map pr l) q.
    Definition area2_of (l : list V) : R := Shoelace.area2 (map pr l).

    Lemma wn_of_splice (d q : P2) (evs hvs : list V) (me id : nat) (sd : bool) : (me < length evs)%nat -> (id < length hvs)%nat ->
      wn_of d q (splice evs 0 me (walk_list false sd hvs id)) = (wn_of d q evs + (if sd then - wn_of d q hvs else wn_of d q hvs))%Z.
    Proof.
      intros Hme Hid. unfold wn_of, Winding.wn. rewrite !Cyclic.csum_map.
      apply (csum_splice _ _ _ _ _ _ _ InitialRing.Zth); [|exact Hme | exact Hid]. intros a b. apply Winding.crd_antisym.
    Qed.
    Lemma wn_of_rev (d q : P2) (l : list V) : wn_of d q (rev l) = (- wn_of d q l)%Z.
    Proof. unfold wn_of. rewrite map_rev. apply Winding.wn_rev. Qed.
    (** one hole, as walked: the stored hole reversed exactly when the stored normals agree *)
    Theorem wn_one_hole (d q : P2) (on : V) (evs : list V) (hole : Loop R) (me id : nat) :
      (me < length evs)%nat -> (id < llen hole)%nat ->
      let sd := vis_same_direction on (lnormal hole) in
      Winding.wn d (map pr (splice evs 0 me (walk_list false sd (verts hole) id))) q =
      (Winding.wn d (map pr evs) q + Winding.wn d (map pr (if sd then rev (verts hole) else verts hole)) q)%Z /\
      Winding.wn d (map pr (splice evs 0 me (walk_list false sd (verts hole) id))) q =
      (Winding.wn d (map pr evs) q - Winding.wn d (map pr (oriented on hole)) q)%Z.
    Proof.
      intros Hme Hid sd. pose proof (wn_of_splice d q evs (verts hole) me id sd Hme Hid) as H. unfold wn_of in *.
      unfold oriented. fold sd. destruct sd.
      - rewrite map_rev, Winding.wn_rev. split; [exact H | rewrite H; ring].
      - rewrite map_rev, Winding.wn_rev. split; [exact H | rewrite H; ring].
    Qed.
    Theorem wn_merged (P : Poly R) (d q : P2) :
      closed_loop_clean false P = true -> closed_loop_wf P = true ->
      exists L, poly_get_closed_loop P = Ok L /\
        Winding.wn d (map pr (verts L)) q =
        (Winding.wn d (map pr (verts (pouter P))) q -
         zsum (map (fun h => Winding.wn d (map pr (oriented (lnormal (pouter P)) h)) q) (pinner P)))%Z.
    Proof.
      intros Hc Hw.
      destruct (F_merged Z Z.add Z.opp 0%Z Z.add_comm (fun x y z => eq_sym (Z.add_assoc x y z)) Z.add_0_r Z.opp_involutive Z.opp_add_distr eq_refl
                  (wn_of d q) (wn_of_splice d q) (wn_of_rev d q) P Hc Hw) as [L [HL E]].
      exists L. split; [exact HL|]. unfold wn_of in E. rewrite E. unfold zsum, gsum. ring.
    Qed.

    (** region membership: a point in no hole keeps the outline's winding number; a point in exactly one hole
        (winding number 1 about that hole oriented like the outline, 0 about the others) loses 1 *)
    Lemma zsum_zero {A} (f : A -> Z) (l : list A) : (forall x, In x l -> f x = 0%Z) -> zsum (map f l) = 0%Z.
    Proof. induction l as [|a l IH]; intros H; cbn [map zsum fold_right]; [reflexivity|]. fold (zsum (map f l)). rewrite IH by (intros x Hx; apply H; right; exact Hx). rewrite (H a (or_introl eq_refl)). reflexivity. Qed.
    Lemma zsum_app (l1 l2 : list Z) : zsum (l1 ++ l2) = (zsum l1 + zsum l2)%Z.
    Proof. unfold zsum. induction l1 as [|a l1 IH]; cbn [app fold_right]; [reflexivity|]. rewrite IH. ring. Qed.
    Corollary wn_merged_outside_holes (P : Poly R) (d q : P2) :
      closed_loop_clean false P = true -> closed_loop_wf P = true ->
      (forall h, In h (pinner P) -> Winding.wn d (map pr (oriented (lnormal (pouter P)) h)) q = 0%Z) ->
      exists L, poly_get_closed_loop P = Ok L /\ Winding.wn d (map pr (verts L)) q = Winding.wn d (map pr (verts (pouter P))) q.
    Proof.
      intros Hc Hw H0. destruct (wn_merged P d q Hc Hw) as [L [HL E]]. exists L. split; [exact HL|]. rewrite E.
      rewrite (zsum_zero (fun h => Winding.wn d (map pr (oriented (lnormal (pouter P)) h)) q) _ H0). ring.
    Qed.
    Corollary wn_merged_inside_one_hole (P : Poly R) (d q : P2) (l1 l2 : list (Loop R)) (h : Loop R) :
      closed_loop_clean false P = true -> closed_loop_wf P = true -> pinner P = l1 ++ h :: l2 ->
      Winding.wn d (map pr (oriented (lnormal (pouter P)) h)) q = 1%Z ->
      (forall h', In h' (l1 ++ l2) -> Winding.wn d (map pr (oriented (lnormal (pouter P)) h')) q = 0%Z) ->
      exists L, poly_get_closed_loop P = Ok L /\ Winding.wn d (map pr (verts L)) q = (Winding.wn d (map pr (verts (pouter P))) q - 1)%Z.
    Proof.
      intros Hc Hw Hs H1 H0. destruct (wn_merged P d q Hc Hw) as [L [HL E]]. exists L. split; [exact HL|]. rewrite E, Hs.
      rewrite map_app, zsum_app. cbn [map zsum fold_right]. fold (zsum (map (fun h => Winding.wn d (map pr (oriented (lnormal (pouter P)) h)) q) l2)).
      rewrite H1. rewrite !zsum_zero by (intros x Hx; apply H0; apply in_or_app; tauto). ring.
    Qed.

    Lemma area2_of_splice (evs hvs : list V) (me id : nat) (sd : bool) : (me < length evs)%nat -> (id < length hvs)%nat ->
      area2_of (splice evs 0 me (walk_list false sd hvs id)) = area2_of evs + (if sd then - area2_of hvs else area2_of hvs).
    Proof.
      intros Hme Hid. unfold area2_of, Shoelace.area2. rewrite !Cyclic.csum_map.
      rewrite (csum_splice _ _ _ _ _ _ _ RTheory) by (try assumption; intros a b; apply Shoelace.cross2_anti).
      destruct sd; ring.
    Qed.
    Lemma area2_of_rev (l : list V) : area2_of (rev l) = - area2_of l.
    Proof. unfold area2_of. rewrite map_rev. apply Shoelace.area2_rev. Qed.
    Theorem area2_merged (P : Poly R) :
      closed_loop_clean false P = true -> closed_loop_wf P = true ->
      exists L, poly_get_closed_loop P = Ok L /\
        Shoelace.area2 (map pr (verts L)) =
        Shoelace.area2 (map pr (verts (pouter P))) - rsum (map (fun h => Shoelace.area2 (map pr (oriented (lnormal (pouter P)) h))) (pinner P)).
    Proof.
      intros Hc Hw.
      destruct (F_merged R Rplus Ropp 0 Rplus_comm Rplus_assoc Rplus_0_r Ropp_involutive Ropp_plus_distr Ropp_0
                  area2_of area2_of_splice area2_of_rev P Hc Hw) as [L [HL E]].
      exists L. split; [exact HL|]. unfold area2_of in E. rewrite E. unfold rsum, gsum. ring.
    Qed.
  End Planar.

  (** *** 2. the Newell vector of the model ([sum_cross], the numerator of Loop3D::set_area) *)
  Lemma newell_is (vs : list V) : C12_edge_sum.newell vs = LoopGeom.newell vs.
  Proof. unfold C12_edge_sum.newell. apply sum_cross_newell. Qed.
  Lemma vneg_neg (a : V) : vneg (vneg a) = a. Proof. destruct a as [a1 a2 a3]. vring. Qed.
  Lemma newell3_splice (evs hvs : list V) (me id : nat) (sd : bool) : (me < length evs)%nat -> (id < length hvs)%nat ->
    LoopGeom.newell (splice evs 0 me (walk_list false sd hvs id)) =
    vadd (LoopGeom.newell evs) (if sd then vneg (LoopGeom.newell hvs) else LoopGeom.newell hvs).
  Proof.
    intros Hme Hid. rewrite <- !newell_is. destruct (newell_splice evs hvs me id sd Hme Hid) as (Hx & Hy & Hz). cbn zeta in *.
    apply v3_eq; [rewrite Hx | rewrite Hy | rewrite Hz]; destruct sd; unfold vadd, vneg; cbn [vx vy vz]; rnum; ring.
  Qed.
  Theorem newell_one_hole (on : V) (evs : list V) (hole : Loop R) (me id : nat) :
    (me < length evs)%nat -> (id < llen hole)%nat ->
    LoopGeom.newell (splice evs 0 me (walk_list false (vis_same_direction on (lnormal hole)) (verts hole) id)) =
    vadd (LoopGeom.newell evs) (vneg (LoopGeom.newell (oriented on hole))).
  Proof.
    intros Hme Hid. rewrite newell3_splice by assumption. unfold oriented.
    destruct (vis_same_direction on (lnormal hole)); [reflexivity|]. rewrite LoopGeom.newell_rev, vneg_neg. reflexivity.
  Qed.
  Theorem newell_merged (P : Poly R) :
    closed_loop_clean false P = true -> closed_loop_wf P = true ->
    exists L, poly_get_closed_loop P = Ok L /\
      LoopGeom.newell (verts L) =
      vadd (LoopGeom.newell (verts (pouter P))) (vneg (vsum (map (fun h => LoopGeom.newell (oriented (lnormal (pouter P)) h)) (pinner P)))).
  Proof.
    intros Hc Hw.
    exact (F_merged V vadd vneg vzero vadd_comm vadd_assoc vadd_zero_r vneg_neg vneg_add vneg_zero
             LoopGeom.newell newell3_splice LoopGeom.newell_rev P Hc Hw).
  Qed.
End Region.

(** *** 3. net area, reported area and normal of the closed merged outline *)
Section Area.
  Local Open Scope R_scope.

  Lemma ctiny_small : 100 * / IZR (2 ^ 52) < / 2.
  Proof.
    assert (H : 0 < / IZR (2 ^ 52) < / 200).
    { split; [apply Rinv_0_lt_compat; apply IZR_lt; reflexivity|]. apply Rinv_lt_contravar; [|apply IZR_lt; reflexivity].
      apply Rmult_lt_0_compat; [lra | apply IZR_lt; reflexivity]. }
    lra.
  Qed.
  Lemma vis_zero_unit (n : V) : vdot n n = 1 -> vis_zero n = false.
  Proof.
    destruct n as [a b c]. unfold vis_zero, ctiny, vdot. cbn [vx vy vz]. rnum. intros H. pose proof ctiny_small as T.
    set (t := 100 * / IZR (2 ^ 52)) in *.
    rcase (Rabs a) t Ha; cbn [andb]; [|reflexivity]. rcase (Rabs b) t Hb; cbn [andb]; [|reflexivity]. rcase (Rabs c) t Hc; [|reflexivity].
    exfalso. assert (Q : forall x, Rabs x < /2 -> x * x < /4). { intros x Hx. apply Rabs_def2 in Hx. nra. }
    pose proof (Q a ltac:(lra)). pose proof (Q b ltac:(lra)). pose proof (Q c ltac:(lra)). lra.
  Qed.
  (** for a unit vector the code's same-direction test is decisive on n and -n *)
  Lemma same_dir_unit (n : V) : vdot n n = 1 -> vis_same_direction n n = true /\ vis_same_direction n (vneg n) = false.
  Proof.
    intros H. pose proof (vis_zero_unit n H) as Z1.
    assert (H' : vdot (vneg n) (vneg n) = 1) by (rewrite vdot_neg_l, vdot_neg_r; lra).
    pose proof (vis_zero_unit _ H') as Z2.
    unfold vis_same_direction, vis_parallel. rewrite Z1, Z2. cbn [orb].
    assert (L1 : vlen2 n = 1) by exact H. assert (L2 : vlen2 (vneg n) = 1) by exact H'.
    rewrite L1, L2, vdot_neg_r, H. unfold c1em5. rnum.
    replace (1 * 1 - 1 * 1) with 0 by ring. replace (-(1) * -(1) - 1 * 1) with 0 by ring. rewrite Rabs_R0.
    assert (E : Rltb 0 (1 / 100000) = true) by (apply Rltb_true; lra). rewrite E. cbn [negb].
    split; [apply Rltb_true; lra | apply Rltb_false; lra].
  Qed.

  (** what a successful [close] reports, in signed form: area = n . S / 2 with its own (right-hand-rule) normal n *)
  Lemma closed_signed_area (L0 : Loop R) : snd (loop_close L0) = Ok tt ->
    let L := fst (loop_close L0) in
    larea L = vdot (lnormal L) (LoopGeom.newell (verts L)) / 2 /\ 0 <= vdot (lnormal L) (LoopGeom.newell (verts L)).
  Proof.
    intros H. destruct (close_measures L0 H) as (_ & _ & Ha & Hn & Hs & _). cbn zeta in *. split; [|exact Hs].
    rewrite Ha. destruct Hn as [Hn|Hn]; rewrite Hn in *.
    - rewrite Rabs_pos_eq by exact Hs. reflexivity.
    - rewrite vdot_neg_l in Hs. rewrite vdot_neg_l. rewrite Rabs_left1 by lra. reflexivity.
  Qed.

  (** the holes lie in the outline's plane: their stored normals are + or - the outline's (unit) normal; and every
      loop's stored area is n . S / 2 with its OWN stored normal (true of every loop closed by [close]:
      [closed_signed_area]) *)
  Definition planar_normals (P : Poly R) : Prop :=
    forall h, In h (pinner P) -> lnormal h = lnormal (pouter P) \/ lnormal h = vneg (lnormal (pouter P)).
  Definition signed_areas (P : Poly R) : Prop :=
    larea (pouter P) = vdot (lnormal (pouter P)) (LoopGeom.newell (verts (pouter P))) / 2 /\
    forall h, In h (pinner P) -> larea h = vdot (lnormal h) (LoopGeom.newell (verts h)) / 2.

  Lemma oriented_area (n : V) (h : Loop R) : vdot n n = 1 -> (lnormal h = n \/ lnormal h = vneg n) ->
    larea h = vdot (lnormal h) (LoopGeom.newell (verts h)) / 2 -> vdot n (LoopGeom.newell (oriented n h)) = 2 * larea h.
  Proof.
    intros Hu Hn Ha. destruct (same_dir_unit n Hu) as [S1 S2]. unfold oriented. destruct Hn as [Hn|Hn]; rewrite Hn in *.
    - rewrite S1. lra.
    - rewrite S2. rewrite LoopGeom.newell_rev, vdot_neg_r. rewrite vdot_neg_l in Ha. lra.
  Qed.
  Lemma vdot_vsum (n : V) (l : list V) : vdot n (vsum l) = rsum (map (vdot n) l).
  Proof. induction l as [|a l IH]; cbn [vsum fold_right map rsum]; [apply vdot_zero_r|]. fold (vsum l). fold (rsum (map (vdot n) l)). rewrite vdot_add_r, IH. reflexivity. Qed.

  Theorem net_area_merged (P : Poly R) :
    let n := lnormal (pouter P) in
    closed_loop_clean false P = true -> closed_loop_wf P = true ->
    vdot n n = 1 -> planar_normals P -> signed_areas P ->
    exists L, poly_get_closed_loop P = Ok L /\
      vdot n (LoopGeom.newell (verts L)) / 2 = larea (pouter P) - rsum (map larea (pinner P)).
  Proof.
    intros n Hc Hw Hu Hp [Ho Hh]. destruct (newell_merged P Hc Hw) as [L [HL E]]. exists L. split; [exact HL|].
    rewrite E. fold n. rewrite vdot_add_r, vdot_neg_r, vdot_vsum, map_map. fold n in Ho. rewrite Ho.
    assert (Q : forall hs, (forall h, In h hs -> In h (pinner P)) ->
                rsum (map (fun h => vdot n (LoopGeom.newell (oriented n h))) hs) = 2 * rsum (map larea hs)).
    { induction hs as [|h hs IH]; intros Hin; cbn [map rsum fold_right]; [ring|].
      fold (rsum (map (fun h => vdot n (LoopGeom.newell (oriented n h))) hs)). fold (rsum (map larea hs)).
      rewrite IH by (intros h' Hh'; apply Hin; right; exact Hh').
      rewrite (oriented_area n h Hu (Hp h (Hin h (or_introl eq_refl))) (Hh h (Hin h (or_introl eq_refl)))). ring. }
    rewrite (Q (pinner P) (fun h H => H)). lra.
  Qed.

  (** the polygon's own accounting ([cut_hole]: area' = area - hole.area, Proofs/C11_cut_hole.v) in closed form *)
  Lemma sub_areas_rsum (hs : list (Loop R)) : forall a : R, sub_areas a hs = a - rsum (map larea hs).
  Proof.
    unfold sub_areas. induction hs as [|h hs IH]; intros a; cbn [fold_left map rsum fold_right]; [rnum; ring|].
    rewrite IH. fold (rsum (map larea hs)). rnum. ring.
  Qed.
  Lemma built_polygon_accounts (L : Loop R) (P0 : Poly R) (cands : list (Loop R)) : poly_new L = Ok P0 ->
    let P := fst (poly_run P0 cands) in
    parea P = larea (pouter P) - rsum (map larea (pinner P)) /\ pouter P = L /\ pnormal P = lnormal L.
  Proof.
    intros H0 P. destruct (poly_new_spec L P0 H0) as (Eo & Ei & Ea & En).
    destruct (history_accounting cands P0) as (H1 & H2 & H3 & H4 & _). cbn zeta in *. fold P in H1, H2, H3, H4.
    rewrite H1, H2, H3, H4, Ei, Eo, Ea, En. cbn [app]. rewrite sub_areas_rsum. repeat split; reflexivity.
  Qed.

  (** the closed merged loop reports the polygon's net area and the polygon's normal.
      Hypotheses about [close] (stated, not derived): it succeeds, keeps the vertex list (it may drop a collinear
      last or first vertex otherwise), and the merged loop's own normal (set by [push] from its first corner) is
      + or - the plane normal. *)
  Theorem merged_closed_area_normal (P : Poly R) :
    let n := lnormal (pouter P) in
    closed_loop_clean false P = true -> closed_loop_wf P = true ->
    vdot n n = 1 -> planar_normals P -> signed_areas P ->
    parea P = larea (pouter P) - rsum (map larea (pinner P)) ->
    exists L, poly_get_closed_loop P = Ok L /\
      (snd (loop_close L) = Ok tt -> verts (fst (loop_close L)) = verts L -> (lnormal L = n \/ lnormal L = vneg n) ->
       0 <= parea P ->
       larea (fst (loop_close L)) = parea P /\ (0 < parea P -> lnormal (fst (loop_close L)) = n)).
  Proof.
    intros n Hc Hw Hu Hp Hs Ha. destruct (net_area_merged P Hc Hw Hu Hp Hs) as [L [HL E]]. fold n in E. rewrite <- Ha in E.
    exists L. split; [exact HL|]. intros Hcl Hv Hn Hpos.
    destruct (close_measures L Hcl) as (_ & _ & A1 & A2 & A3 & _). cbn zeta in *. rewrite Hv in *.
    set (S := LoopGeom.newell (verts L)) in *. assert (ES : vdot n S = 2 * parea P) by lra.
    assert (N2 : vneg (vneg n) = n) by apply vneg_neg.
    split.
    - rewrite A1. destruct Hn as [Hn|Hn]; rewrite Hn.
      + rewrite ES, Rabs_pos_eq by lra. lra.
      + rewrite vdot_neg_l, ES, Rabs_left1 by lra. lra.
    - intros Hlt. destruct Hn as [Hn|Hn]; destruct A2 as [A2|A2]; rewrite A2, Hn in *; rewrite ?N2; try reflexivity.
      + exfalso. rewrite vdot_neg_l in A3. lra.
      + exfalso. rewrite vdot_neg_l in A3. lra.
  Qed.
End Area.

(** *** with no holes the outline is returned unchanged: same vertex list, hence the same winding numbers, area, Newell vector *)
Theorem no_holes_region {K : Type} {NK : Num K} (P : Poly K) : pinner P = [] ->
  exists L, poly_get_closed_loop P = Ok L /\ verts L = verts (pouter P).
Proof. intros H. exists (loop_open (pouter P)). split; [apply no_holes_unchanged; exact H | reflexivity]. Qed.

(** ** when is the trace well formed?  Whenever every stage's scan finds a pair of vertices closer than the
    value it starts from ([scan_start false] = Float::MAX since fix f0d596d; it was 9e14 = (3e7)^2 before).  A scan that
    finds none keeps its initial state: attachment index 0, hole index 0, the previous start index -- the code then
    merges hole 0 (again); this is what happened on the pinned tree for holes farther than 3e7 from the outline. *)
Section ScanFacts.
  Context {K : Type} {NK : Num K}.
  Notation V := (V3 K).
  Local Open Scope num_scope.

  Lemma siv_cases (ev : V) (j k : nat) : forall (ivs : list V) (l : nat) (st : Sst),
    scan_inner_vertices ev j k ivs l st = st \/
    exists d l', scan_inner_vertices ev j k ivs l st = (d, j, k, k, l') /\ l <= l' < l + length ivs.
  Proof.
    induction ivs as [|iv tl IH]; intros l st; cbn [scan_inner_vertices]; [left; reflexivity|].
    destruct st as [[[[md me] ml] il] iv_id].
    set (st1 := if psqdist ev iv <? md then (psqdist ev iv, j, k, k, l) else (md, me, ml, il, iv_id)).
    destruct (IH (S l) st1) as [E|[d [l' [E Hl]]]].
    - rewrite E. unfold st1. destruct (psqdist ev iv <? md); [|left; reflexivity].
      right. exists (psqdist ev iv), l. split; [reflexivity | cbn [length]; lia].
    - right. exists d, l'. split; [exact E | cbn [length]; lia].
  Qed.
  Lemma sil_cases (ev : V) (j : nat) (processed : list nat) : forall (hs : list (Loop K)) (k : nat) (st : Sst),
    scan_inner_loops ev j hs k processed st = st \/
    exists d k' l' h, scan_inner_loops ev j hs k processed st = (d, j, k', k', l') /\ k <= k' /\
      nth_error hs (k' - k) = Some h /\ l' < llen h /\ existsb (Nat.eqb k') processed = false.
  Proof.
    induction hs as [|h tl IH]; intros k st; cbn [scan_inner_loops]; [left; reflexivity|].
    set (st1 := if existsb (Nat.eqb k) processed then st else scan_inner_vertices ev j k (verts h) 0 st).
    destruct (IH (S k) st1) as [E|[d [k' [l' [h' [E [Hk [Hn [Hl Hp]]]]]]]]].
    - rewrite E. unfold st1. destruct (existsb (Nat.eqb k) processed) eqn:Ep; [left; reflexivity|].
      destruct (siv_cases ev j k (verts h) 0 st) as [E1|[d [l' [E1 Hl]]]]; [left; exact E1|].
      right. exists d, k, l', h. rewrite Nat.sub_diag. split; [exact E1|]. split; [lia|]. split; [reflexivity|]. split; [unfold llen; lia | exact Ep].
    - right. exists d, k', l', h'. replace (k' - k)%nat with (S (k' - S k))%nat by lia. cbn [nth_error]. split; [exact E|]. split; [lia|]. split; [exact Hn|]. split; [exact Hl | exact Hp].
  Qed.
  Lemma scan_ext_cases (hs : list (Loop K)) (processed : list nat) : forall (evs : list V) (j : nat) (st : Sst),
    scan_ext evs j hs processed st = st \/
    exists d j' k' l' h, scan_ext evs j hs processed st = (d, j', k', k', l') /\ j <= j' < j + length evs /\
      nth_error hs k' = Some h /\ l' < llen h /\ existsb (Nat.eqb k') processed = false.
  Proof.
    induction evs as [|ev tl IH]; intros j st; cbn [scan_ext]; [left; reflexivity|].
    destruct (IH (S j) (scan_inner_loops ev j hs 0 processed st)) as [E|[d [j' [k' [l' [h [E [Hj [Hn [Hl Hp]]]]]]]]]].
    - rewrite E. destruct (sil_cases ev j processed hs 0 st) as [E1|[d [k' [l' [h [E1 [Hk [Hn [Hl Hp]]]]]]]]]; [left; exact E1|].
      right. exists d, j, k', l', h. rewrite Nat.sub_0_r in Hn. split; [exact E1|]. split; [cbn [length]; lia|]. split; [exact Hn|]. split; [exact Hl | exact Hp].
    - right. exists d, j', k', l', h. split; [exact E|]. split; [cbn [length]; lia|]. split; [exact Hn|]. split; [exact Hl | exact Hp].
  Qed.

  (** *** the attachment position (fix bcb072e): a visit of the same vertex (up to Point3D::compare) whose interior angle,
      for the outer normal, contains the bridge; the scan's own position when there is none (or for a single hole) *)
  Lemma find_visit_spec (n e h : V) (vs : list V) (len : nat) : forall cnt j r, find_visit n e h vs len j cnt = Some r ->
    (j <= r < j + cnt)%nat /\ vcompare (vnth vs r) e = true /\
    in_cone n e (vnth vs (Nat.modulo (r + len - 1) len)) (vnth vs (Nat.modulo (r + 1) len)) h = true.
  Proof.
    induction cnt as [|c IH]; intros j r; cbn [find_visit]; [discriminate|].
    destruct (vcompare (vnth vs j) e && in_cone n e (vnth vs (Nat.modulo (j + len - 1) len)) (vnth vs (Nat.modulo (j + 1) len)) h) eqn:E.
    - intros H. injection H as H. subst r. apply andb_prop in E. destruct E as [E1 E2]. split; [lia|]. split; assumption.
    - intros H. destruct (IH _ _ H) as [Hr Hs]. split; [lia | exact Hs].
  Qed.
  Lemma attach_index_cases (P : Poly K) (vs : list V) (me0 : nat) (hole : Loop K) (iv me : nat) :
    attach_index false P vs me0 hole iv = Ok me ->
    me = me0 \/
    ((me < length vs)%nat /\ (me0 < length vs)%nat /\ (iv < llen hole)%nat /\ (1 < length (pinner P))%nat /\
     vcompare (vnth vs me) (vnth vs me0) = true /\
     in_cone (lnormal (pouter P)) (vnth vs me0) (vnth vs (Nat.modulo (me + length vs - 1) (length vs)))
             (vnth vs (Nat.modulo (me + 1) (length vs))) (vnth (verts hole) iv) = true).
  Proof.
    unfold attach_index. destruct (Nat.ltb 1 (length (pinner P)) && Nat.ltb iv (llen hole)) eqn:Eb; [|intros H; injection H as H; left; symmetry; exact H].
    apply andb_prop in Eb. destruct Eb as [E1 E2]. apply Nat.ltb_lt in E1. apply Nat.ltb_lt in E2.
    destruct (Nat.leb (length vs) me0) eqn:El; [discriminate|]. apply Nat.leb_gt in El.
    destruct (find_visit _ _ _ vs (length vs) 0 (length vs)) as [j|] eqn:Ef; intros H; injection H as H; subst me; [|left; reflexivity].
    destruct (find_visit_spec _ _ _ _ _ _ _ _ Ef) as [Hr [Hc Hi]]. right. repeat split; try assumption; lia.
  Qed.
  Lemma attach_index_lt (P : Poly K) (vs : list V) (me0 : nat) (hole : Loop K) (iv me : nat) :
    attach_index false P vs me0 hole iv = Ok me -> (me0 < length vs)%nat -> (me < length vs)%nat.
  Proof. intros H H0. destruct (attach_index_cases _ _ _ _ _ _ H) as [E|[E _]]; [subst; exact H0 | exact E]. Qed.
  Lemma attach_index_ok (P : Poly K) (vs : list V) (me0 : nat) (hole : Loop K) (iv : nat) :
    (me0 < length vs)%nat -> exists me, attach_index false P vs me0 hole iv = Ok me.
  Proof.
    intros H. unfold attach_index. destruct (Nat.ltb 1 (length (pinner P)) && Nat.ltb iv (llen hole)); [|eexists; reflexivity].
    assert (E : Nat.leb (length vs) me0 = false) by (apply Nat.leb_gt; exact H). rewrite E.
    destruct (find_visit _ _ _ vs (length vs) 0 (length vs)); eexists; reflexivity.
  Qed.
  (** what the fix is for, part 1: the chosen position is a visit of the SAME vertex, so the bridge still joins the nearest pair *)
  Theorem attach_same_vertex (P : Poly K) (vs : list V) (me0 : nat) (hole : Loop K) (iv me : nat) :
    attach_index false P vs me0 hole iv = Ok me -> vcompare (vnth vs me) (vnth vs me0) = true \/ me = me0.
  Proof. intros H. destruct (attach_index_cases _ _ _ _ _ _ H) as [E|(_ & _ & _ & _ & E & _)]; [right; exact E | left; exact E]. Qed.

  (** every stage hits: the minimum found is below the initial constant *)
  Fixpoint merge_hits (P : Poly K) (count : nat) (vs : list V) (processed : list nat) (il iv_id : nat) : bool :=
    match count with
    | O => true
    | S c =>
      let '(md, me0, ml, il', iv') := scan_ext vs 0 (pinner P) processed (scan_start false, O, O, il, iv_id) in
      (md <? scan_start false) &&
      match nth_error (pinner P) ml with
      | None => false
      | Some hole =>
        match attach_index false P vs me0 hole iv' with
        | Ok me =>
          merge_hits P c (splice vs 0 me (walk_list false (vis_same_direction (lnormal (pouter P)) (lnormal hole)) (verts hole) iv')) (processed ++ [il']) il' iv'
        | _ => false
        end
      end
    end.
  Definition closed_loop_hits (P : Poly K) : bool := merge_hits P (length (pinner P)) (verts (pouter P)) [] 0 0.

  Hypothesis lt_irrefl : ((scan_start false : K) <? scan_start false) = false.

  Lemma existsb_app_false (x : nat) (l1 l2 : list nat) : existsb (Nat.eqb x) (l1 ++ l2) = false ->
    existsb (Nat.eqb x) l1 = false /\ existsb (Nat.eqb x) l2 = false.
  Proof. rewrite existsb_app. apply orb_false_elim. Qed.

  Lemma merge_hits_wf (P : Poly K) : forall count vs processed il iv,
    merge_hits P count vs processed il iv = true ->
    exists tr, merge_trace P count vs processed il iv = Some tr /\
      steps_bounds (lnormal (pouter P)) vs tr = true /\ nodupb (map ms_ml tr) = true /\
      (forall s, In s tr -> existsb (Nat.eqb (ms_ml s)) processed = false).
  Proof.
    induction count as [|c IH]; intros vs processed il iv; cbn [merge_hits merge_trace].
    - intros _. exists []. repeat split. intros s [].
    - destruct (scan_ext_cases (pinner P) processed vs 0 (scan_start false, 0, 0, il, iv)) as [E|[d [j' [k' [l' [h [E [Hj [Hn [Hl Hp]]]]]]]]]]; rewrite E.
      + rewrite lt_irrefl. discriminate.
      + rewrite Hn. destruct (attach_index false P vs j' h l') as [me| |] eqn:Ea; try (rewrite andb_false_r; discriminate).
        assert (Hme : (me < length vs)%nat) by (apply (attach_index_lt _ _ _ _ _ _ Ea); lia).
        intros H. apply andb_prop in H. destruct H as [_ H].
        destruct (IH _ _ _ _ H) as [tr [Et [Hb [Hd Hq]]]]. unfold step_walk at 1. cbn [ms_hole ms_id]. rewrite Et. cbn [option_map].
        eexists. split; [reflexivity|]. cbn [steps_bounds map nodupb ms_me ms_id ms_hole ms_ml]. repeat split.
        * assert (E1 : Nat.ltb me (length vs) = true) by (apply Nat.ltb_lt; exact Hme).
          assert (E2 : Nat.ltb l' (llen h) = true) by (apply Nat.ltb_lt; exact Hl).
          rewrite E1, E2. cbn [andb]. exact Hb.
        * rewrite Hd, andb_true_r. apply negb_true_iff.
          destruct (existsb (Nat.eqb k') (map ms_ml tr)) eqn:Ex; [|reflexivity]. exfalso.
          apply existsb_exists in Ex. destruct Ex as [x [Ix Ex]]. apply Nat.eqb_eq in Ex. subst x.
          apply in_map_iff in Ix. destruct Ix as [s [Es Is]]. specialize (Hq s Is). rewrite Es in Hq.
          destruct (existsb_app_false _ _ _ Hq) as [_ Hq2]. cbn [existsb] in Hq2. rewrite Nat.eqb_refl in Hq2. discriminate.
        * intros s [Es|Is]; [subst s; exact Hp|]. specialize (Hq s Is). exact (proj1 (existsb_app_false _ _ _ Hq)).
  Qed.
  Theorem hits_wf (P : Poly K) : closed_loop_hits P = true -> closed_loop_wf P = true.
  Proof.
    intros H. destruct (merge_hits_wf P _ _ _ _ _ H) as [tr [Et [Hb [Hd _]]]].
    unfold closed_loop_wf, closed_loop_trace. rewrite Et, Hb, Hd. reflexivity.
  Qed.
End ScanFacts.

(** on the reals: [Float::MAX < Float::MAX] is false *)
Theorem hits_wf_R (P : Poly R) : closed_loop_hits P = true -> closed_loop_wf P = true.
Proof. apply hits_wf. apply Rltb_false. apply Rle_refl. Qed.

(** ** what the fix is for, part 2 (reals): the cone test of [attach_index] in the 2-D coordinates of the plane.
    With n = e1 x e2 and p' = [plane2 o e1 e2 p]:  [in_cone n e prev next h] holds iff
    - the corner (prev, e, next) is convex or straight for n ([orient e' next' prev' >= 0]) and the bridge direction e -> h lies
      STRICTLY inside the interior angle, i.e. strictly left of e -> next and strictly right of e -> prev; or
    - the corner is reflex and h does not lie in the closed exterior angle (between e -> prev and e -> next). *)
Section ConeR.
  Local Open Scope R_scope.
  Lemma vdot_comm (a b : V) : vdot a b = vdot b a. Proof. vunf. rnum. ring. Qed.
  Lemma cross_dot_orient (o e1 e2 e a b : V) :
    vdot (vcross (vsub a e) (vsub b e)) (vcross e1 e2) =
    Winding.orient (C05_pointtest.plane2 o e1 e2 e) (C05_pointtest.plane2 o e1 e2 a) (C05_pointtest.plane2 o e1 e2 b).
  Proof.
    rewrite vdot_comm, C05_pointtest.binet_cauchy, !(C05_pointtest.planev_sub o). rewrite <- C05_winding.orient2_is_orient. reflexivity.
  Qed.
  Lemma in_cone_orient_b (o e1 e2 e prev next h : V) :
    let O := fun a b => Winding.orient (C05_pointtest.plane2 o e1 e2 e) (C05_pointtest.plane2 o e1 e2 a) (C05_pointtest.plane2 o e1 e2 b) in
    in_cone (vcross e1 e2) e prev next h =
    if Rleb 0 (O next prev) then Rltb 0 (O next h) && Rltb 0 (O h prev) else negb (Rleb 0 (O prev h) && Rleb 0 (O h next)).
  Proof. cbn zeta. unfold in_cone. rewrite !(cross_dot_orient o). rnum. reflexivity. Qed.
  Theorem in_cone_orient (o e1 e2 e prev next h : V) :
    let O := fun a b => Winding.orient (C05_pointtest.plane2 o e1 e2 e) (C05_pointtest.plane2 o e1 e2 a) (C05_pointtest.plane2 o e1 e2 b) in
    in_cone (vcross e1 e2) e prev next h = true <->
    (0 <= O next prev /\ 0 < O next h /\ 0 < O h prev) \/ (O next prev < 0 /\ ~ (0 <= O prev h /\ 0 <= O h next)).
  Proof.
    cbn zeta. rewrite (in_cone_orient_b o). cbn zeta.
    set (x := Winding.orient _ (C05_pointtest.plane2 o e1 e2 next) (C05_pointtest.plane2 o e1 e2 prev)).
    set (y := Winding.orient _ (C05_pointtest.plane2 o e1 e2 next) (C05_pointtest.plane2 o e1 e2 h)).
    set (z := Winding.orient _ (C05_pointtest.plane2 o e1 e2 h) (C05_pointtest.plane2 o e1 e2 prev)).
    set (u := Winding.orient _ (C05_pointtest.plane2 o e1 e2 prev) (C05_pointtest.plane2 o e1 e2 h)).
    set (w := Winding.orient _ (C05_pointtest.plane2 o e1 e2 h) (C05_pointtest.plane2 o e1 e2 next)).
    destruct (Rleb 0 x) eqn:Ex; [apply Rleb_true in Ex | apply Rleb_false in Ex].
    - rewrite andb_true_iff, !Rltb_true. split; [intros [H1 H2]; left; repeat split; assumption | intros [[_ H]|[H _]]; [exact H | lra]].
    - rewrite negb_true_iff, andb_false_iff, !Rleb_false. split.
      + intros H. right. split; [exact Ex|]. intros [H1 H2]. destruct H; lra.
      + intros [[H _]|[_ H]]; [lra|]. destruct (Rlt_le_dec u 0) as [Hu|Hu]; [left; exact Hu|]. destruct (Rlt_le_dec w 0) as [Hw|Hw]; [right; exact Hw|].
        exfalso. apply H. split; assumption.
  Qed.
End ConeR.

(** ** no new vertices, and the merged loop's own normal *)
Section MergedNormal.
  Context {K : Type} {NK : Num K}.
  Notation V := (V3 K).

  Definition poly_verts (P : Poly K) : list V := verts (pouter P) ++ flat_map (@verts K) (pinner P).

  Lemma In_splice_inv (w : list V) (me : nat) (v : V) : forall evs i, In v (splice evs i me w) -> In v evs \/ In v w.
  Proof.
    induction evs as [|a evs IH]; intros i H; [destruct H|]. cbn [splice] in H. destruct (Nat.eqb i me).
    - destruct H as [H|H]; [left; left; exact H|]. apply in_app_or in H. destruct H as [H|[H|H]]; [right; exact H | left; left; exact H|].
      destruct (IH _ H); [left; right; assumption | right; assumption].
    - destruct H as [H|H]; [left; left; exact H|]. destruct (IH _ H); [left; right; assumption | right; assumption].
  Qed.
  Lemma In_walk_inv (sd : bool) (hvs : list V) (id : nat) (v : V) : hvs <> [] -> In v (walk_list false sd hvs id) -> In v hvs.
  Proof.
    intros Hne H. unfold walk_list in H. apply in_map_iff in H. destruct H as [t [E _]]. subst v.
    unfold vnth. apply nth_In. apply hole_index_lt. destruct hvs; [contradiction | discriminate].
  Qed.
  Lemma In_apply_steps_inv (on : V) (v : V) : forall tr vs, Forall (fun s => verts (ms_hole s) <> []) tr ->
    In v (apply_steps on vs tr) -> In v vs \/ exists s, In s tr /\ In v (verts (ms_hole s)).
  Proof.
    induction tr as [|s tr IH]; intros vs Hf H; cbn [apply_steps] in H; [left; exact H|].
    inversion Hf as [|s' tr' Hs Hf']; subst. destruct (IH _ Hf' H) as [H1|[s1 [I1 H1]]].
    - apply In_splice_inv in H1. destruct H1 as [H1|H1]; [left; exact H1|]. right. exists s. split; [left; reflexivity|].
      unfold step_walk in H1. apply In_walk_inv in H1; assumption.
    - right. exists s1. split; [right; exact I1 | exact H1].
  Qed.
  (** a clean run only merges holes that have a vertex *)
  Lemma clean_trace_nonempty : forall count (P : Poly K) (ret : Loop K) processed il iv tr,
    merge_clean false P count ret processed il iv = true ->
    merge_trace P count (verts ret) processed il iv = Some tr -> Forall (fun s => verts (ms_hole s) <> []) tr.
  Proof.
    induction count as [|c IH]; intros P ret processed il iv tr; cbn [merge_clean merge_trace].
    - intros _ H. injection H as H. subst tr. constructor.
    - destruct (scan_ext (verts ret) 0 (pinner P) processed (scan_start false, 0, 0, il, iv)) as [[[[md me0] ml] il'] iv'].
      destruct (nth_error (pinner P) ml) as [hole|]; [|discriminate].
      destruct (Nat.eqb (llen hole) 0) eqn:En; [discriminate|]. cbn [negb andb]. apply Nat.eqb_neq in En.
      destruct (attach_index false P (verts ret) me0 hole iv') as [me| |]; try discriminate. cbn [rbind].
      destruct (rebuild false (lnormal (pouter P)) (verts ret) 0 me hole iv' loop_new) as [aux| |] eqn:Er; try discriminate.
      intros H. apply andb_prop in H. destruct H as [Hl Hc]. apply Nat.eqb_eq in Hl.
      rewrite rebuild_is_push_seq in Er by exact En. destruct (push_seq_len _ _ _ _ Er) as [_ Hv]. cbn [llen verts loop_new length] in Hv.
      specialize (Hv Hl). cbn [app] in Hv. unfold step_walk. cbn [ms_hole ms_id]. rewrite <- Hv.
      destruct (merge_trace P c (verts aux) (processed ++ [il']) il' iv') as [tr'|] eqn:Et; [|discriminate].
      cbn [option_map]. intros H. injection H as H. subst tr. constructor; [|apply (IH _ _ _ _ _ _ Hc Et)].
      cbn [ms_hole]. intros C. apply En. unfold llen. rewrite C. reflexivity.
  Qed.
  Theorem merged_no_new_vertex (P : Poly K) : closed_loop_clean false P = true ->
    exists L, poly_get_closed_loop P = Ok L /\ forall v, In v (verts L) -> In v (poly_verts P).
  Proof.
    intros Hc. destruct (merged_is_trace P Hc) as [L [tr [HL [Et [Ev [_ Hf]]]]]]. exists L. split; [exact HL|].
    intros v Hv. rewrite Ev in Hv.
    pose proof (clean_trace_nonempty _ P (loop_open (pouter P)) [] 0 0 tr Hc Et) as Hne.
    unfold poly_verts. apply in_or_app. destruct (In_apply_steps_inv _ _ _ _ Hne Hv) as [H|[s [Is H]]]; [left; exact H|].
    right. apply in_flat_map. exists (ms_hole s). split; [|exact H].
    rewrite Forall_forall in Hf. exact (nth_error_In _ _ (Hf s Is)).
  Qed.

  (** the normal of a loop built by pushes: set once, from the first corner, when the third vertex arrives *)
  Definition corner_normal (vs : list V) : V :=
    match vs with a :: b :: c :: _ => vnormalize (vcross (vsub b a) (vsub c b)) | _ => vzero end.
  Lemma corner_normal_app (l r : list V) : 3 <= length l -> corner_normal (l ++ r) = corner_normal l.
  Proof. destruct l as [|a [|b [|c l]]]; cbn [length]; intros H; try lia. reflexivity. Qed.
  Lemma set_normal_is (L L' : Loop K) : loop_set_normal L = Ok L' -> lnormal L' = corner_normal (verts L) /\ verts L' = verts L.
  Proof. unfold loop_set_normal. destruct (verts L) as [|a [|b [|c l]]] eqn:E; try discriminate. intros H; inversion H; subst. cbn. split; [reflexivity | exact E]. Qed.
  Lemma push_normal (L L' : Loop K) (p : V) : loop_push L p = Ok L' ->
    lnormal L' = if Nat.eqb (llen L') 3 then corner_normal (verts L') else if Nat.ltb (llen L') 3 then vzero else lnormal L.
  Proof.
    unfold loop_push. destruct (valid_to_add L p); cbn [rbind]; try discriminate.
    match goal with |- rbind ?r _ = _ -> _ => destruct r as [vs| |] end; cbn [rbind]; try discriminate.
    destruct (Nat.eqb (length vs) 3) eqn:E3; intros H.
    - apply set_normal_is in H. cbn [set_verts verts] in H. destruct H as [Hn Hv]. unfold llen. rewrite Hv, E3, Hn. reflexivity.
    - destruct (Nat.ltb (length vs) 3) eqn:E4; inversion H; subst; unfold llen; cbn [set_verts set_normal_field verts lnormal]; rewrite E3, E4; reflexivity.
  Qed.
  (** (since the fix of push/close the cached normal is reset to zero whenever fewer than three vertices are left:
      the loop pushed onto must satisfy that too, as every loop built from [loop_new] does) *)
  Lemma push_seq_normal (s : N) : forall (ps : list V) (L L' : Loop K), push_seq s L ps = Ok L' -> llen L' = llen L + length ps ->
    (llen L < 3 -> lnormal L = vzero) ->
    lnormal L' = if Nat.leb 3 (llen L) then lnormal L else if Nat.leb 3 (llen L') then corner_normal (verts L') else lnormal L.
  Proof.
    induction ps as [|p tl IH]; intros L L'; cbn [push_seq length].
    - intros H _ _. inversion H; subst. destruct (Nat.leb 3 (llen L')); reflexivity.
    - destruct (unwrap s (loop_push L p)) as [L1| |] eqn:E; cbn [rbind]; try discriminate. apply unwrap_ok in E. intros H Hlen Hz.
      destruct (push_len _ _ _ E) as (H1 & H2 & H3). destruct (push_seq_len _ _ _ _ H) as (I1 & I2).
      assert (E1 : llen L1 = S (llen L)) by lia. assert (E2 : llen L' = llen L1 + length tl) by lia.
      assert (Hz1 : llen L1 < 3 -> lnormal L1 = vzero).
      { intros Hlt. rewrite (push_normal _ _ _ E). assert (C : Nat.eqb (llen L1) 3 = false) by (apply Nat.eqb_neq; lia). rewrite C.
        assert (D : Nat.ltb (llen L1) 3 = true) by (apply Nat.ltb_lt; lia). rewrite D. reflexivity. }
      rewrite (IH _ _ H E2 Hz1). rewrite (push_normal _ _ _ E). rewrite E1.
      destruct (Nat.leb_spec 3 (llen L)) as [A|A].
      + assert (B : Nat.leb 3 (S (llen L)) = true) by (apply Nat.leb_le; lia). rewrite B.
        assert (C : Nat.eqb (S (llen L)) 3 = false) by (apply Nat.eqb_neq; lia). rewrite C.
        assert (D : Nat.ltb (S (llen L)) 3 = false) by (apply Nat.ltb_ge; lia). rewrite D. reflexivity.
      + destruct (Nat.eqb_spec (S (llen L)) 3) as [C|C].
        * assert (B : Nat.leb 3 (S (llen L)) = true) by (apply Nat.leb_le; lia). rewrite B.
          assert (D : Nat.leb 3 (llen L') = true) by (apply Nat.leb_le; lia). rewrite D.
          rewrite (I2 E2). symmetry. apply corner_normal_app. fold (llen L1). lia.
        * assert (B : Nat.leb 3 (S (llen L)) = false) by (apply Nat.leb_gt; lia). rewrite B.
          assert (D : Nat.ltb (S (llen L)) 3 = true) by (apply Nat.ltb_lt; lia). rewrite D. rewrite (Hz A). reflexivity.
  Qed.
  Lemma merge_normal : forall count (P : Poly K) (ret : Loop K) processed il iv (L : Loop K),
    merge_clean false P count ret processed il iv = true -> merge_holes false P count ret processed il iv = Ok L ->
    (count = 0 /\ L = ret) \/ lnormal L = (if Nat.leb 3 (llen L) then corner_normal (verts L) else vzero).
  Proof.
    induction count as [|c IH]; intros P ret processed il iv L; cbn [merge_clean merge_holes].
    - intros _ H. inversion H; subst. left. split; reflexivity.
    - destruct (scan_ext (verts ret) 0 (pinner P) processed (scan_start false, 0, 0, il, iv)) as [[[[md me0] ml] il'] iv'].
      destruct (nth_error (pinner P) ml) as [hole|]; [|discriminate].
      destruct (Nat.eqb (llen hole) 0) eqn:En; [discriminate|]. cbn [negb andb]. apply Nat.eqb_neq in En.
      destruct (attach_index false P (verts ret) me0 hole iv') as [me| |]; try discriminate. cbn [rbind].
      destruct (rebuild false (lnormal (pouter P)) (verts ret) 0 me hole iv' loop_new) as [aux| |] eqn:Er; try discriminate.
      cbn [rbind]. intros H HL. apply andb_prop in H. destruct H as [Hl Hc]. apply Nat.eqb_eq in Hl.
      rewrite rebuild_is_push_seq in Er by exact En.
      pose proof (push_seq_normal _ _ _ _ Er) as Hn. cbn [llen verts loop_new length lnormal Nat.leb] in Hn. specialize (Hn Hl (fun _ => eq_refl)).
      right. destruct (IH _ _ _ _ _ _ Hc HL) as [[_ E]|E]; [subst L; exact Hn | exact E].
  Qed.
  Theorem merged_normal_is_corner (P : Poly K) (L : Loop K) : closed_loop_clean false P = true -> poly_get_closed_loop P = Ok L ->
    (pinner P = [] /\ lnormal L = lnormal (pouter P)) \/ lnormal L = (if Nat.leb 3 (llen L) then corner_normal (verts L) else vzero).
  Proof.
    intros Hc HL. destruct (merge_normal _ _ _ _ _ _ _ Hc HL) as [[E1 E2]|E]; [left | right; exact E].
    split; [destruct (pinner P); [reflexivity | discriminate] | subst L; reflexivity].
  Qed.
End MergedNormal.

(** ** (reals) for a planar polygon the merged loop's own normal is + or - the plane normal *)
Section MergedNormalR.
  Local Open Scope R_scope.
  Lemma cross_in_plane (n u w : V) : vdot n n = 1 -> vdot n u = 0 -> vdot n w = 0 ->
    vcross u w = vscale n (vdot n (vcross u w)).
  Proof.
    destruct n as [n1 n2 n3], u as [u1 u2 u3], w as [w1 w2 w3]. vunf. rnum. intros Hn Hu Hw.
    (* N X - (n.X) n = - n x (n x X),  n x (u x w) = u (n.w) - w (n.u) *)
    set (N := n1 * n1 + n2 * n2 + n3 * n3) in *. set (U := n1 * u1 + n2 * u2 + n3 * u3) in *. set (W := n1 * w1 + n2 * w2 + n3 * w3) in *.
    set (X1 := u2 * w3 - u3 * w2). set (X2 := u3 * w1 - u1 * w3). set (X3 := u1 * w2 - u2 * w1).
    apply v3_eq; cbn [vx vy vz].
    - assert (E : X1 - n1 * (n1 * X1 + n2 * X2 + n3 * X3) = (1 - N) * X1 - (n2 * u3 - n3 * u2) * W + (n2 * w3 - n3 * w2) * U) by (unfold N, U, W, X1, X2, X3; ring).
      rewrite Hn, Hu, Hw in E. lra.
    - assert (E : X2 - n2 * (n1 * X1 + n2 * X2 + n3 * X3) = (1 - N) * X2 - (n3 * u1 - n1 * u3) * W + (n3 * w1 - n1 * w3) * U) by (unfold N, U, W, X1, X2, X3; ring).
      rewrite Hn, Hu, Hw in E. lra.
    - assert (E : X3 - n3 * (n1 * X1 + n2 * X2 + n3 * X3) = (1 - N) * X3 - (n1 * u2 - n2 * u1) * W + (n1 * w2 - n2 * w1) * U) by (unfold N, U, W, X1, X2, X3; ring).
      rewrite Hn, Hu, Hw in E. lra.
  Qed.
  Lemma vnormalize_scale_unit (n : V) (k : R) : vdot n n = 1 ->
    vnormalize (vscale n k) = if Rltb 0 k then n else if Rltb k 0 then vneg n else vzero.
  Proof.
    destruct n as [a b c]. intros Hu. unfold vnormalize, vlen, vlen2, vscale, vdot in *. cbn [vx vy vz] in *. rnum.
    replace (a * k * (a * k) + b * k * (b * k) + c * k * (c * k)) with (k * k * (a * a + b * b + c * c)) by ring.
    rewrite Hu, Rmult_1_r.
    rcase 0 k Hp.
    - rewrite sqrt_square by lra. apply v3_eq; cbn [vx vy vz]; field; lra.
    - rcase k 0 Hq.
      + replace (k * k) with ((- k) * (- k)) by ring. rewrite sqrt_square by lra.
        apply v3_eq; unfold vneg; cbn [vx vy vz]; rnum; field; lra.
      + assert (k = 0) by lra. subst k. apply v3_eq; unfold vzero; cbn [vx vy vz]; rnum; ring.
  Qed.
  Lemma corner_normal_planar (n o : V) (vs : list V) : vdot n n = 1 -> (forall v, In v vs -> vdot n (vsub v o) = 0) ->
    corner_normal vs = n \/ corner_normal vs = vneg n \/ corner_normal vs = vzero.
  Proof.
    intros Hu Hp. destruct vs as [|a [|b [|c rest]]]; try (right; right; reflexivity). cbn [corner_normal].
    assert (Ha : vdot n (vsub a o) = 0) by (apply Hp; left; reflexivity).
    assert (Hb : vdot n (vsub b o) = 0) by (apply Hp; right; left; reflexivity).
    assert (Hc : vdot n (vsub c o) = 0) by (apply Hp; right; right; left; reflexivity).
    assert (U : vdot n (vsub b a) = 0) by (revert Ha Hb; vunf; rnum; intros; lra).
    assert (W : vdot n (vsub c b) = 0) by (revert Hb Hc; vunf; rnum; intros; lra).
    rewrite (cross_in_plane n _ _ Hu U W). rewrite (vnormalize_scale_unit n _ Hu).
    destruct (Rltb 0 _); [left; reflexivity|]. destruct (Rltb _ 0); [right; left; reflexivity | right; right; reflexivity].
  Qed.
  Lemma vis_zero_vzero : vis_zero (vzero : V) = true.
  Proof.
    unfold vis_zero, vzero, ctiny. cbn [vx vy vz]. rnum. rewrite Rabs_R0.
    assert (T : Rltb 0 (100 * / IZR (2 ^ 52)) = true).
    { apply Rltb_true. apply Rmult_lt_0_compat; [lra|]. apply Rinv_0_lt_compat. apply IZR_lt. reflexivity. }
    rewrite T. reflexivity.
  Qed.
  (** a successful [close] needs three vertices and a non-zero normal *)
  Lemma close_ok_facts (L : Loop R) : snd (loop_close L) = Ok tt -> vis_zero (lnormal L) = false /\ (3 <= llen L)%nat.
  Proof.
    unfold loop_close. destruct (lclosed L); [discriminate|]. destruct (Nat.ltb (llen L) 3) eqn:E3; [discriminate|]. apply Nat.ltb_ge in E3.
    destruct (pop_redundant (verts L) (llen L)) as [vs1 r1]. destruct r1 as [u1| |]; cbn [snd]; try discriminate.
    destruct (Nat.ltb (length vs1) 3); [discriminate|].
    set (L1 := set_verts L vs1).
    destruct (valid_to_add L1 _) as [u| |]; cbn [snd]; try discriminate.
    destruct (drop_first_redundant vs1 (length vs1)) as [vs2 r2]. destruct r2 as [u2| |]; cbn [snd]; try discriminate.
    destruct (Nat.ltb (length vs2) 3); [discriminate|].
    set (L2 := set_verts L1 vs2).
    assert (N2 : lnormal L2 = lnormal L) by reflexivity.
    set (L3 := mkLoop (verts L2) (lnormal L2) true (larea L2) (lperim L2)).
    destruct (loop_set_area L3) as [L4| |] eqn:E4; cbn [snd]; try discriminate. intros _.
    unfold loop_set_area in E4. cbn [lclosed negb] in E4. change (lnormal L3) with (lnormal L2) in E4. rewrite N2 in E4.
    destruct (vis_zero (lnormal L)); [discriminate|]. split; [reflexivity | exact E3].
  Qed.
  Theorem merged_normal_planar (P : Poly R) (o : V) (L : Loop R) :
    let n := lnormal (pouter P) in
    closed_loop_clean false P = true -> vdot n n = 1 -> (forall v, In v (poly_verts P) -> vdot n (vsub v o) = 0) ->
    poly_get_closed_loop P = Ok L -> snd (loop_close L) = Ok tt -> lnormal L = n \/ lnormal L = vneg n.
  Proof.
    intros n Hc Hu Hp HL Hcl. destruct (merged_normal_is_corner P L Hc HL) as [[_ E]|E]; [left; exact E|].
    destruct (close_ok_facts L Hcl) as [Hz H3]. assert (B : Nat.leb 3 (llen L) = true) by (apply Nat.leb_le; exact H3).
    rewrite B in E. destruct (merged_no_new_vertex P Hc) as [L' [HL' Hin]]. rewrite HL in HL'. injection HL' as HL'. subst L'.
    destruct (corner_normal_planar n o (verts L) Hu (fun v Hv => Hp v (Hin v Hv))) as [C|[C|C]]; rewrite C in E.
    - left; exact E.
    - right; exact E.
    - exfalso. rewrite E, vis_zero_vzero in Hz. discriminate.
  Qed.
End MergedNormalR.

(** ** (reals) the closed merged loop of a planar polygon reports the polygon's net area and the polygon's normal:
    [merged_closed_area_normal] with the hypothesis on the merged loop's own normal discharged by planarity *)
Theorem merged_closed_region (P : Poly R) (o : V) :
  let n := lnormal (pouter P) in
  closed_loop_clean false P = true -> closed_loop_wf P = true ->
  vdot n n = 1%R -> (forall v, In v (poly_verts P) -> vdot n (vsub v o) = 0%R) -> planar_normals P -> signed_areas P ->
  parea P = (larea (pouter P) - rsum (map larea (pinner P)))%R ->
  exists L, poly_get_closed_loop P = Ok L /\
    (snd (loop_close L) = Ok tt -> verts (fst (loop_close L)) = verts L -> (0 <= parea P)%R ->
     larea (fst (loop_close L)) = parea P /\ ((0 < parea P)%R -> lnormal (fst (loop_close L)) = n)).
Proof.
  intros n Hc Hw Hu Hpl Hp Hs Ha. destruct (merged_closed_area_normal P Hc Hw Hu Hp Hs Ha) as [L [HL H]].
  exists L. split; [exact HL|]. intros Hcl Hv Hpos. apply H; try assumption.
  apply (merged_normal_planar P o L Hc Hu Hpl HL Hcl).
Qed.

(** ** a sufficient condition (reals): if the outline and every hole have a vertex and any two vertices of the polygon
    are at squared distance below Float::MAX (the value the scan starts from since fix f0d596d; 2^1024 on the real instance),
    every stage's scan hits, hence the trace is well formed.  [bounded_coords_wf]: coordinates up to 2^500 suffice. *)
Section Bounded.
  Local Open Scope R_scope.
  Definition st_md (st : @Sst R) : R := fst (fst (fst (fst st))).

  Lemma siv_min (ev : V) (j k : nat) : forall (ivs : list V) (l : nat) (st : Sst),
    st_md (scan_inner_vertices ev j k ivs l st) <= st_md st /\
    forall iv, In iv ivs -> st_md (scan_inner_vertices ev j k ivs l st) <= psqdist ev iv.
  Proof.
    induction ivs as [|iv tl IH]; intros l st; cbn [scan_inner_vertices]; [split; [lra | intros ? []]|].
    destruct st as [[[[md me] ml] il] iv_id].
    set (st1 := if (psqdist ev iv <? md)%num then (psqdist ev iv, j, k, k, l) else (md, me, ml, il, iv_id)).
    assert (H1 : st_md st1 <= md /\ st_md st1 <= psqdist ev iv).
    { unfold st1. rnum. rcase (psqdist ev iv) md Hc; unfold st_md; cbn [fst]; lra. }
    destruct (IH (S l) st1) as [I1 I2]. unfold st_md at 2. cbn [fst]. split; [lra|].
    intros iv' [E|Hin]; [subst iv'; lra | apply I2; exact Hin].
  Qed.
  Lemma sil_min (ev : V) (j : nat) (processed : list nat) : forall (hs : list (Loop R)) (k : nat) (st : Sst),
    st_md (scan_inner_loops ev j hs k processed st) <= st_md st /\
    forall i h iv, nth_error hs i = Some h -> existsb (Nat.eqb (k + i)) processed = false -> In iv (verts h) ->
      st_md (scan_inner_loops ev j hs k processed st) <= psqdist ev iv.
  Proof.
    induction hs as [|h tl IH]; intros k st; cbn [scan_inner_loops]; [split; [lra | intros [|i] ? ? H; discriminate H]|].
    set (st1 := if existsb (Nat.eqb k) processed then st else scan_inner_vertices ev j k (verts h) 0 st).
    destruct (IH (S k) st1) as [I1 I2].
    assert (H1 : st_md st1 <= st_md st) by (unfold st1; destruct (existsb (Nat.eqb k) processed); [lra | apply siv_min]).
    split; [lra|]. intros [|i] h' iv Hn Hp Hin; cbn [nth_error] in Hn.
    - injection Hn as Hn. subst h'. rewrite Nat.add_0_r in Hp.
      assert (Es : st1 = scan_inner_vertices ev j k (verts h) 0 st) by (unfold st1; rewrite Hp; reflexivity).
      pose proof (proj2 (siv_min ev j k (verts h) 0 st) iv Hin) as Hm. rewrite <- Es in Hm. lra.
    - apply (I2 i h' iv Hn); [|exact Hin]. replace (S k + i)%nat with (k + S i)%nat by lia. exact Hp.
  Qed.
  Lemma sext_min (hs : list (Loop R)) (processed : list nat) : forall (evs : list V) (j : nat) (st : Sst),
    st_md (scan_ext evs j hs processed st) <= st_md st /\
    forall ev k h iv, In ev evs -> nth_error hs k = Some h -> existsb (Nat.eqb k) processed = false -> In iv (verts h) ->
      st_md (scan_ext evs j hs processed st) <= psqdist ev iv.
  Proof.
    induction evs as [|ev tl IH]; intros j st; cbn [scan_ext]; [split; [lra | intros ? ? ? ? []]|].
    destruct (IH (S j) (scan_inner_loops ev j hs 0 processed st)) as [I1 I2].
    destruct (sil_min ev j processed hs 0 st) as [J1 J2]. split; [lra|].
    intros ev' k h iv [E|Hin] Hn Hp Hiv.
    - subst ev'. pose proof (J2 k h iv Hn Hp Hiv). lra.
    - apply (I2 ev' k h iv Hin Hn Hp Hiv).
  Qed.

  Definition within_reach (P : Poly R) : Prop :=
    verts (pouter P) <> [] /\ (forall h, In h (pinner P) -> verts h <> []) /\
    forall a b, In a (poly_verts P) -> In b (poly_verts P) -> psqdist a b < nmaxf.

  Lemma unprocessed_exists (n : nat) (processed : list nat) : (length processed < n)%nat ->
    exists k, (k < n)%nat /\ existsb (Nat.eqb k) processed = false.
  Proof.
    intros Hl. destruct (existsb (fun k => negb (existsb (Nat.eqb k) processed)) (seq 0 n)) eqn:E.
    - apply existsb_exists in E. destruct E as [k [Ik Ek]]. apply in_seq in Ik. apply negb_true_iff in Ek. exists k. split; [lia | exact Ek].
    - exfalso. assert (I : incl (seq 0 n) processed).
      { intros k Ik. destruct (existsb (Nat.eqb k) processed) eqn:Ek.
        - apply existsb_exists in Ek. destruct Ek as [x [Ix Ex]]. apply Nat.eqb_eq in Ex. subst x. exact Ix.
        - assert (T : existsb (fun k => negb (existsb (Nat.eqb k) processed)) (seq 0 n) = true)
            by (apply existsb_exists; exists k; split; [exact Ik | rewrite Ek; reflexivity]).
          rewrite T in E. discriminate. }
      pose proof (NoDup_incl_length (seq_NoDup n 0) I) as Hle. rewrite seq_length in Hle. lia.
  Qed.

  Lemma within_reach_hits (P : Poly R) : within_reach P -> forall count vs processed il iv,
    vs <> [] -> (forall v, In v vs -> In v (poly_verts P)) -> (length processed + count = length (pinner P))%nat ->
    merge_hits P count vs processed il iv = true.
  Proof.
    intros [Ho [Hh Hd]]. induction count as [|c IH]; intros vs processed il iv Hne Hin Hlen; cbn [merge_hits]; [reflexivity|].
    destruct (unprocessed_exists (length (pinner P)) processed ltac:(lia)) as [k [Hk Hp]].
    destruct (nth_error (pinner P) k) as [h|] eqn:En; [|apply nth_error_None in En; lia].
    pose proof (nth_error_In _ _ En) as Ih.
    destruct vs as [|ev vs']; [contradiction|]. destruct (verts h) as [|hv hvs'] eqn:Ehv; [exfalso; apply (Hh h Ih); exact Ehv|].
    change (@scan_start R NumR false) with (@nmaxf R NumR).
    pose proof (proj2 (sext_min (pinner P) processed (ev :: vs') 0 (nmaxf, 0, 0, il, iv)%nat) ev k h hv (or_introl eq_refl) En Hp) as Hmin.
    rewrite Ehv in Hmin. specialize (Hmin (or_introl eq_refl)).
    assert (Hb : psqdist ev hv < nmaxf).
    { apply Hd; [apply Hin; left; reflexivity|]. unfold poly_verts. apply in_or_app. right. apply in_flat_map. exists h. split; [exact Ih|]. rewrite Ehv. left; reflexivity. }
    destruct (scan_ext_cases (pinner P) processed (ev :: vs') 0 (nmaxf, 0, 0, il, iv)%nat) as [E|[d [j' [k' [l' [h' [E [Hj [Hn' [Hl' Hp']]]]]]]]]]; rewrite E in *.
    - exfalso. unfold st_md in Hmin. cbn [fst] in Hmin. lra.
    - unfold st_md in Hmin. cbn [fst] in Hmin. rewrite Hn'.
      assert (Ed : (d <? nmaxf)%num = true) by (apply Rltb_true; lra). rewrite Ed. cbn [andb].
      pose proof (nth_error_In _ _ Hn') as Ih'.
      destruct (attach_index_ok P (ev :: vs') j' h' l' ltac:(lia)) as [me Ea]. rewrite Ea.
      apply IH.
      + intros C. assert (I0 : In ev (splice (ev :: vs') 0 me (walk_list false (vis_same_direction (lnormal (pouter P)) (lnormal h')) (verts h') l')))
          by (apply In_splice_old; left; reflexivity). rewrite C in I0. destruct I0.
      + intros v Hv. apply In_splice_inv in Hv. destruct Hv as [Hv|Hv]; [apply Hin; exact Hv|].
        apply In_walk_inv in Hv; [|apply Hh; exact Ih']. unfold poly_verts. apply in_or_app. right. apply in_flat_map. exists h'. split; assumption.
      + rewrite app_length. cbn [length]. lia.
  Qed.
  Theorem within_reach_wf (P : Poly R) : within_reach P -> closed_loop_hits P = true /\ closed_loop_wf P = true.
  Proof.
    intros H. assert (Hh : closed_loop_hits P = true).
    { unfold closed_loop_hits. apply within_reach_hits; [exact H | exact (proj1 H) | | reflexivity].
      intros v Hv. unfold poly_verts. apply in_or_app. left. exact Hv. }
    split; [exact Hh | apply hits_wf_R; exact Hh].
  Qed.
  (** the hypothesis is very weak: coordinates bounded by 2^500 in absolute value suffice *)
  Definition coord_bound (B : R) (v : V) : Prop := Rabs (vx v) <= B /\ Rabs (vy v) <= B /\ Rabs (vz v) <= B.
  Lemma abs_le_inv (x B : R) : Rabs x <= B -> - B <= x <= B.
  Proof. unfold Rabs. destruct (Rcase_abs x); lra. Qed.
  Lemma sq_diff_bound (x y B : R) : - B <= x <= B -> - B <= y <= B -> (x - y) * (x - y) <= 4 * (B * B).
  Proof. intros. nra. Qed.
  Lemma psqdist_bound (a b : V) : coord_bound (IZR (2 ^ 500)) a -> coord_bound (IZR (2 ^ 500)) b -> psqdist a b < nmaxf.
  Proof.
    destruct a as [a1 a2 a3], b as [b1 b2 b3]. unfold coord_bound, psqdist. cbn [vx vy vz]. rnum.
    intros (A1 & A2 & A3) (B1 & B2 & B3).
    apply abs_le_inv in A1, A2, A3, B1, B2, B3.
    assert (Q : IZR (2 ^ 500) * IZR (2 ^ 500) = IZR (2 ^ 1000)) by (rewrite <- mult_IZR; f_equal).
    assert (T : 12 * IZR (2 ^ 1000) < IZR (2 ^ 1024)) by (rewrite <- mult_IZR; apply IZR_lt; reflexivity).
    pose proof (sq_diff_bound _ _ _ A1 B1). pose proof (sq_diff_bound _ _ _ A2 B2). pose proof (sq_diff_bound _ _ _ A3 B3).
    rewrite Q in *. lra.
  Qed.
  Theorem bounded_coords_wf (P : Poly R) :
    verts (pouter P) <> [] -> (forall h, In h (pinner P) -> verts h <> []) ->
    (forall v, In v (poly_verts P) -> coord_bound (IZR (2 ^ 500)) v) ->
    closed_loop_hits P = true /\ closed_loop_wf P = true.
  Proof.
    intros Ho Hh Hb. apply within_reach_wf. split; [exact Ho|]. split; [exact Hh|].
    intros a b Ha Hb'. apply psqdist_bound; apply Hb; assumption.
  Qed.
End Bounded.

(** *** with no holes: the same vertex list, hence the same winding numbers, planar area and Newell vector *)
Theorem no_holes_region_R (pr : V -> Winding.P2) (P : Poly R) (d q : Winding.P2) : pinner P = [] ->
  exists L, poly_get_closed_loop P = Ok L /\ verts L = verts (pouter P) /\
    Winding.wn d (map pr (verts L)) q = Winding.wn d (map pr (verts (pouter P))) q /\
    Shoelace.area2 (map pr (verts L)) = Shoelace.area2 (map pr (verts (pouter P))) /\
    LoopGeom.newell (verts L) = LoopGeom.newell (verts (pouter P)).
Proof. intros H. destruct (no_holes_region P H) as [L [HL E]]. exists L. rewrite E. repeat split. exact HL. Qed.

(** ** the defect repaired by fix f0d596d (binary64).  The PINNED merge ([poly_get_closed_loop_gen true]: scan started from
    9e14, wrapped index cast) on a square of side 1e8 with hole 0 near the corner (1e8,1e8) and hole 1 at the centre, both
    wound AGAINST the outline (forward walk: the wrapped cast is not exercised, the only defect in play is the 9e14 start):
    the run is clean, the result has 14 vertices, contains hole 0 but no vertex of hole 1, and the closed merged loop reports an
    area more than 3e11 below the polygon's (hole 0 subtracted twice, hole 1 not at all).  Reproduced on the crate before the fix
    with `g3harness replay C12`.  The LIVE model on the same polygon: clean, hits, well formed, both holes present, closed
    area = the polygon's area. *)
Section FarHoles.
  Set Warnings "-inexact-float".
  Definition mkf (pts : list (V3 float)) : Loop float := fst (loop_run loop_new (map (fun p => LPush p) pts ++ [LClose])).
  Definition far_outer := mkf [mkV3 0 0 0; mkV3 1e8 0 0; mkV3 1e8 1e8 0; mkV3 0 1e8 0]%float.
  Definition far_hole0 := mkf [mkV3 9.8e7 9.7e7 0; mkV3 9.85e7 9.9e7 0; mkV3 9.9e7 9.75e7 0]%float.
  Definition far_hole1 := mkf [mkV3 5e7 5e7 0; mkV3 5e7 5.1e7 0; mkV3 5.1e7 5e7 0]%float.
  Definition far_witness : res (Poly float) := do P0 <- poly_new far_outer; do P1 <- poly_cut_hole P0 far_hole0; poly_cut_hole P1 far_hole1.
  Definition occurs_in (vs : list (V3 float)) (v : V3 float) : bool :=
    existsb (fun w => PrimFloat.eqb (vx v) (vx w) && PrimFloat.eqb (vy v) (vy w) && PrimFloat.eqb (vz v) (vz w)) vs.
  Theorem far_holes_pinned_refuted : exists (P : Poly float) (L : Loop float),
    far_witness = Ok P /\ pinner P = [far_hole0; far_hole1] /\
    map (fun h => vis_same_direction (lnormal (pouter P)) (lnormal h)) (pinner P) = [false; false] /\
    closed_loop_clean true P = true /\
    poly_get_closed_loop_gen true P = Ok L /\ llen L = 14 /\
    forallb (occurs_in (verts L)) (verts far_hole0) = true /\
    forallb (fun v => negb (occurs_in (verts L) v)) (verts far_hole1) = true /\
    snd (loop_close L) = Ok tt /\
    PrimFloat.ltb (larea (fst (loop_close L))) (parea P - 3e11)%float = true.
  Proof.
    eexists. eexists. split; [vm_compute; reflexivity|]. split; [vm_compute; reflexivity|].
    split; [vm_compute; reflexivity|]. split; [vm_compute; reflexivity|]. split; [vm_compute; reflexivity|].
    vm_compute. repeat split; reflexivity.
  Qed.
  Theorem far_holes_now_merged : exists (P : Poly float) (L : Loop float),
    far_witness = Ok P /\
    closed_loop_clean false P = true /\ closed_loop_hits P = true /\ closed_loop_wf P = true /\
    option_map (map ms_ml) (closed_loop_trace P) = Some [0; 1] /\
    poly_get_closed_loop P = Ok L /\ llen L = 14 /\
    forallb (occurs_in (verts L)) (verts far_hole0) = true /\ forallb (occurs_in (verts L)) (verts far_hole1) = true /\
    snd (loop_close L) = Ok tt /\
    PrimFloat.leb (PrimFloat.abs (larea (fst (loop_close L)) - parea P)) (1e-12 * parea P)%float = true.
  Proof.
    eexists. eexists. split; [vm_compute; reflexivity|]. split; [vm_compute; reflexivity|].
    split; [vm_compute; reflexivity|]. split; [vm_compute; reflexivity|]. split; [vm_compute; reflexivity|].
    split; [vm_compute; reflexivity|].
    vm_compute. repeat split; reflexivity.
  Qed.
End FarHoles.
