(** * C17_quadratic: the interval quadratic solver encloses the true roots.
    Built on the C07 operator lemmas (Proofs/C07_interval.v).  Statements are in Properties/C17.v. *)
From Coq Require Import ZArith Reals Bool Lra Lia Psatz.
From Flocq Require Import Core Plus_error BinarySingleNaN.
From G3 Require Import Model.Num Model.Base Model.RoundError Model.Quadratic Model.Pinned Model.PinnedQuadratic
  Theory.IntervalSpec Theory.QuadraticSpec Proofs.C07_interval.
Local Open Scope R_scope.

(** ** The solver is the composition of its named steps (any number instance) *)
Lemma solve_steps_eq : forall (K : Type) (NK : Num K) (a b c : AF K),
  af_solve_quadratic a b c = quad_result (quad_steps a b c).
Proof.
  intros K NK a b c. unfold af_solve_quadratic, quad_result, quad_steps.
  cbn [q_disc q_xa q_xb]. destruct (nltb (af_as_float b) n0); reflexivity.
Qed.

(** ** Real algebra: with [q = (-b + s sqrt D)/2], [q/a] and [c/q] are the two roots *)
Lemma sqrt_sq_id : forall D, 0 <= D -> sqrt D * sqrt D = D.
Proof. intros D H. apply sqrt_sqrt. exact H. Qed.

Lemma vieta_q : forall a b c s q : R,
  a <> 0 -> 0 <= qdisc a b c -> s * s = 1 ->
  q = (- b + s * sqrt (qdisc a b c)) / 2 -> q <> 0 ->
  q / a = (- b + s * sqrt (qdisc a b c)) / (2 * a) /\
  c / q = (- b - s * sqrt (qdisc a b c)) / (2 * a).
Proof.
  intros a b c s q Ha HD Hs Hq Hq0.
  pose proof (sqrt_sq_id _ HD) as HS. set (r := sqrt (qdisc a b c)) in *.
  split.
  - rewrite Hq. field. exact Ha.
  - assert (E : c * (2 * a) = q * (- b - s * r)).
    { rewrite Hq.
      replace ((- b + s * r) / 2 * (- b - s * r)) with ((b * b - (s * s) * (r * r)) / 2) by field.
      rewrite Hs, HS. unfold qdisc. field. }
    apply Rmult_eq_reg_r with (q * (2 * a)).
    + replace (c / q * (q * (2 * a))) with (c * (2 * a)) by (field; exact Hq0).
      replace ((- b - s * r) / (2 * a) * (q * (2 * a))) with (q * (- b - s * r)) by (field; exact Ha).
      exact E.
    + apply Rmult_integral_contrapositive_currified. exact Hq0. lra.
Qed.

(** the two quotients are the roots [root_minus], [root_plus] in one of the two orders *)
Lemma vieta_sets : forall a b c s q : R,
  a <> 0 -> 0 <= qdisc a b c -> (s = 1 \/ s = -1) ->
  q = (- b + s * sqrt (qdisc a b c)) / 2 -> q <> 0 ->
  (q / a = root_plus a b c /\ c / q = root_minus a b c) \/
  (q / a = root_minus a b c /\ c / q = root_plus a b c).
Proof.
  intros a b c s q Ha HD Hs Hq Hq0.
  assert (Hs2 : s * s = 1) by (destruct Hs; subst s; ring).
  destruct (vieta_q a b c s q Ha HD Hs2 Hq Hq0) as [E1 E2].
  unfold root_plus, root_minus. destruct Hs; subst s; [left|right]; rewrite E1, E2; split; f_equal; ring.
Qed.

Lemma min_max_sym : forall x y u v : R,
  (x = u /\ y = v) \/ (x = v /\ y = u) -> Rmin x y = Rmin v u /\ Rmax x y = Rmax v u.
Proof.
  intros x y u v [[-> ->]|[-> ->]]; split; auto using Rmin_comm, Rmax_comm.
Qed.

(** both roots are roots, whatever the order *)
Lemma roots_are_roots : forall a b c : R, a <> 0 -> 0 <= qdisc a b c ->
  a * root_minus a b c * root_minus a b c + b * root_minus a b c + c = 0 /\
  a * root_plus a b c * root_plus a b c + b * root_plus a b c + c = 0.
Proof.
  intros a b c Ha HD. pose proof (sqrt_sq_id _ HD) as HS.
  unfold root_minus, root_plus. set (r := sqrt (qdisc a b c)) in *.
  assert (Hr : r * r = b * b - 4 * a * c) by exact HS.
  split.
  - replace (a * ((- b - r) / (2 * a)) * ((- b - r) / (2 * a)) + b * ((- b - r) / (2 * a)) + c)
      with ((r * r - (b * b - 4 * a * c)) / (4 * a)) by (field; exact Ha).
    rewrite Hr. field. exact Ha.
  - replace (a * ((- b + r) / (2 * a)) * ((- b + r) / (2 * a)) + b * ((- b + r) / (2 * a)) + c)
      with ((r * r - (b * b - 4 * a * c)) / (4 * a)) by (field; exact Ha).
    rewrite Hr. field. exact Ha.
Qed.

Lemma root_hi_minus_lo : forall a b c : R, a <> 0 -> 0 <= qdisc a b c ->
  root_hi a b c - root_lo a b c = sqrt (qdisc a b c) / Rabs a.
Proof.
  intros a b c Ha HD. unfold root_hi, root_lo, root_minus, root_plus.
  pose proof (sqrt_pos (qdisc a b c)) as Hr. set (r := sqrt (qdisc a b c)) in *.
  destruct (Rlt_dec 0 a) as [P|P].
  - rewrite Rabs_pos_eq by lra.
    assert (H : (- b - r) / (2 * a) <= (- b + r) / (2 * a)).
    { apply Rmult_le_compat_r. left. apply Rinv_0_lt_compat. lra. lra. }
    rewrite Rmin_left, Rmax_right by exact H. field. exact Ha.
  - assert (N : a < 0) by lra. rewrite Rabs_left by exact N.
    assert (H : (- b + r) / (2 * a) <= (- b - r) / (2 * a)).
    { assert (I : / (2 * a) < 0) by (apply Rinv_lt_0_compat; lra). unfold Rdiv. nra. }
    rewrite Rmin_right, Rmax_left by exact H. field. exact Ha.
Qed.

(** ** Float side, for any binary format *)
Section C17.
  Variable prec emax : Z.
  Context (Hprec : FLX.Prec_gt_0 prec) (Hmax : Prec_lt_emax prec emax).
  Notation bf := (binary_float prec emax).
  Notation emin := (3 - emax - prec)%Z.
  Notation fexp := (FLT_exp emin prec).
  Local Instance NB17 : Num bf := NumB prec emax Hprec Hmax.
  Implicit Types I J A B C X : AF bf.
  Implicit Types x y r a b c : R.
  Implicit Types f v l h : bf.

  Notation lbP := (@lb prec emax).
  Notation ubP := (@ub prec emax).

  (** *** booleans of Model/Quadratic.v versus the Props of the theorems *)
  Lemma nfinite_spec : forall v, nfinite v = is_finite v.
  Proof.
    intros [s|s| |s m e H]; unfold nfinite; simpl; try reflexivity.
  Qed.

  Lemma Bleb_finite : forall v w, is_finite v = true -> is_finite w = true ->
    (Bleb v w = true <-> B2R v <= B2R w).
  Proof.
    intros v w Fv Fw. rewrite Bleb_correct by assumption.
    case Rle_bool_spec; intros H; split; intros H'; try reflexivity; try discriminate; lra.
  Qed.
  Lemma Bltb_finite : forall v w, is_finite v = true -> is_finite w = true ->
    (Bltb v w = true <-> B2R v < B2R w).
  Proof.
    intros v w Fv Fw. rewrite Bltb_correct by assumption.
    case Rlt_bool_spec; intros H; split; intros H'; try reflexivity; try discriminate; lra.
  Qed.

  Lemma wfb_spec : forall I, wfb I = true <-> wf I.
  Proof.
    intros I. unfold wfb, wf. rewrite !andb_true_iff, !nfinite_spec. split.
    - intros [[Fl Fh] L]. repeat split; try assumption. apply Bleb_finite; assumption.
    - intros (Fl & Fh & L). repeat split; try assumption. apply Bleb_finite; assumption.
  Qed.

  Lemma B2R_n0 : is_finite (n0 : bf) = true /\ B2R (n0 : bf) = 0.
  Proof. exact (Bofz0 prec emax Hprec Hmax). Qed.

  Lemma no_zerob_spec : forall I, wf I -> (no_zerob I = true <-> no_zero I).
  Proof.
    intros I (Fl & Fh & _). destruct B2R_n0 as [F0 V0].
    unfold no_zerob, no_zero. rewrite orb_true_iff.
    change (n0 <? low I)%num with (Bltb (n0 : bf) (low I)).
    change (high I <? n0)%num with (Bltb (high I) (n0 : bf)).
    rewrite (Bltb_finite _ _ F0 Fl), (Bltb_finite _ _ Fh F0), V0. tauto.
  Qed.

  Lemma disc_okb_spec : forall A B C, disc_okb A B C = true <-> disc_ok prec emax Hprec Hmax A B C.
  Proof.
    intros A B C. unfold disc_okb, disc_ok_s, disc_ok. cbv zeta.
    rewrite !andb_true_iff, !wfb_spec. tauto.
  Qed.

  Lemma inter_okb_spec : forall A B C, inter_okb A B C = true <-> inter_ok prec emax Hprec Hmax A B C.
  Proof.
    intros A B C. unfold inter_okb, inter_ok_s, inter_ok. cbv zeta.
    rewrite !andb_true_iff, !wfb_spec.
    change (disc_ok_s (quad_steps A B C)) with (disc_okb A B C). rewrite disc_okb_spec.
    split.
    - intros (((((H1 & H2) & H3) & H4) & H5) & H6).
      refine (conj H1 (conj H2 (conj H3 (conj H4 (conj H5 _))))). apply no_zerob_spec; assumption.
    - intros (H1 & H2 & H3 & H4 & H5 & H6).
      refine (conj (conj (conj (conj (conj H1 H2) H3) H4) H5) _). apply no_zerob_spec; assumption.
  Qed.

  (** *** the extended order through [lb] / [ub] *)
  Lemma Bleb_le : forall v w, Bleb v w = true -> le_lb prec emax v w /\ le_ub prec emax v w.
  Proof.
    intros v w H.
    destruct (is_finite v) eqn:Fv; destruct (is_finite w) eqn:Fw.
    - apply Bleb_finite in H; try assumption. split; intros r Hr.
      + apply lb_finite in Hr; [|exact Fw]. apply lb_finite; [exact Fv|lra].
      + apply ub_finite in Hr; [|exact Fv]. apply ub_finite; [exact Fw|lra].
    - destruct w as [sw|[|]| |sw mw ew Hw]; try discriminate;
      destruct v as [sv|sv| |sv mv ev Hv]; try discriminate; try destruct sv;
        try discriminate; split; intros r Hr; simpl in *; tauto.
    - destruct v as [sv|[|]| |sv mv ev Hv]; try discriminate;
      destruct w as [sw|sw| |sw mw ew Hw]; try discriminate; try destruct sw;
        try discriminate; split; intros r Hr; simpl in *; tauto.
    - destruct v as [sv|[|]| |sv mv ev Hv]; try discriminate;
      destruct w as [sw|[|]| |sw mw ew Hw]; try discriminate;
        split; intros r Hr; simpl in *; tauto.
  Qed.

  Lemma Bcompare_None_nan : forall v w, is_nan v = false -> is_nan w = false -> Bcompare v w <> None.
  Proof.
    intros [sv|sv| |sv mv ev Hv] [sw|sw| |sw mw ew Hw] Nv Nw; try discriminate;
      unfold Bcompare; simpl; try destruct sv; try destruct sw; try discriminate.
    all: try (destruct (Z.compare _ _); try discriminate; destruct (Pos.compare_cont _ _ _); discriminate).
  Qed.

  Lemma Bltb_false_Bleb : forall v w, is_nan v = false -> is_nan w = false ->
    Bltb w v = false -> Bleb v w = true.
  Proof.
    intros v w Nv Nw H.
    pose proof (Bcompare_None_nan v w Nv Nw) as HN.
    pose proof (Bcompare_swap _ _ v w) as HS.
    unfold Bltb, SFltb in H. unfold Bleb, SFleb.
    change (SFcompare (B2SF w) (B2SF v)) with (Bcompare w v) in H.
    change (SFcompare (B2SF v) (B2SF w)) with (Bcompare v w).
    rewrite HS in H. destruct (Bcompare v w) as [[| |]|]; simpl in H; try reflexivity; try discriminate.
    exfalso. apply HN. reflexivity.
  Qed.

  (** *** sorting two enclosures by [low] *)
  Lemma sort_encloses : forall XA XB X1 X2 rA rB,
    contains XA rA -> contains XB rB ->
    (if Bltb (low XB) (low XA) then Some (XB, XA) else Some (XA, XB)) = Some (X1, X2) ->
    contains X1 (Rmin rA rB) /\
    (not_nested X1 X2 -> contains X2 (Rmax rA rB)) /\
    ext_le (low X1) (low X2) /\
    ((X1 = XA /\ X2 = XB) \/ (X1 = XB /\ X2 = XA)).
  Proof.
    intros XA XB X1 X2 rA rB [LA UA] [LB UB] E.
    pose proof (Rmin_l rA rB) as m1. pose proof (Rmin_r rA rB) as m2.
    pose proof (Rmax_l rA rB) as M1. pose proof (Rmax_r rA rB) as M2.
    destruct (Bltb (low XB) (low XA)) eqn:S; inversion E; subst X1 X2; clear E.
    - destruct (ltb_true_le _ _ _ _ S) as [LL _].
      split; [|split; [|split]].
      + split.
        * unfold Rmin. destruct (Rle_dec rA rB); [apply LL; exact LA | exact LB].
        * apply ub_mono with (1 := UB). exact m2.
      + intros NN. destruct (Bleb_le _ _ NN) as [_ UU]. split.
        * apply lb_mono with (1 := LA). exact M1.
        * unfold Rmax. destruct (Rle_dec rA rB); [apply UU; exact UB | exact UA].
      + unfold ext_le. apply Bltb_false_Bleb.
        * exact (lb_not_nan _ _ _ _ LB).
        * exact (lb_not_nan _ _ _ _ LA).
        * destruct (Bltb (low XA) (low XB)) eqn:S'; [|reflexivity]. exfalso.
          pose proof (Bcompare_swap _ _ (low XA) (low XB)) as HS.
          unfold Bltb, SFltb in S, S'.
          change (SFcompare (B2SF (low XB)) (B2SF (low XA))) with (Bcompare (low XB) (low XA)) in S.
          change (SFcompare (B2SF (low XA)) (B2SF (low XB))) with (Bcompare (low XA) (low XB)) in S'.
          rewrite HS in S. destruct (Bcompare (low XA) (low XB)) as [[| |]|]; simpl in *; discriminate.
      + right. split; reflexivity.
    - destruct (ltb_false_le _ _ _ _ (lb_not_nan _ _ _ _ LB) (lb_not_nan _ _ _ _ LA) S) as [LL _].
      split; [|split; [|split]].
      + split.
        * unfold Rmin. destruct (Rle_dec rA rB); [exact LA | apply LL; exact LB].
        * apply ub_mono with (1 := UA). exact m1.
      + intros NN. destruct (Bleb_le _ _ NN) as [_ UU]. split.
        * apply lb_mono with (1 := LB). exact M2.
        * unfold Rmax. destruct (Rle_dec rA rB); [exact UB | apply UU; exact UA].
      + unfold ext_le. apply Bltb_false_Bleb.
        * exact (lb_not_nan _ _ _ _ LA).
        * exact (lb_not_nan _ _ _ _ LB).
        * exact S.
      + left. split; reflexivity.
  Qed.

  (** *** the two literals of the solver, [4.] and [0.5], are exact in every format with [2 < emax] *)
  Lemma Bofz_exact : forall z : Z, generic_format radix2 fexp (IZR z) -> Rabs (IZR z) < bpow radix2 emax ->
    is_finite (Bofz prec emax Hprec Hmax z) = true /\ B2R (Bofz prec emax Hprec Hmax z) = IZR z.
  Proof.
    intros z G L. unfold Bofz.
    generalize (binary_normalize_correct prec emax Hprec Hmax mode_NE z 0 false). cbv zeta.
    replace (F2R (Float radix2 z 0)) with (IZR z) by (unfold F2R; simpl; ring).
    rewrite round_generic by (auto with typeclass_instances).
    rewrite Rlt_bool_true by exact L. intros (HR & HF & _). split; assumption.
  Qed.

  Lemma format_bpow : forall k : Z, (emin <= k)%Z -> generic_format radix2 fexp (bpow radix2 k).
  Proof.
    intros k Hk. apply generic_format_bpow. unfold FLT_exp.
    pose proof Hprec as P. unfold FLX.Prec_gt_0 in P. lia.
  Qed.

  Lemma emin_le_m1 : (2 < emax)%Z -> (emin <= -1)%Z.
  Proof. intros H. pose proof Hprec as P. unfold FLX.Prec_gt_0 in P. lia. Qed.

  Lemma Bofz_pow2 : forall k : Z, (0 <= k < emax)%Z -> (2 < emax)%Z ->
    is_finite (Bofz prec emax Hprec Hmax (2 ^ k)) = true /\ B2R (Bofz prec emax Hprec Hmax (2 ^ k)) = bpow radix2 k.
  Proof.
    intros k Hk H3.
    assert (E : IZR (2 ^ k) = bpow radix2 k) by (apply (IZR_Zpower radix2); lia).
    rewrite <- E. apply Bofz_exact.
    - rewrite E. apply format_bpow. pose proof (emin_le_m1 H3). lia.
    - rewrite E. rewrite Rabs_pos_eq by apply bpow_ge_0. apply bpow_lt. lia.
  Qed.

  Lemma const_four : (2 < emax)%Z ->
    is_finite (nofZ 4 : bf) = true /\ B2R (nofZ 4 : bf) = 4.
  Proof.
    intros H3. destruct (Bofz_pow2 2 ltac:(lia) H3) as [F V].
    change (nofZ 4 : bf) with (Bofz prec emax Hprec Hmax (2 ^ 2)). split. exact F.
    rewrite V. simpl. lra.
  Qed.

  Lemma const_half : (2 < emax)%Z ->
    is_finite (nhalf : bf) = true /\ B2R (nhalf : bf) = / 2.
  Proof.
    intros H3.
    destruct (Bofz_pow2 0 ltac:(lia) H3) as [F1 V1].
    destruct (Bofz_pow2 1 ltac:(lia) H3) as [F2 V2].
    change (nhalf : bf) with (Bdiv mode_NE (Bofz prec emax Hprec Hmax (2 ^ 0)) (Bofz prec emax Hprec Hmax (2 ^ 1))).
    assert (N2 : B2R (Bofz prec emax Hprec Hmax (2 ^ 1)) <> 0) by (rewrite V2; simpl; lra).
    generalize (Bdiv_correct prec emax Hprec Hmax mode_NE (Bofz prec emax Hprec Hmax (2 ^ 0)) _ N2). cbv zeta.
    rewrite V1, V2.
    replace (bpow radix2 0 / bpow radix2 1) with (bpow radix2 (-1)) by (simpl; lra).
    simpl round_mode.
    rewrite round_generic; [|auto with typeclass_instances|apply format_bpow; apply emin_le_m1; exact H3].
    rewrite Rabs_pos_eq by apply bpow_ge_0.
    rewrite Rlt_bool_true by (apply bpow_lt; lia).
    intros (HR & HF & _). split.
    - rewrite HF. exact F1.
    - rewrite HR. simpl. lra.
  Qed.

  (** conversely, if [4.] is a finite float of the format then [2 < emax]; and a well-formed
      [a*c*4.] forces [4.] to be finite: the side condition [disc_ok] already excludes the degenerate
      format, so the theorems need no separate hypothesis on the format *)
  Lemma four_finite_fmt : is_finite (nofZ 4 : bf) = true -> (2 < emax)%Z.
  Proof.
    change (nofZ 4 : bf) with (Bofz prec emax Hprec Hmax 4). unfold Bofz.
    generalize (binary_normalize_correct prec emax Hprec Hmax mode_NE 4 0 false). cbv zeta.
    replace (F2R (Float radix2 4 0)) with (bpow radix2 2) by (unfold F2R; simpl; lra).
    rewrite round_generic; [|auto with typeclass_instances|].
    2:{ apply format_bpow. pose proof Hprec as P. unfold FLX.Prec_gt_0 in P.
        pose proof Hmax as M. unfold Prec_lt_emax in M. lia. }
    rewrite Rabs_pos_eq by apply bpow_ge_0.
    case Rlt_bool_spec.
    - intros L _ _. apply (lt_bpow radix2). exact L.
    - intros _ E F. rewrite <- is_finite_SF_B2SF, E in F. discriminate.
  Qed.

  Lemma mul_f_wf_finite : forall I f, wf I -> wf (af_mul_f I f) -> is_finite f = true.
  Proof.
    intros I f (Fl & Fh & _) (Gl & Gh & _). revert Gl Gh.
    rewrite (af_mul_f_eq prec emax Hprec Hmax). cbn [low high]. unfold bmin, bmax.
    destruct f as [sf|sf| |sf mf ef Hf]; try reflexivity; intros Gl Gh; exfalso.
    - destruct (low I) as [sl|sl| |sl ml el Hl]; try discriminate;
      destruct (high I) as [sh|sh| |sh mh eh Hh]; try discriminate;
      destruct sf; try destruct sl; try destruct sh; simpl in Gl, Gh; discriminate.
    - destruct (low I) as [sl|sl| |sl ml el Hl]; try discriminate;
      destruct (high I) as [sh|sh| |sh mh eh Hh]; try discriminate;
      simpl in Gl, Gh; discriminate.
  Qed.

  Lemma disc_ok_fmt : forall A B C, wf A -> wf C -> disc_ok prec emax Hprec Hmax A B C -> (2 < emax)%Z.
  Proof.
    intros A B C WA WC (_ & Wac & Wac4). unfold quad_steps in *. cbn [q_ac q_ac4] in *.
    apply four_finite_fmt. exact (mul_f_wf_finite _ _ Wac Wac4).
  Qed.

  (** *** small facts about the operators *)
  Lemma af_neg_wf : forall I, wf I -> wf (af_neg I).
  Proof.
    intros I (Fl & Fh & L). unfold wf, af_neg. cbn [low high].
    change (- high I)%num with (Bopp (high I)). change (- low I)%num with (Bopp (low I)).
    rewrite !is_finite_Bopp, !B2R_Bopp. repeat split; try assumption. lra.
  Qed.

  Lemma contains_nonzero : forall I x, wf I -> no_zero I -> contains I x -> x <> 0.
  Proof.
    intros I x W NZ Cx. destruct (wf_contains _ _ I x W Cx) as (_ & _ & Hx).
    destruct NZ; lra.
  Qed.

  Lemma ltb_n0_false : forall v, is_finite v = true -> Bltb v (n0 : bf) = false -> 0 <= B2R v.
  Proof.
    intros v Fv H. destruct B2R_n0 as [F0 V0].
    destruct (Rle_lt_dec 0 (B2R v)) as [P|P]; [exact P|exfalso].
    assert (T : Bltb v (n0 : bf) = true) by (apply Bltb_finite; [exact Fv|exact F0|rewrite V0; exact P]).
    congruence.
  Qed.
  Lemma ltb_n0_true : forall v r, lbP v r -> r < 0 -> Bltb v (n0 : bf) = true.
  Proof.
    intros v r L Hr. destruct B2R_n0 as [F0 V0].
    destruct (is_finite v) eqn:Fv.
    - apply Bltb_finite; [exact Fv|exact F0|]. apply lb_finite in L; [|exact Fv]. rewrite V0. lra.
    - destruct v as [sv|[|]| |sv mv ev Hv]; try discriminate; simpl in L; try tauto.
  Qed.

  (** *** every step of the solver encloses the corresponding real quantity *)
  Section Steps.
    Hypothesis Hemax : (2 < emax)%Z.
    Variables A B C : AF bf.
    Variables a b c : R.
    Hypothesis WA : wf A. Hypothesis WB : wf B. Hypothesis WC : wf C.
    Hypothesis CA : contains A a. Hypothesis CB : contains B b. Hypothesis CC : contains C c.
    Let st := quad_steps A B C.

    Lemma step_disc : disc_ok prec emax Hprec Hmax A B C -> contains (q_disc st) (qdisc a b c).
    Proof.
      intros (Wbb & Wac & Wac4). fold st in Wbb, Wac, Wac4.
      destruct (const_four Hemax) as [F4 V4].
      assert (Cbb : contains (q_bb st) (b * b)) by (apply af_mul_correct; assumption).
      assert (Cac : contains (q_ac st) (a * c)) by (apply af_mul_correct; assumption).
      assert (Cac4 : contains (q_ac4 st) (a * c * 4)).
      { rewrite <- V4. apply af_mul_f_correct; assumption. }
      replace (qdisc a b c) with (b * b - a * c * 4) by (unfold qdisc; ring).
      apply af_sub_correct; assumption.
    Qed.

    (** the sign [s] of the square root in [q = (-b + s sqrt D)/2]: [+1] when [mid(b) < 0] *)
    Definition sgn_of (br : bool) : R := if br then 1 else -1.

    Lemma step_q : inter_ok prec emax Hprec Hmax A B C -> Bltb (low (q_disc st)) (n0 : bf) = false ->
      0 <= qdisc a b c /\
      contains (q_q st) ((- b + sgn_of (q_branch st) * sqrt (qdisc a b c)) / 2).
    Proof.
      intros (DO & Wd & Ws & Wpm & Wq & NZ) NR. fold st in Wd, Ws, Wpm, Wq, NZ.
      pose proof (step_disc DO) as Cd.
      destruct (wf_contains _ _ _ _ Wd Cd) as (Fdl & _ & Hd).
      pose proof (ltb_n0_false _ Fdl NR) as P0.
      assert (HD : 0 <= qdisc a b c) by lra.
      split. exact HD.
      assert (Csq : contains (q_sqrt st) (sqrt (qdisc a b c))) by (apply af_sqrt_correct; assumption).
      destruct (const_half Hemax) as [Fh Vh].
      assert (Cpm : contains (q_pm st) (b - sgn_of (q_branch st) * sqrt (qdisc a b c))).
      { unfold st, quad_steps in *. cbn [q_pm q_branch q_sqrt q_disc] in *.
        destruct (nltb (af_as_float B) n0); unfold sgn_of.
        - replace (b - 1 * sqrt (qdisc a b c)) with (b - sqrt (qdisc a b c)) by ring.
          apply af_sub_correct; assumption.
        - replace (b - -1 * sqrt (qdisc a b c)) with (b + sqrt (qdisc a b c)) by ring.
          apply af_add_correct; assumption. }
      assert (Cng : contains (q_neg st) (- (b - sgn_of (q_branch st) * sqrt (qdisc a b c)))).
      { apply af_neg_correct; assumption. }
      replace ((- b + sgn_of (q_branch st) * sqrt (qdisc a b c)) / 2)
        with (- (b - sgn_of (q_branch st) * sqrt (qdisc a b c)) * B2R (nhalf : bf)) by (rewrite Vh; field).
      apply af_mul_f_correct; try assumption. apply af_neg_wf. exact Wpm.
    Qed.

    Lemma step_roots : no_zero A -> inter_ok prec emax Hprec Hmax A B C ->
      Bltb (low (q_disc st)) (n0 : bf) = false ->
      0 <= qdisc a b c /\
      exists rA rB, contains (q_xa st) rA /\ contains (q_xb st) rB /\
        ((rA = root_plus a b c /\ rB = root_minus a b c) \/ (rA = root_minus a b c /\ rB = root_plus a b c)).
    Proof.
      intros NA IO NR. destruct (step_q IO NR) as [HD Cq].
      destruct IO as (DO & Wd & Ws & Wpm & Wq & NZ). fold st in Wd, Ws, Wpm, Wq, NZ.
      set (s := sgn_of (q_branch st)) in *. set (q := (- b + s * sqrt (qdisc a b c)) / 2) in *.
      assert (Ha : a <> 0) by (apply contains_nonzero with (1 := WA); assumption).
      assert (Hq : q <> 0) by (apply contains_nonzero with (1 := Wq); assumption).
      split. exact HD.
      exists (q / a), (c / q). split; [|split].
      - apply af_div_correct; assumption.
      - apply af_div_correct; assumption.
      - apply vieta_sets with (s := s); try assumption; try reflexivity.
        unfold s, sgn_of. destruct (q_branch st); [left|right]; reflexivity.
    Qed.
  End Steps.

  (** what an answer [Some (X1, X2)] says about the steps (the steps are abstracted before the
      case analysis so that the kernel never unfolds them) *)
  Lemma result_inv : forall (st : QSteps bf) X1 X2, quad_result st = Some (X1, X2) ->
    Bltb (low (q_disc st)) (n0 : bf) = false /\
    (if Bltb (low (q_xb st)) (low (q_xa st)) then Some (q_xb st, q_xa st) else Some (q_xa st, q_xb st)) = Some (X1, X2).
  Proof.
    intros st X1 X2. unfold quad_result.
    change (nltb (low (q_disc st)) n0) with (Bltb (low (q_disc st)) (n0 : bf)).
    change (nltb (low (q_xb st)) (low (q_xa st))) with (Bltb (low (q_xb st)) (low (q_xa st))).
    destruct (Bltb (low (q_disc st)) (n0 : bf)); [discriminate|]. intros E. split. reflexivity. exact E.
  Qed.
  Lemma solve_inv : forall A B C X1 X2, af_solve_quadratic A B C = Some (X1, X2) ->
    Bltb (low (q_disc (quad_steps A B C))) (n0 : bf) = false /\
    (if Bltb (low (q_xb (quad_steps A B C))) (low (q_xa (quad_steps A B C)))
     then Some (q_xb (quad_steps A B C), q_xa (quad_steps A B C))
     else Some (q_xa (quad_steps A B C), q_xb (quad_steps A B C))) = Some (X1, X2).
  Proof.
    intros A B C X1 X2 E. rewrite solve_steps_eq in E. exact (result_inv _ _ _ E).
  Qed.

  (** *** C17, part 1: the roots are enclosed, in ascending order *)
  Theorem roots_enclosed : (2 < emax)%Z -> forall A B C X1 X2 a b c,
    wf A -> wf B -> wf C -> no_zero A -> inter_ok prec emax Hprec Hmax A B C ->
    af_solve_quadratic A B C = Some (X1, X2) ->
    contains A a -> contains B b -> contains C c ->
    0 <= qdisc a b c /\
    contains X1 (root_lo a b c) /\
    (not_nested X1 X2 -> contains X2 (root_hi a b c)) /\
    ext_wf X1 /\ ext_wf X2 /\ ext_le (low X1) (low X2).
  Proof.
    intros H3 A B C X1 X2 a b c WA WB WC NA IO E0 CA CB CC.
    destruct (solve_inv _ _ _ _ _ E0) as [NR E].
    destruct (step_roots H3 A B C a b c WA WB WC CA CB CC NA IO NR) as (HD & rA & rB & CxA & CxB & Hset).
    destruct (sort_encloses (q_xa (quad_steps A B C)) (q_xb (quad_steps A B C)) _ _ _ _ CxA CxB E) as (S1 & S2 & S3 & S4).
    destruct (min_max_sym _ _ _ _ Hset) as [Em EM].
    unfold root_lo, root_hi. rewrite <- Em, <- EM.
    split. exact HD. split. exact S1. split. exact S2.
    split; [|split; [|exact S3]].
    - exact (contains_ext_wf _ _ _ _ S1).
    - destruct S4 as [[-> ->]|[-> ->]]; [exact (contains_ext_wf _ _ _ _ CxB) | exact (contains_ext_wf _ _ _ _ CxA)].
  Qed.

  (** each root is enclosed by one of the two returned intervals, nested or not *)
  Theorem each_root_enclosed : (2 < emax)%Z -> forall A B C X1 X2 a b c,
    wf A -> wf B -> wf C -> no_zero A -> inter_ok prec emax Hprec Hmax A B C ->
    af_solve_quadratic A B C = Some (X1, X2) ->
    contains A a -> contains B b -> contains C c ->
    (contains X1 (root_minus a b c) /\ contains X2 (root_plus a b c)) \/
    (contains X1 (root_plus a b c) /\ contains X2 (root_minus a b c)).
  Proof.
    intros H3 A B C X1 X2 a b c WA WB WC NA IO E0 CA CB CC.
    destruct (solve_inv _ _ _ _ _ E0) as [NR E].
    destruct (step_roots H3 A B C a b c WA WB WC CA CB CC NA IO NR) as (HD & rA & rB & CxA & CxB & Hset).
    destruct (sort_encloses (q_xa (quad_steps A B C)) (q_xb (quad_steps A B C)) _ _ _ _ CxA CxB E) as (_ & _ & _ & S4).
    destruct S4 as [[-> ->]|[-> ->]]; destruct Hset as [[-> ->]|[-> ->]]; tauto.
  Qed.

  (** disjoint enclosures are not nested *)
  Lemma disjoint_not_nested : forall X1 X2, ext_wf X2 -> disjoint X1 X2 -> not_nested X1 X2.
  Proof.
    intros [l1 h1] [l2 h2] W D. unfold disjoint, not_nested, ext_le, ext_wf in *. cbn [low high] in *.
    destruct h1 as [s1|s1| |s1 m1 e1 H1]; destruct l2 as [sl|sl| |sl ml el Hl];
      destruct h2 as [s2|s2| |s2 m2 e2 H2]; try destruct s1; try destruct sl; try destruct s2;
      try discriminate; try tauto; try reflexivity.
    all: try (match goal with |- Bleb ?x ?y = true =>
      assert (Fx : is_finite x = true) by reflexivity; assert (Fy : is_finite y = true) by reflexivity;
      apply (Bleb_finite x y Fx Fy) end;
      match type of D with Bltb ?x ?y = true =>
      assert (Fx' : is_finite x = true) by reflexivity; assert (Fy' : is_finite y = true) by reflexivity;
      apply (Bltb_finite x y Fx' Fy') in D end; simpl B2R in *; lra).
  Qed.

  (** *** C17, part 2: rejection and acceptance *)
  (** the solver answers [Some] exactly when the computed discriminant's lower bound is not [< 0] *)
  Lemma some_iff_low_disc : forall A B C,
    (exists XX : AF bf * AF bf, af_solve_quadratic A B C = Some XX) <-> Bltb (low (q_disc (quad_steps A B C))) (n0 : bf) = false.
  Proof.
    intros A B C. rewrite solve_steps_eq. unfold quad_result.
    change (nltb (low (q_disc (quad_steps A B C))) n0) with (Bltb (low (q_disc (quad_steps A B C))) (n0 : bf)).
    destruct (Bltb (low (q_disc (quad_steps A B C))) (n0 : bf)).
    - split. intros [XX HX]; discriminate. discriminate.
    - split. reflexivity. intros _.
      destruct (nltb (low (q_xb (quad_steps A B C))) (low (q_xa (quad_steps A B C)))); eexists; reflexivity.
  Qed.

  (** a negative discriminant for ONE admissible choice is enough for the rejection *)
  Theorem none_when_negative : (2 < emax)%Z -> forall A B C a b c,
    wf A -> wf B -> wf C -> disc_ok prec emax Hprec Hmax A B C ->
    contains A a -> contains B b -> contains C c ->
    qdisc a b c < 0 -> af_solve_quadratic A B C = None.
  Proof.
    intros H3 A B C a b c WA WB WC DO CA CB CC HD.
    pose proof (step_disc H3 A B C a b c WA WB WC CA CB CC DO) as [L _].
    rewrite solve_steps_eq. unfold quad_result.
    change (nltb (low (q_disc (quad_steps A B C))) n0) with (Bltb (low (q_disc (quad_steps A B C))) (n0 : bf)).
    rewrite (ltb_n0_true _ _ L HD). reflexivity.
  Qed.

  (** the lower bound of [x - y] (outward rounded) is not negative iff [y < x]: subtraction of two
      floats never rounds a non-zero difference to zero *)
  Lemma format_B2R : forall v, generic_format radix2 fexp (B2R v).
  Proof. intros v. apply generic_format_B2R. Qed.

  Lemma sub_low_sign : forall x y : bf, is_finite x = true -> is_finite y = true ->
    (Bltb (Bpred (Bminus mode_NE x y)) (n0 : bf) = false <-> B2R y < B2R x).
  Proof.
    intros x y Fx Fy. destruct B2R_n0 as [F0 V0].
    pose proof (is_rnd_minus prec emax Hprec Hmax x y Fx Fy) as Rz.
    set (z := Bminus mode_NE x y) in *.
    pose proof (rnd_lb0 prec emax Hprec Hmax z _ Rz) as Lz.
    split.
    - intros H. destruct (Rlt_le_dec (B2R y) (B2R x)) as [P|P]; [exact P|exfalso].
      destruct (Rle_lt_or_eq_dec _ _ P) as [Q|Q].
      + assert (T : Bltb (Bpred z) (n0 : bf) = true) by (apply ltb_n0_true with (1 := Lz); lra). congruence.
      + (* x = y: the difference is a zero, its predecessor is negative *)
        destruct Rz as (_ & _ & [[Fz Vz]|[s [Ez Hov]]]).
        * replace (B2R x - B2R y) with 0 in Vz by lra.
          unfold RN in Vz. rewrite round_0 in Vz by auto with typeclass_instances.
          generalize (Bpred_correct prec emax Hprec Hmax z Fz). rewrite Vz.
          change (SpecFloat.fexp prec emax) with fexp. rewrite pred_0, (@ulp_FLT_0 radix2 emin prec Hprec).
          rewrite Rlt_bool_true.
          2:{ apply Ropp_lt_contravar. apply bpow_lt. pose proof Hprec as Pp. unfold FLX.Prec_gt_0 in Pp.
              pose proof Hmax as Pm. unfold Prec_lt_emax in Pm. lia. }
          intros (VR & FR & _).
          assert (T : Bltb (Bpred z) (n0 : bf) = true).
          { apply Bltb_finite; [exact FR|exact F0|]. rewrite VR, V0. pose proof (bpow_gt_0 radix2 emin). lra. }
          congruence.
        * replace (B2R x - B2R y) with 0 in Hov by lra.
          unfold RN in Hov. rewrite round_0, Rabs_R0 in Hov by auto with typeclass_instances.
          pose proof (bpow_gt_0 radix2 emax). lra.
    - intros P.
      assert (NZ : RN prec emax (B2R x - B2R y) <> 0).
      { unfold RN, Rminus. apply round_plus_neq_0; auto with typeclass_instances.
        apply format_B2R. apply generic_format_opp, format_B2R. lra. }
      assert (P0 : 0 <= RN prec emax (B2R x - B2R y)).
      { rewrite <- (RN_0 prec emax). apply RN_le. exact Hprec. lra. }
      destruct Rz as (S0 & S1 & [[Fz Vz]|[s [Ez Hov]]]).
      + assert (Pz : 0 < B2R z) by (rewrite Vz; lra).
        generalize (Bpred_correct prec emax Hprec Hmax z Fz).
        change (SpecFloat.fexp prec emax) with fexp.
        assert (G0 : 0 <= pred radix2 fexp (B2R z)) by (apply pred_ge_0; auto with typeclass_instances; apply format_B2R).
        rewrite Rlt_bool_true by (pose proof (bpow_gt_0 radix2 emax); lra).
        intros (VR & FR & _).
        destruct (Bltb (Bpred z) (n0 : bf)) eqn:T; [|reflexivity]. exfalso.
        apply (Bltb_finite _ _ FR F0) in T. rewrite VR, V0 in T. lra.
      + destruct s.
        * exfalso. rewrite Ez in S1. specialize (S1 eq_refl). lra.
        * rewrite Ez. reflexivity.
  Qed.

  (** exact characterisation: roots are returned iff the lower bound computed for [b*b] exceeds the
      upper bound computed for [4ac] (for finite operands; every format) *)
  Theorem some_iff_operands : forall A B C,
    disc_ok prec emax Hprec Hmax A B C ->
    let s := quad_steps A B C in
    ((exists XX : AF bf * AF bf, af_solve_quadratic A B C = Some XX) <-> B2R (high (q_ac4 s)) < B2R (low (q_bb s))).
  Proof.
    intros A B C (Wbb & Wac & Wac4) s. fold s in Wbb, Wac, Wac4.
    rewrite some_iff_low_disc. fold s.
    destruct Wbb as (Fbl & _ & _). destruct Wac4 as (_ & Fah & _).
    exact (sub_low_sign _ _ Fbl Fah).
  Qed.

  (** *** C17, part 3: nestedness *)
  Lemma Bleb_false_Bltb : forall v w, is_nan v = false -> is_nan w = false ->
    Bleb v w = false -> Bltb w v = true.
  Proof.
    intros v w Nv Nw H.
    pose proof (Bcompare_None_nan v w Nv Nw) as HN.
    pose proof (Bcompare_swap _ _ v w) as HS.
    unfold Bleb, SFleb in H. unfold Bltb, SFltb.
    change (SFcompare (B2SF v) (B2SF w)) with (Bcompare v w) in H.
    change (SFcompare (B2SF w) (B2SF v)) with (Bcompare w v).
    rewrite HS. destruct (Bcompare v w) as [[| |]|]; simpl in *; try reflexivity; try discriminate.
    exfalso. apply HN. reflexivity.
  Qed.

  (** if the first enclosure is finite and some admissible choice has its two roots further apart
      than that enclosure is wide, the enclosures are not nested (so the larger root is in [X2]) *)
  Theorem not_nested_when_separated : (2 < emax)%Z -> forall A B C X1 X2 a b c,
    wf A -> wf B -> wf C -> no_zero A -> inter_ok prec emax Hprec Hmax A B C ->
    af_solve_quadratic A B C = Some (X1, X2) ->
    contains A a -> contains B b -> contains C c ->
    is_finite (low X1) = true -> is_finite (high X1) = true ->
    width X1 < sqrt (qdisc a b c) / Rabs a ->
    not_nested X1 X2.
  Proof.
    intros H3 A B C X1 X2 a b c WA WB WC NA IO E CA CB CC Fl Fh Sep.
    destruct (roots_enclosed H3 A B C X1 X2 a b c WA WB WC NA IO E CA CB CC) as (HD & C1 & _ & _ & _ & OL).
    destruct (each_root_enclosed H3 A B C X1 X2 a b c WA WB WC NA IO E CA CB CC) as [[Cm Cp]|[Cp Cm]].
    all: unfold not_nested, ext_le; destruct (Bleb (high X1) (high X2)) eqn:NN; [reflexivity|exfalso].
    all: assert (N1 : is_nan (high X1) = false) by (destruct (high X1); try discriminate; reflexivity).
    all: destruct (Bleb_le _ _ OL) as [LL _].
    - pose proof (ub_not_nan _ _ _ _ (proj2 Cp)) as N2.
      destruct (ltb_true_le _ _ _ _ (Bleb_false_Bltb _ _ N1 N2 NN)) as [_ UU].
      assert (Cp1 : contains X1 (root_plus a b c)) by (split; [apply LL; exact (proj1 Cp) | apply UU; exact (proj2 Cp)]).
      assert (Ha : a <> 0) by (apply contains_nonzero with (1 := WA); assumption).
      pose proof (root_hi_minus_lo a b c Ha HD) as W.
      destruct Cm as [Lm Um]. destruct Cp1 as [Lp Up].
      apply lb_finite in Lm, Lp; try exact Fl. apply ub_finite in Um, Up; try exact Fh.
      unfold width in Sep. unfold root_hi, root_lo in W.
      revert W. unfold Rmax, Rmin. destruct (Rle_dec (root_minus a b c) (root_plus a b c)); intros W; lra.
    - pose proof (ub_not_nan _ _ _ _ (proj2 Cm)) as N2.
      destruct (ltb_true_le _ _ _ _ (Bleb_false_Bltb _ _ N1 N2 NN)) as [_ UU].
      assert (Cm1 : contains X1 (root_minus a b c)) by (split; [apply LL; exact (proj1 Cm) | apply UU; exact (proj2 Cm)]).
      assert (Ha : a <> 0) by (apply contains_nonzero with (1 := WA); assumption).
      pose proof (root_hi_minus_lo a b c Ha HD) as W.
      destruct Cp as [Lp Up]. destruct Cm1 as [Lm Um].
      apply lb_finite in Lm, Lp; try exact Fl. apply ub_finite in Um, Up; try exact Fh.
      unfold width in Sep. unfold root_hi, root_lo in W.
      revert W. unfold Rmax, Rmin. destruct (Rle_dec (root_minus a b c) (root_plus a b c)); intros W; lra.
  Qed.

  (** *** the same theorems without a hypothesis on the format ([disc_ok] implies [2 < emax]) *)
  Theorem roots_enclosed_af : forall A B C X1 X2 a b c,
    wf A -> wf B -> wf C -> no_zero A -> inter_ok prec emax Hprec Hmax A B C ->
    af_solve_quadratic A B C = Some (X1, X2) ->
    contains A a -> contains B b -> contains C c ->
    0 <= qdisc a b c /\
    contains X1 (root_lo a b c) /\
    (not_nested X1 X2 -> contains X2 (root_hi a b c)) /\
    ext_wf X1 /\ ext_wf X2 /\ ext_le (low X1) (low X2).
  Proof.
    intros A B C X1 X2 a b c WA WB WC NA IO.
    exact (roots_enclosed (disc_ok_fmt A B C WA WC (proj1 IO)) A B C X1 X2 a b c WA WB WC NA IO).
  Qed.
  Theorem each_root_enclosed_af : forall A B C X1 X2 a b c,
    wf A -> wf B -> wf C -> no_zero A -> inter_ok prec emax Hprec Hmax A B C ->
    af_solve_quadratic A B C = Some (X1, X2) ->
    contains A a -> contains B b -> contains C c ->
    (contains X1 (root_minus a b c) /\ contains X2 (root_plus a b c)) \/
    (contains X1 (root_plus a b c) /\ contains X2 (root_minus a b c)).
  Proof.
    intros A B C X1 X2 a b c WA WB WC NA IO.
    exact (each_root_enclosed (disc_ok_fmt A B C WA WC (proj1 IO)) A B C X1 X2 a b c WA WB WC NA IO).
  Qed.
  Theorem hi_enclosed_when_disjoint_af : forall A B C X1 X2 a b c,
    wf A -> wf B -> wf C -> no_zero A -> inter_ok prec emax Hprec Hmax A B C ->
    af_solve_quadratic A B C = Some (X1, X2) ->
    contains A a -> contains B b -> contains C c ->
    disjoint X1 X2 -> contains X2 (root_hi a b c).
  Proof.
    intros A B C X1 X2 a b c WA WB WC NA IO E CA CB CC D.
    destruct (roots_enclosed_af A B C X1 X2 a b c WA WB WC NA IO E CA CB CC) as (_ & _ & H & _ & W2 & _).
    apply H. exact (disjoint_not_nested X1 X2 W2 D).
  Qed.
  Theorem not_nested_when_separated_af : forall A B C X1 X2 a b c,
    wf A -> wf B -> wf C -> no_zero A -> inter_ok prec emax Hprec Hmax A B C ->
    af_solve_quadratic A B C = Some (X1, X2) ->
    contains A a -> contains B b -> contains C c ->
    is_finite (low X1) = true -> is_finite (high X1) = true ->
    width X1 < sqrt (qdisc a b c) / Rabs a ->
    not_nested X1 X2.
  Proof.
    intros A B C X1 X2 a b c WA WB WC NA IO.
    exact (not_nested_when_separated (disc_ok_fmt A B C WA WC (proj1 IO)) A B C X1 X2 a b c WA WB WC NA IO).
  Qed.
  Theorem none_when_negative_af : forall A B C a b c,
    wf A -> wf B -> wf C -> disc_ok prec emax Hprec Hmax A B C ->
    contains A a -> contains B b -> contains C c ->
    qdisc a b c < 0 -> af_solve_quadratic A B C = None.
  Proof.
    intros A B C a b c WA WB WC DO.
    exact (none_when_negative (disc_ok_fmt A B C WA WC DO) A B C a b c WA WB WC DO).
  Qed.
End C17.

(** ** binary64: non-vacuity, the pinned solver refuted, and the need for "q excludes zero" *)
Lemma root_hi_gt : forall a b c h : R,
  0 < a -> 0 <= qdisc a b c ->
  (2 * a * h + b < 0 \/ (2 * a * h + b) * (2 * a * h + b) < qdisc a b c) -> h < root_hi a b c.
Proof.
  intros a b c h Ha HD Hlt.
  assert (Hs : 2 * a * h + b < sqrt (qdisc a b c)).
  { destruct (Rlt_le_dec (2 * a * h + b) 0) as [N|Ht].
    - pose proof (sqrt_pos (qdisc a b c)). lra.
    - destruct Hlt as [N|Hlt]; [lra|].
      rewrite <- (sqrt_square (2 * a * h + b)) by exact Ht. apply sqrt_lt_1_alt. split; [nra|exact Hlt]. }
  apply Rlt_le_trans with (root_plus a b c); [|apply Rmax_r].
  unfold root_plus. apply Rmult_lt_reg_r with (2 * a). lra.
  replace ((- b + sqrt (qdisc a b c)) / (2 * a) * (2 * a)) with (- b + sqrt (qdisc a b c)) by (field; lra).
  lra.
Qed.

Lemma sf_finite_B2R : forall (v : b64) s m e, B2SF v = S754_finite s m e ->
  is_finite v = true /\ B2R v = SF2R radix2 (S754_finite s m e).
Proof.
  intros v s m e H. split.
  - rewrite <- is_finite_SF_B2SF, H. reflexivity.
  - apply B2R_of_SF. exact H.
Qed.

Definition mk64 (l h : spec_float) : AF b64 := mkAF (B64ofSF l) (B64ofSF h).
Definition wfb64 (I : AF b64) : bool := wfb I.
Lemma wfb64_wf : forall I : AF b64, wfb64 I = true -> wf I.
Proof. intros I H. apply (wfb_spec 53 1024 Hprec53 Hmax1024). exact H. Qed.
Lemma no_zerob64 : forall I : AF b64, wfb64 I = true -> no_zerob I = true -> no_zero I.
Proof.
  intros I W H. apply (no_zerob_spec 53 1024 Hprec53 Hmax1024). apply wfb64_wf. exact W. exact H.
Qed.
(** a real between the bounds of a finite binary64 interval given by its two literals *)
Lemma contains64 : forall (I : AF b64) sl ml el sh mh eh x,
  B2SF (low I) = S754_finite sl ml el -> B2SF (high I) = S754_finite sh mh eh ->
  SF2R radix2 (S754_finite sl ml el) <= x <= SF2R radix2 (S754_finite sh mh eh) -> contains I x.
Proof.
  intros I sl ml el sh mh eh x Hl Hh Hx.
  destruct (sf_finite_B2R _ _ _ _ Hl) as [Fl Vl]. destruct (sf_finite_B2R _ _ _ _ Hh) as [Fh Vh].
  split; [apply lb_finite|apply ub_finite]; try assumption.
  - apply Rle_trans with (2 := proj1 Hx). right. exact Vl.
  - apply Rle_trans with (1 := proj2 Hx). right. symmetry. exact Vh.
Qed.

(** *** the committed witness of finding F1 on the solver: a in [1,1.000001], b in [-3.000003,-3], c in [2,2.000002] *)
Definition pA : AF b64 := mk64 (S754_finite false 4503599627370496 (-52)) (S754_finite false 4503604130970123 (-52)).
Definition pB : AF b64 := mk64 (S754_finite true 6755406196455185 (-51)) (S754_finite true 6755399441055744 (-51)).
Definition pC : AF b64 := mk64 (S754_finite false 4503599627370496 (-51)) (S754_finite false 4503604130970123 (-51)).

Lemma pABC_facts :
  wf pA /\ wf pB /\ wf pC /\ no_zero pA /\
  contains pA 1 /\ contains pB (- 6755406196455185 / 2251799813685248) /\ contains pC 2.
Proof.
  assert (WA : wfb64 pA = true) by (vm_compute; reflexivity).
  assert (WB : wfb64 pB = true) by (vm_compute; reflexivity).
  assert (WC : wfb64 pC = true) by (vm_compute; reflexivity).
  split. apply wfb64_wf, WA. split. apply wfb64_wf, WB. split. apply wfb64_wf, WC.
  split. apply no_zerob64. exact WA. vm_compute; reflexivity.
  split; [|split].
  - apply contains64 with (sl := false) (ml := 4503599627370496%positive) (el := (-52)%Z)
                          (sh := false) (mh := 4503604130970123%positive) (eh := (-52)%Z);
      try (vm_compute; reflexivity). b2r_lit. lra.
  - apply contains64 with (sl := true) (ml := 6755406196455185%positive) (el := (-51)%Z)
                          (sh := true) (mh := 6755399441055744%positive) (eh := (-51)%Z);
      try (vm_compute; reflexivity). b2r_lit. lra.
  - apply contains64 with (sl := false) (ml := 4503599627370496%positive) (el := (-51)%Z)
                          (sh := false) (mh := 4503604130970123%positive) (eh := (-51)%Z);
      try (vm_compute; reflexivity). b2r_lit. lra.
Qed.

(** the solver built from the pinned operators returns x2 = [1.9999985.., 2.0000015..]; the larger root
    of a = 1, b = -3.000003, c = 2 is 2.000006.. *)
Lemma pinned_solver_refuted :
  exists (A B C X1 X2 : AF b64) (a b c : R),
    wf A /\ wf B /\ wf C /\ no_zero A /\
    af_solve_quadratic_pinned A B C = Some (X1, X2) /\
    contains A a /\ contains B b /\ contains C c /\ 0 <= qdisc a b c /\
    ~ contains X2 (root_hi a b c).
Proof.
  destruct pABC_facts as (WA & WB & WC & NA & CA & CB & CC).
  destruct (af_solve_quadratic_pinned pA pB pC) as [[X1 X2]|] eqn:E.
  2:{ exfalso.
      assert (H : match af_solve_quadratic_pinned pA pB pC with Some _ => true | None => false end = true)
        by (vm_compute; reflexivity).
      rewrite E in H. discriminate. }
  assert (HX : B2SF (high X2) = S754_finite false 4503603005070219 (-51)).
  { assert (H : match af_solve_quadratic_pinned pA pB pC with Some (_, x2) => B2SF (high x2) | None => S754_nan end
                = S754_finite false 4503603005070219 (-51)) by (vm_compute; reflexivity).
    rewrite E in H. exact H. }
  destruct (sf_finite_B2R _ _ _ _ HX) as [FX VX].
  exists pA, pB, pC, X1, X2, 1, (- 6755406196455185 / 2251799813685248), 2.
  repeat (split; [assumption|]).
  split. unfold qdisc. lra.
  intros [_ U]. apply ub_finite in U; [|exact FX].
  assert (G : B2R (high X2) < root_hi 1 (- 6755406196455185 / 2251799813685248) 2).
  { rewrite VX. b2r_lit. apply root_hi_gt; unfold qdisc; lra. }
  exact (Rlt_irrefl _ (Rle_lt_trans _ _ _ U G)).
Qed.

(** *** non-vacuity: the same coefficient intervals meet every hypothesis of C17_roots_enclosed *)
Lemma nonvacuous_proof :
  wf pA /\ wf pB /\ wf pC /\ no_zero pA /\ inter_ok 53 1024 Hprec53 Hmax1024 pA pB pC /\
  (exists X1 X2 : AF b64, af_solve_quadratic pA pB pC = Some (X1, X2)) /\
  contains pA 1 /\ contains pB (- 6755406196455185 / 2251799813685248) /\ contains pC 2.
Proof.
  destruct pABC_facts as (WA & WB & WC & NA & CA & CB & CC).
  repeat (split; [assumption|]).
  split. apply (inter_okb_spec 53 1024 Hprec53 Hmax1024). vm_compute. reflexivity.
  split; [|split; [assumption|split; assumption]].
  destruct (af_solve_quadratic pA pB pC) as [[X1 X2]|] eqn:E.
  - exists X1, X2. reflexivity.
  - exfalso.
    assert (H : match af_solve_quadratic pA pB pC with Some _ => true | None => false end = true)
      by (vm_compute; reflexivity).
    rewrite E in H. discriminate.
Qed.

(** *** "q excludes zero" cannot be dropped: a = 1, b in [-1,1], c = -3/8.
    Every intermediate is finite and well formed, the discriminant's lower bound is positive, the
    solver answers [Some], but its [q] interval contains zero, [c / q] is not an enclosure, and the
    root (1 + sqrt 2.5)/2 = 1.29.. of a = 1, b = -1, c = -3/8 lies in NEITHER returned interval. *)
Definition zA : AF b64 := mk64 (S754_finite false 4503599627370496 (-52)) (S754_finite false 4503599627370496 (-52)).
Definition zB : AF b64 := mk64 (S754_finite true 4503599627370496 (-52)) (S754_finite false 4503599627370496 (-52)).
Definition zC : AF b64 := mk64 (S754_finite true 6755399441055744 (-54)) (S754_finite true 6755399441055744 (-54)).
Definition all_finite_wf (A B C : AF b64) : bool :=
  let s := quad_steps A B C in
  disc_ok_s s && wfb (q_disc s) && wfb (q_sqrt s) && wfb (q_pm s) && wfb (q_q s).

Lemma q_zero_refuted :
  exists (A B C X1 X2 : AF b64) (a b c : R),
    wf A /\ wf B /\ wf C /\ no_zero A /\
    (let s := quad_steps A B C in
     disc_ok 53 1024 Hprec53 Hmax1024 A B C /\ wf (q_disc s) /\ wf (q_sqrt s) /\ wf (q_pm s) /\ wf (q_q s) /\ ~ no_zero (q_q s)) /\
    af_solve_quadratic A B C = Some (X1, X2) /\
    contains A a /\ contains B b /\ contains C c /\ 0 <= qdisc a b c /\
    ~ contains X1 (root_hi a b c) /\ ~ contains X2 (root_hi a b c).
Proof.
  assert (WA : wfb64 zA = true) by (vm_compute; reflexivity).
  assert (WB : wfb64 zB = true) by (vm_compute; reflexivity).
  assert (WC : wfb64 zC = true) by (vm_compute; reflexivity).
  destruct (af_solve_quadratic zA zB zC) as [[X1 X2]|] eqn:E.
  2:{ exfalso.
      assert (H : match af_solve_quadratic zA zB zC with Some _ => true | None => false end = true)
        by (vm_compute; reflexivity).
      rewrite E in H. discriminate. }
  assert (H1 : B2SF (high X1) = S754_finite false 5234433237235365 (-54)).
  { assert (H : match af_solve_quadratic zA zB zC with Some (x1, _) => B2SF (high x1) | None => S754_nan end
                = S754_finite false 5234433237235365 (-54)) by (vm_compute; reflexivity).
    rewrite E in H. exact H. }
  assert (H2 : B2SF (high X2) = S754_finite false 5276295164430460 (-55)).
  { assert (H : match af_solve_quadratic zA zB zC with Some (_, x2) => B2SF (high x2) | None => S754_nan end
                = S754_finite false 5276295164430460 (-55)) by (vm_compute; reflexivity).
    rewrite E in H. exact H. }
  destruct (sf_finite_B2R _ _ _ _ H1) as [F1 V1]. destruct (sf_finite_B2R _ _ _ _ H2) as [F2 V2].
  exists zA, zB, zC, X1, X2, 1, (-1), (-3 / 8).
  split. apply wfb64_wf, WA. split. apply wfb64_wf, WB. split. apply wfb64_wf, WC.
  split. apply no_zerob64. exact WA. vm_compute; reflexivity.
  split.
  { assert (W : all_finite_wf zA zB zC = true) by (vm_compute; reflexivity).
    unfold all_finite_wf in W. cbv zeta in W. rewrite !andb_true_iff in W.
    destruct W as ((((D & W1) & W2) & W3) & W4).
    cbv zeta. split. apply (disc_okb_spec 53 1024 Hprec53 Hmax1024). exact D.
    split. apply wfb64_wf, W1. split. apply wfb64_wf, W2. split. apply wfb64_wf, W3.
    split. apply wfb64_wf, W4.
    intros NZ. apply (no_zerob_spec 53 1024 Hprec53 Hmax1024) in NZ; [|apply wfb64_wf, W4].
    assert (Z : no_zerob (q_q (quad_steps zA zB zC)) = false) by (vm_compute; reflexivity).
    exact (Bool.diff_false_true (eq_trans (eq_sym Z) NZ)). }
  split. exact E.
  split.
  { apply contains64 with (sl := false) (ml := 4503599627370496%positive) (el := (-52)%Z)
                          (sh := false) (mh := 4503599627370496%positive) (eh := (-52)%Z);
      try (vm_compute; reflexivity). b2r_lit. lra. }
  split.
  { apply contains64 with (sl := true) (ml := 4503599627370496%positive) (el := (-52)%Z)
                          (sh := false) (mh := 4503599627370496%positive) (eh := (-52)%Z);
      try (vm_compute; reflexivity). b2r_lit. lra. }
  split.
  { apply contains64 with (sl := true) (ml := 6755399441055744%positive) (el := (-54)%Z)
                          (sh := true) (mh := 6755399441055744%positive) (eh := (-54)%Z);
      try (vm_compute; reflexivity). b2r_lit. lra. }
  split. unfold qdisc. lra.
  split.
  - intros [_ U]. apply ub_finite in U; [|exact F1].
    assert (G : B2R (high X1) < root_hi 1 (-1) (-3 / 8)).
    { rewrite V1. b2r_lit. apply root_hi_gt; unfold qdisc; lra. }
    exact (Rlt_irrefl _ (Rle_lt_trans _ _ _ U G)).
  - intros [_ U]. apply ub_finite in U; [|exact F2].
    assert (G : B2R (high X2) < root_hi 1 (-1) (-3 / 8)).
    { rewrite V2. b2r_lit. apply root_hi_gt; unfold qdisc; lra. }
    exact (Rlt_irrefl _ (Rle_lt_trans _ _ _ U G)).
Qed.

(** *** the same defect on coefficient intervals as they arise from a sphere: unit sphere, ray from
    (1 - 7.5e-15, 0, 0) along (0, 1, 0) with a direction error box of 1e-7 (harness generator
    [witness-q-zero]; these are the a, b, c that sphere3d.rs computes).  The larger root 2.6e-7 of the
    choice a = A.low, b = B.low = -2e-7, c = C.low = -1.55e-14 lies in neither returned interval. *)
Definition sA : AF b64 := mk64 (S754_finite false 9007197453301048 (-53)) (S754_finite false 4503600528090561 (-52)).
Definition sB : AF b64 := mk64 (S754_finite true 7555786372591380 (-75)) (S754_finite false 7555786372591380 (-75)).
Definition sC : AF b64 := mk64 (S754_finite true 4925812092436481 (-98)) (S754_finite true 4644337115725823 (-98)).

Lemma q_zero_sphere_refuted :
  exists (X1 X2 : AF b64) (a b c : R),
    wf sA /\ wf sB /\ wf sC /\ no_zero sA /\
    (let s := quad_steps sA sB sC in
     disc_ok 53 1024 Hprec53 Hmax1024 sA sB sC /\ wf (q_disc s) /\ wf (q_sqrt s) /\ wf (q_pm s) /\ wf (q_q s) /\ ~ no_zero (q_q s)) /\
    af_solve_quadratic sA sB sC = Some (X1, X2) /\
    contains sA a /\ contains sB b /\ contains sC c /\ 0 <= qdisc a b c /\
    ~ contains X1 (root_hi a b c) /\ ~ contains X2 (root_hi a b c).
Proof.
  assert (WA : wfb64 sA = true) by (vm_compute; reflexivity).
  assert (WB : wfb64 sB = true) by (vm_compute; reflexivity).
  assert (WC : wfb64 sC = true) by (vm_compute; reflexivity).
  destruct (af_solve_quadratic sA sB sC) as [[X1 X2]|] eqn:E.
  2:{ exfalso.
      assert (H : match af_solve_quadratic sA sB sC with Some _ => true | None => false end = true)
        by (vm_compute; reflexivity).
      rewrite E in H. discriminate. }
  assert (H1 : B2SF (high X1) = S754_finite false 4520034329873151 (-76)).
  { assert (H : match af_solve_quadratic sA sB sC with Some (x1, _) => B2SF (high x1) | None => S754_nan end
                = S754_finite false 4520034329873151 (-76)) by (vm_compute; reflexivity).
    rewrite E in H. exact H. }
  assert (H2 : B2SF (high X2) = S754_finite false 4801381626969689 (-77)).
  { assert (H : match af_solve_quadratic sA sB sC with Some (_, x2) => B2SF (high x2) | None => S754_nan end
                = S754_finite false 4801381626969689 (-77)) by (vm_compute; reflexivity).
    rewrite E in H. exact H. }
  destruct (sf_finite_B2R _ _ _ _ H1) as [F1 V1]. destruct (sf_finite_B2R _ _ _ _ H2) as [F2 V2].
  exists X1, X2, (9007197453301048 / 9007199254740992), (- 7555786372591380 / 37778931862957161709568),
    (- 4925812092436481 / 316912650057057350374175801344).
  split. apply wfb64_wf, WA. split. apply wfb64_wf, WB. split. apply wfb64_wf, WC.
  split. apply no_zerob64. exact WA. vm_compute; reflexivity.
  split.
  { assert (W : all_finite_wf sA sB sC = true) by (vm_compute; reflexivity).
    unfold all_finite_wf in W. cbv zeta in W. rewrite !andb_true_iff in W.
    destruct W as ((((D & W1) & W2) & W3) & W4).
    cbv zeta. split. apply (disc_okb_spec 53 1024 Hprec53 Hmax1024). exact D.
    split. apply wfb64_wf, W1. split. apply wfb64_wf, W2. split. apply wfb64_wf, W3.
    split. apply wfb64_wf, W4.
    intros NZ. apply (no_zerob_spec 53 1024 Hprec53 Hmax1024) in NZ; [|apply wfb64_wf, W4].
    assert (Z : no_zerob (q_q (quad_steps sA sB sC)) = false) by (vm_compute; reflexivity).
    exact (Bool.diff_false_true (eq_trans (eq_sym Z) NZ)). }
  split. reflexivity.
  split.
  { apply contains64 with (sl := false) (ml := 9007197453301048%positive) (el := (-53)%Z)
                          (sh := false) (mh := 4503600528090561%positive) (eh := (-52)%Z);
      try (vm_compute; reflexivity). b2r_lit. lra. }
  split.
  { apply contains64 with (sl := true) (ml := 7555786372591380%positive) (el := (-75)%Z)
                          (sh := false) (mh := 7555786372591380%positive) (eh := (-75)%Z);
      try (vm_compute; reflexivity). b2r_lit. lra. }
  split.
  { apply contains64 with (sl := true) (ml := 4925812092436481%positive) (el := (-98)%Z)
                          (sh := true) (mh := 4644337115725823%positive) (eh := (-98)%Z);
      try (vm_compute; reflexivity). b2r_lit. lra. }
  split. unfold qdisc. lra.
  split.
  - intros [_ U]. apply ub_finite in U; [|exact F1].
    assert (G : B2R (high X1) < root_hi (9007197453301048 / 9007199254740992) (- 7555786372591380 / 37778931862957161709568)
                                          (- 4925812092436481 / 316912650057057350374175801344)).
    { rewrite V1. b2r_lit. apply root_hi_gt; unfold qdisc; lra. }
    exact (Rlt_irrefl _ (Rle_lt_trans _ _ _ U G)).
  - intros [_ U]. apply ub_finite in U; [|exact F2].
    assert (G : B2R (high X2) < root_hi (9007197453301048 / 9007199254740992) (- 7555786372591380 / 37778931862957161709568)
                                          (- 4925812092436481 / 316912650057057350374175801344)).
    { rewrite V2. b2r_lit. apply root_hi_gt; unfold qdisc; lra. }
    exact (Rlt_irrefl _ (Rle_lt_trans _ _ _ U G)).
Qed.
