(** * C05 proofs, part 2: non-vacuity on the unit square (rational data, real-number instance) and the
    witnesses of the recorded findings on the binary64 instance (vm_compute on the model that is run
    against the crate bit for bit). *)
From Coq Require Import ZArith Reals Lra Lia Bool List Arith Psatz Floats.
From G3 Require Import Model.Num Model.NumF Model.Base Model.Vec Model.Segment Model.Loop Model.Polygon Model.PinnedLoop
  Theory.RInst Theory.LoopGeom Proofs.C05_pointtest.
Import ListNotations.
Local Open Scope R_scope.

(** ** helpers for concrete data *)
Lemma Rabs_ge_l (c x : R) : c <= x -> c <= Rabs x.
Proof. intros H. pose proof (Rle_abs x). lra. Qed.
Lemma Rabs_ge_r (c x : R) : c <= - x -> c <= Rabs x.
Proof. intros H. rewrite <- Rabs_Ropp. pose proof (Rle_abs (- x)). lra. Qed.
Lemma ctiny_lt_1 : (ctiny : R) < 1.
Proof.
  unfold ctiny. rnum.
  assert (H : 0 < / IZR (2 ^ 52) < / 100).
  { split; [apply Rinv_0_lt_compat; apply IZR_lt; reflexivity|]. apply Rinv_lt_contravar; [|apply IZR_lt; reflexivity].
    apply Rmult_lt_0_compat; [lra | apply IZR_lt; reflexivity]. }
  lra.
Qed.
Lemma neps_lt_quarter : (neps : R) < / 4.
Proof. cbn [neps NumR]. apply Rinv_lt_contravar; [|apply IZR_lt; reflexivity]. apply Rmult_lt_0_compat; [lra | apply IZR_lt; reflexivity]. Qed.
Lemma vis_zero_false (v : V) : 1 <= Rabs (vx v) \/ 1 <= Rabs (vy v) \/ 1 <= Rabs (vz v) -> vis_zero v = false.
Proof.
  intros H. unfold vis_zero. rnum. pose proof ctiny_lt_1 as T.
  destruct H as [H|[H|H]].
  - rewrite (proj2 (Rltb_false (Rabs (vx v)) ctiny)) by lra. reflexivity.
  - rewrite (proj2 (Rltb_false (Rabs (vy v)) ctiny)) by lra. rewrite andb_false_r. reflexivity.
  - rewrite (proj2 (Rltb_false (Rabs (vz v)) ctiny)) by lra. apply andb_false_r.
Qed.
Lemma vcompare_false (a p : V) :
  / 100000 <= Rabs (vx a - vx p) \/ / 100000 <= Rabs (vy a - vy p) \/ / 100000 <= Rabs (vz a - vz p) -> vcompare a p = false.
Proof.
  intros H. unfold vcompare, c1em5. rnum.
  destruct H as [H|[H|H]].
  - rewrite (proj2 (Rltb_false (Rabs (vx a - vx p)) (1 / 100000))) by lra. reflexivity.
  - rewrite (proj2 (Rltb_false (Rabs (vy a - vy p)) (1 / 100000))) by lra. rewrite andb_false_r. reflexivity.
  - rewrite (proj2 (Rltb_false (Rabs (vz a - vz p)) (1 / 100000))) by lra. apply andb_false_r.
Qed.
Lemma vlen_ge (v : V) (c : R) : 0 <= c -> (c * c <= vlen2 v)%R -> c <= vlen v.
Proof. intros Hc H. unfold vlen. rnum. rewrite <- (sqrt_square c) by exact Hc. apply sqrt_le_1_alt. exact H. Qed.

(** a point clearly off the line of an edge is not "contained" *)
Lemma contains_point_false (a b q : V) :
  vcompare q a = false -> vcompare q b = false -> vcompare a b = false ->
  (/ 100000 * / 100000 <= vlen2 (vcross (vsub a q) (vsub b a)))%R ->
  seg_contains_point (seg_new a b) q = Ok false.
Proof.
  intros C1 C2 C3 H. unfold seg_contains_point, is_collinear. cbn [sstart send seg_new]. rewrite C1, C2, C3. cbn [andb orb rbind].
  replace (vlen (vcross (vsub a q) (vsub b a)) <? c1em5)%num with false; [reflexivity|].
  symmetry. unfold c1em5. rnum. apply Rltb_false. replace (1 / 100000)%R with (/ 100000)%R by lra.
  apply vlen_ge; [lra | exact H].
Qed.

(** ** the unit square and a query point with a generic cast segment *)
Definition usq : Loop R := mkLoop [mkV3 0 0 0; mkV3 1 0 0; mkV3 1 1 0; mkV3 0 1 0] (mkV3 0 0 1) true 1 4.
Definition uq : V := mkV3 (4 / 5) (2 / 5) 0.

(** the live ray of (4/5, 2/5, 0): direction (3/10, 2/5, 0) of length 1/2, every vertex within 2, hence length
    max (2 reach, 1000) = 1000 and d = (600, 800, 0) *)
Lemma reach_upper (g : V -> R) (l : list V) (c : R) : forall acc,
  acc <= c -> (forall v, In v l -> g v <= c) -> fold_left (fun acc v => fmax acc (g v)) l acc <= c.
Proof.
  induction l as [|a l IH]; intros acc Ha Hl; cbn [fold_left]; [exact Ha|].
  apply IH; [rewrite fmax_R; apply Rmax_lub; [exact Ha | apply Hl; left; reflexivity] | intros v Hv; apply Hl; right; exact Hv].
Qed.
Lemma vlen_le (v : V) (c : R) : 0 <= c -> (vlen2 v <= c * c)%R -> vlen v <= c.
Proof. intros Hc H. unfold vlen. rnum. rewrite <- (sqrt_square c) by exact Hc. apply sqrt_le_1_alt. exact H. Qed.
Lemma test_ray_usq : test_ray usq uq = mkV3 600 800 0.
Proof.
  unfold test_ray, loop_ray.
  assert (Hr : loop_reach usq uq <= 2).
  { unfold loop_reach. apply reach_upper; [rnum; lra|]. unfold usq, uq. cbn [verts].
    intros v [E|[E|[E|[E|[]]]]]; subst v; apply vlen_le; try lra; unfold vlen2, vsub; cbn [vx vy vz]; rnum; lra. }
  assert (H0 : 0 <= loop_reach usq uq).
  { unfold loop_reach. destruct (reach_fold (fun v => vlen (vsub v uq)) (verts usq) n0) as [R0 _]. rnum. exact R0. }
  rewrite fmax_R. rnum. rewrite Rmax_right by lra.
  unfold usq, uq, vnth. cbn [verts List.nth].
  assert (Hl : vlen (vsub (mkV3 (4 / 5) (2 / 5) 0) (vscale (vadd (mkV3 0 0 0) (mkV3 1 0 0)) (1 / 2))) = (1 / 2)%R).
  { unfold vlen, vlen2, vsub, vscale, vadd. cbn [vx vy vz]. rnum.
    replace ((4 / 5 - (0 + 1) * (1 / 2)) * (4 / 5 - (0 + 1) * (1 / 2)) + (2 / 5 - (0 + 0) * (1 / 2)) * (2 / 5 - (0 + 0) * (1 / 2)) + (0 - (0 + 0) * (1 / 2)) * (0 - (0 + 0) * (1 / 2)))%R
      with ((1 / 2) * (1 / 2))%R by lra. apply sqrt_square. lra. }
  rewrite Hl. unfold vscale, vsub, vadd. cbn [vx vy vz]. rnum. apply v3_eq; cbn [vx vy vz]; lra.
Qed.

Ltac conc := unfold edge_param in *; unfold sideof, orient3, vlen2, vdot, vcross, vsub, vadd, vscale in *; cbn [vx vy vz] in *; rnum.

Lemma usq_edges (a b : V) : In (a, b) (cyc_edges (verts usq)) ->
  seg_contains_point (seg_new a b) uq = Ok false /\ edge_generic (lnormal usq) uq (test_ray usq uq) a b.
Proof.
  rewrite test_ray_usq. unfold usq, cyc_edges, vnth. cbn [verts lnormal List.nth edges_from]. pose proof neps_lt_quarter as HE. pose proof neps_pos as HP.
  intros [E|[E|[E|[E|[]]]]]; injection E as Ea Eb; subst a b; unfold uq.
  all: split;
    [ apply contains_point_false;
      try (apply vcompare_false; cbn [vx vy vz]; first [left; first [apply Rabs_ge_l; lra | apply Rabs_ge_r; lra] | right; left; first [apply Rabs_ge_l; lra | apply Rabs_ge_r; lra]]);
      conc; lra
    | unfold edge_generic; repeat split; conc; lra ].
Qed.

Lemma usq_gates : lclosed usq = true /\ (2 <= llen usq)%nat /\ vis_zero (lnormal usq) = false /\ 0 < vdot (lnormal usq) (lnormal usq).
Proof.
  repeat split; [cbn; lia | | unfold usq; cbn [lnormal]; conc; lra].
  apply vis_zero_false. right. right. unfold usq. cbn [lnormal vz]. apply Rabs_ge_l. lra.
Qed.

(** the hypotheses of the core theorem hold for the unit square and (4/5, 2/5, 0); the theorem then gives the
    answer [true]: exactly one edge, (1,0)-(1,1), is crossed *)
Theorem usq_inside : loop_test_point usq uq = Ok true.
Proof.
  destruct usq_gates as [G1 [G2 [G3 G4]]].
  rewrite (test_point_counts_crossings usq uq G1 G2 G3 G4 usq_edges). rewrite test_ray_usq. f_equal.
  unfold usq, cyc_edges, vnth, uq. cbn [verts lnormal List.nth edges_from]. unfold countb. cbn [filter fst snd].
  unfold crossb3. conc.
  repeat match goal with
  | |- context [Rltb ?a ?b] => first [rewrite (proj2 (Rltb_true a b)) by lra | rewrite (proj2 (Rltb_false a b)) by lra]
  | |- context [Rleb ?a ?b] => first [rewrite (proj2 (Rleb_true a b)) by lra | rewrite (proj2 (Rleb_false a b)) by lra]
  end.
  reflexivity.
Qed.

(** the cast segment of the code BEFORE fix 6f318c4 for (1/2, 1/10000, 0) -- the witness of finding F7 (i) -- does not
    pass the vertex (1,1,0): the length hypothesis that the pinned theorems need fails there *)
Lemma usq_f7_not_long_enough : ~ long_enough (mkV3 (1 / 2) (1 / 10000) 0) (pinned_ray usq (mkV3 (1 / 2) (1 / 10000) 0)) (verts usq).
Proof.
  intros H. specialize (H (mkV3 1 1 0)). unfold usq, pinned_ray, vnth in H. cbn [verts List.nth] in H.
  assert (I : In (mkV3 1 1 0 : V) [mkV3 0 0 0; mkV3 1 0 0; mkV3 1 1 0; mkV3 0 1 0]) by (right; right; left; reflexivity).
  specialize (H I). conc. lra.
Qed.

(** ** witnesses of the findings on the binary64 instance of the model (the instance run against the crate) *)
Local Open Scope float_scope.
(** the binary64 instance is named explicitly (other instances on [float] exist, e.g. the f32 emulation) *)
Definition ftest := @loop_test_point float NumF.
Definition ftest_pinned := @loop_test_point_pinned float NumF.
Definition fsq (s : float) : Loop float := mkLoop [mkV3 0 0 0; mkV3 s 0 0; mkV3 s s 0; mkV3 0 s 0] (mkV3 0 0 1) true (s * s) (4 * s).
(** (i) ray too short (FIXED by 6f318c4): (0.5, 1e-4, 0) is inside the unit square, 1e-4 away from the midpoint of the first
    edge; the code before the fix answered [false], the live code answers [true] (and [false] for the mirror point outside) *)
Lemma f7_ray_too_short_pinned : ftest_pinned (fsq 1) (mkV3 0.5 1e-4 0) = Ok false /\ ftest_pinned (fsq 1) (mkV3 0.5 0.5 0) = Ok true.
Proof. vm_compute. split; reflexivity. Qed.
Lemma f7_ray_too_short_live : ftest (fsq 1) (mkV3 0.5 1e-4 0) = Ok true /\ ftest (fsq 1) (mkV3 0.5 (-1e-4) 0) = Ok false.
Proof. vm_compute. split; reflexivity. Qed.
(** (ii) on-edge tolerance 1e-5 / |edge|: square of side 0.1, a point 5e-5 OUTSIDE is reported inside *)
Lemma f7_on_edge_tolerance : ftest (fsq 0.1) (mkV3 0.05 (-5e-5) 0) = Ok true /\ ftest (fsq 0.1) (mkV3 0.05 (-2e-4) 0) = Ok false.
Proof. vm_compute. split; reflexivity. Qed.
(** (iv) on-edge parameter from the first coordinate with extent > EPSILON: (1.001, 1.009, 0) is 0.009 above the top edge *)
Definition fquad : Loop float := mkLoop [mkV3 0 0 0; mkV3 1 0 0; mkV3 1.001 1 0; mkV3 0 1 0] (mkV3 0 0 1) true 1 4.
Lemma f7_on_edge_parameter : ftest fquad (mkV3 1.001 1.009 0) = Ok true /\ ftest fquad (mkV3 1.001 1.02 0) = Ok false.
Proof. vm_compute. split; reflexivity. Qed.
(** (iii) vertex grazing: rectangle 0.7 x 0.3, the ray of the interior point (0.175, 0.15, 0) is aimed at the vertex (0, 0.3, 0) *)
Definition frect : Loop float := mkLoop [mkV3 0 0 0; mkV3 0.7 0 0; mkV3 0.7 0.3 0; mkV3 0 0.3 0] (mkV3 0 0 1) true 0.21 2.
Lemma f7_vertex_grazing : ftest frect (mkV3 0.175 0.15 0) = Ok false /\ ftest frect (mkV3 0.175 0.16 0) = Ok true.
Proof. vm_compute. split; reflexivity. Qed.
