(** * C06 proofs: transforms and their stored inverses, on the real instance. *)
From Coq Require Import ZArith Reals Lra Bool List Psatz Nsatz.
From G3 Require Import Model.Num Model.Base Model.Vec Model.BBox Model.Transform Theory.RInst.
Import ListNotations.
Local Open Scope R_scope.

Notation M := (M4 R).
Notation T := (Tr R).
Notation V := (V3 R).

Definition affine (m : M) : Prop := m30 m = 0 /\ m31 m = 0 /\ m32 m = 0 /\ m33 m = 1.
Definition Inv (t : T) : Prop :=
  mul4x4 (elements t) (inv_elements t) = m4_id /\ mul4x4 (inv_elements t) (elements t) = m4_id /\
  affine (elements t) /\ affine (inv_elements t).

Ltac unf := unfold tr_mul_assign, tr_new, tr_translate, tr_scale, tr_rotate_x_sc, tr_rotate_y_sc, tr_rotate_z_sc,
  tr_pt, tr_inv_pt, tr_vec, tr_inv_vec, tr_normal, tr_inv_normal, normal_by, mul4x4point, mul4x4vec, mul4x4, m4_id,
  vdivs, vdot, vadd, vsub, vscale, vneg, det3, affine in *; cbn [elements inv_elements m00 m01 m02 m03 m10 m11 m12 m13 m20 m21 m22 m23 m30 m31 m32 m33 vx vy vz] in *; rnum.

Lemma m4_eq (a b : M) :
  m00 a = m00 b -> m01 a = m01 b -> m02 a = m02 b -> m03 a = m03 b ->
  m10 a = m10 b -> m11 a = m11 b -> m12 a = m12 b -> m13 a = m13 b ->
  m20 a = m20 b -> m21 a = m21 b -> m22 a = m22 b -> m23 a = m23 b ->
  m30 a = m30 b -> m31 a = m31 b -> m32 a = m32 b -> m33 a = m33 b -> a = b.
Proof. destruct a, b; simpl; intros; subst; reflexivity. Qed.

Lemma mul4x4_assoc (a b c : M) : mul4x4 (mul4x4 a b) c = mul4x4 a (mul4x4 b c).
Proof. destruct a, b, c. apply m4_eq; unf; ring. Qed.
Lemma mul4x4_id_l (a : M) : mul4x4 m4_id a = a.
Proof. destruct a. apply m4_eq; unf; ring. Qed.
Lemma mul4x4_id_r (a : M) : mul4x4 a m4_id = a.
Proof. destruct a. apply m4_eq; unf; ring. Qed.
Lemma mul4x4_affine (a b : M) : affine a -> affine b -> affine (mul4x4 a b).
Proof. destruct a, b; unf. intros (?&?&?&?) (?&?&?&?); subst. repeat split; ring. Qed.
Lemma affine_id : affine m4_id.
Proof. unf. repeat split; reflexivity. Qed.

(** ** the invariant holds for every constructor ... *)
Lemma Inv_new : Inv tr_new.
Proof. unfold Inv. cbn [tr_new elements inv_elements]. rewrite mul4x4_id_l. repeat split; reflexivity. Qed.
Lemma Inv_translate x y z : Inv (tr_translate x y z).
Proof. unfold Inv. repeat split; try (apply m4_eq; unf; ring); unf; reflexivity. Qed.
Lemma Inv_scale x y z : x <> 0 -> y <> 0 -> z <> 0 -> Inv (tr_scale x y z).
Proof. intros. unfold Inv. repeat split; try (apply m4_eq; unf; field; assumption); unf; reflexivity. Qed.
Lemma Inv_rotate_x_sc s c : s * s + c * c = 1 -> Inv (tr_rotate_x_sc s c).
Proof. intros H. unfold Inv. repeat split; try (apply m4_eq; unf; nra); unf; reflexivity. Qed.
Lemma Inv_rotate_y_sc s c : s * s + c * c = 1 -> Inv (tr_rotate_y_sc s c).
Proof. intros H. unfold Inv. repeat split; try (apply m4_eq; unf; nra); unf; reflexivity. Qed.
Lemma Inv_rotate_z_sc s c : s * s + c * c = 1 -> Inv (tr_rotate_z_sc s c).
Proof. intros H. unfold Inv. repeat split; try (apply m4_eq; unf; nra); unf; reflexivity. Qed.
Lemma sc1 r : sin r * sin r + cos r * cos r = 1.
Proof. pose proof (sin2_cos2 r) as H. unfold Rsqr in H. exact H. Qed.
Lemma Inv_rotate_x d : Inv (tr_rotate_x d).
Proof. unfold tr_rotate_x. rnum. apply Inv_rotate_x_sc, sc1. Qed.
Lemma Inv_rotate_y d : Inv (tr_rotate_y d).
Proof. unfold tr_rotate_y. rnum. apply Inv_rotate_y_sc, sc1. Qed.
Lemma Inv_rotate_z d : Inv (tr_rotate_z d).
Proof. unfold tr_rotate_z. rnum. apply Inv_rotate_z_sc, sc1. Qed.

(** ** ... and is preserved by [*=] *)
Lemma Inv_mul_assign (a b : T) : Inv a -> Inv b -> Inv (tr_mul_assign a b).
Proof.
  intros (A1 & A2 & A3 & A4) (B1 & B2 & B3 & B4). unfold Inv, tr_mul_assign. cbn [elements inv_elements].
  split; [|split; [|split]].
  - rewrite mul4x4_assoc, <- (mul4x4_assoc (elements b)), B1, mul4x4_id_l. exact A1.
  - rewrite mul4x4_assoc, <- (mul4x4_assoc (inv_elements a)), A2, mul4x4_id_l. exact B2.
  - apply mul4x4_affine; assumption.
  - apply mul4x4_affine; assumption.
Qed.

(** any chain of compositions *)
Definition chain (l : list T) : T := fold_left tr_mul_assign l tr_new.
Lemma Inv_fold l : forall t, Inv t -> Forall Inv l -> Inv (fold_left tr_mul_assign l t).
Proof.
  induction l as [|b l IH]; intros t Ht Hl; cbn [fold_left]; [exact Ht|].
  inversion Hl as [|? ? Hb Hl']; subst. apply IH; [apply Inv_mul_assign; assumption | assumption].
Qed.
Lemma Inv_chain l : Forall Inv l -> Inv (chain l).
Proof. intros. apply Inv_fold; [apply Inv_new | assumption]. Qed.

(** ** acting on points, vectors, normals *)
Lemma pt_mul (a b : M) (p : V) : affine a -> affine b ->
  mul4x4point (mul4x4 a b) p = mul4x4point a (mul4x4point b p).
Proof.
  destruct a, b, p as [px py pz]. unf. intros (?&?&?&?) (?&?&?&?); subst. apply v3_eq; cbn [vx vy vz]; field; lra.
Qed.
Lemma pt_id (p : V) : mul4x4point m4_id p = p.
Proof. destruct p as [px py pz]. unf. apply v3_eq; cbn [vx vy vz]; field; lra. Qed.
Lemma vec_mul (a b : M) (v : V) : affine a -> affine b -> mul4x4vec (mul4x4 a b) v = mul4x4vec a (mul4x4vec b v).
Proof. destruct a, b, v as [wx wy wz]. unf. intros (?&?&?&?) (?&?&?&?); subst. apply v3_eq; cbn [vx vy vz]; ring. Qed.
Lemma vec_id (v : V) : mul4x4vec m4_id v = v.
Proof. destruct v as [wx wy wz]. unf. apply v3_eq; cbn [vx vy vz]; ring. Qed.
Lemma normal_mul (a b : M) (v : V) : affine a -> affine b -> normal_by (mul4x4 a b) v = normal_by b (normal_by a v).
Proof. destruct a, b, v as [wx wy wz]. unf. intros (?&?&?&?) (?&?&?&?); subst. apply v3_eq; cbn [vx vy vz]; ring. Qed.
Lemma normal_id (v : V) : normal_by m4_id v = v.
Proof. destruct v as [wx wy wz]. unf. apply v3_eq; cbn [vx vy vz]; ring. Qed.

Lemma inv_pt_pt (t : T) (p : V) : Inv t -> tr_inv_pt t (tr_pt t p) = p.
Proof. intros (A1 & A2 & A3 & A4). unfold tr_inv_pt, tr_pt. rewrite <- pt_mul, A2 by assumption. apply pt_id. Qed.
Lemma pt_inv_pt (t : T) (p : V) : Inv t -> tr_pt t (tr_inv_pt t p) = p.
Proof. intros (A1 & A2 & A3 & A4). unfold tr_inv_pt, tr_pt. rewrite <- pt_mul, A1 by assumption. apply pt_id. Qed.
Lemma inv_vec_vec (t : T) (v : V) : Inv t -> tr_inv_vec t (tr_vec t v) = v.
Proof. intros (A1 & A2 & A3 & A4). unfold tr_inv_vec, tr_vec. rewrite <- vec_mul, A2 by assumption. apply vec_id. Qed.
Lemma vec_inv_vec (t : T) (v : V) : Inv t -> tr_vec t (tr_inv_vec t v) = v.
Proof. intros (A1 & A2 & A3 & A4). unfold tr_inv_vec, tr_vec. rewrite <- vec_mul, A1 by assumption. apply vec_id. Qed.
Lemma inv_normal_normal (t : T) (n : V) : Inv t -> tr_inv_normal t (tr_normal t n) = n.
Proof. intros (A1 & A2 & A3 & A4). unfold tr_inv_normal, tr_normal. rewrite <- normal_mul, A2 by assumption. apply normal_id. Qed.
Lemma normal_inv_normal (t : T) (n : V) : Inv t -> tr_normal t (tr_inv_normal t n) = n.
Proof. intros (A1 & A2 & A3 & A4). unfold tr_inv_normal, tr_normal. rewrite <- normal_mul, A1 by assumption. apply normal_id. Qed.

(** composing A with B acts as "apply B, then A" *)
Lemma mul_assign_acts_pt (a b : T) (p : V) : Inv a -> Inv b -> tr_pt (tr_mul_assign a b) p = tr_pt a (tr_pt b p).
Proof. intros (_&_&A3&_) (_&_&B3&_). unfold tr_pt, tr_mul_assign. cbn [elements]. apply pt_mul; assumption. Qed.
Lemma mul_assign_acts_vec (a b : T) (v : V) : Inv a -> Inv b -> tr_vec (tr_mul_assign a b) v = tr_vec a (tr_vec b v).
Proof. intros (_&_&A3&_) (_&_&B3&_). unfold tr_vec, tr_mul_assign. cbn [elements]. apply vec_mul; assumption. Qed.
Lemma mul_assign_acts_inv_pt (a b : T) (p : V) : Inv a -> Inv b -> tr_inv_pt (tr_mul_assign a b) p = tr_inv_pt b (tr_inv_pt a p).
Proof. intros (_&_&_&A4) (_&_&_&B4). unfold tr_inv_pt, tr_mul_assign. cbn [inv_elements]. apply pt_mul; assumption. Qed.

(** a normal transformed alongside a surface stays perpendicular: n'.v' = n.v *)
Lemma dot_transpose (a : M) (n v : V) : vdot (normal_by a n) v = vdot n (mul4x4vec a v).
Proof. destruct a, n as [nx ny nz], v as [wx wy wz]. unf. ring. Qed.
Lemma normal_dot_vec (t : T) (n v : V) : Inv t -> vdot (tr_normal t n) (tr_vec t v) = vdot n v.
Proof.
  intros (A1 & A2 & A3 & A4). unfold tr_normal, tr_vec. rewrite dot_transpose, <- vec_mul, A2, vec_id by assumption. reflexivity.
Qed.

(** ** handedness *)
Lemma det3_mul (a b : M) : affine a -> affine b -> det3 (mul4x4 a b) = det3 a * det3 b.
Proof. destruct a, b. unf. intros (?&?&?&?) (?&?&?&?); subst. ring. Qed.
Lemma changes_hands_spec (t : T) : tr_changes_hands t = true <-> det3 (elements t) < 0.
Proof. unfold tr_changes_hands. rnum. apply Rltb_true. Qed.
Lemma changes_hands_mul (a b : T) : Inv a -> Inv b -> det3 (elements a) <> 0 -> det3 (elements b) <> 0 ->
  tr_changes_hands (tr_mul_assign a b) = xorb (tr_changes_hands a) (tr_changes_hands b).
Proof.
  intros (_&_&A3&_) (_&_&B3&_) Ha Hb. unfold tr_changes_hands, tr_mul_assign. cbn [elements]. rnum.
  rewrite det3_mul by assumption.
  rcase (det3 (elements a)) 0 H1; rcase (det3 (elements b)) 0 H2; cbn [xorb];
    [apply Rltb_false | apply Rltb_true | apply Rltb_true | apply Rltb_false]; nra.
Qed.
Lemma det_translate x y z : det3 (elements (tr_translate x y z)) = 1.
Proof. unf. ring. Qed.
Lemma det_scale x y z : det3 (elements (tr_scale x y z)) = x * y * z.
Proof. unf. ring. Qed.
Lemma det_rotate_x_sc s c : s * s + c * c = 1 -> det3 (elements (tr_rotate_x_sc s c)) = 1.
Proof. intros. unf. nra. Qed.
Lemma det_rotate_y_sc s c : s * s + c * c = 1 -> det3 (elements (tr_rotate_y_sc s c)) = 1.
Proof. intros. unf. nra. Qed.
Lemma det_rotate_z_sc s c : s * s + c * c = 1 -> det3 (elements (tr_rotate_z_sc s c)) = 1.
Proof. intros. unf. nra. Qed.
Lemma Inv_det_nonzero (t : T) : Inv t -> det3 (elements t) <> 0.
Proof.
  intros (A1 & _ & A3 & A4). assert (H : det3 (mul4x4 (elements t) (inv_elements t)) = 1) by (rewrite A1; unf; ring).
  rewrite det3_mul in H by assumption. intros E. rewrite E in H. lra.
Qed.
Lemma scale_mirrors x y z : tr_changes_hands (tr_scale x y z) = true <-> x * y * z < 0.
Proof. rewrite changes_hands_spec, det_scale. reflexivity. Qed.

(** ** rotations are rigid and counter-clockwise *)
Lemma rotate_x_rigid (s c : R) (u v : V) : s * s + c * c = 1 -> vdot (tr_vec (tr_rotate_x_sc s c) u) (tr_vec (tr_rotate_x_sc s c) v) = vdot u v.
Proof. intros H. destruct u as [ux uy uz], v as [wx wy wz]. unf. nsatz. Qed.
Lemma rotate_y_rigid (s c : R) (u v : V) : s * s + c * c = 1 -> vdot (tr_vec (tr_rotate_y_sc s c) u) (tr_vec (tr_rotate_y_sc s c) v) = vdot u v.
Proof. intros H. destruct u as [ux uy uz], v as [wx wy wz]. unf. nsatz. Qed.
Lemma rotate_z_rigid (s c : R) (u v : V) : s * s + c * c = 1 -> vdot (tr_vec (tr_rotate_z_sc s c) u) (tr_vec (tr_rotate_z_sc s c) v) = vdot u v.
Proof. intros H. destruct u as [ux uy uz], v as [wx wy wz]. unf. nsatz. Qed.
(** counter-clockwise about the axis for a positive angle: y-hat -> (0, cos, sin) about x; z-hat -> (sin,0,cos) about y; x-hat -> (cos, sin, 0) about z; the axis is fixed *)
Lemma rotate_x_ccw s c : tr_vec (tr_rotate_x_sc s c) (mkV3 0 1 0) = mkV3 0 c s /\ tr_vec (tr_rotate_x_sc s c) (mkV3 1 0 0) = mkV3 1 0 0.
Proof. split; unf; apply v3_eq; cbn [vx vy vz]; ring. Qed.
Lemma rotate_y_ccw s c : tr_vec (tr_rotate_y_sc s c) (mkV3 0 0 1) = mkV3 s 0 c /\ tr_vec (tr_rotate_y_sc s c) (mkV3 0 1 0) = mkV3 0 1 0.
Proof. split; unf; apply v3_eq; cbn [vx vy vz]; ring. Qed.
Lemma rotate_z_ccw s c : tr_vec (tr_rotate_z_sc s c) (mkV3 1 0 0) = mkV3 c s 0 /\ tr_vec (tr_rotate_z_sc s c) (mkV3 0 0 1) = mkV3 0 0 1.
Proof. split; unf; apply v3_eq; cbn [vx vy vz]; ring. Qed.

(** ** rays: direction comes back exactly; the origin comes back on the same line, nudged forward *)
Lemma neps_pos : 0 < @neps R _.
Proof. rnum. apply Rinv_0_lt_compat, IZR_lt. reflexivity. Qed.
Lemma neps_small : @neps R _ < / 1000.
Proof. rnum. apply Rinv_lt_contravar; [apply Rmult_lt_0_compat; [lra | apply IZR_lt; reflexivity] | apply IZR_lt; reflexivity]. Qed.
Lemma gamma_pos n : (0 < n <= 100)%Z -> 0 < @ngamma R _ n.
Proof.
  intros Hn. unfold ngamma. rnum. pose proof neps_pos as H1. pose proof neps_small as H2. rnum.
  assert (Hn1 : 1 <= IZR n) by (apply IZR_le; lia). assert (Hn2 : IZR n <= 100) by (apply IZR_le; lia).
  apply Rdiv_lt_0_compat; nra.
Qed.

Lemma pt_affine_comb (m : M) (p v : V) (t : R) : affine m ->
  mul4x4point m (vadd p (vscale v t)) = vadd (mul4x4point m p) (vscale (mul4x4vec m v) t).
Proof. destruct m, p as [px py pz], v as [wx wy wz]. unf. intros (?&?&?&?); subst. apply v3_eq; cbn [vx vy vz]; field; lra. Qed.

Lemma abs_err_nonneg (m : M) (x y z g : R) : 0 <= g ->
  let e := vscale (mul4x4_abs m x y z) g in 0 <= vx e /\ 0 <= vy e /\ 0 <= vz e.
Proof.
  intros Hg. unfold mul4x4_abs, vscale. cbn [vx vy vz]. rnum.
  repeat split; apply Rmult_le_pos; try assumption;
    repeat apply Rplus_le_le_0_compat; apply Rabs_pos.
Qed.

Lemma nudge_spec (o d e : V) : 0 <= vx e -> 0 <= vy e -> 0 <= vz e ->
  exists dt, 0 <= dt /\ nudge o d e = vadd o (vscale d dt).
Proof.
  intros Hx Hy Hz. unfold nudge. rnum. destruct (Rltb 0 (vlen2 d)) eqn:E.
  - apply Rltb_true in E. eexists; split; [|reflexivity].
    apply Rmult_le_pos; [|left; apply Rinv_0_lt_compat; exact E].
    unfold vdot, vabs. cbn [vx vy vz]. rnum.
    repeat apply Rplus_le_le_0_compat; apply Rmult_le_pos; try assumption; apply Rabs_pos.
  - exists 0. split; [lra|]. destruct o as [ox oy oz], d as [dx dy dz]. unfold vadd, vscale. cbn [vx vy vz]. rnum.
    apply v3_eq; cbn [vx vy vz]; ring.
Qed.

Lemma ray_by_spec (m : M) (r : Ray R) : affine m ->
  let '(r', oe, de) := ray_by m r in
  rdir r' = mul4x4vec m (rdir r) /\
  exists dt, 0 <= dt /\ rorigin r' = vadd (mul4x4point m (rorigin r)) (vscale (mul4x4vec m (rdir r)) dt).
Proof.
  intros Ha. unfold ray_by, pt_with_error, vec_with_error. cbn [rdir rorigin]. split; [reflexivity|].
  pose proof (gamma_pos 4 ltac:(lia)) as Hg.
  destruct (abs_err_nonneg m (vx (rorigin r)) (vy (rorigin r)) (vz (rorigin r)) (ngamma 4) (Rlt_le _ _ Hg)) as (E1 & E2 & E3).
  apply nudge_spec; assumption.
Qed.

Lemma vadd_assoc_scale (o d : V) (a b : R) : vadd (vadd o (vscale d a)) (vscale d b) = vadd o (vscale d (a + b)).
Proof. destruct o as [ox oy oz], d as [dx dy dz]. unfold vadd, vscale. cbn [vx vy vz]. rnum. apply v3_eq; cbn [vx vy vz]; ring. Qed.

Lemma ray_round_trip (t : T) (r : Ray R) : Inv t ->
  let '(r1, _, _) := tr_ray t r in
  let '(r2, _, _) := tr_inv_ray t r1 in
  rdir r2 = rdir r /\ exists dt, 0 <= dt /\ rorigin r2 = vadd (rorigin r) (vscale (rdir r) dt).
Proof.
  intros Hi. pose proof Hi as (A1 & A2 & A3 & A4). unfold tr_ray, tr_inv_ray.
  pose proof (ray_by_spec (elements t) r A3) as H1. destruct (ray_by (elements t) r) as [[r1 oe1] de1].
  destruct H1 as (D1 & dt1 & P1 & O1).
  pose proof (ray_by_spec (inv_elements t) r1 A4) as H2. destruct (ray_by (inv_elements t) r1) as [[r2 oe2] de2].
  destruct H2 as (D2 & dt2 & P2 & O2).
  split.
  - rewrite D2, D1. apply (inv_vec_vec t (rdir r) Hi).
  - exists (dt1 + dt2). split; [lra|].
    rewrite O2, D1, O1, pt_affine_comb by assumption.
    change (mul4x4point (inv_elements t) (mul4x4point (elements t) (rorigin r))) with (tr_inv_pt t (tr_pt t (rorigin r))).
    change (mul4x4vec (inv_elements t) (mul4x4vec (elements t) (rdir r))) with (tr_inv_vec t (tr_vec t (rdir r))).
    rewrite inv_pt_pt, inv_vec_vec by assumption. apply vadd_assoc_scale.
Qed.

(** elementary transforms and their chains, as the property quantifies over them *)
Inductive elem : Type :=
| ETranslate (x y z : R) | EScale (x y z : R) | ERotX (deg : R) | ERotY (deg : R) | ERotZ (deg : R).
Definition elem_ok (e : elem) : Prop :=
  match e with EScale x y z => x <> 0 /\ y <> 0 /\ z <> 0 | _ => True end.
Definition elem_tr (e : elem) : T :=
  match e with
  | ETranslate x y z => tr_translate x y z | EScale x y z => tr_scale x y z
  | ERotX d => tr_rotate_x d | ERotY d => tr_rotate_y d | ERotZ d => tr_rotate_z d
  end.
Lemma Inv_elem e : elem_ok e -> Inv (elem_tr e).
Proof.
  destruct e; cbn [elem_ok elem_tr]; intros H;
    [apply Inv_translate | destruct H as (?&?&?); apply Inv_scale; assumption | apply Inv_rotate_x | apply Inv_rotate_y | apply Inv_rotate_z].
Qed.
Lemma Inv_elem_chain (l : list elem) : Forall elem_ok l -> Inv (chain (map elem_tr l)).
Proof.
  intros H. apply Inv_chain. induction H as [|e l He Hl IH]; cbn [map]; constructor; [apply Inv_elem; exact He | exact IH].
Qed.
(** the chain acts as the composition, first element outermost *)
Fixpoint act (l : list T) (p : V) : V := match l with [] => p | t :: l' => tr_pt t (act l' p) end.
Lemma fold_acts (l : list T) : forall t p, Inv t -> Forall Inv l ->
  tr_pt (fold_left tr_mul_assign l t) p = tr_pt t (act l p).
Proof.
  induction l as [|b l IH]; intros t p Ht Hl; cbn [fold_left act]; [reflexivity|].
  inversion Hl as [|? ? Hb Hl']; subst.
  rewrite IH by (try apply Inv_mul_assign; assumption). apply mul_assign_acts_pt; assumption.
Qed.
Lemma chain_acts (l : list T) (p : V) : Forall Inv l -> tr_pt (chain l) p = act l p.
Proof. intros H. unfold chain. rewrite fold_acts by (try apply Inv_new; assumption). unfold tr_pt, tr_new. cbn [elements]. apply pt_id. Qed.

Lemma rotations_rigid (d : R) (u v : V) :
  vdot (tr_vec (tr_rotate_x d) u) (tr_vec (tr_rotate_x d) v) = vdot u v /\
  vdot (tr_vec (tr_rotate_y d) u) (tr_vec (tr_rotate_y d) v) = vdot u v /\
  vdot (tr_vec (tr_rotate_z d) u) (tr_vec (tr_rotate_z d) v) = vdot u v.
Proof.
  unfold tr_rotate_x, tr_rotate_y, tr_rotate_z. rnum.
  repeat split; [apply rotate_x_rigid | apply rotate_y_rigid | apply rotate_z_rigid]; apply sc1.
Qed.
Lemma rotations_ccw (d : R) : let r := to_radians d in
  tr_vec (tr_rotate_x d) (mkV3 0 1 0) = mkV3 0 (cos r) (sin r) /\
  tr_vec (tr_rotate_y d) (mkV3 0 0 1) = mkV3 (sin r) 0 (cos r) /\
  tr_vec (tr_rotate_z d) (mkV3 1 0 0) = mkV3 (cos r) (sin r) 0.
Proof.
  unfold tr_rotate_x, tr_rotate_y, tr_rotate_z. rnum. cbv zeta.
  repeat split; [apply rotate_x_ccw | apply rotate_y_ccw | apply rotate_z_ccw].
Qed.
Lemma rigid_keep_hands (x y z d : R) :
  tr_changes_hands (tr_translate x y z) = false /\ tr_changes_hands (tr_rotate_x d) = false /\
  tr_changes_hands (tr_rotate_y d) = false /\ tr_changes_hands (tr_rotate_z d) = false.
Proof.
  unfold tr_changes_hands, tr_rotate_x, tr_rotate_y, tr_rotate_z. rnum.
  rewrite det_translate, det_rotate_x_sc, det_rotate_y_sc, det_rotate_z_sc by apply sc1.
  repeat split; apply Rltb_false; lra.
Qed.
Lemma C06_nonvacuous_proof : Forall elem_ok [ETranslate 1 2 3; EScale 2 (-1) (1/2); ERotZ 90].
Proof. repeat constructor; cbn [elem_ok]; lra. Qed.
From G3 Require Import Model.Pinned.
Lemma pinned_mul_assign_breaks_Inv : exists a b : T, Inv a /\ Inv b /\ ~ Inv (tr_mul_assign_pinned a b).
Proof.
  exists (tr_translate 1 0 0), (tr_rotate_z_sc 1 0). split; [apply Inv_translate|]. split; [apply Inv_rotate_z_sc; lra|].
  intros (H & _). apply (f_equal m13) in H. revert H. unfold tr_mul_assign_pinned. unf. lra.
Qed.
