(** * Mesh_region_ex: concrete inputs for Properties/C08_region.v (non-vacuity, and one witness about tolerances). *)
From Coq Require Import ZArith Reals Lra Lia List Bool Arith Permutation Floats.
Set Warnings "-inexact-float".
From G3 Require Import Model.Num Model.NumF Model.Base Model.Vec Model.Segment Model.Triangle Model.Loop Model.Polygon Model.Triangulation
  Theory.RInst Theory.Cyclic Theory.Winding
  Proofs.Mesh_base Proofs.Mesh_wf Proofs.Mesh_conf Proofs.Mesh_region Proofs.Mesh_atomic.
From G3 Require Proofs.C05_pointtest.
Import ListNotations.

(** ** binary64: the unit-square mesh (built here slot by slot with the model's own push / mark_as_neighbours / constrain,
    independently of from_polygon) is structurally sound and each step returns Ok on it *)
Definition q2 (x y : float) : V3 float := mkV3 x y 0%float.
Definition sq_build : MR (K:=float) unit :=
  mbind (mesh_push (q2 0 0) (q2 1 0) (q2 1 1) 0) (fun _ =>
  mbind (mesh_push (q2 0 0) (q2 1 1) (q2 0 1) 0) (fun _ =>
  mbind (mark_as_neighbours 0 Ca 1) (fun _ =>
  mbind (mupd 95 0 (tp_constrain Ab)) (fun _ =>
  mbind (mupd 95 0 (tp_constrain Bc)) (fun _ =>
  mbind (mupd 95 1 (tp_constrain Bc)) (fun _ =>
  mupd 95 1 (tp_constrain Ca))))))).
Definition sqM : Mesh float := fst (sq_build mesh_new).
Lemma sqM_sound : Sound sqM.
Proof.
  unfold sqM. destruct (sq_build mesh_new) as [M r] eqn:E. cbn [fst].
  assert (G1 : Pres Rwf sq_build) by (unfold sq_build; repeat first [apply wf_push | apply wf_mark | apply wf_constrain | apply wf_bind; [|intros ?]]).
  assert (G2 : Pres Rcnt sq_build)
    by (unfold sq_build; repeat first [apply cnt_push | apply cnt_mark | apply cnt_mupd; intros ?; apply constrain_valid | apply (pres_bind Rcnt Rcnt_trans); [|intros ?]]).
  split; [exact (proj2 (G1 _ _ _ E) WF_new) | split; [exact (G2 _ _ _ E eq_refl)|]].
  apply lnkb_sound. replace M with (fst (sq_build mesh_new)) by (rewrite E; reflexivity). vm_compute. reflexivity.
Qed.
Lemma steps_nonvacuous :
  exists M : Mesh float, Sound M /\ length (live_tris M) = 2%nat /\
    (exists M', split_triangle 0 (q2 0.6 0.2) M = (M', Ok tt) /\ length (live_tris M') = 4%nat) /\
    (exists e M', flip_diagonal 0 e M = (M', Ok tt) /\ length (live_tris M') = 2%nat) /\
    (exists e M', split_edge 0 e (q2 0.5 0.5) M = (M', Ok tt) /\ length (live_tris M') = 4%nat).
Proof.
  exists sqM. split; [exact sqM_sound|]. split; [vm_compute; reflexivity|].
  split; [eexists; split; vm_compute; reflexivity|].
  split; [exists Ca; eexists; split; vm_compute; reflexivity|].
  exists Ca; eexists; split; vm_compute; reflexivity.
Qed.

(** ** reals: the quantities on the unit square *)
Local Open Scope R_scope.
Lemma cover_area_unit_square :
  let a := (0, 0) in let b := (1, 0) in let c := (1, 1) in let d := (0, 1) in let m := (/ 2, / 2) in
  area2sum [(a, b, c); (a, c, d)] = 2 /\ area2sum [(d, a, b); (d, b, c)] = 2 /\
  area2sum [(a, b, m); (m, b, c); (c, d, m); (m, d, a)] = 2 /\
  cover (1, 0) [(a, b, c); (a, c, d)] (/ 2, / 3) = 1%Z /\ cover (1, 0) [(d, a, b); (d, b, c)] (/ 2, / 3) = 1%Z.
Proof.
  cbn zeta. repeat split.
  - unfold area2sum, tsum, orient; cbn [fold_right fst snd]. lra.
  - unfold area2sum, tsum, orient; cbn [fold_right fst snd]. lra.
  - unfold area2sum, tsum, orient; cbn [fold_right fst snd]. lra.
  - rewrite cover_counts_inside.
    + unfold count_inside. cbn [filter fst snd].
      replace (inside_trib (0, 0) (1, 0) (1, 1) (/ 2, / 3)) with true by (symmetry; apply inside_trib_spec; left; unfold orient; cbn [fst snd]; repeat split; lra).
      replace (inside_trib (0, 0) (1, 1) (0, 1) (/ 2, / 3)) with false by (symmetry; apply inside_trib_false; intros [(A & B & C) | (A & B & C)]; unfold orient in *; cbn [fst snd] in *; lra).
      reflexivity.
    + intros x y z [E | [E | []]]; inversion E; subst; (split; [unfold orient; cbn [fst snd]; lra|]); (split; [intros v [<- | [<- | [<- | []]]]; unfold hgt; cbn [fst snd]; lra | unfold off_lines, orient; cbn [fst snd]; repeat split; lra]).
  - rewrite cover_counts_inside.
    + unfold count_inside. cbn [filter fst snd].
      replace (inside_trib (0, 1) (0, 0) (1, 0) (/ 2, / 3)) with true by (symmetry; apply inside_trib_spec; left; unfold orient; cbn [fst snd]; repeat split; lra).
      replace (inside_trib (0, 1) (1, 0) (1, 1) (/ 2, / 3)) with false by (symmetry; apply inside_trib_false; intros [(A & B & C) | (A & B & C)]; unfold orient in *; cbn [fst snd] in *; lra).
      reflexivity.
    + intros x y z [E | [E | []]]; inversion E; subst; (split; [unfold orient; cbn [fst snd]; lra|]); (split; [intros v [<- | [<- | [<- | []]]]; unfold hgt; cbn [fst snd]; lra | unfold off_lines, orient; cbn [fst snd]; repeat split; lra]).
Qed.

(** ** the location test of the model is a tolerance test *)
Ltac rdecb :=
  repeat match goal with
  | |- context [Rleb ?a ?b] =>
    first [ replace (Rleb a b) with true by (symmetry; apply Rleb_true; lra) | replace (Rleb a b) with false by (symmetry; apply Rleb_false; lra) ]
  | |- context [Rltb ?a ?b] =>
    first [ replace (Rltb a b) with true by (symmetry; apply Rltb_true; lra) | replace (Rltb a b) with false by (symmetry; apply Rltb_false; lra) ]
  end.
Definition wA : V3 R := mkV3 0 0 0.
Definition wB : V3 R := mkV3 1 0 0.
Definition wC : V3 R := mkV3 0 1 0.
Definition weps : R := / IZR (2 ^ 52).
Lemma weps_bounds : 0 < weps < / 1000.
Proof. unfold weps. change (2 ^ 52)%Z with 4503599627370496%Z. split; lra. Qed.
Lemma located_on_edge_is_not_exact :
  exists (T : Tri R) (p : V3 R) (o e1 e2 : V3 R),
    tri_test_point T p = EdgeAB /\
    orient (C05_pointtest.plane2 o e1 e2 (ta T)) (C05_pointtest.plane2 o e1 e2 (tb T)) (C05_pointtest.plane2 o e1 e2 p) <> 0.
Proof.
  exists (mkTri wA wB wC (mkV3 0 0 1) (/ 2)), (mkV3 (/ 2) (50 * weps) 0), wA, wB, wC.
  pose proof weps_bounds as He. split.
  - unfold tri_test_point, wA, wB, wC. cbn [ta tb tc]. unfold vsub, vdot. cbn [vx vy vz]. unfold ctiny. rnum. fold weps.
    generalize dependent weps. intros e He.
    set (det := ((1 - 0) * (1 - 0) + (0 - 0) * (0 - 0) + (0 - 0) * (0 - 0)) * ((0 - 0) * (0 - 0) + (1 - 0) * (1 - 0) + (0 - 0) * (0 - 0)) -
                ((0 - 0) * (1 - 0) + (1 - 0) * (0 - 0) + (0 - 0) * (0 - 0)) * ((0 - 0) * (1 - 0) + (1 - 0) * (0 - 0) + (0 - 0) * (0 - 0))).
    replace det with 1 by (unfold det; ring). rdecb. reflexivity.
  - cbn [ta tb tc]. unfold C05_pointtest.plane2, orient, wA, wB, wC, vsub, vdot. cbn [vx vy vz fst snd]. rnum. lra.
Qed.

(** ** reals: a single triangle split at an interior point (the step returns Ok by [split_triangle_progress]) *)
Ltac rabs_lra := unfold Rabs; repeat (match goal with |- context [Rcase_abs ?x] => destruct (Rcase_abs x) end); lra.
Lemma sqrt_ge (c X : R) : 0 <= c -> c * c <= X -> c <= R_sqrt.sqrt X.
Proof. intros Hc H. rewrite <- (sqrt_square c Hc). apply sqrt_le_1_alt. exact H. Qed.
Lemma tri_new_ok_R (a b c : V3 R) :
  vcompare a b = false -> vcompare a c = false -> vcompare b c = false ->
  1 / 100000 <= vlen (vcross (vsub b a) (vsub c b)) ->
  tri_new a b c = Ok (mkTri a b c (tri_normal_of a b c) (heron (pdist a b) (pdist b c) (pdist c a))).
Proof.
  intros H1 H2 H3 H4. unfold tri_new, is_collinear. rewrite H1, H2, H3. cbn [orb andb unwrap rbind].
  replace (nltb (vlen (vcross (vsub b a) (vsub c b))) c1em5) with false; [reflexivity|].
  symmetry. unfold c1em5. rnum. apply Rltb_false. exact H4.
Qed.
Lemma seg_rev_R (x y : V3 R) : seg_compare (seg_new x y) (seg_new y x) = true.
Proof. unfold seg_compare, seg_new. cbn [sstart send]. rewrite !vcompare_refl_R. cbn [andb]. apply orb_true_r. Qed.
Lemma shares_rev_R (T1 T2 : Tri R) (e1 : Edge) (x y : V3 R) :
  tri_segment T1 (edge_as_i e1) = Ok (seg_new x y) ->
  (tri_ab T2 = seg_new y x \/ tri_bc T2 = seg_new y x \/ tri_ca T2 = seg_new y x) -> shares T1 e1 T2.
Proof.
  intros E H sg Es. rewrite E in Es. inversion Es; subst sg. unfold tri_get_edge_index_from_segment.
  destruct H as [H | [H | H]]; rewrite H, ?seg_rev_R;
    repeat (match goal with |- context [if ?b then _ else _] => destruct b end); discriminate.
Qed.

Definition xT0 : Tri R := mkTri wA wB wC (mkV3 0 0 1) (/ 2).
Definition xt0 : TriPiece R := mkTP xT0 None None None false false false 0 wA wA true 0.
Definition xM : Mesh R := mkMesh [xt0] 1.
Definition xp : V3 R := mkV3 (/ 4) (/ 4) 0.
Ltac vcdec :=
  unfold vcompare, c1em5, wA, wB, wC, xp; cbn [vx vy vz]; rnum;
  repeat match goal with
  | |- context [Rltb ?a ?b] =>
    first [ replace (Rltb a b) with true by (symmetry; apply Rltb_true; rabs_lra) | replace (Rltb a b) with false by (symmetry; apply Rltb_false; rabs_lra) ]
  end; reflexivity.
Lemma vlen_z (z : R) : 0 <= z -> vlen (mkV3 0 0 z : V3 R) = z.
Proof. intros Hz. unfold vlen, vlen2. cbn [vx vy vz]. rnum. replace (0 * 0 + 0 * 0 + z * z) with (z * z) by ring. apply sqrt_square. exact Hz. Qed.
Lemma x_children :
  exists T1 T2 T3, tri_new wC wA xp = Ok T1 /\ tri_new wA wB xp = Ok T2 /\ tri_new wB wC xp = Ok T3 /\
    tri_pts T1 = (wC, wA, xp) /\ tri_pts T2 = (wA, wB, xp) /\ tri_pts T3 = (wB, wC, xp).
Proof.
  assert (C : forall a b c z, vcross (vsub b a) (vsub c b) = mkV3 0 0 z -> 1 / 100000 <= z -> 1 / 100000 <= vlen (vcross (vsub b a) (vsub c b)))
    by (intros a b c z E Hz; rewrite E, vlen_z; lra).
  eexists; eexists; eexists. split; [|split; [|split]].
  - apply tri_new_ok_R; [vcdec | vcdec | vcdec |]. apply (C _ _ _ (/ 4)); [|lra]. unfold vcross, vsub, wA, wC, xp. cbn [vx vy vz]. rnum. f_equal; field.
  - apply tri_new_ok_R; [vcdec | vcdec | vcdec |]. apply (C _ _ _ (/ 4)); [|lra]. unfold vcross, vsub, wA, wB, xp. cbn [vx vy vz]. rnum. f_equal; field.
  - apply tri_new_ok_R; [vcdec | vcdec | vcdec |]. apply (C _ _ _ (/ 2)); [|lra]. unfold vcross, vsub, wC, wB, xp. cbn [vx vy vz]. rnum. f_equal; field.
  - repeat split; reflexivity.
Qed.
Lemma tri_pts_inv (T : Tri R) (a b c : V3 R) : tri_pts T = (a, b, c) -> ta T = a /\ tb T = b /\ tc T = c.
Proof. unfold tri_pts. intros H. inversion H. auto. Qed.
Lemma x_split_ok : exists M', split_triangle 0 xp xM = (M', Ok tt).
Proof.
  destruct x_children as (T1 & T2 & T3 & E1 & E2 & E3 & P1 & P2 & P3).
  assert (ND : tri_nondeg xT0) by (unfold tri_nondeg, xT0; cbn [ta tb tc]; repeat split; vcdec).
  destruct (tri_pts_inv _ _ _ _ P1) as (A1 & B1 & C1). destruct (tri_pts_inv _ _ _ _ P2) as (A2 & B2 & C2). destruct (tri_pts_inv _ _ _ _ P3) as (A3 & B3 & C3).
  eapply (split_triangle_progress 0 xp xM xt0 T1 T2 T3 Ab Bc Ca).
  - intros i t H e j Hn. destruct i as [|[|i]]; cbn in H; try discriminate. inversion H; subst t. destruct e; discriminate.
  - reflexivity.
  - intros i t H Hv e j Hn. destruct i as [|[|i]]; cbn in H; try discriminate. inversion H; subst t. destruct e; discriminate.
  - reflexivity.
  - reflexivity.
  - change (match tri_get_edge_index_from_segment xT0 (tri_ab xT0) with Some i => edge_from_i i | None => Err 107%N end = Ok Ab). rewrite (seg_self xT0 0 _ ND eq_refl). reflexivity.
  - change (match tri_get_edge_index_from_segment xT0 (tri_bc xT0) with Some i => edge_from_i i | None => Err 107%N end = Ok Bc). rewrite (seg_self xT0 1 _ ND eq_refl). reflexivity.
  - change (match tri_get_edge_index_from_segment xT0 (tri_ca xT0) with Some i => edge_from_i i | None => Err 107%N end = Ok Ca). rewrite (seg_self xT0 2 _ ND eq_refl). reflexivity.
  - exact E1.
  - exact E2.
  - exact E3.
  - apply (shares_rev_R T1 T2 Bc wA xp); [cbn [edge_as_i tri_segment]; unfold tri_bc; rewrite B1, C1; reflexivity | right; right; unfold tri_ca; rewrite C2, A2; reflexivity].
  - apply (shares_rev_R T2 T3 Bc wB xp); [cbn [edge_as_i tri_segment]; unfold tri_bc; rewrite B2, C2; reflexivity | right; right; unfold tri_ca; rewrite C3, A3; reflexivity].
  - apply (shares_rev_R T3 T1 Bc wC xp); [cbn [edge_as_i tri_segment]; unfold tri_bc; rewrite B3, C3; reflexivity | right; right; unfold tri_ca; rewrite C1, A1; reflexivity].
  - intros n u Hn. discriminate.
  - intros n u Hn. discriminate.
  - intros n u Hn. discriminate.
Qed.
Lemma region_nonvacuous :
  exists (M M' : Mesh R) (p : V3 R), split_triangle 0 p M = (M', Ok tt) /\
    (mesh_area2 (mkV3 0 0 0) (mkV3 1 0 0) (mkV3 0 1 0) M = 1 /\ mesh_area2 (mkV3 0 0 0) (mkV3 1 0 0) (mkV3 0 1 0) M' = 1 /\
     AllPos (mkV3 0 0 0) (mkV3 1 0 0) (mkV3 0 1 0) M') /\ length (live_tris M') = 3%nat.
Proof.
  destruct x_split_ok as (M' & H). exists xM, M', xp. split; [exact H|].
  assert (A0 : mesh_area2 (mkV3 0 0 0) (mkV3 1 0 0) (mkV3 0 1 0) xM = 1).
  { unfold mesh_area2, tris2, live_tris, live_l, xM, xt0. cbn [tris filter tp_valid map tp_tri]. unfold t2, xT0, area2sum, tsum. cbn [fold_right ta tb tc fst snd].
    unfold C05_pointtest.plane2, orient, wA, wB, wC, vsub, vdot. cbn [vx vy vz fst snd]. rnum. lra. }
  split; [split; [exact A0|]; split; [rewrite (proj1 (region_split_triangle _ _ _ _ _ _ _ H)); exact A0|] |].
  - apply (pos_mesh_split_triangle _ _ _ 0 xp xM M'); [| exact H |].
    + intros t Ht. cbn in Ht. inversion Ht; subst t. cbn [xt0 tp_tri xT0 ta tb tc]. left.
      unfold C05_pointtest.plane2, orient, wA, wB, wC, xp, vsub, vdot. cbn [vx vy vz fst snd]. rnum. repeat split; lra.
    + unfold AllPos, tris2, live_tris, live_l, xM, xt0. cbn [tris filter tp_valid map tp_tri]. constructor; [|constructor].
      unfold pos3, t2, xT0. cbn [ta tb tc fst snd]. unfold C05_pointtest.plane2, orient, wA, wB, wC, vsub, vdot. cbn [vx vy vz fst snd]. rnum. lra.
  - destruct (live_split_triangle _ _ _ _ H) as (t & T1 & T2 & T3 & rest & _ & _ & _ & _ & _ & P0 & P1).
    apply Permutation_length in P0. apply Permutation_length in P1. change (live_tris xM) with [xT0] in P0. rewrite P1. cbn [length] in *. lia.
Qed.
