(** * C10 proofs: area, perimeter, normal and centroid of a closed loop (real-number instance). *)
From Coq Require Import ZArith Reals Lra Lia Bool List Arith Psatz Nsatz.
From G3 Require Import Model.Num Model.Base Model.Vec Model.Segment Model.Loop Model.Polygon Theory.RInst Theory.LoopGeom.
Import ListNotations.
Local Open Scope R_scope.

Lemma vscale_m1 (a : V) : vscale a (- n1)%num = vneg a.
Proof. vring. Qed.

(** ** set_area *)
Theorem set_area_spec (L : Loop R) :
  lclosed L = true -> vis_zero (lnormal L) = false -> (3 <= llen L)%nat ->
  exists L', loop_set_area L = Ok L' /\ verts L' = verts L /\ lclosed L' = true /\ lperim L' = lperim L
    /\ larea L' = Rabs (vdot (lnormal L) (newell (verts L))) / 2
    /\ (lnormal L' = lnormal L \/ lnormal L' = vneg (lnormal L))
    /\ 0 <= vdot (lnormal L') (newell (verts L)).
Proof.
  intros Hc Hz Hn. unfold loop_set_area. rewrite Hc, Hz. cbn [negb].
  assert (E : Nat.ltb (llen L) 3 = false) by (apply Nat.ltb_ge; exact Hn). rewrite E.
  rewrite sum_cross_newell. set (S := newell (verts L)). set (n := lnormal L).
  eexists. split; [reflexivity|]. cbn [verts lclosed lperim larea lnormal].
  repeat split.
  - rnum. unfold Rdiv. rewrite Rabs_mult. rewrite (Rabs_pos_eq (/ 2)) by lra. reflexivity.
  - rnum. destruct (Rltb (vdot n S / 2) 0); [right; apply vscale_m1 | left; reflexivity].
  - rnum. destruct (Rltb (vdot n S / 2) 0) eqn:Ea.
    + apply Rltb_true in Ea. rewrite vscale_m1, vdot_neg_l. lra.
    + apply Rltb_false in Ea. lra.
Qed.

(** for an exactly planar loop and a unit normal of that plane, the reported area is |S|/2:
    its square is |S|^2/4 (S = the Newell vector, whose length is twice the polygon's area) *)
Theorem set_area_true_area (L L' : Loop R) (v0 : V) :
  loop_set_area L = Ok L' -> hd vzero (verts L) = v0 ->
  vdot (lnormal L) (lnormal L) = 1 -> (forall v, In v (verts L) -> vdot (lnormal L) (vsub v v0) = 0) ->
  (larea L' * larea L' = vdot (newell (verts L)) (newell (verts L)) / 4)%R /\ 0 <= larea L'.
Proof.
  intros E Hh Hu Hp. unfold loop_set_area in E.
  destruct (negb (lclosed L)); [discriminate|]. destruct (vis_zero (lnormal L)); [discriminate|].
  destruct (Nat.ltb (llen L) 3); [discriminate|]. injection E as E. subst L'. cbn [larea].
  rewrite sum_cross_newell. set (S := newell (verts L)).
  pose proof (parallel_unit_dot (lnormal L) S Hu (newell_parallel_normal _ _ _ Hh Hp)) as P.
  rnum. change (vx (lnormal L) * vx S + vy (lnormal L) * vy S + vz (lnormal L) * vz S)%R with (vdot (lnormal L) S).
  set (x := vdot (lnormal L) S) in *. clearbody x.
  split; [|apply Rabs_pos].
  assert (Q : (Rabs x * Rabs x = x * x)%R) by (rewrite <- Rabs_mult; apply Rabs_pos_eq; nra).
  unfold Rdiv. rewrite Rabs_mult, (Rabs_pos_eq (/ 2)) by lra.
  transitivity (Rabs x * Rabs x * / 4)%R; [field | rewrite Q, P; reflexivity].
Qed.

(** area = sum of signed ear areas: removing the ear (v0,v1,v2) removes exactly that triangle's signed area *)
Theorem signed_area_ear (n v0 v1 v2 : V) (l : list V) :
  (vdot n (newell (v0 :: v1 :: v2 :: l)) / 2 =
   vdot n (newell (v0 :: v2 :: l)) / 2 + vdot n (vcross (vsub v1 v0) (vsub v2 v0)) / 2)%R.
Proof. rewrite newell_ear, vdot_add_r. lra. Qed.

(** ** set_normal: unit, perpendicular to the first two edges (when these are not parallel) *)
Theorem set_normal_spec (L : Loop R) (a b c : V) (rest : list V) :
  verts L = a :: b :: c :: rest -> vcross (vsub b a) (vsub c b) <> vzero ->
  exists L', loop_set_normal L = Ok L' /\ verts L' = verts L /\
    vdot (lnormal L') (lnormal L') = 1 /\ vdot (lnormal L') (vsub b a) = 0 /\ vdot (lnormal L') (vsub c b) = 0
    /\ 0 < vdot (lnormal L') (vcross (vsub b a) (vsub c b)).
Proof.
  intros Hv Hnz. unfold loop_set_normal. rewrite Hv. eexists. split; [reflexivity|]. cbn [verts set_normal_field lnormal]. split; [exact Hv|].
  set (w := vcross (vsub b a) (vsub c b)) in *.
  assert (Hw : vdot w (vsub b a) = 0 /\ vdot w (vsub c b) = 0).
  { unfold w. destruct a as [a1 a2 a3], b as [b1 b2 b3], c as [c1 c2 c3]. vunf. rnum. split; ring. }
  assert (Hl : 0 < vlen2 w).
  { destruct w as [w1 w2 w3]. vunf. rnum.
    destruct (Req_dec w1 0) as [E1|E1]; [|nra]. destruct (Req_dec w2 0) as [E2|E2]; [|nra]. destruct (Req_dec w3 0) as [E3|E3]; [|nra].
    exfalso. apply Hnz. subst. reflexivity. }
  assert (Hs : 0 < sqrt (vlen2 w)) by (apply sqrt_lt_R0; exact Hl).
  assert (Hq : (sqrt (vlen2 w) * sqrt (vlen2 w) = vlen2 w)%R) by (apply sqrt_sqrt; lra).
  unfold vnormalize, vlen. rnum. set (s := sqrt (vlen2 w)) in *.
  destruct Hw as [Hw1 Hw2]. destruct w as [w1 w2 w3]. unfold vdot, vlen2 in *. cbn [vx vy vz] in *. rnum.
  assert (Hi : (s * / s = 1)%R) by (apply Rinv_r; lra).
  repeat split.
  - unfold Rdiv. replace (w1 * (1 * / s) * (w1 * (1 * / s)) + w2 * (1 * / s) * (w2 * (1 * / s)) + w3 * (1 * / s) * (w3 * (1 * / s)))%R
      with ((w1 * w1 + w2 * w2 + w3 * w3) * (/ s * / s))%R by ring.
    rewrite <- Hq. replace (s * s * (/ s * / s))%R with ((s * / s) * (s * / s))%R by ring. rewrite Hi. ring.
  - unfold Rdiv. replace (w1 * (1 * / s) * vx (vsub b a) + w2 * (1 * / s) * vy (vsub b a) + w3 * (1 * / s) * vz (vsub b a))%R
      with ((w1 * vx (vsub b a) + w2 * vy (vsub b a) + w3 * vz (vsub b a)) * / s)%R by ring. rewrite Hw1. ring.
  - unfold Rdiv. replace (w1 * (1 * / s) * vx (vsub c b) + w2 * (1 * / s) * vy (vsub c b) + w3 * (1 * / s) * vz (vsub c b))%R
      with ((w1 * vx (vsub c b) + w2 * vy (vsub c b) + w3 * vz (vsub c b)) * / s)%R by ring. rewrite Hw2. ring.
  - unfold Rdiv. replace (w1 * (1 * / s) * w1 + w2 * (1 * / s) * w2 + w3 * (1 * / s) * w3)%R with ((w1 * w1 + w2 * w2 + w3 * w3) * / s)%R by ring.
    apply Rmult_lt_0_compat; [exact Hl | apply Rinv_0_lt_compat; exact Hs].
Qed.

(** ** set_perimeter *)
Theorem set_perimeter_spec (L L' : Loop R) :
  loop_set_perimeter L = Ok L' ->
  lperim L' = perimeter_of (verts L) /\ verts L' = verts L /\ lnormal L' = lnormal L /\ larea L' = larea L /\ lclosed L' = lclosed L.
Proof.
  unfold loop_set_perimeter. destruct (negb (lclosed L)); [discriminate|]. destruct (vis_zero (lnormal L)); [discriminate|].
  destruct (Nat.ltb (llen L) 3); [discriminate|]. intros E. injection E as E. subst L'. cbn [lperim verts lnormal larea lclosed].
  rnum. rewrite sum_len_perimeter. repeat split.
Qed.

(** ** centroid = mean of the stored vertices *)
Lemma centroid_fold (l : list V) (acc : V) :
  fold_left (fun acc v => mkV3 (vx acc + vx v)%num (vy acc + vy v)%num (vz acc + vz v)%num) l acc = vadd acc (vsum l).
Proof.
  revert acc. induction l as [|a l IH]; intros acc; cbn [fold_left vsum fold_right]; [symmetry; apply vadd_zero_r|].
  rewrite IH. fold (vsum l). rewrite <- vadd_assoc. reflexivity.
Qed.
Theorem centroid_spec (L : Loop R) :
  lclosed L = true -> loop_centroid L = Ok (vdivs (vsum (verts L)) (INR (llen L))).
Proof.
  intros Hc. unfold loop_centroid. rewrite Hc. cbn [negb]. rewrite centroid_fold, vadd_zero_l.
  rnum. rewrite <- INR_IZR_INZ. reflexivity.
Qed.

(** ** the polygon without holes made of a closed loop *)
Theorem poly_new_spec (L : Loop R) (P : Poly R) :
  poly_new L = Ok P -> pouter P = L /\ pinner P = [] /\ parea P = larea L /\ pnormal P = lnormal L.
Proof.
  unfold poly_new, loop_area. destruct (lclosed L); cbn [negb rbind]; [|discriminate]. intros H. injection H as H. subst P. repeat split.
Qed.
Lemma vadd_fold (l : list V) (acc : V) : fold_left (fun acc v => vadd acc v) l acc = vadd acc (vsum l).
Proof.
  revert acc. induction l as [|a l IH]; intros acc; cbn [fold_left vsum fold_right]; [symmetry; apply vadd_zero_r|].
  rewrite IH. fold (vsum l). apply vadd_assoc.
Qed.
Theorem poly_outer_centroid_spec (P : Poly R) :
  poly_outer_centroid P = vdivs (vsum (verts (pouter P))) (INR (llen (pouter P))).
Proof. unfold poly_outer_centroid. rewrite vadd_fold, vadd_zero_l. rnum. rewrite <- INR_IZR_INZ. reflexivity. Qed.

(** ** a successful [close]: what the closed loop reports *)
Theorem close_measures (L : Loop R) :
  snd (loop_close L) = Ok tt ->
  let L' := fst (loop_close L) in
  lclosed L' = true /\ (3 <= llen L')%nat
  /\ larea L' = Rabs (vdot (lnormal L) (newell (verts L'))) / 2
  /\ (lnormal L' = lnormal L \/ lnormal L' = vneg (lnormal L))
  /\ 0 <= vdot (lnormal L') (newell (verts L'))
  /\ lperim L' = perimeter_of (verts L').
Proof.
  unfold loop_close. destruct (lclosed L); [discriminate|]. destruct (Nat.ltb (llen L) 3); [discriminate|].
  destruct (pop_redundant (verts L) (llen L)) as [vs1 r1]. destruct r1 as [u1| |]; cbn [snd]; try discriminate.
  destruct (Nat.ltb (length vs1) 3); [discriminate|].
  set (L1 := set_verts L vs1).
  destruct (valid_to_add L1 _) as [u| |]; cbn [snd]; try discriminate.
  destruct (drop_first_redundant vs1 (length vs1)) as [vs2 r2]. destruct r2 as [u2| |]; cbn [snd]; try discriminate.
  destruct (Nat.ltb (length vs2) 3); [discriminate|].
  set (L2 := set_verts L1 vs2).
  assert (N2 : lnormal L2 = lnormal L) by reflexivity.
  set (L3 := mkLoop (verts L2) (lnormal L2) true (larea L2) (lperim L2)).
  destruct (loop_set_area L3) as [L4| |] eqn:E4; cbn [snd]; try discriminate.
  destruct (loop_set_perimeter L4) as [L5| |] eqn:E5; cbn [snd fst]; try discriminate. intros _.
  pose proof (set_perimeter_spec _ _ E5) as [P1 [P2 [P3 [P4 P5]]]].
  (* unpack set_area on L3 *)
  assert (H3 : lclosed L3 = true) by reflexivity.
  assert (Hz : vis_zero (lnormal L3) = false).
  { unfold loop_set_area in E4. rewrite H3 in E4. cbn [negb] in E4. destruct (vis_zero (lnormal L3)); [discriminate | reflexivity]. }
  assert (Hn : (3 <= llen L3)%nat).
  { unfold loop_set_area in E4. rewrite H3, Hz in E4. cbn [negb] in E4. destruct (Nat.ltb (llen L3) 3) eqn:El; [discriminate|]. apply Nat.ltb_ge in El. exact El. }
  destruct (set_area_spec L3 H3 Hz Hn) as [L4' [E4' [A1 [A2 [A3 [A4 [A5 A6]]]]]]].
  rewrite E4 in E4'. injection E4' as E4'. subst L4'.
  assert (N3 : lnormal L3 = lnormal L) by exact N2.
  rewrite P5, P2, P3, P4, P1. rewrite A1. rewrite N3 in *.
  repeat split; try assumption.
  unfold llen. rewrite P2, A1. exact Hn.
Qed.

(** ** concrete outlines (rational data): convex and reflex first corner *)
Lemma Rltb_lt a b : a < b -> Rltb a b = true. Proof. intros H. apply Rltb_true. exact H. Qed.
Lemma Rltb_ge a b : b <= a -> Rltb a b = false. Proof. intros H. apply Rltb_false. exact H. Qed.

Definition square_pts : list V := [mkV3 0 0 0; mkV3 1 0 0; mkV3 1 1 0; mkV3 0 1 0].
(** the L-shape (0,0),(2,0),(2,1),(1,1),(1,2),(0,2) (counter-clockwise, area 3), started at (2,1):
    its first corner (2,1),(1,1),(1,2) is the reflex one, so the normal of the first three vertices points DOWN *)
Definition ell_pts : list V := [mkV3 2 1 0; mkV3 1 1 0; mkV3 1 2 0; mkV3 0 2 0; mkV3 0 0 0; mkV3 2 0 0].

Lemma vis_zero_unit_z (s : R) : (s = 1 \/ s = -1) -> vis_zero (mkV3 0 0 s : V) = false.
Proof.
  intros Hs. unfold vis_zero, ctiny. cbn [vx vy vz]. rnum.
  assert (T : 100 * / IZR (2 ^ 52) < 1).
  { assert (H : 0 < / IZR (2 ^ 52) < / 100).
    { split; [apply Rinv_0_lt_compat; apply IZR_lt; reflexivity|]. apply Rinv_lt_contravar; [|apply IZR_lt; reflexivity].
      apply Rmult_lt_0_compat; [lra | apply IZR_lt; reflexivity]. }
    lra. }
  replace (Rltb (Rabs s) (100 * / IZR (2 ^ 52))) with false; [apply andb_false_r|].
  symmetry. apply Rltb_false. destruct Hs; subst; [rewrite Rabs_pos_eq by lra | rewrite Rabs_left by lra]; lra.
Qed.

Example convex_first_corner :
  let L := mkLoop square_pts (mkV3 0 0 1) true (-1) (-1) in
  exists L', loop_set_area L = Ok L' /\ lnormal L' = mkV3 0 0 1 /\ larea L' = 1.
Proof.
  cbn zeta. unfold loop_set_area. cbn [lclosed negb lnormal]. rewrite vis_zero_unit_z by (left; reflexivity).
  unfold llen. cbn [verts]. unfold square_pts. cbn [length Nat.ltb Nat.leb].
  rewrite sum_cross_newell. unfold newell, cyc, square_pts, ell_pts. cbn [app chain]. unfold vadd, vcross, vdot, vzero, vscale. cbn [vx vy vz]. rnum.
  eexists. split; [reflexivity|]. cbn [lnormal larea].
  match goal with |- context [Rltb ?x 0] => replace x with 1%R by lra end.
  rewrite Rltb_ge by lra. split; [reflexivity|]. apply Rabs_pos_eq. lra.
Qed.

Example reflex_first_corner :
  let L := mkLoop ell_pts (mkV3 0 0 (-1)) true (-1) (-1) in
  vcross (vsub (mkV3 1 1 0) (mkV3 2 1 0)) (vsub (mkV3 1 2 0) (mkV3 1 1 0)) = (mkV3 0 0 (-1) : V) /\
  exists L', loop_set_area L = Ok L' /\ lnormal L' = mkV3 0 0 1 /\ larea L' = 3.
Proof.
  cbn zeta. split; [vring|].
  unfold loop_set_area. cbn [lclosed negb lnormal]. rewrite vis_zero_unit_z by (right; reflexivity).
  unfold llen. cbn [verts]. unfold ell_pts. cbn [length Nat.ltb Nat.leb].
  rewrite sum_cross_newell. unfold newell, cyc, square_pts, ell_pts. cbn [app chain]. unfold vadd, vcross, vdot, vzero, vscale. cbn [vx vy vz]. rnum.
  eexists. split; [reflexivity|]. cbn [lnormal larea].
  match goal with |- context [Rltb ?x 0] => replace x with (-3)%R by lra end.
  rewrite Rltb_lt by lra. split; [apply v3_eq; cbn [vx vy vz]; ring|]. rewrite Rabs_left by lra. lra.
Qed.
