(** * Quadric_sphere: ray / sphere intersection on the real instance (C02, C03 part pquadric). *)
From Coq Require Import ZArith Reals Lra Bool List Psatz.
From G3 Require Import Model.Num Model.Base Model.Vec Model.BBox Model.RoundError Model.Transform Model.Hit Model.Sphere.
From G3 Require Import Theory.RInst Proofs.C06_transform Proofs.Quadric_base.
Local Open Scope R_scope.

Notation S := (Sphere R).

(** the coefficients of |o + t d|^2 - r^2 = a t^2 + b t + c, as the code computes them *)
Definition sph_a (ray : Ray R) : R :=
  vx (rdir ray) * vx (rdir ray) + vy (rdir ray) * vy (rdir ray) + vz (rdir ray) * vz (rdir ray).
Definition sph_b (ray : Ray R) : R :=
  (vx (rorigin ray) * vx (rdir ray) + vy (rorigin ray) * vy (rdir ray) + vz (rorigin ray) * vz (rdir ray)) * 2.
Definition sph_c (s : S) (ray : Ray R) : R :=
  vx (rorigin ray) * vx (rorigin ray) + vy (rorigin ray) * vy (rorigin ray) + vz (rorigin ray) * vz (rorigin ray)
  - sradius s * sradius s.

Lemma vzero_R : @vzero R _ = mkV3 0 0 0.
Proof. reflexivity. Qed.

Lemma sphere_abc_pt (s : S) (ray : Ray R) :
  sphere_abc s ray vzero vzero = (pt (sph_a ray), pt (sph_b ray), pt (sph_c s ray)).
Proof.
  unfold sphere_abc. rewrite vzero_R. cbn [vx vy vz]. rewrite !af_from_ve_0, !af_mul_pt, !af_add_pt.
  unfold n2. rnum. rewrite af_mul_f_pt, af_sub_f_pt. reflexivity.
Qed.

(** a crossing of the ray with the full sphere at parameter [t] *)
Definition on_sphere (s : S) (q : V) : Prop := vlen2 q = sradius s * sradius s.
Definition sph_crossing (s : S) (ray : Ray R) (t : R) : Prop := on_sphere s (ray_project ray t).

Lemma sph_quadratic (s : S) (ray : Ray R) (t : R) :
  vlen2 (ray_project ray t) - sradius s * sradius s = sph_a ray * t * t + sph_b ray * t + sph_c s ray.
Proof.
  destruct ray as [[ox oy oz] [dx dy dz]]. unfold vlen2, ray_project, vadd, vscale, sph_a, sph_b, sph_c.
  cbn [rorigin rdir vx vy vz]. rnum. ring.
Qed.
Lemma sph_crossing_iff (s : S) (ray : Ray R) (t : R) :
  sph_crossing s ray t <-> sph_a ray * t * t + sph_b ray * t + sph_c s ray = 0.
Proof. unfold sph_crossing, on_sphere. rewrite <- sph_quadratic. lra. Qed.

(** ** the closure [calc_phit_and_phi] at an exact crossing *)
Lemma vlen_on_sphere (s : S) (q : V) : 0 < sradius s -> on_sphere s q -> vlen q = sradius s.
Proof. intros Hr H. unfold vlen. rnum. rewrite H. apply sqrt_square. lra. Qed.

Lemma vscale_1 (q : V) : vscale q 1 = q.
Proof. destruct q as [qx qy qz]. unfold vscale. cbn [vx vy vz]. rnum. apply v3_eq; cbn [vx vy vz]; ring. Qed.

Lemma reproject_id (s : S) (q : V) : 0 < sradius s -> on_sphere s q -> sphere_reproject s q = q.
Proof.
  intros Hr H. unfold sphere_reproject. rewrite (vlen_on_sphere s q Hr H). rnum.
  replace (sradius s / sradius s) with 1 by (field; lra). apply vscale_1.
Qed.

(** re-projection puts any non-zero point on the sphere *)
Lemma vlen2_scale (q : V) (k : R) : vlen2 (vscale q k) = k * k * vlen2 q.
Proof. destruct q as [qx qy qz]. unfold vlen2, vscale. cbn [vx vy vz]. rnum. ring. Qed.
Lemma reproject_on (s : S) (q : V) : 0 < vlen2 q -> on_sphere s (sphere_reproject s q).
Proof.
  intros Hq. unfold on_sphere, sphere_reproject. rewrite vlen2_scale. unfold vlen. rnum.
  assert (Hs : sqrt (vlen2 q) * sqrt (vlen2 q) = vlen2 q) by (apply sqrt_sqrt; lra).
  assert (Hp : 0 < sqrt (vlen2 q)) by (apply sqrt_lt_R0; exact Hq).
  assert (E : sradius s / sqrt (vlen2 q) * (sradius s / sqrt (vlen2 q)) * (sqrt (vlen2 q) * sqrt (vlen2 q)) = sradius s * sradius s)
    by (field; lra).
  rewrite Hs in E. exact E.
Qed.

(** the reported hit for a crossing at parameter [t]: the crossing point after the pole fix-up, and its [phi] *)
Definition sph_hit (s : S) (ray : Ray R) (t : R) : V * R :=
  let p := sphere_fixup s (ray_project ray t) in (p, phi_of p).

Lemma sphere_calc_crossing (s : S) (ray : Ray R) (t : R) : 0 < sradius s -> sph_crossing s ray t ->
  sphere_calc s ray (pt t) = sph_hit s ray t.
Proof.
  intros Hr H. unfold sphere_calc, sph_hit. rewrite af_as_float_pt, (reproject_id s _ Hr H). reflexivity.
Qed.

(** the pole fix-up: identity outside the band; inside it only [x] changes, to [1e-5 r] *)
Definition in_pole_band (s : S) (q : V) : Prop := Rabs (vx q) < / 100000 * sradius s /\ Rabs (vy q) < / 100000 * sradius s.
Lemma c1em5_R : @c1em5 R _ = / 100000.
Proof. unfold c1em5, nofQ. rnum. lra. Qed.
Lemma fixup_cases (s : S) (q : V) :
  (~ in_pole_band s q /\ sphere_fixup s q = q) \/
  (in_pole_band s q /\ sphere_fixup s q = mkV3 (/ 100000 * sradius s) (vy q) (vz q)).
Proof.
  unfold sphere_fixup, in_pole_band. rewrite c1em5_R. rnum.
  rcase (Rabs (vx q)) (/ 100000 * sradius s) Hx; rcase (Rabs (vy q)) (/ 100000 * sradius s) Hy; cbn [andb];
    [right | left | left | left]; (split; [|reflexivity]); lra.
Qed.
Lemma fixup_z (s : S) (q : V) : vz (sphere_fixup s q) = vz q.
Proof. destruct (fixup_cases s q) as [[_ ->] | [_ ->]]; reflexivity. Qed.
(** the fix-up moves a point of the sphere off the sphere by at most (1e-5 r)^2 in squared distance *)
Lemma fixup_near_sphere (s : S) (q : V) : 0 < sradius s -> on_sphere s q ->
  0 <= vlen2 (sphere_fixup s q) - sradius s * sradius s <= (/ 100000 * sradius s) * (/ 100000 * sradius s).
Proof.
  intros Hr H. destruct (fixup_cases s q) as [[_ ->] | [[Bx By] ->]].
  - rewrite H. nra.
  - unfold on_sphere in H. destruct q as [qx qy qz]. unfold vlen2 in *. cbn [vx vy vz] in *. rnum.
    assert (qx * qx < (/ 100000 * sradius s) * (/ 100000 * sradius s)).
    { apply Rabs_def2 in Bx. nra. }
    nra.
Qed.

(** the clip test, decoded *)
Definition sph_clips_ok (s : S) (h : V * R) : Prop :=
  (- sradius s < szmin s -> szmin s <= vz (fst h)) /\
  (szmax s < sradius s -> vz (fst h) <= szmax s) /\
  snd h <= sphi_max s.
Lemma sphere_miss_false (s : S) (h : V * R) : sphere_miss s h = false <-> sph_clips_ok s h.
Proof.
  destruct h as [p phi]. unfold sphere_miss, sph_clips_ok. cbn [fst snd]. rnum.
  rcase (- sradius s) (szmin s) H1; rcase (vz p) (szmin s) H2; rcase (szmax s) (sradius s) H3;
    rcase (szmax s) (vz p) H4; rcase (sphi_max s) phi H5; cbn [andb orb]; split; intros H; try discriminate; try reflexivity;
    try (repeat split; intros; lra); destruct H as (A & B & C); lra.
Qed.

(** ** C03: [approx_basic_intersection] with zero-width error boxes *)
Definition sph_t0 (s : S) (ray : Ray R) := root0 (sph_a ray) (sph_b ray) (sph_c s ray).
Definition sph_t1 (s : S) (ray : Ray R) := root1 (sph_a ray) (sph_b ray) (sph_c s ray).
Definition sph_disc (s : S) (ray : Ray R) := disc (sph_a ray) (sph_b ray) (sph_c s ray).
Definition sph_solvable (s : S) (ray : Ray R) := solvable (sph_a ray) (sph_b ray) (sph_c s ray).

Lemma sph_root_crossing (s : S) (ray : Ray R) : 0 < sph_a ray -> 0 <= sph_disc s ray ->
  sph_crossing s ray (sph_t0 s ray) /\ sph_crossing s ray (sph_t1 s ray).
Proof.
  intros Ha HD. split; apply sph_crossing_iff, roots_complete; try assumption; (split; [exact HD|]); [left | right]; reflexivity.
Qed.

(** the algorithmic form: no real root -> None; far root not ahead -> None; otherwise the near root if it is
    ahead and passes the clips, else the far root if it passes, else None *)
Lemma sphere_basic_spec (s : S) (ray : Ray R) : 0 < sradius s -> sph_solvable s ray ->
  sphere_basic s ray vzero vzero =
  if Rltb (sph_disc s ray) 0 then None else
  if Rleb (sph_t1 s ray) 0 then None else
  if Rltb 0 (sph_t0 s ray) then
    (if sphere_miss s (sph_hit s ray (sph_t0 s ray))
     then (if sphere_miss s (sph_hit s ray (sph_t1 s ray)) then None else Some (sph_hit s ray (sph_t1 s ray)))
     else Some (sph_hit s ray (sph_t0 s ray)))
  else (if sphere_miss s (sph_hit s ray (sph_t1 s ray)) then None else Some (sph_hit s ray (sph_t1 s ray))).
Proof.
  intros Hr Hs. unfold sphere_basic, sphere_basic_tag. rewrite sphere_abc_pt, (solve_pt _ _ _ Hs).
  fold (sph_disc s ray). rcase (sph_disc s ray) 0 HD; [reflexivity|].
  fold (sph_t0 s ray) (sph_t1 s ray). rewrite select_hit_pt.
  destruct Hs as [Ha _]. destruct (sph_root_crossing s ray Ha HD) as [C0 C1].
  rewrite (sphere_calc_crossing s ray _ Hr C0), (sphere_calc_crossing s ray _ Hr C1). reflexivity.
Qed.

(** the same as a statement about crossings: the reported hit is the crossing with the smallest positive
    parameter among those that pass the clips; nothing is reported iff there is no such crossing *)
Definition sph_valid (s : S) (ray : Ray R) (t : R) : Prop :=
  0 < t /\ sph_crossing s ray t /\ sphere_miss s (sph_hit s ray t) = false.
Theorem sphere_first_valid_crossing (s : S) (ray : Ray R) : 0 < sradius s -> sph_solvable s ray ->
  match sphere_basic s ray vzero vzero with
  | Some h => exists t, sph_valid s ray t /\ h = sph_hit s ray t /\ forall t', sph_valid s ray t' -> t <= t'
  | None => forall t', ~ sph_valid s ray t'
  end.
Proof.
  intros Hr Hs. pose proof Hs as [Ha _].
  unfold sphere_basic, sphere_basic_tag. rewrite sphere_abc_pt, (solve_pt _ _ _ Hs).
  fold (sph_disc s ray). rcase (sph_disc s ray) 0 HD.
  - cbn [fst]. intros t' (_ & C & _). apply sph_crossing_iff, roots_complete in C; [|exact Ha]. fold (sph_disc s ray) in C. lra.
  - fold (sph_t0 s ray) (sph_t1 s ray). destruct (sph_root_crossing s ray Ha HD) as [C0 C1].
    pose proof (select_first_valid (sph_t0 s ray) (sph_t1 s ray) (sphere_calc s ray) (sphere_miss s) (sph_hit s ray)
                  (root_le _ _ _ Ha HD) (sphere_calc_crossing s ray _ Hr C0) (sphere_calc_crossing s ray _ Hr C1)) as F.
    assert (Hroots : forall t', sph_crossing s ray t' -> t' = sph_t0 s ray \/ t' = sph_t1 s ray).
    { intros t' C. apply sph_crossing_iff, roots_complete in C; [|exact Ha]. tauto. }
    destruct (fst (select_hit _ _ _ _)) as [h|]; cbn [first_valid] in F.
    + destruct F as (t & Ht & Hp & -> & Hm & Hmin). exists t. split; [|split].
      * split; [exact Hp|]. split; [destruct Ht as [-> | ->]; assumption | exact Hm].
      * reflexivity.
      * intros t' (Hp' & C' & M'). apply Hmin; auto.
    + intros t' (Hp' & C' & M'). rewrite (F t' (Hroots t' C') Hp') in M'. discriminate.
Qed.

(** ** C02: what a reported hit satisfies (zero-width boxes) *)
Theorem sphere_hit_sound (s : S) (ray : Ray R) (p : V) (phi : R) : 0 < sradius s -> sph_solvable s ray ->
  sphere_basic s ray vzero vzero = Some (p, phi) ->
  exists t, 0 < t /\ let q := ray_project ray t in
    on_sphere s q /\ p = sphere_fixup s q /\ phi = phi_of p /\ sph_clips_ok s (p, phi) /\
    (~ in_pole_band s q -> p = q /\ on_sphere s p).
Proof.
  intros Hr Hs E. pose proof (sphere_first_valid_crossing s ray Hr Hs) as F. rewrite E in F.
  destruct F as (t & (Hp & C & M) & Eh & _). exists t. split; [exact Hp|]. cbv zeta.
  unfold sph_hit in Eh. injection Eh as -> ->. split; [exact C|]. split; [reflexivity|]. split; [reflexivity|].
  split; [apply sphere_miss_false; exact M|].
  intros NB. destruct (fixup_cases s (ray_project ray t)) as [[_ ->] | [B _]]; [split; [reflexivity | exact C] | contradiction].
Qed.

(** z-limits in the plain form when the stored limits are inside [-r, r] (as the constructor leaves them) *)
Lemma on_sphere_z (s : S) (q : V) : 0 < sradius s -> on_sphere s q -> - sradius s <= vz q <= sradius s.
Proof.
  intros Hr H. unfold on_sphere, vlen2 in H. destruct q as [qx qy qz]. cbn [vx vy vz] in *. rnum. split; nra.
Qed.
Corollary sphere_hit_z_range (s : S) (ray : Ray R) (p : V) (phi : R) : 0 < sradius s -> sph_solvable s ray ->
  - sradius s <= szmin s -> szmax s <= sradius s ->
  sphere_basic s ray vzero vzero = Some (p, phi) -> szmin s <= vz p <= szmax s.
Proof.
  intros Hr Hs Z0 Z1 E. destruct (sphere_hit_sound s ray p phi Hr Hs E) as (t & _ & C & Ep & _ & (A & B & _) & _).
  cbn [fst] in A, B. pose proof (on_sphere_z s _ Hr C) as Hz. rewrite <- (fixup_z s), <- Ep in Hz. split.
  - destruct (Rle_lt_or_eq_dec _ _ Z0) as [L | Eq]; [apply A; exact L | lra].
  - destruct (Rle_lt_or_eq_dec _ _ Z1) as [L | Eq]; [apply B; exact L | lra].
Qed.

(** ** any error boxes ([_partial]): on the sphere, inside the clips; the relation to the ray is the re-projection
    of the ray point at the midpoint of one of the solver's root intervals *)
Lemma select_hit_some (t0 t1 : AF R) (calc : AF R -> V * R) (miss : V * R -> bool) (h : V * R) :
  fst (select_hit t0 t1 calc miss) = Some h ->
  0 < low t1 /\ miss h = false /\ ((0 < low t0 /\ h = calc t0) \/ h = calc t1).
Proof.
  unfold select_hit. unfold n0. rnum. destruct (Rleb (low t1) 0) eqn:L1; [discriminate|]. apply Rleb_false in L1.
  rcase 0 (low t0) L0.
  - destruct (miss (calc t0)) eqn:M0.
    + destruct (miss (calc t1)) eqn:M1; [discriminate|]. cbn [fst]. intros [= <-]. tauto.
    + cbn [fst]. intros [= <-]. tauto.
  - destruct (miss (calc t1)) eqn:M1; [discriminate|]. cbn [fst]. intros [= <-]. tauto.
Qed.

Theorem sphere_hit_any_boxes_partial (s : S) (ray : Ray R) (oe de p : V) (phi : R) :
  sphere_basic s ray oe de = Some (p, phi) ->
  exists th : AF R, 0 < low th /\
    let q := ray_project ray (af_as_float th) in
    p = sphere_fixup s (sphere_reproject s q) /\ phi = phi_of p /\ sph_clips_ok s (p, phi) /\
    (0 < vlen2 q -> on_sphere s (sphere_reproject s q)).
Proof.
  unfold sphere_basic, sphere_basic_tag. destruct (sphere_abc s ray oe de) as [[a b] c].
  destruct (af_solve_quadratic a b c) as [[t0 t1]|]; [|discriminate].
  intros E. apply select_hit_some in E. destruct E as (L1 & M & [[L0 E] | E]); [exists t0 | exists t1]; (split; [assumption|]); cbv zeta;
    unfold sphere_calc in E; injection E as -> ->; (split; [reflexivity|]); (split; [reflexivity|]);
    (split; [apply sphere_miss_false; exact M | apply reproject_on]).
Qed.

(** ** the generic wrapper [intersect = transform . local . inv_transform_ray] *)
Lemma inv_ray_world (t : T) (ray : Ray R) : Inv t ->
  exists dt, 0 <= dt /\ rdir (fst (fst (tr_inv_ray t ray))) = tr_inv_vec t (rdir ray) /\
    forall u, tr_pt t (ray_project (fst (fst (tr_inv_ray t ray))) u) = ray_project ray (dt + u).
Proof.
  intros Hi. pose proof Hi as (A1 & A2 & A3 & A4). unfold tr_inv_ray.
  pose proof (ray_by_spec (inv_elements t) ray A4) as H. destruct (ray_by (inv_elements t) ray) as [[lr oe] de].
  destruct H as (D & dt & Hdt & O). exists dt. split; [exact Hdt|]. cbn [fst]. split; [exact D|].
  intros u. unfold ray_project, tr_pt. rewrite O, D, vadd_assoc_scale, pt_affine_comb by assumption.
  change (mul4x4point (elements t) (mul4x4point (inv_elements t) (rorigin ray))) with (tr_pt t (tr_inv_pt t (rorigin ray))).
  change (mul4x4vec (elements t) (mul4x4vec (inv_elements t) (rdir ray))) with (tr_vec t (tr_inv_vec t (rdir ray))).
  rewrite pt_inv_pt, vec_inv_vec by assumption. reflexivity.
Qed.

Lemma ip_info_new (ray : Ray R) (p du dv : V) : ip (info_new ray p du dv) = p.
Proof. unfold info_new. destruct (@get_side R NumR (vnormalize (vcross dv du)) (rdir ray)). reflexivity. Qed.

(** world hit: image of the local hit, which is recovered by the inverse transform (so the world point lies on
    the transformed surface, inside the transformed clips) *)
Theorem sphere_intersect_world (s : S) (ray : Ray R) (i : Info R) (t : T) : stransform s = Some t -> Inv t ->
  sphere_intersect s ray = Some i ->
  exists lr oe de p phi, tr_inv_ray t ray = (lr, oe, de) /\ sphere_basic s lr oe de = Some (p, phi) /\
    ip i = tr_pt t p /\ tr_inv_pt t (ip i) = p.
Proof.
  intros Ht Hi. unfold sphere_intersect, sphere_local_ray, sphere_intersect_local_ray. rewrite Ht.
  destruct (tr_inv_ray t ray) as [[lr oe] de]. destruct (sphere_basic s lr oe de) as [[p phi]|] eqn:E; [|discriminate].
  intros [= <-]. exists lr, oe, de, p, phi.
  assert (Hip : ip (info_transform (sphere_info s lr p phi) t) = tr_pt t p)
    by (unfold info_transform, sphere_info; cbn [ip]; rewrite ip_info_new; reflexivity).
  rewrite Hip. repeat split; try reflexivity; try assumption. apply inv_pt_pt. exact Hi.
Qed.
Theorem sphere_simple_intersect_world (s : S) (ray : Ray R) (P : V) (t : T) : stransform s = Some t -> Inv t ->
  sphere_simple_intersect s ray = Some P ->
  exists lr oe de p phi, tr_inv_ray t ray = (lr, oe, de) /\ sphere_basic s lr oe de = Some (p, phi) /\
    P = tr_pt t p /\ tr_inv_pt t P = p.
Proof.
  intros Ht Hi. unfold sphere_simple_intersect, sphere_simple_local_ray, sphere_simple_intersect_local_ray. rewrite Ht.
  destruct (tr_inv_ray t ray) as [[lr oe] de]. destruct (sphere_basic s lr oe de) as [[p phi]|] eqn:E; [|discriminate].
  intros [= <-]. exists lr, oe, de, p, phi. repeat split; try reflexivity; try assumption. apply inv_pt_pt. exact Hi.
Qed.
(** without a transform [intersect] calls the local intersection with zero boxes: the exact statements apply *)
Theorem sphere_intersect_untransformed (s : S) (ray : Ray R) (i : Info R) : stransform s = None ->
  sphere_intersect s ray = Some i -> exists phi, sphere_basic s ray vzero vzero = Some (ip i, phi).
Proof.
  intros Ht. unfold sphere_intersect, sphere_local_ray, sphere_intersect_local_ray. rewrite Ht.
  destruct (sphere_basic s ray vzero vzero) as [[p phi]|]; [|discriminate]. intros [= <-]. exists phi.
  unfold sphere_info. rewrite ip_info_new. reflexivity.
Qed.
