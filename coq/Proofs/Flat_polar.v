(** * Flat_polar: the polar angle [natan2 y x] on the real instance (used for the angular range of disks). *)
From Coq Require Import ZArith Reals Lra Bool List Psatz.
From G3 Require Import Model.Num Model.Base Theory.RInst.
Local Open Scope R_scope.

Lemma hyp_pos (x y : R) : x <> 0 \/ y <> 0 -> 0 < sqrt (x * x + y * y).
Proof. intros H. apply sqrt_lt_R0. destruct H; nra. Qed.
Lemma hyp_sqr (x y : R) : sqrt (x * x + y * y) * sqrt (x * x + y * y) = x * x + y * y.
Proof. apply sqrt_sqrt. nra. Qed.

(** sqrt (1 + (y/x)^2) = rho / |x| *)
Lemma sqrt_one_plus (x y : R) : x <> 0 -> sqrt (1 + (y / x)²) = sqrt (x * x + y * y) / Rabs x.
Proof.
  intros Hx. pose proof (hyp_pos x y (or_introl Hx)) as Hr. pose proof (hyp_sqr x y) as Hs.
  assert (Ha : 0 < Rabs x) by (apply Rabs_pos_lt; exact Hx).
  assert (Haa : Rabs x * Rabs x = x * x) by (unfold Rabs; destruct (Rcase_abs x); ring).
  apply sqrt_lem_1.
  - unfold Rsqr. assert (0 <= y / x * (y / x)) by nra. lra.
  - apply Rlt_le, Rdiv_lt_0_compat; assumption.
  - unfold Rsqr.
    replace (sqrt (x * x + y * y) / Rabs x * (sqrt (x * x + y * y) / Rabs x))
      with ((sqrt (x * x + y * y) * sqrt (x * x + y * y)) / (Rabs x * Rabs x)) by (field; lra).
    rewrite Hs, Haa. field. exact Hx.
Qed.

Lemma cos_atan_ratio (x y : R) : x <> 0 -> cos (atan (y / x)) = Rabs x / sqrt (x * x + y * y).
Proof.
  intros Hx. rewrite cos_atan, sqrt_one_plus by assumption.
  pose proof (hyp_pos x y (or_introl Hx)). assert (0 < Rabs x) by (apply Rabs_pos_lt; exact Hx). field. lra.
Qed.
Lemma sin_atan_ratio (x y : R) : x <> 0 -> sin (atan (y / x)) = y / x * Rabs x / sqrt (x * x + y * y).
Proof.
  intros Hx. rewrite sin_atan, sqrt_one_plus by assumption.
  pose proof (hyp_pos x y (or_introl Hx)). assert (0 < Rabs x) by (apply Rabs_pos_lt; exact Hx). field. lra.
Qed.

(** (x, y) = rho (cos theta, sin theta) with theta = atan2 y x in (-pi, pi] *)
Lemma Ratan2_polar (x y : R) : x <> 0 \/ y <> 0 ->
  let rho := sqrt (x * x + y * y) in let th := Ratan2 y x in
  x = rho * cos th /\ y = rho * sin th /\ - PI < th <= PI.
Proof.
  intros H rho th. subst rho th. pose proof (hyp_pos x y H) as Hr. pose proof PI_RGT_0 as Hpi.
  unfold Ratan2. destruct (Rlt_dec 0 x) as [Hx|Hx]; [|destruct (Rlt_dec x 0) as [Hx'|Hx']].
  - rewrite cos_atan_ratio, sin_atan_ratio by lra. rewrite Rabs_right by lra.
    pose proof (atan_bound (y / x)). repeat split; try (field; lra); lra.
  - assert (Ha : Rabs x = - x) by (apply Rabs_left; exact Hx').
    destruct (Rle_dec 0 y) as [Hy|Hy].
    + rewrite cos_plus, sin_plus, cos_PI, sin_PI, cos_atan_ratio, sin_atan_ratio, Ha by lra.
      pose proof (atan_bound (y / x)) as B.
      assert (atan (y / x) <= 0).
      { destruct (Req_dec y 0) as [->|Hy0]; [unfold Rdiv; rewrite Rmult_0_l, atan_0; lra|].
        left. rewrite <- atan_0. apply atan_increasing. apply Ropp_lt_cancel. rewrite Ropp_0.
        replace (- (y / x)) with (y / (- x)) by (field; lra). apply Rdiv_lt_0_compat; lra. }
      repeat split; try (field; lra); lra.
    + rewrite cos_minus, sin_minus, cos_PI, sin_PI, cos_atan_ratio, sin_atan_ratio, Ha by lra.
      pose proof (atan_bound (y / x)) as B.
      assert (0 < atan (y / x)).
      { rewrite <- atan_0. apply atan_increasing. replace (y / x) with ((- y) / (- x)) by (field; lra). apply Rdiv_lt_0_compat; lra. }
      repeat split; try (field; lra); lra.
  - assert (x = 0) by lra. subst x. assert (Hy : y <> 0) by (destruct H; [lra | assumption]).
    replace (0 * 0 + y * y) with (y * y) in * by ring.
    destruct (Rlt_dec 0 y) as [Hy1|Hy1]; [|destruct (Rlt_dec y 0) as [Hy2|Hy2]; [|lra]].
    + rewrite sqrt_square by lra. rewrite cos_PI2, sin_PI2. repeat split; lra.
    + replace (y * y) with ((- y) * (- y)) by ring. rewrite sqrt_square by lra.
      replace (- PI / 2) with (- (PI / 2)) by field. rewrite cos_neg, sin_neg, cos_PI2, sin_PI2. repeat split; lra.
Qed.

(** the angle in [0, 2 pi) that the code derives from atan2 *)
Definition polar_phi (x y : R) : R := let th := Ratan2 y x in if Rltb th 0 then th + 2 * PI else th.
Lemma polar_phi_spec (x y : R) : x <> 0 \/ y <> 0 ->
  let rho := sqrt (x * x + y * y) in let phi := polar_phi x y in
  x = rho * cos phi /\ y = rho * sin phi /\ 0 <= phi < 2 * PI.
Proof.
  intros H rho phi. subst rho phi. destruct (Ratan2_polar x y H) as (Hx & Hy & Hb). pose proof PI_RGT_0 as Hpi.
  unfold polar_phi. destruct (Rltb (Ratan2 y x) 0) eqn:E; [apply Rltb_true in E | apply Rltb_false in E].
  - rewrite cos_plus, sin_plus, cos_2PI, sin_2PI. repeat split; lra.
  - repeat split; try assumption; lra.
Qed.
Lemma polar_phi_origin : polar_phi 0 0 = 0.
Proof.
  unfold polar_phi, Ratan2. destruct (Rlt_dec 0 0); [lra|].
  assert (E : Rltb 0 0 = false) by (apply Rltb_false; lra). rewrite E. reflexivity.
Qed.

(** uniqueness of the polar angle in [0, 2 pi) *)
Lemma cos_one_zero (x : R) : 0 <= x < 2 * PI -> cos x = 1 -> x = 0.
Proof.
  intros Hx Hc. pose proof PI_RGT_0 as Hpi.
  replace x with (2 * (x / 2)) in Hc by field. rewrite cos_2a_sin in Hc.
  assert (Hs : sin (x / 2) = 0) by nra.
  destruct (sin_eq_O_2PI_0 (x / 2)) as [E|[E|E]]; try lra.
Qed.
Lemma polar_unique (a b : R) : 0 <= a < 2 * PI -> 0 <= b < 2 * PI -> cos a = cos b -> sin a = sin b -> a = b.
Proof.
  intros Ha Hb Hc Hs. pose proof (sin2_cos2 b) as Hb2. unfold Rsqr in Hb2.
  destruct (Rle_dec b a) as [L|L].
  - assert (a - b = 0); [|lra]. apply cos_one_zero; [lra|]. rewrite cos_minus, Hc, Hs. lra.
  - assert (b - a = 0); [|lra]. apply cos_one_zero; [lra|]. rewrite cos_minus, Hc, Hs. lra.
Qed.
Lemma polar_phi_unique (x y rho phi : R) : 0 < rho -> 0 <= phi < 2 * PI ->
  x = rho * cos phi -> y = rho * sin phi -> polar_phi x y = phi.
Proof.
  intros Hr Hp Hx Hy. pose proof (sin2_cos2 phi) as H2. unfold Rsqr in H2.
  assert (Hxy : x * x + y * y = rho * rho) by (subst x y; nra).
  assert (Hne : x <> 0 \/ y <> 0).
  { destruct (Req_dec x 0) as [E|E]; [|left; exact E]. right. intros E'. rewrite E, E' in Hxy. nra. }
  destruct (polar_phi_spec x y Hne) as (Px & Py & Pb). rewrite Hxy, sqrt_square in Px, Py by lra.
  apply polar_unique; try assumption.
  - apply Rmult_eq_reg_l with rho; [|lra]. rewrite <- Px. exact Hx.
  - apply Rmult_eq_reg_l with rho; [|lra]. rewrite <- Py. exact Hy.
Qed.
