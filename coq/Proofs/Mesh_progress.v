(** * Mesh_progress (C09): progress and cost of [refine].  Every number instance, NO hypothesis on the mesh.

    The counter [n_valid_triangles] ([nvalid]) is followed through every step of the model: [invalidate] takes one off,
    [push] adds one, nothing else touches it.  Because the steps test every child with Triangle3D::new BEFORE they
    mutate (crate fix 361bbb9), the accounting also covers the outcomes [Err]:
    - flip_diagonal Ok: same count; restore_delaunay Ok: same count;
    - split_triangle: Ok => +2; Err => mesh unchanged, or +2 (the late failures 102/103 of mark_as_neighbours);
    - split_edge: Ok => +1 (no neighbour across the edge) or +2; Err => the counter did not go down;
    - add_point / add_point_to_triangle: Ok true => +1 or +2, Ok false => mesh unchanged, Err => the counter did not go down.
    Hence a pass of [refine] never lowers the counter, and a pass that reports
    [any_changes = true] has raised it STRICTLY.  The recursion [if any_changes { self.refine(..) }] therefore runs at
    most (triangles created) + 1 passes: [refine_passes] (the recursion depth of the real code) is bounded by the growth
    of the counter, the model's fuel is adequate as soon as it exceeds that growth, and the result does not depend on
    the fuel.  Per pass the trace of Mesh_refine_trace holds at most 3 events per slot read at loop entry. *)
From Coq Require Import ZArith Bool List Arith Lia.
From G3 Require Import Model.Num Model.Base Model.Vec Model.Segment Model.Triangle Model.Loop Model.Polygon Model.Triangulation
  Proofs.Mesh_base Proofs.Mesh_wf Proofs.Mesh_sites Proofs.Mesh_conf Proofs.Mesh_region Proofs.Mesh_atomic Proofs.Mesh_refine
  Proofs.Mesh_refine_trace.
Import ListNotations.

Section Progress.
  Context {K : Type} {NK : Num K}.
  Notation V := (V3 K).
  Notation TP := (TriPiece K).
  Notation Mesh := (Mesh K).

  (** ** operations that never touch the counter, whatever their outcome *)
  Definition Rnv (M M' : Mesh) : Prop := nvalid M' = nvalid M.
  Lemma Rnv_refl M : Rnv M M. Proof. reflexivity. Qed.
  Lemma Rnv_trans M1 M2 M3 : Rnv M1 M2 -> Rnv M2 M3 -> Rnv M1 M3. Proof. unfold Rnv; congruence. Qed.
  Lemma nv_mupd s i (f : TP -> TP) : Pres Rnv (mupd s i f).
  Proof. intros M M' r H. unfold mupd in H. destruct (Nat.ltb _ _); inversion H; subst; reflexivity. Qed.
  Ltac nv_step :=
    match goal with
    | |- Pres Rnv (mbind _ _) => apply (pres_bind Rnv Rnv_trans); [|intros ?]
    | |- Pres Rnv (mret _) => apply (pres_ret Rnv Rnv_refl)
    | |- Pres Rnv (mlift _) => apply (pres_lift Rnv Rnv_refl)
    | |- Pres Rnv (mget _ _) => apply (pres_get Rnv Rnv_refl)
    | |- Pres Rnv (mwhen _ _) => apply (pres_when Rnv Rnv_refl)
    | |- Pres Rnv (mupd _ _ _) => apply nv_mupd
    | |- Pres Rnv (if ?b then _ else _) => destruct b
    | |- Pres Rnv (match ?x with _ => _ end) => destruct x
    | |- Pres Rnv (let '(_, _) := ?x in _) => destruct x
    end.
  Lemma nv_mark i1 e1 i2 : Pres Rnv (mark_as_neighbours (K:=K) i1 e1 i2).
  Proof. unfold mark_as_neighbours. repeat nv_step. Qed.

  (** ** the two operations that do *)
  Lemma invalidate_count (i : nat) (M M' : Mesh) : mesh_invalidate i M = (M', Ok tt) -> nvalid M = S (nvalid M').
  Proof. unfold mesh_invalidate. destruct (Nat.ltb _ _); [|discriminate]. destruct (nvalid M) eqn:E; intros H; inversion H; subst; reflexivity. Qed.
  Lemma invalidate_err (i : nat) (M M' : Mesh) (c : N) : mesh_invalidate i M = (M', Err c) -> M' = M.
  Proof. unfold mesh_invalidate. destruct (Nat.ltb _ _); [destruct (nvalid M); discriminate|]. intros H; inversion H; reflexivity. Qed.
  Lemma push_count (a b c : V) (la : nat) (M M' : Mesh) (n : nat) : mesh_push a b c la M = (M', Ok n) -> nvalid M' = S (nvalid M).
  Proof.
    unfold mesh_push. destruct (get_first_invalid M la) as [k|].
    - destruct (tp_new a b c k); intros H; inversion H; subst; reflexivity.
    - destruct (tp_new a b c (length (tris M))); intros H; inversion H; subst; reflexivity.
  Qed.
  Lemma push_fail (a b c : V) (la : nat) (M M' : Mesh) (r : res nat) : mesh_push a b c la M = (M', r) -> (forall n, r <> Ok n) -> M' = M.
  Proof.
    unfold mesh_push. destruct (get_first_invalid M la) as [k|].
    - destruct (tp_new a b c k); intros H G; inversion H; subst; try reflexivity. exfalso; eapply G; reflexivity.
    - destruct (tp_new a b c (length (tris M))); intros H G; inversion H; subst; try reflexivity. exfalso; eapply G; reflexivity.
  Qed.

  (** ** flip_diagonal: two out, two in *)
  Theorem flip_count (i : nat) (e : Edge) (M M' : Mesh) : flip_diagonal i e M = (M', Ok tt) -> nvalid M' = nvalid M.
  Proof.
    intros H. unfold flip_diagonal in H.
    apply bind_get_ok in H. destruct H as (t & Et & H).
    destruct (negb (tp_valid t)); [discriminate|].
    destruct (tp_neighbour t e) as [ni|]; [|discriminate].
    apply bind_get_ok in H. destruct H as (nb & Enb & H).
    destruct (negb (tp_valid nb)); [discriminate|].
    do 10 (apply bind_lift_ok in H; destruct H as (? & _ & H)).
    apply mbind_ok in H. destruct H as ([] & M1 & H1 & H).
    apply mbind_ok in H. destruct H as ([] & M2 & H2 & H).
    apply mbind_ok in H. destruct H as (aoc & M3 & H3 & H).
    apply mbind_ok in H. destruct H as (cob & M4 & H4 & H).
    revert H. match goal with |- ?f M4 = _ -> _ => assert (G : Pres Rnv f) by (repeat first [apply nv_mark | nv_step]) end.
    intros H. pose proof (G _ _ _ H) as E. unfold Rnv in E.
    pose proof (invalidate_count _ _ _ H1). pose proof (invalidate_count _ _ _ H2).
    pose proof (push_count _ _ _ _ _ _ _ H3). pose proof (push_count _ _ _ _ _ _ _ H4). lia.
  Qed.

  (** ** restore_delaunay only flips *)
  Lemma rd_pass_count (m : K) : forall cnt i l any M M' b, rd_pass m cnt i l any M = (M', Ok b) -> nvalid M' = nvalid M.
  Proof.
    induction cnt as [|cnt IH]; intros i l any M M' b H; cbn [rd_pass] in H.
    - inversion H; subst. reflexivity.
    - destruct l as [|t l']; [discriminate|].
      destruct (negb (tp_valid t)); [eapply IH; eassumption|].
      destruct (nltb (tp_ar t) m); [eapply IH; eassumption|].
      apply mbind_ok in H. destruct H as (bst & M1 & H1 & H). inversion H1; subst M1. clear H1.
      destruct (fst bst) as [best|]; [|eapply IH; eassumption].
      apply mbind_ok in H. destruct H as ([] & M1 & H1 & H). apply IH in H. rewrite H. eapply flip_count; exact H1.
  Qed.
  Lemma rd_loops_count (m : K) (n : nat) : forall loops M M', rd_loops m n loops M = (M', Ok tt) -> nvalid M' = nvalid M.
  Proof.
    induction loops as [|k IH]; intros M M' H; cbn [rd_loops] in H.
    - inversion H; subst. reflexivity.
    - apply mbind_ok in H. destruct H as (any & M1 & H1 & H). apply rd_pass_count in H1.
      destruct any; [apply IH in H; congruence | inversion H; subst; exact H1].
  Qed.
  Theorem restore_count (m : K) (M M' : Mesh) (u : unit) : restore_delaunay m M = (M', Ok u) -> nvalid M' = nvalid M.
  Proof. destruct u. unfold restore_delaunay. apply rd_loops_count. Qed.

  (** ** split_triangle: one out, three in; an Err comes with the mesh unchanged or after the three pushes *)
  Lemma lift_fail_cases {A B} (x : res A) (r : res B) :
    (exists c, r = Err c) \/ (exists s, r = Panic s /\ x = Panic s) -> (exists s, r = Panic s) \/ (forall u, r <> Ok u).
  Proof. intros [(c & ->) | (s & -> & _)]; [right; intros u; discriminate | left; eexists; reflexivity]. Qed.

  Theorem split_triangle_count (i : nat) (p : V) (M M' : Mesh) (r : res unit) :
    split_triangle i p M = (M', r) ->
    (exists s, r = Panic s) \/ (M' = M /\ forall u, r <> Ok u) \/ nvalid M' = nvalid M + 2.
  Proof.
    intros H. unfold split_triangle in H.
    apply bind_get_inv in H. destruct H as [(t & Et & H) | (-> & -> & _)]; [|left; eexists; reflexivity].
    destruct (tp_valid t) eqn:Ev; cbn [negb] in H; [|inversion H; subst; right; left; split; [reflexivity | discriminate]].
    do 3 (apply bind_lift_inv in H; destruct H as [(? & _ & H) | (-> & HR)];
          [|destruct (lift_fail_cases _ _ HR) as [G|G]; [left; exact G | right; left; split; [reflexivity | exact G]]]).
    apply bind_lift_inv in H. destruct H as [(T1 & ET1 & H) | (-> & HR)];
      [|destruct (lift_fail_cases _ _ HR) as [G|G]; [left; exact G | right; left; split; [reflexivity | exact G]]].
    apply bind_lift_inv in H. destruct H as [(T2 & ET2 & H) | (-> & HR)];
      [|destruct (lift_fail_cases _ _ HR) as [G|G]; [left; exact G | right; left; split; [reflexivity | exact G]]].
    apply bind_lift_inv in H. destruct H as [(T3 & ET3 & H) | (-> & HR)];
      [|destruct (lift_fail_cases _ _ HR) as [G|G]; [left; exact G | right; left; split; [reflexivity | exact G]]].
    apply mbind_inv in H. destruct H as [([] & M1 & H1 & H) | [(c & H1 & ->) | (s & H1 & ->)]];
      [| destruct (invalidate_in_range _ _ _ _ _ Et H1); discriminate | left; eexists; reflexivity].
    apply mbind_inv in H. destruct H as [(cap & M2 & H2 & H) | [(c & H2 & ->) | (s & H2 & ->)]];
      [| destruct (push_checked _ _ _ _ _ _ _ _ ET1 H2); discriminate | left; eexists; reflexivity].
    apply mbind_inv in H. destruct H as [(abp & M3 & H3 & H) | [(c & H3 & ->) | (s & H3 & ->)]];
      [| destruct (push_checked _ _ _ _ _ _ _ _ ET2 H3); discriminate | left; eexists; reflexivity].
    apply mbind_inv in H. destruct H as [(bcp & M4 & H4 & H) | [(c & H4 & ->) | (s & H4 & ->)]];
      [| destruct (push_checked _ _ _ _ _ _ _ _ ET3 H4); discriminate | left; eexists; reflexivity].
    revert H. match goal with |- ?f M4 = _ -> _ => assert (G : Pres Rnv f) by (repeat first [apply nv_mark | nv_step]) end.
    intros H. pose proof (G _ _ _ H) as E. unfold Rnv in E. right; right.
    pose proof (invalidate_count _ _ _ H1). pose proof (push_count _ _ _ _ _ _ _ H2).
    pose proof (push_count _ _ _ _ _ _ _ H3). pose proof (push_count _ _ _ _ _ _ _ H4). lia.
  Qed.
  Corollary split_triangle_ok_count (i : nat) (p : V) (M M' : Mesh) (u : unit) :
    split_triangle i p M = (M', Ok u) -> nvalid M' = nvalid M + 2.
  Proof.
    intros H. destruct (split_triangle_count _ _ _ _ _ H) as [(s & E) | [(_ & G) | E]]; [discriminate | exfalso; eapply G; reflexivity | exact E].
  Qed.
  Corollary split_triangle_err_count (i : nat) (p : V) (M M' : Mesh) (c : N) :
    split_triangle i p M = (M', Err c) -> M' = M \/ nvalid M' = nvalid M + 2.
  Proof. intros H. destruct (split_triangle_count _ _ _ _ _ H) as [(s & E) | [(E & _) | E]]; [discriminate | left; exact E | right; exact E]. Qed.

  (** ** one hemisphere of split_edge *)
  (** after its pre-check: one out, two in, whatever happens later *)
  Lemma hemisphere_count (s : Seg K) (p : V) (idx : nat) (t : TP) (a b c : V) (TA TB : Tri K) (M M' : Mesh) (r : res (nat * nat)) :
    nth_error (tris M) idx = Some t -> hemi_verts (tp_tri t) s = Ok (a, b, c) -> tri_new a p c = Ok TA -> tri_new p b c = Ok TB ->
    process_hemisphere s p idx M = (M', r) -> (exists s', r = Panic s') \/ nvalid M' = nvalid M + 1.
  Proof.
    intros Et HV ETA ETB H. unfold process_hemisphere in H.
    apply bind_get_inv in H. destruct H as [(t' & Et' & H) | (_ & _ & E)]; [|congruence]. rewrite Et in Et'. inversion Et'; subst t'. clear Et'.
    unfold hemi_verts in HV.
    destruct (tri_get_edge_index_from_segment (tp_tri t) s) as [abi|] eqn:Eabi; cbn [rbind] in HV; [|discriminate].
    destruct (tri_segment (tp_tri t) abi) as [ab| |] eqn:Eab; cbn [rbind] in HV; try discriminate.
    destruct (get_opposite_vertex (tp_tri t) ab) as [c'| |] eqn:Ec; cbn [rbind] in HV; try discriminate. inversion HV; subst a b c'. clear HV.
    assert (Eei : exists ei, tri_get_edge_index_from_segment (tp_tri t) ab = Some ei).
    { unfold get_opposite_vertex in Ec. destruct (tri_get_edge_index_from_segment (tp_tri t) ab) as [ei|]; [eexists; reflexivity | discriminate]. }
    destruct Eei as (ei & Eei).
    destruct (edge_from_i_lt ei (edge_index_lt _ _ _ Eei)) as (ed & Eed).
    rewrite (bind_lift_Ok _ abi) in H by (first [reflexivity | rewrite Eabi; reflexivity]).
    rewrite (bind_lift_Ok _ ab) in H by (first [reflexivity | exact Eab]).
    rewrite (bind_lift_Ok _ ei) in H by (rewrite Eei; reflexivity).
    rewrite (bind_lift_Ok _ ed) in H by exact Eed.
    rewrite (bind_lift_Ok _ c) in H by (first [reflexivity | exact Ec]).
    apply mbind_inv in H. destruct H as [([] & M1 & H1 & H) | [(c' & H1 & ->) | (s' & H1 & ->)]];
      [| destruct (invalidate_in_range _ _ _ _ _ Et H1); discriminate | left; eexists; reflexivity].
    apply bind_get_inv in H. destruct H as [(t1 & _ & H) | (_ & E & _)]; [|left; eexists; exact E].
    destruct (edge_add_ok ed 1) as (ea & Eea). destruct (edge_add_ok ed 2) as (eb & Eeb).
    rewrite (bind_lift_Ok _ ea) in H by exact Eea. rewrite (bind_lift_Ok _ eb) in H by exact Eeb.
    rewrite (bind_lift_Ok _ ea) in H by exact Eea. rewrite (bind_lift_Ok _ eb) in H by exact Eeb.
    apply mbind_inv in H. destruct H as [(apc & M2 & H2 & H) | [(c' & H2 & ->) | (s' & H2 & ->)]];
      [| destruct (push_checked _ _ _ _ _ _ _ _ ETA H2); discriminate | left; eexists; reflexivity].
    apply mbind_inv in H. destruct H as [(pbc & M3 & H3 & H) | [(c' & H3 & ->) | (s' & H3 & ->)]];
      [| destruct (push_checked _ _ _ _ _ _ _ _ ETB H3); discriminate | left; eexists; reflexivity].
    revert H. match goal with |- ?f M3 = _ -> _ => assert (G : Pres Rnv f) by (repeat first [apply nv_mark | nv_step]) end.
    intros H. pose proof (G _ _ _ H) as E. unfold Rnv in E. right.
    pose proof (invalidate_count _ _ _ H1). pose proof (push_count _ _ _ _ _ _ _ H2). pose proof (push_count _ _ _ _ _ _ _ H3). lia.
  Qed.
  (** without any pre-check (the second hemisphere, whose slot the first one may have recycled): at worst one out *)
  Lemma hemisphere_any (s : Seg K) (p : V) (idx : nat) (M M' : Mesh) (r : res (nat * nat)) :
    process_hemisphere s p idx M = (M', r) ->
    (exists s', r = Panic s') \/ (nvalid M <= nvalid M' + 1 /\ forall x, r = Ok x -> nvalid M' = nvalid M + 1).
  Proof.
    intros H. unfold process_hemisphere in H.
    apply bind_get_inv in H. destruct H as [(t & Et & H) | (_ & E & _)]; [|left; eexists; exact E].
    do 5 (apply bind_lift_inv in H; destruct H as [(? & _ & H) | (-> & HR)];
          [|destruct (lift_fail_cases _ _ HR) as [G|G]; [left; exact G | right; split; [lia | intros xx EE; exfalso; eapply G; exact EE]]]).
    apply mbind_inv in H. destruct H as [([] & M1 & H1 & H) | [(c' & H1 & ->) | (s' & H1 & ->)]];
      [| apply invalidate_err in H1; subst; right; split; [lia | discriminate] | left; eexists; reflexivity].
    pose proof (invalidate_count _ _ _ H1) as C1.
    apply bind_get_inv in H. destruct H as [(t1 & _ & H) | (_ & E & _)]; [|left; eexists; exact E].
    do 4 (apply bind_lift_inv in H; destruct H as [(? & _ & H) | (-> & HR)];
          [|destruct (lift_fail_cases _ _ HR) as [G|G]; [left; exact G | right; split; [lia | intros xx EE; exfalso; eapply G; exact EE]]]).
    apply mbind_inv in H. destruct H as [(apc & M2 & H2 & H) | [(c' & H2 & ->) | (s' & H2 & ->)]];
      [| apply push_fail in H2; [subst; right; split; [lia | discriminate] | discriminate] | left; eexists; reflexivity].
    pose proof (push_count _ _ _ _ _ _ _ H2) as C2.
    apply mbind_inv in H. destruct H as [(pbc & M3 & H3 & H) | [(c' & H3 & ->) | (s' & H3 & ->)]];
      [| apply push_fail in H3; [subst; right; split; [lia | discriminate] | discriminate] | left; eexists; reflexivity].
    pose proof (push_count _ _ _ _ _ _ _ H3) as C3.
    revert H. match goal with |- ?f M3 = _ -> _ => assert (G : Pres Rnv f) by (repeat first [apply nv_mark | nv_step]) end.
    intros H. pose proof (G _ _ _ H) as E. unfold Rnv in E. right. split; [lia | intros; lia].
  Qed.

  (** ** split_edge: +1 without a neighbour across the edge, +2 with one; an Err never lowers the counter *)
  Theorem split_edge_count (i : nat) (e : Edge) (p : V) (M M' : Mesh) (r : res unit) :
    split_edge i e p M = (M', r) ->
    (exists s, r = Panic s) \/
    (nvalid M <= nvalid M' /\
     forall u, r = Ok u -> exists t, nth_error (tris M) i = Some t /\
       nvalid M' = nvalid M + match tp_neighbour t e with Some _ => 2 | None => 1 end).
  Proof.
    intros H. unfold split_edge in H.
    apply bind_get_inv in H. destruct H as [(t & Et & H) | (_ & E & _)]; [|left; eexists; exact E].
    destruct (tp_valid t) eqn:Ev; cbn [negb] in H; [|inversion H; subst; right; split; [lia | discriminate]].
    apply bind_lift_inv in H. destruct H as [(sg & Esg & H) | (-> & HR)];
      [|destruct (lift_fail_cases _ _ HR) as [G|G]; [left; exact G | right; split; [lia | intros xx EE; exfalso; eapply G; exact EE]]].
    apply mbind_inv in H. destruct H as [([] & M0 & H0 & H) | [(c & H0 & ->) | (s & H0 & ->)]];
      [| apply precheck_ro in H0; subst; right; split; [lia | discriminate] | left; eexists; reflexivity].
    pose proof (precheck_ro _ _ _ _ _ _ H0) as E0. subst M0.
    destruct (precheck_ok _ _ _ _ _ H0) as (t' & a & b & c & TA & TB & Et' & HV & ETA & ETB). rewrite Et in Et'. inversion Et'; subst t'. clear Et' H0.
    destruct (tp_neighbour t e) as [nei|] eqn:En.
    - apply mbind_inv in H. destruct H as [([] & M0 & H0 & H) | [(c' & H0 & ->) | (s & H0 & ->)]];
        [| apply precheck_ro in H0; subst; right; split; [lia | discriminate] | left; eexists; reflexivity].
      pose proof (precheck_ro _ _ _ _ _ _ H0) as E0. subst M0. clear H0.
      apply mbind_inv in H. destruct H as [([tl tr] & M1 & H1 & H) | [(c'' & H1 & ->) | (s & H1 & ->)]];
        [| destruct (hemisphere_count _ _ _ _ _ _ _ _ _ _ _ _ Et HV ETA ETB H1) as [(x & E)|E]; [discriminate | right; split; [lia | discriminate]]
         | left; eexists; reflexivity].
      destruct (hemisphere_count _ _ _ _ _ _ _ _ _ _ _ _ Et HV ETA ETB H1) as [(x & E)|C1]; [discriminate|].
      apply mbind_inv in H. destruct H as [([br bl] & M2 & H2 & H) | [(c'' & H2 & ->) | (s & H2 & ->)]];
        [| destruct (hemisphere_any _ _ _ _ _ _ H2) as [(x & E)|[C2 _]]; [discriminate | right; split; [lia | discriminate]]
         | left; eexists; reflexivity].
      destruct (hemisphere_any _ _ _ _ _ _ H2) as [(x & E)|[_ C2]]; [discriminate|]. specialize (C2 _ eq_refl).
      revert H. match goal with |- ?f M2 = _ -> _ => assert (G : Pres Rnv f) by (repeat first [apply nv_mark | nv_step]) end.
      intros H. pose proof (G _ _ _ H) as E. unfold Rnv in E. right. split; [lia|].
      intros u _. exists t. split; [exact Et|]. rewrite En. lia.
    - apply mbind_inv in H. destruct H as [([] & M0 & H0 & H) | [(c' & H0 & ->) | (s & H0 & ->)]]; try discriminate. inversion H0; subst M0. clear H0.
      apply mbind_inv in H. destruct H as [([tl tr] & M1 & H1 & H) | [(c'' & H1 & ->) | (s & H1 & ->)]];
        [| destruct (hemisphere_count _ _ _ _ _ _ _ _ _ _ _ _ Et HV ETA ETB H1) as [(x & E)|E]; [discriminate | right; split; [lia | discriminate]]
         | left; eexists; reflexivity].
      destruct (hemisphere_count _ _ _ _ _ _ _ _ _ _ _ _ Et HV ETA ETB H1) as [(x & E)|C1]; [discriminate|].
      inversion H; subst. right. split; [lia|]. intros u _. exists t. split; [exact Et|]. rewrite En. lia.
  Qed.
  Corollary split_edge_ok_count (i : nat) (e : Edge) (p : V) (M M' : Mesh) (u : unit) :
    split_edge i e p M = (M', Ok u) -> nvalid M < nvalid M' /\ nvalid M' <= nvalid M + 2.
  Proof.
    intros H. destruct (split_edge_count _ _ _ _ _ _ H) as [(s & E) | (_ & G)]; [discriminate|].
    destruct (G u eq_refl) as (t & _ & E). destruct (tp_neighbour t e); lia.
  Qed.
  Corollary split_edge_err_count (i : nat) (e : Edge) (p : V) (M M' : Mesh) (c : N) :
    split_edge i e p M = (M', Err c) -> nvalid M <= nvalid M'.
  Proof. intros H. destruct (split_edge_count _ _ _ _ _ _ H) as [(s & E) | (G & _)]; [discriminate | exact G]. Qed.

  (** ** add_point_to_triangle / add_point *)
  Definition ap_post (M M' : Mesh) (r : res bool) : Prop :=
    (exists s, r = Panic s) \/
    (nvalid M <= nvalid M' /\ (r = Ok true -> nvalid M < nvalid M' /\ nvalid M' <= nvalid M + 2) /\ (r = Ok false -> M' = M)).
  Theorem aptt_count (i : nat) (p : V) (loc : PIT) (M M' : Mesh) (r : res bool) : add_point_to_triangle i p loc M = (M', r) -> ap_post M M' r.
  Proof.
    intros H. unfold add_point_to_triangle in H. unfold ap_post.
    apply bind_get_inv in H. destruct H as [(t & Et & H) | (_ & E & _)]; [|left; eexists; exact E].
    destruct (negb (tp_valid t)); [inversion H; subst; left; eexists; reflexivity|].
    destruct (pit_is_vertex loc); [inversion H; subst; right; split; [lia | split; [discriminate | reflexivity]]|].
    destruct (pit_is_edge loc).
    - apply bind_lift_inv in H. destruct H as [(ed & _ & H) | (-> & HR)].
      2:{ destruct HR as [(c & ->) | (s & -> & _)]; [right; split; [lia | split; discriminate] | left; eexists; reflexivity]. }
      apply mbind_inv in H. destruct H as [(u & M1 & H1 & H) | [(c & H1 & ->) | (s & H1 & ->)]].
      + inversion H; subst. right. destruct (split_edge_ok_count _ _ _ _ _ _ H1). split; [lia | split; [intros _; lia | discriminate]].
      + right. apply split_edge_err_count in H1. split; [exact H1 | split; discriminate].
      + left; eexists; reflexivity.
    - destruct loc; try (inversion H; subst; left; eexists; reflexivity).
      apply mbind_inv in H. destruct H as [(u & M1 & H1 & H) | [(c & H1 & ->) | (s & H1 & ->)]].
      + inversion H; subst. right. pose proof (split_triangle_ok_count _ _ _ _ _ H1). split; [lia | split; [intros _; lia | discriminate]].
      + right. destruct (split_triangle_err_count _ _ _ _ _ H1) as [E|E]; (split; [subst; lia | split; discriminate]).
      + left; eexists; reflexivity.
  Qed.
  Theorem add_point_count (p : V) (M M' : Mesh) (r : res bool) : add_point p M = (M', r) -> ap_post M M' r.
  Proof.
    unfold add_point. destruct (find_container (tris M) 0 p) as [[i loc]|]; [apply aptt_count|].
    intros H; inversion H; subst. right. split; [lia | split; discriminate].
  Qed.

  (** ** one pass of refine: the counter never goes down, and goes up STRICTLY when the pass reports a change *)
  Lemma refine_pass_count (a m : K) : forall (cnt i : nat) (l : list TP) (any : bool) (M M' : Mesh) (b : bool),
    refine_pass a m cnt i l any M = (M', Ok b) ->
    nvalid M <= nvalid M' /\ (b = true -> any = true \/ nvalid M < nvalid M').
  Proof.
    induction cnt as [|cnt IH]; intros i l any M M' b H.
    - cbn [refine_pass] in H. inversion H; subst. split; [lia | auto].
    - cbn [refine_pass] in H. destruct l as [|t l']; [discriminate|].
      destruct (negb (tp_valid t)); [discriminate|].
      destruct (nltb (tarea (tp_tri t)) c1em3); [apply IH in H; exact H|].
      destruct (nltb m (tp_ar t)).
      { apply mbind_ok in H. destruct H as ([s_i s] & M1 & E1 & H). inversion E1; subst M1. clear E1.
        apply mbind_ok in H. destruct H as (ed & M1 & E1 & H). inversion E1; subst M1. clear E1.
        apply mbind_ok in H. destruct H as (u1 & M1 & Hs & H).
        apply mbind_ok in H. destruct H as (u2 & M2 & Hr & H).
        apply IH in H. destruct H as (A & _). destruct (split_edge_ok_count _ _ _ _ _ _ Hs). apply restore_count in Hr.
        split; [lia | intros _; right; lia]. }
      destruct (nltb a (tarea (tp_tri t))); [|apply IH in H; exact H].
      destruct (add_point (tp_cc t) M) as [M1 [did| c | s]] eqn:Eadd; [| |discriminate].
      + destruct (add_point_count _ _ _ _ Eadd) as [(s & E) | (A1 & B1 & C1)]; [discriminate|].
        destruct did.
        * apply mbind_ok in H. destruct H as (u & M2 & Hr & H). apply restore_count in Hr.
          apply IH in H. destruct H as (A & _). specialize (B1 eq_refl). split; [lia | intros _; right; lia].
        * specialize (C1 eq_refl). subst M1. apply IH in H. exact H.
      + destruct (add_point_count _ _ _ _ Eadd) as [(s & E) | (A1 & _)]; [discriminate|].
        apply mbind_ok in H. destruct H as (t' & M2 & E2 & H). unfold mget in E2. inversion E2; subst M2. clear E2.
        apply mbind_ok in H. destruct H as (did & M3 & Hd & H).
        destruct (aptt_ok _ _ _ _ _ _ Hd) as (_ & Ht). rewrite (Ht eq_refl) in H, Hd.
        destruct (aptt_count _ _ _ _ _ _ Hd) as [(s & E) | (_ & B3 & _)]; [discriminate|]. specialize (B3 eq_refl).
        apply mbind_ok in H. destruct H as (u & M4 & Hr & H). apply restore_count in Hr.
        apply IH in H. destruct H as (A & _). split; [lia | intros _; right; lia].
  Qed.
  Theorem refine_pass_progress (a m : K) (M M' : Mesh) (b : bool) :
    refine_pass a m (length (tris M)) 0 (tris M) false M = (M', Ok b) ->
    nvalid M <= nvalid M' /\ (b = true -> nvalid M < nvalid M') /\ (b = false -> M' = M).
  Proof.
    intros H. destruct (refine_pass_count _ _ _ _ _ _ _ _ _ H) as (A & C). split; [exact A | split].
    - intros E. destruct (C E) as [G|G]; [discriminate | exact G].
    - intros ->. apply refine_pass_false in H; [|reflexivity]. apply H.
  Qed.

  (** ** refine: the number of passes (= the recursion depth of the real code) *)
  Fixpoint refine_passes (fuel : nat) (a m : K) (M : Mesh) : nat :=
    match fuel with
    | O => 0
    | S f => S (match refine_pass a m (length (tris M)) 0 (tris M) false M with
                | (M1, Ok true) => refine_passes f a m M1
                | _ => 0
                end)
    end.
  Definition last_pass (r : rres) : nat := match r with RDone => 1 | ROutOfFuel => 0 end.
  Theorem refine_progress (a m : K) : forall (fuel : nat) (M M' : Mesh) (r : rres),
    refine fuel a m M = (M', Ok r) ->
    nvalid M <= nvalid M' /\ nvalid M + refine_passes fuel a m M <= nvalid M' + last_pass r /\ (r = ROutOfFuel -> refine_passes fuel a m M = fuel).
  Proof.
    induction fuel as [|f IH]; intros M M' r H.
    - cbn [refine] in H. inversion H; subst. cbn [refine_passes last_pass]. split; [lia | split; [lia | reflexivity]].
    - cbn [refine] in H. apply mbind_ok in H. destruct H as (any & M1 & Hp & H). cbn [refine_passes]. rewrite Hp.
      destruct (refine_pass_progress _ _ _ _ _ Hp) as (A & B & C). destruct any.
      + specialize (B eq_refl). apply IH in H. destruct H as (A1 & B1 & C1). split; [lia | split; [lia|]]. intros E. rewrite (C1 E). reflexivity.
      + inversion H; subst. cbn [last_pass]. split; [lia | split; [lia | discriminate]].
  Qed.
  Corollary refine_done_passes (a m : K) (fuel : nat) (M M' : Mesh) :
    refine fuel a m M = (M', Ok RDone) -> nvalid M <= nvalid M' /\ refine_passes fuel a m M <= nvalid M' - nvalid M + 1.
  Proof. intros H. destruct (refine_progress _ _ _ _ _ _ H) as (A & B & _). cbn [last_pass] in B. split; [exact A | lia]. Qed.
  (** fuel adequacy: the fuel runs out only if at least [fuel] triangles were created *)
  Corollary refine_out_of_fuel (a m : K) (fuel : nat) (M M' : Mesh) :
    refine fuel a m M = (M', Ok ROutOfFuel) -> nvalid M + fuel <= nvalid M'.
  Proof. intros H. destruct (refine_progress _ _ _ _ _ _ H) as (_ & B & C). rewrite (C eq_refl) in B. cbn [last_pass] in B. lia. Qed.
  Corollary refine_fuel_adequate (a m : K) (fuel B : nat) (M M' : Mesh) (r : rres) :
    refine fuel a m M = (M', Ok r) -> nvalid M' <= B -> B < nvalid M + fuel -> r = RDone.
  Proof. intros H H1 H2. destruct r; [reflexivity|]. apply refine_out_of_fuel in H. lia. Qed.
  (** the fuel is only a device of the model: more fuel does not change an outcome other than ROutOfFuel *)
  Theorem refine_fuel_mono (a m : K) : forall (fuel k : nat) (M M' : Mesh) (r : res rres),
    refine fuel a m M = (M', r) -> r <> Ok ROutOfFuel ->
    refine (fuel + k) a m M = (M', r) /\ refine_passes (fuel + k) a m M = refine_passes fuel a m M.
  Proof.
    induction fuel as [|f IH]; intros k M M' r H Hr.
    - cbn [refine] in H. inversion H; subst. exfalso; apply Hr; reflexivity.
    - cbn [Nat.add refine refine_passes] in *. unfold mbind in *.
      destruct (refine_pass a m (length (tris M)) 0 (tris M) false M) as [M1 [[|]| c | s]]; try (split; [exact H | reflexivity]).
      destruct (IH k _ _ _ H Hr) as (E1 & E2). split; [exact E1 | rewrite E2; reflexivity].
  Qed.

  (** ** slots: the vector of slots never shrinks *)
  Lemma refine_pass_slots (a m : K) (cnt i : nat) (l : list TP) (any : bool) (M M' : Mesh) (r : res bool) :
    refine_pass a m cnt i l any M = (M', r) -> length (tris M) <= length (tris M').
  Proof. intros H. exact (proj1 (wf_refine_pass a m cnt i l any M M' r H)). Qed.
  Lemma refine_slots (a m : K) (fuel : nat) (M M' : Mesh) (r : res rres) : refine fuel a m M = (M', r) -> length (tris M) <= length (tris M').
  Proof. intros H. exact (proj1 (wf_refine a m fuel M M' r H)). Qed.
  Lemma count_valid_all (l : list TP) : forallb tp_valid l = true -> count_valid l = length l.
  Proof. induction l as [|t l IH]; cbn [forallb count_valid length]; [reflexivity|]. intros H. apply andb_true_iff in H. destruct H as [H1 H2]. rewrite H1, (IH H2). reflexivity. Qed.
  (** after [Ok RDone] every slot is live (C18): the number of slots IS the number of live triangles *)
  Lemma refine_done_slots (a m : K) (fuel : nat) (M M' : Mesh) :
    refine fuel a m M = (M', Ok RDone) -> length (tris M') = count_valid (tris M') /\ (CNT M' -> length (tris M') = nvalid M').
  Proof.
    intros H. apply refine_ok_all_valid in H. apply count_valid_all in H. split; [symmetry; exact H|]. intros C. unfold CNT in C. congruence.
  Qed.

  (** ** cost: at most three trace events per slot read at loop entry (an insertion or a swallowed attempt, the
      fall-back insertion, one restore_delaunay) *)
  Lemma refine_pass_trace_length (a m : K) : forall (cnt i : nat) (l : list TP) (M : Mesh), length (refine_pass_trace a m cnt i l M) <= 3 * cnt.
  Proof.
    induction cnt as [|cnt IH]; intros i l M; cbn [refine_pass_trace]; [cbn; lia|].
    repeat (match goal with
            | |- context [if ?b then _ else _] => destruct b
            | |- context [match ?x with _ => _ end] => destruct x
            end; cbn [length]);
    try lia; match goal with |- context [refine_pass_trace a m cnt ?i' ?l' ?M'] => specialize (IH i' l' M'); lia end.
  Qed.
  (** ... of which at most one per slot is a restore_delaunay (each at most MAX_LOOPS = 30 sweeps of the slots) *)
  Definition is_restore (ev : tev K) : bool := match ev with TStep (ORestore _) => true | _ => false end.
  Lemma refine_pass_trace_restores (a m : K) : forall (cnt i : nat) (l : list TP) (M : Mesh),
    length (filter is_restore (refine_pass_trace a m cnt i l M)) <= cnt.
  Proof.
    induction cnt as [|cnt IH]; intros i l M; cbn [refine_pass_trace]; [cbn; lia|].
    repeat (match goal with
            | |- context [if ?b then _ else _] => destruct b
            | |- context [match ?x with _ => _ end] => destruct x
            end; cbn [length filter is_restore]);
    try lia; match goal with |- context [refine_pass_trace a m cnt ?i' ?l' ?M'] => specialize (IH i' l' M'); lia end.
  Qed.
  Theorem refine_pass_cost (a m : K) (cnt i : nat) (l : list TP) (M : Mesh) :
    length (refine_pass_trace a m cnt i l M) <= 3 * cnt /\ length (filter is_restore (refine_pass_trace a m cnt i l M)) <= cnt.
  Proof. split; [apply refine_pass_trace_length | apply refine_pass_trace_restores]. Qed.
  Theorem refine_trace_length (a m : K) : forall (fuel : nat) (M M' : Mesh) (r : res rres),
    refine fuel a m M = (M', r) -> length (refine_trace fuel a m M) <= 3 * (refine_passes fuel a m M * length (tris M')).
  Proof.
    induction fuel as [|f IH]; intros M M' r H; cbn [refine_trace refine_passes]; [cbn; lia|].
    rewrite app_length. pose proof (refine_pass_trace_length a m (length (tris M)) 0 (tris M) M) as L0.
    cbn [refine] in H. unfold mbind in H.
    destruct (refine_pass a m (length (tris M)) 0 (tris M) false M) as [M1 [[|]| c | s]] eqn:Hp; pose proof (refine_pass_slots _ _ _ _ _ _ _ _ _ Hp) as S1.
    - pose proof (refine_slots _ _ _ _ _ _ H) as S2. apply IH in H. nia.
    - inversion H; subst. cbn [length]. nia.
    - inversion H; subst. cbn [length]. nia.
    - inversion H; subst. cbn [length]. nia.
  Qed.
  (** combined: a successful refine performs at most 3 * (final slots) * (created triangles + 1) elementary operations *)
  Theorem refine_cost (a m : K) (fuel : nat) (M M' : Mesh) :
    refine fuel a m M = (M', Ok RDone) ->
    length (refine_trace fuel a m M) <= 3 * ((nvalid M' - nvalid M + 1) * length (tris M')) /\
    length (tris M') = count_valid (tris M').
  Proof.
    intros H. pose proof (refine_trace_length _ _ _ _ _ _ H) as L. destruct (refine_done_passes _ _ _ _ _ H) as (_ & P).
    split; [nia | exact (proj1 (refine_done_slots _ _ _ _ _ H))].
  Qed.

  (** ** mesh_polygon *)
  Theorem mesh_polygon_progress (fuel : nat) (P : Poly K) (a m : K) (M0 M' : Mesh) (r : rres) :
    from_polygon P = Ok M0 -> mesh_polygon fuel P a m = Ok (M', r) ->
    refine fuel a m M0 = (M', Ok r) /\ nvalid M0 <= nvalid M' /\ nvalid M0 + refine_passes fuel a m M0 <= nvalid M' + last_pass r /\
    (nvalid M' < nvalid M0 + fuel -> r = RDone).
  Proof.
    intros H0 H. unfold mesh_polygon in H. rewrite H0 in H. cbn [rbind] in H.
    destruct (refine fuel a m M0) as [t' [o| |]] eqn:E; cbn [rbind] in H; try discriminate. inversion H; subst.
    destruct (refine_progress _ _ _ _ _ _ E) as (A & B & _). split; [reflexivity | split; [exact A | split; [exact B|]]].
    intros L. eapply refine_fuel_adequate; [exact E | apply Nat.le_refl | exact L].
  Qed.
End Progress.
