(** * Bridge_interval: the [ApproxFloat] operators of Model/RoundError.v (18 forms, sqrt, constructors, accessors)
    and [af_solve_quadratic] commute with a [Num] homomorphism; at [P2B : NumF -> NumB64] the primitive-float run of
    the interval arithmetic (as used by the sphere / cylinder runners) IS the Flocq binary64 run that the C07 / C17
    theorems speak about. *)
From Coq Require Import ZArith Bool List Floats.
From G3 Require Import Model.Num Model.NumF Model.Base Model.RoundError Theory.PrimBridge.

Definition mapAF {A B} (f : A -> B) (a : AF A) : AF B := mkAF (f (low a)) (f (high a)).
Ltac af_norm := unfold mapAF, mapP; cbn [low high fst snd].

Section Interval.
  Context {K1 K2 : Type} {N1 : Num K1} {N2 : Num K2} (h : K1 -> K2) {H : NumHom N1 N2 h}.
  Notation mA := (mapAF h).

  Lemma hom_af_from_value_and_error (v e : K1) : af_from_value_and_error (h v) (h e) = mA (af_from_value_and_error v e).
  Proof. unfold af_from_value_and_error. af_norm. hom_pull h. reflexivity. Qed.
  Lemma hom_af_from (v : K1) : af_from (h v) = mA (af_from v).
  Proof. unfold af_from. rewrite (hom_n0 h). apply hom_af_from_value_and_error. Qed.
  Lemma hom_af_from_bounds (l u : K1) : af_from_bounds (h l) (h u) = mA (af_from_bounds l u).
  Proof. reflexivity. Qed.
  Lemma hom_af_from_bounds_debug_ok (l u : K1) : af_from_bounds_debug_ok (h l) (h u) = af_from_bounds_debug_ok l u.
  Proof. unfold af_from_bounds_debug_ok. hom_pull h. reflexivity. Qed.
  Lemma hom_af_midpoint (a : AF K1) : af_midpoint (mA a) = h (af_midpoint a).
  Proof. unfold af_midpoint. af_norm. hom_pull h. reflexivity. Qed.
  Lemma hom_af_as_float (a : AF K1) : af_as_float (mA a) = h (af_as_float a).
  Proof. apply hom_af_midpoint. Qed.
  Lemma hom_af_absolute_error (a : AF K1) : af_absolute_error (mA a) = h (af_absolute_error a).
  Proof. unfold af_absolute_error. af_norm. hom_pull h. reflexivity. Qed.
  Lemma hom_af_sqrt (a : AF K1) : af_sqrt (mA a) = mA (af_sqrt a).
  Proof. unfold af_sqrt. af_norm. hom_pull h. reflexivity. Qed.
  Lemma hom_af_neg (a : AF K1) : af_neg (mA a) = mA (af_neg a).
  Proof. unfold af_neg. af_norm. hom_pull h. reflexivity. Qed.
  Lemma hom_af_add (a b : AF K1) : af_add (mA a) (mA b) = mA (af_add a b).
  Proof. unfold af_add. af_norm. hom_pull h. reflexivity. Qed.
  Lemma hom_af_add_f (a : AF K1) (f : K1) : af_add_f (mA a) (h f) = mA (af_add_f a f).
  Proof. unfold af_add_f. rewrite hom_af_from. apply hom_af_add. Qed.
  Lemma hom_af_sub (a b : AF K1) : af_sub (mA a) (mA b) = mA (af_sub a b).
  Proof. unfold af_sub. af_norm. hom_pull h. reflexivity. Qed.
  Lemma hom_af_sub_f (a : AF K1) (f : K1) : af_sub_f (mA a) (h f) = mA (af_sub_f a f).
  Proof. unfold af_sub_f. rewrite hom_af_from. apply hom_af_sub. Qed.

  Lemma hom_max_min4 (a0 a1 a2 a3 : K1) : max_min4 (h a0) (h a1) (h a2) (h a3) = mapP h h (max_min4 a0 a1 a2 a3).
  Proof.
    unfold max_min4. cbv beta iota zeta. hom_pull h.
    repeat match goal with |- context [if ?c then _ else _] => destruct c end; reflexivity.
  Qed.

  Lemma hom_af_mul (a b : AF K1) : af_mul (mA a) (mA b) = mA (af_mul a b).
  Proof.
    unfold af_mul. cbv zeta. af_norm. hom_pull h. rewrite !hom_max_min4.
    destruct (max_min4 (nnext_dn _) _ _ _) as [x mn]. destruct (max_min4 (nnext_up _) _ _ _) as [mx y].
    af_norm. hom_pull h. reflexivity.
  Qed.
  Lemma hom_af_mul_f (a : AF K1) (f : K1) : af_mul_f (mA a) (h f) = mA (af_mul_f a f).
  Proof.
    unfold af_mul_f. cbv zeta. af_norm. hom_pull h. destruct (nltb _ _); af_norm; reflexivity.
  Qed.
  Lemma hom_af_div (a b : AF K1) : af_div (mA a) (mA b) = mA (af_div a b).
  Proof.
    unfold af_div. cbv zeta. af_norm. hom_pull h. rewrite !hom_max_min4.
    destruct (max_min4 (nnext_dn _) _ _ _) as [x mn]. destruct (max_min4 (nnext_up _) _ _ _) as [mx y].
    af_norm. hom_pull h. reflexivity.
  Qed.
  Lemma hom_af_div_f (a : AF K1) (f : K1) : af_div_f (mA a) (h f) = mA (af_div_f a f).
  Proof. unfold af_div_f. rewrite hom_af_from. apply hom_af_div. Qed.
  Lemma hom_af_add_assign (a b : AF K1) : af_add_assign (mA a) (mA b) = mA (af_add_assign a b).
  Proof. apply hom_af_add. Qed.
  Lemma hom_af_add_assign_f (a : AF K1) (f : K1) : af_add_assign_f (mA a) (h f) = mA (af_add_assign_f a f).
  Proof. apply hom_af_add_f. Qed.
  Lemma hom_af_sub_assign (a b : AF K1) : af_sub_assign (mA a) (mA b) = mA (af_sub_assign a b).
  Proof. apply hom_af_sub. Qed.
  Lemma hom_af_sub_assign_f (a : AF K1) (f : K1) : af_sub_assign_f (mA a) (h f) = mA (af_sub_assign_f a f).
  Proof. apply hom_af_sub_f. Qed.
  Lemma hom_af_mul_assign (a b : AF K1) : af_mul_assign (mA a) (mA b) = mA (af_mul_assign a b).
  Proof.
    unfold af_mul_assign. af_norm. hom_pull h. rewrite hom_max_min4.
    destruct (max_min4 _ _ _ _) as [mx mn]. af_norm. hom_pull h. reflexivity.
  Qed.
  Lemma hom_af_mul_assign_f (a : AF K1) (f : K1) : af_mul_assign_f (mA a) (h f) = mA (af_mul_assign_f a f).
  Proof. unfold af_mul_assign_f. rewrite hom_af_from. apply hom_af_mul_assign. Qed.
  Lemma hom_af_div_assign (a b : AF K1) : af_div_assign (mA a) (mA b) = mA (af_div_assign a b).
  Proof.
    unfold af_div_assign. af_norm. hom_pull h. rewrite hom_max_min4.
    destruct (max_min4 _ _ _ _) as [mx mn]. af_norm. hom_pull h. reflexivity.
  Qed.
  Lemma hom_af_div_assign_f (a : AF K1) (f : K1) : af_div_assign_f (mA a) (h f) = mA (af_div_assign_f a f).
  Proof. unfold af_div_assign_f. rewrite hom_af_from. apply hom_af_div_assign. Qed.

  Lemma low_mapAF (x : AF K1) : low (mA x) = h (low x). Proof. reflexivity. Qed.
  (** [ApproxFloat::solve_quadratic]: same decision (None / Some, order) and the images of both enclosures *)
  Lemma hom_af_solve_quadratic (a b c : AF K1) :
    af_solve_quadratic (mA a) (mA b) (mA c) = mapOpt (mapP mA mA) (af_solve_quadratic a b c).
  Proof.
    unfold af_solve_quadratic. cbv zeta.
    rewrite (hom_ofZ (h:=h) 4 eq_refl), (hom_nhalf h), (hom_n0 h).
    rewrite !hom_af_mul, hom_af_mul_f, hom_af_sub.
    rewrite !low_mapAF, (hom_ltb (h:=h)).
    destruct (nltb (low _) n0); [reflexivity|].
    rewrite hom_af_sqrt, hom_af_as_float, (hom_ltb (h:=h)).
    rewrite hom_af_sub, hom_af_add, !hom_af_neg, !hom_af_mul_f.
    assert (E : forall (t : bool) (x y : AF K1), (if t then mA x else mA y) = mA (if t then x else y)) by (intros []; reflexivity).
    rewrite E, !hom_af_div.
    rewrite !low_mapAF, (hom_ltb (h:=h)).
    destruct (nltb (low _) (low _)); reflexivity.
  Qed.
End Interval.

(** at [P2B] *)
Notation pI := (mapAF P2B).
Theorem prim_af_solve_quadratic (a b c : AF Coq.Floats.PrimFloat.float) :
  mapOpt (mapP pI pI) (@af_solve_quadratic _ NumF a b c) = @af_solve_quadratic _ NumB64 (pI a) (pI b) (pI c).
Proof. symmetry. apply (hom_af_solve_quadratic P2B). Qed.

Theorem prim_af_ops (I J : AF Coq.Floats.PrimFloat.float) (f e : Coq.Floats.PrimFloat.float) :
  (pI (@af_neg _ NumF I) = @af_neg _ NumB64 (pI I) /\ pI (@af_sqrt _ NumF I) = @af_sqrt _ NumB64 (pI I)) /\
  (pI (@af_add _ NumF I J) = @af_add _ NumB64 (pI I) (pI J) /\ pI (@af_sub _ NumF I J) = @af_sub _ NumB64 (pI I) (pI J) /\
   pI (@af_mul _ NumF I J) = @af_mul _ NumB64 (pI I) (pI J) /\ pI (@af_div _ NumF I J) = @af_div _ NumB64 (pI I) (pI J)) /\
  (pI (@af_add_f _ NumF I f) = @af_add_f _ NumB64 (pI I) (P2B f) /\ pI (@af_sub_f _ NumF I f) = @af_sub_f _ NumB64 (pI I) (P2B f) /\
   pI (@af_mul_f _ NumF I f) = @af_mul_f _ NumB64 (pI I) (P2B f) /\ pI (@af_div_f _ NumF I f) = @af_div_f _ NumB64 (pI I) (P2B f)) /\
  (pI (@af_add_assign _ NumF I J) = @af_add_assign _ NumB64 (pI I) (pI J) /\
   pI (@af_sub_assign _ NumF I J) = @af_sub_assign _ NumB64 (pI I) (pI J) /\
   pI (@af_mul_assign _ NumF I J) = @af_mul_assign _ NumB64 (pI I) (pI J) /\
   pI (@af_div_assign _ NumF I J) = @af_div_assign _ NumB64 (pI I) (pI J)) /\
  (pI (@af_add_assign_f _ NumF I f) = @af_add_assign_f _ NumB64 (pI I) (P2B f) /\
   pI (@af_sub_assign_f _ NumF I f) = @af_sub_assign_f _ NumB64 (pI I) (P2B f) /\
   pI (@af_mul_assign_f _ NumF I f) = @af_mul_assign_f _ NumB64 (pI I) (P2B f) /\
   pI (@af_div_assign_f _ NumF I f) = @af_div_assign_f _ NumB64 (pI I) (P2B f)) /\
  (pI (@af_from _ NumF f) = @af_from _ NumB64 (P2B f) /\
   pI (@af_from_value_and_error _ NumF f e) = @af_from_value_and_error _ NumB64 (P2B f) (P2B e) /\
   P2B (@af_midpoint _ NumF I) = @af_midpoint _ NumB64 (pI I) /\
   P2B (@af_absolute_error _ NumF I) = @af_absolute_error _ NumB64 (pI I)).
Proof.
  repeat split; symmetry.
  - apply (hom_af_neg P2B). - apply (hom_af_sqrt P2B).
  - apply (hom_af_add P2B). - apply (hom_af_sub P2B). - apply (hom_af_mul P2B). - apply (hom_af_div P2B).
  - apply (hom_af_add_f P2B). - apply (hom_af_sub_f P2B). - apply (hom_af_mul_f P2B). - apply (hom_af_div_f P2B).
  - apply (hom_af_add_assign P2B). - apply (hom_af_sub_assign P2B). - apply (hom_af_mul_assign P2B). - apply (hom_af_div_assign P2B).
  - apply (hom_af_add_assign_f P2B). - apply (hom_af_sub_assign_f P2B). - apply (hom_af_mul_assign_f P2B). - apply (hom_af_div_assign_f P2B).
  - apply (hom_af_from P2B). - apply (hom_af_from_value_and_error P2B).
  - apply (hom_af_midpoint P2B). - apply (hom_af_absolute_error P2B).
Qed.

Lemma prim_af_example : @af_add _ NumF (mkAF 1%float 2%float) (mkAF 3%float 4%float) = mkAF (next_down 4%float) (next_up 6%float).
Proof. vm_compute. reflexivity. Qed.
