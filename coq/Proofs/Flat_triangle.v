(** * Flat_triangle: ray / triangle (Moller-Trumbore), exact tier. *)
From Coq Require Import ZArith Reals Lra Bool List Psatz.
From G3 Require Import Model.Num Model.Base Model.Vec Model.BBox Model.Transform Model.Hit Model.Segment Model.Triangle
  Model.PinnedFlat Theory.RInst Proofs.C06_transform Proofs.Flat_base.
Local Open Scope R_scope.

(** the point of the triangle's plane with parametric coordinates (u, v) *)
Definition tri_point (v0 v1 v2 : V) (u v : R) : V := vadd v0 (vadd (vscale (vsub v1 v0) u) (vscale (vsub v2 v0) v)).
(** the determinant of Moller-Trumbore: a = e1 . (d x e2) = - d . (e1 x e2) *)
Definition tri_det (ray : Ray R) (v0 v1 v2 : V) : R := vdot (vsub v1 v0) (vcross (rdir ray) (vsub v2 v0)).
Lemma tri_det_normal (ray : Ray R) (v0 v1 v2 : V) :
  tri_det ray v0 v1 v2 = - vdot (vcross (vsub v1 v0) (vsub v2 v0)) (rdir ray).
Proof. destruct ray as [[ox oy oz] [dx dy dz]], v0 as [ax ay az], v1 as [bx b_y bz], v2 as [cx cy cz]. unfold tri_det. vunf. ring. Qed.

Ltac bool_cases :=
  repeat match goal with
  | H : context [Rltb ?a ?b] |- _ => let E := fresh "E" in destruct (Rltb a b) eqn:E; [apply Rltb_true in E | apply Rltb_false in E]
  | H : context [Rleb ?a ?b] |- _ => let E := fresh "E" in destruct (Rleb a b) eqn:E; [apply Rleb_true in E | apply Rleb_false in E]
  | |- context [Rltb ?a ?b] => let E := fresh "E" in destruct (Rltb a b) eqn:E; [apply Rltb_true in E | apply Rltb_false in E]
  | |- context [Rleb ?a ?b] => let E := fresh "E" in destruct (Rleb a b) eqn:E; [apply Rleb_true in E | apply Rleb_false in E]
  end.

(** ** C02: a reported hit is a true hit *)
Lemma intersect_triangle_sound (ray : Ray R) (v0 v1 v2 p : V) (u v : R) :
  intersect_triangle ray v0 v1 v2 = Some (p, u, v) ->
  exists t, ctiny < t /\ p = ray_project ray t /\ p = tri_point v0 v1 v2 u v /\ 0 <= u /\ 0 <= v /\ u + v <= 1.
Proof.
  pose proof ctiny_pos as Ht.
  destruct ray as [[ox oy oz] [dx dy dz]], v0 as [ax ay az], v1 as [bx b_y bz], v2 as [cx cy cz].
  unfold intersect_triangle, intersect_triangle_tag, tri_point. vunf. cbv zeta.
  set (a := (bx - ax) * ((dy * (cz - az) - dz * (cy - ay))) + (b_y - ay) * (dz * (cx - ax) - dx * (cz - az)) + (bz - az) * (dx * (cy - ay) - dy * (cx - ax))) in *.
  intros H. bool_cases; cbn [andb orb negb fst] in H; try discriminate.
  all: injection H as Hp Hu Hv; assert (Ha : a <> 0) by lra;
    eexists; split; [eassumption|]; split; [symmetry; exact Hp|]; subst u v p.
  all: split; [|repeat split; lra].
  all: apply v3_eq; cbn [vx vy vz]; subst a; field; exact Ha.
Qed.

(** ** the three Cramer quotients the code computes *)
Definition mt_u (ray : Ray R) (v0 v1 v2 : V) : R :=
  1 / tri_det ray v0 v1 v2 * vdot (vsub (rorigin ray) v0) (vcross (rdir ray) (vsub v2 v0)).
Definition mt_v (ray : Ray R) (v0 v1 v2 : V) : R :=
  1 / tri_det ray v0 v1 v2 * vdot (rdir ray) (vcross (vsub (rorigin ray) v0) (vsub v1 v0)).
Definition mt_t (ray : Ray R) (v0 v1 v2 : V) : R :=
  1 / tri_det ray v0 v1 v2 * vdot (vsub v2 v0) (vcross (vsub (rorigin ray) v0) (vsub v1 v0)).

Lemma intersect_triangle_eq (ray : Ray R) (v0 v1 v2 : V) :
  intersect_triangle ray v0 v1 v2 =
    let a := tri_det ray v0 v1 v2 in let u := mt_u ray v0 v1 v2 in let v := mt_v ray v0 v1 v2 in let t := mt_t ray v0 v1 v2 in
    if Rltb (- ctiny) a && Rltb a ctiny then None else
    if negb (Rleb 0 u && Rleb u 1) then None else
    if Rltb v 0 || Rltb 1 (u + v) then None else
    if Rltb ctiny t then Some (ray_project ray t, u, v) else None.
Proof.
  unfold intersect_triangle, intersect_triangle_tag, mt_u, mt_v, mt_t, tri_det. cbv zeta. rnum.
  repeat match goal with |- context [if ?b then _ else _] => destruct b end; reflexivity.
Qed.

(** Cramer's rule: if the line of the ray meets the plane of the triangle at parameter t in the point (u, v),
    the code's quotients are exactly (u, v, t) *)
Lemma mt_cramer (ray : Ray R) (v0 v1 v2 : V) (t u v : R) :
  tri_det ray v0 v1 v2 <> 0 -> ray_project ray t = tri_point v0 v1 v2 u v ->
  mt_u ray v0 v1 v2 = u /\ mt_v ray v0 v1 v2 = v /\ mt_t ray v0 v1 v2 = t.
Proof.
  destruct ray as [[ox oy oz] [dx dy dz]], v0 as [ax ay az], v1 as [bx b_y bz], v2 as [cx cy cz].
  unfold mt_u, mt_v, mt_t, tri_det, tri_point. vunf. intros Ha H. inversion H as [[H1 H2 H3]].
  assert (Ex : ox = ax + ((bx - ax) * u + (cx - ax) * v) - dx * t) by lra.
  assert (Ey : oy = ay + ((b_y - ay) * u + (cy - ay) * v) - dy * t) by lra.
  assert (Ez : oz = az + ((bz - az) * u + (cz - az) * v) - dz * t) by lra.
  clear H H1 H2 H3. subst ox oy oz. repeat split; field; exact Ha.
Qed.

Lemma tri_det_band (a : R) : Rltb (- ctiny) a && Rltb a ctiny = true <-> - ctiny < a < ctiny.
Proof. rewrite andb_true_iff, !Rltb_true. tauto. Qed.

(** ** C03: a crossing inside the (closed) triangle, ahead of the origin by more than TINY and outside the
    parallel band, is reported -- with exactly that point and those coordinates *)
Lemma intersect_triangle_complete (ray : Ray R) (v0 v1 v2 : V) (t u v : R) :
  ~ (- ctiny < tri_det ray v0 v1 v2 < ctiny) ->
  ray_project ray t = tri_point v0 v1 v2 u v -> ctiny < t -> 0 <= u -> 0 <= v -> u + v <= 1 ->
  intersect_triangle ray v0 v1 v2 = Some (ray_project ray t, u, v).
Proof.
  intros Hb Hx Ht Hu Hv Huv. pose proof ctiny_pos as Hc.
  assert (Ha : tri_det ray v0 v1 v2 <> 0) by (intros E; apply Hb; rewrite E; lra).
  destruct (mt_cramer ray v0 v1 v2 t u v Ha Hx) as (Eu & Ev & Et).
  rewrite intersect_triangle_eq. cbv zeta. rewrite Eu, Ev, Et.
  destruct (Rltb (- ctiny) (tri_det ray v0 v1 v2) && Rltb (tri_det ray v0 v1 v2) ctiny) eqn:B; [apply tri_det_band in B; contradiction|].
  assert (B1 : Rleb 0 u = true) by (apply Rleb_true; lra). assert (B2 : Rleb u 1 = true) by (apply Rleb_true; lra).
  assert (B3 : Rltb v 0 = false) by (apply Rltb_false; lra). assert (B4 : Rltb 1 (u + v) = false) by (apply Rltb_false; lra).
  assert (B5 : Rltb ctiny t = true) by (apply Rltb_true; lra).
  rewrite B1, B2, B3, B4, B5. reflexivity.
Qed.

(** a crossing outside the triangle, or not further than TINY ahead (in particular behind the origin), is not reported;
    nor is anything in the parallel band *)
Lemma intersect_triangle_miss (ray : Ray R) (v0 v1 v2 : V) (t u v : R) :
  ray_project ray t = tri_point v0 v1 v2 u v -> (u < 0 \/ v < 0 \/ 1 < u + v \/ t <= ctiny) ->
  intersect_triangle ray v0 v1 v2 = None.
Proof.
  intros Hx Hout. pose proof ctiny_pos as Hc. rewrite intersect_triangle_eq. cbv zeta.
  destruct (Rltb (- ctiny) (tri_det ray v0 v1 v2) && Rltb (tri_det ray v0 v1 v2) ctiny) eqn:B; [reflexivity|].
  assert (Ha : tri_det ray v0 v1 v2 <> 0).
  { intros E. rewrite E in B. apply andb_false_iff in B. destruct B as [B|B]; apply Rltb_false in B; lra. }
  destruct (mt_cramer ray v0 v1 v2 t u v Ha Hx) as (Eu & Ev & Et). rewrite Eu, Ev, Et.
  destruct (Rleb 0 u) eqn:B1; [apply Rleb_true in B1 | reflexivity].
  destruct (Rleb u 1) eqn:B2; [apply Rleb_true in B2 | reflexivity]. cbn [andb negb].
  destruct (Rltb v 0) eqn:B3; [reflexivity | apply Rltb_false in B3].
  destruct (Rltb 1 (u + v)) eqn:B4; [reflexivity | apply Rltb_false in B4]. cbn [orb].
  destruct (Rltb ctiny t) eqn:B5; [apply Rltb_true in B5 | reflexivity]. lra.
Qed.
Lemma intersect_triangle_parallel (ray : Ray R) (v0 v1 v2 : V) :
  - ctiny < tri_det ray v0 v1 v2 < ctiny -> intersect_triangle ray v0 v1 v2 = None.
Proof. intros H. rewrite intersect_triangle_eq. cbv zeta. apply tri_det_band in H. rewrite H. reflexivity. Qed.

(** a hit is outside the parallel band; hence the triangle is not degenerate and the ray is not in its plane *)
Lemma intersect_triangle_det (ray : Ray R) (v0 v1 v2 : V) (x : V * R * R) :
  intersect_triangle ray v0 v1 v2 = Some x -> ~ (- ctiny < tri_det ray v0 v1 v2 < ctiny).
Proof. intros H B. rewrite intersect_triangle_parallel in H by assumption. discriminate. Qed.

(** ** the pinned code accepted the whole parallelogram *)
Lemma intersect_triangle_pinned_unsound :
  exists (ray : Ray R) (v0 v1 v2 p : V) (u v : R),
    intersect_triangle_pinned ray v0 v1 v2 = Some (p, u, v) /\ 1 < u + v.
Proof.
  exists (mkRay (mkV3 (9/10) (9/10) 1) (mkV3 0 0 (-1))), (mkV3 0 0 0), (mkV3 1 0 0), (mkV3 0 1 0).
  eexists; eexists; eexists. unfold intersect_triangle_pinned. vunf. cbv zeta.
  pose proof ctiny_pos as Hc. assert (Hs : @ctiny R _ < 1 / 2) by (unfold ctiny; pose proof neps_small; rnum; lra).
  repeat match goal with
  | |- context [Rltb ?a ?b] => let E := fresh "E" in destruct (Rltb a b) eqn:E; [apply Rltb_true in E | apply Rltb_false in E]
  | |- context [Rleb ?a ?b] => let E := fresh "E" in destruct (Rleb a b) eqn:E; [apply Rleb_true in E | apply Rleb_false in E]
  end; cbn [andb orb negb]; try (exfalso; lra).
  all: try (split; [reflexivity|]; lra).
Qed.

(** ** Triangle3D::intersect / simple_intersect (a Triangle3D never carries a transform) *)
Definition tri_N (t : Tri R) : V := vcross (vsub (tb t) (ta t)) (vsub (tc t) (ta t)).
Definition in_triangle (t : Tri R) (p : V) : Prop :=
  exists u v, p = tri_point (ta t) (tb t) (tc t) u v /\ 0 <= u /\ 0 <= v /\ u + v <= 1.

Lemma tri_intersect_spec (t : Tri R) (ray : Ray R) (i : Info R) :
  tri_intersect t ray = Some i ->
  (exists tt, ctiny < tt /\ ip i = ray_project ray tt) /\ in_triangle t (ip i) /\
  idpdu i = vsub (tb t) (ta t) /\ idpdv i = vsub (tc t) (ta t) /\
  vlen2 (tri_N t) <> 0 /\ vdot (tri_N t) (rdir ray) <> 0 /\
  vdot (inormal i) (rdir ray) < 0 /\ vlen2 (inormal i) = 1 /\
  vdot (inormal i) (idpdu i) = 0 /\ vdot (inormal i) (idpdv i) = 0 /\
  (vdot (tri_N t) (rdir ray) < 0 -> iside i = Front /\ inormal i = vnormalize (tri_N t)) /\
  (0 < vdot (tri_N t) (rdir ray) -> iside i = Back /\ inormal i = vneg (vnormalize (tri_N t))).
Proof.
  unfold tri_intersect, tri_intersect_local_ray. intros H.
  destruct (intersect_triangle ray (ta t) (tb t) (tc t)) as [[[p u] v]|] eqn:E; [|discriminate].
  pose proof (intersect_triangle_det _ _ _ _ _ E) as Hb. pose proof ctiny_pos as Hc.
  apply intersect_triangle_sound in E. destruct E as (tt & Ht & Hp & Hq & Hu & Hv & Huv).
  fold (tri_N t) in H.
  assert (Hd : vdot (tri_N t) (rdir ray) <> 0).
  { intros Z. apply Hb. rewrite tri_det_normal. fold (tri_N t). rewrite Z. lra. }
  assert (Hn : vlen2 (tri_N t) <> 0).
  { intros Z. apply vlen2_zero in Z. apply Hd. rewrite Z. destruct (rdir ray) as [dx dy dz]. vunf. ring. }
  pose proof (vnormalize_dot_sign (tri_N t) (rdir ray) Hn) as (S1 & S2 & S3).
  pose proof (vnormalize_unit (tri_N t) Hn) as Hun.
  assert (P1 : vdot (vnormalize (tri_N t)) (vsub (tb t) (ta t)) = 0) by (rewrite vnormalize_dot; unfold tri_N; rewrite vcross_perp_l; unfold Rdiv; ring).
  assert (P2 : vdot (vnormalize (tri_N t)) (vsub (tc t) (ta t)) = 0) by (rewrite vnormalize_dot; unfold tri_N; rewrite vcross_perp_r; unfold Rdiv; ring).
  destruct (Rlt_dec (vdot (tri_N t) (rdir ray)) 0) as [L|L].
  - rewrite get_side_front in H by (apply S1; exact L). injection H as <-. cbn [ip inormal iside idpdu idpdv].
    repeat split; try assumption; try (exists tt; split; assumption); try (exists u, v; repeat split; assumption);
      try (apply S1; assumption); try lra.
  - assert (G : 0 < vdot (tri_N t) (rdir ray)) by lra.
    rewrite get_side_back in H by (apply S2; exact G). injection H as <-. cbn [ip inormal iside idpdu idpdv].
    repeat split; try assumption; try (exists tt; split; assumption); try (exists u, v; repeat split; assumption); try lra.
    + rewrite vdot_neg_l. apply S2 in G. lra.
    + rewrite vlen2_neg. exact Hun.
    + rewrite vdot_neg_l, P1. ring.
    + rewrite vdot_neg_l, P2. ring.
Qed.

(** the same triangle reached from its two sides: side and normal both flip *)
Lemma tri_two_sided (t : Tri R) (r1 r2 : Ray R) (i1 i2 : Info R) :
  tri_intersect t r1 = Some i1 -> tri_intersect t r2 = Some i2 ->
  vdot (tri_N t) (rdir r1) < 0 -> 0 < vdot (tri_N t) (rdir r2) ->
  iside i1 = Front /\ iside i2 = Back /\ inormal i2 = vneg (inormal i1).
Proof.
  intros H1 H2 L G. apply tri_intersect_spec in H1, H2.
  destruct H1 as (_&_&_&_&_&_&_&_&_&_&F1&_), H2 as (_&_&_&_&_&_&_&_&_&_&_&B2).
  destruct (F1 L) as (S1 & N1), (B2 G) as (S2 & N2). rewrite N1, N2. auto.
Qed.

Lemma tri_intersect_some_iff (t : Tri R) (ray : Ray R) :
  (exists i, tri_intersect t ray = Some i) <-> (exists x, intersect_triangle ray (ta t) (tb t) (tc t) = Some x).
Proof.
  unfold tri_intersect, tri_intersect_local_ray.
  destruct (intersect_triangle ray (ta t) (tb t) (tc t)) as [[[p u] v]|].
  - destruct (get_side _ _). split; intros; eexists; reflexivity.
  - split; intros [x H]; discriminate.
Qed.
Lemma tri_intersect_complete (t : Tri R) (ray : Ray R) (tt u v : R) :
  ~ (- ctiny < tri_det ray (ta t) (tb t) (tc t) < ctiny) ->
  ray_project ray tt = tri_point (ta t) (tb t) (tc t) u v -> ctiny < tt -> 0 <= u -> 0 <= v -> u + v <= 1 ->
  exists i, tri_intersect t ray = Some i /\ ip i = ray_project ray tt.
Proof.
  intros. pose proof (intersect_triangle_complete ray _ _ _ tt u v H H0 H1 H2 H3 H4) as E.
  unfold tri_intersect, tri_intersect_local_ray. rewrite E. destruct (get_side _ _). eexists; split; reflexivity.
Qed.
Lemma tri_intersect_miss (t : Tri R) (ray : Ray R) (tt u v : R) :
  ray_project ray tt = tri_point (ta t) (tb t) (tc t) u v -> (u < 0 \/ v < 0 \/ 1 < u + v \/ tt <= ctiny) ->
  tri_intersect t ray = None.
Proof. intros. unfold tri_intersect, tri_intersect_local_ray. rewrite (intersect_triangle_miss ray _ _ _ tt u v) by assumption. reflexivity. Qed.

(** simple_intersect goes through Transform::new().inv_transform_ray: same direction, origin nudged forward *)
Lemma id_ray_spec (ray : Ray R) :
  let r' := fst (fst (tr_inv_ray tr_new ray)) in
  rdir r' = rdir ray /\ exists dt, 0 <= dt /\ rorigin r' = vadd (rorigin ray) (vscale (rdir ray) dt) /\
    forall s, ray_project r' s = ray_project ray (dt + s).
Proof.
  unfold tr_inv_ray, tr_new. cbn [inv_elements].
  pose proof (ray_by_spec m4_id ray affine_id) as H. destruct (ray_by m4_id ray) as [[r' oe] de]. cbn [fst].
  destruct H as (D & dt & P & O). rewrite vec_id in D. rewrite pt_id, vec_id in O.
  split; [exact D|]. exists dt. split; [exact P|]. split; [exact O|].
  intros s. unfold ray_project. rewrite O, D. apply vadd_assoc_scale.
Qed.
Lemma tri_simple_intersect_sound (t : Tri R) (ray : Ray R) (p : V) :
  tri_simple_intersect t ray = Some p ->
  (exists tt, ctiny < tt /\ p = ray_project ray tt) /\ in_triangle t p.
Proof.
  unfold tri_simple_intersect. pose proof (id_ray_spec ray) as H.
  destruct (tr_inv_ray tr_new ray) as [[r' oe] de]. cbn [fst] in H. destruct H as (D & dt & P & O & Pr).
  destruct (intersect_triangle r' (ta t) (tb t) (tc t)) as [[[q u] v]|] eqn:E; [|discriminate].
  intros Hq. injection Hq as <-. apply intersect_triangle_sound in E. destruct E as (tt & Ht & Hp & Hq & Hu & Hv & Huv).
  split; [|exists u, v; repeat split; assumption].
  exists (dt + tt). split; [lra|]. rewrite Hp. apply Pr.
Qed.

(** the normal cached by Triangle3D::new ((b-a) x (c-b), normalised) is the right-hand-rule normal used for the side *)
Lemma tri_new_normal (a b c : V) (t : Tri R) : tri_new a b c = Ok t ->
  ta t = a /\ tb t = b /\ tc t = c /\ tnormal t = vnormalize (tri_N t).
Proof.
  unfold tri_new. destruct (vcompare a b || vcompare a c || vcompare b c); [discriminate|].
  destruct (is_collinear a b c) as [col|e|s]; cbn [unwrap rbind]; try discriminate.
  destruct col; [discriminate|]. intros H. injection H as <-. cbn [ta tb tc tnormal]. repeat split.
  unfold tri_normal_of, tri_N. cbn [ta tb tc]. f_equal.
  destruct a as [ax ay az], b as [bx b_y bz], c as [cx cy cz]. vunf. apply v3_eq; cbn [vx vy vz]; ring.
Qed.
