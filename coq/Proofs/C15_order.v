(** * C15, order lemmas for any number instance: the box constructors and predicates only compare
    and copy coordinates, so their properties hold wherever [<?] and [<=?] form a total order on
    the coordinates involved - the reals, and the finite floats of every Flocq binary format
    (instantiated at the end).  NaN coordinates are outside ([ok]). *)
From Coq Require Import ZArith Reals Bool List Lra.
From Flocq Require Import Core BinarySingleNaN.
From G3 Require Import Model.Num Model.Base Model.Vec Model.BBox.
Local Open Scope num_scope.

Section Order.
  Context {K : Type} {NK : Num K}.
  Variable ok : K -> Prop.
  Hypothesis lt_nle : forall x y, ok x -> ok y -> (x <? y) = negb (y <=? x).
  Hypothesis le_total : forall x y, ok x -> ok y -> (x <=? y) = false -> (y <=? x) = true.
  Hypothesis le_refl : forall x, ok x -> (x <=? x) = true.
  Hypothesis le_trans : forall x y z, ok x -> ok y -> ok z -> (x <=? y) = true -> (y <=? z) = true -> (x <=? z) = true.

  Definition le (x y : K) : Prop := (x <=? y) = true.
  Definition okv (v : V3 K) : Prop := ok (vx v) /\ ok (vy v) /\ ok (vz v).
  Definition okb (b : BBox K) : Prop := okv (bmin b) /\ okv (bmax b).
  Definition vle (a b : V3 K) : Prop := le (vx a) (vx b) /\ le (vy a) (vy b) /\ le (vz a) (vz b).
  Definition inb (b : BBox K) (p : V3 K) : Prop := vle (bmin b) p /\ vle p (bmax b).
  Definition wfb (b : BBox K) : Prop := vle (bmin b) (bmax b).
  Definition contains (outer inner : BBox K) : Prop := vle (bmin outer) (bmin inner) /\ vle (bmax inner) (bmax outer).

  (** one coordinate pair of [get_mins_maxs] *)
  Definition sort2 (x1 x2 : K) : K * K := if x1 >? x2 then (x2, x1) else (x1, x2).
  Lemma sort2_spec (x1 x2 : K) : ok x1 -> ok x2 ->
    let lo := fst (sort2 x1 x2) in let hi := snd (sort2 x1 x2) in
    le lo hi /\ le lo x1 /\ le lo x2 /\ le x1 hi /\ le x2 hi /\ ok lo /\ ok hi /\
    ((lo = x1 /\ hi = x2) \/ (lo = x2 /\ hi = x1)).
  Proof.
    intros O1 O2. unfold sort2, le. rewrite (lt_nle x2 x1 O2 O1).
    destruct (x1 <=? x2) eqn:E; cbn [negb fst snd].
    - repeat split; auto.
    - pose proof (le_total _ _ O1 O2 E). repeat split; auto.
  Qed.
  Lemma mm_sort2 (a b : V3 K) :
    mm a b = (mkV3 (fst (sort2 (vx a) (vx b))) (fst (sort2 (vy a) (vy b))) (fst (sort2 (vz a) (vz b))),
              mkV3 (snd (sort2 (vx a) (vx b))) (snd (sort2 (vy a) (vy b))) (snd (sort2 (vz a) (vz b)))).
  Proof.
    unfold mm, get_mins_maxs, sort2.
    destruct (vx a >? vx b), (vy a >? vy b), (vz a >? vz b); reflexivity.
  Qed.
  Lemma new_mm (a b : V3 K) : bbox_new a b = mkBBox (fst (mm a b)) (snd (mm a b)).
  Proof. unfold bbox_new. destruct (mm a b). reflexivity. Qed.

  Lemma s_lo_l x y : ok x -> ok y -> le (fst (sort2 x y)) x. Proof. intros A C. apply (sort2_spec x y A C). Qed.
  Lemma s_lo_r x y : ok x -> ok y -> le (fst (sort2 x y)) y. Proof. intros A C. apply (sort2_spec x y A C). Qed.
  Lemma s_hi_l x y : ok x -> ok y -> le x (snd (sort2 x y)). Proof. intros A C. apply (sort2_spec x y A C). Qed.
  Lemma s_hi_r x y : ok x -> ok y -> le y (snd (sort2 x y)). Proof. intros A C. apply (sort2_spec x y A C). Qed.
  Lemma s_lo_hi x y : ok x -> ok y -> le (fst (sort2 x y)) (snd (sort2 x y)). Proof. intros A C. apply (sort2_spec x y A C). Qed.
  Lemma s_ok_lo x y : ok x -> ok y -> ok (fst (sort2 x y)). Proof. intros A C. apply (sort2_spec x y A C). Qed.
  Lemma s_ok_hi x y : ok x -> ok y -> ok (snd (sort2 x y)). Proof. intros A C. apply (sort2_spec x y A C). Qed.
  Lemma s_cases x y : ok x -> ok y -> (fst (sort2 x y) = x /\ snd (sort2 x y) = y) \/ (fst (sort2 x y) = y /\ snd (sort2 x y) = x).
  Proof. intros A C. apply (sort2_spec x y A C). Qed.

  Ltac open_ :=
    rewrite ?new_mm; unfold bbox_from_union, bbox_from_union_point, bbox_from_intersection, bbox_from_point,
      okb, okv, inb, wfb, contains, vle in *;
    rewrite ?mm_sort2 in *; cbn [fst snd bmin bmax vx vy vz] in *;
    repeat match goal with H : _ /\ _ |- _ => destruct H end.
  Ltac fin_ := repeat split; first [apply s_lo_l | apply s_lo_r | apply s_hi_l | apply s_hi_r | apply s_lo_hi | apply s_ok_lo | apply s_ok_hi]; assumption.

  (** [BBox3D::new] normalises the corners *)
  Lemma g_new_normalises (a b : V3 K) : okv a -> okv b ->
    wfb (bbox_new a b) /\ inb (bbox_new a b) a /\ inb (bbox_new a b) b /\ okb (bbox_new a b).
  Proof. intros Oa Ob. open_. fin_. Qed.

  Lemma g_union_contains_both (b1 b2 : BBox K) : okb b1 -> okb b2 ->
    contains (bbox_from_union b1 b2) b1 /\ contains (bbox_from_union b1 b2) b2 /\ okb (bbox_from_union b1 b2).
  Proof. intros O1 O2. open_. fin_. Qed.

  Lemma g_union_point_contains (b : BBox K) (p : V3 K) : okb b -> okv p ->
    contains (bbox_from_union_point b p) b /\ inb (bbox_from_union_point b p) p /\ okb (bbox_from_union_point b p).
  Proof. intros O1 O2. open_. fin_. Qed.

  Lemma g_intersection_contained (b1 b2 : BBox K) : okb b1 -> okb b2 ->
    contains b1 (bbox_from_intersection b1 b2) /\ contains b2 (bbox_from_intersection b1 b2) /\ okb (bbox_from_intersection b1 b2).
  Proof. intros O1 O2. open_. fin_. Qed.

  (** symmetry of [overlaps] holds for all inputs, NaN included *)
  Lemma g_overlaps_sym (a b : BBox K) : bbox_overlaps a b = bbox_overlaps b a.
  Proof.
    unfold bbox_overlaps.
    rewrite (andb_comm (vx (bmin b) <=? vx (bmax a))), (andb_comm (vy (bmin b) <=? vy (bmax a))),
            (andb_comm (vz (bmin b) <=? vz (bmax a))). reflexivity.
  Qed.

  Lemma g_point_inside_spec (b : BBox K) (p : V3 K) : bbox_point_inside b p = true <-> inb b p.
  Proof. unfold bbox_point_inside, inb, vle, le. rewrite !andb_true_iff. tauto. Qed.
  Lemma g_point_inside_exclusive_spec (b : BBox K) (p : V3 K) :
    bbox_point_inside_exclusive b p = true <->
    vle (bmin b) p /\ (vx p <? vx (bmax b)) = true /\ (vy p <? vy (bmax b)) = true /\ (vz p <? vz (bmax b)) = true.
  Proof. unfold bbox_point_inside_exclusive, vle, le. rewrite !andb_true_iff. tauto. Qed.

  (** [overlaps] <-> a common point exists (well-formed operands); the witness is the lower corner of the intersection box *)
  Lemma g_overlaps_iff_common_point (a b : BBox K) : okb a -> okb b -> wfb a -> wfb b ->
    (bbox_overlaps a b = true <-> exists p, okv p /\ inb a p /\ inb b p).
  Proof.
    intros Oa Ob Wa Wb. split.
    - intros H. exists (bmin (bbox_from_intersection a b)).
      unfold bbox_overlaps in H. rewrite !andb_true_iff in H.
      open_.
      assert (P : forall m1 m2 M1 M2, ok m1 -> ok m2 -> ok M1 -> ok M2 -> le m1 M1 -> le m2 M2 -> le m2 M1 -> le m1 M2 ->
                let s := snd (sort2 m1 m2) in ok s /\ le m1 s /\ le s M1 /\ le m2 s /\ le s M2).
      { intros m1 m2 M1 M2 o1 o2 o3 o4 l1 l2 l3 l4. cbv zeta.
        split; [apply s_ok_hi; assumption|]. split; [apply s_hi_l; assumption|].
        split; [destruct (s_cases m1 m2 o1 o2) as [[_ ->]|[_ ->]]; assumption|].
        split; [apply s_hi_r; assumption|]. destruct (s_cases m1 m2 o1 o2) as [[_ ->]|[_ ->]]; assumption. }
      unfold le in *.
      match goal with |- (ok ?sx /\ ok ?sy /\ ok ?sz) /\ _ => idtac end.
      pose proof (P (vx (bmin a)) (vx (bmin b)) (vx (bmax a)) (vx (bmax b))) as Px.
      pose proof (P (vy (bmin a)) (vy (bmin b)) (vy (bmax a)) (vy (bmax b))) as Py.
      pose proof (P (vz (bmin a)) (vz (bmin b)) (vz (bmax a)) (vz (bmax b))) as Pz.
      cbv zeta in Px, Py, Pz.
      destruct Px as (?&?&?&?&?); try assumption. destruct Py as (?&?&?&?&?); try assumption. destruct Pz as (?&?&?&?&?); try assumption.
      repeat split; assumption.
    - intros (p & Op & (A1 & A2) & (B1 & B2)). unfold bbox_overlaps. rewrite !andb_true_iff.
      unfold okb, okv, vle, le in *.
      repeat match goal with H : _ /\ _ |- _ => destruct H end.
      repeat split;
        [apply le_trans with (y := vx p) | apply le_trans with (y := vx p) | apply le_trans with (y := vy p)
        | apply le_trans with (y := vy p) | apply le_trans with (y := vz p) | apply le_trans with (y := vz p)]; assumption.
  Qed.
End Order.

(** ** instance 1: the reals (every real is [ok]) *)
From G3 Require Import Theory.RInst.
Definition okR (x : R) : Prop := True.
Lemma R_lt_nle (x y : R) : okR x -> okR y -> (x <? y) = negb (y <=? x).
Proof. intros _ _. rnum. destruct (Rltb x y) eqn:E, (Rleb y x) eqn:F; try reflexivity;
  [apply Rltb_true in E; apply Rleb_true in F | apply Rltb_false in E; apply Rleb_false in F]; lra. Qed.
Lemma R_le_total (x y : R) : okR x -> okR y -> (x <=? y) = false -> (y <=? x) = true.
Proof. intros _ _. rnum. intros E. apply Rleb_false in E. apply Rleb_true. lra. Qed.
Lemma R_le_refl (x : R) : okR x -> (x <=? x) = true.
Proof. intros _. rnum. apply Rleb_true. lra. Qed.
Lemma R_le_trans (x y z : R) : okR x -> okR y -> okR z -> (x <=? y) = true -> (y <=? z) = true -> (x <=? z) = true.
Proof. intros _ _ _. rnum. rewrite !Rleb_true. lra. Qed.

(** ** instance 2: finite floats of every Flocq binary format *)
Section FloatOrder.
  Variable prec emax : Z.
  Context (Hprec : FLX.Prec_gt_0 prec) (Hmax : Prec_lt_emax prec emax).
  Notation bf := (binary_float prec emax).
  Local Instance NB : Num bf := NumB prec emax Hprec Hmax.
  Definition okF (x : bf) : Prop := is_finite x = true.
  Lemma F_lt_nle (x y : bf) : okF x -> okF y -> (x <? y) = negb (y <=? x).
  Proof.
    intros Fx Fy. cbn [nltb nleb NB NumB]. rewrite Bltb_correct, Bleb_correct by assumption.
    destruct (Rlt_bool_spec (B2R x) (B2R y)), (Rle_bool_spec (B2R y) (B2R x)); try reflexivity; lra.
  Qed.
  Lemma F_le_total (x y : bf) : okF x -> okF y -> (x <=? y) = false -> (y <=? x) = true.
  Proof.
    intros Fx Fy. cbn [nleb NB NumB]. rewrite !Bleb_correct by assumption.
    destruct (Rle_bool_spec (B2R x) (B2R y)), (Rle_bool_spec (B2R y) (B2R x)); try reflexivity; try discriminate; lra.
  Qed.
  Lemma F_le_refl (x : bf) : okF x -> (x <=? x) = true.
  Proof. intros Fx. cbn [nleb NB NumB]. rewrite Bleb_correct by assumption. apply Rle_bool_true. lra. Qed.
  Lemma F_le_trans (x y z : bf) : okF x -> okF y -> okF z -> (x <=? y) = true -> (y <=? z) = true -> (x <=? z) = true.
  Proof.
    intros Fx Fy Fz. cbn [nleb NB NumB]. rewrite !Bleb_correct by assumption.
    destruct (Rle_bool_spec (B2R x) (B2R y)), (Rle_bool_spec (B2R y) (B2R z)); try discriminate.
    intros _ _. apply Rle_bool_true. lra.
  Qed.

  (** the order lemmas, for boxes with finite float coordinates of any format *)
  Definition F_new_normalises := @g_new_normalises bf NB okF F_lt_nle F_le_total F_le_refl.
  Definition F_union_contains_both := @g_union_contains_both bf NB okF F_lt_nle F_le_total F_le_refl.
  Definition F_union_point_contains := @g_union_point_contains bf NB okF F_lt_nle F_le_total F_le_refl.
  Definition F_intersection_contained := @g_intersection_contained bf NB okF F_lt_nle F_le_total F_le_refl.
  Definition F_overlaps_iff_common_point := @g_overlaps_iff_common_point bf NB okF F_lt_nle F_le_total F_le_refl F_le_trans.
End FloatOrder.
