(** * Mesh_links_region (C08): with the link geometry as an invariant ([GEO] = LNKG + DIST + SEP, Proofs/Mesh_links*.v) the
    geometric hypotheses of Proofs/Mesh_region.v hold by themselves: [flip_shared] on every edge, the rotation and neighbour
    parts of [split_edge_ok].  Hence area and coverage along restore_delaunay and along histories, WITHOUT any invariant
    hypothesis.  Real instance. *)
From Coq Require Import ZArith Bool List Arith Lia Permutation Reals Lra.
From G3 Require Import Model.Num Model.Base Model.Vec Model.Segment Model.Triangle Model.Loop Model.Polygon Model.Triangulation
  Theory.RInst Theory.Cyclic Theory.Winding
  Proofs.Mesh_base Proofs.Mesh_wf Proofs.Mesh_sites Proofs.Mesh_conf Proofs.Mesh_region Proofs.Mesh_atomic Proofs.Mesh_links Proofs.Mesh_links_steps.
From G3 Require Proofs.C05_pointtest.
Import ListNotations.

Section LinksRegion.
  Local Open Scope R_scope.
  Notation VR := (V3 R).

  Lemma rot3_of_edge {K} {NK : Num K} (T : Tri K) (e : Edge) (a b c : V3 K) : edge_pts T e = (a, b) -> opp_v T e = c -> rot3 (tri_pts T) (a, b, c).
  Proof. destruct e; cbn; intros H1 H2; inversion H1; subst; unfold tri_pts; auto. Qed.
  Lemma flip_verts_inv {K} {NK : Num K} (T Tn : Tri K) (e : Edge) (a b c o : V3 K) : flip_verts T Tn e = Ok (a, b, c, o) ->
    edge_pts T e = (a, b) /\ opp_v T e = c /\ get_opposite_vertex Tn (seg_new a b) = Ok o.
  Proof.
    unfold flip_verts. intros H.
    destruct (tri_vertex T (N.modulo (edge_as_i e) 3)) as [a'| |] eqn:Ea; cbn [rbind] in H; try discriminate.
    destruct (tri_vertex T (N.modulo (edge_as_i e + 1) 3)) as [b'| |] eqn:Eb; cbn [rbind] in H; try discriminate.
    destruct (tri_vertex T (N.modulo (edge_as_i e + 2) 3)) as [c'| |] eqn:Ec; cbn [rbind] in H; try discriminate.
    destruct (get_opposite_vertex Tn (seg_new a' b')) as [o'| |] eqn:Eo; cbn [rbind] in H; try discriminate.
    inversion H; subst. destruct (flip_abc T e a b c Ea Eb Ec). repeat split; assumption.
  Qed.

  (** [GEO] gives [flip_shared] on every edge *)
  Theorem GEO_flip_shared (M : Mesh R) (i : nat) (e : Edge) : GEO M -> flip_shared M i e.
  Proof.
    intros (HL & HD & HS) t ni nb a b c op Et Ev En Enb Evn FV.
    assert (Lt : lvM M i (tp_tri t)) by (apply slot_lvT; assumption). assert (Ln : lvM M ni (tp_tri nb)) by (apply slot_lvT; assumption).
    assert (Elk : lk M i e = Some ni) by (unfold lk; rewrite Et; exact En).
    destruct (good_inv M i _ e ni HL Lt Elk) as (Hne & U & k & LU & Ek & Gk). rewrite (lvM_fun _ _ _ _ LU Ln) in *. clear LU U.
    split; [exact Hne|]. destruct (flip_verts_inv _ _ _ _ _ _ _ FV) as (Pab & Pc & Eo).
    set (P := mesh_vert M). pose proof (mesh_vert_tri _ _ _ Lt) as IT. pose proof (mesh_vert_tri _ _ _ Ln) as IN.
    assert (Pa : P a /\ P b) by (pose proof (edge_pts_in P _ e IT) as Q; rewrite Pab in Q; exact Q). destruct Pa as [Pa Pb].
    assert (Po : op = opp_v (tp_tri nb) k).
    { apply (opposite_exact P (tp_tri nb) (seg_new a b) k op HS IN (HD _ _ Ln) Pa Pb); [|exact Eo]. right. cbn [pair_of seg_new sstart send]. rewrite Gk, Pab, rev2_invol. reflexivity. }
    apply (rot3_of_edge _ k); [rewrite Gk, Pab; reflexivity | symmetry; exact Po].
  Qed.

  (** ... and the structural half of the split_edge hypothesis: what remains is where the point lies on the edge of slot i *)
  Definition edge_hyp (Q : VR -> VR -> VR -> Prop) (M : Mesh R) (i : nat) (e : Edge) (p : VR) : Prop :=
    forall t, nth_error (tris M) i = Some t -> tp_valid t = true -> Q p (fst (edge_pts (tp_tri t) e)) (snd (edge_pts (tp_tri t) e)).
  Lemma hemi_verts_exact (P : VR -> Prop) (T : Tri R) (sg : Seg R) (es : Edge) (a b c : VR) :
    VSEP P -> tri_in P T -> tri_distinct T -> P (sstart sg) -> P (send sg) -> same_seg (pair_of sg) (edge_pts T es) ->
    hemi_verts T sg = Ok (a, b, c) -> edge_pts T es = (a, b) /\ opp_v T es = c.
  Proof.
    intros HP IT DT Ps1 Ps2 Hs H. unfold hemi_verts in H. rewrite (edge_index_complete P HP T sg es IT DT Ps1 Ps2 Hs) in H. cbn [rbind] in H.
    destruct (tri_segment_pts T es) as (ab & Eab & Pab). rewrite Eab in H. cbn [rbind] in H.
    destruct (get_opposite_vertex T ab) as [c'| |] eqn:Ec; cbn [rbind] in H; try discriminate. inversion H; subst.
    split; [symmetry; exact Pab|]. symmetry. destruct (edge_pts_in P T es IT) as [Q1 Q2]. rewrite <- Pab in Q1, Q2.
    apply (opposite_exact P T ab es c HP IT DT Q1 Q2); [left; exact Pab | exact Ec].
  Qed.
  Theorem GEO_split_edge_ok (Q : VR -> VR -> VR -> Prop) (M : Mesh R) (i : nat) (e : Edge) (p : VR) :
    (forall p a b, Q p a b -> Q p b a) -> GEO M -> edge_hyp Q M i e p -> split_edge_ok Q M i e p.
  Proof.
    intros Qsym (HL & HD & HS) Hq t sg Et Ev Esg. set (P := mesh_vert M).
    assert (Lt : lvM M i (tp_tri t)) by (apply slot_lvT; assumption). pose proof (mesh_vert_tri _ _ _ Lt) as IT. pose proof (HD _ _ Lt) as DT.
    destruct (tri_segment_pts (tp_tri t) e) as (sg' & Esg' & Psg). rewrite Esg in Esg'. inversion Esg'; subst sg'. clear Esg'.
    assert (Ps : P (sstart sg) /\ P (send sg)) by (pose proof (edge_pts_in P _ e IT) as R0; rewrite <- Psg in R0; exact R0). destruct Ps as [Ps1 Ps2].
    split.
    - intros a b c Hv. destruct (hemi_verts_exact P _ sg e a b c HS IT DT Ps1 Ps2 (or_introl Psg) Hv) as [Pab Pc].
      split; [eapply rot3_of_edge; eassumption|]. pose proof (Hq t Et Ev) as R0. rewrite Pab in R0. exact R0.
    - intros ni En. assert (Elk : lk M i e = Some ni) by (unfold lk; rewrite Et; exact En).
      destruct (good_inv M i _ e ni HL Lt Elk) as (Hne & Tn & k & Ln & Ek & Gk). split; [exact Hne|].
      destruct (lvT_slot _ _ _ Ln) as (nb & Enb & Evn & Qn). exists nb. split; [exact Enb|]. split; [exact Evn|]. rewrite Qn.
      pose proof (mesh_vert_tri _ _ _ Ln) as IN. pose proof (HD _ _ Ln) as DN.
      intros a b c Hv. assert (Hs : same_seg (pair_of sg) (edge_pts Tn k)) by (right; rewrite Psg, Gk, rev2_invol; reflexivity).
      destruct (hemi_verts_exact P Tn sg k a b c HS IN DN Ps1 Ps2 Hs Hv) as [Pab Pc].
      split; [eapply rot3_of_edge; eassumption|]. pose proof (Hq t Et Ev) as R0. rewrite Gk in Pab.
      destruct (edge_pts (tp_tri t) e) as [x y]. cbn [rev2 fst snd] in *. inversion Pab; subst. apply Qsym. exact R0.
  Qed.
  Lemma on_line_sym (p a b : VR) : on_line p a b -> on_line p b a.
  Proof.
    intros (s & ->). exists (1 - s). destruct a as [a1 a2 a3], b as [b1 b2 b3]. unfold vadd, vscale, vsub. cbn [vx vy vz]. rnum. f_equal; ring.
  Qed.
  Lemma between_sym (p a b : VR) : between p a b -> between p b a.
  Proof.
    intros (s & Hs & ->). exists (1 - s). split; [lra|]. destruct a as [a1 a2 a3], b as [b1 b2 b3]. unfold vadd, vscale, vsub. cbn [vx vy vz]. rnum. f_equal; ring.
  Qed.
  (** the point at which [refine] splits an edge (the midpoint of the longest edge) lies exactly on that edge, strictly inside *)
  Lemma refine_midpoint_between (T : Tri R) (s_i : N) (s : Seg R) (ed : Edge) :
    longest_edge T = Ok (s_i, s) -> edge_from_i s_i = Ok ed -> between (seg_midpoint s) (fst (edge_pts T ed)) (snd (edge_pts T ed)).
  Proof.
    unfold longest_edge. cbn [tri_segment rbind]. intros H He.
    assert (Hm : forall a b : VR, between (seg_midpoint (seg_new a b)) a b).
    { intros a b. exists (/ 2). split; [lra|]. destruct a as [a1 a2 a3], b as [b1 b2 b3].
      unfold seg_midpoint, seg_new, vadd, vscale, vsub. cbn [sstart send vx vy vz]. unfold nhalf. rnum. f_equal; field. }
    destruct (nltb (slength (tri_ab T)) (slength (tri_bc T))); destruct (nltb _ (slength (tri_ca T))); inversion H; subst; cbn in He; inversion He; subst; apply Hm.
  Qed.
End LinksRegion.

(** ** area, coverage (and the invariant itself) along the steps and along histories, with no invariant hypothesis *)
Section GeoRegion.
  Local Open Scope R_scope.
  Notation VR := (V3 R).
  Variables o e1 e2 : V3 R.
  Notation pr := (C05_pointtest.plane2 o e1 e2).
  Notation area2 := (mesh_area2 o e1 e2).
  Notation coverM := (mesh_cover o e1 e2).

  Theorem region_flip_geo (i : nat) (e : Edge) (M M' : Mesh R) :
    GEO M -> flip_diagonal i e M = (M', Ok tt) -> GEO M' /\ Same o e1 e2 M M'.
  Proof. intros HG H. split; [eapply flip_GEO; eassumption | exact (region_flip o e1 e2 _ _ _ _ (GEO_flip_shared M i e HG) H)]. Qed.
  Theorem region_restore_geo (m : R) (M M' : Mesh R) :
    GEO M -> restore_delaunay m M = (M', Ok tt) -> GEO M' /\ Same o e1 e2 M M'.
  Proof. apply (region_restore o e1 e2 GEO GEO_flip_shared (fun M i e M' => flip_GEO i e M M')). Qed.
  Lemma GEO_of (M : Mesh R) (p : VR) : LNKG M -> DIST M -> SEPp M p -> GEO M.
  Proof. intros A B C. split; [exact A | split; [exact B | eapply SEPp_SEP; exact C]]. Qed.
  Theorem region_split_triangle_geo (i : nat) (p : VR) (M M' : Mesh R) :
    GEO M -> SEPp M p -> split_triangle i p M = (M', Ok tt) -> GEO M' /\ Same o e1 e2 M M'.
  Proof. intros (A & B & _) HS H. split; [eapply split_triangle_GEO; eassumption | exact (region_split_triangle o e1 e2 _ _ _ _ H)]. Qed.
  Theorem region_split_edge_geo_area (i : nat) (e : Edge) (p : VR) (M M' : Mesh R) :
    GEO M -> SEPp M p -> edge_hyp on_line M i e p -> split_edge i e p M = (M', Ok tt) -> GEO M' /\ area2 M' = area2 M.
  Proof.
    intros HG HS Hq H. pose proof HG as (A & B & _). split; [eapply split_edge_GEO; eassumption|].
    eapply region_split_edge_area; [apply (GEO_split_edge_ok on_line M i e p on_line_sym HG Hq) | exact H].
  Qed.
  Theorem region_split_edge_geo_cover (i : nat) (e : Edge) (p : VR) (M M' : Mesh R) (d q : P2) :
    GEO M -> edge_hyp between M i e p -> hgt d q (pr p) <> 0 -> split_edge i e p M = (M', Ok tt) -> coverM d M' q = coverM d M q.
  Proof.
    intros HG Hq Hg H. eapply region_split_edge_cover; [apply (GEO_split_edge_ok between M i e p between_sym HG Hq) | exact Hg | exact H].
  Qed.
  Definition add_point_hyp (Q : VR -> VR -> VR -> Prop) (M : Mesh R) (p : VR) : Prop :=
    forall i loc, find_container (tris M) 0 p = Some (i, loc) ->
      match loc with EdgeAB => edge_hyp Q M i Ab p | EdgeBC => edge_hyp Q M i Bc p | EdgeAC => edge_hyp Q M i Ca p | _ => True end.
  Lemma add_point_ok_geo (Q : VR -> VR -> VR -> Prop) (M : Mesh R) (p : VR) :
    (forall p a b, Q p a b -> Q p b a) -> GEO M -> add_point_hyp Q M p -> add_point_ok Q M p.
  Proof. intros Qs HG H i loc E. specialize (H i loc E). destruct loc; try exact I; apply GEO_split_edge_ok; assumption. Qed.

  (** *** histories *)
  Definition step_hyp (Q : VR -> VR -> VR -> Prop) (Gn : VR -> Prop) (M : Mesh R) (op : mop R) : Prop :=
    match op with
    | OSplitTriangle _ p => SEPp M p
    | OFlip _ _ => True
    | OSplitEdge i e p => SEPp M p /\ (forall ed, edge_from_i e = Ok ed -> edge_hyp Q M i ed p) /\ Gn p
    | ORestore _ => True
    | OAddPoint p => SEPp M p /\ add_point_hyp Q M p /\ Gn p
    | ORefine _ _ _ => False
    end.
  Fixpoint run_hyp (Q : VR -> VR -> VR -> Prop) (Gn : VR -> Prop) (M : Mesh R) (ops : list (mop R)) : Prop :=
    match ops with
    | [] => True
    | op :: tl => step_hyp Q Gn M op /\ (exists x, snd (mesh_step op M) = Ok x) /\ run_hyp Q Gn (fst (mesh_step op M)) tl
    end.
  Lemma step_GEO (Q : VR -> VR -> VR -> Prop) (Gn : VR -> Prop) (op : mop R) (M M' : Mesh R) (x : option bool) :
    GEO M -> step_hyp Q Gn M op -> mesh_step op M = (M', Ok x) -> GEO M'.
  Proof.
    intros HG Hs H. pose proof HG as (A & B & _). apply step_inv in H. destruct op; cbn [step_hyp] in Hs.
    - destruct H as (ed & _ & H). destruct Hs as (S1 & _). eapply split_edge_GEO; eassumption.
    - eapply split_triangle_GEO; eassumption.
    - destruct H as (ed & _ & H). eapply flip_GEO; eassumption.
    - eapply restore_GEO; eassumption.
    - destruct H as (b & H). destruct Hs as (S1 & _). eapply add_point_GEO; eassumption.
    - contradiction.
  Qed.
  Lemma history_geo {X} (phi : Mesh R -> X) Q Gn :
    (forall M op M' x, GEO M -> step_hyp Q Gn M op -> mesh_step op M = (M', Ok x) -> phi M' = phi M) ->
    forall ops M, GEO M -> run_hyp Q Gn M ops -> GEO (fst (mesh_run M ops)) /\ phi (fst (mesh_run M ops)) = phi M.
  Proof.
    intros Hstep. induction ops as [|op ops IH]; intros M HG H; cbn [mesh_run]; [split; [exact HG | reflexivity]|].
    cbn [run_hyp] in H. destruct H as (Hs & (x & Hx) & Hr). destruct (mesh_step op M) as [M1 r] eqn:E1. cbn [fst snd] in *. subst r.
    pose proof (step_GEO Q Gn op M M1 x HG Hs E1) as HG1. destruct (IH M1 HG1 Hr) as [A B]. destruct (mesh_run M1 ops) as [M2 os]. cbn [fst] in *.
    split; [exact A|]. rewrite B. eapply Hstep; eassumption.
  Qed.
  Theorem region_history_geo_area (ops : list (mop R)) (M : Mesh R) :
    GEO M -> run_hyp on_line (fun _ => True) M ops -> GEO (fst (mesh_run M ops)) /\ area2 (fst (mesh_run M ops)) = area2 M.
  Proof.
    apply (history_geo area2). clear M ops. intros M op M' x HG Hs H. apply step_inv in H. destruct op; cbn [step_hyp] in Hs.
    - destruct H as (ed & Eed & H). destruct Hs as (S1 & S2 & _). exact (proj2 (region_split_edge_geo_area _ _ _ _ _ HG S1 (S2 ed Eed) H)).
    - apply (region_split_triangle o e1 e2 _ _ _ _ H).
    - destruct H as (ed & Eed & H). exact (proj1 (proj2 (region_flip_geo _ _ _ _ HG H))).
    - exact (proj1 (proj2 (region_restore_geo _ _ _ HG H))).
    - destruct H as (b & H). destruct Hs as (S1 & S2 & _). eapply region_add_point_area; [apply add_point_ok_geo; [exact on_line_sym | exact HG | exact S2] | exact H].
    - contradiction.
  Qed.
  Theorem region_history_geo_cover (d q : P2) (ops : list (mop R)) (M : Mesh R) :
    GEO M -> run_hyp between (fun p => hgt d q (pr p) <> 0) M ops -> coverM d (fst (mesh_run M ops)) q = coverM d M q.
  Proof.
    intros HG H. apply (history_geo (fun M => coverM d M q) between (fun p => hgt d q (pr p) <> 0)); try assumption.
    clear M ops HG H. intros M op M' x HG Hs H. apply step_inv in H. destruct op; cbn [step_hyp] in Hs.
    - destruct H as (ed & Eed & H). destruct Hs as (S1 & S2 & S3). exact (region_split_edge_geo_cover _ _ _ _ _ d q HG (S2 ed Eed) S3 H).
    - apply (region_split_triangle o e1 e2 _ _ _ _ H).
    - destruct H as (ed & Eed & H). exact (proj2 (proj2 (region_flip_geo _ _ _ _ HG H)) d q).
    - exact (proj2 (proj2 (region_restore_geo _ _ _ HG H)) d q).
    - destruct H as (b & H). destruct Hs as (S1 & S2 & S3). eapply region_add_point_cover; [apply add_point_ok_geo; [exact between_sym | exact HG | exact S2] | exact S3 | exact H].
    - contradiction.
  Qed.
End GeoRegion.

(** ** orientation along restore_delaunay and histories: the frame is orthonormal and the mesh lies in its plane *)
Section GeoOrientation.
  Local Open Scope R_scope.
  Notation VR := (V3 R).
  Variables o e1 e2 : V3 R.
  Notation pr := (C05_pointtest.plane2 o e1 e2).
  Hypothesis E11 : vdot e1 e1 = 1.
  Hypothesis E22 : vdot e2 e2 = 1.
  Hypothesis E12 : vdot e1 e2 = 0.
  Definition InPlane (M : Mesh R) : Prop := forall x, mesh_vert M x -> in_plane o e1 e2 x.

  (** the flips that restore_delaunay proposes passed the model's convexity test *)
  Lemma gfar_convex (M : Mesh R) (i : nat) (e : Edge) (ar : R) : get_flipped_aspect_ratio M i e = Ok (Some ar) ->
    exists t ni nb a b c op, nth_error (tris M) i = Some t /\ tp_neighbour t e = Some ni /\ nth_error (tris M) ni = Some nb /\
      flip_verts (tp_tri t) (tp_tri nb) e = Ok (a, b, c, op) /\ is_convex a op b c = true.
  Proof.
    unfold get_flipped_aspect_ratio. destruct (nth_error (tris M) i) as [t|] eqn:Et; [|discriminate].
    destruct (negb (tp_valid t)); [discriminate|]. destruct (tp_is_constrained t e); [discriminate|].
    destruct (tp_neighbour t e) as [ni|] eqn:En; [|discriminate]. destruct (nth_error (tris M) ni) as [nb|] eqn:Enb; [|discriminate].
    destruct (negb (tp_valid nb)); [discriminate|]. destruct (Nat.eqb _ _); [discriminate|].
    destruct (tri_vertex (tp_tri t) (N.modulo (edge_as_i e) 3)) as [a| |] eqn:Ea; cbn [rbind]; try discriminate.
    destruct (tri_vertex (tp_tri t) (N.modulo (edge_as_i e + 1) 3)) as [b| |] eqn:Eb; cbn [rbind]; try discriminate.
    destruct (tri_vertex (tp_tri t) (N.modulo (edge_as_i e + 2) 3)) as [c| |] eqn:Ec; cbn [rbind]; try discriminate.
    destruct (get_opposite_vertex (tp_tri nb) (seg_new a b)) as [op| |] eqn:Eo; cbn [rbind]; try discriminate.
    destruct (is_convex a op b c) eqn:Ecv; cbn [negb]; [|discriminate]. intros _.
    exists t, ni, nb, a, b, c, op. split; [reflexivity|]. split; [exact En|]. split; [exact Enb|]. split; [|exact Ecv].
    unfold flip_verts. rewrite Ea; cbn [rbind]. rewrite Eb; cbn [rbind]. rewrite Ec; cbn [rbind]. rewrite Eo. reflexivity.
  Qed.
  Lemma rd_best_some (M : Mesh R) (i : nat) (ar : R) : forall js best oe v, rd_best M i ar js best = Ok (oe, v) ->
    oe = fst best \/ exists e ar', oe = Some e /\ get_flipped_aspect_ratio M i e = Ok (Some ar').
  Proof.
    induction js as [|j js IH]; intros best oe v H; cbn [rd_best] in H; [inversion H; left; reflexivity|].
    destruct (edge_from_i j) as [ed| |]; cbn [rbind] in H; try discriminate.
    destruct (get_flipped_aspect_ratio M i ed) as [r| |] eqn:Eg; cbn [rbind] in H; try discriminate.
    destruct r as [ar'|]; [|apply IH in H; exact H].
    destruct (nltb ar' ar && nltb ar' (snd best)); apply IH in H; [|exact H].
    destruct H as [H | H]; [|right; exact H]. right. exists ed, ar'. split; [exact H | exact Eg].
  Qed.
  Lemma opposite_is_vertex {K} {NK : Num K} (T : Tri K) (s : Seg K) (x : V3 K) : get_opposite_vertex T s = Ok x -> x = ta T \/ x = tb T \/ x = tc T.
  Proof. unfold get_opposite_vertex. destruct (tri_get_edge_index_from_segment T s) as [[|[[]|[]|]]|]; cbn; intros H; inversion H; auto. Qed.
  Lemma tri2_pos (M : Mesh R) (j : nat) (T : Tri R) : AllPos o e1 e2 M -> lvM M j T -> pos3 (t2 o e1 e2 T).
  Proof.
    intros HA L. destruct (lvT_slot _ _ _ L) as (t & Et & Ev & <-). unfold AllPos in HA. rewrite Forall_forall in HA. apply HA.
    unfold tris2. apply in_map. eapply in_live; eassumption.
  Qed.
  Lemma gfar_flip_convex (M : Mesh R) (i : nat) (e : Edge) (ar : R) :
    InPlane M -> AllPos o e1 e2 M -> get_flipped_aspect_ratio M i e = Ok (Some ar) -> flip_convex o e1 e2 M i e.
  Proof.
    intros HI HA Hg t ni nb a b c op Et En Enb FV.
    destruct (gfar_convex M i e ar Hg) as (t' & ni' & nb' & a' & b' & c' & op' & Et' & En' & Enb' & FV' & Hcv).
    rewrite Et in Et'. inversion Et'; subst t'. rewrite En in En'. inversion En'; subst ni'. rewrite Enb in Enb'. inversion Enb'; subst nb'.
    rewrite FV in FV'. inversion FV'; subst a' b' c' op'. clear Et' En' Enb' FV'.
    assert (Vt : tp_valid t = true /\ tp_valid nb = true).
    { unfold get_flipped_aspect_ratio in Hg. rewrite Et in Hg. destruct (tp_valid t); [|discriminate]. cbn [negb] in Hg. destruct (tp_is_constrained t e); [discriminate|].
      rewrite En, Enb in Hg. destruct (tp_valid nb); [split; reflexivity | discriminate]. }
    destruct Vt as [Ev Evn]. destruct (flip_verts_inv _ _ _ _ _ _ _ FV) as (Pab & Pc & Eo).
    assert (Lt : lvM M i (tp_tri t)) by (apply slot_lvT; assumption). assert (Ln : lvM M ni (tp_tri nb)) by (apply slot_lvT; assumption).
    assert (Ia : in_plane o e1 e2 a /\ in_plane o e1 e2 b /\ in_plane o e1 e2 c).
    { pose proof (edge_pts_in (mesh_vert M) _ e (mesh_vert_tri _ _ _ Lt)) as Q0. rewrite Pab in Q0. destruct Q0 as [Q1 Q2].
      split; [apply HI; exact Q1|]. split; [apply HI; exact Q2|]. apply HI. rewrite <- Pc. apply opp_v_in. eapply mesh_vert_tri; exact Lt. }
    destruct Ia as (Ia & Ib & Ic).
    assert (Io : in_plane o e1 e2 op) by (apply HI; exists ni, (tp_tri nb); split; [exact Ln | apply (opposite_is_vertex _ _ _ Eo)]).
    apply (is_convex_flip_convex o e1 e2 E11 E22 E12 a op b c Ia Io Ib Ic Hcv).
    pose proof (tri2_pos M i _ HA Lt) as Hp. apply (pos3_rot3 _ _ (rot3_t2 o e1 e2 _ _ _ _ (rot3_of_edge _ e a b c Pab Pc))) in Hp. exact Hp.
  Qed.

  Definition POS (M : Mesh R) : Prop := GEO M /\ InPlane M /\ AllPos o e1 e2 M.
  Lemma flip_InPlane (i : nat) (e : Edge) (M M' : Mesh R) : GEO M -> InPlane M -> flip_diagonal i e M = (M', Ok tt) -> InPlane M'.
  Proof. intros (HL & HD & HS) HI H x Hx. apply HI. exact (proj2 (proj2 (flip_LNKG i e M M' HL HS HD H)) x Hx). Qed.
  Lemma rd_pass_POS (m : R) : forall cnt i l any M M' b, POS M -> rd_pass m cnt i l any M = (M', Ok b) -> POS M'.
  Proof.
    induction cnt as [|cnt IH]; intros i l any M M' b HP H; cbn [rd_pass] in H.
    - inversion H; subst. exact HP.
    - destruct l as [|t l']; [discriminate|].
      destruct (negb (tp_valid t)); [eapply IH; eassumption|].
      destruct (nltb (tp_ar t) m); [eapply IH; eassumption|].
      apply mbind_ok in H. destruct H as (bst & M1 & H1 & H). assert (Hb := f_equal snd H1). assert (HM := f_equal fst H1). cbn [fst snd] in Hb, HM. subst M1. clear H1.
      destruct bst as [oe v]. cbn [fst] in H. destruct oe as [best|]; [|eapply IH; eassumption].
      apply mbind_ok in H. destruct H as ([] & M1 & H1 & H). destruct HP as (HG & HI & HA).
      destruct (rd_best_some M i _ _ _ _ _ Hb) as [Q | (ed & ar' & Q & Hg)]; [discriminate Q|]. inversion Q; subst ed.
      eapply IH; [|exact H]. split; [eapply flip_GEO; eassumption|]. split; [eapply flip_InPlane; eassumption|].
      eapply pos_mesh_flip; [apply GEO_flip_shared; exact HG | eapply gfar_flip_convex; eassumption | exact H1 | exact HA].
  Qed.
  Lemma rd_loops_POS (m : R) (n : nat) : forall loops M M', POS M -> rd_loops m n loops M = (M', Ok tt) -> POS M'.
  Proof.
    induction loops as [|k IH]; intros M M' HP H; cbn [rd_loops] in H.
    - inversion H; subst. exact HP.
    - apply mbind_ok in H. destruct H as (any & M1 & H1 & H). pose proof (rd_pass_POS _ _ _ _ _ _ _ _ HP H1) as HP1.
      destruct any; [eapply IH; eassumption | inversion H; subst; exact HP1].
  Qed.
  (** restore_delaunay keeps a positively oriented planar mesh positively oriented *)
  Theorem restore_POS (m : R) (M M' : Mesh R) : POS M -> restore_delaunay m M = (M', Ok tt) -> POS M'.
  Proof. intros HP H. unfold restore_delaunay in H. eapply rd_loops_POS; eassumption. Qed.

  (** *** histories *)
  Definition inside_hyp (M : Mesh R) (i : nat) (p : VR) : Prop :=
    forall t, nth_error (tris M) i = Some t ->
      inside_tri (pr (ta (tp_tri t))) (pr (tb (tp_tri t))) (pr (tc (tp_tri t))) (pr p).
  Definition step_hyp_pos (M : Mesh R) (op : mop R) : Prop :=
    match op with
    | OSplitTriangle i p => SEPp M p /\ in_plane o e1 e2 p /\ inside_hyp M i p
    | OFlip i e => forall ed, edge_from_i e = Ok ed -> flip_convex o e1 e2 M i ed
    | OSplitEdge i e p => SEPp M p /\ in_plane o e1 e2 p /\ (forall ed, edge_from_i e = Ok ed -> edge_hyp between M i ed p)
    | ORestore _ => True
    | OAddPoint p => SEPp M p /\ in_plane o e1 e2 p /\ add_point_hyp between M p /\
                     (forall i, find_container (tris M) 0 p = Some (i, Inside) -> inside_hyp M i p)
    | ORefine _ _ _ => False
    end.
  Fixpoint run_pos (M : Mesh R) (ops : list (mop R)) : Prop :=
    match ops with
    | [] => True
    | op :: tl => step_hyp_pos M op /\ (exists x, snd (mesh_step op M) = Ok x) /\ run_pos (fst (mesh_step op M)) tl
    end.
  Lemma InPlane_or (M M' : Mesh R) (p : VR) : InPlane M -> in_plane o e1 e2 p -> (forall x, mesh_vert M' x -> vert_or M p x) -> InPlane M'.
  Proof. intros HI Hp H x Hx. destruct (H x Hx) as [Q | ->]; [apply HI; exact Q | exact Hp]. Qed.
  Lemma split_triangle_POS (i : nat) (p : VR) (M M' : Mesh R) :
    POS M -> SEPp M p -> in_plane o e1 e2 p -> inside_hyp M i p -> split_triangle i p M = (M', Ok tt) -> POS M'.
  Proof.
    intros ((HL & HD & HS) & HI & HA) S1 S2 S3 H. destruct (split_triangle_LNKG i p M M' HL HD S1 H) as (A & B & C).
    split; [split; [exact A | split; [exact B | exact (VSEP_sub _ _ C S1)]]|]. split; [eapply InPlane_or; eassumption|].
    eapply pos_mesh_split_triangle; eassumption.
  Qed.
  Lemma split_edge_POS (i : nat) (e : Edge) (p : VR) (M M' : Mesh R) :
    POS M -> SEPp M p -> in_plane o e1 e2 p -> edge_hyp between M i e p -> split_edge i e p M = (M', Ok tt) -> POS M'.
  Proof.
    intros (HG & HI & HA) S1 S2 S3 H. pose proof HG as (HL & HD & HS). destruct (split_edge_LNKG i e p M M' HL HD S1 H) as (A & B & C).
    split; [split; [exact A | split; [exact B | exact (VSEP_sub _ _ C S1)]]|]. split; [eapply InPlane_or; eassumption|].
    eapply pos_mesh_split_edge; [apply (GEO_split_edge_ok between M i e p between_sym HG S3) | exact H | exact HA].
  Qed.
  Lemma aptt_cases' (i : nat) (p : VR) (loc : PIT) (M M' : Mesh R) (b : bool) :
    add_point_to_triangle i p loc M = (M', Ok b) ->
    M' = M \/ (loc = Inside /\ split_triangle i p M = (M', Ok tt)) \/
    (exists ed, match loc with EdgeAB => ed = Ab | EdgeBC => ed = Bc | EdgeAC => ed = Ca | _ => False end /\ split_edge i ed p M = (M', Ok tt)).
  Proof.
    intros H. unfold add_point_to_triangle in H. apply bind_get_ok in H. destruct H as (t & _ & H).
    destruct (negb (tp_valid t)); [discriminate|].
    destruct loc; cbn [pit_is_vertex pit_is_edge] in H; try (inversion H; subst; left; reflexivity); try discriminate.
    - apply bind_lift_ok in H. destruct H as (ed & Eed & H). apply mbind_ok in H. destruct H as ([] & M1 & H1 & H). inversion H; subst.
      right; right. exists ed. split; [inversion Eed; reflexivity | exact H1].
    - apply bind_lift_ok in H. destruct H as (ed & Eed & H). apply mbind_ok in H. destruct H as ([] & M1 & H1 & H). inversion H; subst.
      right; right. exists ed. split; [inversion Eed; reflexivity | exact H1].
    - apply bind_lift_ok in H. destruct H as (ed & Eed & H). apply mbind_ok in H. destruct H as ([] & M1 & H1 & H). inversion H; subst.
      right; right. exists ed. split; [inversion Eed; reflexivity | exact H1].
    - apply mbind_ok in H. destruct H as ([] & M1 & H1 & H). inversion H; subst. right; left. split; [reflexivity | exact H1].
  Qed.
  Lemma step_POS (op : mop R) (M M' : Mesh R) (x : option bool) : POS M -> step_hyp_pos M op -> mesh_step op M = (M', Ok x) -> POS M'.
  Proof.
    intros HP Hs H. apply step_inv in H. destruct op; cbn [step_hyp_pos] in Hs.
    - destruct H as (ed & Eed & H). destruct Hs as (S1 & S2 & S3). eapply split_edge_POS; try eassumption. apply S3. exact Eed.
    - destruct Hs as (S1 & S2 & S3). eapply split_triangle_POS; eassumption.
    - destruct H as (ed & Eed & H). destruct HP as (HG & HI & HA). split; [eapply flip_GEO; eassumption|]. split; [eapply flip_InPlane; eassumption|].
      eapply pos_mesh_flip; [apply GEO_flip_shared; exact HG | apply Hs; exact Eed | exact H | exact HA].
    - eapply restore_POS; eassumption.
    - destruct H as (b & H). destruct Hs as (S1 & S2 & S3 & S4). unfold add_point in H.
      destruct (find_container (tris M) 0 p) as [[i loc]|] eqn:Ef; [|discriminate]. specialize (S3 i loc Ef).
      apply aptt_cases' in H. destruct H as [-> | [(-> & H) | (ed & Hed & H)]]; [exact HP | |].
      + eapply split_triangle_POS; try eassumption. apply S4. reflexivity.
      + destruct loc; try contradiction; subst ed; eapply split_edge_POS; eassumption.
    - contradiction.
  Qed.
  Theorem history_POS (ops : list (mop R)) : forall M, POS M -> run_pos M ops -> POS (fst (mesh_run M ops)).
  Proof.
    induction ops as [|op ops IH]; intros M HP H; cbn [mesh_run]; [exact HP|].
    cbn [run_pos] in H. destruct H as (Hs & (x & Hx) & Hr). destruct (mesh_step op M) as [M1 r] eqn:E1. cbn [fst snd] in *. subst r.
    pose proof (step_POS op M M1 x HP Hs E1) as HP1. specialize (IH M1 HP1 Hr). destruct (mesh_run M1 ops) as [M2 os]. exact IH.
  Qed.
End GeoOrientation.
