(** * Mesh_region (C08, geometric clauses): what the refinement steps do to the MULTISET of live triangles, and why
    the region they tile (coverage function, total signed area, orientation) does not change.

    Part 2 (every number instance): [live_tris M] = the triangles of the valid slots.  [mark_as_neighbours] and the
    constrain / set_neighbour mutators keep it; [invalidate] of a live slot removes exactly that triangle; [push]
    returning Ok adds exactly the triangle [Triangle3D::new] built (slot reused or appended).  Hence, for the steps
    that return [Ok tt] (statements up to [Permutation], vertices not cached fields):
    - split_triangle i p : t = (a,b,c)           ~>  (c,a,p) (a,b,p) (b,c,p)
    - split_edge i e p   : each hemisphere (a,b,c) (the triangle, and its neighbour across e)  ~>  (a,p,c) (p,b,c)
    - flip_diagonal i e  : (a,b,c), neighbour nb  ~>  (a,opp,c) (c,opp,b)
    Part 3 (real instance): in 2-D coordinates [pr] of any affine frame, the coverage function
    [cover d Ts q = Σ_T wn d [a;b;c] q] (= Σ ±[q strictly inside T] by Winding.wn_triangle) and the doubled signed area
    [area2sum Ts = Σ_T orient a b c] are kept by these replacements -- pure algebra of antisymmetric edge functionals. *)
From Coq Require Import ZArith Bool List Arith Lia Permutation.
From G3 Require Import Model.Num Model.Base Model.Vec Model.Segment Model.Triangle Model.Loop Model.Polygon Model.Triangulation
  Proofs.Mesh_base Proofs.Mesh_wf Proofs.Mesh_sites Proofs.Mesh_conf.
Import ListNotations.

Section LiveTris.
  Context {K : Type} {NK : Num K}.
  Notation V := (V3 K).
  Notation TP := (TriPiece K).
  Notation Mesh := (Mesh K).

  (** ** the live triangles *)
  Definition live_l (l : list TP) : list (Tri K) := map tp_tri (filter tp_valid l).
  Definition live_tris (M : Mesh) : list (Tri K) := live_l (tris M).
  Definition tri_pts (T : Tri K) : V * V * V := (ta T, tb T, tc T).
  Definition live_pts (M : Mesh) : list (V * V * V) := map tri_pts (live_tris M).

  Lemma tri_new_pts (a b c : V) (T : Tri K) : tri_new a b c = Ok T -> tri_pts T = (a, b, c).
  Proof.
    unfold tri_new. destruct (vcompare a b || vcompare a c || vcompare b c); [discriminate|].
    destruct (unwrap 10 (is_collinear a b c)) as [col| |]; cbn [rbind]; try discriminate.
    destruct col; [discriminate|]. intros H; inversion H; reflexivity.
  Qed.
  Lemma tp_new_tri (a b c : V) (n : nat) (t : TP) : tp_new a b c n = Ok t -> tri_new a b c = Ok (tp_tri t).
  Proof. unfold tp_new. destruct (tri_new a b c) as [T| |]; cbn [rbind]; try discriminate. intros H; inversion H; reflexivity. Qed.

  (** ** the skeleton (triangle, validity) of every slot: what the link / constraint mutators never touch *)
  Definition skel (l : list TP) : list (Tri K * bool) := map (fun t => (tp_tri t, tp_valid t)) l.
  Lemma live_l_skel : forall l l' : list TP, skel l = skel l' -> live_l l = live_l l'.
  Proof.
    induction l as [|t l IH]; intros [|t' l'] H; cbn [skel map] in H; try discriminate; [reflexivity|].
    inversion H as [[H1 H2 H3]]. unfold live_l. cbn [filter]. rewrite H2. destruct (tp_valid t'); cbn [map]; [rewrite H1; f_equal|]; apply IH; exact H3.
  Qed.
  Lemma skel_upd_same (i : nat) (f : TP -> TP) (l : list TP) :
    (forall t, tp_tri (f t) = tp_tri t) -> (forall t, tp_valid (f t) = tp_valid t) -> skel (upd i f l) = skel l.
  Proof.
    intros H1 H2. revert i; induction l as [|t l IH]; intros [|i]; cbn [upd skel map]; try reflexivity.
    - rewrite H1, H2. reflexivity.
    - f_equal. apply IH.
  Qed.
  Lemma skel_nth (l : list TP) (j : nat) : nth_error (skel l) j = option_map (fun t => (tp_tri t, tp_valid t)) (nth_error l j).
  Proof. apply nth_error_map. Qed.

  Definition Rskel (M M' : Mesh) : Prop := skel (tris M') = skel (tris M).
  Lemma Rskel_refl M : Rskel M M. Proof. reflexivity. Qed.
  Lemma Rskel_trans M1 M2 M3 : Rskel M1 M2 -> Rskel M2 M3 -> Rskel M1 M3.
  Proof. unfold Rskel. intros H1 H2. rewrite H2. exact H1. Qed.
  Lemma Rskel_live M M' : Rskel M M' -> live_tris M' = live_tris M.
  Proof. intros H. apply live_l_skel. exact H. Qed.

  Lemma set_neighbour_tri e i (t : TP) : tp_tri (tp_set_neighbour e i t) = tp_tri t. Proof. destruct e; reflexivity. Qed.
  Lemma constrain_tri e (t : TP) : tp_tri (tp_constrain e t) = tp_tri t. Proof. destruct e; reflexivity. Qed.
  Lemma sk_mupd s i (f : TP -> TP) : (forall t, tp_tri (f t) = tp_tri t) -> (forall t, tp_valid (f t) = tp_valid t) -> Pres Rskel (mupd s i f).
  Proof.
    intros H1 H2 M M' r H. unfold mupd in H. destruct (Nat.ltb _ _); inversion H; subst; [|apply Rskel_refl].
    unfold Rskel; cbn [tris]. apply skel_upd_same; assumption.
  Qed.
  Ltac sk_step :=
    match goal with
    | |- Pres Rskel (mbind _ _) => apply (pres_bind Rskel Rskel_trans); [|intros ?]
    | |- Pres Rskel (mret _) => apply (pres_ret Rskel Rskel_refl)
    | |- Pres Rskel (mlift _) => apply (pres_lift Rskel Rskel_refl)
    | |- Pres Rskel (mget _ _) => apply (pres_get Rskel Rskel_refl)
    | |- Pres Rskel (mwhen _ _) => apply (pres_when Rskel Rskel_refl)
    | |- Pres Rskel (mupd _ _ (tp_set_neighbour _ _)) => apply sk_mupd; intros ?; [apply set_neighbour_tri | apply set_neighbour_valid]
    | |- Pres Rskel (mupd _ _ (tp_constrain _)) => apply sk_mupd; intros ?; [apply constrain_tri | apply constrain_valid]
    | |- Pres Rskel (if ?b then _ else _) => destruct b
    | |- Pres Rskel (match ?x with _ => _ end) => destruct x
    | |- Pres Rskel (let '(_, _) := ?x in _) => destruct x
    end.
  (** [mark_as_neighbours], [constrain], [set_neighbour] keep every slot's triangle and validity, whatever the outcome *)
  Lemma sk_mark i1 e1 i2 : Pres Rskel (mark_as_neighbours (K:=K) i1 e1 i2).
  Proof. unfold mark_as_neighbours. repeat sk_step. Qed.
  Theorem live_mark (i1 : nat) (e1 : Edge) (i2 : nat) (M M' : Mesh) (r : res unit) :
    mark_as_neighbours i1 e1 i2 M = (M', r) -> live_tris M' = live_tris M.
  Proof. intros H. apply Rskel_live. exact (sk_mark _ _ _ _ _ _ H). Qed.
  Theorem live_constrain (s : N) (i : nat) (e : Edge) (M M' : Mesh) (r : res unit) :
    mupd s i (tp_constrain e) M = (M', r) -> live_tris M' = live_tris M.
  Proof. intros H. apply Rskel_live. revert H. apply sk_mupd; intros ?; [apply constrain_tri | apply constrain_valid]. Qed.
  Theorem live_set_neighbour (s : N) (i : nat) (e : Edge) (j : nat) (M M' : Mesh) (r : res unit) :
    mupd s i (tp_set_neighbour e j) M = (M', r) -> live_tris M' = live_tris M.
  Proof. intros H. apply Rskel_live. revert H. apply sk_mupd; intros ?; [apply set_neighbour_tri | apply set_neighbour_valid]. Qed.

  (** ** invalidate / push on the list of live triangles *)
  Lemma live_l_in (j : nat) (u : TP) : forall l : list TP, nth_error l j = Some u -> tp_valid u = true ->
    exists l1 l2, live_l l = l1 ++ tp_tri u :: l2.
  Proof.
    induction j as [|j IH]; intros [|t l] H Hv; cbn [nth_error] in H; try discriminate.
    - inversion H; subst. exists [], (live_l l). unfold live_l. cbn [filter]. rewrite Hv. reflexivity.
    - destruct (IH l H Hv) as (l1 & l2 & E). unfold live_l in *. cbn [filter]. destruct (tp_valid t); cbn [map].
      + exists (tp_tri t :: l1), l2. rewrite E. reflexivity.
      + exists l1, l2. exact E.
  Qed.
  Lemma live_l_invalidate (i : nat) (t : TP) : forall l : list TP, nth_error l i = Some t -> tp_valid t = true ->
    exists l1 l2, live_l l = l1 ++ tp_tri t :: l2 /\ live_l (upd i tp_invalidate l) = l1 ++ l2.
  Proof.
    induction i as [|i IH]; intros [|u l] H Hv; cbn [nth_error] in H; try discriminate.
    - inversion H; subst. exists [], (live_l l). unfold live_l. cbn [upd filter tp_invalidate tp_valid]. rewrite Hv. split; reflexivity.
    - destruct (IH l H Hv) as (l1 & l2 & E1 & E2). unfold live_l in *. cbn [upd filter]. destruct (tp_valid u); cbn [map].
      + exists (tp_tri u :: l1), l2. rewrite E1, E2. split; reflexivity.
      + exists l1, l2. split; assumption.
  Qed.
  Lemma live_l_set_nth (i : nat) (x u : TP) : forall l : list TP, nth_error l i = Some u -> tp_valid u = false -> tp_valid x = true ->
    exists l1 l2, live_l l = l1 ++ l2 /\ live_l (set_nth i x l) = l1 ++ tp_tri x :: l2.
  Proof.
    induction i as [|i IH]; intros [|w l] H Hv Hx; cbn [nth_error] in H; try discriminate.
    - inversion H; subst. exists [], (live_l l). unfold live_l. cbn [set_nth filter]. rewrite Hv, Hx. split; reflexivity.
    - destruct (IH l H Hv Hx) as (l1 & l2 & E1 & E2). unfold live_l in *. cbn [set_nth filter]. destruct (tp_valid w); cbn [map].
      + exists (tp_tri w :: l1), l2. rewrite E1, E2. split; reflexivity.
      + exists l1, l2. split; assumption.
  Qed.
  Lemma live_l_app (l l' : list TP) : live_l (l ++ l') = live_l l ++ live_l l'.
  Proof. unfold live_l. rewrite filter_app, map_app. reflexivity. Qed.

  (** [invalidate] of a live slot removes exactly that slot's triangle *)
  Theorem live_invalidate (i : nat) (t : TP) (M M' : Mesh) (r : res unit) :
    nth_error (tris M) i = Some t -> tp_valid t = true -> mesh_invalidate i M = (M', r) ->
    tris M' = upd i tp_invalidate (tris M) /\
    exists l1 l2, live_tris M = l1 ++ tp_tri t :: l2 /\ live_tris M' = l1 ++ l2.
  Proof.
    intros Ht Hv H. unfold mesh_invalidate in H.
    assert (L : Nat.ltb i (length (tris M)) = true) by (apply Nat.ltb_lt; apply nth_error_Some; congruence). rewrite L in H.
    assert (E : tris M' = upd i tp_invalidate (tris M)) by (destruct (nvalid M); inversion H; reflexivity).
    split; [exact E|]. unfold live_tris. rewrite E. apply live_l_invalidate; assumption.
  Qed.
  (** [push] returning Ok adds exactly the triangle that Triangle3D::new built, whether the slot is reused or appended *)
  Theorem live_push (a b c : V) (la : nat) (M M' : Mesh) (n : nat) :
    mesh_push a b c la M = (M', Ok n) ->
    exists T, tri_new a b c = Ok T /\ Permutation (live_tris M') (T :: live_tris M).
  Proof.
    intros H. unfold mesh_push in H. destruct (get_first_invalid M la) as [k|] eqn:Eg.
    - destruct (tp_new a b c k) as [t| |] eqn:Et; inversion H; subst. exists (tp_tri t). split; [eapply tp_new_tri; exact Et|].
      apply get_first_invalid_spec in Eg. destruct Eg as (_ & u & Hu & Hv).
      destruct (live_l_set_nth n t u (tris M) Hu Hv (tp_new_valid _ _ _ _ _ Et)) as (l1 & l2 & E1 & E2).
      unfold live_tris; cbn [tris]. rewrite E1, E2. symmetry. apply Permutation_middle.
    - destruct (tp_new a b c (length (tris M))) as [t| |] eqn:Et; inversion H; subst. exists (tp_tri t). split; [eapply tp_new_tri; exact Et|].
      unfold live_tris; cbn [tris]. rewrite live_l_app. unfold live_l at 2. cbn [filter]. rewrite (tp_new_valid _ _ _ _ _ Et). cbn [map].
      symmetry. apply Permutation_cons_append.
  Qed.

  (** ** slots other than [i] that are live stay live with the same triangle *)
  Definition Keep (i : nat) (M M' : Mesh) : Prop :=
    forall j u, j <> i -> nth_error (tris M) j = Some u -> tp_valid u = true ->
      exists u', nth_error (tris M') j = Some u' /\ tp_valid u' = true /\ tp_tri u' = tp_tri u.
  Lemma Keep_refl i M : Keep i M M. Proof. intros j u _ H Hv. exists u. repeat split; assumption. Qed.
  Lemma Keep_trans i M1 M2 M3 : Keep i M1 M2 -> Keep i M2 M3 -> Keep i M1 M3.
  Proof.
    intros H1 H2 j u Hj Hu Hv. destruct (H1 j u Hj Hu Hv) as (u1 & A & B & C). destruct (H2 j u1 Hj A B) as (u2 & A' & B' & C').
    exists u2. repeat split; [assumption | assumption | congruence].
  Qed.
  Lemma Rskel_Keep i M M' : Rskel M M' -> Keep i M M'.
  Proof.
    intros H j u _ Hu Hv. pose proof (f_equal (fun l => nth_error l j) H) as E. cbn beta in E. rewrite !skel_nth, Hu in E. cbn [option_map] in E.
    destruct (nth_error (tris M') j) as [u'|]; cbn [option_map] in E; [|discriminate]. inversion E. exists u'. repeat split; congruence.
  Qed.
  Lemma keep_of_skel {A} i (m : MR A) : Pres Rskel m -> Pres (Keep i) m.
  Proof. intros H M M' r E. apply Rskel_Keep. eapply H. exact E. Qed.
  Lemma keep_invalidate i : Pres (Keep i) (mesh_invalidate (K:=K) i).
  Proof.
    intros M M' r H. unfold mesh_invalidate in H. destruct (Nat.ltb _ _); [|inversion H; subst; apply Keep_refl].
    assert (E : tris M' = upd i tp_invalidate (tris M)) by (destruct (nvalid M); inversion H; reflexivity).
    intros j u Hj Hu Hv. exists u. rewrite E, nth_error_upd. destruct (Nat.eqb_spec i j); [exfalso; apply Hj; congruence|]. repeat split; assumption.
  Qed.
  Lemma keep_push i (a b c : V) (la : nat) : Pres (Keep i) (mesh_push a b c la).
  Proof.
    intros M M' r H. unfold mesh_push in H. destruct (get_first_invalid M la) as [k|] eqn:Eg.
    - destruct (tp_new a b c k) as [t| |] eqn:Et; inversion H; subst; try apply Keep_refl.
      apply get_first_invalid_spec in Eg. destruct Eg as (_ & w & Hw & Hvw).
      intros j u _ Hu Hv. exists u. cbn [tris]. rewrite nth_error_set_nth. destruct (Nat.eqb_spec k j); [subst; rewrite Hw in Hu; inversion Hu; subst; congruence|].
      repeat split; assumption.
    - destruct (tp_new a b c (length (tris M))) as [t| |] eqn:Et; inversion H; subst; try apply Keep_refl.
      intros j u _ Hu Hv. exists u. cbn [tris]. rewrite nth_error_app1 by (apply nth_error_Some; congruence). repeat split; assumption.
  Qed.
  Ltac kp_step :=
    match goal with
    | |- Pres (Keep ?i) (mbind _ _) => apply (pres_bind (Keep i) (Keep_trans i)); [|intros ?]
    | |- Pres (Keep ?i) (mret _) => apply (pres_ret (Keep i) (Keep_refl i))
    | |- Pres (Keep ?i) (mlift _) => apply (pres_lift (Keep i) (Keep_refl i))
    | |- Pres (Keep ?i) (mget _ _) => apply (pres_get (Keep i) (Keep_refl i))
    | |- Pres (Keep ?i) (mwhen _ _) => apply (pres_when (Keep i) (Keep_refl i))
    | |- Pres (Keep _) (mupd _ _ (tp_constrain _)) => apply keep_of_skel; apply sk_mupd; intros ?; [apply constrain_tri | apply constrain_valid]
    | |- Pres (Keep _) (mark_as_neighbours _ _ _) => apply keep_of_skel; apply sk_mark
    | |- Pres (Keep ?i) (mesh_invalidate ?i) => apply keep_invalidate
    | |- Pres (Keep _) (mesh_push _ _ _ _) => apply keep_push
    | |- Pres (Keep _) (if ?b then _ else _) => destruct b
    | |- Pres (Keep _) (match ?x with _ => _ end) => destruct x
    | |- Pres (Keep _) (let '(_, _) := ?x in _) => destruct x
    end.
  Lemma keep_hemisphere (s : Seg K) (p : V) (i : nat) : Pres (Keep i) (process_hemisphere s p i).
  Proof. unfold process_hemisphere. repeat kp_step. Qed.

  (** ** inversion of an [Ok] outcome through the read-only prefixes *)
  Lemma bind_get_ok {B} (site : N) (i : nat) (f : TP -> MR B) (M M' : Mesh) (b : B) :
    mbind (mget site i) f M = (M', Ok b) -> exists t, nth_error (tris M) i = Some t /\ f t M = (M', Ok b).
  Proof. intros H. apply bind_get_inv in H. destruct H as [H | (_ & H & _)]; [exact H | discriminate]. Qed.
  Lemma bind_lift_ok {A B} (x : res A) (f : A -> MR B) (M M' : Mesh) (b : B) :
    mbind (mlift x) f M = (M', Ok b) -> exists a, x = Ok a /\ f a M = (M', Ok b).
  Proof. intros H. apply bind_lift_inv in H. destruct H as [H | (_ & [(c & H) | (s & H & _)])]; [exact H | discriminate | discriminate]. Qed.

  (** ** split_triangle *)
  Theorem live_split_triangle (i : nat) (p : V) (M M' : Mesh) :
    split_triangle i p M = (M', Ok tt) ->
    exists t T1 T2 T3 rest,
      nth_error (tris M) i = Some t /\ tp_valid t = true /\
      tri_new (tc (tp_tri t)) (ta (tp_tri t)) p = Ok T1 /\
      tri_new (ta (tp_tri t)) (tb (tp_tri t)) p = Ok T2 /\
      tri_new (tb (tp_tri t)) (tc (tp_tri t)) p = Ok T3 /\
      Permutation (live_tris M) (tp_tri t :: rest) /\
      Permutation (live_tris M') (T1 :: T2 :: T3 :: rest).
  Proof.
    intros H. unfold split_triangle in H.
    apply bind_get_ok in H. destruct H as (t & Et & H).
    destruct (tp_valid t) eqn:Ev; cbn [negb] in H; [|discriminate].
    apply bind_lift_ok in H. destruct H as (e1 & _ & H).
    apply bind_lift_ok in H. destruct H as (e2 & _ & H).
    apply bind_lift_ok in H. destruct H as (e3 & _ & H).
    apply bind_lift_ok in H. destruct H as (T1 & ET1 & H).
    apply bind_lift_ok in H. destruct H as (T2 & ET2 & H).
    apply bind_lift_ok in H. destruct H as (T3 & ET3 & H).
    apply mbind_ok in H. destruct H as ([] & M1 & H1 & H).
    destruct (live_invalidate i t M M1 _ Et Ev H1) as (_ & l1 & l2 & L0 & L1).
    apply mbind_ok in H. destruct H as (cap & M2 & H2 & H). destruct (live_push _ _ _ _ _ _ _ H2) as (T1' & ET1' & L2).
    apply mbind_ok in H. destruct H as (abp & M3 & H3 & H). destruct (live_push _ _ _ _ _ _ _ H3) as (T2' & ET2' & L3).
    apply mbind_ok in H. destruct H as (bcp & M4 & H4 & H). destruct (live_push _ _ _ _ _ _ _ H4) as (T3' & ET3' & L4).
    rewrite ET1 in ET1'. rewrite ET2 in ET2'. rewrite ET3 in ET3'. inversion ET1'; inversion ET2'; inversion ET3'; subst T1' T2' T3'.
    revert H. match goal with |- ?f M4 = _ -> _ => assert (G : Pres Rskel f) by (repeat first [apply sk_mark | sk_step]) end.
    intros H. apply G in H. apply Rskel_live in H.
    exists t, T1, T2, T3, (l1 ++ l2). repeat split; try assumption.
    - rewrite L0. symmetry. apply Permutation_middle.
    - rewrite H. rewrite L4. apply perm_trans with (T3 :: T2 :: T1 :: l1 ++ l2).
      + apply perm_skip. rewrite L3. apply perm_skip. rewrite L2. apply perm_skip. rewrite L1. reflexivity.
      + apply perm_trans with (T2 :: T3 :: T1 :: l1 ++ l2); [apply perm_swap|]. apply perm_trans with (T2 :: T1 :: T3 :: l1 ++ l2); [apply perm_skip, perm_swap|]. apply perm_swap.
  Qed.

  (** ** flip_diagonal *)
  (** the four points the flip works with: the edge (a,b) of the triangle, its third vertex c, and the vertex of the
      neighbour opposite to the edge of the neighbour that [Segment3D::compare]s equal to (a,b) *)
  Definition flip_verts (T Tn : Tri K) (e : Edge) : res (V * V * V * V) :=
    do a <- tri_vertex T (N.modulo (edge_as_i e) 3);
    do b <- tri_vertex T (N.modulo (edge_as_i e + 1) 3);
    do c <- tri_vertex T (N.modulo (edge_as_i e + 2) 3);
    do o <- get_opposite_vertex Tn (seg_new a b);
    Ok (a, b, c, o).
  Theorem live_flip (i : nat) (e : Edge) (M M' : Mesh) :
    flip_diagonal i e M = (M', Ok tt) ->
    exists t ni nb a b c o T1 T2 rest,
      nth_error (tris M) i = Some t /\ tp_valid t = true /\ tp_neighbour t e = Some ni /\
      nth_error (tris M) ni = Some nb /\ tp_valid nb = true /\
      flip_verts (tp_tri t) (tp_tri nb) e = Ok (a, b, c, o) /\
      tri_new a o c = Ok T1 /\ tri_new c o b = Ok T2 /\
      (ni <> i -> Permutation (live_tris M) (tp_tri t :: tp_tri nb :: rest) /\ Permutation (live_tris M') (T1 :: T2 :: rest)).
  Proof.
    intros H. unfold flip_diagonal in H.
    apply bind_get_ok in H. destruct H as (t & Et & H).
    destruct (tp_valid t) eqn:Ev; cbn [negb] in H; [|discriminate].
    destruct (tp_neighbour t e) as [ni|] eqn:En; [|discriminate].
    apply bind_get_ok in H. destruct H as (nb & Enb & H).
    destruct (tp_valid nb) eqn:Evn; cbn [negb] in H; [|discriminate].
    apply bind_lift_ok in H. destruct H as (a & Ea & H).
    apply bind_lift_ok in H. destruct H as (b & Eb & H).
    apply bind_lift_ok in H. destruct H as (c & Ec & H).
    apply bind_lift_ok in H. destruct H as (o & Eo & H).
    apply bind_lift_ok in H. destruct H as (e1 & _ & H).
    apply bind_lift_ok in H. destruct H as (e2 & _ & H).
    apply bind_lift_ok in H. destruct H as (e3 & _ & H).
    apply bind_lift_ok in H. destruct H as (e4 & _ & H).
    apply bind_lift_ok in H. destruct H as (T1 & ET1 & H).
    apply bind_lift_ok in H. destruct H as (T2 & ET2 & H).
    apply mbind_ok in H. destruct H as ([] & M1 & H1 & H).
    apply mbind_ok in H. destruct H as ([] & M2 & H2 & H).
    apply mbind_ok in H. destruct H as (aoc & M3 & H3 & H). destruct (live_push _ _ _ _ _ _ _ H3) as (T1' & ET1' & L3).
    apply mbind_ok in H. destruct H as (cob & M4 & H4 & H). destruct (live_push _ _ _ _ _ _ _ H4) as (T2' & ET2' & L4).
    rewrite ET1 in ET1'. rewrite ET2 in ET2'. inversion ET1'; inversion ET2'; subst T1' T2'.
    revert H. match goal with |- ?f M4 = _ -> _ => assert (G : Pres Rskel f) by (repeat first [apply sk_mark | sk_step]) end.
    intros H. apply G in H. apply Rskel_live in H.
    destruct (live_invalidate i t M M1 _ Et Ev H1) as (T1e & l1 & l2 & L0 & L1).
    assert (FV : flip_verts (tp_tri t) (tp_tri nb) e = Ok (a, b, c, o)) by (unfold flip_verts; rewrite Ea; cbn [rbind]; rewrite Eb; cbn [rbind]; rewrite Ec; cbn [rbind]; rewrite Eo; reflexivity).
    destruct (Nat.eq_dec ni i) as [Heq|Hne].
    { exists t, ni, nb, a, b, c, o, T1, T2, []. repeat split; try assumption; exfalso; auto. }
    assert (Enb1 : nth_error (tris M1) ni = Some nb) by (rewrite T1e, nth_error_upd; destruct (Nat.eqb_spec i ni); [exfalso; apply Hne; congruence | exact Enb]).
    destruct (live_invalidate ni nb M1 M2 _ Enb1 Evn H2) as (_ & k1 & k2 & K0 & K1).
    exists t, ni, nb, a, b, c, o, T1, T2, (k1 ++ k2). repeat split; try assumption.
    - rewrite L0. apply perm_trans with (tp_tri t :: l1 ++ l2); [symmetry; apply Permutation_middle|]. apply perm_skip.
      rewrite <- L1, K0. symmetry. apply Permutation_middle.
    - rewrite H, L4. apply perm_trans with (T2 :: T1 :: k1 ++ k2); [|apply perm_swap]. apply perm_skip. rewrite L3. apply perm_skip. rewrite K1. reflexivity.
  Qed.

  (** ** split_edge *)
  (** the three points of one hemisphere: the edge (a,b) of the triangle that [Segment3D::compare]s equal to the
      segment to split, and the opposite vertex c *)
  Definition hemi_verts (T : Tri K) (s : Seg K) : res (V * V * V) :=
    do ab_index <- match tri_get_edge_index_from_segment T s with Some i => Ok i | None => Err 107%N end;
    do ab <- tri_segment T ab_index;
    do c <- get_opposite_vertex T ab;
    Ok (sstart ab, send ab, c).
  Lemma live_hemisphere (s : Seg K) (p : V) (i : nat) (t : TP) (M M' : Mesh) (r : nat * nat) :
    nth_error (tris M) i = Some t -> tp_valid t = true -> process_hemisphere s p i M = (M', Ok r) ->
    exists a b c TA TB rest,
      hemi_verts (tp_tri t) s = Ok (a, b, c) /\ tri_new a p c = Ok TA /\ tri_new p b c = Ok TB /\
      Permutation (live_tris M) (tp_tri t :: rest) /\ Permutation (live_tris M') (TA :: TB :: rest) /\
      (forall j u, j <> i -> nth_error (tris M) j = Some u -> tp_valid u = true -> exists rest', Permutation rest (tp_tri u :: rest')).
  Proof.
    intros Et Ev H. pose proof H as H0. unfold process_hemisphere in H.
    apply bind_get_ok in H. destruct H as (t' & Et' & H). rewrite Et in Et'. inversion Et'; subst t'. clear Et'.
    apply bind_lift_ok in H. destruct H as (abi & Eabi & H).
    apply bind_lift_ok in H. destruct H as (ab & Eab & H).
    apply bind_lift_ok in H. destruct H as (ei & _ & H).
    apply bind_lift_ok in H. destruct H as (ed & _ & H).
    apply bind_lift_ok in H. destruct H as (c & Ec & H).
    apply mbind_ok in H. destruct H as ([] & M1 & H1 & H).
    destruct (live_invalidate i t M M1 _ Et Ev H1) as (T1e & l1 & l2 & L0 & L1).
    apply bind_get_ok in H. destruct H as (t1 & _ & H).
    apply bind_lift_ok in H. destruct H as (ea & _ & H).
    apply bind_lift_ok in H. destruct H as (eb & _ & H).
    apply bind_lift_ok in H. destruct H as (ea' & _ & H).
    apply bind_lift_ok in H. destruct H as (eb' & _ & H).
    apply mbind_ok in H. destruct H as (apc & M2 & H2 & H). destruct (live_push _ _ _ _ _ _ _ H2) as (TA & ETA & L2).
    apply mbind_ok in H. destruct H as (pbc & M3 & H3 & H). destruct (live_push _ _ _ _ _ _ _ H3) as (TB & ETB & L3).
    revert H. match goal with |- ?f M3 = _ -> _ => assert (G : Pres Rskel f) by (repeat first [apply sk_mark | sk_step]) end.
    intros H. apply G in H. apply Rskel_live in H.
    exists (sstart ab), (send ab), c, TA, TB, (l1 ++ l2). split; [|split; [exact ETA | split; [exact ETB|]]].
    { unfold hemi_verts. rewrite Eabi. cbn [rbind]. rewrite Eab. cbn [rbind]. rewrite Ec. reflexivity. }
    split; [rewrite L0; symmetry; apply Permutation_middle|]. split.
    - rewrite H, L3. apply perm_trans with (TB :: TA :: l1 ++ l2); [|apply perm_swap]. apply perm_skip. rewrite L2. apply perm_skip. rewrite L1. reflexivity.
    - intros j u Hj Hu Hv. rewrite <- L1.
      assert (Eu : nth_error (tris M1) j = Some u) by (rewrite T1e, nth_error_upd; destruct (Nat.eqb_spec i j); [exfalso; apply Hj; congruence | exact Hu]).
      destruct (live_l_in j u (tris M1) Eu Hv) as (k1 & k2 & E). exists (k1 ++ k2). unfold live_tris. rewrite E. symmetry. apply Permutation_middle.
  Qed.
  Lemma precheck_ro (s : Seg K) (p : V) (i : nat) : Pres eq (split_precheck s p i).
  Proof.
    unfold split_precheck.
    repeat first [ apply (pres_bind eq (@eq_trans _)); [|intros ?] | apply (pres_get eq (@eq_refl _)) | apply (pres_lift eq (@eq_refl _)) | apply (pres_ret eq (@eq_refl _)) ].
  Qed.

  Theorem live_split_edge (i : nat) (e : Edge) (p : V) (M M' : Mesh) :
    split_edge i e p M = (M', Ok tt) ->
    exists t s a b c TA TB,
      nth_error (tris M) i = Some t /\ tp_valid t = true /\ tri_segment (tp_tri t) (edge_as_i e) = Ok s /\
      hemi_verts (tp_tri t) s = Ok (a, b, c) /\ tri_new a p c = Ok TA /\ tri_new p b c = Ok TB /\
      match tp_neighbour t e with
      | None => exists rest, Permutation (live_tris M) (tp_tri t :: rest) /\ Permutation (live_tris M') (TA :: TB :: rest)
      | Some ni =>
        forall nb, ni <> i -> nth_error (tris M) ni = Some nb -> tp_valid nb = true ->
        exists a' b' c' TA' TB' rest,
          hemi_verts (tp_tri nb) s = Ok (a', b', c') /\ tri_new a' p c' = Ok TA' /\ tri_new p b' c' = Ok TB' /\
          Permutation (live_tris M) (tp_tri t :: tp_tri nb :: rest) /\
          Permutation (live_tris M') (TA :: TB :: TA' :: TB' :: rest)
      end.
  Proof.
    intros H. unfold split_edge in H.
    apply bind_get_ok in H. destruct H as (t & Et & H).
    destruct (tp_valid t) eqn:Ev; cbn [negb] in H; [|discriminate].
    apply bind_lift_ok in H. destruct H as (s & Es & H).
    apply mbind_ok in H. destruct H as ([] & M0 & H0 & H). apply precheck_ro in H0. subst M0.
    apply mbind_ok in H. destruct H as ([] & M0 & H0 & H).
    assert (M0 = M) by (destruct (tp_neighbour t e); [apply precheck_ro in H0; congruence | inversion H0; reflexivity]). subst M0. clear H0.
    apply mbind_ok in H. destruct H as ([tl tr] & M1 & H1 & H).
    destruct (live_hemisphere s p i t M M1 _ Et Ev H1) as (a & b & c & TA & TB & rest1 & HV & ETA & ETB & L0 & L1 & Fr).
    exists t, s, a, b, c, TA, TB. repeat (split; [assumption|]).
    destruct (tp_neighbour t e) as [ni|].
    - intros nb Hne Enb Evn.
      apply mbind_ok in H. destruct H as ([br bl] & M2 & H2 & H).
      destruct (keep_hemisphere s p i M M1 _ H1 ni nb Hne Enb Evn) as (nb1 & Enb1 & Evn1 & Etri).
      destruct (live_hemisphere s p ni nb1 M1 M2 _ Enb1 Evn1 H2) as (a' & b' & c' & TA' & TB' & rest2 & HV' & ETA' & ETB' & K0 & K1 & _).
      rewrite Etri in *.
      revert H. match goal with |- ?f M2 = _ -> _ => assert (G : Pres Rskel f) by (repeat first [apply sk_mark | sk_step]) end.
      intros H. apply G in H. apply Rskel_live in H.
      destruct (Fr ni nb Hne Enb Evn) as (rest & Hr).
      exists a', b', c', TA', TB', rest. repeat (split; [assumption|]). split.
      + rewrite L0. apply perm_skip. exact Hr.
      + rewrite H, K1.
        assert (P2 : Permutation rest2 (TA :: TB :: rest)).
        { apply Permutation_cons_inv with (a := tp_tri nb). rewrite <- K0, L1.
          apply perm_trans with (TA :: TB :: tp_tri nb :: rest); [do 2 apply perm_skip; exact Hr|].
          apply perm_trans with (TA :: tp_tri nb :: TB :: rest); [apply perm_skip, perm_swap | apply perm_swap]. }
        rewrite P2.
        apply perm_trans with (TA' :: TA :: TB' :: TB :: rest); [apply perm_skip, perm_swap|].
        apply perm_trans with (TA :: TA' :: TB' :: TB :: rest); [apply perm_swap|]. apply perm_skip.
        apply perm_trans with (TA' :: TB :: TB' :: rest); [apply perm_skip, perm_swap|]. apply perm_trans with (TB :: TA' :: TB' :: rest); [apply perm_swap | reflexivity].
    - inversion H; subst. exists rest1. split; assumption.
  Qed.
End LiveTris.

(** * Part 3: the region (real instance) *)
From Coq Require Import Reals Lra Psatz.
From G3 Require Import Theory.RInst Theory.Cyclic Theory.Winding Theory.Shoelace.
From G3 Require Proofs.C05_pointtest.

Section RegionAlgebra.
  Local Open Scope R_scope.
  Notation T2 := (P2 * P2 * P2)%type.

  (** coverage of a list of planar triangles along the ray (q, d): Σ_T wn d [a;b;c] q.  By [Winding.wn_triangle] each
      summand is +1 / -1 / 0 as q is strictly inside a positively / negatively oriented triangle / outside, for (d, q)
      generic.  Doubled signed area: Σ_T orient a b c. *)
  Definition cover (d : P2) (Ts : list T2) (q : P2) : Z := tsum 0%Z Z.add (fun a b c => wn d [a; b; c] q) Ts.
  Definition area2sum (Ts : list T2) : R := tsum 0 Rplus orient Ts.

  Lemma cover_cons d a b c Ts q : cover d ((a, b, c) :: Ts) q = (wn d [a; b; c] q + cover d Ts q)%Z.
  Proof. reflexivity. Qed.
  Lemma area2sum_cons a b c Ts : area2sum ((a, b, c) :: Ts) = orient a b c + area2sum Ts.
  Proof. reflexivity. Qed.
  Lemma cover_perm d q (Ts Ts' : list T2) : Permutation Ts Ts' -> cover d Ts q = cover d Ts' q.
  Proof.
    induction 1 as [| [[a b] c] l l' _ IH | [[a b] c] [[a' b'] c'] l | l l' l'' _ IH1 _ IH2]; [reflexivity | | | congruence].
    - rewrite !cover_cons, IH. reflexivity.
    - rewrite !cover_cons. lia.
  Qed.
  Lemma area2sum_perm (Ts Ts' : list T2) : Permutation Ts Ts' -> area2sum Ts = area2sum Ts'.
  Proof.
    induction 1 as [| [[a b] c] l l' _ IH | [[a b] c] [[a' b'] c'] l | l l' l'' _ IH1 _ IH2]; [reflexivity | | | congruence].
    - rewrite !area2sum_cons, IH. reflexivity.
    - rewrite !area2sum_cons. lra.
  Qed.

  (** ** the three subdivisions, for the winding number: identities of the antisymmetric edge functional [crd] *)
  Lemma wn_fan3 (d q a b c p : P2) : wn d [a; b; c] q = (wn d [c; a; p] q + wn d [a; b; p] q + wn d [b; c; p] q)%Z.
  Proof.
    rewrite !wn_tri_unfold. pose proof (crd_antisym d p a q). pose proof (crd_antisym d p b q). pose proof (crd_antisym d p c q). lia.
  Qed.
  Lemma wn_flip (d q a b c o : P2) : (wn d [a; b; c] q + wn d [b; a; o] q = wn d [a; o; c] q + wn d [c; o; b] q)%Z.
  Proof.
    rewrite !wn_tri_unfold. pose proof (crd_antisym d a b q). pose proof (crd_antisym d o c q). lia.
  Qed.
  Lemma wn_split (d q a b c p : P2) : (crd d a p q + crd d p b q = crd d a b q)%Z ->
    wn d [a; b; c] q = (wn d [a; p; c] q + wn d [p; b; c] q)%Z.
  Proof. intros H. rewrite !wn_tri_unfold. pose proof (crd_antisym d p c q). lia. Qed.
  Lemma wn_rot3 (d q a b c : P2) : wn d [b; c; a] q = wn d [a; b; c] q.
  Proof. rewrite !wn_tri_unfold. lia. Qed.
  (** ... and for the signed area *)
  Lemma orient_fan3 (a b c p : P2) : orient a b c = orient c a p + orient a b p + orient b c p.
  Proof. unfold orient. ring. Qed.
  Lemma orient_flip (a b c o : P2) : orient a b c + orient b a o = orient a o c + orient c o b.
  Proof. unfold orient. ring. Qed.
  Lemma orient_split (a b c p : P2) : orient a b p = 0 -> orient a b c = orient a p c + orient p b c.
  Proof. intros H. replace (orient a b c) with (orient a p c + orient p b c + orient a b p) by (unfold orient; ring). lra. Qed.
  Lemma orient_split_any (a b c c' p : P2) : orient a b c + orient b a c' = (orient a p c + orient p b c) + (orient b p c' + orient p a c').
  Proof. unfold orient. ring. Qed.

  (** rotation of the vertices of a triangle *)
  Definition rot3 {A} (x y : A * A * A) : Prop :=
    let '(a, b, c) := y in x = (a, b, c) \/ x = (b, c, a) \/ x = (c, a, b).
  Lemma cover_rot3 d q (x y : T2) Ts : rot3 x y -> cover d (x :: Ts) q = cover d (y :: Ts) q.
  Proof. destruct y as [[a b] c]. intros [E|[E|E]]; subst x; rewrite !cover_cons; [reflexivity | rewrite wn_rot3; reflexivity | rewrite <- wn_rot3; reflexivity]. Qed.
  Lemma area2sum_rot3 (x y : T2) Ts : rot3 x y -> area2sum (x :: Ts) = area2sum (y :: Ts).
  Proof. destruct y as [[a b] c]. intros [E|[E|E]]; subst x; rewrite !area2sum_cons; [reflexivity | rewrite orient_rot; reflexivity | rewrite <- orient_rot; reflexivity]. Qed.

  (** ** orientation of the children *)
  Lemma pos_split_triangle (a b c p : P2) : 0 < orient a b c -> inside_tri a b c p ->
    0 < orient c a p /\ 0 < orient a b p /\ 0 < orient b c p.
  Proof. intros Ho [(H1 & H2 & H3) | (H1 & H2 & H3)]; [tauto|]. pose proof (orient_bary_sum a b c p). lra. Qed.
  Lemma pos_split_edge (a b c : P2) (s : R) : 0 < s < 1 -> 0 < orient a b c ->
    0 < orient a (lerp a b s) c /\ 0 < orient (lerp a b s) b c.
  Proof. intros Hs Ho. rewrite orient_lerp_l, orient_lerp_r. split; nra. Qed.
  (** the quadrilateral a, o, b, c is strictly convex (the four turns have the sign of the triangle (a,b,c)) *)
  Lemma pos_flip (a b c o : P2) : 0 < orient a b c -> 0 < orient a o b -> 0 < orient o b c -> 0 < orient c a o ->
    0 < orient a o c /\ 0 < orient c o b.
  Proof. intros _ _ H2 H3. split; [rewrite (orient_rot c a o) | rewrite (orient_rot b c o), (orient_rot o b c)]; assumption. Qed.

  (** what the coverage counts: for positively oriented triangles and a generic ray, the number of triangles that
      contain q strictly (Winding.wn_triangle) *)
  Theorem cover_counts_inside (d q : P2) (Ts : list T2) :
    (forall a b c, In (a, b, c) Ts -> 0 < orient a b c /\ generic d q [a; b; c] /\ off_lines a b c q) ->
    cover d Ts q = Z.of_nat (count_inside Ts q).
  Proof.
    induction Ts as [|[[a b] c] Ts IH]; intros H; [reflexivity|].
    rewrite cover_cons, count_inside_cons, IH by (intros; apply H; right; assumption).
    destruct (H a b c (or_introl eq_refl)) as (Ho & Hg & Hl). rewrite (wn_triangle d a b c q Ho Hg Hl).
    destruct (inside_trib a b c q); lia.
  Qed.
End RegionAlgebra.

(** ** the steps of the model, in 2-D coordinates of an affine frame (o, e1, e2) (orthonormal in the plane of the mesh
    for the intended reading, but none of the identities needs it) *)
Section RegionMesh.
  Local Open Scope R_scope.
  Notation VR := (V3 R).
  Notation T2 := (P2 * P2 * P2)%type.
  Variables o e1 e2 : V3 R.
  Notation pr := (C05_pointtest.plane2 o e1 e2).

  Definition t2 (T : Tri R) : T2 := (pr (ta T), pr (tb T), pr (tc T)).
  Definition tris2 (M : Mesh R) : list T2 := map t2 (live_tris M).
  Definition mesh_cover (d : P2) (M : Mesh R) (q : P2) : Z := cover d (tris2 M) q.
  Definition mesh_area2 (M : Mesh R) : R := area2sum (tris2 M).

  Lemma t2_new (a b c : VR) (T : Tri R) : tri_new a b c = Ok T -> t2 T = (pr a, pr b, pr c).
  Proof. intros H. apply tri_new_pts in H. unfold tri_pts in H. inversion H. unfold t2. congruence. Qed.
  Lemma pr_lerp (a b : VR) (s : R) : pr (vadd a (vscale (vsub b a) s)) = lerp (pr a) (pr b) s.
  Proof.
    destruct a as [a1 a2 a3], b as [b1 b2 b3], o as [o1 o2 o3], e1 as [u1 u2 u3], e2 as [w1 w2 w3].
    unfold C05_pointtest.plane2, lerp, vdot, vsub, vadd, vscale. cbn [vx vy vz fst snd]. rnum. f_equal; ring.
  Qed.
  Lemma rot3_t2 (T : Tri R) (a b c : VR) : rot3 (tri_pts T) (a, b, c) -> rot3 (t2 T) (pr a, pr b, pr c).
  Proof. unfold rot3, tri_pts, t2. intros [H|[H|H]]; inversion H; subst; auto. Qed.

  Lemma cover_app d q (l l' : list T2) : cover d (l ++ l') q = (cover d l q + cover d l' q)%Z.
  Proof. induction l as [|[[a b] c] l IH]; [reflexivity|]. cbn [app]. rewrite !cover_cons, IH. lia. Qed.
  Lemma area2sum_app (l l' : list T2) : area2sum (l ++ l') = area2sum l + area2sum l'.
  Proof. induction l as [|[[a b] c] l IH]; [change (area2sum []) with 0; cbn [app]; lra|]. cbn [app]. rewrite !area2sum_cons, IH. lra. Qed.

  (** replacing the triangles [olds] by [news] in the live multiset *)
  Lemma area_replace (M M' : Mesh R) (olds news rest : list (Tri R)) :
    Permutation (live_tris M) (olds ++ rest) -> Permutation (live_tris M') (news ++ rest) ->
    area2sum (map t2 news) = area2sum (map t2 olds) -> mesh_area2 M' = mesh_area2 M.
  Proof.
    intros P1 P2 E. unfold mesh_area2, tris2.
    rewrite (area2sum_perm _ _ (Permutation_map t2 P1)), (area2sum_perm _ _ (Permutation_map t2 P2)).
    rewrite !map_app, !area2sum_app, E. reflexivity.
  Qed.
  Lemma cover_replace d q (M M' : Mesh R) (olds news rest : list (Tri R)) :
    Permutation (live_tris M) (olds ++ rest) -> Permutation (live_tris M') (news ++ rest) ->
    cover d (map t2 news) q = cover d (map t2 olds) q -> mesh_cover d M' q = mesh_cover d M q.
  Proof.
    intros P1 P2 E. unfold mesh_cover, tris2.
    rewrite (cover_perm d q _ _ (Permutation_map t2 P1)), (cover_perm d q _ _ (Permutation_map t2 P2)).
    rewrite !map_app, !cover_app, E. reflexivity.
  Qed.

  (** *** split_triangle: any point p, any ray, any q *)
  Theorem region_split_triangle (i : nat) (p : VR) (M M' : Mesh R) :
    split_triangle i p M = (M', Ok tt) ->
    mesh_area2 M' = mesh_area2 M /\ forall d q, mesh_cover d M' q = mesh_cover d M q.
  Proof.
    intros H. destruct (live_split_triangle i p M M' H) as (t & T1 & T2 & T3 & rest & Et & Ev & E1 & E2 & E3 & P0 & P1).
    split; [|intros d q].
    - apply (area_replace M M' [tp_tri t] [T1; T2; T3] rest P0 P1). cbn [map].
      rewrite (t2_new _ _ _ _ E1), (t2_new _ _ _ _ E2), (t2_new _ _ _ _ E3). unfold t2. rewrite !area2sum_cons.
      rewrite (orient_fan3 (pr (ta (tp_tri t))) (pr (tb (tp_tri t))) (pr (tc (tp_tri t))) (pr p)). unfold area2sum; cbn [tsum fold_right]. lra.
    - apply (cover_replace d q M M' [tp_tri t] [T1; T2; T3] rest P0 P1). cbn [map].
      rewrite (t2_new _ _ _ _ E1), (t2_new _ _ _ _ E2), (t2_new _ _ _ _ E3). unfold t2. rewrite !cover_cons.
      rewrite (wn_fan3 d q (pr (ta (tp_tri t))) (pr (tb (tp_tri t))) (pr (tc (tp_tri t))) (pr p)). unfold cover; cbn [tsum fold_right]. lia.
  Qed.

  (** *** flip_diagonal: the neighbour holds the edge exactly, reversed *)
  Lemma flip_verts_rot {K} {NK : Num K} (T Tn : Tri K) (e : Edge) (a b c op : V3 K) :
    flip_verts T Tn e = Ok (a, b, c, op) -> rot3 (tri_pts T) (a, b, c).
  Proof.
    unfold flip_verts. destruct e; cbn [edge_as_i];
      [change (N.modulo 0 3) with 0%N; change (N.modulo (0 + 1) 3) with 1%N; change (N.modulo (0 + 2) 3) with 2%N
      | change (N.modulo 1 3) with 1%N; change (N.modulo (1 + 1) 3) with 2%N; change (N.modulo (1 + 2) 3) with 0%N
      | change (N.modulo 2 3) with 2%N; change (N.modulo (2 + 1) 3) with 0%N; change (N.modulo (2 + 2) 3) with 1%N ];
      cbn [tri_vertex rbind]; destruct (get_opposite_vertex _ _) as [x| |]; cbn [rbind]; try discriminate;
      intros H; inversion H; subst; unfold rot3, tri_pts; auto.
  Qed.
  Definition flip_shared (M : Mesh R) (i : nat) (e : Edge) : Prop :=
    forall t ni nb a b c op, nth_error (tris M) i = Some t -> tp_valid t = true -> tp_neighbour t e = Some ni ->
      nth_error (tris M) ni = Some nb -> tp_valid nb = true ->
      flip_verts (tp_tri t) (tp_tri nb) e = Ok (a, b, c, op) -> ni <> i /\ rot3 (tri_pts (tp_tri nb)) (b, a, op).
  Theorem region_flip (i : nat) (e : Edge) (M M' : Mesh R) :
    flip_shared M i e -> flip_diagonal i e M = (M', Ok tt) ->
    mesh_area2 M' = mesh_area2 M /\ forall d q, mesh_cover d M' q = mesh_cover d M q.
  Proof.
    intros Hs H. destruct (live_flip i e M M' H) as (t & ni & nb & a & b & c & op & T1 & T2 & rest & Et & Ev & En & Enb & Evn & FV & E1 & E2 & P).
    destruct (Hs t ni nb a b c op Et Ev En Enb Evn FV) as [Hne Hrot]. destruct (P Hne) as [P0 P1].
    pose proof (rot3_t2 _ _ _ _ (flip_verts_rot _ _ _ _ _ _ _ FV)) as R1. pose proof (rot3_t2 _ _ _ _ Hrot) as R2.
    split; [|intros d q].
    - apply (area_replace M M' [tp_tri t; tp_tri nb] [T1; T2] rest P0 P1). cbn [map].
      rewrite (t2_new _ _ _ _ E1), (t2_new _ _ _ _ E2).
      rewrite (area2sum_rot3 _ _ _ R1). rewrite (area2sum_cons _ _ _ [t2 (tp_tri nb)]). rewrite (area2sum_rot3 _ _ _ R2).
      rewrite !area2sum_cons. pose proof (orient_flip (pr a) (pr b) (pr c) (pr op)). unfold area2sum; cbn [tsum fold_right]. lra.
    - apply (cover_replace d q M M' [tp_tri t; tp_tri nb] [T1; T2] rest P0 P1). cbn [map].
      rewrite (t2_new _ _ _ _ E1), (t2_new _ _ _ _ E2).
      rewrite (cover_rot3 d q _ _ _ R1). rewrite (cover_cons d _ _ _ [t2 (tp_tri nb)]). rewrite (cover_rot3 d q _ _ _ R2).
      rewrite !cover_cons. pose proof (wn_flip d q (pr a) (pr b) (pr c) (pr op)). unfold cover; cbn [tsum fold_right]. lia.
  Qed.

  (** *** split_edge: in each hemisphere the three points are the triangle's (up to rotation) and p is on the split edge *)
  Definition on_line (p a b : VR) : Prop := exists s : R, p = vadd a (vscale (vsub b a) s).
  Definition between (p a b : VR) : Prop := exists s : R, 0 < s < 1 /\ p = vadd a (vscale (vsub b a) s).
  Lemma between_on_line p a b : between p a b -> on_line p a b.
  Proof. intros (s & _ & H). exists s. exact H. Qed.
  Definition hemi_ok (Q : VR -> VR -> VR -> Prop) (T : Tri R) (sg : Seg R) (p : VR) : Prop :=
    forall a b c, hemi_verts T sg = Ok (a, b, c) -> rot3 (tri_pts T) (a, b, c) /\ Q p a b.
  Definition split_edge_ok (Q : VR -> VR -> VR -> Prop) (M : Mesh R) (i : nat) (e : Edge) (p : VR) : Prop :=
    forall t sg, nth_error (tris M) i = Some t -> tp_valid t = true -> tri_segment (tp_tri t) (edge_as_i e) = Ok sg ->
      hemi_ok Q (tp_tri t) sg p /\
      (forall ni, tp_neighbour t e = Some ni ->
         ni <> i /\ exists nb, nth_error (tris M) ni = Some nb /\ tp_valid nb = true /\ hemi_ok Q (tp_tri nb) sg p).
  Lemma split_edge_ok_weaken (Q Q' : VR -> VR -> VR -> Prop) M i e p :
    (forall p a b, Q p a b -> Q' p a b) -> split_edge_ok Q M i e p -> split_edge_ok Q' M i e p.
  Proof.
    intros HQ H t sg Et Ev Es. destruct (H t sg Et Ev Es) as [H1 H2]. split.
    - intros a b c Hv. destruct (H1 a b c Hv). split; auto.
    - intros ni En. destruct (H2 ni En) as (Hne & nb & A & B & C). split; [exact Hne|]. exists nb. split; [exact A | split; [exact B|]].
      intros a b c Hv. destruct (C a b c Hv). split; auto.
  Qed.
  Lemma area_hemi (T TA TB : Tri R) (a b c p : VR) :
    rot3 (tri_pts T) (a, b, c) -> on_line p a b -> tri_new a p c = Ok TA -> tri_new p b c = Ok TB ->
    area2sum [t2 TA; t2 TB] = area2sum [t2 T].
  Proof.
    intros Hr (s & Hp) EA EB. rewrite (t2_new _ _ _ _ EA), (t2_new _ _ _ _ EB). rewrite (area2sum_rot3 _ _ _ (rot3_t2 _ _ _ _ Hr)).
    rewrite !area2sum_cons. unfold area2sum; cbn [tsum fold_right].
    assert (O : orient (pr a) (pr b) (pr p) = 0) by (rewrite Hp, pr_lerp; unfold orient, lerp; cbn [fst snd]; ring).
    rewrite (orient_split (pr a) (pr b) (pr c) (pr p) O). lra.
  Qed.
  Lemma cover_hemi d q (T TA TB : Tri R) (a b c p : VR) :
    hgt d q (pr p) <> 0 ->
    rot3 (tri_pts T) (a, b, c) -> between p a b -> tri_new a p c = Ok TA -> tri_new p b c = Ok TB ->
    cover d [t2 TA; t2 TB] q = cover d [t2 T] q.
  Proof.
    intros Hg Hr (s & Hs & Hp) EA EB. rewrite (t2_new _ _ _ _ EA), (t2_new _ _ _ _ EB). rewrite (cover_rot3 d q _ _ _ (rot3_t2 _ _ _ _ Hr)).
    rewrite !cover_cons. unfold cover; cbn [tsum fold_right].
    assert (C : (crd d (pr a) (pr p) q + crd d (pr p) (pr b) q = crd d (pr a) (pr b) q)%Z).
    { apply (crd_split d (pr a) (pr b) q (pr p) s Hs); [rewrite Hp; apply pr_lerp | exact Hg]. }
    rewrite (wn_split d q (pr a) (pr b) (pr c) (pr p) C). lia.
  Qed.
  Theorem region_split_edge_area (i : nat) (e : Edge) (p : VR) (M M' : Mesh R) :
    split_edge_ok on_line M i e p -> split_edge i e p M = (M', Ok tt) -> mesh_area2 M' = mesh_area2 M.
  Proof.
    intros Hok H. destruct (live_split_edge i e p M M' H) as (t & sg & a & b & c & TA & TB & Et & Ev & Es & HV & EA & EB & Hn).
    destruct (Hok t sg Et Ev Es) as [H1 H2]. destruct (H1 a b c HV) as [Hr Hl].
    destruct (tp_neighbour t e) as [ni|].
    - destruct (H2 ni eq_refl) as (Hne & nb & Enb & Evn & H3).
      destruct (Hn nb Hne Enb Evn) as (a' & b' & c' & TA' & TB' & rest & HV' & EA' & EB' & P0 & P1).
      destruct (H3 a' b' c' HV') as [Hr' Hl'].
      apply (area_replace M M' [tp_tri t; tp_tri nb] [TA; TB; TA'; TB'] rest P0 P1).
      change [TA; TB; TA'; TB'] with ([TA; TB] ++ [TA'; TB']). change [tp_tri t; tp_tri nb] with ([tp_tri t] ++ [tp_tri nb]).
      rewrite !map_app, !area2sum_app. cbn [map].
      rewrite (area_hemi _ _ _ _ _ _ _ Hr Hl EA EB), (area_hemi _ _ _ _ _ _ _ Hr' Hl' EA' EB'). reflexivity.
    - destruct Hn as (rest & P0 & P1). apply (area_replace M M' [tp_tri t] [TA; TB] rest P0 P1). cbn [map].
      apply (area_hemi _ _ _ _ _ _ _ Hr Hl EA EB).
  Qed.
  Theorem region_split_edge_cover (i : nat) (e : Edge) (p : VR) (M M' : Mesh R) (d q : P2) :
    split_edge_ok between M i e p -> hgt d q (pr p) <> 0 -> split_edge i e p M = (M', Ok tt) -> mesh_cover d M' q = mesh_cover d M q.
  Proof.
    intros Hok Hg H. destruct (live_split_edge i e p M M' H) as (t & sg & a & b & c & TA & TB & Et & Ev & Es & HV & EA & EB & Hn).
    destruct (Hok t sg Et Ev Es) as [H1 H2]. destruct (H1 a b c HV) as [Hr Hl].
    destruct (tp_neighbour t e) as [ni|].
    - destruct (H2 ni eq_refl) as (Hne & nb & Enb & Evn & H3).
      destruct (Hn nb Hne Enb Evn) as (a' & b' & c' & TA' & TB' & rest & HV' & EA' & EB' & P0 & P1).
      destruct (H3 a' b' c' HV') as [Hr' Hl'].
      apply (cover_replace d q M M' [tp_tri t; tp_tri nb] [TA; TB; TA'; TB'] rest P0 P1).
      change [TA; TB; TA'; TB'] with ([TA; TB] ++ [TA'; TB']). change [tp_tri t; tp_tri nb] with ([tp_tri t] ++ [tp_tri nb]).
      rewrite !map_app, !cover_app. cbn [map].
      rewrite (cover_hemi d q _ _ _ _ _ _ _ Hg Hr Hl EA EB), (cover_hemi d q _ _ _ _ _ _ _ Hg Hr' Hl' EA' EB'). reflexivity.
    - destruct Hn as (rest & P0 & P1). apply (cover_replace d q M M' [tp_tri t] [TA; TB] rest P0 P1). cbn [map].
      apply (cover_hemi d q _ _ _ _ _ _ _ Hg Hr Hl EA EB).
  Qed.
End RegionMesh.

(** ** composed operations and histories *)
Section RegionHistory.
  Local Open Scope R_scope.
  Notation VR := (V3 R).
  Variables o e1 e2 : V3 R.
  Notation pr := (C05_pointtest.plane2 o e1 e2).
  Notation area2 := (mesh_area2 o e1 e2).
  Notation coverM := (mesh_cover o e1 e2).

  (** same doubled signed area, same coverage along every ray *)
  Definition Same (M M' : Mesh R) : Prop := area2 M' = area2 M /\ forall d q, coverM d M' q = coverM d M q.
  Lemma Same_refl M : Same M M. Proof. split; reflexivity. Qed.
  Lemma Same_trans M1 M2 M3 : Same M1 M2 -> Same M2 M3 -> Same M1 M3.
  Proof. intros [A1 B1] [A2 B2]. split; [congruence | intros d q; rewrite B2; apply B1]. Qed.

  (** *** restore_delaunay only flips.  The hypothesis on the flipped edges is carried by any invariant [Inv] of the
      mesh that (1) implies that the neighbour across a flipped edge holds that edge exactly and (2) survives a flip
      (the geometric half of conformity, clause (i) of C08_mesh.v, is such an invariant once proved preserved) *)
  Section WithInv.
    Variable Inv : Mesh R -> Prop.
    Hypothesis Inv_shared : forall M i e, Inv M -> flip_shared M i e.
    Hypothesis Inv_flip : forall M i e M', Inv M -> flip_diagonal i e M = (M', Ok tt) -> Inv M'.

    Lemma region_rd_pass (m : R) : forall cnt i l any M M' b, Inv M -> rd_pass m cnt i l any M = (M', Ok b) -> Inv M' /\ Same M M'.
    Proof.
      induction cnt as [|cnt IH]; intros i l any M M' b HI H; cbn [rd_pass] in H.
      - inversion H; subst. split; [exact HI | apply Same_refl].
      - destruct l as [|t l']; [discriminate|].
        destruct (negb (tp_valid t)); [eapply IH; eassumption|].
        destruct (nltb (tp_ar t) m); [eapply IH; eassumption|].
        apply mbind_ok in H. destruct H as (bst & M1 & H1 & H). inversion H1; subst M1. clear H1.
        destruct (fst bst) as [best|]; [|eapply IH; eassumption].
        apply mbind_ok in H. destruct H as ([] & M1 & H1 & H).
        pose proof (Inv_flip _ _ _ _ HI H1) as HI1.
        pose proof (region_flip o e1 e2 _ _ _ _ (Inv_shared _ i best HI) H1) as S1.
        destruct (IH _ _ _ _ _ _ HI1 H) as [HI2 S2]. split; [exact HI2 | eapply Same_trans; eassumption].
    Qed.
    Lemma region_rd_loops (m : R) (n : nat) : forall loops M M', Inv M -> rd_loops m n loops M = (M', Ok tt) -> Inv M' /\ Same M M'.
    Proof.
      induction loops as [|k IH]; intros M M' HI H; cbn [rd_loops] in H.
      - inversion H; subst. split; [exact HI | apply Same_refl].
      - apply mbind_ok in H. destruct H as (any & M1 & H1 & H). destruct (region_rd_pass _ _ _ _ _ _ _ _ HI H1) as [HI1 S1].
        destruct any.
        + destruct (IH _ _ HI1 H) as [HI2 S2]. split; [exact HI2 | eapply Same_trans; eassumption].
        + inversion H; subst. split; assumption.
    Qed.
    Theorem region_restore (m : R) (M M' : Mesh R) : Inv M -> restore_delaunay m M = (M', Ok tt) -> Inv M' /\ Same M M'.
    Proof. intros HI H. unfold restore_delaunay in H. eapply region_rd_loops; eassumption. Qed.
  End WithInv.

  (** *** add_point: the located triangle is split at the point, or one of its edges is *)
  Definition add_point_ok (Q : VR -> VR -> VR -> Prop) (M : Mesh R) (p : VR) : Prop :=
    forall i loc, find_container (tris M) 0 p = Some (i, loc) ->
      match loc with
      | EdgeAB => split_edge_ok Q M i Ab p | EdgeBC => split_edge_ok Q M i Bc p | EdgeAC => split_edge_ok Q M i Ca p
      | _ => True end.
  Lemma aptt_cases (i : nat) (p : VR) (loc : PIT) (M M' : Mesh R) (b : bool) :
    add_point_to_triangle i p loc M = (M', Ok b) ->
    M' = M \/ split_triangle i p M = (M', Ok tt) \/
    (exists ed, match loc with EdgeAB => ed = Ab | EdgeBC => ed = Bc | EdgeAC => ed = Ca | _ => False end /\ split_edge i ed p M = (M', Ok tt)).
  Proof.
    intros H. unfold add_point_to_triangle in H. apply bind_get_ok in H. destruct H as (t & _ & H).
    destruct (negb (tp_valid t)); [discriminate|].
    destruct loc; cbn [pit_is_vertex pit_is_edge] in H; try (inversion H; subst; left; reflexivity); try discriminate.
    - apply bind_lift_ok in H. destruct H as (ed & Eed & H). apply mbind_ok in H. destruct H as ([] & M1 & H1 & H). inversion H; subst.
      right; right. exists ed. split; [inversion Eed; reflexivity | exact H1].
    - apply bind_lift_ok in H. destruct H as (ed & Eed & H). apply mbind_ok in H. destruct H as ([] & M1 & H1 & H). inversion H; subst.
      right; right. exists ed. split; [inversion Eed; reflexivity | exact H1].
    - apply bind_lift_ok in H. destruct H as (ed & Eed & H). apply mbind_ok in H. destruct H as ([] & M1 & H1 & H). inversion H; subst.
      right; right. exists ed. split; [inversion Eed; reflexivity | exact H1].
    - apply mbind_ok in H. destruct H as ([] & M1 & H1 & H). inversion H; subst. right; left. exact H1.
  Qed.
  Theorem region_add_point_area (p : VR) (M M' : Mesh R) (b : bool) :
    add_point_ok on_line M p -> add_point p M = (M', Ok b) -> area2 M' = area2 M.
  Proof.
    intros Hok H. unfold add_point in H. destruct (find_container (tris M) 0 p) as [[i loc]|] eqn:Ef; [|discriminate].
    specialize (Hok i loc Ef). apply aptt_cases in H. destruct H as [-> | [H | (ed & Hed & H)]]; [reflexivity | |].
    - apply (region_split_triangle o e1 e2 _ _ _ _ H).
    - destruct loc; try contradiction; subst ed; eapply region_split_edge_area; eassumption.
  Qed.
  Theorem region_add_point_cover (p : VR) (M M' : Mesh R) (b : bool) (d q : P2) :
    add_point_ok between M p -> hgt d q (pr p) <> 0 -> add_point p M = (M', Ok b) -> coverM d M' q = coverM d M q.
  Proof.
    intros Hok Hg H. unfold add_point in H. destruct (find_container (tris M) 0 p) as [[i loc]|] eqn:Ef; [|discriminate].
    specialize (Hok i loc Ef). apply aptt_cases in H. destruct H as [-> | [H | (ed & Hed & H)]]; [reflexivity | |].
    - apply (region_split_triangle o e1 e2 _ _ _ _ H).
    - destruct loc; try contradiction; subst ed; eapply region_split_edge_cover; eassumption.
  Qed.

  (** *** histories: every step returns Ok and meets its geometric hypothesis on the mesh it is applied to *)
  Section History.
    Variable Inv : Mesh R -> Prop.
    Hypothesis Inv_shared : forall M i e, Inv M -> flip_shared M i e.
    Hypothesis Inv_flip : forall M i e M', Inv M -> flip_diagonal i e M = (M', Ok tt) -> Inv M'.
    (** [Q p a b]: where the inserted point lies w.r.t. the split edge; [G p]: the ray avoids the inserted point *)
    Definition geo_ok (Q : VR -> VR -> VR -> Prop) (G : VR -> Prop) (M : Mesh R) (op : mop R) : Prop :=
      match op with
      | OSplitTriangle _ _ => True
      | OFlip i e => forall ed, edge_from_i e = Ok ed -> flip_shared M i ed
      | OSplitEdge i e p => (forall ed, edge_from_i e = Ok ed -> split_edge_ok Q M i ed p) /\ G p
      | ORestore _ => Inv M
      | OAddPoint p => add_point_ok Q M p /\ G p
      | ORefine _ _ _ => False
      end.
    Fixpoint good_run (Q : VR -> VR -> VR -> Prop) (G : VR -> Prop) (M : Mesh R) (ops : list (mop R)) : Prop :=
      match ops with
      | [] => True
      | op :: tl => geo_ok Q G M op /\ (exists x, snd (mesh_step op M) = Ok x) /\ good_run Q G (fst (mesh_step op M)) tl
      end.
    Lemma history_gen {X} (phi : Mesh R -> X) Q G :
      (forall M op M' x, geo_ok Q G M op -> mesh_step op M = (M', Ok x) -> phi M' = phi M) ->
      forall ops M, good_run Q G M ops -> phi (fst (mesh_run M ops)) = phi M.
    Proof.
      intros Hstep. induction ops as [|op ops IH]; intros M H; cbn [mesh_run]; [reflexivity|].
      cbn [good_run] in H. destruct H as (Hg & (x & Hx) & Hr). destruct (mesh_step op M) as [M1 r] eqn:E1. cbn [fst snd] in *. subst r.
      specialize (IH M1 Hr). destruct (mesh_run M1 ops) as [M2 os]. cbn [fst] in *. rewrite IH. eapply Hstep; eassumption.
    Qed.
    Lemma step_inv (op : mop R) (M M' : Mesh R) (x : option bool) : mesh_step op M = (M', Ok x) ->
      match op with
      | OSplitEdge i e p => exists ed, edge_from_i e = Ok ed /\ split_edge i ed p M = (M', Ok tt)
      | OSplitTriangle i p => split_triangle i p M = (M', Ok tt)
      | OFlip i e => exists ed, edge_from_i e = Ok ed /\ flip_diagonal i ed M = (M', Ok tt)
      | ORestore m => restore_delaunay m M = (M', Ok tt)
      | OAddPoint p => exists b, add_point p M = (M', Ok b)
      | ORefine _ _ _ => True
      end.
    Proof.
      destruct op; cbn [mesh_step]; intros H.
      - apply bind_lift_ok in H. destruct H as (ed & Eed & H). apply mbind_ok in H. destruct H as ([] & M1 & H1 & H). inversion H; subst. exists ed. split; assumption.
      - apply mbind_ok in H. destruct H as ([] & M1 & H1 & H). inversion H; subst. exact H1.
      - apply bind_lift_ok in H. destruct H as (ed & Eed & H). apply mbind_ok in H. destruct H as ([] & M1 & H1 & H). inversion H; subst. exists ed. split; assumption.
      - apply mbind_ok in H. destruct H as ([] & M1 & H1 & H). inversion H; subst. exact H1.
      - apply mbind_ok in H. destruct H as (b & M1 & H1 & H). inversion H; subst. exists b. exact H1.
      - exact I.
    Qed.
    Theorem region_history_area (ops : list (mop R)) (M : Mesh R) :
      good_run on_line (fun _ => True) M ops -> area2 (fst (mesh_run M ops)) = area2 M.
    Proof.
      apply (history_gen area2). clear M ops. intros M op M' x Hg H. apply step_inv in H. destruct op; cbn [geo_ok] in Hg.
      - destruct H as (ed & Eed & H). destruct Hg as [Hg _]. eapply region_split_edge_area; [apply Hg; exact Eed | exact H].
      - apply (region_split_triangle o e1 e2 _ _ _ _ H).
      - destruct H as (ed & Eed & H). apply (region_flip o e1 e2 _ _ _ _ (Hg ed Eed) H).
      - apply (region_restore Inv Inv_shared Inv_flip _ _ _ Hg H).
      - destruct H as (b & H). destruct Hg as [Hg _]. eapply region_add_point_area; eassumption.
      - contradiction.
    Qed.
    Theorem region_history_cover (d q : P2) (ops : list (mop R)) (M : Mesh R) :
      good_run between (fun p => hgt d q (pr p) <> 0) M ops -> coverM d (fst (mesh_run M ops)) q = coverM d M q.
    Proof.
      apply (history_gen (fun M => coverM d M q)). clear M ops. intros M op M' x Hg H. apply step_inv in H. destruct op; cbn [geo_ok] in Hg.
      - destruct H as (ed & Eed & H). destruct Hg as [Hg Hq]. eapply region_split_edge_cover; [apply Hg; exact Eed | exact Hq | exact H].
      - apply (region_split_triangle o e1 e2 _ _ _ _ H).
      - destruct H as (ed & Eed & H). apply (region_flip o e1 e2 _ _ _ _ (Hg ed Eed) H).
      - apply (region_restore Inv Inv_shared Inv_flip _ _ _ Hg H).
      - destruct H as (b & H). destruct Hg as [Hg Hq]. eapply region_add_point_cover; eassumption.
      - contradiction.
    Qed.
  End History.
End RegionHistory.

(** ** what Triangle3D::new guarantees makes the rotation hypothesis of [hemi_ok] automatic (real instance) *)
Section Nondeg.
  Local Open Scope R_scope.
  Notation VR := (V3 R).
  Definition tri_nondeg (T : Tri R) : Prop :=
    vcompare (ta T) (tb T) = false /\ vcompare (ta T) (tc T) = false /\ vcompare (tb T) (tc T) = false.
  Lemma vcompare_refl_R (a : VR) : vcompare a a = true.
  Proof.
    unfold vcompare, c1em5. rnum.
    assert (E : forall x : R, Rltb (Rabs (x - x)) (1 / 100000) = true)
      by (intros x; apply Rltb_true; replace (x - x) with 0 by ring; rewrite Rabs_R0; lra).
    rewrite !E. reflexivity.
  Qed.
  Lemma vcompare_sym_R (a b : VR) : vcompare a b = vcompare b a.
  Proof. unfold vcompare. rnum. rewrite (Rabs_minus_sym (vx a)), (Rabs_minus_sym (vy a)), (Rabs_minus_sym (vz a)). reflexivity. Qed.
  Lemma tri_new_nondeg (a b c : VR) (T : Tri R) : tri_new a b c = Ok T -> tri_nondeg T.
  Proof.
    intros H. pose proof (tri_new_pts _ _ _ _ H) as P. unfold tri_pts in P. inversion P as [[Pa Pb Pc]]. unfold tri_new in H.
    destruct (vcompare a b) eqn:E1; [discriminate|]. destruct (vcompare a c) eqn:E2; [discriminate|]. destruct (vcompare b c) eqn:E3; [discriminate|].
    unfold tri_nondeg. rewrite Pa, Pb, Pc. auto.
  Qed.
  Lemma seg_self (T : Tri R) (k : N) (ab : Seg R) : tri_nondeg T -> tri_segment T k = Ok ab -> tri_get_edge_index_from_segment T ab = Some k.
  Proof.
    intros (H1 & H2 & H3) Hk.
    pose proof (vcompare_refl_R (ta T)) as Ra. pose proof (vcompare_refl_R (tb T)) as Rb. pose proof (vcompare_refl_R (tc T)) as Rc.
    pose proof H1 as H1'. pose proof H2 as H2'. pose proof H3 as H3'. rewrite vcompare_sym_R in H1', H2', H3'.
    unfold tri_get_edge_index_from_segment, seg_compare, tri_ab, tri_bc, tri_ca, seg_new. cbn [sstart send].
    unfold tri_segment in Hk. destruct k as [|[[|[]|]|[|[]|]|]]; try discriminate; inversion Hk; subst ab; unfold tri_ab, tri_bc, tri_ca, seg_new; cbn [sstart send];
      rewrite ?Ra, ?Rb, ?Rc, ?H1, ?H2, ?H3, ?H1', ?H2', ?H3'; reflexivity.
  Qed.
  Lemma hemi_rot (T : Tri R) (sg : Seg R) (a b c : VR) : tri_nondeg T -> hemi_verts T sg = Ok (a, b, c) -> rot3 (tri_pts T) (a, b, c).
  Proof.
    intros Hn H. unfold hemi_verts in H.
    destruct (tri_get_edge_index_from_segment T sg) as [k|]; cbn [rbind] in H; [|discriminate].
    destruct (tri_segment T k) as [ab| |] eqn:Ek; cbn [rbind] in H; try discriminate.
    unfold get_opposite_vertex in H. rewrite (seg_self T k ab Hn Ek) in H.
    unfold tri_segment in Ek. destruct k as [|[[|[]|]|[|[]|]|]]; try discriminate; inversion Ek; subst ab; cbn [tri_vertex rbind] in H;
      unfold tri_ab, tri_bc, tri_ca, seg_new in H; cbn [sstart send] in H; inversion H; subst; unfold rot3, tri_pts; auto.
  Qed.
  (** every live triangle was built by Triangle3D::new *)
  Definition AllNondeg (M : Mesh R) : Prop := forall T, In T (live_tris M) -> tri_nondeg T.
  Lemma nondeg_replace (M M' : Mesh R) (news rest olds : list (Tri R)) :
    Permutation (live_tris M) (olds ++ rest) -> Permutation (live_tris M') (news ++ rest) -> (forall T, In T news -> tri_nondeg T) ->
    AllNondeg M -> AllNondeg M'.
  Proof.
    intros P0 P1 Hn HA T HT. apply (Permutation_in _ P1) in HT. apply in_app_or in HT. destruct HT as [HT|HT]; [apply Hn; exact HT|].
    apply HA. apply (Permutation_in _ (Permutation_sym P0)). apply in_or_app. right. exact HT.
  Qed.
  Theorem nondeg_split_triangle i p (M M' : Mesh R) : split_triangle i p M = (M', Ok tt) -> AllNondeg M -> AllNondeg M'.
  Proof.
    intros H. destruct (live_split_triangle i p M M' H) as (t & T1 & T2 & T3 & rest & _ & _ & E1 & E2 & E3 & P0 & P1).
    apply (nondeg_replace M M' [T1; T2; T3] rest [tp_tri t] P0 P1). intros T [<-|[<-|[<-|[]]]]; eapply tri_new_nondeg; eassumption.
  Qed.
  Theorem nondeg_flip i e (M M' : Mesh R) : WF M -> flip_diagonal i e M = (M', Ok tt) -> AllNondeg M -> AllNondeg M'.
  Proof.
    intros W H. destruct (live_flip i e M M' H) as (t & ni & nb & a & b & c & op & T1 & T2 & rest & Et & _ & En & _ & _ & _ & E1 & E2 & P).
    destruct (W i t Et e ni En) as [_ Hne]. destruct (P Hne) as [P0 P1].
    apply (nondeg_replace M M' [T1; T2] rest [tp_tri t; tp_tri nb] P0 P1). intros T [<-|[<-|[]]]; eapply tri_new_nondeg; eassumption.
  Qed.
  Lemma in_live (M : Mesh R) (j : nat) (u : TriPiece R) : nth_error (tris M) j = Some u -> tp_valid u = true -> In (tp_tri u) (live_tris M).
  Proof. intros H Hv. destruct (live_l_in j u (tris M) H Hv) as (l1 & l2 & E). unfold live_tris. rewrite E. apply in_elt. Qed.
  (** with every live triangle built by Triangle3D::new, the hypothesis of the split_edge theorems is: in each hemisphere
      the point lies on (strictly inside) the edge that compares equal to the split segment; the neighbour is live *)
  Definition split_edge_pts (Q : VR -> VR -> VR -> Prop) (M : Mesh R) (i : nat) (e : Edge) (p : VR) : Prop :=
    forall t sg, nth_error (tris M) i = Some t -> tp_valid t = true -> tri_segment (tp_tri t) (edge_as_i e) = Ok sg ->
      (forall a b c, hemi_verts (tp_tri t) sg = Ok (a, b, c) -> Q p a b) /\
      (forall ni, tp_neighbour t e = Some ni ->
         ni <> i /\ exists nb, nth_error (tris M) ni = Some nb /\ tp_valid nb = true /\
                               forall a b c, hemi_verts (tp_tri nb) sg = Ok (a, b, c) -> Q p a b).
  Lemma split_edge_ok_of_nondeg Q (M : Mesh R) i e p : AllNondeg M -> split_edge_pts Q M i e p -> split_edge_ok Q M i e p.
  Proof.
    intros HA H t sg Et Ev Es. destruct (H t sg Et Ev Es) as [H1 H2]. split.
    - intros a b c Hv. split; [apply (hemi_rot _ sg); [apply HA; eapply in_live; eassumption | exact Hv] | eapply H1; exact Hv].
    - intros ni En. destruct (H2 ni En) as (Hne & nb & A & B & C). split; [exact Hne|]. exists nb. split; [exact A | split; [exact B|]].
      intros a b c Hv. split; [apply (hemi_rot _ sg); [apply HA; eapply in_live; eassumption | exact Hv] | eapply C; exact Hv].
  Qed.
End Nondeg.

(** ** orientation: positively oriented meshes stay positively oriented *)
Section Orientation.
  Local Open Scope R_scope.
  Notation VR := (V3 R).
  Notation T2 := (P2 * P2 * P2)%type.
  Variables o e1 e2 : V3 R.
  Notation pr := (C05_pointtest.plane2 o e1 e2).
  Definition pos3 (x : T2) : Prop := 0 < orient (fst (fst x)) (snd (fst x)) (snd x).
  Definition AllPos (M : Mesh R) : Prop := Forall pos3 (tris2 o e1 e2 M).
  Lemma pos3_rot3 (x y : T2) : rot3 x y -> pos3 x -> pos3 y.
  Proof. destruct y as [[a b] c]. unfold pos3. intros [E|[E|E]]; subst x; cbn [fst snd]; [tauto | rewrite orient_rot; tauto | rewrite <- orient_rot; tauto]. Qed.
  Lemma pos_replace (M M' : Mesh R) (olds news rest : list (Tri R)) :
    Permutation (live_tris M) (olds ++ rest) -> Permutation (live_tris M') (news ++ rest) ->
    (Forall pos3 (map (t2 o e1 e2) olds) -> Forall pos3 (map (t2 o e1 e2) news)) -> AllPos M -> AllPos M'.
  Proof.
    intros P0 P1 Hn HA. unfold AllPos, tris2 in *.
    apply (Permutation_Forall (Permutation_sym (Permutation_map (t2 o e1 e2) P1))).
    apply (Permutation_Forall (Permutation_map (t2 o e1 e2) P0)) in HA. rewrite map_app in *. apply Forall_app in HA. destruct HA as [HA1 HA2].
    apply Forall_app. split; [apply Hn; exact HA1 | exact HA2].
  Qed.
  (** split_triangle at a point strictly inside the triangle *)
  Theorem pos_mesh_split_triangle (i : nat) (p : VR) (M M' : Mesh R) :
    (forall t, nth_error (tris M) i = Some t -> inside_tri (pr (ta (tp_tri t))) (pr (tb (tp_tri t))) (pr (tc (tp_tri t))) (pr p)) ->
    split_triangle i p M = (M', Ok tt) -> AllPos M -> AllPos M'.
  Proof.
    intros Hin H. destruct (live_split_triangle i p M M' H) as (t & T1 & T2 & T3 & rest & Et & _ & E1 & E2 & E3 & P0 & P1).
    apply (pos_replace M M' [tp_tri t] [T1; T2; T3] rest P0 P1). cbn [map]. intros Ho. inversion Ho as [|x l Hp _]; subst.
    rewrite (t2_new _ _ _ _ _ _ _ E1), (t2_new _ _ _ _ _ _ _ E2), (t2_new _ _ _ _ _ _ _ E3).
    destruct (pos_split_triangle _ _ _ _ Hp (Hin t Et)) as (A & B & C). repeat constructor; assumption.
  Qed.
  (** split_edge at a point strictly inside the edge *)
  Theorem pos_mesh_split_edge (i : nat) (e : Edge) (p : VR) (M M' : Mesh R) :
    split_edge_ok between M i e p -> split_edge i e p M = (M', Ok tt) -> AllPos M -> AllPos M'.
  Proof.
    intros Hok H. destruct (live_split_edge i e p M M' H) as (t & sg & a & b & c & TA & TB & Et & Ev & Es & HV & EA & EB & Hn).
    destruct (Hok t sg Et Ev Es) as [H1 H2]. destruct (H1 a b c HV) as [Hr Hl].
    assert (Hh : forall (T TA TB : Tri R) a b c, rot3 (tri_pts T) (a, b, c) -> between p a b -> tri_new a p c = Ok TA -> tri_new p b c = Ok TB ->
                 pos3 (t2 o e1 e2 T) -> pos3 (t2 o e1 e2 TA) /\ pos3 (t2 o e1 e2 TB)).
    { intros T UA UB x y z Hrot (s & Hs & Hp) EUA EUB HT. rewrite (t2_new _ _ _ _ _ _ _ EUA), (t2_new _ _ _ _ _ _ _ EUB).
      apply (pos3_rot3 _ _ (rot3_t2 o e1 e2 _ _ _ _ Hrot)) in HT. unfold pos3 in *. cbn [fst snd] in *.
      rewrite Hp, pr_lerp. apply pos_split_edge; assumption. }
    destruct (tp_neighbour t e) as [ni|].
    - destruct (H2 ni eq_refl) as (Hne & nb & Enb & Evn & H3).
      destruct (Hn nb Hne Enb Evn) as (a' & b' & c' & TA' & TB' & rest & HV' & EA' & EB' & P0 & P1).
      destruct (H3 a' b' c' HV') as [Hr' Hl'].
      apply (pos_replace M M' [tp_tri t; tp_tri nb] [TA; TB; TA'; TB'] rest P0 P1). cbn [map]. intros Ho.
      inversion Ho as [|x l Hp Ho']; subst. inversion Ho' as [|x l Hp' _]; subst.
      destruct (Hh _ _ _ _ _ _ Hr Hl EA EB Hp). destruct (Hh _ _ _ _ _ _ Hr' Hl' EA' EB' Hp'). repeat constructor; assumption.
    - destruct Hn as (rest & P0 & P1). apply (pos_replace M M' [tp_tri t] [TA; TB] rest P0 P1). cbn [map]. intros Ho.
      inversion Ho as [|x l Hp _]; subst. destruct (Hh _ _ _ _ _ _ Hr Hl EA EB Hp). repeat constructor; assumption.
  Qed.
  (** flip across a strictly convex quadrilateral a, opp, b, c (in the plane coordinates: the turns at opp, b (second
      triangle) and a have the sign of the triangle -- the 2-D reading of the four cross products of [is_convex]) *)
  Definition flip_convex (M : Mesh R) (i : nat) (e : Edge) : Prop :=
    forall t ni nb a b c op, nth_error (tris M) i = Some t -> tp_neighbour t e = Some ni -> nth_error (tris M) ni = Some nb ->
      flip_verts (tp_tri t) (tp_tri nb) e = Ok (a, b, c, op) ->
      0 < orient (pr a) (pr op) (pr b) /\ 0 < orient (pr op) (pr b) (pr c) /\ 0 < orient (pr c) (pr a) (pr op).
  Theorem pos_mesh_flip (i : nat) (e : Edge) (M M' : Mesh R) :
    flip_shared M i e -> flip_convex M i e -> flip_diagonal i e M = (M', Ok tt) -> AllPos M -> AllPos M'.
  Proof.
    intros Hs Hc H. destruct (live_flip i e M M' H) as (t & ni & nb & a & b & c & op & T1 & T2 & rest & Et & Ev & En & Enb & Evn & FV & E1 & E2 & P).
    destruct (Hs t ni nb a b c op Et Ev En Enb Evn FV) as [Hne Hrot]. destruct (P Hne) as [P0 P1].
    destruct (Hc t ni nb a b c op Et En Enb FV) as (C1 & C2 & C3).
    apply (pos_replace M M' [tp_tri t; tp_tri nb] [T1; T2] rest P0 P1). cbn [map]. intros Ho. inversion Ho as [|x l Hp _]; subst.
    apply (pos3_rot3 _ _ (rot3_t2 o e1 e2 _ _ _ _ (flip_verts_rot _ _ _ _ _ _ _ FV))) in Hp. unfold pos3 in Hp. cbn [fst snd] in Hp.
    rewrite (t2_new _ _ _ _ _ _ _ E1), (t2_new _ _ _ _ _ _ _ E2).
    destruct (pos_flip _ _ _ _ Hp C1 C2 C3). repeat constructor; assumption.
  Qed.
End Orientation.

(** ** the model's [is_convex] (the test [get_flipped_aspect_ratio] -- hence [restore_delaunay] -- applies before it proposes a
    flip) read in the plane coordinates: for four points of the plane o + u e1 + v e2 of an orthonormal frame, the four
    cross products "same direction" means the four turns of the quadrilateral have the same strict sign *)
Section ConvexBridge.
  Local Open Scope R_scope.
  Notation VR := (V3 R).
  Variables o e1 e2 : V3 R.
  Notation pr := (C05_pointtest.plane2 o e1 e2).
  Hypothesis E11 : vdot e1 e1 = 1.
  Hypothesis E22 : vdot e2 e2 = 1.
  Hypothesis E12 : vdot e1 e2 = 0.
  Definition emb (u v : R) : VR := vadd o (vadd (vscale e1 u) (vscale e2 v)).
  Definition in_plane (p : VR) : Prop := exists u v : R, p = emb u v.
  Lemma pr_emb (u v : R) : pr (emb u v) = (u, v).
  Proof.
    pose proof E11 as H1. pose proof E22 as H2. pose proof E12 as H3.
    unfold C05_pointtest.plane2, emb, vdot, vsub, vadd, vscale in *. cbn [vx vy vz] in *. rnum. f_equal.
    - transitivity (u * (vx e1 * vx e1 + vy e1 * vy e1 + vz e1 * vz e1) + v * (vx e1 * vx e2 + vy e1 * vy e2 + vz e1 * vz e2)); [ring | rewrite H1, H3; ring].
    - transitivity (u * (vx e1 * vx e2 + vy e1 * vy e2 + vz e1 * vz e2) + v * (vx e2 * vx e2 + vy e2 * vy e2 + vz e2 * vz e2)); [ring | rewrite H2, H3; ring].
  Qed.
  Lemma cross_dot_emb (u1 v1 u2 v2 u3 v3 u1' v1' u2' v2' u3' v3' : R) :
    vdot (vcross (vsub (emb u2 v2) (emb u1 v1)) (vsub (emb u3 v3) (emb u2 v2)))
         (vcross (vsub (emb u2' v2') (emb u1' v1')) (vsub (emb u3' v3') (emb u2' v2'))) =
    orient (u1, v1) (u2, v2) (u3, v3) * orient (u1', v1') (u2', v2') (u3', v3') * vdot (vcross e1 e2) (vcross e1 e2).
  Proof. unfold emb, vdot, vcross, vsub, vadd, vscale, orient. cbn [vx vy vz fst snd]. rnum. ring. Qed.
  Lemma frame_unit : vdot (vcross e1 e2) (vcross e1 e2) = 1.
  Proof.
    pose proof E11 as H1. pose proof E22 as H2. pose proof E12 as H3. unfold vdot, vcross in *. cbn [vx vy vz] in *. rnum.
    transitivity ((vx e1 * vx e1 + vy e1 * vy e1 + vz e1 * vz e1) * (vx e2 * vx e2 + vy e2 * vy e2 + vz e2 * vz e2)
                  - (vx e1 * vx e2 + vy e1 * vy e2 + vz e1 * vz e2) * (vx e1 * vx e2 + vy e1 * vy e2 + vz e1 * vz e2)); [ring | rewrite H1, H2, H3; ring].
  Qed.
  Lemma same_direction_dot (a v : VR) : vis_same_direction a v = true -> 0 < vdot a v.
  Proof. unfold vis_same_direction. destruct (negb (vis_parallel a v)); [discriminate|]. rnum. intros H. apply Rltb_true in H. exact H. Qed.
  Theorem is_convex_2d (a b c d : VR) :
    in_plane a -> in_plane b -> in_plane c -> in_plane d -> is_convex a b c d = true ->
    0 < orient (pr a) (pr b) (pr c) * orient (pr b) (pr c) (pr d) /\
    0 < orient (pr a) (pr b) (pr c) * orient (pr c) (pr d) (pr a) /\
    0 < orient (pr a) (pr b) (pr c) * orient (pr d) (pr a) (pr b).
  Proof.
    intros (ua & va & ->) (ub & vb & ->) (uc & vc & ->) (ud & vd & ->) H. rewrite !pr_emb.
    unfold is_convex, is_convex_tag in H.
    destruct (vis_zero _); [discriminate|]. destruct (vis_zero _); [discriminate|].
    destruct (vis_same_direction _ _) eqn:S1; cbn [negb] in H; [|discriminate].
    destruct (vis_zero _); [discriminate|].
    destruct (vis_same_direction _ _) eqn:S2 in H; cbn [negb] in H; [|discriminate].
    destruct (vis_zero _); [discriminate|].
    destruct (vis_same_direction _ _) eqn:S3 in H; cbn [negb] in H; [|discriminate].
    apply same_direction_dot in S1. apply same_direction_dot in S2. apply same_direction_dot in S3.
    rewrite cross_dot_emb, frame_unit in S1, S2, S3. repeat split; lra.
  Qed.
  (** hence: the quadrilateral (a, opp, b, c) that [is_convex] accepts, with (a,b,c) positively oriented, is the
      hypothesis of [pos_flip] / [flip_convex] *)
  Corollary is_convex_flip_convex (a op b c : VR) :
    in_plane a -> in_plane op -> in_plane b -> in_plane c -> is_convex a op b c = true -> 0 < orient (pr a) (pr b) (pr c) ->
    0 < orient (pr a) (pr op) (pr b) /\ 0 < orient (pr op) (pr b) (pr c) /\ 0 < orient (pr c) (pr a) (pr op).
  Proof.
    intros Ha Ho Hb Hc H Hp. destruct (is_convex_2d a op b c Ha Ho Hb Hc H) as (H1 & H2 & H3).
    rewrite (orient_rot (pr a) (pr b) (pr c)) in H2. (* orient b c a = orient a b c *)
    assert (P1 : 0 < orient (pr a) (pr op) (pr b)) by nra. repeat split; [exact P1 | nra | nra].
  Qed.
End ConvexBridge.
