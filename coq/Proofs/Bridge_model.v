(** * Bridge_model: every model function the float-tier theorems speak about commutes with a [Num] homomorphism.
    Generic over [NumHom N1 N2 h] (Theory/PrimBridge.v); instantiated at [P2B : NumF -> NumB64] by the [Bridge_C*]
    files: the primitive-float run of a model function IS its Flocq binary64 run. *)
From Coq Require Import ZArith Bool List.
From G3 Require Import Model.Num Model.Base Model.Vec Model.BBox Model.Transform Theory.PrimBridge.

Section Model.
  Context {K1 K2 : Type} {N1 : Num K1} {N2 : Num K2} (h : K1 -> K2) {H : NumHom N1 N2 h}.
  Notation mV := (mapV3 h).
  Notation mR := (mapRay h).
  Notation mB := (mapBBox h).
  Notation mM := (mapM4 h).
  Notation mT := (mapTr h).

  (** ** Model/Vec.v *)
  Lemma hom_vadd (a b : V3 K1) : vadd (mV a) (mV b) = mV (vadd a b).
  Proof. unfold vadd. bridge h. Qed.
  Lemma hom_vsub (a b : V3 K1) : vsub (mV a) (mV b) = mV (vsub a b).
  Proof. unfold vsub. bridge h. Qed.
  Lemma hom_vneg (a : V3 K1) : vneg (mV a) = mV (vneg a).
  Proof. unfold vneg. bridge h. Qed.
  Lemma hom_vscale (a : V3 K1) (s : K1) : vscale (mV a) (h s) = mV (vscale a s).
  Proof. unfold vscale. bridge h. Qed.
  Lemma hom_vdivs (a : V3 K1) (s : K1) : vdivs (mV a) (h s) = mV (vdivs a s).
  Proof. unfold vdivs. bridge h. Qed.
  Lemma hom_vdot (a b : V3 K1) : vdot (mV a) (mV b) = h (vdot a b).
  Proof. unfold vdot. bridge h. Qed.
  Lemma hom_vabs (a : V3 K1) : vabs (mV a) = mV (vabs a).
  Proof. unfold vabs. bridge h. Qed.
  Lemma hom_vcross (a b : V3 K1) : vcross (mV a) (mV b) = mV (vcross a b).
  Proof. unfold vcross. bridge h. Qed.
  Lemma hom_vlen2 (a : V3 K1) : vlen2 (mV a) = h (vlen2 a).
  Proof. unfold vlen2. bridge h. Qed.
  Lemma hom_vlen (a : V3 K1) : vlen (mV a) = h (vlen a).
  Proof. unfold vlen. rewrite hom_vlen2. bridge h. Qed.
  Lemma hom_vnormalize (a : V3 K1) : vnormalize (mV a) = mV (vnormalize a).
  Proof. unfold vnormalize. cbv zeta. rewrite hom_vlen. bridge h. Qed.
  Lemma hom_psqdist (a b : V3 K1) : psqdist (mV a) (mV b) = h (psqdist a b).
  Proof. unfold psqdist. bridge h. Qed.
  Lemma hom_ray_project (r : Ray K1) (t : K1) : ray_project (mR r) (h t) = mV (ray_project r t).
  Proof. unfold ray_project, vadd, vscale. bridge h. Qed.
  Lemma hom_ray_advance (r : Ray K1) (t : K1) : ray_advance (mR r) (h t) = mR (ray_advance r t).
  Proof. unfold ray_advance, vadd, vscale. bridge h. Qed.

  (** ** Model/BBox.v *)
  Lemma hom_get_mins_maxs (x1 y1 z1 x2 y2 z2 : K1) :
    get_mins_maxs (h x1) (h y1) (h z1) (h x2) (h y2) (h z2) = mapP mV mV (get_mins_maxs x1 y1 z1 x2 y2 z2).
  Proof. unfold get_mins_maxs. bridge h. Qed.
  Lemma hom_mm (a b : V3 K1) : mm (mV a) (mV b) = mapP mV mV (mm a b).
  Proof. unfold mm. cbn [mapV3 vx vy vz]. apply hom_get_mins_maxs. Qed.
  Lemma hom_bbox_new (a b : V3 K1) : bbox_new (mV a) (mV b) = mB (bbox_new a b).
  Proof. unfold bbox_new. rewrite hom_mm. destruct (mm a b). reflexivity. Qed.
  Lemma hom_bbox_from_point (p : V3 K1) : bbox_from_point (mV p) = mB (bbox_from_point p).
  Proof. reflexivity. Qed.
  Lemma hom_bbox_from_union_point (b : BBox K1) (p : V3 K1) :
    bbox_from_union_point (mB b) (mV p) = mB (bbox_from_union_point b p).
  Proof. unfold bbox_from_union_point. cbn [mapBBox bmin bmax]. rewrite !hom_mm. reflexivity. Qed.
  Lemma hom_bbox_from_union (a b : BBox K1) : bbox_from_union (mB a) (mB b) = mB (bbox_from_union a b).
  Proof. unfold bbox_from_union. cbn [mapBBox bmin bmax]. rewrite !hom_mm. reflexivity. Qed.
  Lemma hom_bbox_from_intersection (a b : BBox K1) : bbox_from_intersection (mB a) (mB b) = mB (bbox_from_intersection a b).
  Proof. unfold bbox_from_intersection. cbn [mapBBox bmin bmax]. rewrite !hom_mm. reflexivity. Qed.
  Lemma hom_bbox_overlaps (a b : BBox K1) : bbox_overlaps (mB a) (mB b) = bbox_overlaps a b.
  Proof. unfold bbox_overlaps. hom_norm. hom_pull h. reflexivity. Qed.
  Lemma hom_bbox_point_inside (b : BBox K1) (p : V3 K1) : bbox_point_inside (mB b) (mV p) = bbox_point_inside b p.
  Proof. unfold bbox_point_inside. hom_norm. hom_pull h. reflexivity. Qed.
  Lemma hom_bbox_point_inside_exclusive (b : BBox K1) (p : V3 K1) :
    bbox_point_inside_exclusive (mB b) (mV p) = bbox_point_inside_exclusive b p.
  Proof. unfold bbox_point_inside_exclusive. hom_norm. hom_pull h. reflexivity. Qed.
  Lemma hom_bbox_max_extent (b : BBox K1) : bbox_max_extent (mB b) = bbox_max_extent b.
  Proof. unfold bbox_max_extent, vsub. hom_norm. hom_pull h. reflexivity. Qed.
  Lemma hom_bbox_surface_area (b : BBox K1) : bbox_surface_area (mB b) = h (bbox_surface_area b).
  Proof. unfold bbox_surface_area, vsub. bridge h. Qed.

  (** [BBox3D::intersect]: the same answer AND the same path tag *)
  Lemma hom_bbox_intersect_tag (b : BBox K1) (r : Ray K1) (i : V3 K1) :
    bbox_intersect_tag (mB b) (mR r) (mV i) = bbox_intersect_tag b r i.
  Proof. unfold bbox_intersect_tag. bridge h. Qed.
  Lemma hom_bbox_intersect (b : BBox K1) (r : Ray K1) (i : V3 K1) :
    bbox_intersect (mB b) (mR r) (mV i) = bbox_intersect b r i.
  Proof. unfold bbox_intersect. rewrite hom_bbox_intersect_tag. reflexivity. Qed.
  (** ** Model/Transform.v *)
  Lemma hom_mul4x4point (m : M4 K1) (p : V3 K1) : mul4x4point (mM m) (mV p) = mV (mul4x4point m p).
  Proof. unfold mul4x4point, vdivs. bridge h. Qed.
  Lemma hom_mul4x4point_debug_ok (m : M4 K1) (p : V3 K1) : mul4x4point_debug_ok (mM m) (mV p) = mul4x4point_debug_ok m p.
  Proof. unfold mul4x4point_debug_ok. bridge h. Qed.
  Lemma hom_mul4x4vec (m : M4 K1) (v : V3 K1) : mul4x4vec (mM m) (mV v) = mV (mul4x4vec m v).
  Proof. unfold mul4x4vec. bridge h. Qed.
  Lemma hom_mul4x4_abs (m : M4 K1) (x y z : K1) : mul4x4_abs (mM m) (h x) (h y) (h z) = mV (mul4x4_abs m x y z).
  Proof. unfold mul4x4_abs. bridge h. Qed.
  Lemma hom_mul3x3_abs (m : M4 K1) (x y z : K1) : mul3x3_abs (mM m) (h x) (h y) (h z) = mV (mul3x3_abs m x y z).
  Proof. unfold mul3x3_abs. bridge h. Qed.
  Lemma hom_mul4x4 (a b : M4 K1) : mul4x4 (mM a) (mM b) = mM (mul4x4 a b).
  Proof. unfold mul4x4. bridge h. Qed.
  Lemma hom_tr_mul_assign (a b : Tr K1) : tr_mul_assign (mT a) (mT b) = mT (tr_mul_assign a b).
  Proof. unfold tr_mul_assign. cbn [mapTr elements inv_elements]. rewrite !hom_mul4x4. reflexivity. Qed.
  Lemma hom_m4_id : @m4_id K2 N2 = mM m4_id.
  Proof. unfold m4_id. bridge h. Qed.
  Lemma hom_tr_new : @tr_new K2 N2 = mT tr_new.
  Proof. unfold tr_new, mapTr. cbn [elements inv_elements]. rewrite hom_m4_id. reflexivity. Qed.
  Lemma hom_tr_translate (x y z : K1) : tr_translate (h x) (h y) (h z) = mT (tr_translate x y z).
  Proof. unfold tr_translate. bridge h. Qed.
  Lemma hom_tr_scale (x y z : K1) : tr_scale (h x) (h y) (h z) = mT (tr_scale x y z).
  Proof. unfold tr_scale. bridge h. Qed.
  Lemma hom_tr_rotate_x_sc (s c : K1) : tr_rotate_x_sc (h s) (h c) = mT (tr_rotate_x_sc s c).
  Proof. unfold tr_rotate_x_sc. bridge h. Qed.
  Lemma hom_tr_rotate_y_sc (s c : K1) : tr_rotate_y_sc (h s) (h c) = mT (tr_rotate_y_sc s c).
  Proof. unfold tr_rotate_y_sc. bridge h. Qed.
  Lemma hom_tr_rotate_z_sc (s c : K1) : tr_rotate_z_sc (h s) (h c) = mT (tr_rotate_z_sc s c).
  Proof. unfold tr_rotate_z_sc. bridge h. Qed.
  Lemma hom_det3 (m : M4 K1) : det3 (mM m) = h (det3 m).
  Proof. unfold det3. bridge h. Qed.
  Lemma hom_tr_changes_hands (t : Tr K1) : tr_changes_hands (mT t) = tr_changes_hands t.
  Proof. unfold tr_changes_hands. cbn [mapTr elements]. rewrite hom_det3. bridge h. Qed.

  Lemma hom_tr_pt (t : Tr K1) (p : V3 K1) : tr_pt (mT t) (mV p) = mV (tr_pt t p).
  Proof. apply hom_mul4x4point. Qed.
  Lemma hom_tr_inv_pt (t : Tr K1) (p : V3 K1) : tr_inv_pt (mT t) (mV p) = mV (tr_inv_pt t p).
  Proof. apply hom_mul4x4point. Qed.
  Lemma hom_tr_vec (t : Tr K1) (v : V3 K1) : tr_vec (mT t) (mV v) = mV (tr_vec t v).
  Proof. apply hom_mul4x4vec. Qed.
  Lemma hom_tr_inv_vec (t : Tr K1) (v : V3 K1) : tr_inv_vec (mT t) (mV v) = mV (tr_inv_vec t v).
  Proof. apply hom_mul4x4vec. Qed.

  (** the four [*_with_error] / [*_propagate_error] families: value AND reported error *)
  Lemma hom_pt_with_error (m : M4 K1) (p : V3 K1) : pt_with_error (mM m) (mV p) = mapP mV mV (pt_with_error m p).
  Proof.
    unfold pt_with_error, mapP. cbn [fst snd]. rewrite hom_mul4x4point. f_equal.
    cbn [mapV3 vx vy vz]. rewrite hom_mul4x4_abs. rewrite (hom_ngamma h 4 eq_refl). apply hom_vscale.
  Qed.
  Lemma hom_vec_with_error (m : M4 K1) (v : V3 K1) : vec_with_error (mM m) (mV v) = mapP mV mV (vec_with_error m v).
  Proof.
    unfold vec_with_error, mapP. cbn [fst snd]. rewrite hom_mul4x4vec. f_equal.
    cbn [mapV3 vx vy vz]. rewrite hom_mul3x3_abs. rewrite (hom_ngamma h 3 eq_refl). apply hom_vscale.
  Qed.
  Lemma hom_err1 (m : M4 K1) (e : V3 K1) :
    vscale (mul3x3_abs (mM m) (vx (mV e)) (vy (mV e)) (vz (mV e))) (n1 + ngamma 3)%num =
    mV (vscale (mul3x3_abs m (vx e) (vy e) (vz e)) (n1 + ngamma 3)%num).
  Proof.
    cbn [mapV3 vx vy vz]. rewrite hom_mul3x3_abs. rewrite (hom_ngamma h 3 eq_refl), (hom_n1 h), hom_add. apply hom_vscale.
  Qed.
  Lemma hom_pt_propagate_error (m : M4 K1) (p e : V3 K1) :
    pt_propagate_error (mM m) (mV p) (mV e) = mapP mV mV (pt_propagate_error m p e).
  Proof.
    unfold pt_propagate_error. rewrite hom_pt_with_error. destruct (pt_with_error m p) as [ret err2].
    unfold mapP. cbn [fst snd]. f_equal. rewrite hom_err1. apply hom_vadd.
  Qed.
  Lemma hom_vec_propagate_error (m : M4 K1) (v e : V3 K1) :
    vec_propagate_error (mM m) (mV v) (mV e) = mapP mV mV (vec_propagate_error m v e).
  Proof.
    unfold vec_propagate_error. rewrite hom_vec_with_error. destruct (vec_with_error m v) as [ret err2].
    unfold mapP. cbn [fst snd]. f_equal. rewrite hom_err1. apply hom_vadd.
  Qed.
  Lemma hom_normal_by (m : M4 K1) (v : V3 K1) : normal_by (mM m) (mV v) = mV (normal_by m v).
  Proof. unfold normal_by. bridge h. Qed.
  Lemma hom_tr_normal (t : Tr K1) (v : V3 K1) : tr_normal (mT t) (mV v) = mV (tr_normal t v).
  Proof. apply hom_normal_by. Qed.
  Lemma hom_tr_inv_normal (t : Tr K1) (v : V3 K1) : tr_inv_normal (mT t) (mV v) = mV (tr_inv_normal t v).
  Proof. apply hom_normal_by. Qed.

  (** rays: the nudged origin, the direction and both reported errors *)
  Definition mapRayRes (x : Ray K1 * V3 K1 * V3 K1) : Ray K2 * V3 K2 * V3 K2 :=
    let '(r, oe, de) := x in (mR r, mV oe, mV de).
  Lemma hom_nudge (o d e : V3 K1) : nudge (mV o) (mV d) (mV e) = mV (nudge o d e).
  Proof.
    unfold nudge. cbv zeta. rewrite hom_vlen2, hom_vabs, hom_vdot, (hom_n0 h), hom_ltb, hom_div.
    destruct (nltb n0 (vlen2 d)); [|reflexivity]. rewrite hom_vscale. apply hom_vadd.
  Qed.
  Lemma hom_ray_by (m : M4 K1) (r : Ray K1) : ray_by (mM m) (mR r) = mapRayRes (ray_by m r).
  Proof.
    unfold ray_by. cbn [mapRay rorigin rdir]. rewrite hom_pt_with_error, hom_vec_with_error.
    destruct (pt_with_error m (rorigin r)) as [o oe]. destruct (vec_with_error m (rdir r)) as [d de].
    unfold mapP, mapRayRes, mapRay. cbn [fst snd rorigin rdir]. rewrite hom_nudge. reflexivity.
  Qed.
  Lemma hom_ray_propagate_by (m : M4 K1) (r : Ray K1) (oe de : V3 K1) :
    ray_propagate_by (mM m) (mR r) (mV oe) (mV de) = mapRayRes (ray_propagate_by m r oe de).
  Proof.
    unfold ray_propagate_by. cbn [mapRay rorigin rdir]. rewrite hom_pt_propagate_error, hom_vec_propagate_error.
    destruct (pt_propagate_error m (rorigin r) oe) as [o oe']. destruct (vec_propagate_error m (rdir r) de) as [d de'].
    unfold mapP, mapRayRes, mapRay. cbn [fst snd rorigin rdir]. rewrite hom_nudge. reflexivity.
  Qed.
  Lemma hom_tr_ray (t : Tr K1) (r : Ray K1) : tr_ray (mT t) (mR r) = mapRayRes (tr_ray t r).
  Proof. apply hom_ray_by. Qed.
  Lemma hom_tr_inv_ray (t : Tr K1) (r : Ray K1) : tr_inv_ray (mT t) (mR r) = mapRayRes (tr_inv_ray t r).
  Proof. apply hom_ray_by. Qed.
  Lemma hom_tr_ray_propagate (t : Tr K1) (r : Ray K1) (oe de : V3 K1) :
    tr_ray_propagate (mT t) (mR r) (mV oe) (mV de) = mapRayRes (tr_ray_propagate t r oe de).
  Proof. apply hom_ray_propagate_by. Qed.
  Lemma hom_tr_inv_ray_propagate (t : Tr K1) (r : Ray K1) (oe de : V3 K1) :
    tr_inv_ray_propagate (mT t) (mR r) (mV oe) (mV de) = mapRayRes (tr_inv_ray_propagate t r oe de).
  Proof. apply hom_ray_propagate_by. Qed.

  (** boxes *)
  Lemma hom_bbox_by (m : M4 K1) (b : BBox K1) : bbox_by (mM m) (mB b) = mB (bbox_by m b).
  Proof.
    unfold bbox_by. cbv zeta. cbn [mapBBox bmin bmax mapV3 vx vy vz].
    repeat match goal with |- context [mul4x4point (mM m) (mkV3 (h ?a) (h ?b) (h ?c))] =>
      change (mkV3 (h a) (h b) (h c)) with (mV (mkV3 a b c)); rewrite (hom_mul4x4point m (mkV3 a b c)) end.
    rewrite hom_bbox_from_point. rewrite !hom_bbox_from_union_point. reflexivity.
  Qed.
  Lemma hom_bbox_by_debug_ok (m : M4 K1) (b : BBox K1) : bbox_by_debug_ok (mM m) (mB b) = bbox_by_debug_ok m b.
  Proof.
    unfold bbox_by_debug_ok. cbv zeta. cbn [mapBBox bmin bmax mapV3 vx vy vz].
    repeat match goal with |- context [mul4x4point_debug_ok (mM m) (mkV3 (h ?a) (h ?b) (h ?c))] =>
      change (mkV3 (h a) (h b) (h c)) with (mV (mkV3 a b c)); rewrite (hom_mul4x4point_debug_ok m (mkV3 a b c)) end.
    reflexivity.
  Qed.
  Lemma hom_tr_bbox (t : Tr K1) (b : BBox K1) : tr_bbox (mT t) (mB b) = mB (tr_bbox t b).
  Proof. apply hom_bbox_by. Qed.
  Lemma hom_tr_inv_bbox (t : Tr K1) (b : BBox K1) : tr_inv_bbox (mT t) (mB b) = mB (tr_inv_bbox t b).
  Proof. apply hom_bbox_by. Qed.
End Model.
