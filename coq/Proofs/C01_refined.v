(** * C01 for REFINED meshes (reals): the live triangles returned by [mesh_polygon] tile the polygon's region exactly.

    Composition of
    - Proofs/Mesh_links_init.v: the initial mesh M0 of a sanitize-stable run on a Jordan outline with separated, coplanar vertices
      satisfies INV (WF, CNT, exact links, vertices in the plane, every triangle counter-clockwise);
    - Proofs/Mesh_refine_region.v: from INV, along the trace of elementary steps of [refine] (side conditions [side] at every step)
      INV is kept, the doubled signed area of the live triangles is kept, and -- when the ray from q avoids every inserted point --
      the coverage [mesh_cover d . q] (sum of the live triangles' winding numbers) is kept;
    - Proofs/C01_tiling.v: for M0 (all of whose slots are live: [from_polygon_all_valid]) the coverage IS the winding number of the
      closed merged outline (for every ray and point: [ears_winding_identity]) and the area is its shoelace area;
    - Proofs/C01_polygon.v / C12_region.v: merged outline = outer outline minus the holes (winding number, area, stored area).
    The two notions of coverage are reconciled by [cover_count_segs]: for counter-clockwise triangles, a ray generic for each
    triangle's corners and q on no (closed) edge of a triangle, [cover d Ts q] = [count_inside Ts q] (C08's
    [cover_counts_inside] with [off_segs] instead of [off_lines], so that the hypothesis on q is the one C01 uses).
    "q generic" is asked of the RETURNED triangles only (ray through none of their corners, q on none of their edges) and of the
    refinement trace (ray through no inserted point); it is NOT asked of the input polygon: the winding identity of M0 holds for
    every ray. *)
From Coq Require Import ZArith Reals Lra Lia Bool List Arith Psatz.
From G3 Require Import Model.Num Model.Base Model.Vec Model.Segment Model.Triangle Model.Loop Model.Polygon Model.PolyAux Model.Triangulation
  Theory.RInst Theory.Cyclic Theory.Winding
  Proofs.Mesh_base Proofs.Mesh_wf Proofs.Mesh_conf Proofs.Mesh_region Proofs.Mesh_atomic Proofs.Mesh_fp Proofs.Mesh_init Proofs.Mesh_refine
  Proofs.Mesh_links Proofs.Mesh_links_steps Proofs.Mesh_links_region Proofs.Mesh_refine_trace Proofs.Mesh_refine_region
  Proofs.C05_pointtest Proofs.C12_region Proofs.C01_tiling Proofs.C01_polygon Proofs.Mesh_links_init.
From G3 Require Theory.Shoelace.
Import ListNotations.

(* ------------------------------------------------------------------------------------------------------------ *)
(** * every number instance: all slots of the initial mesh are live; on RDone all slots of the refined mesh are  *)
Section AllLive.
  Context {K : Type} {NK : Num K}.
  Notation Mesh := (Mesh K).
  Definition AllValid (M : Mesh) : Prop := forall t, In t (tris M) -> tp_valid t = true.
  Lemma AllValid_skel (M M' : Mesh) : skel (tris M') = skel (tris M) -> AllValid M -> AllValid M'.
  Proof.
    intros Hs H t Hin. assert (A : In (tp_tri t, tp_valid t) (skel (tris M'))) by (unfold skel; apply (in_map (fun t => (tp_tri t, tp_valid t))); exact Hin).
    rewrite Hs in A. unfold skel in A. apply in_map_iff in A. destruct A as (u & Eu & Hu). pose proof (H u Hu) as Vu. injection Eu as E1 E2. congruence.
  Qed.
  Lemma AllValid_push a b c la (M M' : Mesh) n : mesh_push a b c la M = (M', Ok n) -> AllValid M -> AllValid M'.
  Proof.
    intros H HA t Hin. destruct (push_slot _ _ _ _ _ _ _ H) as (_ & (t' & Et' & Vt') & _ & _ & Hold & _).
    apply In_nth_error in Hin. destruct Hin as [j Ej]. destruct (Nat.eq_dec j n) as [->|Hj].
    - rewrite Et' in Ej. inversion Ej; subst. exact Vt'.
    - apply HA. eapply nth_error_In. exact (Hold j t Hj Ej).
  Qed.
  Theorem from_polygon_all_valid (P : Poly K) (M : Mesh) : from_polygon P = Ok M -> AllValid M.
  Proof.
    intros H. destruct (from_polygon_reach AllValid P M AllValid_push) as (t & At & Hm).
    - intros M1 M2 [Hs _]. apply AllValid_skel. exact Hs.
    - intros t [].
    - exact H.
    - apply (AllValid_skel t M (sk_neighbourhouds _ _ _ Hm)). exact At.
  Qed.
  Lemma AllValid_live (M : Mesh) : AllValid M -> live_tris M = get_trilist M.
  Proof.
    unfold AllValid, live_tris, live_l, get_trilist. induction (tris M) as [|t l IH]; intros H; [reflexivity|]. cbn [filter].
    rewrite (H t (or_introl eq_refl)). cbn [map]. f_equal. apply IH. intros u Hu. apply H. right. exact Hu.
  Qed.
  (** what the user receives ([get_trilist]) is exactly the list of live triangles: initially, and after a refinement that ran to
      completion (C18: every slot is live on RDone) *)
  Theorem from_polygon_live_reported (P : Poly K) (M : Mesh) : from_polygon P = Ok M -> live_tris M = get_trilist M.
  Proof. intros H. apply AllValid_live. exact (from_polygon_all_valid P M H). Qed.
  Theorem mesh_polygon_live_reported (fuel : nat) (P : Poly K) (amax mar : K) (M : Mesh) :
    mesh_polygon fuel P amax mar = Ok (M, RDone) -> live_tris M = get_trilist M.
  Proof.
    intros H. unfold mesh_polygon in H. destruct (from_polygon P) as [M0| |]; cbn [rbind] in H; try discriminate.
    destruct (refine fuel amax mar M0) as [M1 r1] eqn:E. destruct r1 as [x| |]; cbn [rbind] in H; try discriminate. inversion H; subst.
    apply AllValid_live. intros t Ht. pose proof (refine_ok_all_valid _ _ _ _ _ E) as F. rewrite forallb_forall in F. apply F. exact Ht.
  Qed.
  (** [tr_ok] is monotone in the side condition *)
  Lemma tr_ok_mono (s1 s2 : Mesh -> mop K -> Prop) : (forall M op, s1 M op -> s2 M op) ->
    forall (tr : list (tev K)) (M : Mesh), tr_ok s1 M tr -> tr_ok s2 M tr.
  Proof.
    intros Hs. induction tr as [|[op|p] tr IH]; intros M H; cbn [tr_ok] in *; [exact I | destruct H as [A B]; split; [apply Hs; exact A | apply IH; exact B] | apply IH; exact H].
  Qed.
End AllLive.

(* ------------------------------------------------------------------------------------------------------------ *)
(** * the two notions of coverage                                                                                *)
Local Open Scope R_scope.
Notation PP := Winding.P2.
Notation T2 := (PP * PP * PP)%type.

Lemma cover_count_segs (d q : PP) (Ts : list T2) :
  (forall a b c, In (a, b, c) Ts -> 0 < orient a b c /\ generic d q [a; b; c] /\ off_segs a b c q) ->
  cover d Ts q = Z.of_nat (count_inside Ts q).
Proof.
  intros H. unfold cover. rewrite <- tsum_index_count by (intros a b c Hin; apply (H a b c Hin)).
  apply tsum_ext_in. intros a b c Hin. destruct (H a b c Hin) as (_ & Hg & Hoff). apply wn_triangle_index_seg; [exact Hg | intros _; exact Hoff].
Qed.
Lemma sum_abs_area_pos (Ts : list T2) : (forall a b c, In (a, b, c) Ts -> 0 < orient a b c) ->
  tsum 0 Rplus (fun a b c => Rabs (Shoelace.area2 [a; b; c])) Ts = / 2 * area2sum Ts.
Proof.
  induction Ts as [|[[a b] c] Ts IH]; intros H; [unfold area2sum, tsum; cbn [fold_right]; ring|].
  rewrite tsum_cons, area2sum_cons, IH by (intros; apply H; right; assumption).
  pose proof (H a b c (or_introl eq_refl)) as Hp. rewrite Shoelace.area2_tri, Rabs_right by lra. ring.
Qed.
Lemma outline_of_fun {K : Type} {NK : Num K} (P : Poly K) (L L' : Loop K) : outline_of P L -> outline_of P L' -> L = L'.
Proof. intros (Lm & E1 & _ & ->) (Lm' & E1' & _ & ->). rewrite E1 in E1'. inversion E1'. reflexivity. Qed.

(* ------------------------------------------------------------------------------------------------------------ *)
(** * the refined mesh                                                                                           *)
Section Refined.
  Variables (o e1 e2 : V3 R).
  Notation pr := (plane2 o e1 e2).
  Hypothesis E11 : vdot e1 e1 = 1.
  Hypothesis E22 : vdot e2 e2 = 1.
  Hypothesis E12 : vdot e1 e2 = 0.
  Variables (P : Poly R) (fuel : nat) (amax mar : R) (M0 M' : Mesh R) (r : rres) (L : Loop R).
  Hypothesis Hrun : stable_run P M0.
  Hypothesis Hout : outline_of P L.
  Hypothesis Hn : frame_normal e1 e2 P.
  Hypothesis HJ : jordan_le1 (proj_outline o e1 e2 L).
  Hypothesis HV : VSEP (fun x : V3 R => In x (verts L)).
  Hypothesis HP : forall v : V3 R, In v (verts L) -> in_plane o e1 e2 v.
  Hypothesis Hmp : mesh_polygon fuel P amax mar = Ok (M', r).
  Notation L2 := (proj_outline o e1 e2 L).
  Notation Ts' := (tris2 o e1 e2 M').
  Notation trace := (refine_trace fuel amax mar M0).
  (** side conditions of the trace without / with "the ray from q avoids the inserted point" *)
  Notation side0 := (side o e1 e2 (fun _ => True)).
  Notation sideq d q := (side o e1 e2 (fun p => hgt d q (pr p) <> 0)).

  Lemma refined_inv0 : INV o e1 e2 M0.
  Proof. exact (initial_INV o e1 e2 P M0 L Hrun Hout Hn HJ HV HP). Qed.
  Lemma refined_refine : refine fuel amax mar M0 = (M', Ok r).
  Proof.
    pose proof Hmp as H. unfold mesh_polygon in H. rewrite (stable_run_ok P M0 Hrun) in H. cbn [rbind] in H.
    destruct (refine fuel amax mar M0) as [M1 r1]. destruct r1 as [x| |]; cbn [rbind] in H; try discriminate. inversion H; subst. reflexivity.
  Qed.
  Lemma sideq_side0 (d q : PP) : forall (tr : list (tev R)) (M : Mesh R), tr_ok (sideq d q) M tr -> tr_ok side0 M tr.
  Proof.
    apply tr_ok_mono. intros M op H. destruct op; cbn [side] in *; try exact H.
    - destruct H as [A _]. split; [exact A | exact I].
    - destruct H as (A & B & C & D & _). split; [exact A | split; [exact B | split; [exact C | split; [exact D | exact I]]]].
  Qed.
  Lemma tris2_initial : tris2 o e1 e2 M0 = proj_tris o e1 e2 M0.
  Proof.
    unfold tris2, proj_tris. rewrite (from_polygon_live_reported P M0 (stable_run_ok P M0 Hrun)). unfold get_trilist. rewrite map_map. reflexivity.
  Qed.
  (** the initial mesh: coverage = winding number of the merged outline (every ray, every point); doubled area = its shoelace area *)
  Lemma initial_cover (d q : PP) : mesh_cover o e1 e2 d M0 q = wn d L2 q.
  Proof. unfold mesh_cover. rewrite tris2_initial. symmetry. exact (ears_winding_identity o e1 e2 P M0 L Hrun Hout d q). Qed.
  Lemma initial_area : mesh_area2 o e1 e2 M0 = 2 * Shoelace.area2 L2.
  Proof. unfold mesh_area2. rewrite tris2_initial. symmetry. exact (ears_area_identity o e1 e2 P M0 L Hrun Hout). Qed.

  (** ** orientation, invariants *)
  Theorem refined_INV : tr_ok side0 M0 trace -> INV o e1 e2 M'.
  Proof. intros Htr. exact (refine_INV o e1 e2 E11 E22 E12 fuel amax mar M0 M' r refined_inv0 refined_refine Htr). Qed.
  Theorem refined_positive : tr_ok side0 M0 trace -> forall a b c, In (a, b, c) Ts' -> 0 < orient a b c.
  Proof.
    intros Htr a b c Hin. destruct (refined_INV Htr) as (_ & _ & _ & _ & HA). unfold AllPos in HA. rewrite Forall_forall in HA.
    exact (HA _ Hin).
  Qed.

  (** ** 1. the count, against the merged outline *)
  Theorem refined_count_merged (d q : PP) : tr_ok (sideq d q) M0 trace ->
    (forall a b c, In (a, b, c) Ts' -> generic d q [a; b; c] /\ off_segs a b c q) ->
    Z.of_nat (count_inside Ts' q) = wn d L2 q.
  Proof.
    intros Htr Hg. pose proof (sideq_side0 d q _ _ Htr) as Htr0.
    rewrite <- initial_cover, <- (refine_cover o e1 e2 E11 E22 E12 d q fuel amax mar M0 M' r refined_inv0 refined_refine Htr).
    unfold mesh_cover. symmetry. apply cover_count_segs. intros a b c Hin. destruct (Hg a b c Hin) as [A B].
    split; [exact (refined_positive Htr0 a b c Hin) | split; assumption].
  Qed.
  (** ** 3. the areas, against the merged outline *)
  Theorem refined_area_merged : tr_ok side0 M0 trace ->
    tsum 0 Rplus (fun a b c => Rabs (Shoelace.area2 [a; b; c])) Ts' = Shoelace.area2 L2.
  Proof.
    intros Htr. rewrite (sum_abs_area_pos _ (refined_positive Htr)).
    change (area2sum Ts') with (mesh_area2 o e1 e2 M').
    rewrite (refine_area o e1 e2 E11 E22 E12 fuel amax mar M0 M' r refined_inv0 refined_refine Htr), initial_area. field.
  Qed.

  (** ** the same against the polygon's own loops: outer outline and holes *)
  Hypothesis Hclean : closed_loop_clean false P = true.
  Hypothesis Hwf : closed_loop_wf P = true.
  Hypothesis Hkeep : close_keeps P.
  Notation O2 := (poly_outer2 o e1 e2 P).
  Notation H2 := (poly_holes2 o e1 e2 P).

  Lemma merged_wn_polygon (d q : PP) : wn d L2 q = (wn d O2 q - holes_wn d q H2)%Z.
  Proof.
    destruct (merged_wn o e1 e2 P M0 Hclean Hwf Hrun Hkeep d q) as (L' & Ho' & Ew & _).
    rewrite (outline_of_fun P L L' Hout Ho'). exact Ew.
  Qed.
  Lemma merged_area_polygon : Shoelace.area2 L2 = Shoelace.area2 O2 - holes_area2 H2.
  Proof.
    rewrite (ears_area_sum_proved o e1 e2 P M0 L Hrun Hout Hn). exact (polygon_area_sum o e1 e2 P M0 Hclean Hwf Hrun Hkeep Hn).
  Qed.

  Theorem refined_count (d q : PP) : tr_ok (sideq d q) M0 trace ->
    (forall a b c, In (a, b, c) Ts' -> generic d q [a; b; c] /\ off_segs a b c q) ->
    Z.of_nat (count_inside Ts' q) = (wn d O2 q - holes_wn d q H2)%Z.
  Proof. intros Htr Hg. rewrite (refined_count_merged d q Htr Hg). apply merged_wn_polygon. Qed.

  (** ** 2. the exact tiling: Jordan hypotheses on the input loops at q *)
  Theorem refined_tile_exactly (d q : PP) : tr_ok (sideq d q) M0 trace ->
    (forall a b c, In (a, b, c) Ts' -> generic d q [a; b; c] /\ off_segs a b c q) ->
    (0 <= wn d O2 q <= 1)%Z -> (forall l, In l H2 -> (0 <= wn d l q)%Z) -> (holes_wn d q H2 <= wn d O2 q)%Z ->
    (wn d O2 q = 1%Z -> (forall l, In l H2 -> wn d l q = 0%Z) ->
       count_inside Ts' q = 1%nat /\ exists a b c, In (a, b, c) Ts' /\ inside_tri a b c q) /\
    (wn d O2 q = 0%Z \/ (exists l, In l H2 /\ (0 < wn d l q)%Z) ->
       count_inside Ts' q = 0%nat /\ forall a b c, In (a, b, c) Ts' -> ~ inside_tri a b c q) /\
    (forall (l1 l2 l3 : list T2) (a b c a' b' c' : PP), Ts' = l1 ++ (a, b, c) :: l2 ++ (a', b', c') :: l3 ->
       inside_tri a b c q -> inside_tri a' b' c' q -> False) /\
    count_inside Ts' q = Z.to_nat (wn d O2 q - holes_wn d q H2).
  Proof.
    intros Htr Hg Ho Hh Hle. pose proof (refined_count d q Htr Hg) as Ec.
    assert (Hh0 : (0 <= holes_wn d q H2)%Z).
    { unfold holes_wn. apply zsum_nonneg. intros x Hx. apply in_map_iff in Hx. destruct Hx as (l & <- & Hl). apply Hh. exact Hl. }
    split; [|split; [|split]].
    - intros H1 Hz. assert (E0 : holes_wn d q H2 = 0%Z).
      { unfold holes_wn. apply zsum_all_zero. intros x Hx. apply in_map_iff in Hx. destruct Hx as (l & <- & Hl). apply Hz. exact Hl. }
      assert (C1 : count_inside Ts' q = 1%nat) by lia. split; [exact C1|]. apply count_pos_cover. lia.
    - intros Hout'. assert (C0 : count_inside Ts' q = 0%nat).
      { destruct Hout' as [H0|(l & Hl & Hpos)]; [lia|].
        assert (wn d l q <= holes_wn d q H2)%Z.
        { unfold holes_wn. apply zsum_member_le; [|apply (in_map (fun l0 : list PP => wn d l0 q)); exact Hl].
          intros y Hy. apply in_map_iff in Hy. destruct Hy as (l' & <- & Hl'). apply Hh. exact Hl'. }
        lia. }
      split; [exact C0 | apply count_zero_none; exact C0].
    - intros l1 l2 l3 a b c a' b' c' E. apply (count_le1_no_overlap q l1 l2 l3). rewrite <- E. lia.
    - lia.
  Qed.

  (** ** 3. the areas *)
  Theorem refined_area_sum : tr_ok side0 M0 trace ->
    tsum 0 Rplus (fun a b c => Rabs (Shoelace.area2 [a; b; c])) Ts' = Shoelace.area2 O2 - holes_area2 H2.
  Proof. intros Htr. rewrite (refined_area_merged Htr). exact merged_area_polygon. Qed.
  Theorem refined_area_parea : tr_ok side0 M0 trace ->
    lnormal (pouter P) = vcross e1 e2 -> planar_normals P -> signed_areas P ->
    parea P = larea (pouter P) - rsum (map larea (pinner P)) ->
    tsum 0 Rplus (fun a b c => Rabs (Shoelace.area2 [a; b; c])) Ts' = parea P.
  Proof.
    intros Htr En Hpl Hsa Hacc. rewrite (refined_area_merged Htr), (ears_area_sum_proved o e1 e2 P M0 L Hrun Hout Hn).
    exact (polygon_area_parea o e1 e2 P M0 Hclean Hwf Hrun Hkeep Hn En (frame_unit_normal e1 e2 E11 E22 E12) Hpl Hsa Hacc).
  Qed.

  (** the global Jordan hypothesis on the merged outline follows from the one on the input loops (where the ray is generic for the
      merged outline and q is off its edges): outer winds at most once, every hole (oriented like the outer) at least 0 times *)
  Lemma jordan_of_input :
    (forall d q : PP, generic d q L2 -> off_edges L2 q -> (wn d O2 q <= 1)%Z /\ forall l, In l H2 -> (0 <= wn d l q)%Z) -> jordan_le1 L2.
  Proof.
    intros H d q Hg Hoff. destruct (H d q Hg Hoff) as [A B]. rewrite merged_wn_polygon.
    assert (0 <= holes_wn d q H2)%Z; [|lia].
    unfold holes_wn. apply zsum_nonneg. intros x Hx. apply in_map_iff in Hx. destruct Hx as (l & <- & Hl). apply B. exact Hl.
  Qed.
End Refined.
