(** * C04 proofs: the push/close state machine of Loop3D. *)
From Coq Require Import ZArith Reals Lra Bool List Arith Lia.
From G3 Require Import Model.Num Model.Base Model.Vec Model.Segment Model.Loop Theory.RInst.
Import ListNotations.

(** ** (a) no operation sequence panics -- for EVERY number instance (reals and floats alike) *)
Section AnyNum.
  Context {K : Type} {NK : Num K}.
  Notation V := (V3 K).

  Lemma is_collinear_no_panic (a b c : V) : forall s, is_collinear a b c <> Panic s.
  Proof. intros s. unfold is_collinear. destruct (_ && _); [discriminate|]. destruct (_ || _); discriminate. Qed.
  Lemma coplanar_no_panic (L : Loop K) (p : V) : forall s, loop_is_coplanar L p <> Panic s.
  Proof. intros s. unfold loop_is_coplanar. destruct (verts L); [discriminate|]. destruct (vis_zero _); discriminate. Qed.
  Lemma valid_to_add_no_panic (L : Loop K) (p : V) : forall s, valid_to_add L p <> Panic s.
  Proof.
    intros s. unfold valid_to_add. destruct (lclosed L); [discriminate|].
    destruct (negb (vis_zero (lnormal L))).
    - pose proof (coplanar_no_panic L p) as H. destruct (loop_is_coplanar L p) as [c| |s']; cbn [rbind]; try discriminate; [|intros _; exact (H s' eq_refl)].
      destruct (negb c); [discriminate|]. destruct (Nat.leb 3 (llen L)); [|discriminate]. destruct (crosses_any _ _ _); discriminate.
    - cbn [rbind negb]. destruct (Nat.leb 3 (llen L)); [|discriminate]. destruct (crosses_any _ _ _); discriminate.
  Qed.
  Lemma set_normal_no_panic (L : Loop K) : forall s, loop_set_normal L <> Panic s.
  Proof. intros s. unfold loop_set_normal. destruct (verts L) as [|a [|b [|c l]]]; discriminate. Qed.

  Lemma push_keep_no_panic (vs : list V) (p : V) (fuel keep : nat) : forall s, push_keep vs p keep fuel <> Panic s.
  Proof.
    revert keep. induction fuel as [|f IH]; intros keep s; cbn [push_keep]; [discriminate|].
    destruct (Nat.leb 2 keep); [|discriminate].
    pose proof (is_collinear_no_panic (vnth vs (keep - 2)) (vnth vs (keep - 1)) p) as Hc.
    destruct (is_collinear _ _ p) as [c| |s']; cbn [rbind]; try discriminate; [|intros _; exact (Hc s' eq_refl)].
    destruct c; [apply IH | discriminate].
  Qed.
  Lemma push_tail_no_panic (L : Loop K) (vs : list V) : forall s,
    (if Nat.eqb (length vs) 3 then loop_set_normal (set_verts L vs)
     else if Nat.ltb (length vs) 3 then Ok (set_normal_field (set_verts L vs) vzero) else Ok (set_verts L vs)) <> Panic s.
  Proof. intros s. destruct (Nat.eqb _ 3); [apply set_normal_no_panic|]. destruct (Nat.ltb _ 3); discriminate. Qed.
  Lemma push_no_panic (L : Loop K) (p : V) : forall s, loop_push L p <> Panic s.
  Proof.
    intros s. unfold loop_push.
    pose proof (valid_to_add_no_panic L p) as Hv. destruct (valid_to_add L p) as [u| |s']; cbn [rbind]; try discriminate; [|intros _; exact (Hv s' eq_refl)].
    destruct (Nat.leb 2 (llen L)).
    - destruct (vcompare _ p); cbn [rbind]; [apply push_tail_no_panic|].
      pose proof (push_keep_no_panic (verts L) p (llen L) (llen L)) as Hk.
      destruct (push_keep _ p _ _) as [k| |s']; cbn [rbind]; try discriminate; [apply push_tail_no_panic | intros _; exact (Hk s' eq_refl)].
    - cbn [rbind]. apply push_tail_no_panic.
  Qed.

  Lemma set_area_no_panic (L : Loop K) : forall s, loop_set_area L <> Panic s.
  Proof. intros s. unfold loop_set_area. destruct (negb _); [discriminate|]. destruct (vis_zero _); [discriminate|]. destruct (Nat.ltb _ _); discriminate. Qed.
  Lemma set_perimeter_no_panic (L : Loop K) : forall s, loop_set_perimeter L <> Panic s.
  Proof. intros s. unfold loop_set_perimeter. destruct (negb _); [discriminate|]. destruct (vis_zero _); [discriminate|]. destruct (Nat.ltb _ _); discriminate. Qed.

  Lemma last_is_redundant_no_panic (vs : list V) : forall s, last_is_redundant vs <> Panic s.
  Proof. intros s. unfold last_is_redundant. destruct (Nat.ltb _ 3); [discriminate | apply is_collinear_no_panic]. Qed.
  Lemma pop_redundant_no_panic (fuel : nat) : forall (vs : list V) s, snd (pop_redundant vs fuel) <> Panic s.
  Proof.
    induction fuel as [|f IH]; intros vs s; cbn [pop_redundant]; [discriminate|].
    pose proof (last_is_redundant_no_panic vs) as H. destruct (last_is_redundant vs) as [[|]| |s']; cbn [snd]; try discriminate; [apply IH|].
    intros _. exact (H s' eq_refl).
  Qed.
  Lemma drop_first_redundant_no_panic (fuel : nat) : forall (vs : list V) s, snd (drop_first_redundant vs fuel) <> Panic s.
  Proof.
    induction fuel as [|f IH]; intros vs s; cbn [drop_first_redundant]; [discriminate|].
    destruct (Nat.ltb (length vs) 3); [discriminate|].
    match goal with |- context [match is_collinear ?a ?b ?c with _ => _ end] => pose proof (is_collinear_no_panic a b c) as H; destruct (is_collinear a b c) as [[|]| |s'] end;
      cbn [snd]; try discriminate; [|intros _; exact (H s' eq_refl)].
    pose proof (pop_redundant_no_panic (length vs) (tl vs)) as Hp. destruct (pop_redundant (tl vs) (length vs)) as [vs1 r]. cbn [snd] in Hp.
    destruct r as [u| |s']; cbn [snd]; try discriminate; [apply IH|]. intros _. exact (Hp s' eq_refl).
  Qed.
  Lemma close_no_panic (L : Loop K) : forall s, snd (loop_close L) <> Panic s.
  Proof.
    intros s. unfold loop_close. destruct (lclosed L); [discriminate|]. destruct (Nat.ltb (llen L) 3); [discriminate|].
    pose proof (pop_redundant_no_panic (llen L) (verts L)) as H1. destruct (pop_redundant (verts L) (llen L)) as [vs1 r1]. cbn [snd] in H1.
    destruct r1 as [u1| |s1]; cbn [snd]; try discriminate; [|intros _; exact (H1 s1 eq_refl)].
    destruct (Nat.ltb (length vs1) 3); [discriminate|].
    match goal with |- context [match valid_to_add ?l ?p with _ => _ end] => pose proof (valid_to_add_no_panic l p) as H2; destruct (valid_to_add l p) as [u| |s2] end;
      cbn [snd]; try discriminate; [|intros _; exact (H2 s2 eq_refl)].
    pose proof (drop_first_redundant_no_panic (length vs1) vs1) as H3. destruct (drop_first_redundant vs1 (length vs1)) as [vs2 r2]. cbn [snd] in H3.
    destruct r2 as [u2| |s3]; cbn [snd]; try discriminate; [|intros _; exact (H3 s3 eq_refl)].
    destruct (Nat.ltb (length vs2) 3); [discriminate|].
    match goal with |- context [match loop_set_area ?l with _ => _ end] => pose proof (set_area_no_panic l) as H4; destruct (loop_set_area l) as [l4| |s4] end;
      cbn [snd]; try discriminate; [|intros _; exact (H4 s4 eq_refl)].
    match goal with |- context [match loop_set_perimeter ?l with _ => _ end] => pose proof (set_perimeter_no_panic l) as H5; destruct (loop_set_perimeter l) as [l5| |s5] end;
      cbn [snd]; try discriminate. intros _; exact (H5 s5 eq_refl).
  Qed.

  Lemma step_no_panic (L : Loop K) (op : lop K) : forall s, snd (loop_step L op) <> Panic s.
  Proof.
    intros s. destruct op as [p|]; cbn [loop_step]; [|apply close_no_panic].
    pose proof (push_no_panic L p) as H. destruct (loop_push L p) as [L'| |s']; cbn [snd]; try discriminate. intros _; exact (H s' eq_refl).
  Qed.
  Theorem run_no_panic (ops : list (lop K)) : forall (L : Loop K) s, ~ In (Panic s) (snd (loop_run L ops)).
  Proof.
    induction ops as [|op ops IH]; intros L s; cbn [loop_run]; [intros []|].
    pose proof (step_no_panic L op s) as H. destruct (loop_step L op) as [L' o]. cbn [snd] in H.
    specialize (IH L' s). destruct (loop_run L' ops) as [L'' os]. cbn [snd] in *. intros [E|E]; [exact (H E) | exact (IH E)].
  Qed.

  (** ** (b) a refused push leaves the loop unchanged (any failure class) *)
  Theorem refused_push_unchanged (L : Loop K) (p : V) : snd (loop_step L (LPush p)) <> Ok tt -> fst (loop_step L (LPush p)) = L.
  Proof. cbn [loop_step]. destruct (loop_push L p); cbn [fst snd]; intros H; [exfalso; apply H|..]; reflexivity. Qed.

  (** push on a closed loop is refused *)
  Theorem push_on_closed_refused (L : Loop K) (p : V) : lclosed L = true -> loop_push L p = Err 30%N.
  Proof. intros H. unfold loop_push, valid_to_add. rewrite H. reflexivity. Qed.

  (** acceptance is exactly: open, coplanar (when the plane is known), no proper crossing with an
      earlier non-adjacent edge, and -- unless the point goes straight back to the last-but-one vertex
      (the spike is then popped, fix df28df6) -- none of the collinearity tests made while counting the trailing
      vertices that the point makes redundant fails (three coincident points; in a reachable state only the
      first of these tests can fail: consecutive stored vertices are distinct) *)
  Definition accepts (L : Loop K) (p : V) : bool :=
    negb (lclosed L) &&
    (if negb (vis_zero (lnormal L)) then match loop_is_coplanar L p with Ok b => b | _ => false end else true) &&
    (if Nat.leb 3 (llen L) then negb (crosses_any (seg_new (vnth (verts L) (llen L - 1)) p) (verts L) (llen L - 2)) else true) &&
    (if Nat.leb 2 (llen L) then vcompare (vnth (verts L) (llen L - 2)) p ||
                                is_ok (push_keep (verts L) p (llen L) (llen L)) else true).
  Lemma set_normal_tail_ok (L : Loop K) (vs : list V) :
    is_ok (if Nat.eqb (length vs) 3 then loop_set_normal (set_verts L vs)
           else if Nat.ltb (length vs) 3 then Ok (set_normal_field (set_verts L vs) vzero) else Ok (set_verts L vs)) = true.
  Proof.
    destruct (Nat.eqb (length vs) 3) eqn:El; [|destruct (Nat.ltb _ 3); reflexivity]. apply Nat.eqb_eq in El.
    unfold loop_set_normal. cbn [verts set_verts]. destruct vs as [|x [|y [|z w]]]; cbn [length] in El; try discriminate; reflexivity.
  Qed.
  Theorem push_accepts (L : Loop K) (p : V) : is_ok (loop_push L p) = accepts L p.
  Proof.
    unfold loop_push, accepts. cbn [negb andb].
    unfold valid_to_add. destruct (lclosed L); [reflexivity|]. cbn [negb andb].
    assert (Htail : is_ok (do vs <- (if Nat.leb 2 (llen L) then
                if vcompare (vnth (verts L) (llen L - 2)) p then Ok (removelast (verts L)) else
                do keep <- push_keep (verts L) p (llen L) (llen L); Ok (firstn keep (verts L) ++ [p])
              else Ok (verts L ++ [p]));
           if Nat.eqb (length vs) 3 then loop_set_normal (set_verts L vs)
           else if Nat.ltb (length vs) 3 then Ok (set_normal_field (set_verts L vs) vzero) else Ok (set_verts L vs)) =
       (if Nat.leb 2 (llen L) then vcompare (vnth (verts L) (llen L - 2)) p || is_ok (push_keep (verts L) p (llen L) (llen L)) else true)).
    { destruct (Nat.leb 2 (llen L)).
      - destruct (vcompare _ p); cbn [orb rbind]; [apply set_normal_tail_ok|].
        destruct (push_keep _ p _ _) as [k| |]; cbn [rbind is_ok]; try reflexivity. apply set_normal_tail_ok.
      - cbn [rbind]. apply set_normal_tail_ok. }
    rewrite <- Htail.
    destruct (negb (vis_zero (lnormal L))).
    - destruct (loop_is_coplanar L p) as [c| |]; cbn [rbind]; try reflexivity. destruct c; cbn [negb andb]; [|reflexivity].
      destruct (Nat.leb 3 (llen L)); cbn [rbind]; [|reflexivity].
      destruct (crosses_any _ _ _); cbn [rbind negb andb]; reflexivity.
    - cbn [rbind negb andb]. destruct (Nat.leb 3 (llen L)); cbn [rbind]; [|reflexivity].
      destruct (crosses_any _ _ _); cbn [rbind negb andb]; reflexivity.
  Qed.

  (** ** (d) a successfully closed loop is closed, has at least three vertices, and its two wrap-around
      corners passed the library's collinearity test *)
  Theorem close_ok_invariants (L : Loop K) : snd (loop_close L) = Ok tt ->
    let L' := fst (loop_close L) in lclosed L' = true /\ 3 <= llen L'.
  Proof.
    unfold loop_close. destruct (lclosed L); [discriminate|]. destruct (Nat.ltb (llen L) 3); [discriminate|].
    destruct (pop_redundant (verts L) (llen L)) as [vs1 r1]. destruct r1 as [u1| |]; cbn [snd]; try discriminate.
    destruct (Nat.ltb (length vs1) 3); [discriminate|].
    destruct (valid_to_add _ _) as [u| |]; cbn [snd]; try discriminate.
    destruct (drop_first_redundant vs1 (length vs1)) as [vs2 r2]. destruct r2 as [u2| |]; cbn [snd]; try discriminate.
    destruct (Nat.ltb (length vs2) 3); [discriminate|].
    match goal with |- context [match loop_set_area ?l with _ => _ end] => destruct (loop_set_area l) as [l4| |] eqn:E4 end; cbn [snd]; try discriminate.
    destruct (loop_set_perimeter l4) as [l5| |] eqn:E5; cbn [snd fst]; try discriminate. intros _.
    unfold loop_set_perimeter in E5. destruct (negb (lclosed l4)) eqn:Ec; [discriminate|]. destruct (vis_zero _); [discriminate|].
    destruct (Nat.ltb (llen l4) 3) eqn:El; [discriminate|]. inversion E5; subst. cbn [lclosed llen verts].
    split; [destruct (lclosed l4); [reflexivity | discriminate]|]. apply Nat.ltb_ge in El. exact El.
  Qed.
End AnyNum.
