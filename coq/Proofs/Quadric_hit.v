(** * Quadric_hit: surface data at a sphere / cylinder hit (C13 part pquadric), on the real instance. *)
From Coq Require Import ZArith Reals Lra Bool List Psatz Nsatz.
From G3 Require Import Model.Num Model.Base Model.Vec Model.BBox Model.RoundError Model.Transform Model.Hit Model.Sphere Model.Cylinder.
From G3 Require Import Theory.RInst Proofs.C06_transform Proofs.Quadric_base Proofs.Quadric_sphere Proofs.Quadric_cylinder.
Local Open Scope R_scope.

(** ** [get_side]: the reported normal faces the ray; normal and side flip with the side of approach *)
Lemma get_side_front (n d : V) : vdot n d < 0 -> get_side n d = (n, Front).
Proof. intros H. unfold get_side, n0. rnum. apply Rltb_true in H. rewrite H. reflexivity. Qed.
Lemma get_side_back (n d : V) : 0 < vdot n d -> get_side n d = (vscale n (- 1), Back).
Proof.
  intros H. unfold get_side, n0, n1. rnum. assert (F : Rltb (vdot n d) 0 = false) by (apply Rltb_false; lra).
  apply Rltb_true in H. rewrite F, H. reflexivity.
Qed.
Lemma get_side_na (n d : V) : vdot n d = 0 -> get_side n d = (mkV3 0 0 0, NonApplicable).
Proof. intros H. unfold get_side, n0. rnum. rewrite H, Rltb_irrefl. reflexivity. Qed.
Lemma vdot_scale_l (n d : V) (k : R) : vdot (vscale n k) d = k * vdot n d.
Proof. destruct n as [a b c], d as [dx dy dz]. unfold vdot, vscale. cbn [vx vy vz]. rnum. ring. Qed.
Lemma vdot_comm (a b : V) : vdot a b = vdot b a.
Proof. destruct a as [a1 a2 a3], b as [b1 b2 b3]. unfold vdot. cbn [vx vy vz]. rnum. ring. Qed.
Lemma get_side_faces_ray (n d : V) : vdot n d <> 0 -> vdot (fst (get_side n d)) d < 0.
Proof.
  intros H. destruct (Rtotal_order (vdot n d) 0) as [L | [E | G]]; [| contradiction |].
  - rewrite get_side_front by exact L. exact L.
  - rewrite get_side_back by exact G. cbn [fst]. rewrite vdot_scale_l. lra.
Qed.
(** two rays arriving at the same surface point from opposite sides get opposite normals and sides *)
Lemma get_side_flips (n d d' : V) : vdot n d < 0 -> 0 < vdot n d' ->
  snd (get_side n d) = Front /\ snd (get_side n d') = Back /\ fst (get_side n d') = vscale (fst (get_side n d)) (- 1).
Proof. intros L G. rewrite get_side_front, get_side_back by assumption. auto. Qed.

(** [IntersectionInfo::new]: the reported normal is [get_side] of the normalised [dpdv x dpdu] *)
Lemma info_new_fields (ray : Ray R) (p du dv : V) :
  let i := info_new ray p du dv in
  ip i = p /\ idpdu i = du /\ idpdv i = dv /\
  inormal i = fst (get_side (vnormalize (vcross dv du)) (rdir ray)) /\
  iside i = snd (get_side (vnormalize (vcross dv du)) (rdir ray)).
Proof. cbv zeta. unfold info_new. destruct (@get_side R NumR (vnormalize (vcross dv du)) (rdir ray)). cbn. auto. Qed.

(** normalising [k . p] for k > 0 and |p| = r > 0 gives p / r *)
Lemma vnormalize_scaled (p : V) (k r : R) : 0 < k -> 0 < r -> vlen2 p = r * r ->
  vnormalize (vscale p k) = vscale p (1 / r).
Proof.
  intros Hk Hr H. unfold vnormalize, vlen. rewrite vlen2_scale, H. rnum.
  replace (k * k * (r * r)) with ((k * r) * (k * r)) by ring. rewrite sqrt_square by nra.
  destruct p as [px py pz]. unfold vscale. cbn [vx vy vz]. rnum. apply v3_eq; cbn [vx vy vz]; field; lra.
Qed.
Lemma vlen2_unit (p : V) (r : R) : 0 < r -> vlen2 p = r * r -> vlen2 (vscale p (1 / r)) = 1.
Proof. intros Hr H. rewrite vlen2_scale, H. field. lra. Qed.

(** ** sphere *)
Section SphereData.
  Context (s : S) (p : V).
  Context (Hr : 0 < sradius s) (Hon : on_sphere s p).

  Lemma sph_cos_theta_range : -1 <= vz p / sradius s <= 1.
  Proof.
    pose proof (on_sphere_z s p Hr Hon) as [A B]. split.
    - apply (Rmult_le_reg_r (sradius s)); [exact Hr|]. unfold Rdiv. rewrite Rmult_assoc, Rinv_l by lra. lra.
    - apply (Rmult_le_reg_r (sradius s)); [exact Hr|]. unfold Rdiv. rewrite Rmult_assoc, Rinv_l by lra. lra.
  Qed.
  Lemma fclamp11_id (x : R) : -1 <= x <= 1 -> fclamp11 x = x.
  Proof.
    intros [A B]. unfold fclamp11, n1. rnum. assert (E1 : Rltb x (- (1)) = false) by (apply Rltb_false; lra).
    rewrite E1. assert (E2 : Rltb 1 x = false) by (apply Rltb_false; lra). rewrite E2. reflexivity.
  Qed.
  (** sin(theta) as the code computes it, [sin (acos (z / r))], is sqrt(1 - (z/r)^2) >= 0, and r sin(theta) is the
      distance of the hit from the z axis *)
  Lemma sph_sin_theta : sphere_sin_theta s p = sqrt (1 - (vz p / sradius s) * (vz p / sradius s)).
  Proof.
    unfold sphere_sin_theta. rnum. rewrite fclamp11_id by apply sph_cos_theta_range.
    rewrite sin_acos by apply sph_cos_theta_range. reflexivity.
  Qed.
  Lemma sph_sin_theta_sq :
    sradius s * sradius s * (sphere_sin_theta s p * sphere_sin_theta s p) = vx p * vx p + vy p * vy p.
  Proof.
    rewrite sph_sin_theta. pose proof sph_cos_theta_range as [A B].
    rewrite sqrt_sqrt by nra. unfold on_sphere, vlen2 in Hon. rnum.
    replace (sradius s * sradius s * (1 - vz p / sradius s * (vz p / sradius s))) with (sradius s * sradius s - vz p * vz p) by (field; lra).
    lra.
  Qed.
  Lemma sph_sin_theta_nonneg : 0 <= sphere_sin_theta s p.
  Proof. rewrite sph_sin_theta. apply sqrt_pos. Qed.
  (** the poles are exactly where it vanishes *)
  Lemma sph_sin_theta_zero_iff : sphere_sin_theta s p = 0 <-> (vx p = 0 /\ vy p = 0).
  Proof.
    pose proof sph_sin_theta_sq as H. split.
    - intros E. rewrite E in H. split; nra.
    - intros [E1 E2]. rewrite E1, E2 in H.
      assert (Q : sphere_sin_theta s p * sphere_sin_theta s p = 0).
      { apply (Rmult_eq_reg_l (sradius s * sradius s)); [lra | nra]. }
      apply Rmult_integral in Q. destruct Q; assumption.
  Qed.

  (** both tangents are orthogonal to the gradient 2p of x^2+y^2+z^2 *)
  Lemma sphere_dpdu_tangent : vdot (sphere_dpdu s p) p = 0.
  Proof. destruct p as [px py pz]. unfold sphere_dpdu, vdot. cbn [vx vy vz]. rnum. unfold n0. rnum. ring. Qed.

  Context (Hpole : sphere_sin_theta s p <> 0).
  Lemma sphere_dpdv_tangent : vdot (sphere_dpdv s p) p = 0.
  Proof.
    pose proof sph_sin_theta_sq as H. unfold sphere_dpdv. set (st := sphere_sin_theta s p) in *.
    destruct p as [px py pz]. unfold vdot, vscale. cbn [vx vy vz] in *. unfold n1. rnum.
    assert (E : forall A, A = 0 -> A / (sradius s * st) = 0) by (intros A ->; field; split; lra).
    transitivity ((sdelta_theta s * pz * (px * px + py * py - sradius s * sradius s * (st * st))) / (sradius s * st)); [field; split; lra|].
    apply E. rewrite <- H. ring.
  Qed.
  (** dpdv x dpdu = (delta_theta phi_max r sin theta) . p *)
  Lemma sphere_cross : vcross (sphere_dpdv s p) (sphere_dpdu s p) =
    vscale p (sdelta_theta s * sphi_max s * sradius s * sphere_sin_theta s p).
  Proof.
    pose proof sph_sin_theta_sq as H. unfold sphere_dpdv, sphere_dpdu. set (st := sphere_sin_theta s p) in *.
    destruct p as [px py pz]. unfold vcross, vscale. cbn [vx vy vz] in *. unfold n1, n0. rnum.
    apply v3_eq; cbn [vx vy vz]; try (field; split; lra).
    transitivity (sdelta_theta s * sphi_max s * pz * (px * px + py * py) / (sradius s * st)); [field; split; lra|].
    rewrite <- H. field. split; lra.
  Qed.
  Context (Hphi : 0 < sphi_max s) (Hdt : 0 < sdelta_theta s).
  (** the normal before [get_side] is the outward unit normal p / r *)
  Lemma sphere_normal_outward : vnormalize (vcross (sphere_dpdv s p) (sphere_dpdu s p)) = vscale p (1 / sradius s).
  Proof.
    rewrite sphere_cross. apply vnormalize_scaled; [|exact Hr | exact Hon].
    pose proof sph_sin_theta_nonneg. assert (0 < sphere_sin_theta s p) by lra.
    repeat apply Rmult_lt_0_compat; assumption.
  Qed.

  (** the reported hit data *)
  Lemma sphere_info_data (ray : Ray R) (phi : R) :
    let i := sphere_info s ray p phi in
    let d := rdir ray in
    ip i = p /\ vdot (idpdu i) p = 0 /\ vdot (idpdv i) p = 0 /\
    (vdot p d < 0 -> iside i = Front /\ inormal i = vscale p (1 / sradius s)) /\
    (0 < vdot p d -> iside i = Back /\ inormal i = vscale (vscale p (1 / sradius s)) (- 1)) /\
    (vdot p d <> 0 -> vdot (inormal i) d < 0 /\ vlen2 (inormal i) = 1 /\
                       vdot (inormal i) (idpdu i) = 0 /\ vdot (inormal i) (idpdv i) = 0).
  Proof.
    cbv zeta. unfold sphere_info.
    destruct (info_new_fields ray p (sphere_dpdu s p) (sphere_dpdv s p)) as (E1 & E2 & E3 & E4 & E5).
    rewrite E1, E2, E3, E4, E5, sphere_normal_outward.
    assert (Hd : vdot (vscale p (1 / sradius s)) (rdir ray) = 1 / sradius s * vdot p (rdir ray)) by apply vdot_scale_l.
    assert (Hi : 0 < 1 / sradius s) by (apply Rdiv_lt_0_compat; lra).
    split; [reflexivity|]. split; [apply sphere_dpdu_tangent|]. split; [apply sphere_dpdv_tangent|].
    assert (U : vlen2 (vscale p (1 / sradius s)) = 1) by (apply vlen2_unit; assumption).
    assert (Tu : vdot (vscale p (1 / sradius s)) (sphere_dpdu s p) = 0).
    { rewrite vdot_scale_l, vdot_comm, sphere_dpdu_tangent. ring. }
    assert (Tv : vdot (vscale p (1 / sradius s)) (sphere_dpdv s p) = 0).
    { rewrite vdot_scale_l, vdot_comm, sphere_dpdv_tangent. ring. }
    set (n := vscale p (1 / sradius s)) in *.
    split; [|split].
    - intros L. rewrite get_side_front by (rewrite Hd; nra). auto.
    - intros G. rewrite get_side_back by (rewrite Hd; nra). auto.
    - intros N. destruct (Rtotal_order (vdot p (rdir ray)) 0) as [L | [E | G]]; [| contradiction |].
      + rewrite get_side_front by (rewrite Hd; nra). cbn [fst]. rewrite Hd. repeat split; try assumption. nra.
      + rewrite get_side_back by (rewrite Hd; nra). cbn [fst]. rewrite !vdot_scale_l, Hd, vlen2_scale, U, Tu, Tv.
        repeat split; try ring. nra.
  Qed.
End SphereData.

(** the pole: with p = (0, 0, r) the code's sin(theta) is 0 and the tangent dpdv is not a finite vector of the
    real model either: the division 1 / r / sin(theta) is a division by zero (F8) *)
Lemma sphere_pole_sin_theta (s : S) : 0 < sradius s -> sphere_sin_theta s (mkV3 0 0 (sradius s)) = 0.
Proof.
  intros Hr. apply sph_sin_theta_zero_iff; [exact Hr | | cbn [vx vy]; auto].
  unfold on_sphere, vlen2. cbn [vx vy vz]. rnum. ring.
Qed.

(** ** cylinder *)
Section CylData.
  Context (c : C) (p : V).
  Context (Hr : 0 < cradius c) (Hon : on_cyl c p).
  Definition radial (q : V) : V := mkV3 (vx q) (vy q) 0.   (* half the gradient of x^2 + y^2 *)

  Lemma cyl_tangents : vdot (cyl_dpdu c p) (radial p) = 0 /\ vdot (cyl_dpdv c p) (radial p) = 0.
  Proof. destruct p as [px py pz]. unfold cyl_dpdu, cyl_dpdv, radial, vdot. cbn [vx vy vz]. unfold n0. rnum. split; ring. Qed.
  Lemma cyl_cross : vcross (cyl_dpdv c p) (cyl_dpdu c p) = vscale (radial p) (- ((czmax c - czmin c) * cphi_max c)).
  Proof.
    destruct p as [px py pz]. unfold cyl_dpdu, cyl_dpdv, radial, vcross, vscale. cbn [vx vy vz]. unfold n0. rnum.
    apply v3_eq; cbn [vx vy vz]; ring.
  Qed.
  Context (Hphi : 0 < cphi_max c) (Hz : czmin c < czmax c).
  Lemma radial_len2 : vlen2 (radial p) = cradius c * cradius c.
  Proof. unfold on_cyl in Hon. unfold vlen2, radial. cbn [vx vy vz]. rnum. lra. Qed.
  (** the normal before [get_side] is radial and points INWARDS: - (x, y, 0) / r *)
  Lemma cyl_normal_inward : vnormalize (vcross (cyl_dpdv c p) (cyl_dpdu c p)) = vscale (radial p) (- (1 / cradius c)).
  Proof.
    rewrite cyl_cross.
    assert (E : forall (v : V) k, vscale v (- k) = vscale (vscale v (- 1)) k)
      by (intros [a b d] k; unfold vscale; cbn [vx vy vz]; rnum; apply v3_eq; cbn [vx vy vz]; ring).
    rewrite E, (vnormalize_scaled _ _ (cradius c)); [| nra | exact Hr |].
    - destruct p as [px py pz]. unfold radial, vscale. cbn [vx vy vz]. rnum. apply v3_eq; cbn [vx vy vz]; field; lra.
    - rewrite vlen2_scale, radial_len2. ring.
  Qed.
  Lemma cyl_info_data (ray : Ray R) (phi : R) :
    let i := cyl_info c ray p phi in
    let d := rdir ray in
    ip i = p /\ vdot (idpdu i) (radial p) = 0 /\ vdot (idpdv i) (radial p) = 0 /\
    (0 < vdot (radial p) d -> iside i = Front /\ inormal i = vscale (radial p) (- (1 / cradius c))) /\
    (vdot (radial p) d < 0 -> iside i = Back /\ inormal i = vscale (radial p) (1 / cradius c)) /\
    (vdot (radial p) d <> 0 -> vdot (inormal i) d < 0 /\ vlen2 (inormal i) = 1 /\
                                vdot (inormal i) (idpdu i) = 0 /\ vdot (inormal i) (idpdv i) = 0).
  Proof.
    cbv zeta. unfold cyl_info.
    destruct (info_new_fields ray p (cyl_dpdu c p) (cyl_dpdv c p)) as (E1 & E2 & E3 & E4 & E5).
    rewrite E1, E2, E3, E4, E5, cyl_normal_inward. destruct cyl_tangents as [Tu Tv].
    set (n := vscale (radial p) (- (1 / cradius c))).
    assert (Hd : vdot n (rdir ray) = - (1 / cradius c) * vdot (radial p) (rdir ray)) by apply vdot_scale_l.
    assert (Hi : 0 < 1 / cradius c) by (apply Rdiv_lt_0_compat; lra).
    assert (U : vlen2 n = 1) by (unfold n; rewrite vlen2_scale, radial_len2; field; lra).
    assert (Nu : vdot n (cyl_dpdu c p) = 0).
    { unfold n. rewrite vdot_scale_l, vdot_comm, Tu. ring. }
    assert (Nv : vdot n (cyl_dpdv c p) = 0).
    { unfold n. rewrite vdot_scale_l, vdot_comm, Tv. ring. }
    split; [reflexivity|]. split; [exact Tu|]. split; [exact Tv|]. split; [|split].
    - intros G. rewrite get_side_front by (rewrite Hd; nra). auto.
    - intros L. rewrite get_side_back by (rewrite Hd; nra). cbn [fst snd]. split; [reflexivity|].
      unfold n. destruct (radial p) as [a b d]. unfold vscale. cbn [vx vy vz]. rnum. apply v3_eq; cbn [vx vy vz]; ring.
    - intros N. destruct (Rtotal_order (vdot (radial p) (rdir ray)) 0) as [L | [E | G]]; [| contradiction |].
      + rewrite get_side_back by (rewrite Hd; nra). cbn [fst]. rewrite !vdot_scale_l, Hd, vlen2_scale, U, Nu, Nv.
        repeat split; try ring. nra.
      + rewrite get_side_front by (rewrite Hd; nra). cbn [fst]. rewrite Hd. repeat split; try assumption. nra.
  Qed.
End CylData.

(** ** hit data carried to world space ([IntersectionInfo::transform]) *)
Definition rigid (t : T) : Prop := forall u v : V, vdot (tr_vec t u) (tr_vec t v) = vdot u v.
Lemma vdot_self_zero (w : V) : vdot w w = 0 -> w = mkV3 0 0 0.
Proof. destruct w as [a b c]. unfold vdot. cbn [vx vy vz]. rnum. intros H. assert (a = 0 /\ b = 0 /\ c = 0) as (-> & -> & ->) by (repeat split; nra). reflexivity. Qed.
Lemma vdot_sub_l (a b v : V) : vdot (vsub a b) v = vdot a v - vdot b v.
Proof. destruct a as [a1 a2 a3], b as [b1 b2 b3], v as [v1 v2 v3]. unfold vdot, vsub. cbn [vx vy vz]. rnum. ring. Qed.
Lemma vsub_zero_eq (a b : V) : vsub a b = mkV3 0 0 0 -> a = b.
Proof. destruct a as [a1 a2 a3], b as [b1 b2 b3]. unfold vsub. cbn [vx vy vz]. rnum. intros [= H1 H2 H3]. apply v3_eq; cbn [vx vy vz]; lra. Qed.
(** for a rigid transform the inverse transpose is the matrix itself: normals transform like vectors *)
Lemma rigid_normal (t : T) (n : V) : Inv t -> rigid t -> tr_normal t n = tr_vec t n.
Proof.
  intros Hi Hrig. apply vsub_zero_eq, vdot_self_zero.
  set (w := vsub (tr_normal t n) (tr_vec t n)).
  rewrite <- (vec_inv_vec t w Hi) at 2. unfold w at 1. rewrite vdot_sub_l, normal_dot_vec, Hrig by exact Hi. ring.
Qed.
Lemma rigid_normal_unit (t : T) (n : V) : Inv t -> rigid t -> vlen2 (tr_normal t n) = vlen2 n.
Proof.
  intros Hi Hrig. rewrite rigid_normal by assumption.
  assert (E : forall v : V, vlen2 v = vdot v v) by (intros [a b c]; reflexivity). rewrite !E. apply Hrig.
Qed.

Theorem info_transform_coherent (t : T) (i : Info R) (ray : Ray R) (g : V) : Inv t ->
  let i' := info_transform i t in
  let dl := rdir (fst (fst (tr_inv_ray t ray))) in
  (* the world normal against the world direction = the local normal against the local direction *)
  vdot (inormal i') (rdir ray) = vdot (inormal i) dl /\
  (* the world normal stays perpendicular to the world tangents *)
  vdot (inormal i') (idpdu i') = vdot (inormal i) (idpdu i) /\
  vdot (inormal i') (idpdv i') = vdot (inormal i) (idpdv i) /\
  (* the world tangents stay tangent: g = local gradient, M^-T g = world gradient *)
  vdot (tr_normal t g) (idpdu i') = vdot g (idpdu i) /\ vdot (tr_normal t g) (idpdv i') = vdot g (idpdv i) /\
  iside i' = iside i /\ tr_inv_pt t (ip i') = ip i /\
  (rigid t -> vlen2 (inormal i') = vlen2 (inormal i)).
Proof.
  intros Hi. cbv zeta. unfold info_transform. cbn [inormal idpdu idpdv iside ip].
  destruct (inv_ray_world t ray Hi) as (dt & _ & D & _). rewrite D.
  rewrite <- (vec_inv_vec t (rdir ray) Hi) at 1. rewrite !normal_dot_vec by exact Hi.
  repeat split; try reflexivity; [apply inv_pt_pt; exact Hi | intros Hrig; apply rigid_normal_unit; assumption].
Qed.

(** translations and rotations are rigid, and rigid transforms compose *)
Lemma rigid_translate (x y z : R) : rigid (tr_translate x y z).
Proof. intros [a b c] [d e f]. unf. ring. Qed.
Lemma rigid_rotations (deg : R) : rigid (tr_rotate_x deg) /\ rigid (tr_rotate_y deg) /\ rigid (tr_rotate_z deg).
Proof. split; [|split]; intros u v; apply (rotations_rigid deg u v). Qed.
Lemma rigid_mul_assign (a b : T) : Inv a -> Inv b -> rigid a -> rigid b -> rigid (tr_mul_assign a b).
Proof. intros Ha Hb Ra Rb u v. rewrite !mul_assign_acts_vec by assumption. rewrite Ra. apply Rb. Qed.

From Coq Require Import Floats.
From G3 Require Import Model.NumF.
Lemma sphere_pole_witness :
  let s : Sphere float := mkSphere 1%float (-1)%float 1%float (2 * Fpi)%float Fpi 0%float None in
  let ray : Ray float := mkRay (mkV3 0 0 3)%float (mkV3 0 0 (-1))%float in
  match sphere_intersect s ray with
  | Some i => iside i = NonApplicable /\ PrimFloat.eqb (vlen (inormal i)) 0 = true /\
              PrimFloat.is_nan (vy (idpdv i)) = true /\ sphere_info_debug_ok s (ip i) = false
  | None => False
  end.
Proof. vm_compute. repeat split. Qed.

Lemma hit_nonvacuous_proof :
  let s := mkSphere 1 (-1) 1 (2 * PI) PI 0 None in
  let c := mkCyl 1 0 2 (2 * PI) None in
  0 < sradius s /\ on_sphere s (mkV3 1 0 0) /\ sphere_sin_theta s (mkV3 1 0 0) <> 0 /\ 0 < sphi_max s /\ 0 < sdelta_theta s /\
  0 < cradius c /\ on_cyl c (mkV3 1 0 1) /\ 0 < cphi_max c /\ czmin c < czmax c.
Proof.
  cbv zeta. cbn [sradius sphi_max sdelta_theta cradius cphi_max czmin czmax]. pose proof PI_RGT_0.
  assert (Hon : on_sphere (mkSphere 1 (-1) 1 (2 * PI) PI 0 None) (mkV3 1 0 0)).
  { unfold on_sphere, vlen2. cbn [sradius vx vy vz]. rnum. ring. }
  assert (Hr : 0 < sradius (mkSphere 1 (-1) 1 (2 * PI) PI 0 None)) by (cbn [sradius]; lra).
  assert (Hs : sphere_sin_theta (mkSphere 1 (-1) 1 (2 * PI) PI 0 None) (mkV3 1 0 0) <> 0).
  { intros E. apply (proj1 (sph_sin_theta_zero_iff _ _ Hr Hon)) in E. cbn [vx] in E. lra. }
  assert (Hc : on_cyl (mkCyl 1 0 2 (2 * PI) None) (mkV3 1 0 1)) by (unfold on_cyl; cbn [cradius vx vy]; ring).
  repeat (split; [first [lra | exact Hon | exact Hs | exact Hc]|]). lra.
Qed.
