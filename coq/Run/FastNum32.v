(** * FastNum32: the binary32 instance with the rounding step done by primitive operations.

    [NumF32] (Model/NumF32.v) rounds every result to binary32 through Flocq's [binary_normalize] at (24, 128):
    ~80-120 us per arithmetic operation under [vm_compute], about 1000 times the cost of the operation itself; a
    [from_polygon] case takes 25 s on it.  [r32fast] computes the same rounding with five primitive operations:

      for |x| < 2^128 - 2^103, with  2^(e-1) <= |x| < 2^e  and  k = max (e - 24, -149)  (the binary32 quantum at x):
        M = 1.5 * 2^(k + 52);   r = (x + M) - M
      [x + M] lies in the binade [2^(k+52), 2^(k+53)) whose binary64 quantum is exactly 2^k, so the binary64 addition
      (round to nearest, ties to even; M / 2^k is even) IS the rounding of x to a multiple of 2^k, ties to even, and the
      subtraction is exact;  r = 0 keeps the sign of x ([x * 0]);  |x| >= 2^128 - 2^103 (the midpoint above the largest
      binary32 number, which ties to the even 2^128) overflows to the infinity of the sign of x;  NaN stays NaN.

    [r32fast = r32] is PROVED for every argument in Run/FastNum32Proof.v ([r32fast_eq], through Flocq's view of primitive
    floats), hence [NumF32fast = NumF32] ([NumF32fast_eq] there; here [NumF32fast_eq_of_r32] reduces the instance equality
    to that one hypothesis): what the f32 runners execute IS the [NumF32] model.  This file is what the generated case files
    load (no proof scripts, no real numbers); it also keeps the kernel-checked regression [r32fast_agrees_on_sample]:
    bit-for-bit agreement of the two roundings on 105 605 structured arguments -- every binary exponent from 2^-1080 to 2^1031
    (binary64 subnormals, the binary32 subnormal range, the overflow threshold, beyond), times 25 significands built around the
    24-bit rounding boundary (exact binary32 values, exact ties with even / odd lower neighbour, ties +- one binary64 ulp,
    all-ones, alternating patterns), both signs, plus the two zeros, the two infinities and NaN.
    [next_up] / [next_down] stay the reference ones (Flocq's [Bsucc] / [Bpred]); the integer literals are [NumF32]'s,
    memoised like those of Run/FastNum.v ([FofZ32_fast_eq]).  [NumF32memo] is the reference instance with the memoised
    literals only (slow rounding), kept for cross-checks (module [Meshf32ref] of Run/Mesh.v). *)
From Coq Require Import ZArith Floats Bool List Uint63 FunctionalExtensionality.
From G3 Require Import Model.Num Model.NumF Model.NumF32 Run.FastNum.
Import ListNotations.
Local Open Scope float_scope.
Local Open Scope bool_scope.

Definition r32fast (x : float) : float :=
  if 0x1.ffffffp127 <=? abs x then (if x <? 0 then neg_infinity else infinity) else
  let e := snd (frshiftexp x) in                                      (* mag x + 2101 *)
  let ee := if (e <? 1976)%uint63 then 1976%uint63 else e in            (* max (mag x) (-125) + 2101 *)
  let M := ldshiftexp 0x1.8p0 (ee + 28)%uint63 in                      (* 1.5 * 2^(max (mag x) (-125) + 28) *)
  let r := (x + M) - M in
  if r =? 0 then x * 0 else r.

(** bit-level equality of two primitive floats *)
Definition same_bits (a b : float) : bool :=
  match Prim2SF a, Prim2SF b with
  | S754_zero s, S754_zero t => Bool.eqb s t
  | S754_infinity s, S754_infinity t => Bool.eqb s t
  | S754_nan, S754_nan => true
  | S754_finite s m e, S754_finite t n f => Bool.eqb s t && Pos.eqb m n && Z.eqb e f
  | _, _ => false
  end.

Definition sample_significands : list float :=
  [1; 0x1.000001p0; 0x1.000002p0; 0x1.000003p0; 0x1.0000010000001p0; 0x1.0000030000001p0; 0x1.000000fffffffp0;
   0x1.000002fffffffp0; 0x1.fffffep0; 0x1.ffffffp0; 0x1.fffffefffffffp0; 0x1.ffffff0000001p0; 0x1.fffffffffffffp0;
   0x1.5555555555555p0; 0x1.aaaaaaaaaaaaap0; 0x1.234567p0; 0x1.2345678p0; 0x1.23456789abcdep0; 0x1.8p0; 0x1.c000008p0;
   0x1.000001fffffffp0; 0x1.0000020000001p0; 0x1.7ffffffffffffp0; 0x1.0000008p0; 0x1.0000018000001p0].
Definition sample_exponents : list Z := map (fun i => (Z.of_nat i - 1080)%Z) (seq 0 2112).
Definition agrees (x : float) : bool := same_bits (r32fast x) (r32 x).
Definition r32fast_sample_check : bool :=
  forallb (fun e => forallb (fun m => let v := m * Z.ldexp 1 e in agrees v && agrees (- v)) sample_significands) sample_exponents
  && forallb agrees [0; -0; infinity; neg_infinity; nan].

Example r32fast_agrees_on_sample : r32fast_sample_check = true.
Proof. vm_compute. reflexivity. Qed.

(** the integer literals of [NumF32], memoised: EQUAL to [fun z => r32 (FofZ z)] *)
Definition FofZ32_fast (z : Z) : float :=
  if Z.eqb z 100000 then 100000 else
  if Z.eqb z 100 then 100 else
  if Z.eqb z 1 then 1 else
  if Z.eqb z 0 then 0 else
  if Z.eqb z 2 then 2 else
  if Z.eqb z 1000 then 1000 else
  if Z.eqb z 3 then 3 else
  if Z.eqb z 4 then 4 else
  if Z.eqb z 10 then 10 else
  if Z.eqb z 180 then 180 else
  if Z.eqb z 360 then 360 else
  if Z.eqb z 10000000 then 10000000 else
  if Z.eqb z 1000000 then 1000000 else
  if Z.eqb z 100000000 then 100000000 else
  if Z.eqb z 1000000000 then 1000000000 else
  if Z.eqb z 10000000000 then 10000000000 else
  r32 (FofZ z).

Lemma FofZ32_fast_eq : forall z, FofZ32_fast z = r32 (FofZ z).
Proof.
  intros z. unfold FofZ32_fast.
  repeat match goal with
         | |- (if Z.eqb z ?k then _ else _) = _ =>
           destruct (Z.eqb_spec z k) as [->|_]; [vm_compute; reflexivity|]
         end.
  reflexivity.
Qed.

(** [NumF32] with the memoised literals only: EQUAL to [NumF32] (the reference instance, faster constants) *)
Definition NumF32memo : Num float := {|
  nadd := fun a b => r32 (a + b); nsub := fun a b => r32 (a - b);
  nmul := fun a b => r32 (a * b); ndiv := fun a b => r32 (a / b);
  nneg := PrimFloat.opp; nabs := PrimFloat.abs; nsqrt := fun a => r32 (PrimFloat.sqrt a);
  nltb := PrimFloat.ltb; nleb := PrimFloat.leb; neqb := PrimFloat.eqb;
  nofZ := FofZ32_fast; neps := 0x1p-23; nmaxf := 0x1.fffffep127; ninf := infinity;
  nnext_up := next_up32; nnext_dn := next_dn32; nis_nan := PrimFloat.is_nan;
  nsin := fun x => r32 (Fsin x); ncos := fun x => r32 (Fcos x); ntan := fun x => r32 (Ftan x);
  nacos := fun x => r32 (Facos x); natan2 := fun y x => r32 (Fatan2 y x); npi := r32 Fpi
|}.
Lemma NumF32memo_eq : NumF32memo = NumF32.
Proof.
  unfold NumF32memo, NumF32. f_equal. apply functional_extensionality. exact FofZ32_fast_eq.
Qed.

(** the executed instance: [NumF32] with [r32fast] in the place of [r32] *)
Definition NumF32fast : Num float := {|
  nadd := fun a b => r32fast (a + b); nsub := fun a b => r32fast (a - b);
  nmul := fun a b => r32fast (a * b); ndiv := fun a b => r32fast (a / b);
  nneg := PrimFloat.opp; nabs := PrimFloat.abs; nsqrt := fun a => r32fast (PrimFloat.sqrt a);
  nltb := PrimFloat.ltb; nleb := PrimFloat.leb; neqb := PrimFloat.eqb;
  nofZ := FofZ32_fast; neps := 0x1p-23; nmaxf := 0x1.fffffep127; ninf := infinity;
  nnext_up := next_up32; nnext_dn := next_dn32; nis_nan := PrimFloat.is_nan;
  nsin := fun x => r32fast (Fsin x); ncos := fun x => r32fast (Fcos x); ntan := fun x => r32fast (Ftan x);
  nacos := fun x => r32fast (Facos x); natan2 := fun y x => r32fast (Fatan2 y x); npi := r32 Fpi
|}.

(** the one hypothesis that separates the executed instance from the reference one *)
Lemma NumF32fast_eq_of_r32 : (forall x, r32fast x = r32 x) -> NumF32fast = NumF32.
Proof.
  intros H. rewrite <- NumF32memo_eq. unfold NumF32fast, NumF32memo.
  assert (E : r32fast = r32) by (apply functional_extensionality; exact H).
  rewrite E. reflexivity.
Qed.
