(** * C11 runner: histories of candidate holes on the Polygon model (primitive floats); outcome class and
    the complete polygon state (area, normal, outer vertices, every inner loop) compared after every call. *)
From G3 Require Export Run.PolyCommon.
From G3 Require Import Run.FastNum32.

(** (outcome, [area; nx; ny; nz], outer vertices, inner loops) *)
Definition PSnap := (N * list spec_float * list spec_float * list LoopIn)%type.
(** the runner text is written once, in a section over the number instance: [C11] on [NumF] (f64 build), [C11f32] on
    [NumF32fast] (= [NumF32], Run/FastNum32Proof.v) for the build with `--features float`; bit for bit in both *)
Section WithInstance.
Context {NK : Num float}.
Definition poly_eqb (P : Poly K) (e : PSnap) : bool :=
  let '(_, an, ov, inner) := e in
  sfl_eqb (Prim2SF (parea P) :: vec_sf (pnormal P)) an && sfl_eqb (flat (verts (pouter P))) ov && loops_eqb (pinner P) inner.
Definition bit (o : N) : N := match o with 0 => 1 | 50 => 2 | 51 => 4 | 52 => 8 | _ => 16 end%N.
Fixpoint run_hist (P : Poly K) (hs : list LoopIn) (es : list PSnap) (mask : N) : N :=
  match hs, es with
  | h :: hs', e :: es' =>
    let '(P', r) := poly_step P (mk_loop h) in
    let o := out_class r in
    let '(eo, _, _, _) := e in
    if N.eqb o eo && (N.eqb eo 99 || poly_eqb P' e) then
      (if N.eqb o 99 then N.lor mask 16 else run_hist P' hs' es' (N.lor mask (bit o)))
    else 0%N
  | _, _ => mask
  end.
(** tag = 32 + set of outcome classes seen (1 accepted, 2 not parallel, 4 vertex outside, 8 encloses, 16 other) *)
Definition chk (c : LoopIn * PSnap * list LoopIn * list PSnap) : N :=
  let '(outer, init, hs, es) := c in
  match poly_new (mk_loop outer) with
  | Ok P => if poly_eqb P init then (let t := run_hist P hs es 0 in if N.eqb t 0 then 0 else 32 + t)%N else 0%N
  | _ => 0%N
  end.

End WithInstance.

Module C11.
  Definition run := run_cases (@chk NumF).
End C11.
Module C11f32.
  Definition run := run_cases (@chk NumF32fast).
End C11f32.
