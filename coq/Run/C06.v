(** * C06/C16 runner: Transform model on primitive floats against the f64 build.
    Constructors pass through libm: compared at 1e-12; everything else bit for bit. *)
From G3 Require Import Run.Harness Run.FastNum32 Model.NumF32 Model.Vec Model.BBox Model.Transform Model.Hit.

Definition K := float.
Section WithInstance.
Context {NK : Num float} (tol : float).
Definition fl (l : list spec_float) (i : nat) : K := SF2Prim (nthsf l i).
Definition m4_of (l : list spec_float) (o : nat) : M4 K :=
  mkM4 (fl l (o+0)) (fl l (o+1)) (fl l (o+2)) (fl l (o+3)) (fl l (o+4)) (fl l (o+5)) (fl l (o+6)) (fl l (o+7))
       (fl l (o+8)) (fl l (o+9)) (fl l (o+10)) (fl l (o+11)) (fl l (o+12)) (fl l (o+13)) (fl l (o+14)) (fl l (o+15)).
Definition tr_of (l : list spec_float) : Tr K := mkTr (m4_of l 0) (m4_of l 16).
Definition m4_list (m : M4 K) : list K :=
  [m00 m; m01 m; m02 m; m03 m; m10 m; m11 m; m12 m; m13 m; m20 m; m21 m; m22 m; m23 m; m30 m; m31 m; m32 m; m33 m].
Definition tr_list (t : Tr K) : list K := m4_list (elements t) ++ m4_list (inv_elements t).
Definition v_of (l : list spec_float) (o : nat) : V3 K := mkV3 (fl l o) (fl l (o+1)) (fl l (o+2)).
Definition v_list (v : V3 K) : list K := [vx v; vy v; vz v].
Definition exact_eq (a : list K) (b : list spec_float) : bool := sfl_eqb (map Prim2SF a) b.
Fixpoint close_eq (a : list K) (b : list spec_float) : bool :=
  match a, b with
  | [], [] => true
  | x :: a, y :: b => fclose tol x (SF2Prim y) && close_eq a b
  | _, _ => false
  end.
Definition ray_out (x : Ray K * V3 K * V3 K) : list K :=
  let '(r, oe, de) := x in v_list (rorigin r) ++ v_list (rdir r) ++ v_list oe ++ v_list de.
Definition pe_out (x : V3 K * V3 K) : list K := v_list (fst x) ++ v_list (snd x).
Definition bb_out (b : BBox K) : list K := v_list (bmin b) ++ v_list (bmax b).

Definition apply_op (t : Tr K) (op : N) (i : list spec_float) : list K :=
  let p := v_of i 0 in let q := v_of i 3 in
  let ray := mkRay p q in
  match op with
  | 0 => v_list (tr_pt t p) | 1 => v_list (tr_inv_pt t p)
  | 2 => v_list (tr_vec t p) | 3 => v_list (tr_inv_vec t p)
  | 4 => v_list (tr_normal t p) | 5 => v_list (tr_inv_normal t p)
  | 6 => ray_out (tr_ray t ray) | 7 => ray_out (tr_inv_ray t ray)
  | 8 => bb_out (tr_bbox t (bbox_new p q)) | 9 => bb_out (tr_inv_bbox t (bbox_new p q))
  | 10 => [if tr_changes_hands t then 1 else 0]%float
  | 11 => pe_out (pt_with_error (elements t) p) | 12 => pe_out (pt_with_error (inv_elements t) p)
  | 13 => pe_out (pt_propagate_error (elements t) p q) | 14 => pe_out (pt_propagate_error (inv_elements t) p q)
  | 15 => pe_out (vec_with_error (elements t) p) | 16 => pe_out (vec_with_error (inv_elements t) p)
  | 17 => pe_out (vec_propagate_error (elements t) p q) | 18 => pe_out (vec_propagate_error (inv_elements t) p q)
  | 19 => ray_out (tr_ray_propagate t ray (v_of i 6) (v_of i 9))
  | 20 => ray_out (tr_inv_ray_propagate t ray (v_of i 6) (v_of i 9))
  | 21 => let o := info_transform (mkInfo p q Front (v_of i 6) (v_of i 9)) t in
          v_list (ip o) ++ v_list (inormal o) ++ v_list (idpdu o) ++ v_list (idpdv o)
  | _ => let o := info_inv_transform (mkInfo p q Front (v_of i 6) (v_of i 9)) t in
          v_list (ip o) ++ v_list (inormal o) ++ v_list (idpdu o) ++ v_list (idpdv o)
  end%N.

Definition ctor (k : N) (a : list spec_float) : Tr K :=
  match k with
  | 0 => tr_translate (fl a 0) (fl a 1) (fl a 2)
  | 1 => tr_scale (fl a 0) (fl a 1) (fl a 2)
  | 2 => tr_rotate_x (fl a 0) | 3 => tr_rotate_y (fl a 0) | _ => tr_rotate_z (fl a 0)
  end%N.

(** case = (kind, first list, op/k, second list, expected) *)
Definition chk (c : N * list spec_float * N * list spec_float * list spec_float) : N :=
  let '(kind, a, op, b, e) := c in
  match kind with
  | 0 => if (if N.leb op 1 then exact_eq else close_eq) (tr_list (ctor op a)) e then (1 + op) else 0
  | 1 => if exact_eq (tr_list (tr_mul_assign (tr_of a) (tr_of b))) e then 10 else 0
  | _ => if exact_eq (apply_op (tr_of a) op b) e then (20 + op) else 0
  end%N.

End WithInstance.

Module C06.
  Definition run := run_cases (@chk NumF 0x1p-40).
End C06.
(** the f32 build (streams C06 and C16): the same model text on the binary32 instance (libm in single precision: 2^-20); executed on
    [NumF32fast], PROVED equal to the Flocq-rounded [NumF32] (Run/FastNum32Proof.v: NumF32fast_eq) and about 1000 times faster *)
Module C06f32.
  Definition run := run_cases (@chk NumF32fast 0x1p-20).
End C06f32.
