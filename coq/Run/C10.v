(** * C10 runner: a family of outlines (base, cyclic shifts, reversals, collinear enrichments, rigidly
    moved copies), each built through push* / close on the Loop model (primitive floats); class,
    stored vertices, normal, area, perimeter and centroid compared bit for bit. *)
From G3 Require Import Run.Harness Run.FastNum32 Model.Vec Model.Segment Model.Loop Model.Polygon Run.C04.

Section WithInstance.
Context {NK : Num float}.
(** push all points then close: final state and outcome class (first refusal stops, as in the harness) *)
Fixpoint build (L : Loop K) (pts : list (V3 K)) : Loop K * N :=
  match pts with
  | [] => let '(L', r) := loop_close L in (L', out_class r)
  | p :: tl => match loop_push L p with
               | Ok L' => build L' tl
               | Err c => (L, c)
               | Panic _ => (L, 99%N)
               end
  end.
(** the state just before [close] (to see whether [set_area] flipped the normal) *)
Fixpoint before_close (L : Loop K) (pts : list (V3 K)) : Loop K :=
  match pts with
  | [] => L
  | p :: tl => match loop_push L p with Ok L' => before_close L' tl | _ => L end
  end.
Definition v3_sf (v : V3 K) : list spec_float := [Prim2SF (vx v); Prim2SF (vy v); Prim2SF (vz v)].
Definition variant := (list spec_float * (N * list spec_float * list spec_float * list spec_float * list spec_float * list spec_float))%type.
(** Polygon3D::new of the closed loop: area, normal, outer centroid *)
Definition poly_sf (L : Loop K) : list spec_float :=
  match poly_new L with
  | Ok P => Prim2SF (parea P) :: v3_sf (pnormal P) ++ v3_sf (poly_outer_centroid P)
  | _ => []
  end.
(** 0 = mismatch; 1 = agrees (error outcome); 2 = agrees, normal kept; 3 = agrees, normal flipped by set_area *)
Definition chk_variant (c : variant) : N :=
  let '(pin, (eo, ev, en, eap, ec, epg)) := c in
  let pts := unflat pin (length pin) in
  let '(L, o) := build loop_new pts in
  if negb (N.eqb o eo) then 0%N else
  if negb (N.eqb o 0) then 1%N else
  let cen := match loop_centroid L with Ok c => v3_sf c | _ => [] end in
  if sfl_eqb (flat (verts L)) ev && sfl_eqb (v3_sf (lnormal L)) en &&
     sfl_eqb [Prim2SF (larea L); Prim2SF (lperim L)] eap && sfl_eqb cen ec && sfl_eqb (poly_sf L) epg
  then (if sfl_eqb (v3_sf (lnormal (before_close loop_new pts))) en then 2%N else 3%N)
  else 0%N.
(** family tag: 0 if any variant mismatches; else 1 + (4 if some variant errored) + (1 if some normal kept) + (2 if some normal flipped) *)
Fixpoint fam (vs : list variant) (err kept flipped : bool) : N :=
  match vs with
  | [] => (1 + (if err then 4 else 0) + (if kept then 1 else 0) + (if flipped then 2 else 0))%N
  | v :: tl => match chk_variant v with
               | 0%N => 0%N
               | 1%N => fam tl true kept flipped
               | 2%N => fam tl err true flipped
               | _ => fam tl err kept true
               end
  end.
Definition chk (vs : list variant) : N := fam vs false false false.

End WithInstance.

Module C10.
  Definition run := run_cases (@chk NumF).
End C10.
(** the f32 build (`--features float`): the same runner on the binary32 instance [NumF32fast] (= [NumF32], Run/FastNum32Proof.v) *)
Module C10f32.
  Definition run := run_cases (@chk NumF32fast).
End C10f32.
