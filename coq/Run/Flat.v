(** * Flat runner (part pflat of C02 / C03 / C13): triangle, plane, disk, distant source on primitive floats
    against the f64 build.  case = (op, prim, rays, expected); see harness/src/flat.rs for the layout.
    Everything is compared bit for bit except: [phi] of Disk3D::basic_intersection and the fields of
    DistantSource3D::new (libm: 2^-40 relative); a decision [phi > phi_max] is compared only when the model's
    margin |phi - phi_max| exceeds 1e-9 and (x,y) is not the origin (atan2's signed-zero conventions);
    skipped cases get the tag 9900+op.
    Path tags = 100 * op + the model's own tag of the decision; ops without rays: 2 tri_new, 5 plane_new, 8 Plane3D::test_point
    (801 false / 802 true), 9 Ray3D::advance (901), 10 / 11 disk constructors, 18 disk area, 20 distant_new, 25 DistantSource3D::area (2501).

    The runner text is written once, in a section over the number instance [NK : Num float] and the two libm
    parameters ([tol]: closeness of libm-dependent values; [margin]: the least |phi - phi_max| at which a decision
    on a libm result is compared): module [Flat] instantiates it on [NumF] (2^-40, 1e-9) for the f64 build, module
    [Flatf32] on [NumF32fast] (= [NumF32], proved in Run/FastNum32Proof.v: the rounding to binary32 done by primitive
    operations) with 2^-20 = 8 ulp32 and 2^-16, for the build with `--features float`. *)
From G3 Require Import Run.Harness Run.FastNum32 Model.NumF32 Model.Vec Model.BBox Model.Transform Model.Hit Model.Segment Model.Triangle
  Model.Plane Model.Disk Model.Distant.

Definition K := float.
Section WithInstance.
Context {NK : Num float} (tol margin : float).
Definition fl (l : list spec_float) (i : nat) : K := SF2Prim (nthsf l i).
Definition v_of (l : list spec_float) (o : nat) : V3 K := mkV3 (fl l o) (fl l (o+1)) (fl l (o+2)).
Definition m4_of (l : list spec_float) (o : nat) : M4 K :=
  mkM4 (fl l (o+0)) (fl l (o+1)) (fl l (o+2)) (fl l (o+3)) (fl l (o+4)) (fl l (o+5)) (fl l (o+6)) (fl l (o+7))
       (fl l (o+8)) (fl l (o+9)) (fl l (o+10)) (fl l (o+11)) (fl l (o+12)) (fl l (o+13)) (fl l (o+14)) (fl l (o+15)).
Definition ray_of (l : list spec_float) (o : nat) : Ray K := mkRay (v_of l o) (v_of l (o+3)).

(** an output item: value + "compare closely" flag *)
Definition X := (K * bool)%type.
Definition ex (x : K) : X := (x, false).
Definition cl (x : K) : X := (x, true).
Definition exv (v : V3 K) : list X := [ex (vx v); ex (vy v); ex (vz v)].
Definition side_code (s : Side) : K := match s with Front => 0 | Back => 1 | NonApplicable => 2 end%float.
Definition enc_pt (o : option (V3 K)) : list X := match o with None => [ex 0%float] | Some p => ex 1%float :: exv p end.
Definition enc_info (o : option (Info K)) : list X :=
  match o with
  | None => [ex 0%float]
  | Some i => ex 1%float :: exv (ip i) ++ exv (inormal i) ++ [ex (side_code (iside i))] ++ exv (idpdu i) ++ exv (idpdv i)
  end.
Definition panic_out : list X := [ex 2%float].

Fixpoint cmp (a : list X) (b : list spec_float) : bool :=
  match a, b with
  | [], [] => true
  | (x, c) :: a, y :: b => (if c then fclose tol x (SF2Prim y) else sf_eqb (Prim2SF x) y) && cmp a b
  | _, _ => false
  end.

(** result of the model on one ray: outputs, path tag, skip? *)
Record R1 := mkR1 { r_out : list X; r_tag : N; r_skip : bool }.

Definition disk_of (p : list spec_float) : Disk K :=
  (* p.(0) = debug flag; fields from 1; transform flag at 13; matrices from 14 *)
  let tr := if (0 <? fl p 13)%float then Some (mkTr (m4_of p 14) (m4_of p 30)) else None in
  mkDisk (v_of p 1) (v_of p 4) (fl p 7) (fl p 8) (v_of p 9) (fl p 12) tr.
Definition ds_of (p : list spec_float) : Distant K :=
  mkDistant (v_of p 1) (fl p 4) (fl p 5) (fl p 6) (fl p 7).
Definition debug_on (p : list spec_float) : bool := (0 <? fl p 0)%float.

(** the local ray a disk op works on, and whether the phi decision is within the libm margin *)
Definition disk_local_of (op : N) (d : Disk K) (ray : Ray K) : Ray K :=
  match op with
  | 16 => match dk_transform d with Some t => fst (fst (tr_inv_ray t ray)) | None => ray end
  | 17 => match dk_transform d with Some t => fst (fst (tr_inv_ray t ray)) | None => fst (fst (tr_inv_ray tr_new ray)) end
  | _ => ray
  end%N.
Definition disk_skip (d : Disk K) (lray : Ray K) : bool :=
  match plane_intersect (plane_new (dk_centre d) (dk_normal d)) lray with
  | None => false
  | Some t =>
    let phit := ray_project lray t in
    let r_squared := vlen2 (vsub phit (dk_centre d)) in
    if ((r_squared >? dk_radius d * dk_radius d) || (r_squared <? dk_inner d * dk_inner d))%num then false else
    let '(x, y) := disk_xy d phit in
    let phi := disk_phi d phit in
    ((x =? 0) && (y =? 0))%float || (abs (phi - dk_phi_max d) <=? margin)%float || is_nan phi
  end.

Definition get_side_dbg (dbg : bool) (n : V3 K) : bool := dbg && negb (get_side_debug_ok n).

Definition run1 (op : N) (p : list spec_float) (ray : Ray K) (extra : list spec_float) : R1 :=
  let dbg := debug_on p in
  match op with
  | 1 => let '(o, t) := intersect_triangle_tag ray (v_of p 1) (v_of p 4) (v_of p 7) in
         mkR1 (match o with None => [ex 0%float] | Some (q, u, v) => ex 1%float :: exv q ++ [ex u; ex v] end) t false
  | 3 => let t := mkTri (v_of p 1) (v_of p 4) (v_of p 7) (mkV3 0 0 0)%float 0%float in
         let tag := snd (intersect_triangle_tag ray (ta t) (tb t) (tc t)) in
         if (N.eqb tag 5) && get_side_dbg dbg (vnormalize (vcross (vsub (tb t) (ta t)) (vsub (tc t) (ta t)))) then mkR1 panic_out 7 false
         else mkR1 (enc_info (tri_intersect t ray)) tag false
  | 4 => let t := mkTri (v_of p 1) (v_of p 4) (v_of p 7) (mkV3 0 0 0)%float 0%float in
         let lray := fst (fst (tr_inv_ray tr_new ray)) in
         mkR1 (enc_pt (tri_simple_intersect t ray)) (snd (intersect_triangle_tag lray (ta t) (tb t) (tc t))) false
  | 6 | 7 => let '(o, t) := plane_intersect_tag (mkPlane (v_of p 1) (fl p 4)) ray in
         mkR1 (match o with None => [ex 0%float] | Some x => [ex 1%float; ex x] end) t false
  | 12 => let d := disk_of p in
         let '(o, t) := disk_basic_intersection_tag d ray in
         mkR1 (match o with None => [ex 0%float] | Some (q, phi) => ex 1%float :: exv q ++ [cl phi] end) t (disk_skip d ray)
  | 13 => let d := disk_of p in
         if get_side_dbg dbg (dk_normal d) then mkR1 panic_out 7 false else
         mkR1 (enc_info (disk_intersection_info d ray (v_of extra 0) (fl extra 3))) 1 false
  | 14 => let d := disk_of p in
         mkR1 (enc_pt (disk_simple_intersect_local_ray d ray)) (snd (disk_basic_intersection_tag d ray)) (disk_skip d ray)
  | 15 | 16 => let d := disk_of p in
         let lray := disk_local_of op d ray in
         let tag := snd (disk_basic_intersection_tag d lray) in
         if (N.eqb tag 4) && get_side_dbg dbg (dk_normal d) then mkR1 panic_out 7 (disk_skip d lray) else
         mkR1 (enc_info (if N.eqb op 15 then disk_intersect_local_ray d ray else disk_intersect d ray)) tag (disk_skip d lray)
  | 17 => let d := disk_of p in
         let lray := disk_local_of op d ray in
         mkR1 (enc_pt (disk_simple_intersect d ray)) (snd (disk_basic_intersection_tag d lray)) (disk_skip d lray)
  | 21 => let s := ds_of p in
         mkR1 (enc_pt (distant_simple_intersect_local_ray s ray)) (snd (distant_simple_intersect_local_ray_tag s ray)) false
  | 22 | 23 => let s := ds_of p in
         let tag := snd (distant_simple_intersect_local_ray_tag s ray) in
         if N.eqb tag 1 then mkR1 [ex 0%float] 1 false else
         (* debug builds: the debug_assert of Disk3D::new_detailed, then the one of get_side *)
         match distant_intersect s ray with
         | Panic site => mkR1 panic_out (10 + site) false
         | Err _ => mkR1 panic_out 9 false
         | Ok o =>
           if dbg && negb (distant_proxy_debug_ok s) then mkR1 panic_out 8 false else
           if get_side_dbg dbg (vnormalize (ds_direction s)) then mkR1 panic_out 7 false else
           mkR1 (enc_info o) 2 false
         end
  | 24 => let s := ds_of p in
         let lray := fst (fst (tr_inv_ray tr_new ray)) in
         mkR1 (enc_pt (distant_simple_intersect s ray)) (snd (distant_simple_intersect_local_ray_tag s lray)) false
  | _ => mkR1 [] 0 false
  end%N.

(** all rays of a case (6 floats each; 10 for op 13: ray, phit, phi) *)
Fixpoint run_rays (fuel : nat) (op : N) (p : list spec_float) (rays : list spec_float) : list X * N * bool :=
  match fuel with
  | O => ([], 0%N, false)
  | S fuel =>
    match rays with
    | [] => ([], 0%N, false)
    | _ =>
      let w := if N.eqb op 13 then 10%nat else 6%nat in
      let r := run1 op p (ray_of rays 0) (skipn 6 rays) in
      let '(o, t, s) := run_rays fuel op p (skipn w rays) in
      (r_out r ++ o, if N.eqb t 0 then r_tag r else (r_tag r * 10 + t)%N, r_skip r || s)
    end
  end.

Definition disk_fields_out (d : Disk K) : list X :=
  exv (dk_centre d) ++ exv (dk_normal d) ++ [ex (dk_radius d); ex (dk_inner d)] ++ exv (dk_phi_zero d) ++ [ex (dk_phi_max d)].

Definition chk (c : N * list spec_float * list spec_float * list spec_float) : N :=
  let '(op, p, rays, e) := c in
  let dbg := debug_on p in
  let fin (o : list X) (tag : N) (skip : bool) : N :=
    if skip then (9900 + op)%N else if cmp o e then (op * 100 + tag)%N else 0%N in
  match op with
  | 2 => match tri_new (v_of p 1) (v_of p 4) (v_of p 7) with
         | Ok t => fin (ex 1%float :: exv (tnormal t) ++ [ex (tarea t)]) 1 false
         | Err c => fin [ex 0%float; ex (FofZ (Z.of_N c))] 2 false
         | Panic _ => fin panic_out 3 false
         end
  | 5 => let pl := plane_new (v_of p 1) (v_of p 4) in fin (exv (pl_normal pl) ++ [ex (pl_d pl)]) 1 false
  | 10 => let r := disk_new_detailed (v_of p 1) (v_of p 4) (fl p 7) (fl p 8) (v_of p 9) (fl p 12) None in
         if dbg && negb (disk_new_debug_ok (v_of p 4) (v_of p 9)) then fin panic_out 8 false else
         match r with
         | Ok d => fin (ex 1%float :: disk_fields_out d) 1 false
         | Err _ => fin panic_out 9 false
         | Panic s => fin panic_out s false
         end
  | 11 => let r := disk_new (v_of p 1) (v_of p 4) (fl p 7) in
         match r with
         | Panic 25 => fin panic_out 25 false
         | _ =>
           if dbg && negb (disk_new_debug_ok0 (v_of p 4)) then fin panic_out 8 false else
           match r with
           | Ok d => fin (ex 1%float :: disk_fields_out d) 1 false
           | Err _ => fin panic_out 9 false
           | Panic s => fin panic_out s false
           end
         end
  | 8 => (* Plane3D::test_point: [rays] = the point; tags 801 = false, 802 = true *)
         let b := plane_test_point (mkPlane (v_of p 1) (fl p 4)) (v_of rays 0) in
         fin [ex (if b then 1 else 0)%float] (if b then 2 else 1) false
  | 9 => (* Ray3D::advance: [rays] = origin, direction, t; tag 901 *)
         let r := ray_advance (ray_of rays 0) (fl rays 6) in
         fin (exv (rorigin r) ++ exv (rdir r)) 1 false
  | 25 => (* DistantSource3D::area; tag 2501 *)
         fin [ex (distant_area (ds_of p))] 1 false
  | 18 => fin [ex (disk_area (disk_of p))] 1 false
  | 20 => let s := distant_new (v_of p 1) (fl p 4) in
         fin (exv (ds_direction s) ++ [cl (ds_omega s); ex (ds_angle s); cl (ds_cos_half_alpha s); cl (ds_tan_half_alpha s)]) 1 false
  | _ => let '(o, t, s) := run_rays 4 op p rays in fin o t s
  end%N.

End WithInstance.

Module Flat.
  Definition run := run_cases (@chk NumF 0x1p-40 0x1.12e0be826d695p-30).
End Flat.
(** the f32 build: the same runner on the binary32 instance; the platform's sinf / cosf / atan2f / acosf against the
    correctly rounded binary32 image of the software libm: a few ulp32 *)
Module Flatf32.
  Definition run := run_cases (@chk NumF32fast 0x1p-20 0x1p-16).
End Flatf32.
