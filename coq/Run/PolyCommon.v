(** * Shared by the C11 / C12 / C20 runners: loops and polygons travelling as float lists. *)
From G3 Require Export Run.Harness Model.Vec Model.Segment Model.Loop Model.Polygon.

Definition K := float.
Definition fl (l : list spec_float) (i : nat) : K := SF2Prim (nthsf l i).
Definition v_of (l : list spec_float) (o : nat) : V3 K := mkV3 (fl l o) (fl l (o+1)) (fl l (o+2)).
Fixpoint flat (vs : list (V3 K)) : list spec_float :=
  match vs with [] => [] | v :: tl => Prim2SF (vx v) :: Prim2SF (vy v) :: Prim2SF (vz v) :: flat tl end.
Fixpoint unflat (l : list spec_float) (fuel : nat) : list (V3 K) :=
  match fuel, l with
  | S f, a :: b :: c :: tl => mkV3 (SF2Prim a) (SF2Prim b) (SF2Prim c) :: unflat tl f
  | _, _ => []
  end.
Definition out_class {A} (r : res A) : N := match r with Ok _ => 0 | Err c => c | Panic _ => 99 end%N.

(** a loop state: (vertices, normal, closed, [area; perimeter]) -- the last two are only observable
    on a closed loop (placeholders -1 otherwise) *)
Definition LoopIn := (list spec_float * list spec_float * bool * list spec_float)%type.
(** typed empty lists / an empty loop state for the generated case files (they carry no type annotations) *)
Definition nosf : list spec_float := [].
Definition noloops : list LoopIn := [].
Definition noloop : LoopIn := ([], [], false, []).
Definition mk_loop (l : LoopIn) : Loop K :=
  let '(v, n, c, ap) := l in mkLoop (unflat v (length v)) (v_of n 0) c (fl ap 0) (fl ap 1).
Definition vec_sf (v : V3 K) : list spec_float := [Prim2SF (vx v); Prim2SF (vy v); Prim2SF (vz v)].
Definition loop_eqb (L : Loop K) (e : LoopIn) : bool :=
  let '(ev, en, ec, eap) := e in
  sfl_eqb (flat (verts L)) ev && sfl_eqb (vec_sf (lnormal L)) en && Bool.eqb (lclosed L) ec &&
  (if ec then sfl_eqb [Prim2SF (larea L); Prim2SF (lperim L)] eap else true).
Fixpoint loops_eqb (Ls : list (Loop K)) (es : list LoopIn) : bool :=
  match Ls, es with
  | [], [] => true
  | L :: Ls', e :: es' => loop_eqb L e && loops_eqb Ls' es'
  | _, _ => false
  end.
