(** * FastNum32Proof: [r32fast = r32], hence [NumF32fast = NumF32].

    [r32] (Model/NumF32.v) rounds a binary64 number to binary32 through Flocq's [binary_normalize] at (24, 128) and comes
    back through [SF2Prim]; [r32fast] (Run/FastNum32.v) does it with primitive operations:
      overflow test against 2^128 - 2^103; exponent by [frshiftexp]; M = 1.5 * 2^(k+52) by [ldshiftexp] where
      k = max (mag x) (-125) - 24 is the binary32 quantum exponent at x; r = (x + M) - M; [x * 0] when r is zero.
    The proof goes through Flocq's view of primitive floats ([Flocq.IEEE754.PrimFloat]: [Prim2B], [add_equiv],
    [sub_equiv], [mul_equiv], [frshiftexp_equiv], [ldshiftexp_equiv], comparisons) and the correctness theorems of
    [Bplus], [Bminus], [Bmult], [Bldexp], [Bfrexp], [binary_normalize]:
    - [round_via_magic] (reals): x + 3 * 2^(k+51) lies in the binade [2^(k+52), 2^(k+53)) whose binary64 quantum is 2^k, and
      3 * 2^51 is even, so the binary64 rounding of the sum is the binary32 rounding of x plus the constant;
    - [round_T32], [round32_overflow], [round32_no_overflow]: 2^128 - 2^103 is the tie that rounds (to even) to 2^128;
      at or above it the reference overflows to the infinity of the sign of x, below it the rounded value is < 2^128;
    - [Prim2B_SF2Prim_b32]: [SF2Prim] on the mantissa / exponent pair of a finite binary32 number (not canonical for
      binary64) yields the binary64 number of the same value and sign;
    - [ref_side]: what [B32ofSF] returns; section [Finite]: what each primitive operation of [r32fast] returns;
    - [r32fast_eq]: zeros, infinities and NaN by computation, finite numbers by [B2R_Bsign_inj].
    Axioms: the specification axioms of primitive floats and integers, the classical reals, functional extensionality
    (for the instance equality only). *)
From Coq Require Import ZArith Reals Lia Lra Psatz Bool Floats Uint63.
From Flocq Require Import Core BinarySingleNaN.
Require Flocq.IEEE754.PrimFloat.
From G3 Require Import Model.Num Model.NumF Model.NumF32 Run.FastNum32.
Module FP := Flocq.IEEE754.PrimFloat.
Open Scope R_scope.

Notation f32exp := (FLT_exp (-149) 24).
Notation f64exp := (FLT_exp (-1074) 53).
Notation b64 := (binary_float 53 1024).
Notation b32 := (binary_float 24 128).
#[local] Instance prec_gt_0_24 : Prec_gt_0 24. Proof. reflexivity. Qed.
#[local] Instance prec_gt_0_53 : Prec_gt_0 53. Proof. reflexivity. Qed.

(** ** part 1 *)
Lemma Zfloor_plus_IZR u n : Zfloor (u + IZR n) = (Zfloor u + n)%Z.
Proof.
apply Zfloor_imp. rewrite !plus_IZR.
generalize (Zfloor_lb u) (Zfloor_ub u). simpl. lra.
Qed.
Lemma Zceil_plus_IZR u n : Zceil (u + IZR n) = (Zceil u + n)%Z.
Proof.
unfold Zceil.
replace (- (u + IZR n)) with (- u + IZR (- n)) by (rewrite opp_IZR; ring).
rewrite Zfloor_plus_IZR. ring.
Qed.
Lemma ZnearestE_plus_even u n : Z.even n = true -> ZnearestE (u + IZR n) = (ZnearestE u + n)%Z.
Proof.
intros En. unfold ZnearestE, Znearest.
rewrite Zfloor_plus_IZR, Zceil_plus_IZR.
replace (u + IZR n - IZR (Zfloor u + n)) with (u - IZR (Zfloor u)) by (rewrite plus_IZR; ring).
rewrite Z.even_add, En.
assert (Hb : forall b, Bool.eqb b true = b) by (intros []; reflexivity). rewrite Hb.
destruct Rcompare; try reflexivity. destruct (negb _); reflexivity.
Qed.

Lemma bpow_S k : bpow radix2 (k + 1) = 2 * bpow radix2 k.
Proof. rewrite bpow_plus. change (bpow radix2 1) with 2. ring. Qed.

Lemma round_via_magic (rx : R) (k : Z) :
  k = cexp radix2 f32exp rx ->
  Rabs rx < bpow radix2 (k + 24) ->
  round radix2 f64exp ZnearestE (rx + 3 * bpow radix2 (k + 51)) = round radix2 f32exp ZnearestE rx + 3 * bpow radix2 (k + 51).
Proof.
intros Hk Hrx.
assert (Hk149 : (-149 <= k)%Z). { rewrite Hk. unfold cexp, FLT_exp. lia. }
set (P := bpow radix2 (k + 51)).
assert (HP : 0 < P) by apply bpow_gt_0.
assert (H24 : bpow radix2 (k + 24) <= P) by (apply bpow_le; lia).
assert (H52 : bpow radix2 (k + 52) = 2 * P).
{ replace (k + 52)%Z with (k + 51 + 1)%Z by ring. apply bpow_S. }
assert (H53 : bpow radix2 (k + 53) = 4 * P).
{ replace (k + 53)%Z with (k + 52 + 1)%Z by ring. rewrite bpow_S, H52. ring. }
assert (Hy : bpow radix2 (k + 53 - 1) <= rx + 3 * P < bpow radix2 (k + 53)).
{ replace (k + 53 - 1)%Z with (k + 52)%Z by ring. rewrite H52, H53.
  apply Rabs_lt_inv in Hrx. lra. }
assert (Hmag : mag radix2 (rx + 3 * P) = (k + 53)%Z :> Z).
{ apply mag_unique_pos. exact Hy. }
assert (Hc64 : cexp radix2 f64exp (rx + 3 * P) = k).
{ unfold cexp. rewrite Hmag. unfold FLT_exp. lia. }
unfold round, scaled_mantissa. rewrite Hc64, <- Hk.
replace ((rx + 3 * P) * bpow radix2 (- k)) with (rx * bpow radix2 (- k) + IZR (3 * 2 ^ 51)).
2:{ unfold P. rewrite Rmult_plus_distr_r. f_equal.
    rewrite Rmult_assoc, <- bpow_plus. replace (k + 51 + - k)%Z with 51%Z by ring.
    exact (mult_IZR 3 (2 ^ 51)). }
rewrite ZnearestE_plus_even by reflexivity.
unfold F2R; cbn [Fnum Fexp]. rewrite plus_IZR, Rmult_plus_distr_r. f_equal.
unfold P. rewrite mult_IZR.
replace (k + 51)%Z with (51 + k)%Z by ring. rewrite bpow_plus.
change (bpow radix2 51) with (IZR (2 ^ 51)). ring.
Qed.

(** ** part 2 *)
Lemma f32_in_f64 x : generic_format radix2 f32exp x -> generic_format radix2 f64exp x.
Proof.
apply generic_inclusion_mag. intros _. unfold FLT_exp. lia.
Qed.

Lemma cexp32_mag rx : cexp radix2 f32exp rx = (Z.max (mag radix2 rx) (-125) - 24)%Z.
Proof. unfold cexp, FLT_exp. lia. Qed.

Lemma abs_lt_cexp32 rx : rx <> 0 -> Rabs rx < bpow radix2 (cexp radix2 f32exp rx + 24).
Proof.
intros Hx. rewrite cexp32_mag.
apply Rlt_le_trans with (bpow radix2 (mag radix2 rx)).
- destruct (mag radix2 rx) as [e He]. simpl. apply He. exact Hx.
- apply bpow_le. lia.
Qed.

Definition T32 : R := bpow radix2 128 - bpow radix2 103.

Lemma T32_bounds : bpow radix2 127 <= T32 < bpow radix2 128.
Proof.
unfold T32.
assert (H : bpow radix2 103 <= bpow radix2 127) by (apply bpow_le; lia).
assert (H1 : bpow radix2 128 = 2 * bpow radix2 127) by (apply (bpow_S 127)).
generalize (bpow_gt_0 radix2 103). lra.
Qed.

(* the midpoint above the largest binary32 number rounds (ties to even) to 2^128 *)
Lemma round_T32 : round radix2 f32exp ZnearestE T32 = bpow radix2 128.
Proof.
assert (Hm : mag radix2 T32 = 128%Z :> Z).
{ apply mag_unique_pos. exact T32_bounds. }
assert (Hc : cexp radix2 f32exp T32 = 104%Z).
{ unfold cexp. rewrite Hm. reflexivity. }
unfold round, scaled_mantissa. rewrite Hc.
assert (Hs : T32 * bpow radix2 (- (104)) = IZR (2 ^ 24 - 1) + / 2).
{ unfold T32. rewrite Rmult_minus_distr_r, <- !bpow_plus.
  change (bpow radix2 (128 + - (104))) with (IZR (2 ^ 24)).
  change (bpow radix2 (103 + - (104))) with (/ IZR 2).
  rewrite minus_IZR. lra. }
rewrite Hs.
assert (Hn : ZnearestE (IZR (2 ^ 24 - 1) + / 2) = (2 ^ 24)%Z).
{ unfold ZnearestE, Znearest.
  assert (Hf : Zfloor (IZR (2 ^ 24 - 1) + / 2) = (2 ^ 24 - 1)%Z).
  { apply Zfloor_imp. rewrite plus_IZR. simpl (IZR 1). lra. }
  assert (Hcl : Zceil (IZR (2 ^ 24 - 1) + / 2) = (2 ^ 24)%Z).
  { apply Zceil_imp. replace (2 ^ 24 - 1)%Z with (2 ^ 24 - 1)%Z by reflexivity.
    rewrite !minus_IZR. simpl (IZR 1). lra. }
  rewrite Hf, Hcl.
  replace (IZR (2 ^ 24 - 1) + / 2 - IZR (2 ^ 24 - 1)) with (/ 2) by ring.
  rewrite Rcompare_Eq by reflexivity. reflexivity. }
rewrite Hn. unfold F2R; cbn [Fnum Fexp].
change (IZR (2 ^ 24)) with (bpow radix2 24). rewrite <- bpow_plus. reflexivity.
Qed.

Lemma round32_overflow rx : T32 <= Rabs rx -> bpow radix2 128 <= Rabs (round radix2 f32exp ZnearestE rx).
Proof.
intros H. rewrite <- round_NE_abs by typeclasses eauto.
rewrite <- round_T32. apply round_le; try typeclasses eauto. exact H.
Qed.

Lemma round32_no_overflow rx : rx <> 0 -> Rabs rx < T32 -> Rabs (round radix2 f32exp ZnearestE rx) < bpow radix2 128.
Proof.
intros Hx H.
assert (Hmag : (mag radix2 rx <= 128)%Z).
{ apply mag_le_bpow. exact Hx. apply Rlt_trans with (1 := H). apply T32_bounds. }
assert (Hc : (cexp radix2 f32exp rx <= 104)%Z) by (rewrite cexp32_mag; lia).
assert (He := error_le_half_ulp radix2 f32exp (fun x => negb (Z.even x)) rx).
rewrite ulp_neq_0 in He by exact Hx.
assert (Hu : bpow radix2 (cexp radix2 f32exp rx) <= bpow radix2 104) by (apply bpow_le; exact Hc).
assert (H104 : bpow radix2 104 = 2 * bpow radix2 103) by (apply (bpow_S 103)).
unfold T32 in H.
replace (round radix2 f32exp ZnearestE rx) with (rx + (round radix2 f32exp ZnearestE rx - rx)) by ring.
apply Rle_lt_trans with (1 := Rabs_triang _ _).
fold (ZnearestE) in He. lra.
Qed.

(** ** part 3 *)
Lemma fexp64_eq : SpecFloat.fexp 53 1024 = f64exp. Proof. reflexivity. Qed.
Lemma fexp32_eq : SpecFloat.fexp 24 128 = f32exp. Proof. reflexivity. Qed.

(* a number m * 2^e with |m| < 2^53 and e >= -1074 is a binary64 number *)
Lemma format64_F2R (m e : Z) : (Z.abs m < 2 ^ 53)%Z -> (-1074 <= e)%Z -> generic_format radix2 f64exp (F2R (Float radix2 m e)).
Proof.
intros Hm He. apply generic_format_FLT.
exists (Float radix2 m e); [reflexivity| |exact He].
cbn [Fnum]. exact Hm.
Qed.

(* what a bounded binary32 mantissa / exponent pair satisfies *)
Lemma bounded32 m e : SpecFloat.bounded 24 128 m e = true -> (Zpos m < 2 ^ 24)%Z /\ (-149 <= e)%Z /\ (e <= 104)%Z.
Proof.
intros H. apply andb_prop in H. destruct H as [H1 H2].
apply Zle_bool_imp_le in H2.
unfold SpecFloat.canonical_mantissa in H1. apply Zeq_bool_eq in H1.
unfold SpecFloat.fexp, SpecFloat.emin in H1.
assert (Hd := Zpos_digits2_pos m). 
split; [|split; lia].
change (SpecFloat.digits2_pos m) with (Digits.digits2_pos m) in H1. rewrite Hd in H1.
assert (Hdig : (Zdigits radix2 (Zpos m) <= 24)%Z) by lia.
apply (Zpower_gt_Zdigits radix2 24 (Zpos m)) in Hdig. simpl in Hdig. lia.
Qed.

Lemma bpow_lt_1024 e : (e <= 1024)%Z -> forall x, Rabs x < bpow radix2 e -> Rabs x < bpow radix2 1024.
Proof. intros He x Hx. apply Rlt_le_trans with (1 := Hx). apply bpow_le. exact He. Qed.

Lemma IZR_pos_lt_bpow (m : positive) n : (Zpos m < 2 ^ n)%Z -> (0 <= n)%Z -> Rabs (IZR (Zpos m)) < bpow radix2 n.
Proof.
intros Hm Hn. rewrite Rabs_pos_eq by (apply IZR_le; lia).
rewrite <- IZR_Zpower by exact Hn. apply IZR_lt. exact Hm.
Qed.

(* of_uint63 on a small positive integer *)
Lemma Prim2B_of_pos (m : positive) : (Zpos m < 2 ^ 53)%Z ->
  let f := of_uint63 (of_Z (Zpos m)) in
  is_finite (FP.Prim2B f) = true /\ B2R (FP.Prim2B f) = IZR (Zpos m) /\ Bsign (FP.Prim2B f) = false.
Proof.
intros Hm f. unfold f. rewrite FP.of_int63_equiv.
rewrite of_Z_spec, Z.mod_small by (change wB with (2 ^ 63)%Z; lia).
generalize (binary_normalize_correct prec emax FP.Hprec FP.Hmax mode_NE (Zpos m) 0 false).
cbv zeta. change (SpecFloat.fexp prec emax) with f64exp. change (bpow radix2 emax) with (bpow radix2 1024). cbn [round_mode].
assert (HF : F2R (Float radix2 (Zpos m) 0) = IZR (Zpos m)).
{ unfold F2R; cbn [Fnum Fexp]. simpl (bpow radix2 0). ring. }
rewrite HF.
rewrite round_generic; try typeclasses eauto.
2:{ rewrite <- HF. apply format64_F2R; lia. }
rewrite Rlt_bool_true.
2:{ apply (bpow_lt_1024 53); [lia|]. apply IZR_pos_lt_bpow; lia. }
intros (H1 & H2 & H3). split; [exact H2|split; [exact H1|]].
rewrite H3. rewrite Rcompare_Gt; [reflexivity|]. apply IZR_lt. lia.
Qed.

(* SF2Prim on the (non-canonical, for binary64) mantissa / exponent pair of a finite binary32 number *)
Lemma Prim2B_SF2Prim_b32 (b : b32) : is_finite b = true ->
  let p := SF2Prim (B2SF b) in
  is_finite (FP.Prim2B p) = true /\ B2R (FP.Prim2B p) = B2R b /\ Bsign (FP.Prim2B p) = Bsign b.
Proof.
destruct b as [s|s| |s m e Hb]; try discriminate; intros _ p.
- (* zero *)
  unfold p. destruct s; cbn [B2SF SF2Prim].
  + rewrite FP.neg_zero_equiv, FP.Prim2B_B2Prim. repeat split.
  + rewrite FP.zero_equiv, FP.Prim2B_B2Prim. repeat split.
- (* finite *)
  destruct (bounded32 m e Hb) as (Hm & He1 & He2).
  destruct (Prim2B_of_pos m ltac:(lia)) as (F1 & R1 & S1).
  set (pm := of_uint63 (of_Z (Zpos m))) in *.
  assert (HL : is_finite (FP.Prim2B (Z.ldexp pm e)) = true /\ B2R (FP.Prim2B (Z.ldexp pm e)) = F2R (Float radix2 (Zpos m) e)
               /\ Bsign (FP.Prim2B (Z.ldexp pm e)) = false).
  { rewrite FP.ldexp_equiv.
    generalize (Bldexp_correct prec emax FP.Hprec FP.Hmax mode_NE (FP.Prim2B pm) e).
    change (SpecFloat.fexp prec emax) with f64exp. change (bpow radix2 emax) with (bpow radix2 1024). cbn [round_mode]. rewrite R1.
    change (IZR (Zpos m) * bpow radix2 e) with (F2R (Float radix2 (Zpos m) e)).
    rewrite round_generic; try typeclasses eauto.
    2:{ apply format64_F2R; lia. }
    rewrite Rlt_bool_true.
    2:{ apply (bpow_lt_1024 128); [lia|].
        rewrite <- F2R_Zabs. cbn [Z.abs]. apply (bounded_lt_emax 24 128 _ _ Hb). }
    intros (H1 & H2 & H3). rewrite H1, H2, H3, F1, S1. repeat split. }
  destruct HL as (F2 & R2 & S2).
  unfold p. cbn [B2SF SF2Prim]. fold pm.
  destruct s.
  + rewrite FP.opp_equiv, is_finite_Bopp, B2R_Bopp, R2.
    split; [exact F2|split].
    * cbn [B2R cond_Zopp]. rewrite <- F2R_Zopp. reflexivity.
    * rewrite Bsign_Bopp. rewrite S2. reflexivity.
      destruct (FP.Prim2B (Z.ldexp pm e)); try discriminate; reflexivity.
  + split; [exact F2|split]. exact R2. exact S2.
Qed.

(** ** part 4 *)
Lemma F2R_sign_neq0 s m e : F2R (Float radix2 (cond_Zopp s (Zpos m)) e) <> 0.
Proof.
destruct s; cbn [cond_Zopp].
- apply Rlt_not_eq. apply F2R_lt_0. reflexivity.
- apply Rgt_not_eq. apply F2R_gt_0. reflexivity.
Qed.
Lemma Rcompare_F2R_sign s m e :
  match Rcompare (F2R (Float radix2 (cond_Zopp s (Zpos m)) e)) 0 with Lt => true | _ => false end = s.
Proof.
destruct s; cbn [cond_Zopp].
- rewrite Rcompare_Lt; [reflexivity|]. apply F2R_lt_0. reflexivity.
- rewrite Rcompare_Gt; [reflexivity|]. apply F2R_gt_0. reflexivity.
Qed.
Lemma Rlt_bool_F2R_sign s m e : Rlt_bool (F2R (Float radix2 (cond_Zopp s (Zpos m)) e)) 0 = s.
Proof.
destruct s; cbn [cond_Zopp].
- apply Rlt_bool_true. apply F2R_lt_0. reflexivity.
- apply Rlt_bool_false. apply Rlt_le. apply F2R_gt_0. reflexivity.
Qed.

(* the reference rounding: Flocq's binary_normalize at (24, 128) *)
Lemma ref_side s m e (Hb : SpecFloat.bounded 53 1024 m e = true) :
  let rx := F2R (Float radix2 (cond_Zopp s (Zpos m)) e) in
  let c := B32ofSF (S754_finite s m e) in
  (Rabs rx < T32 -> is_finite c = true /\ B2R c = round radix2 f32exp ZnearestE rx /\ Bsign c = s) /\
  (T32 <= Rabs rx -> B2SF c = S754_infinity s).
Proof.
intros rx c.
assert (Hc : c = binary_normalize 24 128 Hprec24 Hmax128 mode_NE (cond_Zopp s (Zpos m)) e false).
{ unfold c, B32ofSF, BofSF. destruct s; reflexivity. }
generalize (binary_normalize_correct 24 128 Hprec24 Hmax128 mode_NE (cond_Zopp s (Zpos m)) e false).
cbv zeta. rewrite <- Hc. fold rx.
change (SpecFloat.fexp 24 128) with f32exp. cbn [round_mode].
assert (Hx : rx <> 0) by apply F2R_sign_neq0.
intros Hn. split.
- intros Hlt. revert Hn. rewrite Rlt_bool_true by (apply round32_no_overflow; assumption).
  intros (H1 & H2 & H3). split; [exact H2|split; [exact H1|]].
  rewrite H3. apply Rcompare_F2R_sign.
- intros Hge. revert Hn. rewrite Rlt_bool_false by (apply round32_overflow; assumption).
  intros H. rewrite H. unfold binary_overflow. cbn [overflow_to_inf].
  unfold rx. rewrite Rlt_bool_F2R_sign. reflexivity.
Qed.

(** ** part 5 *)
Ltac norm64 :=
  change (SpecFloat.fexp prec emax) with f64exp; change (bpow radix2 emax) with (bpow radix2 1024); cbn [round_mode].

(** constants *)
Lemma Prim2B_T : is_finite (FP.Prim2B 0x1.ffffffp127) = true /\ B2R (FP.Prim2B 0x1.ffffffp127) = T32.
Proof.
unfold FP.Prim2B. rewrite is_finite_SF2B, B2R_SF2B.
assert (E : Prim2SF 0x1.ffffffp127 = S754_finite false 9007198986305536 75) by (vm_compute; reflexivity).
rewrite E. split; [reflexivity|].
unfold SF2R, T32, F2R. cbn [cond_Zopp Fnum Fexp].
change (bpow radix2 75) with (IZR (2 ^ 75)). change (bpow radix2 128) with (IZR (2 ^ 128)). change (bpow radix2 103) with (IZR (2 ^ 103)).
rewrite <- mult_IZR, <- minus_IZR. f_equal.
Qed.

Lemma Prim2B_15 : is_finite (FP.Prim2B 0x1.8p0) = true /\ B2R (FP.Prim2B 0x1.8p0) = 3 * bpow radix2 (-1) /\ Bsign (FP.Prim2B 0x1.8p0) = false.
Proof.
unfold FP.Prim2B. rewrite is_finite_SF2B, B2R_SF2B, Bsign_SF2B.
assert (E : Prim2SF 0x1.8p0 = S754_finite false 6755399441055744 (-52)) by (vm_compute; reflexivity).
rewrite E. split; [reflexivity|split; [|reflexivity]].
unfold SF2R, F2R. cbn [cond_Zopp Fnum Fexp].
replace 6755399441055744%Z with (3 * 2 ^ 51)%Z by reflexivity.
rewrite mult_IZR. change (IZR (2 ^ 51)) with (bpow radix2 51).
rewrite Rmult_assoc, <- bpow_plus. reflexivity.
Qed.

Lemma Prim2B_zero : FP.Prim2B 0%float = B754_zero false.
Proof. change 0%float with zero. rewrite FP.zero_equiv. apply FP.Prim2B_B2Prim. Qed.

Section Finite.
Variable x : Coq.Floats.PrimFloat.float.
Variables (s : bool) (m : positive) (e : Z) (Hb : SpecFloat.bounded prec emax m e = true).
Hypothesis Hx : FP.Prim2B x = B754_finite s m e Hb.
Let rx := F2R (Float radix2 (cond_Zopp s (Zpos m)) e).

Lemma B2R_x : B2R (FP.Prim2B x) = rx. Proof. rewrite Hx. reflexivity. Qed.
Lemma fin_x : is_finite (FP.Prim2B x) = true. Proof. rewrite Hx. reflexivity. Qed.
Lemma rx_neq0 : rx <> 0. Proof. apply F2R_sign_neq0. Qed.

Lemma leb_T : (0x1.ffffffp127 <=? abs x)%float = Rle_bool T32 (Rabs rx).
Proof.
rewrite FP.leb_equiv, FP.abs_equiv.
destruct Prim2B_T as [F R].
rewrite Bleb_correct; [ | exact F | rewrite is_finite_Babs; exact fin_x ].
rewrite R, B2R_Babs, B2R_x. reflexivity.
Qed.

Lemma ltb_0 : (x <? 0)%float = s.
Proof.
rewrite FP.ltb_equiv, Prim2B_zero.
rewrite Bltb_correct; [ | exact fin_x | reflexivity ].
rewrite B2R_x. cbn [B2R]. apply Rlt_bool_F2R_sign.
Qed.

Lemma frshiftexp_mag : (to_Z (snd (frshiftexp x)) - FloatOps.shift)%Z = mag radix2 rx.
Proof.
generalize (FP.frshiftexp_equiv x). destruct (frshiftexp x) as [m' e']. cbn [snd].
generalize (Bfrexp_correct prec emax FP.Hprec (FP.Prim2B x)).
rewrite Hx at 1. intros H. specialize (H eq_refl).
destruct (Bfrexp (FP.Prim2B x)) as [z g]. intros E. injection E as _ Eg.
destruct H as [_ H]. destruct H as [_ H]. reflexivity.
rewrite Eg, H, B2R_x. reflexivity.
Qed.

Hypothesis Hlt : Rabs rx < T32.
Let g : Z := mag radix2 rx.
Let k : Z := cexp radix2 f32exp rx.

Lemma g_le_128 : (g <= 128)%Z.
Proof. apply mag_le_bpow. exact rx_neq0. apply Rlt_trans with (1 := Hlt). apply T32_bounds. Qed.
Lemma k_eq : k = (Z.max g (-125) - 24)%Z. Proof. apply cexp32_mag. Qed.

Definition ee (x : Coq.Floats.PrimFloat.float) : int :=
  let e := snd (frshiftexp x) in if (e <? 1976)%uint63 then 1976%uint63 else e.

Lemma ee_spec : (to_Z (ee x + 28)%uint63 - FloatOps.shift)%Z = (k + 52)%Z.
Proof.
unfold ee. generalize frshiftexp_mag. fold g. intros Hm.
generalize g_le_128. intros Hg.
assert (Hb0 := to_Z_bounded (snd (frshiftexp x))).
rewrite k_eq. rewrite add_spec. change (to_Z 28) with 28%Z. change FloatOps.shift with 2101%Z in *.
destruct (ltb_spec (snd (frshiftexp x)) 1976) as [H1 H2].
destruct (snd (frshiftexp x) <? 1976)%uint63.
- specialize (H1 eq_refl). change (to_Z 1976) with 1976%Z in *.
  rewrite Z.mod_small by (change wB with (2 ^ 63)%Z; lia). lia.
- assert (H3 : ~ (to_Z (snd (frshiftexp x)) < to_Z 1976)%Z) by (intros H; apply H2 in H; discriminate).
  change (to_Z 1976) with 1976%Z in *.
  rewrite Z.mod_small by (change wB with (2 ^ 63)%Z; lia). lia.
Qed.

Definition Mof (x : Coq.Floats.PrimFloat.float) := ldshiftexp 0x1.8p0 (ee x + 28)%uint63.

Lemma k_bounds : (-149 <= k <= 104)%Z.
Proof. rewrite k_eq. generalize g_le_128. lia. Qed.

Lemma M_correct : is_finite (FP.Prim2B (Mof x)) = true /\ B2R (FP.Prim2B (Mof x)) = 3 * bpow radix2 (k + 51) /\ Bsign (FP.Prim2B (Mof x)) = false.
Proof.
unfold Mof. rewrite FP.ldshiftexp_equiv, ee_spec.
destruct Prim2B_15 as (F & R & S).
generalize (Bldexp_correct prec emax FP.Hprec FP.Hmax mode_NE (FP.Prim2B 0x1.8p0) (k + 52)).
norm64. rewrite R.
assert (HV : 3 * bpow radix2 (-1) * bpow radix2 (k + 52) = F2R (Float radix2 3 (k + 51))).
{ unfold F2R; cbn [Fnum Fexp]. rewrite Rmult_assoc, <- bpow_plus. f_equal. f_equal. ring. }
rewrite HV.
generalize k_bounds; intros Hk.
rewrite round_generic; try typeclasses eauto.
2:{ apply format64_F2R; [reflexivity|lia]. }
rewrite Rlt_bool_true.
2:{ unfold F2R; cbn [Fnum Fexp]. rewrite Rabs_pos_eq by (generalize (bpow_gt_0 radix2 (k + 51)); lra).
    apply Rlt_le_trans with (bpow radix2 (k + 53)).
    - replace (k + 53)%Z with (k + 51 + 1 + 1)%Z by ring. rewrite !bpow_S. generalize (bpow_gt_0 radix2 (k + 51)); lra.
    - apply bpow_le. lia. }
intros (H1 & H2 & H3). rewrite H1, H2, H3, F, S. repeat split.
Qed.

Let rho : R := round radix2 f32exp ZnearestE rx.

Lemma rho_abs : Rabs rho < bpow radix2 128.
Proof. apply round32_no_overflow. exact rx_neq0. exact Hlt. Qed.

Lemma P_lt : 3 * bpow radix2 (k + 51) < bpow radix2 158.
Proof.
apply Rlt_le_trans with (bpow radix2 (k + 53)).
- replace (k + 53)%Z with (k + 51 + 1 + 1)%Z by ring. rewrite !bpow_S. generalize (bpow_gt_0 radix2 (k + 51)); lra.
- apply bpow_le. generalize k_bounds. lia.
Qed.

(* x + M *)
Lemma S_correct : is_finite (FP.Prim2B (x + Mof x)%float) = true /\ B2R (FP.Prim2B (x + Mof x)%float) = rho + 3 * bpow radix2 (k + 51).
Proof.
rewrite FP.add_equiv.
destruct M_correct as (FM & RM & SM).
generalize (Bplus_correct prec emax FP.Hprec FP.Hmax mode_NE (FP.Prim2B x) (FP.Prim2B (Mof x)) fin_x FM).
norm64. rewrite RM, B2R_x.
rewrite (round_via_magic rx k eq_refl).
2:{ apply abs_lt_cexp32. exact rx_neq0. }
fold rho.
rewrite Rlt_bool_true.
2:{ apply Rle_lt_trans with (1 := Rabs_triang _ _).
    rewrite (Rabs_pos_eq (3 * _)) by (generalize (bpow_gt_0 radix2 (k + 51)); lra).
    apply Rlt_trans with (bpow radix2 128 + bpow radix2 158).
    - generalize rho_abs P_lt. lra.
    - apply Rlt_trans with (bpow radix2 159).
      + replace 159%Z with (158 + 1)%Z by ring. rewrite bpow_S.
        assert (bpow radix2 128 < bpow radix2 158) by (apply bpow_lt; lia). lra.
      + apply bpow_lt. lia. }
intros (H1 & H2 & _). split; [exact H2|exact H1].
Qed.

Lemma rho_format64 : generic_format radix2 f64exp rho.
Proof. apply f32_in_f64. apply generic_format_round; typeclasses eauto. Qed.

(* (x + M) - M *)
Definition Rof (x : Coq.Floats.PrimFloat.float) := ((x + Mof x) - Mof x)%float.
Lemma R_correct : is_finite (FP.Prim2B (Rof x)) = true /\ B2R (FP.Prim2B (Rof x)) = rho /\
  (rho <> 0 -> Bsign (FP.Prim2B (Rof x)) = Rlt_bool rho 0).
Proof.
unfold Rof. rewrite FP.sub_equiv.
destruct M_correct as (FM & RM & SM). destruct S_correct as (FS & RS).
generalize (Bminus_correct prec emax FP.Hprec FP.Hmax mode_NE (FP.Prim2B (x + Mof x)%float) (FP.Prim2B (Mof x)) FS FM).
norm64. rewrite RM, RS.
replace (rho + 3 * bpow radix2 (k + 51) - 3 * bpow radix2 (k + 51)) with rho by ring.
rewrite round_generic; try typeclasses eauto. 2: exact rho_format64.
rewrite Rlt_bool_true.
2:{ apply Rlt_trans with (1 := rho_abs). apply bpow_lt. lia. }
intros (H1 & H2 & H3). split; [exact H2|split; [exact H1|]].
intros Hn. rewrite H3.
destruct (Rcompare_spec rho 0) as [H|H|H].
- symmetry. apply Rlt_bool_true. exact H.
- contradiction.
- symmetry. apply Rlt_bool_false. lra.
Qed.

Lemma eqb_R0 : (Rof x =? 0)%float = Req_bool rho 0.
Proof.
rewrite FP.eqb_equiv, Prim2B_zero.
destruct R_correct as (F & R & _).
rewrite Beqb_correct; [ | exact F | reflexivity ].
rewrite R. reflexivity.
Qed.

(* x * 0 : the zero of the sign of x *)
Lemma mul0_correct : FP.Prim2B (x * 0)%float = B754_zero s.
Proof.
rewrite FP.mul_equiv, Prim2B_zero, Hx. simpl. rewrite xorb_false_r. reflexivity.
Qed.
End Finite.

(** ** part 6 *)
Lemma round32_sign s m e :
  let rx := F2R (Float radix2 (cond_Zopp s (Zpos m)) e) in
  round radix2 f32exp ZnearestE rx <> 0 -> Rlt_bool (round radix2 f32exp ZnearestE rx) 0 = s.
Proof.
intros rx Hn. destruct s; unfold rx in *; cbn [cond_Zopp] in *.
- apply Rlt_bool_true.
  assert (H : round radix2 f32exp ZnearestE (F2R (Float radix2 (- Z.pos m) e)) <= 0).
  { apply round_le_generic; try typeclasses eauto. apply generic_format_0. apply Rlt_le. apply F2R_lt_0. reflexivity. }
  lra.
- apply Rlt_bool_false.
  apply round_ge_generic; try typeclasses eauto. apply generic_format_0. apply Rlt_le. apply F2R_gt_0. reflexivity.
Qed.

Theorem r32fast_eq : forall x, r32fast x = r32 x.
Proof.
intros x. unfold r32, to_b32, of_b32. rewrite <- (FP.B2SF_Prim2B x).
assert (Ex : x = FP.B2Prim (FP.Prim2B x)) by (symmetry; apply FP.B2Prim_Prim2B).
destruct (FP.Prim2B x) as [s|s| |s m e Hb] eqn:Hx.
- rewrite Ex. destruct s; vm_compute; reflexivity.
- rewrite Ex. destruct s; vm_compute; reflexivity.
- rewrite Ex. vm_compute; reflexivity.
- clear Ex. cbn [B2SF].
  destruct (ref_side s m e Hb) as [Hsmall Hbig].
  set (rx := F2R (Float radix2 (cond_Zopp s (Zpos m)) e)) in *.
  unfold r32fast. rewrite (leb_T x s m e Hb Hx). fold rx.
  destruct (Rle_bool_spec T32 (Rabs rx)) as [Hge|Hlt].
  + rewrite (ltb_0 x s m e Hb Hx). rewrite (Hbig Hge). destruct s; reflexivity.
  + destruct (Hsmall Hlt) as (Fc & Rc & Sc).
    set (c := B32ofSF (S754_finite s m e)) in *.
    change ((if (Rof x =? 0)%float then (x * 0)%float else Rof x) = SF2Prim (B2SF c)).
    rewrite (eqb_R0 x s m e Hb Hx Hlt). fold rx.
    destruct (R_correct x s m e Hb Hx Hlt) as (FR & RR & SR). fold rx in RR, SR.
    destruct (Prim2B_SF2Prim_b32 c Fc) as (F2 & R2 & S2).
    destruct (Req_bool_spec (round radix2 f32exp ZnearestE rx) 0) as [H0|Hn].
    * (* the rounded value is zero: the zero of the sign of x *)
      assert (Ec : c = B754_zero s).
      { apply B2R_Bsign_inj; [exact Fc|reflexivity| |exact Sc]. rewrite Rc, H0. reflexivity. }
      rewrite Ec. apply FP.Prim2B_inj. rewrite (mul0_correct x s m e Hb Hx).
      destruct s; cbn [B2SF SF2Prim].
      -- rewrite FP.neg_zero_equiv, FP.Prim2B_B2Prim. reflexivity.
      -- rewrite FP.zero_equiv, FP.Prim2B_B2Prim. reflexivity.
    * apply FP.Prim2B_inj. apply B2R_Bsign_inj; [exact FR|exact F2| |].
      -- rewrite RR, R2, Rc. reflexivity.
      -- rewrite (SR Hn), S2, Sc. apply round32_sign. exact Hn.
Qed.

Theorem NumF32fast_eq : NumF32fast = NumF32.
Proof. apply NumF32fast_eq_of_r32. exact r32fast_eq. Qed.

