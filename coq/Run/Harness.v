(** * Harness: what the generated case files import.  Literals, bit-exact float comparison,
    and the case runner that reports mismatching indices plus a path-tag histogram. *)
From Coq Require Export ZArith List Bool Floats.
From G3 Require Export Model.Num Model.NumF Model.Base.
Export ListNotations.

Notation F := S754_finite.
Notation Zr := S754_zero.
Notation Inf := S754_infinity.
Notation NaN := S754_nan.
(** floats travel as primitive-float hex literals (fast to parse); [P] turns them into [spec_float] *)
Definition P (x : float) : spec_float := Prim2SF x.
Arguments P x%float.

Definition sf_eqb (a b : spec_float) : bool :=
  match a, b with
  | S754_zero s, S754_zero t => Bool.eqb s t
  | S754_infinity s, S754_infinity t => Bool.eqb s t
  | S754_nan, S754_nan => true
  | S754_finite s m e, S754_finite t n f => Bool.eqb s t && Pos.eqb m n && Z.eqb e f
  | _, _ => false
  end.
Fixpoint sfl_eqb (a b : list spec_float) : bool :=
  match a, b with
  | [], [] => true
  | x :: a, y :: b => sf_eqb x y && sfl_eqb a b
  | _, _ => false
  end.

(** relative/absolute closeness on primitive floats, for libm-dependent outputs *)
Definition fclose (tol : float) (a b : float) : bool :=
  if PrimFloat.is_nan a then PrimFloat.is_nan b else
  if PrimFloat.eqb a b then true else
  PrimFloat.leb (PrimFloat.abs (PrimFloat.sub a b))
                (PrimFloat.mul tol (PrimFloat.add 1 (PrimFloat.add (PrimFloat.abs a) (PrimFloat.abs b)))).

(** [chk c] = 0 on mismatch, otherwise a path tag >= 1 *)
Section Runner.
  Context {A : Type} (chk : A -> N).
  Fixpoint bump (t : N) (h : list (N * N)) : list (N * N) :=
    match h with
    | [] => [(t, 1%N)]
    | (t', c) :: h' => if N.eqb t t' then (t', N.succ c) :: h' else (t', c) :: bump t h'
    end.
  Fixpoint run_from (i : N) (l : list A) (bad : list N) (h : list (N * N)) : list N * list (N * N) :=
    match l with
    | [] => (rev bad, h)
    | c :: l' =>
      let t := chk c in
      if N.eqb t 0 then run_from (N.succ i) l' (i :: bad) h
      else run_from (N.succ i) l' bad (bump t h)
    end.
  Definition run_cases (l : list A) := run_from 0%N l [] [].
End Runner.

Definition F64 (s : spec_float) : float := SF2Prim s.
Definition nthsf (l : list spec_float) (i : nat) : spec_float := nth i l S754_nan.
