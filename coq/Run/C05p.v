(** * C05p runner: the point tests of stream C05 against the model of the PROPOSED repair of C05:ray-too-short
    (Model/LoopPatched.v).  Only meaningful against a crate that carries the repair
    (`./verify check C05 --tier patched` with harness/Cargo.toml pointing at the patched copy). *)
From G3 Require Import Run.Harness Model.Vec Model.Segment Model.Loop Model.Polygon Model.LoopPatched Run.C04.
From G3 Require Export Run.C05.

Section WithInstance.
Context {NK : Num float}.
Fixpoint in_any_hole_p (hs : list (Loop K)) (p : V3 K) : res bool :=
  match hs with
  | [] => Ok false
  | h :: tl => do b <- loop_test_point_patched h p; if b then Ok true else in_any_hole_p tl p
  end.
Definition poly_test_point_p (P : Poly K) (p : V3 K) : res bool :=
  do o <- loop_test_point_patched (pouter P) p;
  if negb o then Ok false else
  do h <- in_any_hole_p (pinner P) p; Ok (negb h).
Fixpoint run_queries_p (is_poly : bool) (P : Poly K) (qs : list (list spec_float * N)) : N :=
  match qs with
  | [] => 1%N
  | (p, e) :: tl =>
    let q := v_of p 0 in
    let r := if is_poly then poly_test_point_p P q else loop_test_point_patched (pouter P) q in
    if N.eqb (res_class r) e then run_queries_p is_poly P tl else 0%N
  end.
Definition chk_p (c : case) : N :=
  let '(is_poly, o, hs, qs) := c in
  let P := mkPoly (loop_of o) (map loop_of hs) (SF2Prim (S754_zero false)) (lnormal (loop_of o)) in
  run_queries_p is_poly P qs.
End WithInstance.

Module C05p.
  Definition run := run_cases (@chk_p NumF).
End C05p.
