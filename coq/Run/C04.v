(** * C04 runner: histories of push/close on the Loop model (primitive floats), complete
    observable state compared after every step. *)
From G3 Require Import Run.Harness Model.NumF32 Model.Vec Model.Segment Model.Loop.

Definition K := float.
Section WithInstance.
Context {NK : Num float}.
Definition fl (l : list spec_float) (i : nat) : K := SF2Prim (nthsf l i).
Definition v_of (l : list spec_float) (o : nat) : V3 K := mkV3 (fl l o) (fl l (o+1)) (fl l (o+2)).
Fixpoint flat (vs : list (V3 K)) : list spec_float :=
  match vs with [] => [] | v :: tl => Prim2SF (vx v) :: Prim2SF (vy v) :: Prim2SF (vz v) :: flat tl end.
Fixpoint unflat (l : list spec_float) (fuel : nat) : list (V3 K) :=
  match fuel, l with
  | S f, a :: b :: c :: tl => mkV3 (SF2Prim a) (SF2Prim b) (SF2Prim c) :: unflat tl f
  | _, _ => []
  end.
Definition out_class {A} (r : res A) : N := match r with Ok _ => 0 | Err c => c | Panic _ => 99 end%N.

(** one step: (new state, outcome class) *)
Definition step (L : Loop K) (op : N * list spec_float) : Loop K * N :=
  let '(k, p) := op in
  match k with
  | 0%N => match loop_push L (v_of p 0) with
           | Ok L' => (L', 0%N) | Err c => (L, c) | Panic _ => (L, 99%N) end
  | _ => let '(L', r) := loop_close L in (L', out_class r)
  end.
Definition snap_eqb (L : Loop K) (o : N) (e : N * list spec_float * list spec_float * bool * list spec_float) : bool :=
  let '(eo, ev, en, ec, eap) := e in
  N.eqb o eo &&
  (if N.eqb eo 99 then true else
   sfl_eqb (flat (verts L)) ev &&
   sfl_eqb [Prim2SF (vx (lnormal L)); Prim2SF (vy (lnormal L)); Prim2SF (vz (lnormal L))] en &&
   Bool.eqb (lclosed L) ec &&
   (if ec then sfl_eqb [Prim2SF (larea L); Prim2SF (lperim L)] eap else true)).
Fixpoint run_hist (L : Loop K) (ops : list (N * list spec_float)) (es : list (N * list spec_float * list spec_float * bool * list spec_float)) (nerr : N) : N :=
  match ops, es with
  | op :: ops', e :: es' =>
    let '(L', o) := step L op in
    if snap_eqb L' o e then
      (if N.eqb o 99 then N.succ nerr else run_hist L' ops' es' (if N.eqb o 0 then nerr else N.succ nerr))
    else 0%N
  | _, _ => N.succ nerr
  end.
(** tag = 1 + number of refused operations in the history (capped) *)
Definition chk (c : list (N * list spec_float) * list (N * list spec_float * list spec_float * bool * list spec_float)) : N :=
  let '(ops, es) := c in N.min 8 (run_hist loop_new ops es 0).

End WithInstance.

Module C04.
  Definition run := run_cases (@chk NumF).
End C04.
Module C04f32.
  Definition run := run_cases (@chk NumF32).
End C04f32.
