(** * Mesh runner: the Triangulation model on primitive floats against the crate, bit-exact.
    - [CFP]: from_polygon on a polygon that the model rebuilds itself from the pushed points
             (push / close / cut_hole): outcome class, the complete piece list, and the list returned by get_trilist;
    - [CRF]: mesh_polygon (from_polygon + refine on fuel): outcome class, the complete piece list, get_trilist;
    - [CHI]: histories of hook-driven steps: the complete per-slot state after every step (sent as deltas:
             the slots named in the delta must equal the given pieces, all other slots must be unchanged);
    - [CSkip]: a case whose result is too large for the model run (oracles only). *)
From G3 Require Import Run.Harness Run.FastNum Run.FastNum32 Model.NumF32 Model.Vec Model.Segment Model.Triangle Model.Loop Model.Polygon Model.Triangulation.
(** The runner text is written once, in a section over the number instance [NK : Num float]; module [Mesh] runs it on
    [NumFfast] (= [NumF], see Run/FastNum.v) against the f64 build; against the build with `--features float`, module [Meshf32]
    runs it on [NumF32fast] (= [NumF32]: the binary32 instance with the rounding step done by primitive operations, proved equal in
    Run/FastNum32Proof.v) and module [Meshf32ref] on [NumF32memo] (= [NumF32] with Flocq's own rounding, ~1000 times slower: kept
    for cross-checks, stream argument --ref32).  Nothing here is downstream of libm: every comparison is bit for bit in all three. *)

Definition K := float.
Section WithInstance.
Context {NK : Num float}.
Fixpoint unflat (l : list spec_float) : list (V3 K) :=
  match l with
  | a :: b :: c :: tl => mkV3 (SF2Prim a) (SF2Prim b) (SF2Prim c) :: unflat tl
  | _ => []
  end.
Definition sfv (v : V3 K) : list spec_float := [Prim2SF (vx v); Prim2SF (vy v); Prim2SF (vz v)].
Definition fl (l : list spec_float) (i : nat) : K := SF2Prim (nthsf l i).
Definition v_of (l : list spec_float) (o : nat) : V3 K := mkV3 (fl l o) (fl l (o+1)) (fl l (o+2)).

(** ** rebuilding the polygon through the model of the public API *)
Fixpoint push_pts (L : Loop K) (pts : list (V3 K)) : res (Loop K) :=
  match pts with
  | [] => Ok L
  | p :: tl => do L' <- loop_push L p; push_pts L' tl
  end.
Definition build_loop (pts : list (V3 K)) : res (Loop K) :=
  do L <- push_pts loop_new pts;
  let '(L', r) := loop_close L in do _ <- r; Ok L'.
Fixpoint cut_holes (P : Poly K) (hs : list (list (V3 K))) : res (Poly K) :=
  match hs with
  | [] => Ok P
  | h :: tl => do hl <- build_loop h; do P' <- poly_cut_hole P hl; cut_holes P' tl
  end.
Definition build_poly (outer : list spec_float) (holes : list (list spec_float)) : res (Poly K) :=
  do o <- build_loop (unflat outer);
  do P <- poly_new o;
  cut_holes P (map unflat holes).

(** outcome classes: 0 Ok, the Err class, 1000 + panic site; 1999 on the crate's side = "some panic" *)
Definition cls {A} (r : res A) : N := match r with Ok _ => 0 | Err c => c | Panic s => 1000 + s end%N.
Definition cls_eqb (model expected : N) : bool :=
  if N.eqb expected 1999 then N.leb 1000 model else N.eqb model expected.

(** ** pieces *)
Definition piece := (list spec_float * list Z * N * N)%type.
Definition zopt (o : option nat) : Z := match o with Some i => Z.of_nat i | None => (-1)%Z end.
Definition tp_floats (t : TriPiece K) : list spec_float :=
  sfv (ta (tp_tri t)) ++ sfv (tb (tp_tri t)) ++ sfv (tc (tp_tri t)) ++ sfv (tnormal (tp_tri t)) ++
  [Prim2SF (tarea (tp_tri t)); Prim2SF (tp_ar t)] ++ sfv (tp_cc t) ++ sfv (tp_cen t).
Definition tp_mask (t : TriPiece K) : N :=
  ((if tp_c0 t then 1 else 0) + (if tp_c1 t then 2 else 0) + (if tp_c2 t then 4 else 0) + (if tp_valid t then 8 else 0))%N.
Fixpoint zl_eqb (a b : list Z) : bool :=
  match a, b with [], [] => true | x :: a, y :: b => Z.eqb x y && zl_eqb a b | _, _ => false end.
Definition piece_eqb (t : TriPiece K) (p : piece) : bool :=
  let '(f, nb, mask, idx) := p in
  sfl_eqb (tp_floats t) f && zl_eqb [zopt (tp_n0 t); zopt (tp_n1 t); zopt (tp_n2 t)] nb &&
  N.eqb (tp_mask t) mask && N.eqb (N.of_nat (tp_index t)) idx.
Definition tp_eqb (t u : TriPiece K) : bool :=
  piece_eqb t (tp_floats u, [zopt (tp_n0 u); zopt (tp_n1 u); zopt (tp_n2 u)], tp_mask u, N.of_nat (tp_index u)).
Fixpoint pieces_eqb (ts : list (TriPiece K)) (ps : list piece) : bool :=
  match ts, ps with
  | [], [] => true
  | t :: ts', p :: ps' => piece_eqb t p && pieces_eqb ts' ps'
  | _, _ => false
  end.
Definition mesh_eqb (M : Mesh K) (ps : list piece) (nv : N) : bool :=
  pieces_eqb (tris M) ps && N.eqb (N.of_nat (nvalid M)) nv.

(** [Triangulation3D::get_trilist]: the triangles handed to the user, each as [a b c normal area] (13 numbers), against the
    model's [get_trilist] *)
Definition tri_floats (t : Tri K) : list spec_float :=
  sfv (ta t) ++ sfv (tb t) ++ sfv (tc t) ++ sfv (tnormal t) ++ [Prim2SF (tarea t)].
Definition trilist_eqb (M : Mesh K) (e : list spec_float) : bool :=
  sfl_eqb (flat_map tri_floats (get_trilist M)) e.

(** the slots named in the delta equal the given pieces, every other slot is unchanged *)
Fixpoint delta_ok (old new : list (TriPiece K)) (i : N) (delta : list (N * piece)) : bool :=
  match new with
  | [] => match delta with [] => true | _ => false end
  | t :: new' =>
    let unchanged := match old with o :: _ => tp_eqb o t | [] => false end in
    match delta with
    | (j, p) :: d' =>
      if N.eqb j i then piece_eqb t p && delta_ok (tl old) new' (N.succ i) d'
      else unchanged && delta_ok (tl old) new' (N.succ i) delta
    | [] => unchanged && delta_ok (tl old) new' (N.succ i) []
    end
  end.

(** ** histories *)
Definition opc := (N * N * N * list spec_float)%type.
Definition expc := (N * N * list spec_float * N * N * list (N * piece))%type.
(** what a step returns besides the mesh: class, return code (0 none, 1 false, 2 true), value floats *)
Definition ret_code (o : option bool) : N := match o with None => 0 | Some false => 1 | Some true => 2 end%N.
Definition run_op (M : Mesh K) (op : opc) : Mesh K * N * N * list spec_float * bool :=
  (* the last component: the model ran out of refine fuel *)
  let '(k, i, e, f) := op in
  let i' := N.to_nat i in
  let fin (r : Mesh K * res (option bool)) := let '(M', o) := r in (M', cls o, match o with Ok b => ret_code b | _ => 0%N end, @nil spec_float, false) in
  match k with
  | 0%N => fin (mesh_step (OSplitEdge i' e (v_of f 0)) M)
  | 1%N => fin (mesh_step (OSplitTriangle i' (v_of f 0)) M)
  | 2%N => fin (mesh_step (OFlip i' e) M)
  | 3%N => fin (mesh_step (ORestore (fl f 0)) M)
  | 4%N => fin (mesh_step (OAddPoint (v_of f 0)) M)
  | 5%N => let '(M', o) := refine i' (fl f 0) (fl f 1) M in
           (M', cls o, 0%N, [], match o with Ok ROutOfFuel => true | _ => false end)
  | 6%N => let r := do ed <- edge_from_i e; get_flipped_aspect_ratio M i' ed in
           (M, cls r, 0%N, match r with Ok (Some x) => [Prim2SF x] | _ => [] end, false)
  | _ => (M, 0%N, if is_convex (v_of f 0) (v_of f 3) (v_of f 6) (v_of f 9) then 2%N else 1%N, [], false)
  end.
(** returns 0 on mismatch, 1 + number of non-Ok steps otherwise; 1000 when the refine fuel ran out *)
Fixpoint run_steps (M : Mesh K) (steps : list (opc * expc)) (nerr : N) : N :=
  match steps with
  | [] => N.succ nerr
  | (op, ex) :: tl =>
    let '(eo, eret, eval, elen, env, delta) := ex in
    let '(M', o, ret, val, oof) := run_op M op in
    if oof then 1000%N else
    if negb (cls_eqb o eo) then 0%N else
    if N.leb 1000 eo then N.succ (N.succ nerr) else
    if N.eqb ret eret && sfl_eqb val eval && N.eqb (N.of_nat (length (tris M'))) elen &&
       N.eqb (N.of_nat (nvalid M')) env && delta_ok (tris M) (tris M') 0 delta
    then run_steps M' tl (if N.eqb o 0 then nerr else N.succ nerr) else 0%N
  end.

Inductive mcase :=
| CFP (outer : list spec_float) (holes : list (list spec_float)) (build out : N) (pieces : list piece) (nv : N)
      (trilist : list spec_float)
| CRF (outer : list spec_float) (holes : list (list spec_float)) (build : N) (max_area max_ar : spec_float) (fuel : nat)
      (out : N) (pieces : list piece) (nv : N) (trilist : list spec_float)
| CHI (outer : list spec_float) (holes : list (list spec_float)) (build init_out : N) (init : list piece) (nv : N)
      (steps : list (opc * expc))
| CSkip (why : N).

(** path tags: CFP 1 build refused, 2 Ok without holes, 3 Ok with holes (2, 3: the complete piece list AND the list returned
    by get_trilist agree with the model's), 4 Err, 5 Panic;
    CRF 10 build refused, 11 Ok (pieces and get_trilist agree), 12 Err, 13 Panic, 99 model out of fuel;
    CHI 20 build/initial mesh refused, 21.. = 21 + number of non-Ok steps (capped at 29), 99 out of fuel; CSkip 90 + why *)
Definition chk (c : mcase) : N :=
  match c with
  | CSkip w => (90 + w)%N
  | CFP outer holes build out pieces nv trilist =>
    match build_poly outer holes with
    | Ok P =>
      if negb (N.eqb build 0) then 0%N else
      let r := from_polygon P in
      if negb (cls_eqb (cls r) out) then 0%N else
      match r with
      | Ok M => if mesh_eqb M pieces nv && trilist_eqb M trilist then (match holes with [] => 2 | _ => 3 end)%N else 0%N
      | Err _ => 4%N
      | Panic _ => 5%N
      end
    | r => if cls_eqb (cls r) build && negb (N.eqb build 0) then 1%N else 0%N
    end
  | CRF outer holes build max_area max_ar fuel out pieces nv trilist =>
    match build_poly outer holes with
    | Ok P =>
      if negb (N.eqb build 0) then 0%N else
      let r := mesh_polygon fuel P (SF2Prim max_area) (SF2Prim max_ar) in
      match r with
      | Ok (_, ROutOfFuel) => 99%N
      | Ok (M, RDone) => if N.eqb out 0 && mesh_eqb M pieces nv && trilist_eqb M trilist then 11%N else 0%N
      | Err _ => if cls_eqb (cls r) out then 12%N else 0%N
      | Panic _ => if cls_eqb (cls r) out then 13%N else 0%N
      end
    | r => if cls_eqb (cls r) build && negb (N.eqb build 0) then 10%N else 0%N
    end
  | CHI outer holes build init_out init nv steps =>
    match build_poly outer holes with
    | Ok P =>
      if negb (N.eqb build 0) then 0%N else
      let r := from_polygon P in
      if negb (cls_eqb (cls r) init_out) then 0%N else
      match r with
      | Ok M =>
        if mesh_eqb M init nv then
          match run_steps M steps 0 with
          | 0%N => 0%N
          | 1000%N => 99%N
          | k => N.min 29 (20 + k)
          end
        else 0%N
      | _ => 20%N
      end
    | r => if cls_eqb (cls r) build && negb (N.eqb build 0) then 20%N else 0%N
    end
  end.

End WithInstance.

Module Mesh.
  Definition run := run_cases (@chk NumFfast).
End Mesh.
Module Meshf32.
  Definition run := run_cases (@chk NumF32fast).
End Meshf32.
Module Meshf32ref.
  Definition run := run_cases (@chk NumF32memo).
End Meshf32ref.
