(** * FastNum: the primitive-float instance with memoised integer literals.
    [NumF]'s [nofZ] goes through [SF2Prim] (a software normalisation, ~5 us under vm_compute); the model
    re-evaluates its constants (1e-5 = nofZ 1 / nofZ 100000, 100*EPSILON, ...) at every use, which made
    [Point3D::compare] cost 19 us, 16 of them for the three constants.  [NumFfast] answers the literals
    that occur in the model from a table and falls back to [FofZ]; it is EQUAL to [NumF]
    ([NumFfast_eq], by functional extensionality), so what is executed is still the [NumF] model. *)
From Coq Require Import ZArith Floats Bool List FunctionalExtensionality.
From G3 Require Import Model.Num Model.NumF.
Local Open Scope float_scope.

Definition FofZ_fast (z : Z) : float :=
  if Z.eqb z 100000 then 100000 else
  if Z.eqb z 100 then 100 else
  if Z.eqb z 1 then 1 else
  if Z.eqb z 0 then 0 else
  if Z.eqb z 2 then 2 else
  if Z.eqb z 1000 then 1000 else
  if Z.eqb z 3 then 3 else
  if Z.eqb z 10000000 then 10000000 else
  if Z.eqb z 1000000 then 1000000 else
  if Z.eqb z 100000000 then 100000000 else
  if Z.eqb z 1000000000 then 1000000000 else
  if Z.eqb z 10000000000 then 10000000000 else
  if Z.eqb z 900000000000000 then 900000000000000 else
  FofZ z.

Lemma FofZ_fast_eq : forall z, FofZ_fast z = FofZ z.
Proof.
  intros z. unfold FofZ_fast.
  repeat match goal with
         | |- (if Z.eqb z ?k then _ else _) = _ =>
           destruct (Z.eqb_spec z k) as [->|_]; [vm_compute; reflexivity|]
         end.
  reflexivity.
Qed.

Definition NumFfast : Num float := {|
  nadd := PrimFloat.add; nsub := PrimFloat.sub; nmul := PrimFloat.mul; ndiv := PrimFloat.div;
  nneg := PrimFloat.opp; nabs := PrimFloat.abs; nsqrt := PrimFloat.sqrt;
  nltb := PrimFloat.ltb; nleb := PrimFloat.leb; neqb := PrimFloat.eqb;
  nofZ := FofZ_fast; neps := 0x1p-52; nmaxf := 0x1.fffffffffffffp1023; ninf := infinity;
  nnext_up := Fnext_up; nnext_dn := Fnext_dn; nis_nan := PrimFloat.is_nan;
  nsin := Fsin; ncos := Fcos; ntan := Ftan; nacos := Facos; natan2 := Fatan2; npi := Fpi
|}.

Lemma NumFfast_eq : NumFfast = NumF.
Proof.
  unfold NumFfast, NumF. f_equal. apply functional_extensionality. exact FofZ_fast_eq.
Qed.
