(** * C07 runner: the model of round_error.rs on Flocq binary64 (the instance the float-tier
    theorems are about) against the f64 build, bit for bit.
    Path tags: 1 + op for ops 0..23 (see [apply_op]); op 24 = ApproxFloat::from_bounds: 25 returned as given, 26 its
    debug assertion fired as [af_from_bounds_debug_ok] predicts. *)
From G3 Require Import Run.Harness Model.RoundError.
From Flocq Require Import IEEE754.BinarySingleNaN.
From Flocq Require Import Core BinarySingleNaN.

Section Run.
  Context {K : Type} {NK : Num K} (ofSF : spec_float -> K) (toSF : K -> spec_float).

  Definition apply_op (op : N) (al ah bl bh : K) : K * K :=
    let a := mkAF al ah in let b := mkAF bl bh in let f := bl in
    let r (x : AF K) := (low x, high x) in
    match op with
    | 0 => r (af_neg a) | 1 => r (af_add a b) | 2 => r (af_add_f a f)
    | 3 => r (af_sub a b) | 4 => r (af_sub_f a f) | 5 => r (af_mul a b) | 6 => r (af_mul_f a f)
    | 7 => r (af_div a b) | 8 => r (af_div_f a f) | 9 => r (af_add_assign a b)
    | 10 => r (af_add_assign_f a f) | 11 => r (af_sub_assign a b) | 12 => r (af_sub_assign_f a f)
    | 13 => r (af_mul_assign a b) | 14 => r (af_mul_assign_f a f) | 15 => r (af_div_assign a b)
    | 16 => r (af_div_assign_f a f) | 17 => r (af_sqrt a)
    | 18 => r (af_from_value_and_error al ah)
    | 19 => (af_midpoint a, af_as_float a)
    | 20 => (af_absolute_error a, af_absolute_error a)
    | 21 => (nnext_up al, nnext_up ah)
    | 22 => (nnext_dn al, nnext_dn ah)
    | _ => let '(mx, mn) := max_min4 al ah bl bh in (mn, mx)
    end%N.

  (** op 24 = [ApproxFloat::from_bounds]: outputs [low; high; panicked; debug build] (the last two zero / non-zero).
      Tags: 25 = returned the pair as given, 26 = the [debug_assert!(high >= low)] fired in a debug build, as the
      model's [af_from_bounds_debug_ok] predicts. *)
  Definition sf_is_zero (s : spec_float) : bool := match s with S754_zero _ => true | _ => false end.
  Definition chk_from_bounds (i o : list spec_float) : N :=
    let l := ofSF (nthsf i 0) in let h := ofSF (nthsf i 1) in
    let panicked := negb (sf_is_zero (nthsf o 2)) in
    let debug := negb (sf_is_zero (nthsf o 3)) in
    if debug && negb (af_from_bounds_debug_ok l h) then (if panicked then 26%N else 0%N)
    else if panicked then 0%N
    else let a := af_from_bounds l h in
         if sf_eqb (toSF (low a)) (toSF (ofSF (nthsf o 0))) && sf_eqb (toSF (high a)) (toSF (ofSF (nthsf o 1))) then 25%N else 0%N.

  Definition chk (c : N * list spec_float * list spec_float) : N :=
    let '(op, i, o) := c in
    if N.eqb op 24 then chk_from_bounds i o else
    let '(rl, rh) := apply_op op (ofSF (nthsf i 0)) (ofSF (nthsf i 1)) (ofSF (nthsf i 2)) (ofSF (nthsf i 3)) in
    if sf_eqb (toSF rl) (toSF (ofSF (nthsf o 0))) && sf_eqb (toSF rh) (toSF (ofSF (nthsf o 1))) then N.succ op else 0%N.
  Definition show (c : N * list spec_float * list spec_float) : list spec_float :=
    let '(op, i, o) := c in
    let '(rl, rh) := apply_op op (ofSF (nthsf i 0)) (ofSF (nthsf i 1)) (ofSF (nthsf i 2)) (ofSF (nthsf i 3)) in
    [toSF rl; toSF rh].
End Run.

Module C07.
  Definition run := run_cases (chk B64ofSF (@B2SF 53 1024)).
  Definition show := show B64ofSF (@B2SF 53 1024).
End C07.
Module C07f32.
  Definition run := run_cases (chk B32ofSF (@B2SF 24 128)).
  Definition show := show B32ofSF (@B2SF 24 128).
End C07f32.
Module C07prim.
  Definition run := run_cases (chk F64 Prim2SF).
End C07prim.
