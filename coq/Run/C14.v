(** * C14 runner: [bbox_new] + [bbox_intersect_tag] of Model/BBox.v on primitive floats against the
    f64 build, bit for bit.  A case is (21 floats, answer):
    corner a, corner b, ray origin, ray direction, the caller's inv_dir = 1/d, and the six
    coordinates (min, max) of the box the crate built.  Path tag = which [return] of
    [intersect] fired (1..7).
    The runner text is written once, in a section over the number instance [NK : Num float]: module [C14] instantiates it on
    [NumF] (the f64 build), module [C14f32] on [NumF32fast] (= [NumF32], Run/FastNum32Proof.v) for the build with
    `--features float`; no libm on this path: bit for bit in both builds. *)
From G3 Require Import Run.Harness Run.FastNum32 Model.Vec Model.BBox.
Local Open Scope num_scope.

Definition K := float.
Section WithInstance.
Context {NK : Num float}.
Definition fl (l : list spec_float) (i : nat) : K := SF2Prim (nthsf l i).
Definition v_of (l : list spec_float) (o : nat) : V3 K := mkV3 (fl l o) (fl l (o+1)) (fl l (o+2)).
Definition same (a : K) (s : spec_float) : bool := sf_eqb (Prim2SF a) s.

Definition chk (c : list spec_float * bool) : N :=
  let '(i, e) := c in
  let b := bbox_new (v_of i 0) (v_of i 3) in
  let r := mkRay (v_of i 6) (v_of i 9) in
  let inv := v_of i 12 in
  (* the caller's reciprocal is 1/d, component-wise *)
  let inv_ok := same (n1 / vx (rdir r)) (nthsf i 12) && same (n1 / vy (rdir r)) (nthsf i 13) && same (n1 / vz (rdir r)) (nthsf i 14) in
  (* corner normalisation *)
  let box_ok := same (vx (bmin b)) (nthsf i 15) && same (vy (bmin b)) (nthsf i 16) && same (vz (bmin b)) (nthsf i 17) &&
                same (vx (bmax b)) (nthsf i 18) && same (vy (bmax b)) (nthsf i 19) && same (vz (bmax b)) (nthsf i 20) in
  let '(ans, tag) := bbox_intersect_tag b r inv in
  if Bool.eqb ans e && inv_ok && box_ok then tag else 0%N.

End WithInstance.

Module C14.
  Definition run := run_cases (@chk NumF).
End C14.
(** the f32 build: the same runner on the binary32 instance *)
Module C14f32.
  Definition run := run_cases (@chk NumF32fast).
End C14f32.
