(** * C15 runner: Model/BBox.v, [bbox_by] of Model/Transform.v and Model/Bounds.v on primitive
    floats against the f64 build, bit for bit.
    case = (kind, op, inputs, outputs); an empty output list = the crate's constructor panicked.
    kind 0: BBox3D function [op]; kind 1: transform_bbox / inv_transform_bbox on hooked matrices;
    kind 2: triangle; kind 3: sphere; kind 4: cylinder (outputs = bounds then world_bounds). *)
(** The runner text is written once, in a section over the number instance [NK : Num float]: module [C15] instantiates it on
    [NumF] (the f64 build), module [C15f32] on [NumF32fast] (= [NumF32], Run/FastNum32Proof.v) for the build with
    `--features float`.  Nothing compared here is downstream of libm (the transform of Cylinder3D::new is read back through the
    hook): bit for bit in both builds. *)
From G3 Require Import Run.Harness Run.FastNum32 Model.Vec Model.BBox Model.Transform Model.Bounds.
Local Open Scope num_scope.

Definition K := float.
Section WithInstance.
Context {NK : Num float}.
Definition fl (l : list spec_float) (i : nat) : K := SF2Prim (nthsf l i).
Definition v_of (l : list spec_float) (o : nat) : V3 K := mkV3 (fl l o) (fl l (o+1)) (fl l (o+2)).
Definition b_of (l : list spec_float) (o : nat) : BBox K := mkBBox (v_of l o) (v_of l (o+3)).
Definition m4_of (l : list spec_float) (o : nat) : M4 K :=
  mkM4 (fl l (o+0)) (fl l (o+1)) (fl l (o+2)) (fl l (o+3)) (fl l (o+4)) (fl l (o+5)) (fl l (o+6)) (fl l (o+7))
       (fl l (o+8)) (fl l (o+9)) (fl l (o+10)) (fl l (o+11)) (fl l (o+12)) (fl l (o+13)) (fl l (o+14)) (fl l (o+15)).
Definition tr_of (l : list spec_float) (o : nat) : Tr K := mkTr (m4_of l o) (m4_of l (o+16)).
Definition v_list (v : V3 K) : list K := [vx v; vy v; vz v].
Definition bb_out (b : BBox K) : list K := v_list (bmin b) ++ v_list (bmax b).
Definition exact_eq (a : list K) (b : list spec_float) : bool := sfl_eqb (map Prim2SF a) b.
Definition fb (b : bool) : list K := [if b then 1 else 0]%float.

Definition box_op (op : N) (i : list spec_float) : list K :=
  match op with
  | 0 => bb_out (bbox_new (v_of i 0) (v_of i 3))
  | 1 => bb_out (bbox_from_point (v_of i 0))
  | 2 => bb_out (bbox_from_union (b_of i 0) (b_of i 6))
  | 3 => bb_out (bbox_from_union_point (b_of i 0) (v_of i 6))
  | 4 => bb_out (bbox_from_intersection (b_of i 0) (b_of i 6))
  | 5 => fb (bbox_overlaps (b_of i 0) (b_of i 6)) ++ fb (bbox_overlaps (b_of i 6) (b_of i 0))
  | 6 => fb (bbox_point_inside (b_of i 0) (v_of i 6))
  | 7 => fb (bbox_point_inside_exclusive (b_of i 0) (v_of i 6))
  | 8 => [match bbox_max_extent (b_of i 0) with 0 => 0 | 1 => 1 | _ => 2 end]%float
  | _ => [bbox_surface_area (b_of i 0)]
  end%N.

(** the optional transform of a primitive: flag at [o], matrices at [o+1 ..] *)
Definition opt_tr (i : list spec_float) (o : nat) : option (Tr K) :=
  if PrimFloat.eqb (fl i o) 0 then None else Some (tr_of i (o+1)).

(** bounds then world bounds; [None] = the constructor panics *)
Definition prim_out (z : res (BBox K)) (t : option (Tr K)) : option (list K) :=
  match z with
  | Ok lb => Some (bb_out lb ++ bb_out (world_bounds t lb))
  | _ => None
  end.
Definition same_opt (m : option (list K)) (e : list spec_float) : bool :=
  match m, e with
  | None, [] => true
  | Some a, _ :: _ => exact_eq a e
  | _, _ => false
  end.

Definition chk (c : N * N * list spec_float * list spec_float) : N :=
  let '(kind, op, i, e) := c in
  match kind with
  | 0 => if exact_eq (box_op op i) e then (1 + op) else 0
  | 1 => let t := tr_of i 0 in let b := bbox_new (v_of i 32) (v_of i 35) in
         if exact_eq (bb_out (if N.eqb op 0 then tr_bbox t b else tr_inv_bbox t b)) e then (20 + op) else 0
  | 2 => let lb := triangle_bounds (v_of i 0) (v_of i 3) (v_of i 6) in
         if exact_eq (bb_out lb ++ bb_out (triangle_world_bounds (v_of i 0) (v_of i 3) (v_of i 6))) e then 30 else 0
  | 3 => match op with
         | 0 => (* Sphere3D::new_partial_transformed(radius, zmin, zmax, phi, T) *)
           let m := prim_out (sphere_new_bounds (fl i 0) (fl i 1) (fl i 2) (fl i 3)) (opt_tr i 4) in
           if same_opt m e then (match m with Some _ => 40 | None => 41 end) else 0
         | _ => (* Sphere3D::new(radius, centre): translate(centre) unless the centre is (nearly) the origin *)
           let c := v_of i 1 in
           let t := if vis_zero c then None else Some (tr_translate (vx c) (vy c) (vz c)) in
           let flag_ok := Bool.eqb (PrimFloat.eqb (fl i 4) 0) (vis_zero c) in
           let m := prim_out (do z <- sphere_full_z (fl i 0); Ok (sphere_bounds (fl i 0) (fst z) (snd z))) t in
           if same_opt m e && (flag_ok || match m with None => true | _ => false end)
           then (match m with Some _ => 42 | None => 43 end) else 0
         end
  | _ => match op with
         | 0 => (* Cylinder3D::new_transformed(radius, zmin, zmax, phi, T) *)
           let m := prim_out (cylinder_new_bounds (fl i 0) (fl i 1) (fl i 2) (fl i 3)) (opt_tr i 4) in
           if same_opt m e then (match m with Some _ => 50 | None => 51 end) else 0
         | _ => (* Cylinder3D::new(p0, p1, radius): the transform (libm inside) is read back through the hook *)
           let z := cylinder_axis_z (v_of i 1) (v_of i 4) (nofZ 360) in
           let m := prim_out (do z <- z; Ok (cylinder_bounds (fl i 0) (fst z) (snd z))) (Some (tr_of i 7)) in
           if same_opt m e then 52 else 0
         end
  end%N.

End WithInstance.

Module C15.
  Definition run := run_cases (@chk NumF).
End C15.
(** the f32 build: the same runner on the binary32 instance *)
Module C15f32.
  Definition run := run_cases (@chk NumF32fast).
End C15f32.
