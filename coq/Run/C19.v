(** * C19 runner: point/vector, segment, triangle and area models on primitive floats against the
    f64 build, bit for bit (no libm on any of these paths).
    Path tags: kind 0 (vector ops) 1 + op; kind 1 (segments) 100 + 10 * tag of get_intersection_pt + 2 intersect + 1 touches;
    kind 2 (triangles, incl. Triangle3D::bounds -> [tri_bounds]) 200 + class of test_point, 210 + Err class, 299 panic;
    kind 3 (areas; op 6 = BBox3D::new + surface_area -> [box_area]) 300 + op. *)
(** The runner text is written once, in a section over the number instance [NK : Num float]: module [C19] instantiates it on
    [NumF] (the f64 build), module [C19f32] on [NumF32fast] (= [NumF32], Run/FastNum32Proof.v) for the build with
    `--features float`; bit for bit in both builds.  (The float literals of this file -- 0, 1, 2, 3, 99 and the small integers
    of [n2f] -- are markers of the output encoding, exactly representable in binary32; the model's arithmetic is the instance's.) *)
From G3 Require Import Run.Harness Run.FastNum32 Model.Vec Model.BBox Model.Transform Model.Segment Model.Triangle Model.Areas.
Local Open Scope float_scope.

Definition K := float.
Section WithInstance.
Context {NK : Num float}.
Definition fl (l : list spec_float) (i : nat) : K := SF2Prim (nthsf l i).
Definition v_of (l : list spec_float) (o : nat) : V3 K := mkV3 (fl l o) (fl l (o+1)) (fl l (o+2)).
Definition v_list (v : V3 K) : list K := [vx v; vy v; vz v].
Definition exact_eq (a : list K) (b : list spec_float) : bool := sfl_eqb (map Prim2SF a) b.
Definition b2f (b : bool) : K := if b then 1 else 0.
Definition n2f (n : N) : K := FofZ (Z.of_N n).
Definition resb (r : res bool) : list K := match r with Ok b => [1; b2f b] | Err _ => [0; 0] | Panic _ => [2; 0] end.
Definition opt2 (o : option (K * K)) : list K := match o with Some (a, b) => [1; a; b] | None => [0; 0; 0] end.
Definition optv (o : option (V3 K)) : list K := match o with Some p => 1 :: v_list p | None => [0; 0; 0; 0] end.
Definition opti (o : option N) : list K := match o with Some k => [1; n2f k] | None => [0; 0] end.
Definition resv (r : res (V3 K)) : list K := match r with Ok p => 1 :: v_list p | Err _ => [0; 0; 0; 0] | Panic _ => [2; 0; 0; 0] end.
Definition resa (r : res K) : list K := match r with Ok a => [1; a] | Err _ => [3; 0] | Panic _ => [0; 0] end.

(** kind 0: inputs a b c s *)
Definition vec_op (op : N) (i : list spec_float) : list K :=
  let a := v_of i 0 in let b := v_of i 3 in let c := v_of i 6 in let s := fl i 9 in
  match op with
  | 0 => v_list (vadd a b) | 1 => v_list (vsub a b) | 2 => v_list (vscale a s) | 3 => v_list (vdivs a s)
  | 4 => [vdot a b] | 5 => v_list (vcross a b) | 6 => [vlen a] | 7 => [vlen2 a]
  | 8 => v_list (vnormalize a) ++ v_list (vnormalize a)
  | 9 => [b2f (vis_zero a)] | 10 => [b2f (vcompare a b)] | 11 => [b2f (vis_parallel a b)]
  | 12 => [b2f (vis_same_direction a b)] | 13 => resv (vget_perpendicular a)
  | 14 => v_list (vneg a) | 15 => v_list (vabs a) | 16 => [psqdist a b] | 17 => [pdist a b]
  | 18 => resb (is_collinear a b c)
  | 19 => v_list (vadd a b) ++ v_list (vsub a b) ++ v_list (vsub a b) ++ v_list (vscale a s) ++ v_list (vdivs a s)
          ++ v_list (vadd a b) ++ [vdot a b; vdot a b; vdot a b; b2f (vcompare a b); b2f (vis_zero a)]
          ++ v_list a ++ v_list a ++ v_list a
  | _ => v_list (vadd a b) ++ v_list (vsub a b) ++ v_list (vscale a s) ++ v_list (vdivs a s)
         ++ v_list (vadd a b) ++ v_list (vadd a b) ++ v_list (vsub a b) ++ v_list (vscale a s) ++ v_list (vdivs a s)
  end%N.

(** kind 1: inputs s.start s.end r.start r.end p *)
Definition seg_out (i : list spec_float) : list K * N :=
  let s := seg_new (v_of i 0) (v_of i 3) in
  let r := seg_new (v_of i 6) (v_of i 9) in
  let p := v_of i 12 in
  let '(g, tag) := seg_get_intersection_pt_tag s r in
  let it := seg_intersect s r in let tc := seg_touches s r in
  (opt2 g ++ opt2 (seg_get_intersection_pt r s) ++ optv it ++ optv tc ++ resb (seg_contains s r)
   ++ [b2f (seg_compare s r)] ++ resb (seg_contains_point s p) ++ v_list (seg_midpoint s) ++ [slength s]
   ++ v_list (seg_as_vec s) ++ v_list (seg_as_rev_vec s) ++ [slength r],
   (100 + 10 * tag + (if it then 2 else 0) + (if tc then 1 else 0))%N).

(** kind 2: inputs a b c p q r a2 b2 c2 *)
Definition pit_n (x : PIT) : N :=
  match x with VertexA => 0 | VertexB => 1 | VertexC => 2 | EdgeAB => 3 | EdgeBC => 4 | EdgeAC => 5 | Inside => 6 | Outside => 7 end%N.
Definition tri_out (i : list spec_float) : list K * N :=
  let a := v_of i 0 in let b := v_of i 3 in let c := v_of i 6 in
  let p := v_of i 9 in let q := v_of i 12 in let r := v_of i 15 in
  match tri_new a b c with
  | Ok t =>
    let cls := pit_n (tri_test_point t p) in
    ([0; tarea t] ++ v_list (tnormal t) ++ [tri_circumradius t] ++ v_list (tri_circumcenter t) ++ [tri_aspect_ratio t]
     ++ v_list (tri_centroid t) ++ [n2f cls] ++ opti (tri_get_edge_index_from_points t q r)
     ++ opti (tri_get_edge_index_from_segment t (seg_new q r)) ++ [b2f (tri_has_vertex t p)]
     ++ (match tri_new (v_of i 18) (v_of i 21) (v_of i 24) with Ok t2 => [1; b2f (tri_compare t t2)] | _ => [0; 0] end)
     ++ resv (tri_vertex t 0) ++ resv (tri_vertex t 1) ++ resv (tri_vertex t 2) ++ resv (tri_vertex t 3)
     ++ [slength (tri_ab t); slength (tri_bc t); slength (tri_ca t)]
     ++ [b2f (match tri_segment t 3 with Err _ => true | _ => false end)]
     ++ v_list (bmin (tri_bounds t)) ++ v_list (bmax (tri_bounds t)),   (* Triangle3D::bounds() *)
     (200 + cls)%N)
  | Err c => ([n2f c], (210 + c)%N)
  | Panic _ => ([99], 299%N)
  end.

(** kind 3: constructor arguments, last input = debug-assertions flag of the build *)
Definition area_out (op : N) (i : list spec_float) : list K :=
  let dbg := PrimFloat.eqb (fl i 13) 1 in
  match op with
  | 0 => resa (do z <- sphere_new_partial (fl i 0) (fl i 4) (fl i 5) (fl i 6); Ok (sphere_area z))
  | 1 => resa (do z <- sphere_new (fl i 0); Ok (sphere_area z))
  | 2 => resa (do z <- cylinder_new_transformed (fl i 0) (fl i 1) (fl i 2) (fl i 3); cylinder_area dbg z)
  | 3 => resa (do z <- cylinder_new_partial (v_of i 0) (v_of i 3) (fl i 6) (fl i 7); cylinder_area dbg z)
  | 4 => resa (do d <- disk_new_detailed dbg (v_of i 3) (fl i 6) (fl i 7) (v_of i 8) (fl i 11); Ok (disk_area d))
  | 5 => resa (do d <- disk_new dbg (v_of i 3) (fl i 6); Ok (disk_area d))
  | _ => (* BBox3D::new(a, b) then surface_area(): the named [box_area] of Model/Areas.v (the statement of C19_box_area) *)
         let b := bbox_new (v_of i 0) (v_of i 3) in
         [box_area (v_of i 0) (v_of i 3); n2f (bbox_max_extent b)] ++ v_list (bmin b) ++ v_list (bmax b)
  end%N.

(** case = (kind, op, inputs, expected) *)
Definition chk (c : N * N * list spec_float * list spec_float) : N :=
  let '(kind, op, i, e) := c in
  match kind with
  | 0 => if exact_eq (vec_op op i) e then (1 + op) else 0
  | 1 => let '(o, t) := seg_out i in if exact_eq o e then t else 0
  | 2 => let '(o, t) := tri_out i in if exact_eq o e then t else 0
  | _ => if exact_eq (area_out op i) e then (300 + op) else 0
  end%N.

End WithInstance.

Module C19.
  Definition run := run_cases (@chk NumF).
End C19.
(** the f32 build: the same runner on the binary32 instance *)
Module C19f32.
  Definition run := run_cases (@chk NumF32fast).
End C19f32.
