(** * Quadric runner (part pquadric of C02 / C03 / C13): Sphere and Cylinder models on primitive floats
    against the f64 build.  What is compared how:
    - hit points, Some/None, [dpdu], everything of cylinders after construction: bit for bit;
    - [phi], sphere [dpdv] / normals, constructors: libm inside, [fclose];
    - a decision that compares a libm result with a threshold ([phi > phi_max], the sign of [normal . d]) only
      when the model's margin exceeds 1e-9; otherwise the case is counted under a 9xx tag and not compared;
    - debug builds: the crate panics in a [debug_assert!] exactly when the model's [*_debug_ok] is false.
    The shape is rebuilt from the *fields of the constructed object* (read through the verification hooks),
    the constructors are checked separately.
    Every call is evaluated twice: by the recomposition from the model's components (which yields the path tag and the
    margins of the libm-dependent decisions), and by the NAMED definition of the model for that very call
    ([sphere_intersect_local_ray], [sphere_simple_intersect_local_ray], [sphere_intersect], [sphere_simple_intersect],
    [sphere_info], [sphere_world_bounds], [sphere_centre], their [cyl_*] counterparts, [cyl_new]), compared with the
    crate's result under the same tolerance policy; both must agree with the crate. *)
From G3 Require Import Run.Harness Run.FastNum32 Model.NumF32 Model.Vec Model.BBox Model.RoundError Model.Transform Model.Hit Model.Sphere Model.Cylinder.
From G3 Require Import Run.C06.

Local Open Scope float_scope.
(** The runner text is written once, over the number instance [NK : Num float] and the five libm parameters; the modules
    at the end of the file instantiate it for the f64 build ([Quadric]: [NumF]) and for the f32 build ([Quadricf32]:
    [NumF32fast] = [NumF32] (Run/FastNum32Proof.v); the platform's single-precision libm against the binary32 rounding of the
    software libm):
    - [tolc]   libm-dependent values ([phi], constructor angles, placement matrices);
    - [toln]   sphere normals / [dpdv] (theta = acos (z / r) divided by sin theta: [tolc] amplified by 1 / [pole]);
    - [margin] the least margin at which a decision on a libm result is compared;
    - [pole]   |sin theta| below which the sphere's [dpdv] / normal are numerically meaningless;
    - [tolm]   the placement matrices of [Cylinder3D::new] / [new_partial]: two libm round trips (atan2 -> degrees -> radians ->
               sin / cos) whose error is then multiplied by the translation (|p0| up to 17 in the stream) in the inverse matrix. *)
Section WithInstance.
Context {NK : Num float} (tolc toln margin pole tolm : float).

Definition close1 (tol a b : float) : bool := fclose tol a b.
Fixpoint closeL (tol : float) (a : list K) (b : list spec_float) : bool :=
  match a, b with
  | [], [] => true
  | x :: a, y :: b => fclose tol x (SF2Prim y) && closeL tol a b
  | _, _ => false
  end.
Definition slice (l : list spec_float) (o n : nat) := firstn n (skipn o l).
Definition is1 (x : K) : bool := PrimFloat.eqb x 1.
Definition side_code (s : Side) : K := match s with Front => 0 | Back => 1 | NonApplicable => 2 end.

(** shapes from the hooked fields: sphere [r zmin zmax phi_max delta_theta theta_min hasT mats..],
    cylinder [r zmin zmax phi_max hasT mats..] *)
Definition sphere_of (p : list spec_float) : Sphere K :=
  mkSphere (fl p 0) (fl p 1) (fl p 2) (fl p 3) (fl p 4) (fl p 5) (if is1 (fl p 6) then Some (tr_of (skipn 7 p)) else None).
Definition cyl_of (p : list spec_float) : Cyl K :=
  mkCyl (fl p 0) (fl p 1) (fl p 2) (fl p 3) (if is1 (fl p 4) then Some (tr_of (skipn 5 p)) else None).

(** was every [phi > phi_max] decision taken by [select_hit] clear of the threshold by more than 1e-9?
    (a full shape, phi_max >= 2 pi, never clips on phi; a NaN phi compares false on both sides) *)
Definition two_pi : K := 2 * Fpi.
Definition phi_clear (phi phi_max : K) : bool :=
  PrimFloat.leb two_pi phi_max || PrimFloat.is_nan phi || PrimFloat.ltb margin (abs (phi - phi_max)).
Definition select_clear (t0 t1 : AF K) (calc : AF K -> V3 K * K) (miss : V3 K * K -> bool) (phi_max : K) : bool :=
  if PrimFloat.leb (low t1) 0 then true else
  let '(thit, hit_is_t1) := if PrimFloat.ltb 0 (low t0) then (t0, false) else (t1, true) in
  let h := calc thit in
  phi_clear (snd h) phi_max &&
  (if miss h then (if hit_is_t1 then true else phi_clear (snd (calc t1)) phi_max) else true).

Definition sphere_clear (s : Sphere K) (ray : Ray K) (oe de : V3 K) : bool :=
  let '(a, b, c) := sphere_abc s ray oe de in
  match af_solve_quadratic a b c with
  | None => true
  | Some (t0, t1) => select_clear t0 t1 (sphere_calc s ray) (sphere_miss s) (sphi_max s)
  end.
Definition cyl_clear (c : Cyl K) (ray : Ray K) (oe de : V3 K) : bool :=
  let '(a, b, cc) := cyl_abc c ray oe de in
  match af_solve_quadratic a b cc with
  | None => true
  | Some (t0, t1) => select_clear t0 t1 (cyl_calc c ray) (cyl_miss c) (cphi_max c)
  end.

(** a uniform view of the two shapes *)
Record shape := mkShape {
  sh_basic : Ray K -> V3 K -> V3 K -> option (V3 K * K) * N;
  sh_clear : Ray K -> V3 K -> V3 K -> bool;
  sh_basic_dbg : Ray K -> V3 K -> V3 K -> bool;
  sh_dpdu : V3 K -> V3 K;
  sh_dpdv : V3 K -> V3 K;
  sh_libm_info : bool;                 (* do dpdv / normal pass through libm? *)
  sh_pole : V3 K -> bool;              (* hit inside the band where sin(theta) is numerically meaningless *)
  sh_tr : option (Tr K);
  (* the named definitions of the model for the public calls *)
  nm_local_info : Ray K -> V3 K -> V3 K -> option (Info K);      (* intersect_local_ray *)
  nm_local_simple : Ray K -> V3 K -> V3 K -> option (V3 K);      (* simple_intersect_local_ray *)
  nm_world_info : Ray K -> option (Info K);                      (* intersect *)
  nm_world_simple : Ray K -> option (V3 K);                      (* simple_intersect *)
  nm_info : Ray K -> V3 K -> K -> Info K }.                      (* intersection_info *)
Definition shape_of (is_cyl : bool) (p : list spec_float) : shape :=
  if is_cyl then
    let c := cyl_of p in
    mkShape (cyl_basic_tag c) (cyl_clear c) (cyl_basic_debug_ok c) (cyl_dpdu c) (cyl_dpdv c) false (fun _ => false) (ctransform c)
            (cyl_intersect_local_ray c) (cyl_simple_intersect_local_ray c) (cyl_intersect c) (cyl_simple_intersect c) (cyl_info c)
  else
    let s := sphere_of p in
    mkShape (sphere_basic_tag s) (sphere_clear s) (sphere_basic_debug_ok s) (sphere_dpdu s) (sphere_dpdv s) true
            (fun q => negb (PrimFloat.ltb pole (abs (sphere_sin_theta s q)))) (stransform s)
            (sphere_intersect_local_ray s) (sphere_simple_intersect_local_ray s) (sphere_intersect s) (sphere_simple_intersect s)
            (sphere_info s).

Definition info_list (i : Info K) : list K :=
  v_list (ip i) ++ v_list (inormal i) ++ [side_code (iside i)] ++ v_list (idpdu i) ++ v_list (idpdv i).

(** compare an [Info]: expected layout [p(3) n(3) side dpdu(3) dpdv(3)].
    Returns 0 mismatch, 1 everything compared, 2 side/normal skipped for margin, 3 pole band (only p, dpdu) *)
Definition cmp_info_val (sh : shape) (ray : Ray K) (phit : V3 K) (i : Info K) (e : list spec_float) : N :=
  let dpdu := sh_dpdu sh phit in
  let dpdv := sh_dpdv sh phit in
  let n0v := vnormalize (vcross dpdv dpdu) in
  let dot := vdot n0v (rdir ray) in
  let p_ok := exact_eq (v_list (ip i)) (slice e 0 3) in
  let du_ok := exact_eq (v_list (idpdu i)) (slice e 7 3) in
  if negb (sh_libm_info sh) then
    (if p_ok && du_ok && exact_eq (info_list i) e then 1 else 0)%N
  else if sh_pole sh phit then (if p_ok && du_ok then 3 else 0)%N
  else
    let dv_ok := closeL toln (v_list (idpdv i)) (slice e 10 3) in
    if PrimFloat.ltb (margin * vlen (rdir ray)) (abs dot) then
      (if p_ok && du_ok && dv_ok && closeL toln (v_list (inormal i)) (slice e 3 3)
          && exact_eq [side_code (iside i)] (slice e 6 1) then 1 else 0)%N
    else (if p_ok && du_ok && dv_ok then 2 else 0)%N.
(** the recomposition: [info_new] on the model's [dpdu] / [dpdv] at the local hit point, then [info_transform] *)
Definition cmp_info (sh : shape) (ray : Ray K) (phit : V3 K) (tr : option (Tr K)) (e : list spec_float) : N :=
  let i := info_new ray phit (sh_dpdu sh phit) (sh_dpdv sh phit) in
  let i := match tr with Some t => info_transform i t | None => i end in
  cmp_info_val sh ray phit i e.
(** the same comparison on the value of a named definition; [None] where the recomposition found a hit is a disagreement *)
Definition cmp_named_info (sh : shape) (ray : Ray K) (phit : V3 K) (o : option (Info K)) (e : list spec_float) : N :=
  match o with Some i => cmp_info_val sh ray phit i e | None => 0%N end.
Definition named_pt_ok (o : option (V3 K)) (e : list spec_float) : bool :=
  match o with Some q => exact_eq (v_list q) (slice e 0 3) | None => false end.
Definition is_none {A} (o : option A) : bool := match o with None => true | Some _ => false end.

(** ops: 1 basic (local), 2 intersect_local_ray, 3 intersect (world), 4 simple_intersect (world),
    6 simple_intersect_local_ray (local ray with its error boxes).
    [flag] = outcome (0 None, 1 Some, 2 panic) + 10 when the crate was built with debug assertions.
    Tags (+ 1000 for cylinders): 100 * op + the tag of [select_hit] (1 no real root, 2 both behind, 3 t0, 4 t0 clipped -> t1,
    5 both clipped, 6 t1 (t0 behind), 7 t1 clipped), the recomposition and the named definition of the call both agreeing
    with the crate; 800 + op debug assertion predicted and observed; 900 + op phi decision inside the libm margin (not
    compared); 950 + op pole band (only p and dpdu compared); 960 + op side / normal inside the margin (not compared). *)
Definition chk_hit (is_cyl : bool) (op : N) (p i : list spec_float) (flag : N) (e : list spec_float) : N :=
  let sh := shape_of is_cyl p in
  let debug := N.leb 10 flag in
  let outcome := (flag mod 10)%N in
  let ray0 := mkRay (v_of i 0) (v_of i 3) in
  let '(ray, oe, de) :=
    match op with
    | 1 | 2 | 6 => (ray0, v_of i 6, v_of i 9)
    | 3 => match sh_tr sh with Some t => tr_inv_ray t ray0 | None => (ray0, vzero, vzero) end
    | _ => match sh_tr sh with Some t => tr_inv_ray t ray0 | None => tr_inv_ray tr_new ray0 end
    end%N in
  let tr := match op with 3 | 4 => sh_tr sh | _ => None end%N in
  if negb (sh_clear sh ray oe de) then (900 + op)%N else
  let '(r, tag) := sh_basic sh ray oe de in
  let with_info := match op with 2 | 3 => true | _ => false end%N in
  let pole := match r with Some (phit, _) => with_info && sh_libm_info sh && sh_pole sh phit | None => false end in
  let dbg_ok :=
    sh_basic_dbg sh ray oe de &&
    match r with
    | Some (phit, _) => if with_info then info_new_debug_ok (sh_dpdu sh phit) (sh_dpdv sh phit) else true
    | None => true
    end in
  if N.eqb outcome 2 then
    (if pole then 950 + op else if debug && negb dbg_ok then 800 + op else 0)%N
  else if debug && negb dbg_ok then (if pole then 950 + op else 0)%N
  else
  match r with
  | None =>
    (* the named definition of the call must report no hit either *)
    let named_none :=
      match op with
      | 2 => is_none (nm_local_info sh ray0 oe de)
      | 3 => is_none (nm_world_info sh ray0)
      | 4 => is_none (nm_world_simple sh ray0)
      | 6 => is_none (nm_local_simple sh ray0 oe de)
      | _ => true
      end%N in
    if N.eqb outcome 0 && named_none then (100 * op + tag)%N else 0%N
  | Some (phit, phi) =>
    if negb (N.eqb outcome 1) then 0%N else
    match op with
    | 1 => if exact_eq (v_list phit) (slice e 0 3) && close1 tolc phi (fl e 3) then (100 * op + tag) else 0
    | 4 => let pw := match tr with Some t => tr_pt t phit | None => phit end in
           if exact_eq (v_list pw) (slice e 0 3) && named_pt_ok (nm_world_simple sh ray0) e then (100 * op + tag) else 0
    | 6 => if exact_eq (v_list phit) (slice e 0 3) && named_pt_ok (nm_local_simple sh ray0 oe de) e then (100 * op + tag) else 0
    | _ => let named := if N.eqb op 2 then nm_local_info sh ray0 oe de else nm_world_info sh ray0 in
           let k := cmp_info sh ray phit tr e in
           (* same value, same tolerance policy, hence the same verdict *)
           if negb (N.eqb k (cmp_named_info sh ray phit named e)) then 0 else
           match k with
           | 0 => 0 | 1 => 100 * op + tag | 2 => 960 + op | _ => 950 + op
           end
    end%N
  end.

(** op 7: [intersection_info(ray, phit, phi)] called on its own ([i] = ray(6) phit(3) phi); always [Some] in the crate.
    The named [sphere_info] / [cyl_info] against the crate, with the policy of [cmp_info_val].
    Tags: 701 compared in full, 957 pole band, 967 side / normal inside the margin, 807 debug assertion of get_side predicted
    and observed (957 when in the pole band). *)
Definition chk_info (is_cyl : bool) (p i : list spec_float) (flag : N) (e : list spec_float) : N :=
  let sh := shape_of is_cyl p in
  let debug := N.leb 10 flag in
  let outcome := (flag mod 10)%N in
  let ray := mkRay (v_of i 0) (v_of i 3) in
  let phit := v_of i 6 in
  let pole := sh_libm_info sh && sh_pole sh phit in
  let dbg_ok := info_new_debug_ok (sh_dpdu sh phit) (sh_dpdv sh phit) in
  if N.eqb outcome 2 then (if pole then 957 else if debug && negb dbg_ok then 807 else 0)%N
  else if debug && negb dbg_ok then (if pole then 957 else 0)%N
  else if negb (N.eqb outcome 1) then 0%N
  else match cmp_info_val sh ray phit (nm_info sh ray phit (fl i 9)) e with
       | 0 => 0 | 1 => 701 | 2 => 967 | _ => 957
       end%N.

(** constructors.  Sphere variants: 0 new(r, centre), 1 new_partial(r, centre, zmin, zmax, phi),
    2 new_transformed(r, T), 3 new_partial_transformed(r, zmin, zmax, phi, T).
    Expected: [r zmin zmax phi_max delta_theta theta_min hasT mats..] *)
(** degenerate radius (0, inf: not rejected by the constructor): the argument of acos is NaN and the software
    acos of [NumF] does not propagate NaN; only the libm-free fields are compared then *)
Definition sphere_fields_ok (s : Sphere K) (e : list spec_float) : bool :=
  exact_eq [sradius s; szmin s; szmax s; sphi_max s] (slice e 0 4) &&
  (PrimFloat.is_nan (szmin s / sradius s) || PrimFloat.is_nan (szmax s / sradius s) ||
   closeL tolc [sdelta_theta s; stheta_min s] (slice e 4 2)).
Definition chk_sphere_ctor (variant : N) (a : list spec_float) (flag : N) (e : list spec_float) : N :=
  let r :=
    match variant with
    | 0 => sphere_new (fl a 0) (v_of a 1)
    | 1 => sphere_new_partial (fl a 0) (v_of a 1) (fl a 4) (fl a 5) (fl a 6)
    | 2 => sphere_new_transformed (fl a 0) None
    | _ => sphere_new_partial_transformed (fl a 0) (fl a 1) (fl a 2) (fl a 3) None
    end%N in
  match r with
  | Ok s =>
    if negb (N.eqb (flag mod 10) 1) then 0%N else
    if negb (sphere_fields_ok s e) then 0%N else
    if N.leb variant 1 then
      match stransform s with
      | None => if is1 (fl e 6) then 0 else 11
      | Some t => if is1 (fl e 6) && exact_eq (tr_list t) (skipn 7 e) then 12 else 0
      end%N
    else 13%N
  | Panic site => if N.eqb (flag mod 10) 2 then (20 + site)%N else 0%N
  | Err _ => 0%N
  end.

(** Cylinder variants: 0 new(p0,p1,r), 1 new_partial(p0,p1,r,phi), 2 new_transformed(r,zmin,zmax,phi,T).
    Expected: [r zmin zmax phi_max hasT mats..].  The placement matrices are accepted when they agree with the
    repaired composition order (tag 41; 43 when both orders give the same matrices) or with the order of the
    code as it stands (F4, tag 42): which one the crate implements is decided by the exact oracle, not here. *)
Definition cyl_fields_ok (c : Cyl K) (e : list spec_float) : bool :=
  exact_eq [cradius c; czmin c; czmax c; cphi_max c] (slice e 0 4).
Definition cyl_tr_ok (c : Cyl K) (e : list spec_float) : bool :=
  match ctransform c with
  | Some t => is1 (fl e 4) && closeL tolm (tr_list t) (skipn 5 e)
  | None => negb (is1 (fl e 4))
  end.
Definition chk_cyl_ctor (variant : N) (a : list spec_float) (flag : N) (e : list spec_float) : N :=
  match variant with
  | 2%N =>
    match cyl_new_transformed (fl a 0) (fl a 1) (fl a 2) (fl a 3) None with
    | Ok c => if N.eqb (flag mod 10) 1 && cyl_fields_ok c e then 45%N else 0%N
    | Panic site => if N.eqb (flag mod 10) 2 then (50 + site)%N else 0%N
    | Err _ => 0%N
    end
  | _ =>
    (* variant 0 = Cylinder3D::new: the named [cyl_new] ([cyl_new_pinned] for the composition order of the pinned snapshot) *)
    match (if N.eqb variant 0 then cyl_new (v_of a 0) (v_of a 3) (fl a 6) else cyl_new_partial (v_of a 0) (v_of a 3) (fl a 6) (fl a 7)),
          (if N.eqb variant 0 then cyl_new_pinned (v_of a 0) (v_of a 3) (fl a 6) else cyl_new_partial_pinned (v_of a 0) (v_of a 3) (fl a 6) (fl a 7)) with
    | Ok c, Ok c' =>
      if negb (N.eqb (flag mod 10) 1) then 0%N else
      (* zmax = |p1-p0| is a sqrt: exact *)
      if negb (cyl_fields_ok c e) then 0%N else
      match cyl_tr_ok c e, cyl_tr_ok c' e with
      | true, true => 43%N | true, false => 41%N | false, true => 42%N | false, false => 0%N
      end
    | Panic site, _ => if N.eqb (flag mod 10) 2 then (50 + site)%N else 0%N
    | _, _ => 0%N
    end
  end.

(** op 5: [bounds()] and [area()] (Cylinder3D::area has a [debug_assert!(zmax > zmin)]); expected [min(3) max(3) area] *)
Definition chk_aux (is_cyl : bool) (p : list spec_float) (flag : N) (e : list spec_float) : N :=
  let debug := N.leb 10 flag in
  let outcome := (flag mod 10)%N in
  let '(dbg_ok, out) :=
    if is_cyl then let c := cyl_of p in (cyl_area_debug_ok c, bb_out (cyl_bounds c) ++ [cyl_area c])
    else let s := sphere_of p in (true, bb_out (sphere_bounds s) ++ [sphere_area s]) in
  if N.eqb outcome 2 then (if debug && negb dbg_ok then 805 else 0)%N
  else if debug && negb dbg_ok then 0%N
  else if exact_eq out e then 500%N else 0%N.

(** op 8: [world_bounds()] and, for spheres, [centre()]; expected [min(3) max(3)] (++ [centre(3)]): the named
    [sphere_world_bounds] / [sphere_centre] / [cyl_world_bounds], bit for bit (the matrices are the crate's own).
    Debug builds: [transform_pt] asserts that the homogeneous coordinate is 1, which fails on a non-finite corner (a shape
    of infinite radius): the crate panics exactly when [*_world_bounds_debug_ok] / [sphere_centre_debug_ok] is false.
    Tags: 510 no transform attached, 511 with a transform, 808 debug assertion predicted and observed (+ 1000 for cylinders). *)
Definition chk_wb (is_cyl : bool) (p : list spec_float) (flag : N) (e : list spec_float) : N :=
  let debug := N.leb 10 flag in
  let outcome := (flag mod 10)%N in
  let '(out, has_tr, dbg_ok) :=
    if is_cyl then let c := cyl_of p in
      (bb_out (cyl_world_bounds c), match ctransform c with Some _ => true | None => false end, cyl_world_bounds_debug_ok c)
    else let s := sphere_of p in
      (bb_out (sphere_world_bounds s) ++ v_list (sphere_centre s), match stransform s with Some _ => true | None => false end,
       sphere_world_bounds_debug_ok s && sphere_centre_debug_ok s) in
  if N.eqb outcome 2 then (if debug && negb dbg_ok then 808 else 0)%N
  else if debug && negb dbg_ok then 0%N
  else if negb (N.eqb outcome 1) then 0%N
  else if exact_eq out e then (if has_tr then 511 else 510)%N else 0%N.

(** case = (code, params, inputs, flag, expected); code = 100 * shape + 10 * variant + op *)
Definition chk (c : N * list spec_float * list spec_float * N * list spec_float) : N :=
  let '(code, p, i, flag, e) := c in
  let is_cyl := N.eqb (code / 100) 1 in
  let variant := ((code / 10) mod 10)%N in
  let op := (code mod 10)%N in
  match op with
  | 0 => if is_cyl then chk_cyl_ctor variant p flag e else chk_sphere_ctor variant p flag e
  | 5 => let t := chk_aux is_cyl p flag e in if N.eqb t 0 then 0%N else (if is_cyl then 1000 + t else t)%N
  | 7 => let t := chk_info is_cyl p i flag e in if N.eqb t 0 then 0%N else (if is_cyl then 1000 + t else t)%N
  | 8 => let t := chk_wb is_cyl p flag e in if N.eqb t 0 then 0%N else (if is_cyl then 1000 + t else t)%N
  | _ => let t := chk_hit is_cyl op p i flag e in if N.eqb t 0 then 0%N else (if is_cyl then 1000 + t else t)%N
  end%N.

End WithInstance.

Module Quadric.
  Definition run := run_cases (@chk NumF 0x1p-40 0x1p-30 0x1.12e0be826d695p-30 0x1p-20 0x1p-40).
End Quadric.
(** the f32 build: libm values at 2^-20 (8 ulp32), pole band |sin theta| <= 2^-8, hence normals / dpdv at 2^-12;
    libm-dependent decisions compared when the margin exceeds 2^-12; placement matrices at 2^-14 (an angle of up to 360 degrees is
    good to 1 ulp32 = 2.7e-7 rad only, and the inverse matrix multiplies that by the translation) *)
Module Quadricf32.
  Definition run := run_cases (@chk NumF32fast 0x1p-20 0x1p-12 0x1p-12 0x1p-8 0x1p-14).
End Quadricf32.
