(** C17 runner on Flocq binary32, under the module name the f32 harness build writes into its case files *)
From G3 Require Export Run.C17.
Module C17f32.
  Definition run := C17b32.run.
  Definition show := C17b32.show.
End C17f32.
