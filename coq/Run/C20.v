(** * C20 runner: the deserialisers / serialisers of the Json model at the level of serde_json::Value
    (primitive floats) against from_str / to_string of the crate fed with the JSON text. *)
From G3 Require Export Run.PolyCommon Model.Json Model.PolyAux.
From Coq Require Import String.
From G3 Require Import Run.FastNum32.

(** the parsed document (numbers as f64 = what `as_f64` hands to the deserialiser; strings and keys are
    never inspected by the modelled code and travel as empty strings) *)
(** The runner text is written once, in a section over the number instance: [C20] on [NumF] (f64 build), [C20f32] on
    [NumF32fast] (= [NumF32], Run/FastNum32Proof.v) for the build with `--features float` (there the numbers of the tree are
    `as_f64() as Float`, i.e. already rounded to binary32 by the harness exactly as the crate's deserialiser does); bit for bit in both. *)
Inductive JV := jnull | jbool (b : bool) | jnum (x : spec_float) | jstr | jarr (l : list JV) | jobj (l : list JV).
Section WithInstance.
Context {NK : Num float}.
Fixpoint toV (j : JV) : Value K :=
  match j with
  | jnull => JNull | jbool b => JBool b | jnum x => JNumber (SF2Prim x) | jstr => JString EmptyString
  | jarr l => JArray (map toV l)
  | jobj l => JObject (map (fun v => (EmptyString, toV v)) l)
  end.
Fixpoint numbers_of (l : list (Value K)) : list spec_float :=
  match l with JNumber x :: tl => Prim2SF x :: numbers_of tl | _ => [] end.
Definition value_eqb_flat (a b : Value K) : bool :=
  match a, b with
  | JArray x, JArray y => Nat.eqb (List.length x) (List.length y) && Nat.eqb (List.length (numbers_of x)) (List.length x) && sfl_eqb (numbers_of x) (numbers_of y)
  | _, _ => false
  end.

Definition ExpL := (N * LoopIn)%type.
Definition ExpP := (N * (LoopIn * list spec_float * N))%type.
Definition chk_loop (v : Value K) (e : ExpL) : bool :=
  let '(eo, el) := e in
  let r := de_loop v in
  N.eqb (out_class r) eo && match r with Ok L => loop_eqb L el | _ => true end.
Definition chk_poly (v : Value K) (e : ExpP) : bool :=
  let '(eo, (el, ean, eni)) := e in
  let r := de_poly v in
  N.eqb (out_class r) eo &&
  match r with
  | Ok P => loop_eqb (pouter P) el && sfl_eqb (Prim2SF (parea P) :: vec_sf (pnormal P)) ean && N.eqb (N.of_nat (List.length (pinner P))) eni
  | _ => true
  end.
(** tags: 1 free document, outcome Ok; 2 free document, outcome Err; 3 no Value (serde_json's text layer refused
    the document: nothing to model); 4 Point3D/Vector3D case (derived impls: not modelled);
    10/11 serialised loop (11 = the loop [rebuilds]); 20/21 serialised polygon (21 = the merge was clean);
    +100 when the numbers parsed back from the text differ from the serialised ones (text layer) *)
Definition chk (c : N * JV * (LoopIn * list LoopIn * list spec_float) * ExpL * ExpP) : N :=
  let '(kind, jv, (sl, sh, spa), el, ep) := c in
  match kind with
  | 9%N => 3%N
  | 8%N => 4%N
  | 0%N => let v := toV jv in if chk_loop v el && chk_poly v ep then (if N.eqb (fst el) 0 then 1 else 2)%N else 0%N
  | 1%N =>
    let v := toV jv in
    let L := mk_loop sl in
    let sv := ser_loop L in
    if chk_loop v el && chk_poly v ep then
      ((if value_eqb_flat sv v then 0 else 100) + (if rebuilds L then 11 else 10))%N
    else 0%N
  | _ =>
    let v := toV jv in
    let P := mkPoly (mk_loop sl) (map mk_loop sh) (fl spa 0) (v_of spa 1) in
    if chk_loop v el && chk_poly v ep then
      match ser_poly P with
      | Ok sv => ((if value_eqb_flat sv v then 0 else 100) + (if closed_loop_clean false P then 21 else 20))%N
      | _ => 0%N
      end
    else 0%N
  end.

End WithInstance.

Module C20.
  Definition run := run_cases (@chk NumF).
End C20.
Module C20f32.
  Definition run := run_cases (@chk NumF32fast).
End C20f32.
