(** * C12 runner: get_closed_loop of the Polygon model (primitive floats) against the crate: the vertex
    list of the merged outline and the state of the subsequently closed loop, bit for bit (cases [CM]);
    and the remaining public operations of Loop3D / Polygon3D called directly on the same loops and polygons and on
    loops derived from them (cases [CQ], below). *)
From G3 Require Export Run.PolyCommon Model.Json Model.PolyAux.
From G3 Require Import Run.FastNum32 Model.Triangle Model.Triangulation.

Definition query := (N * N * N * list spec_float * N * list spec_float * LoopIn)%type.
(** the runner text is written once, in a section over the number instance: [C12] on [NumF] (f64 build), [C12f32] on
    [NumF32fast] (= [NumF32], Run/FastNum32Proof.v) for the build with `--features float`; bit for bit in both *)
Inductive c12case :=
| CM (c : LoopIn * list LoopIn * list spec_float * (N * LoopIn) * (N * LoopIn))
| CQ (npoly : N) (an : list spec_float) (loops : list LoopIn) (qs : list query).

Section WithInstance.
Context {NK : Num float}.

Definition eq_vlists (a b : list (V3 K)) : bool := sfl_eqb (flat a) (flat b).
(** tag = 1 + number of holes
        + 10 when the run is "clean" (no push replaced a collinear predecessor, none refused) and the
             merged vertex list equals the specification sequence [closed_loop_spec]
        + 20 when the pinned index arithmetic would have produced a different vertex list (or a panic) *)
Definition chk_merge (c : LoopIn * list LoopIn * list spec_float * (N * LoopIn) * (N * LoopIn)) : N :=
  let '(outer, hs, an, (mo, ml), (co, cl)) := c in
  let P := mkPoly (mk_loop outer) (map mk_loop hs) (fl an 0) (v_of an 1) in
  let r := poly_get_closed_loop P in
  if negb (N.eqb (out_class r) mo) then 0%N else
  match r with
  | Ok L =>
    if negb (loop_eqb L ml) then 0%N else
    let '(L', rc) := loop_close L in
    if negb (N.eqb (out_class rc) co) then 0%N else
    if negb (N.eqb co 99 || loop_eqb L' cl) then 0%N else
    let clean := closed_loop_clean false P &&
                 match closed_loop_spec false P with Some vs => eq_vlists vs (verts L) | None => false end in
    let pinned_differs := match poly_get_closed_loop_gen true P with Ok Lp => negb (eq_vlists (verts Lp) (verts L)) | _ => true end in
    (1 + N.of_nat (length hs) + (if clean then 10 else 0) + (if pinned_differs then 20 else 0))%N
  | _ => 1%N
  end.

(** ** the other public operations of Loop3D / Polygon3D, called directly (cases [CQ]).
    A query = (op, subject loop, integer argument, float arguments, expected class, expected floats, expected loop):
      1 [Loop3D::is_diagonal] -> [loop_is_diagonal]        2 [Loop3D::sanitize] -> [loop_sanitize]
      3 [Loop3D::contains_segment] -> [loop_contains_segment]   4 [Polygon3D::contains_segment] -> [poly_contains_segment]
      5 [Loop3D::perimeter] -> [loop_perimeter]            6 [Loop3D::area] -> [loop_area]
      7 [Loop3D::is_coplanar] -> [loop_is_coplanar]        8 [Loop3D::remove] -> [loop_remove] (Model/Triangulation.v)
      9 [Index<usize> for Loop3D] -> [loop_index]          10 [Polygon3D::inner] -> [poly_inner]
    Classes: booleans 0 false / 1 true, values 0 = Ok; 100 + class = Err; 99 = panic (any site).
    The subject loops travel as their complete observable state; when [npoly] > 0 the polygon is
    (loops[0]; loops[1 .. npoly-1]; area, normal = [an]). *)
Definition bclass (r : res bool) : N := match r with Ok false => 0 | Ok true => 1 | Err c => 100 + c | Panic _ => 99 end%N.
Definition vclass {A} (r : res A) : N := match r with Ok _ => 0 | Err c => 100 + c | Panic _ => 99 end%N.
Definition seg_of (a : list spec_float) : Seg K := seg_new (v_of a 0) (v_of a 3).
Definition empty_loop : Loop K := mk_loop noloop.

(** one query: 0 = mismatch, else outcome bits: 1 Ok true / Ok value, 2 Ok false, 4 Err, 8 Panic *)
Definition outcome_bit (cls : N) (is_bool : bool) : N :=
  if N.eqb cls 99 then 8 else if N.leb 100 cls then 4 else if is_bool && N.eqb cls 0 then 2 else 1.
Definition chk_query (loops : list (Loop K)) (P : option (Poly K)) (q : query) : N :=
  let '(op, subj, idx, a, ecls, efl, eloop) := q in
  let L := nth (N.to_nat subj) loops empty_loop in
  let i := N.to_nat idx in
  let fin_b (r : res bool) := if N.eqb (bclass r) ecls then outcome_bit ecls true else 0%N in
  let fin_l (r : res (Loop K)) :=
    if negb (N.eqb (vclass r) ecls) then 0%N else
    match r with Ok L' => if loop_eqb L' eloop then 1%N else 0%N | _ => outcome_bit ecls false end in
  let fin_f (r : res (list K)) :=
    if negb (N.eqb (vclass r) ecls) then 0%N else
    match r with Ok v => if sfl_eqb (map Prim2SF v) efl then 1%N else 0%N | _ => outcome_bit ecls false end in
  match op, P with
  | 1%N, _ => fin_b (loop_is_diagonal L (seg_of a))
  | 2%N, _ => fin_l (loop_sanitize L)
  | 3%N, _ => fin_b (Ok (loop_contains_segment L (seg_of a)))
  | 4%N, Some P => fin_b (Ok (poly_contains_segment P (seg_of a)))
  | 5%N, _ => fin_f (do x <- loop_perimeter L; Ok [x])
  | 6%N, _ => fin_f (do x <- loop_area L; Ok [x])
  | 7%N, _ => fin_b (loop_is_coplanar L (v_of a 0))
  | 8%N, _ => fin_l (loop_remove L i)
  | 9%N, _ => fin_f (do v <- loop_index L i; Ok [vx v; vy v; vz v])
  | 10%N, Some P => fin_l (poly_inner P i)
  | 11%N, _ => fin_f (do Q <- poly_new L;
                      Ok [parea Q; vx (pnormal Q); vy (pnormal Q); vz (pnormal Q);
                          nofZ (Z.of_nat (length (pinner Q))); nofZ (Z.of_nat (llen (pouter Q)))])
  | _, _ => 0%N
  end.
Fixpoint chk_queries (loops : list (Loop K)) (P : option (Poly K)) (qs : list query) (bits : N) : N :=
  match qs with
  | [] => bits
  | q :: tl => match chk_query loops P q with 0%N => 0%N | b => chk_queries loops P tl (N.lor bits b) end
  end.
Definition first_op (qs : list query) : N := match qs with (op, _, _, _, _, _, _) :: _ => op | [] => 0%N end.


(** tags: [CM] as above (1 .. 34); [CQ]: 100 * (operation of the first query of the group: 1 is_diagonal, 2 sanitize,
    3 contains_segment + inner, 5 getters + remove + index) + outcome bits seen in the group
    (1 Ok true / Ok value, 2 Ok false, 4 Err, 8 Panic); 0 = some query of the group disagrees *)
Definition chk (c : c12case) : N :=
  match c with
  | CM c => chk_merge c
  | CQ npoly an loops qs =>
    let Ls := map mk_loop loops in
    let P := match N.to_nat npoly, Ls with
             | S k, o :: hs => Some (mkPoly o (firstn k hs) (fl an 0) (v_of an 1))
             | _, _ => None
             end in
    match chk_queries Ls P qs 0 with
    | 0%N => 0%N
    | b => (100 * first_op qs + b)%N
    end
  end.

End WithInstance.

Module C12.
  Definition run := run_cases (@chk NumF).
End C12.
Module C12f32.
  Definition run := run_cases (@chk NumF32fast).
End C12f32.
