(** * C12 runner: get_closed_loop of the Polygon model (primitive floats) against the crate: the vertex
    list of the merged outline and the state of the subsequently closed loop, bit for bit. *)
From G3 Require Export Run.PolyCommon Model.Json Model.PolyAux.

Definition eq_vlists (a b : list (V3 K)) : bool := sfl_eqb (flat a) (flat b).
(** tag = 1 + number of holes
        + 10 when the run is "clean" (no push replaced a collinear predecessor, none refused) and the
             merged vertex list equals the specification sequence [closed_loop_spec]
        + 20 when the pinned index arithmetic would have produced a different vertex list (or a panic) *)
Definition chk (c : LoopIn * list LoopIn * list spec_float * (N * LoopIn) * (N * LoopIn)) : N :=
  let '(outer, hs, an, (mo, ml), (co, cl)) := c in
  let P := mkPoly (mk_loop outer) (map mk_loop hs) (fl an 0) (v_of an 1) in
  let r := poly_get_closed_loop P in
  if negb (N.eqb (out_class r) mo) then 0%N else
  match r with
  | Ok L =>
    if negb (loop_eqb L ml) then 0%N else
    let '(L', rc) := loop_close L in
    if negb (N.eqb (out_class rc) co) then 0%N else
    if negb (N.eqb co 99 || loop_eqb L' cl) then 0%N else
    let clean := closed_loop_clean false P &&
                 match closed_loop_spec false P with Some vs => eq_vlists vs (verts L) | None => false end in
    let pinned_differs := match poly_get_closed_loop_gen true P with Ok Lp => negb (eq_vlists (verts Lp) (verts L)) | _ => true end in
    (1 + N.of_nat (length hs) + (if clean then 10 else 0) + (if pinned_differs then 20 else 0))%N
  | _ => 1%N
  end.

Module C12.
  Definition run := run_cases chk.
End C12.
