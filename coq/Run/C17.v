(** * C17 runner: [af_solve_quadratic] on Flocq binary64 (the instance the float-tier theorems are
    about) against [ApproxFloat::solve_quadratic] of the f64 build, bit for bit
    ([None] / the four returned bounds).

    A case is [(kind, [al; ah; bl; bh; cl; ch], out)] with [out = []] for [None] and
    [[x1.low; x1.high; x2.low; x2.high]] for [Some]; [kind] (0 isolated, 1 sphere, 2 cylinder) is
    only carried along.  The path tag of an agreeing case is

      quad_path (1 rejected | 2,3 mid(b)<0 kept,swapped | 4,5 mid(b)>=0 kept,swapped)
      + 8  if ALL hypotheses of C17_roots_enclosed hold in the model: a, b, c finite and well formed, a excludes
           zero, [inter_okb] ([enclosure_hyps_s])
      + 16 if the returned enclosures are nested   ([nestedb])
      + 32 if the returned enclosures are disjoint ([disjointb])
      + 64 if the hypotheses of C17_none_when_negative / C17_some_when_margin hold: a, b, c finite and well
           formed and [disc_okb] (b*b, a*c, a*c*4. finite) ([rejection_hyps_s]) *)
From G3 Require Import Run.Harness Model.RoundError Model.Quadratic.
From Flocq Require Import IEEE754.BinarySingleNaN.
From Flocq Require Import Core BinarySingleNaN.

Section Run.
  Context {K : Type} {NK : Num K} (ofSF : spec_float -> K) (toSF : K -> spec_float).

  Definition inputs (i : list spec_float) : AF K * AF K * AF K :=
    (mkAF (ofSF (nthsf i 0)) (ofSF (nthsf i 1)),
     mkAF (ofSF (nthsf i 2)) (ofSF (nthsf i 3)),
     mkAF (ofSF (nthsf i 4)) (ofSF (nthsf i 5))).

  Definition outputs (r : option (AF K * AF K)) : list spec_float :=
    match r with
    | None => []
    | Some (x1, x2) => [toSF (low x1); toSF (high x1); toSF (low x2); toSF (high x2)]
    end.

  Definition b2n (b : bool) (w : N) : N := if b then w else 0%N.

  Definition chk (c : N * list spec_float * list spec_float) : N :=
    let '(kind, i, o) := c in
    let '(a, b, cc) := inputs i in
    let r := af_solve_quadratic a b cc in
    (* the expected values are re-encoded in the instance's own format (a binary32 value arrives as a binary64 literal) *)
    if sfl_eqb (outputs r) (map (fun y => toSF (ofSF y)) o) then
      let s := quad_steps a b cc in
      (quad_path s + b2n (enclosure_hyps_s a b cc s) 8 + b2n (nestedb r) 16 + b2n (disjointb r) 32
       + b2n (rejection_hyps_s a b cc s) 64)%N
    else 0%N.

  Definition show (c : N * list spec_float * list spec_float) : list spec_float :=
    let '(kind, i, o) := c in
    let '(a, b, cc) := inputs i in outputs (af_solve_quadratic a b cc).
End Run.

Module C17.
  Definition run := run_cases (chk B64ofSF (@B2SF 53 1024)).
  Definition show := show B64ofSF (@B2SF 53 1024).
End C17.
Module C17b32.
  Definition run := run_cases (chk B32ofSF (@B2SF 24 128)).
  Definition show := show B32ofSF (@B2SF 24 128).
End C17b32.
Module C17prim.
  Definition run := run_cases (chk F64 Prim2SF).
End C17prim.
