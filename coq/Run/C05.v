(** * C05 runner: point tests against stored loops / polygons with holes (primitive floats).
    The subject is given by its observable state (vertices, normal, closed flag), exactly as the
    crate holds it; every answer (Ok false / Ok true / Err class / panic) is compared. *)
From G3 Require Import Run.Harness Run.FastNum32 Model.Vec Model.Segment Model.Loop Model.Polygon Run.C04.

Definition lstate := (list spec_float * list spec_float * bool)%type.
Definition case := (bool * lstate * list lstate * list (list spec_float * N))%type.
Section WithInstance.
Context {NK : Num float}.
Definition loop_of (s : lstate) : Loop K :=
  let '(v, n, c) := s in mkLoop (unflat v (length v)) (v_of n 0) c (SF2Prim (S754_zero false)) (SF2Prim (S754_zero false)).
Definition res_class (r : res bool) : N :=
  match r with Ok false => 0 | Ok true => 1 | Err c => 100 + c | Panic _ => 99 end%N.

(** coverage bits of one query against one loop (recomputed from the model's own components):
    1 off-plane, 2 on-edge shortcut, 4 a vertex rule (t_a < EPSILON or t_a >= 1) was consulted, 8 an ordinary crossing *)
Fixpoint edge_bits (L : Loop K) (point d : V3 K) (ray : Seg K) (vs : list (V3 K)) (first : V3 K) (acc : N) : N :=
  match vs with
  | [] => acc
  | a :: tl =>
    let b := match tl with [] => first | w :: _ => w end in
    let s := seg_new a b in
    let acc1 := match seg_contains_point s point with Ok true => N.lor acc 2 | _ => acc end in
    let acc2 := match seg_get_intersection_pt s ray with
                | Some (t_a, t_b) =>
                  if in01 t_b && in01 t_a then
                    (if nltb t_a neps then N.lor acc1 4 else if nltb t_a n1 then N.lor acc1 8 else N.lor acc1 4)
                  else acc1
                | None => acc1 end in
    edge_bits L point d ray tl first acc2
  end.
Definition query_bits (L : Loop K) (point : V3 K) : N :=
  match loop_is_coplanar L point with
  | Ok true =>
    let d := loop_ray L point in
    edge_bits L point d (seg_new point (vadd point d)) (verts L) (vnth (verts L) O) 0%N
  | Ok false => 1%N
  | _ => 0%N
  end.

Fixpoint run_queries (is_poly : bool) (P : Poly K) (qs : list (list spec_float * N)) (bits : N) : N :=
  match qs with
  | [] => N.succ bits          (* >= 1 *)
  | (p, e) :: tl =>
    let q := v_of p 0 in
    let r := if is_poly then poly_test_point P q else loop_test_point (pouter P) q in
    if N.eqb (res_class r) e then run_queries is_poly P tl (N.lor bits (query_bits (pouter P) q)) else 0%N
  end.
Definition chk (c : case) : N :=
  let '(is_poly, o, hs, qs) := c in
  let P := mkPoly (loop_of o) (map loop_of hs) (SF2Prim (S754_zero false)) (lnormal (loop_of o)) in
  run_queries is_poly P qs 0%N.

End WithInstance.

Module C05.
  Definition run := run_cases (@chk NumF).
End C05.
(** the f32 build (`--features float`): the same runner on the binary32 instance [NumF32fast] (= [NumF32], Run/FastNum32Proof.v) *)
Module C05f32.
  Definition run := run_cases (@chk NumF32fast).
End C05f32.

