(** * C12 -- merging a polygon's holes into one outline (Polygon3D::get_closed_loop).
    The index arithmetic and the sequence characterisation hold for EVERY number instance of the model;
    the edge-sum identity is over the reals.  What is NOT proved here (stated in Proofs/C12_edge_sum.v,
    item (d)): the passage from the edge-sum identity to "area(merged) = area(outer) - sum of hole areas"
    and "wn(merged) = wn(outer) - sum wn(holes)" for the float build; both are checked on the
    implementation's outputs by the exact oracle lib/pC12.py (shoelace to 1e-9, exact winding numbers). *)
From Coq Require Import ZArith Reals List Floats.
From G3 Require Import Model.Num Model.NumF Model.Base Model.Vec Model.Segment Model.Loop Model.Polygon Model.Json Model.PolyAux
  Proofs.C12_merge Proofs.C12_edge_sum.
Import ListNotations.
Set Warnings "-inexact-float".

(** (c) a polygon without holes is returned unchanged (same vertices, opened) *)
Theorem C12_no_holes_unchanged : forall (K : Type) (NK : Num K) (P : Poly K),
  pinner P = [] -> poly_get_closed_loop P = Ok (loop_open (pouter P)).
Proof. exact (fun K NK => @no_holes_unchanged K NK). Qed.

(** (b) the repaired index arithmetic: the walk starts at the nearest vertex [id], is back at [id] after
    n steps, moves to the cyclic predecessor at every step when the hole is wound like the outline
    (it is walked backwards) and to the cyclic successor otherwise, and visits every vertex *)
Theorem C12_hole_index_start_and_return : forall (same_dir : bool) (id n : nat), id < n ->
  hole_index false same_dir id 0 n = id /\ hole_index false same_dir id n n = id /\ (forall j, hole_index false same_dir id j n < n).
Proof. intros sd id n H. split; [apply hole_index_start; exact H|]. split; [apply hole_index_return; exact H|]. intros j. apply hole_index_lt. intros E; subst; inversion H. Qed.
Theorem C12_hole_index_steps : forall (id j n : nat), id < n -> j < n ->
  hole_index false true id (S j) n = (hole_index false true id j n + n - 1) mod n /\
  hole_index false false id (S j) n = (hole_index false false id j n + 1) mod n.
Proof. intros id j n Hi Hj. split; [apply hole_index_step_back | apply hole_index_step_fwd]; assumption. Qed.
Theorem C12_hole_index_visits_every_vertex : forall (same_dir : bool) (id n : nat), id < n ->
  (forall r, r < n -> exists j, j < n /\ hole_index false same_dir id j n = r) /\
  (forall j j', j < n -> j' < n -> hole_index false same_dir id j n = hole_index false same_dir id j' n -> j = j').
Proof. intros sd id n H. split; [intros r Hr; apply hole_index_visits; assumption | intros j j' Hj Hj'; apply hole_index_inj; assumption]. Qed.

(** (a) the vertex SEQUENCE.  Hypothesis on the run ([closed_loop_clean], decidable; the runner reports how
    often it holds -- always, on the generated configurations): at every stage every `push` appended a vertex
    (none took the collinear-replacement branch, none was refused).  Then get_closed_loop succeeds and its
    vertices are [closed_loop_spec]: for each hole in turn (nearest vertex pair (e, h) by the code's own scan),
    the current outline with, right after the first occurrence of e, the hole walked from h through all its
    vertices back to h, then e again ([splice] / [walk_list]). *)
Theorem C12_merged_sequence : forall (K : Type) (NK : Num K) (P : Poly K),
  closed_loop_clean false P = true ->
  exists L, poly_get_closed_loop P = Ok L /\ closed_loop_spec false P = Some (verts L).
Proof. exact (fun K NK => @closed_loop_characterised K NK). Qed.
(** ... where the walk is, explicitly: the hole rotated to start at h and h again when the normals have
    opposite directions (forwards), the REVERSED hole rotated to start at h and h again when they have the
    same direction (backwards); and the splice is "insert after position me" *)
Theorem C12_walk_explicit : forall (K : Type) (NK : Num K) (hvs : list (V3 K)) (id : nat), id < length hvs ->
  walk_list false false hvs id = (skipn id hvs ++ firstn id hvs) ++ [vnth hvs id] /\
  walk_list false true hvs id = rev (skipn (S id) hvs ++ firstn (S id) hvs) ++ [vnth hvs id].
Proof. intros K NK hvs id H. split; [apply walk_forward | apply walk_backward]; exact H. Qed.
Theorem C12_splice_explicit : forall (K : Type) (NK : Num K) (w evs : list (V3 K)) (me : nat), me < length evs ->
  splice evs 0 me w = firstn me evs ++ vnth evs me :: w ++ vnth evs me :: skipn (S me) evs.
Proof. exact (fun K NK => @splice_split K NK). Qed.

(** the merged outline in the shape `pre ++ e :: h0 :: hs ++ h0 :: e :: post` of the theory library's bridge
    lemmas (Theory/Cyclic.v csum_bridge, Shoelace.v newell_bridge / area2_bridge, Winding.v wn_bridge) *)
Theorem C12_bridge_shape : forall (K : Type) (NK : Num K) (evs hvs : list (V3 K)) (me id : nat) (same_dir : bool),
  me < length evs -> id < length hvs ->
  exists hs,
    splice evs 0 me (walk_list false same_dir hvs id) =
      firstn me evs ++ vnth evs me :: vnth hvs id :: hs ++ vnth hvs id :: vnth evs me :: skipn (S me) evs /\
    vnth hvs id :: hs = (if same_dir then rev (skipn (S id) hvs ++ firstn (S id) hvs) else skipn id hvs ++ firstn id hvs).
Proof. exact (fun K NK => @bridge_shape K NK). Qed.

(** (d) the bridge cancels in every antisymmetric edge sum (each component of the Newell / shoelace vector,
    the winding angle around a query point): cyclic sum over the merged outline = outer -+ hole *)
Theorem C12_edge_sum_splice : forall (K : Type) (NK : Num K) (phi : V3 K -> V3 K -> R),
  (forall a b, phi a b = (- phi b a)%R) ->
  forall (evs hvs : list (V3 K)) (me id : nat) (same_dir : bool), me < length evs -> id < length hvs ->
  cyc_sum phi (splice evs 0 me (walk_list false same_dir hvs id)) =
  (cyc_sum phi evs + (if same_dir then - cyc_sum phi hvs else cyc_sum phi hvs))%R.
Proof. exact (fun K NK => @edge_sum_splice K NK). Qed.
(** for the Newell sum the model computes in Loop3D::set_area (real instance):
    S(merged) = S(outer) - S(hole) when the hole is wound like the outline, + otherwise *)
Theorem C12_newell_splice : forall (evs hvs : list (V3 R)) (me id : nat) (same_dir : bool), me < length evs -> id < length hvs ->
  let m := newell (splice evs 0 me (walk_list false same_dir hvs id)) in
  let s := (if same_dir then (-1) else 1)%R in
  (vx m = vx (newell evs) + s * vx (newell hvs) /\ vy m = vy (newell evs) + s * vy (newell hvs) /\ vz m = vz (newell evs) + s * vz (newell hvs))%R.
Proof. exact newell_splice. Qed.

(** ** the pinned tree: `(id as i32 - j as i32) as usize % n` is not `(id + n - j) mod n` *)
Theorem C12_pinned_hole_index_refuted : exists id j n, id < n /\ j <= n /\ hole_index true true id j n <> (id + n - j) mod n.
Proof. exact pinned_hole_index_refuted. Qed.

Definition mk (pts : list (V3 float)) : Loop float := fst (loop_run loop_new (map (fun p => LPush p) pts ++ [LClose])).
Definition unit_square := mk [mkV3 0 0 0; mkV3 1 0 0; mkV3 1 1 0; mkV3 0 1 0]%float.
Definition triangle := mk [mkV3 0.3 0.3 0; mkV3 0.6 0.3 0; mkV3 0.45 0.6 0]%float.
(** the unit square with the triangular hole (0.3,0.3),(0.6,0.3),(0.45,0.6) wound like the outline
    (binary64 instance): the polygon's net area is 0.955; with the pinned arithmetic the merged outline
    closes but encloses 0.91 and lacks the return to the hole's first vertex (8 vertices instead of 9);
    with the repaired arithmetic the run is clean, has the specified sequence, and encloses 0.955 *)
Definition witness : res (Poly float) := do P0 <- poly_new unit_square; poly_cut_hole P0 triangle.
Theorem C12_pinned_merge_refuted : exists (P : Poly float) (Lp L : Loop float),
  witness = Ok P /\ poly_get_closed_loop_gen true P = Ok Lp /\ poly_get_closed_loop P = Ok L /\
  snd (loop_close Lp) = Ok tt /\ snd (loop_close L) = Ok tt /\
  PrimFloat.ltb 0.954 (parea P) = true /\
  PrimFloat.ltb (larea (fst (loop_close Lp))) 0.911 = true /\ llen Lp = 8 /\
  PrimFloat.ltb (PrimFloat.abs (larea (fst (loop_close L)) - parea P)) 1e-12 = true /\ llen L = 9.
Proof.
  eexists. eexists. eexists.
  split; [vm_compute; reflexivity|]. split; [vm_compute; reflexivity|]. split; [vm_compute; reflexivity|].
  vm_compute. repeat split; reflexivity.
Qed.

(** non-vacuity of [C12_merged_sequence] (binary64): the same polygon is a clean run, and the specified
    sequence is outer[0], then the hole from its vertex 0 backwards (0, 2, 1, 0), then outer[0..3] *)
Example C12_nonvacuous :
  match poly_new unit_square with
  | Ok P0 => match poly_cut_hole P0 triangle with
             | Ok P => closed_loop_clean false P = true /\
                       option_map (@length _) (closed_loop_spec false P) = Some 9
             | _ => False end
  | _ => False
  end.
Proof. vm_compute. split; reflexivity. Qed.
