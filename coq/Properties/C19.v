(** * C19 -- segment, triangle and vector predicates agree with exact geometry (exact tier, reals).
    Each theorem is the specification of one function of the model WITH ITS TOLERANCE WRITTEN IN;
    statements only, each closed by [exact].  [V] = points and vectors over R, [S] = segments, [T] = triangles.
    Constants: [tinyR] = 100 * 2^-52, [epsR] = 2^-52, [e5] = 1e-5, [e6] = 1e-6, [e8] = 1e-8.
    Finding F5 (skew segments reported as crossing, common start point missed) was repaired in /repo by fix ec384e6;
    the segment theorems of section 2 are about the live code, the [C19_pinned_*] theorems keep the machine-checked
    record of the defect about the code before the fix (Model/PinnedSegment.v).  The remaining [_refuted] theorems
    record where the live code still departs from the property (F11 and the parametrisation of [contains_point]). *)
From Coq Require Import ZArith Reals List Bool Floats.
From G3 Require Import Model.Num Model.NumF Model.Base Model.Vec Model.BBox Model.Transform Model.Hit Model.Segment Model.PinnedSegment
  Model.Triangle Model.Areas Proofs.C19_vec Proofs.C19_segment Proofs.C19_triangle Proofs.C19_areas Proofs.C19_examples.
Local Open Scope R_scope.

(** ** 1. points and vectors *)
Theorem C19_is_zero_and_compare_spec : forall a p : V,
  (vis_zero a = true <-> Rabs (vx a) < tinyR /\ Rabs (vy a) < tinyR /\ Rabs (vz a) < tinyR) /\
  (vcompare a p = true <-> Rabs (vx a - vx p) < e5 /\ Rabs (vy a - vy p) < e5 /\ Rabs (vz a - vz p) < e5).
Proof. exact (fun a p => conj (vis_zero_spec a) (vcompare_spec a p)). Qed.
(** cross product: perpendicular to both factors, anti-commutative, |a x b|^2 = |a|^2 |b|^2 - (a.b)^2 (Lagrange) *)
Theorem C19_operator_identities :
  (forall a b : V,
  vdot (vcross a b) a = 0 /\ vdot (vcross a b) b = 0 /\ vcross a b = vneg (vcross b a) /\
  vlen2 (vcross a b) = vlen2 a * vlen2 b - vdot a b * vdot a b) /\
  (forall (a b c : V) (s t : R),
  vadd a b = vadd b a /\ vadd (vadd a b) c = vadd a (vadd b c) /\ vsub a b = vadd a (vneg b) /\
  vadd a (vsub b a) = b /\ vsub (vadd a b) a = b /\
  vscale (vadd a b) s = vadd (vscale a s) (vscale b s) /\ vscale (vscale a s) t = vscale a (s * t) /\
  vdot a b = vdot b a /\ vdot (vadd a b) c = vdot a c + vdot b c /\ vdot (vscale a s) b = s * vdot a b /\
  (s <> 0 -> vdivs (vscale a s) s = a /\ vdivs a s = vscale a (/ s))).
Proof.
  exact (conj ((fun a b => conj (proj1 (vcross_perp a b)) (conj (proj2 (vcross_perp a b)) (conj (vcross_anticomm a b) (eq_sym (lagrange a b))))))
              ((fun a b c s t => conj (vadd_comm a b) (conj (vadd_assoc a b c) (conj (vsub_vadd_neg a b) (conj (vadd_vsub a b) (conj (vsub_vadd a b)
    (conj (vscale_vadd a b s) (conj (vscale_vscale a s t) (conj (vdot_comm a b) (conj (vdot_vadd_l a b c) (conj (vdot_vscale_l a b s) (vdivs_vscale a s))))))))))))).
Qed.
Theorem C19_length_distance_normalize :
  (forall (a p : V) (s : R),
  0 <= vlen a /\ vlen a * vlen a = vlen2 a /\ vlen2 a = vdot a a /\ (vlen2 a = 0 <-> a = mkV3 0 0 0) /\
  vlen (vscale a s) = Rabs s * vlen a /\ vdot a p * vdot a p <= vlen2 a * vlen2 p /\
  psqdist a p = vlen2 (vsub a p) /\ pdist a p = vlen (vsub a p) /\ pdist a p = pdist p a /\ (pdist a p = 0 <-> a = p)) /\
  (forall a : V, vlen2 a <> 0 ->
  vlen (vnormalize a) = 1 /\ vnormalize a = vscale a (/ vlen a) /\ 0 < / vlen a).
Proof.
  exact (conj ((fun a p s => conj (vlen_nonneg a) (conj (vlen_sqr a) (conj (vlen2_vdot a) (conj (vlen2_zero a) (conj (vlen_vscale a s)
    (conj (cauchy_schwarz a p) (conj (psqdist_vsub a p) (conj (pdist_vsub a p) (conj (pdist_sym a p) (pdist_zero a p)))))))))))
              (vnormalize_unit)).
Qed.
(** [tiny a]: every component below 100 eps in absolute value ([is_zero]) *)
Theorem C19_is_parallel_spec : forall a b : V,
  vis_parallel a b = true <-> ~ tiny a /\ ~ tiny b /\ vlen2 (vcross a b) < e5.
Proof. exact vis_parallel_spec. Qed.
Theorem C19_is_same_direction_spec : forall a b : V,
  vis_same_direction a b = true <-> ~ tiny a /\ ~ tiny b /\ vlen2 (vcross a b) < e5 /\ 0 < vdot a b.
Proof. exact vis_same_direction_spec. Qed.
Theorem C19_get_perpendicular_spec :
  (forall v w : V, vget_perpendicular v = Ok w -> vdot w v = 0 /\ vlen w = 1) /\
  (forall v : V,
  (forall s, vget_perpendicular v <> Panic s) /\
  (forall c, vget_perpendicular v = Err c <-> (c = 2%N /\ Rabs (vx v) <= tinyR /\ Rabs (vy v) <= tinyR /\ Rabs (vz v) <= tinyR))).
Proof.
  exact (conj (vget_perpendicular_ok)
              (vget_perpendicular_err)).
Qed.
Theorem C19_is_collinear_spec : forall a b c : V,
  (forall s, is_collinear a b c <> Panic s) /\
  (forall e, is_collinear a b c = Err e <-> e = 1%N /\ vcompare a b = true /\ vcompare a c = true) /\
  (forall r, is_collinear a b c = Ok r <-> ~ (vcompare a b = true /\ vcompare a c = true) /\
     (r = true <-> vcompare a b = true \/ vcompare a c = true \/ vcompare b c = true \/
                   vlen (vcross (vsub b a) (vsub c b)) < e5)).
Proof. exact is_collinear_spec. Qed.
(** the collinearity measure is (length of ab) x (distance of c from the line ab): NOT a distance *)
Theorem C19_collinear_measure_is_distance_times_length : forall a b c : V, vlen2 (vsub b a) <> 0 ->
  vdot (vsub c (foot a b c)) (vsub b a) = 0 /\
  vlen (vcross (vsub b a) (vsub c b)) = vlen (vsub b a) * vlen (vsub c (foot a b c)).
Proof. exact (fun a b c H => conj (proj1 (collinear_measure2 a b c H)) (collinear_measure a b c H)). Qed.

(** ** 2. segments: the live code (after fix ec384e6: the coplanarity test is |delta . n| <= 1e-5 |n|, i.e. the distance
    between the two supporting lines is at most 1e-5; n = a x b, delta = s.start - r.start, [triple s r] = delta . n) *)
(** skew segments are never reported: lines further apart than 1e-5 give [None] (and the F5 witness is rejected) *)
Theorem C19_segment_skew_never_reported :
  (forall s r : S, e5 * vlen (seg_normal s r) < Rabs (triple s r) -> seg_get_intersection_pt s r = None) /\
  (seg_get_intersection_pt f5_s f5_r = None /\ seg_intersect f5_s f5_r = None /\ seg_touches f5_s f5_r = None).
Proof. exact (conj gip_skew_none f5_rejected). Qed.
(** in the projection chosen by the code (first of n.z, n.x, n.y above 1e-5) two coordinates of s(ta) and r(tb)
    coincide, the third differs by (delta . n) / n_k; and the lines are within the tolerance *)
Theorem C19_segment_parameters_solve_projection : forall (s r : S) (ta tb : R),
  seg_get_intersection_pt s r = Some (ta, tb) ->
  (let n := seg_normal s r in let P := seg_at s ta in let Q := seg_at r tb in
   (e5 < Rabs (vz n) /\ vx P = vx Q /\ vy P = vy Q /\ (vz P - vz Q) * vz n = triple s r) \/
   (Rabs (vz n) <= e5 /\ e5 < Rabs (vx n) /\ vy P = vy Q /\ vz P = vz Q /\ (vx P - vx Q) * vx n = triple s r) \/
   (Rabs (vz n) <= e5 /\ Rabs (vx n) <= e5 /\ e5 < Rabs (vy n) /\ vx P = vx Q /\ vz P = vz Q /\ (vy P - vy Q) * vy n = triple s r)) /\
  Rabs (triple s r) <= e5 * vlen (seg_normal s r).
Proof. exact gip_solved. Qed.
(** the reported parameters locate ONE 3-D point exactly when the four end points are coplanar; in general the two
    located points differ along one axis, by |delta . n| / |n_k| *)
Theorem C19_segment_points_coincide_iff_coplanar : forall (s r : S) (ta tb : R),
  seg_get_intersection_pt s r = Some (ta, tb) ->
  (seg_at s ta = seg_at r tb <-> triple s r = 0) /\ (coplanar s r -> seg_at s ta = seg_at r tb) /\
  exists nk, e5 < Rabs nk /\ (nk = vx (seg_normal s r) \/ nk = vy (seg_normal s r) \/ nk = vz (seg_normal s r)) /\
             vlen2 (vsub (seg_at s ta) (seg_at r tb)) * (nk * nk) = triple s r * triple s r.
Proof.
  exact (fun s r ta tb H => conj (solved_coincide_iff s r ta tb (proj1 (gip_solved s r ta tb H)))
          (conj (gip_coplanar_3d s r ta tb H) (solved_gap s r ta tb (proj1 (gip_solved s r ta tb H))))).
Qed.
(** a genuine meeting point of the supporting lines is reported, with its parameters, whenever the directions are not
    "same direction" and some component of n exceeds 1e-5; and nothing else is ever reported for such lines *)
Theorem C19_segment_parameters_complete : forall (s r : S) (ta tb : R) (t : R * R),
  seg_at s ta = seg_at r tb ->
  (seg_get_intersection_pt s r = Some t -> t = (ta, tb)) /\
  (vis_same_direction (seg_as_vec s) (seg_as_vec r) = false ->
   (e5 < Rabs (vz (seg_normal s r)) \/ e5 < Rabs (vx (seg_normal s r)) \/ e5 < Rabs (vy (seg_normal s r))) ->
   seg_get_intersection_pt s r = Some (ta, tb)).
Proof. exact (fun s r ta tb t E => conj (gip_complete s r ta tb t E) (gip_reports s r ta tb E)). Qed.
Theorem C19_segment_reported_iff : forall s r : S,
  (exists t, seg_get_intersection_pt s r = Some t) <->
  vis_same_direction (seg_as_vec s) (seg_as_vec r) = false /\
  Rabs (triple s r) <= e5 * vlen (seg_normal s r) /\
  (e5 < Rabs (vz (seg_normal s r)) \/ e5 < Rabs (vx (seg_normal s r)) \/ e5 < Rabs (vy (seg_normal s r))).
Proof. exact gip_some_iff. Qed.
Theorem C19_segment_intersect_touches_spec : forall (s r : S) (p : V),
  (seg_intersect s r = Some p <->
   exists ta tb, seg_get_intersection_pt s r = Some (ta, tb) /\ (0 <= ta < 1 /\ e8 <= tb < 1 - e8) /\ p = seg_at s ta) /\
  (seg_touches s r = Some p <->
   exists ta tb, seg_get_intersection_pt s r = Some (ta, tb) /\ (0 <= ta <= 1 /\ 0 <= tb <= 1) /\ p = seg_at s ta).
Proof. exact (fun s r p => conj (seg_intersect_spec s r p) (seg_touches_spec s r p)). Qed.
(** crossing excludes, touching includes, contact at the second segment's end points; crossing implies touching *)
Theorem C19_segment_endpoint_contact : forall (s r : S) (ta tb : R) (p : V),
  (seg_get_intersection_pt s r = Some (ta, tb) -> tb = 0 \/ tb = 1 ->
   seg_intersect s r = None /\ (0 <= ta <= 1 -> seg_touches s r = Some (seg_at s ta))) /\
  (seg_intersect s r = Some p -> seg_touches s r = Some p).
Proof. exact (fun s r ta tb p => conj (seg_endpoint_contact s r ta tb) (seg_intersect_touches s r p)). Qed.
(** every reported touch (hence crossing) lies on supporting lines at most 1e-5 apart, and is a genuine common point of
    the two segments when the end points are exactly coplanar *)
Theorem C19_segment_touch_is_common_point : forall (s r : S) (p : V), seg_touches s r = Some p ->
  (Rabs (triple s r) <= e5 * vlen (seg_normal s r) /\
   exists ta tb, 0 <= ta <= 1 /\ 0 <= tb <= 1 /\ p = seg_at s ta /\ solved s r ta tb) /\
  (coplanar s r -> exists ta tb, 0 <= ta <= 1 /\ 0 <= tb <= 1 /\ p = seg_at s ta /\ p = seg_at r tb).
Proof. exact (fun s r p H => conj (seg_touch_lines_close s r p H) (fun C => seg_touch_coplanar_sound s r p C H)). Qed.
(** segments with a common start point touch there (contact at the second segment's end point), and do not cross *)
Theorem C19_segment_common_start_touches : forall s r : S,
  sstart s = sstart r -> vis_same_direction (seg_as_vec s) (seg_as_vec r) = false ->
  (e5 < Rabs (vz (seg_normal s r)) \/ e5 < Rabs (vx (seg_normal s r)) \/ e5 < Rabs (vy (seg_normal s r))) ->
  seg_get_intersection_pt s r = Some (0, 0) /\ seg_touches s r = Some (sstart s) /\ seg_intersect s r = None.
Proof. exact gip_common_start. Qed.
(** contains_point / contains: the parameter is read along the FIRST axis whose extent exceeds EPSILON (resp. 1e-6) *)
Theorem C19_segment_contains_spec :
  (forall (s : S) (p : V),
  seg_contains_point s p =
  match is_collinear p (sstart s) (send s) with
  | Ok true => match first_axis epsR (seg_as_vec s) with
               | Some c => Ok (in01 (c (vsub p (sstart s)) / c (seg_as_vec s)))
               | None => Err 3%N end
  | Ok false => Ok false
  | Err e => Err e
  | Panic q => Panic q
  end) /\
  (forall (a b : V) (al be : R), long_enough a b ->
  let s := seg_new a b in
  seg_contains s (seg_new (seg_at s al) (seg_at s be)) = Ok (in01 al && in01 be) /\
  (in01 al && in01 be = true <-> 0 <= al <= 1 /\ 0 <= be <= 1)).
Proof.
  exact (conj (seg_contains_point_spec)
              (seg_contains_exact)).
Qed.
Theorem C19_segment_contains_point_exact :
  (forall (s : S) (t : R), long_enough (sstart s) (send s) ->
  seg_contains_point s (seg_at s t) = Ok (in01 t) /\ (in01 t = true <-> 0 <= t <= 1)) /\
  (forall s : S, seg_midpoint s = seg_at s (1 / 2)).
Proof.
  exact (conj (seg_contains_point_exact)
              (seg_midpoint_spec)).
Qed.

(** ** 2'. where the live code still violates the property *)
(** F11: two 5 cm edges at 26.6 degrees (sin^2 = 1/5) are "same direction"; their genuine crossing is not reported *)
Theorem C19_segment_short_edges_crossing_missed_refuted :
  vlen2 (vcross f11_a f11_b) = vlen2 f11_a * vlen2 f11_b * (1 / 5) /\
  seg_at f11_s (2/5) = seg_at f11_r (1/2) /\ (0 <= 2/5 < 1 /\ e8 <= 1/2 < 1 - e8) /\
  seg_get_intersection_pt f11_s f11_r = None /\ seg_intersect f11_s f11_r = None /\ seg_touches f11_s f11_r = None.
Proof. exact (conj (proj2 f11_parallel) f11_refuted). Qed.

(** ** 2''. the code BEFORE fix ec384e6 (Model/PinnedSegment.v, names [_pinned]): machine-checked record of finding F5.
    Its "coplanarity" test was (delta x n).is_zero() *)
(** what the pinned code guaranteed, and when it answered: the scalar triple product (coplanarity) did not enter *)
Theorem C19_pinned_segment_characterised : forall (s r : S) (ta tb : R),
  (seg_get_intersection_pt_pinned s r = Some (ta, tb) ->
   solved s r ta tb /\ (seg_at s ta = seg_at r tb <-> triple s r = 0)) /\
  ((exists t, seg_get_intersection_pt_pinned s r = Some t) <->
   vis_same_direction (seg_as_vec s) (seg_as_vec r) = false /\
   ~ tiny (vcross (seg_delta s r) (seg_normal s r)) /\
   (e5 < Rabs (vz (seg_normal s r)) \/ e5 < Rabs (vx (seg_normal s r)) \/ e5 < Rabs (vy (seg_normal s r)))).
Proof.
  exact (fun s r ta tb => conj (fun H => conj (gipP_solved s r ta tb H) (solved_coincide_iff s r ta tb (gipP_solved s r ta tb H)))
                               (gipP_some_iff s r)).
Qed.
(** F5, witness: (0,0,0)-(1,0,0) and (1/2,-1,1)-(1/2,1,1) are nowhere closer than 1, yet "crossed" at (1/2,0,0);
    F5, the class [known_skew s r] = (delta . (a x b) <> 0): EVERY member that got an answer got two different points *)
Theorem C19_pinned_segment_skew_reported_as_crossing_refuted :
  (seg_get_intersection_pt_pinned f5_s f5_r = Some (1/2, 1/2) /\
   seg_intersect_pinned f5_s f5_r = Some (mkV3 (1/2) 0 0) /\ seg_touches_pinned f5_s f5_r = Some (mkV3 (1/2) 0 0) /\
   seg_at f5_s (1/2) = mkV3 (1/2) 0 0 /\ seg_at f5_r (1/2) = mkV3 (1/2) 0 1 /\
   ~ coplanar f5_s f5_r /\ (forall ta tb, vlen2 (vsub (seg_at f5_s ta) (seg_at f5_r tb)) >= 1)) /\
  (forall (s r : S) (ta tb : R),
   known_skew s r = true -> seg_get_intersection_pt_pinned s r = Some (ta, tb) -> seg_at s ta <> seg_at r tb).
Proof. exact (conj f5_refuted known_skew_wrong). Qed.
(** F5, second class: segments starting at the same point were never reported (although they touch there) *)
Theorem C19_pinned_segment_common_start_class_refuted :
  (forall s r : S, known_common_start s r = true <-> sstart s = sstart r) /\
  (forall s r : S, known_common_start s r = true -> seg_get_intersection_pt_pinned s r = None) /\
  (exists s r : S, sstart s = sstart r /\ coplanar s r /\ vdot (seg_as_vec s) (seg_as_vec r) = 0 /\
                   seg_at s 0 = seg_at r 0 /\ seg_touches_pinned s r = None).
Proof. exact (conj known_common_start_true (conj known_common_start_none common_start_refuted)). Qed.
(** outside the two classes the fix changes nothing: on coplanar pairs that the pinned code answered, live = pinned;
    and outside the skew class the pinned code's touches were genuine common points *)
Theorem C19_pinned_agrees_outside_known_classes : forall (s r : S) (p : V),
  (known_skew s r = false <-> coplanar s r) /\
  (coplanar s r -> ~ tiny (vcross (seg_delta s r) (seg_normal s r)) ->
   seg_get_intersection_pt s r = seg_get_intersection_pt_pinned s r) /\
  (known_skew s r = false -> seg_touches_pinned s r = Some p ->
   exists ta tb, 0 <= ta <= 1 /\ 0 <= tb <= 1 /\ p = seg_at s ta /\ p = seg_at r tb).
Proof. exact (fun s r p => conj (known_skew_false s r) (conj (gip_agrees_pinned s r) (touches_sound_outside_known_pinned s r p))). Qed.
(** executed on primitive floats (the instance run against the crate): F5 in the pinned code and its absence in the live
    code; the contains_point parametrisation (still present) *)
Theorem C19_float_witnesses_refuted :
  (seg_intersect_pinned (fs 0 0 0 1 0 0) (fs 0.5 (-1) 1 0.5 1 1) = Some (mkV3 0.5 0 0) /\
   seg_touches_pinned (fs 0 0 0 1 0 0) (fs 0.5 (-1) 1 0.5 1 1) = Some (mkV3 0.5 0 0) /\
   seg_get_intersection_pt_pinned (fs 0 0 0 1 0 0) (fs 0.5 (-1) 1 0.5 1 1) = Some (0.5, 0.5) /\
   seg_get_intersection_pt (fs 0 0 0 1 0 0) (fs 0.5 (-1) 1 0.5 1 1) = None /\
   seg_intersect (fs 0 0 0 1 0 0) (fs 0.5 (-1) 1 0.5 1 1) = None /\ seg_touches (fs 0 0 0 1 0 0) (fs 0.5 (-1) 1 0.5 1 1) = None)%float /\
  (seg_get_intersection_pt_pinned (fs 0 0 0 1 0 0) (fs 0 0 0 0 1 0) = None /\ seg_touches_pinned (fs 0 0 0 1 0 0) (fs 0 0 0 0 1 0) = None /\
   seg_touches (fs 0 0 0 1 0 0) (fs 0 0 0 0 1 0) = Some (mkV3 0 0 0) /\ seg_intersect (fs 0 0 0 1 0 0) (fs 0 0 0 0 1 0) = None)%float /\
  (seg_contains_point (fs 0 0 0 0x1.203af9ee75616p-50 1 0) (mkV3 0 2 0) = Ok true /\
   seg_contains_point (fs 0 0 0 0 1 0) (mkV3 0 2 0) = Ok false)%float.
Proof. exact (conj f5_float (conj common_start_float noise_axis_float)). Qed.

(** ** 3. triangles *)
(** (alpha, beta) of [test_point] are THE barycentric coordinates of the orthogonal projection of p on the plane *)
Theorem C19_barycentric_projection : forall (t : T) (p : V) (al be : R), tri_det t <> 0 ->
  (let q := tri_pt t (tri_alpha t p) (tri_beta t p) in
   vdot (vsub p q) (tri_e1 t) = 0 /\ vdot (vsub p q) (tri_e2 t) = 0) /\
  (vdot (vsub p (tri_pt t al be)) (tri_e1 t) = 0 -> vdot (vsub p (tri_pt t al be)) (tri_e2 t) = 0 ->
   al = tri_alpha t p /\ be = tri_beta t p).
Proof. exact (fun t p al be H => conj (tri_bary_projection t p H) (tri_bary_unique t p al be H)). Qed.
(** for a point of the plane they are its coordinates; the determinant is |e1 x e2|^2 = (2 area)^2 *)
Theorem C19_barycentric_in_plane : forall (t : T) (al be : R),
  tri_det t = vlen2 (vcross (tri_e1 t) (tri_e2 t)) /\
  (tri_det t <> 0 ->
   tri_alpha t (tri_pt t al be) = al /\ tri_beta t (tri_pt t al be) = be /\ tri_w t (tri_pt t al be) = 1 - al - be).
Proof. exact (fun t al be => conj (tri_det_cross t) (tri_bary_in_plane t al be)). Qed.
(** the cascade = the sign pattern of (alpha, beta, w = 1 - alpha - beta) at tolerance 100 eps *)
Theorem C19_test_point_spec : forall (t : T) (p : V),
  let al := tri_alpha t p in let be := tri_beta t p in let w := tri_w t p in
  let nn := - tinyR <= al /\ - tinyR <= be /\ - tinyR <= w in
  (tri_test_point t p = Outside <-> (al < - tinyR \/ be < - tinyR \/ w < - tinyR)) /\
  (tri_test_point t p = Inside  <-> (tinyR < al /\ tinyR < be /\ tinyR < w)) /\
  (tri_test_point t p = VertexA <-> (nn /\ al <= tinyR /\ be <= tinyR)) /\
  (tri_test_point t p = VertexC <-> (nn /\ al <= tinyR /\ tinyR < be /\ w <= tinyR)) /\
  (tri_test_point t p = VertexB <-> (nn /\ tinyR < al /\ be <= tinyR /\ w <= tinyR)) /\
  (tri_test_point t p = EdgeAC  <-> (nn /\ al <= tinyR /\ tinyR < be /\ tinyR < w)) /\
  (tri_test_point t p = EdgeBC  <-> (nn /\ tinyR < al /\ tinyR < be /\ w <= tinyR)) /\
  (tri_test_point t p = EdgeAB  <-> (nn /\ tinyR < al /\ be <= tinyR /\ tinyR < w)).
Proof. exact tri_test_point_spec. Qed.
Theorem C19_triangle_new_spec :
  (forall a b c : V,
  (forall s, tri_new a b c <> Panic s) /\
  (tri_new a b c = Err 10%N <-> (vcompare a b = true \/ vcompare a c = true \/ vcompare b c = true)) /\
  (tri_new a b c = Err 11%N <-> (vcompare a b = false /\ vcompare a c = false /\ vcompare b c = false /\
                                 vlen (vcross (vsub b a) (vsub c b)) < e5))) /\
  (forall (a b c : V) (t : T), tri_new a b c = Ok t ->
  ta t = a /\ tb t = b /\ tc t = c /\ tarea t = vlen (vcross (vsub b a) (vsub c a)) / 2 /\ tnormal t = tri_normal_of a b c /\
  vcompare a b = false /\ vcompare a c = false /\ vcompare b c = false /\ e5 <= vlen (vcross (vsub b a) (vsub c b))).
Proof.
  exact (conj (tri_new_total)
              (tri_new_ok)).
Qed.
(** an accepted triangle stores its vertices, Heron's area = |ab x ac| / 2, and the normalised (b-a) x (c-b) *)
Theorem C19_heron_is_half_cross : forall a b c : V,
  heron (pdist a b) (pdist b c) (pdist c a) = vlen (vcross (vsub b a) (vsub c a)) / 2.
Proof. exact tri_area_heron. Qed.
Theorem C19_normal_unit_right_handed : forall a b c : V, vlen2 (vcross (vsub b a) (vsub c a)) <> 0 ->
  let n := vcross (vsub b a) (vsub c a) in
  vlen (tri_normal_of a b c) = 1 /\ tri_normal_of a b c = vscale n (/ vlen n) /\ 0 < / vlen n /\
  vdot (tri_normal_of a b c) (vsub b a) = 0 /\ vdot (tri_normal_of a b c) (vsub c a) = 0.
Proof. exact tri_normal_spec. Qed.
Theorem C19_circumcenter_circumradius_spec :
  (forall t : T, tri_nondeg t ->
  let o := tri_circumcenter t in
  psqdist o (ta t) = psqdist o (tb t) /\ psqdist o (ta t) = psqdist o (tc t) /\
  vdot (vsub o (ta t)) (vcross (tri_e1 t) (tri_e2 t)) = 0) /\
  (forall t : T, tri_nondeg t ->
  tri_circumradius t = pdist (tri_circumcenter t) (ta t) /\
  tri_circumradius t = pdist (tri_circumcenter t) (tb t) /\
  tri_circumradius t = pdist (tri_circumcenter t) (tc t)).
Proof.
  exact (conj (tri_circumcenter_spec)
              (tri_circumradius_spec)).
Qed.
Theorem C19_centroid_aspect_ratio_spec :
  (forall t : T,
  tri_centroid t = vdivs (vadd (vadd (ta t) (tb t)) (tc t)) 3 /\
  vadd (vadd (vsub (ta t) (tri_centroid t)) (vsub (tb t) (tri_centroid t))) (vsub (tc t) (tri_centroid t)) = mkV3 0 0 0) /\
  (forall t : T,
  tri_aspect_ratio t = tri_circumradius t / Rmin (Rmin (Rmin e19 (pdist (ta t) (tb t))) (pdist (tb t) (tc t))) (pdist (tc t) (ta t)) /\
  (pdist (ta t) (tb t) <= e19 ->
   tri_aspect_ratio t = tri_circumradius t / Rmin (Rmin (pdist (ta t) (tb t)) (pdist (tb t) (tc t))) (pdist (tc t) (ta t)))).
Proof.
  exact (conj (tri_centroid_spec)
              ((fun t => conj (tri_aspect_ratio_spec t) (tri_aspect_ratio_shortest t)))).
Qed.
Theorem C19_triangle_lookup_spec : forall (t u : T) (p a b : V) (k : N),
  (tri_has_vertex t p = true <-> (vcompare (ta t) p = true \/ vcompare (tb t) p = true \/ vcompare (tc t) p = true)) /\
  (tri_compare t u = true <-> (tri_has_vertex u (ta t) = true /\ tri_has_vertex u (tb t) = true /\ tri_has_vertex u (tc t) = true)) /\
  (tri_get_edge_index_from_points t a b = Some k ->
   (k = 0%N /\ seg_compare (seg_new a b) (tri_ab t) = true) \/
   (k = 1%N /\ seg_compare (seg_new a b) (tri_ab t) = false /\ seg_compare (seg_new a b) (tri_bc t) = true) \/
   (k = 2%N /\ seg_compare (seg_new a b) (tri_ab t) = false /\ seg_compare (seg_new a b) (tri_bc t) = false /\
    seg_compare (seg_new a b) (tri_ca t) = true)).
Proof. exact (fun t u p a b k => conj (tri_has_vertex_spec t p) (conj (tri_compare_spec t u) (tri_edge_index_spec t a b k))). Qed.

(** ** 4. closed-form areas (DEFINITIONAL: the formulas are read off the code; what is checked is that the
    code computes them -- the correspondence run -- and that they specialise to the textbook values) *)
Theorem C19_sphere_area :
  (forall r zmin zmax phi : R, 0 <= r -> - r <= zmin -> zmin <= zmax -> zmax <= r -> 0 <= phi <= 360 ->
  (exists z, sphere_new_partial r zmin zmax phi = Ok z /\ sphere_area z = rad phi * r * (zmax - zmin)) /\
  (forall z0 z1 z2 p q : R,   (* additive in the z range and in the longitude range *)
     rad (p + q) * r * (z2 - z0) = rad p * r * (z1 - z0) + rad p * r * (z2 - z1) + rad q * r * (z2 - z0))) /\
  (forall r : R, 0 <= r -> exists z, sphere_new r = Ok z /\ sphere_area z = 4 * PI * (r * r)).
Proof.
  exact (conj ((fun r zmin zmax phi H1 H2 H3 H4 H5 => conj (sphere_zone_area r zmin zmax phi H1 H2 H3 H4 H5) (fun z0 z1 z2 p q => sphere_area_additive r z0 z1 z2 p q)))
              (sphere_full_area)).
Qed.
Theorem C19_cylinder_area :
  (forall (dbg : bool) (r zmin zmax phi : R), zmin < zmax -> 0 <= phi <= 360 ->
  exists z, cylinder_new_transformed r zmin zmax phi = Ok z /\ cylinder_area dbg z = Ok ((zmax - zmin) * r * rad phi)) /\
  (forall (dbg : bool) (p0 p1 : V) (r : R), p0 <> p1 ->
  exists z, cylinder_new_partial p0 p1 r 360 = Ok z /\ cylinder_area dbg z = Ok (2 * PI * r * pdist p1 p0)).
Proof.
  exact (conj (cylinder_partial_area)
              (cylinder_full_area)).
Qed.
Theorem C19_disk_area :
  (forall (dbg : bool) (n pz : V) (r ri phi : R) (d : Disk R), 0 <= phi <= 360 ->
  disk_new_detailed dbg n r ri pz phi = Ok d ->
  0 <= ri < r /\ dradius d = r /\ dinner d = ri /\ disk_area d = rad phi / 2 * (r * r - ri * ri)) /\
  (forall (dbg : bool) (n pz : V) (r ri : R) (d : Disk R),
  (disk_new dbg n r = Ok d -> 0 < r /\ disk_area d = PI * (r * r)) /\
  (disk_new_detailed dbg n r ri pz 360 = Ok d -> disk_area d = PI * (r * r) - PI * (ri * ri))).
Proof.
  exact (conj (disk_detailed_area)
              ((fun dbg n pz r ri d => conj (disk_full_area dbg n r d) (disk_annulus_area dbg n pz r ri d)))).
Qed.
Theorem C19_box_area : forall a b : V,
  box_area a b = 2 * (Rabs (vx b - vx a) * Rabs (vy b - vy a) + Rabs (vx b - vx a) * Rabs (vz b - vz a) + Rabs (vy b - vy a) * Rabs (vz b - vz a)).
Proof. exact box_area_spec. Qed.

(** ** non-vacuity: concrete inputs meeting the hypotheses above *)
Example C19_nonvacuous_parallel :
  vis_parallel (mkV3 1 0 0 : V) (mkV3 2 0 0) = true /\ vis_same_direction (mkV3 1 0 0 : V) (mkV3 2 0 0) = true /\
  vis_same_direction (mkV3 1 0 0 : V) (mkV3 (-2) 0 0) = false /\ vis_parallel (mkV3 1 0 0 : V) (mkV3 0 1 0) = false.
Proof. exact ex_parallel. Qed.
Example C19_nonvacuous_perpendicular : exists w, vget_perpendicular (mkV3 3 4 0 : V) = Ok w.
Proof. exact ex_perpendicular. Qed.
Example C19_nonvacuous_crossing :
  seg_get_intersection_pt x_s x_r = Some (1/2, 1/4) /\ coplanar x_s x_r /\ seg_intersect x_s x_r = Some (mkV3 0 0 0).
Proof. exact ex_crossing. Qed.
Example C19_nonvacuous_long : long_enough (mkV3 0 0 0 : V) (mkV3 1 2 3).
Proof. exact ex_long. Qed.
Example C19_nonvacuous_triangle : exists t, tri_new t_a t_b t_c = Ok t /\ tri_nondeg t /\ tri_det t <> 0.
Proof. exact ex_triangle. Qed.
Example C19_nonvacuous_cube : box_area (mkV3 0 0 0 : V) (vadd (mkV3 0 0 0) (mkV3 2 2 2)) = 6 * (2 * 2).
Proof. exact (cube_area (mkV3 0 0 0) 2). Qed.
