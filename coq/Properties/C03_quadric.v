(** * C03, part pquadric -- clear hits of spheres and cylinders are reported, nearest crossing first; the second
    crossing only when the first is clipped away; clear misses and surfaces behind the origin are not
    (exact tier, reals, zero-width error boxes).  Statements only, each closed by [exact].
    [sph_crossing s ray t]: |o + t d|^2 = r^2;  [cyl_crossing c ray t]: the point o + t d has x^2 + y^2 = r^2;
    [sph_hit s ray t] / [cyl_hit ray t]: what the code reports for a crossing at t (point after the pole fix-up, phi);
    [sphere_miss] / [cyl_miss]: the code's clip test (true = clipped away);
    [root0 <= root1]: the two real roots (-b -+ sqrt(b^2-4ac)) / 2a;  [solvable]: 0 < a and not (b = 0 /\ c = 0). *)
From Coq Require Import ZArith Reals List.
From G3 Require Import Model.Num Model.Base Model.Vec Model.BBox Model.RoundError Model.Transform Model.Hit Model.Sphere Model.Cylinder.
From G3 Require Import Theory.RInst Proofs.Quadric_base Proofs.Quadric_sphere Proofs.Quadric_cylinder Proofs.Quadric_place.
Local Open Scope R_scope.

(** the interval solver on exact inputs returns the two real roots, smaller first; [None] iff the discriminant is negative *)
Theorem C03_solver_returns_the_real_roots : forall a b c : R, solvable a b c ->
  af_solve_quadratic (pt a) (pt b) (pt c) =
  (if Rltb (disc a b c) 0 then None else Some (pt (root0 a b c), pt (root1 a b c))) /\
  (0 <= disc a b c -> root0 a b c <= root1 a b c).
Proof. exact (fun a b c H => conj (solve_pt a b c H) (root_le a b c (proj1 H))). Qed.
(** the roots are exactly the parameters at which the ray crosses the quadric *)
Theorem C03_roots_are_the_crossings : forall (s : S) (c : C) (ray : Ray R) (t : R),
  (0 < sph_a ray -> (sph_crossing s ray t <-> 0 <= sph_disc s ray /\ (t = sph_t0 s ray \/ t = sph_t1 s ray))) /\
  (0 < cyl_a ray -> (cyl_crossing c ray t <-> 0 <= cyl_disc c ray /\ (t = cyl_t0 c ray \/ t = cyl_t1 c ray))).
Proof. exact crossings_are_roots. Qed.

(** the root selection, in the algorithmic form of the property: no real root -> None; far root not ahead -> None;
    otherwise the crossing at t0 if t0 > 0 and it passes the clips, else the crossing at t1 if it passes, else None *)
Theorem C03_sphere_root_selection : forall (s : S) (ray : Ray R), 0 < sradius s -> sph_solvable s ray ->
  sphere_basic s ray vzero vzero =
  if Rltb (sph_disc s ray) 0 then None else
  if Rleb (sph_t1 s ray) 0 then None else
  if Rltb 0 (sph_t0 s ray) then
    (if sphere_miss s (sph_hit s ray (sph_t0 s ray))
     then (if sphere_miss s (sph_hit s ray (sph_t1 s ray)) then None else Some (sph_hit s ray (sph_t1 s ray)))
     else Some (sph_hit s ray (sph_t0 s ray)))
  else (if sphere_miss s (sph_hit s ray (sph_t1 s ray)) then None else Some (sph_hit s ray (sph_t1 s ray))).
Proof. exact sphere_basic_spec. Qed.
Theorem C03_cylinder_root_selection : forall (c : C) (ray : Ray R), 0 < cradius c -> cyl_solvable c ray ->
  cyl_basic c ray vzero vzero =
  if Rltb (cyl_disc c ray) 0 then None else
  if Rleb (cyl_t1 c ray) 0 then None else
  if Rltb 0 (cyl_t0 c ray) then
    (if cyl_miss c (cyl_hit ray (cyl_t0 c ray))
     then (if cyl_miss c (cyl_hit ray (cyl_t1 c ray)) then None else Some (cyl_hit ray (cyl_t1 c ray)))
     else Some (cyl_hit ray (cyl_t0 c ray)))
  else (if cyl_miss c (cyl_hit ray (cyl_t1 c ray)) then None else Some (cyl_hit ray (cyl_t1 c ray))).
Proof. exact cyl_basic_spec. Qed.

(** ... and as a statement about crossings: a hit is reported iff some crossing ahead of the origin passes the
    clips, and the reported one is the first such crossing along the ray *)
Theorem C03_sphere_first_valid_crossing : forall (s : S) (ray : Ray R), 0 < sradius s -> sph_solvable s ray ->
  match sphere_basic s ray vzero vzero with
  | Some h => exists t, (0 < t /\ sph_crossing s ray t /\ sphere_miss s (sph_hit s ray t) = false) /\ h = sph_hit s ray t /\
                        forall t', (0 < t' /\ sph_crossing s ray t' /\ sphere_miss s (sph_hit s ray t') = false) -> t <= t'
  | None => forall t', ~ (0 < t' /\ sph_crossing s ray t' /\ sphere_miss s (sph_hit s ray t') = false)
  end.
Proof. exact sphere_first_valid_crossing. Qed.
Theorem C03_cylinder_first_valid_crossing : forall (c : C) (ray : Ray R), 0 < cradius c -> cyl_solvable c ray ->
  match cyl_basic c ray vzero vzero with
  | Some h => exists t, (0 < t /\ cyl_crossing c ray t /\ cyl_miss c (cyl_hit ray t) = false) /\ h = cyl_hit ray t /\
                        forall t', (0 < t' /\ cyl_crossing c ray t' /\ cyl_miss c (cyl_hit ray t') = false) -> t <= t'
  | None => forall t', ~ (0 < t' /\ cyl_crossing c ray t' /\ cyl_miss c (cyl_hit ray t') = false)
  end.
Proof. exact cyl_first_valid_crossing. Qed.
(** the clip tests decoded: "passes the clips" is exactly z-range and angular range *)
Theorem C03_clip_tests : forall (s : S) (c : C) (h : V * R),
  (sphere_miss s h = false <->
     (- sradius s < szmin s -> szmin s <= vz (fst h)) /\ (szmax s < sradius s -> vz (fst h) <= szmax s) /\ snd h <= sphi_max s) /\
  (cyl_miss c h = false <-> czmin c <= vz (fst h) <= czmax c /\ snd h <= cphi_max c).
Proof. exact (fun s c h => conj (sphere_miss_false s h) (cyl_miss_false c h)). Qed.

(** non-vacuity: as for C02 *)
Example C03_quadric_nonvacuous :
  let ray := mkRay (mkV3 3 0 (1/2)) (mkV3 (-1) 0 0) in
  let s := mkSphere 1 (-1) 1 (2 * PI) PI 0 None in
  let c := mkCyl 1 0 2 (2 * PI) None in
  0 < sradius s /\ sph_solvable s ray /\ 0 < cradius c /\ cyl_solvable c ray /\ 0 < vlen2 (vsub (mkV3 0 2 0) (mkV3 0 0 0)).
Proof. exact quadric_nonvacuous_proof. Qed.
