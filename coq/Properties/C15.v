(** * C15 -- bounding boxes bound: primitives, unions and transformed boxes.
    Exact tier (reals) for everything; the order part also for the finite floats of every Flocq
    binary format (section [C15_float]).  [Rin b p]: [p] is a point of the closed box [b];
    [Rcontains outer inner]; [Rwf b]: min <= max on every axis.  Statements only. *)
From Coq Require Import ZArith Reals List Bool.
From Flocq Require Import Core BinarySingleNaN.
From G3 Require Import Model.Num Model.Base Model.Vec Model.BBox Model.Transform Model.Bounds.
From G3 Require Import Proofs.C06_transform Proofs.C15_order Proofs.C15_bounds.
Import ListNotations.
Local Open Scope R_scope.

(** ** constructors *)
(** [BBox3D::new]: whatever the order of the corners, the result is well formed, contains both, and
    is the smallest such box *)
Theorem C15_new_normalises : forall a b : V,
  Rwf (bbox_new a b) /\ Rin (bbox_new a b) a /\ Rin (bbox_new a b) b /\
  (forall c : BBox R, Rin c a -> Rin c b -> Rcontains c (bbox_new a b)).
Proof. exact new_normalises. Qed.
Theorem C15_new_corner_order_irrelevant : forall a b : V, bbox_new a b = bbox_new b a.
Proof. exact new_corner_order_irrelevant. Qed.

(** a union contains both operands (and is the smallest such box) *)
Theorem C15_union_contains_both : forall b1 b2 : BBox R,
  Rcontains (bbox_from_union b1 b2) b1 /\ Rcontains (bbox_from_union b1 b2) b2 /\
  (forall c : BBox R, Rcontains c b1 -> Rcontains c b2 -> Rcontains c (bbox_from_union b1 b2)).
Proof. exact union_contains_both. Qed.

(** a box built from a box and a point contains both *)
Theorem C15_union_point_contains_box_and_point : forall (b : BBox R) (p : V),
  Rcontains (bbox_from_union_point b p) b /\ Rin (bbox_from_union_point b p) p /\
  (forall q, Rin b q -> Rin (bbox_from_union_point b p) q).
Proof. exact union_point_contains. Qed.

(** the intersection box is contained in both operands; its points are exactly the common points;
    it is a well-formed box exactly when the operands overlap *)
Theorem C15_intersection_contained_in_both : forall b1 b2 : BBox R,
  Rcontains b1 (bbox_from_intersection b1 b2) /\ Rcontains b2 (bbox_from_intersection b1 b2) /\
  (forall p, Rin (bbox_from_intersection b1 b2) p <-> Rin b1 p /\ Rin b2 p).
Proof. exact intersection_contained. Qed.
Theorem C15_overlaps_iff_intersection_wellformed : forall a b : BBox R, Rwf a -> Rwf b ->
  (bbox_overlaps a b = true <-> Rwf (bbox_from_intersection a b)).
Proof. exact overlaps_iff_intersection_wf. Qed.

(** ** predicates *)
Theorem C15_overlaps_symmetric : forall a b : BBox R, bbox_overlaps a b = bbox_overlaps b a.
Proof. exact overlaps_sym. Qed.
Theorem C15_overlaps_iff_common_point : forall a b : BBox R, Rwf a -> Rwf b ->
  (bbox_overlaps a b = true <-> exists p, Rin a p /\ Rin b p).
Proof. exact overlaps_iff_common_point. Qed.
Theorem C15_point_inside_characterised : forall (b : BBox R) (p : V),
  (bbox_point_inside b p = true <-> Rin b p) /\
  (bbox_point_inside_exclusive b p = true <-> Vle (bmin b) p /\ Vlt p (bmax b)).
Proof. exact (fun b p => conj (point_inside_spec b p) (point_inside_exclusive_spec b p)). Qed.

(** ** transformed boxes (device D5) *)
(** for EVERY affine matrix (last row 0 0 0 1): the transformed box contains the image of every point of the box *)
Theorem C15_transformed_box_contains_image : forall (m : M4 R) (b : BBox R) (p : V),
  affine m -> Rin b p -> Rin (bbox_by m b) (mul4x4point m p).
Proof. exact bbox_by_contains_image. Qed.
(** ... in particular [transform_bbox] and [inv_transform_bbox] of any transform of the C06 space *)
Theorem C15_transform_bbox_contains_image : forall (t : Tr R) (b : BBox R) (p : V), Inv t -> Rin b p ->
  Rin (tr_bbox t b) (tr_pt t p) /\ Rin (tr_inv_bbox t b) (tr_inv_pt t p).
Proof.
  exact (fun t b p Hi Hp => conj (tr_bbox_contains t b p (proj1 (proj2 (proj2 Hi))) Hp)
                                 (tr_inv_bbox_contains t b p (proj2 (proj2 (proj2 Hi))) Hp)).
Qed.
(** all eight corners are used: leaving out any one of them breaks containment for some affine map *)
Theorem C15_every_corner_is_needed : forall k, (k < 8)%nat ->
  exists (m : M4 R) (b : BBox R) (p : V), affine m /\ Rwf b /\ Rin b p /\ ~ Rin (bbox_by_without k m b) (mul4x4point m p).
Proof. exact every_corner_is_needed. Qed.
(** the model's [transform_bbox] IS the hull of the eight corner images, in the crate's order *)
Theorem C15_bbox_by_is_hull_of_corners : forall (m : M4 R) (b : BBox R),
  bbox_by m b = hull_of (map (mul4x4point m) (corners b)).
Proof. exact bbox_by_is_hull. Qed.

(** box round trip: inverse-transforming the transformed box gives a box containing the original *)
Theorem C15_bbox_round_trip_contains : forall (t : Tr R) (b : BBox R) (p : V),
  Inv t -> Rin b p -> Rin (tr_inv_bbox t (tr_bbox t b)) p.
Proof. exact bbox_round_trip_contains. Qed.
Theorem C15_bbox_round_trip_contains_box : forall (t : Tr R) (b : BBox R),
  Inv t -> Rwf b -> Rcontains (tr_inv_bbox t (tr_bbox t b)) b.
Proof. exact bbox_round_trip_contains_box. Qed.

(** ** primitives: local bounds *)
(** every point of the triangle (every convex combination of its vertices) *)
Theorem C15_triangle_bounds : forall (a b c : V) (wa wb wc : R),
  0 <= wa -> 0 <= wb -> 0 <= wc -> wa + wb + wc = 1 ->
  Rin (triangle_bounds a b c)
      (mkV3 (wa * vx a + wb * vx b + wc * vx c) (wa * vy a + wb * vy b + wc * vy c) (wa * vz a + wb * vz b + wc * vz c)).
Proof. exact triangle_bounds_contain. Qed.
(** every point of the sphere x^2+y^2+z^2 = r^2 between the clipping planes, for the stored clips
    and for the clips as clamped by the constructor *)
Theorem C15_sphere_bounds : forall (r zmin zmax : R) (p : V),
  vx p * vx p + vy p * vy p + vz p * vz p = r * r -> zmin <= vz p <= zmax -> Rin (sphere_bounds r zmin zmax) p.
Proof. exact sphere_bounds_contain. Qed.
Theorem C15_sphere_constructor_bounds : forall (r zmin zmax phi : R) (b : BBox R) (p : V),
  0 <= r -> sphere_new_bounds r zmin zmax phi = Ok b ->
  vx p * vx p + vy p * vy p + vz p * vz p = r * r -> zmin <= vz p <= zmax -> Rin b p.
Proof. exact sphere_constructor_bounds_contain. Qed.
(** every point of the cylinder x^2+y^2 = r^2, zmin <= z <= zmax *)
Theorem C15_cylinder_bounds : forall (r zmin zmax : R) (p : V),
  vx p * vx p + vy p * vy p = r * r -> zmin <= vz p <= zmax -> Rin (cylinder_bounds r zmin zmax) p.
Proof. exact cylinder_bounds_contain. Qed.
Theorem C15_cylinder_constructor_bounds : forall (r zmin zmax phi : R) (b : BBox R) (p : V),
  cylinder_new_bounds r zmin zmax phi = Ok b ->
  vx p * vx p + vy p * vy p = r * r -> zmin <= vz p <= zmax -> Rin b p.
Proof. exact cylinder_constructor_bounds_contain. Qed.

(** ** primitives: world bounds = the attached transform applied to the local bounds, hence they
    contain the transformed image of every point of the local bounds - every surface point *)
Theorem C15_world_bounds_is_transformed_local_bounds : forall (t : Tr R) (lb : BBox R),
  world_bounds (Some t) lb = bbox_by (elements t) lb /\ world_bounds None lb = lb.
Proof. exact (fun t lb => conj (world_bounds_is_transformed_local t lb) eq_refl). Qed.
Theorem C15_world_bounds_contain_surface : forall (t : option (Tr R)) (lb : BBox R) (p : V),
  affine_opt t -> Rin lb p -> Rin (world_bounds t lb) (place t p).
Proof. exact world_bounds_contain. Qed.

(** non-vacuity *)
Example C15_nonvacuous :
  let t := tr_mul_assign (tr_translate 1 2 3) (tr_scale 2 (-1) (1/2)) in
  let b := bbox_new (mkV3 1 1 1) (mkV3 0 0 0) in Inv t /\ Rwf b /\ Rin b (mkV3 (1/2) (1/3) 1).
Proof. exact nonvacuous_transform. Qed.

(** ** the order lemmas on floats: boxes with finite coordinates of any binary format *)
Section C15_float.
  Variable prec emax : Z.
  Context (Hprec : FLX.Prec_gt_0 prec) (Hmax : Prec_lt_emax prec emax).
  Notation bf := (binary_float prec emax).
  Local Instance NB : Num bf := NumB prec emax Hprec Hmax.
  Notation okf := (okF prec emax).

  Theorem C15_float_new_normalises : forall a b : V3 bf, okv okf a -> okv okf b ->
    wfb (bbox_new a b) /\ inb (bbox_new a b) a /\ inb (bbox_new a b) b /\ okb okf (bbox_new a b).
  Proof. exact (F_new_normalises prec emax Hprec Hmax). Qed.
  Theorem C15_float_union_contains_both : forall b1 b2 : BBox bf, okb okf b1 -> okb okf b2 ->
    contains (bbox_from_union b1 b2) b1 /\ contains (bbox_from_union b1 b2) b2 /\ okb okf (bbox_from_union b1 b2).
  Proof. exact (F_union_contains_both prec emax Hprec Hmax). Qed.
  Theorem C15_float_union_point_contains : forall (b : BBox bf) (p : V3 bf), okb okf b -> okv okf p ->
    contains (bbox_from_union_point b p) b /\ inb (bbox_from_union_point b p) p /\ okb okf (bbox_from_union_point b p).
  Proof. exact (F_union_point_contains prec emax Hprec Hmax). Qed.
  Theorem C15_float_intersection_contained : forall b1 b2 : BBox bf, okb okf b1 -> okb okf b2 ->
    contains b1 (bbox_from_intersection b1 b2) /\ contains b2 (bbox_from_intersection b1 b2) /\ okb okf (bbox_from_intersection b1 b2).
  Proof. exact (F_intersection_contained prec emax Hprec Hmax). Qed.
  Theorem C15_float_overlaps_iff_common_point : forall a b : BBox bf, okb okf a -> okb okf b -> wfb a -> wfb b ->
    (bbox_overlaps a b = true <-> exists p, okv okf p /\ inb a p /\ inb b p).
  Proof. exact (F_overlaps_iff_common_point prec emax Hprec Hmax). Qed.
  (** symmetry and the point predicates need no hypothesis at all (NaN included) *)
  Theorem C15_float_overlaps_symmetric : forall a b : BBox bf, bbox_overlaps a b = bbox_overlaps b a.
  Proof. exact g_overlaps_sym. Qed.
  Theorem C15_float_point_inside_characterised : forall (b : BBox bf) (p : V3 bf), bbox_point_inside b p = true <-> inb b p.
  Proof. exact g_point_inside_spec. Qed.
End C15_float.
