(** * C10, through the pipeline: "These values do not depend on which vertex the outline starts from or on redundant
    collinear points in the input" -- redundant points IN GENERAL (any number per edge, on the first edge, on the closing
    edge, the input starting at a redundant point), for the live code (push / close after fix 1ef6368).
    Exact tier (the model read on the reals).  Proofs: Proofs/C10_enrich.v.

    [enrich l l'] (Proofs/C10_enrich.v): l is an outline all of whose corners are genuine for the library's collinearity
    test (cyclically: [genuine_cycle]); l' is obtained by inserting finitely many points EXACTLY on the open edges of l
    (m = a + s (b - a), 0 < s < 1, increasing s along each edge: [on_edge]) and entering the enriched cycle anywhere -- at
    a vertex ([enrich_at_vertex]) or at an inserted point ([enrich_at_inserted]).  Side conditions, both forced:
      - [corner_kept]: each corner (x, a, b) of l stays genuine whichever points of the enriched edges x -> a and a -> b
        are taken as the neighbours of a (a point m on a -> b with is_collinear x a m = Ok true REPLACES the vertex a --
        comment (3) of Properties/C10.v; the proof uses it for x itself and for the start point);
      - when the input starts at an inserted point p0, p0 is distinguishable by Point3D::compare (1e-5 in some coordinate)
        from the points of its edge that follow it (otherwise push takes the third input point for a spike and pops).
    No other distinctness hypothesis is needed: a genuine corner already separates its vertex from its neighbours.
    Hypotheses of the theorems: every push and the close are accepted for both inputs (acceptance invariance = the crossing
    tests, a separate matter: C04(d)); NOTHING is assumed about which vertices get stored. *)
From Coq Require Import ZArith Reals Bool List Arith Floats.
From G3 Require Import Model.Num Model.NumF Model.Base Model.Vec Model.Segment Model.Loop Theory.RInst Theory.LoopGeom
  Proofs.C10_measures Proofs.C10_pipeline Proofs.C10_enrich.
Import ListNotations.
Local Open Scope R_scope.

(** the stored outline of the enriched input is a cyclic shift of the stored outline of l, which is l itself *)
Theorem C10_pipeline_enrichment : forall (l l' : list (V3 R)) (L L' : Loop R),
  enrich l l' ->
  push_list loop_new l = Ok L -> snd (loop_close L) = Ok tt ->
  push_list loop_new l' = Ok L' -> snd (loop_close L') = Ok tt ->
  verts (fst (loop_close L)) = l /\
  exists r1 r2 : list (V3 R), l = r1 ++ r2 /\ verts (fst (loop_close L')) = r2 ++ r1.
Proof. exact pipeline_enrichment. Qed.

(** same start vertex, any number of redundant points on every edge, the closing edge included: the same vertex list *)
Theorem C10_pipeline_enrichment_same_start : forall (v0 : V3 R) (ms0 : list (V3 R)) (es : list (V3 R * list (V3 R))) (L L' : Loop R),
  genuine_cycle (v0 :: base es) -> (2 <= length es)%nat -> cyc_good (v0, ms0) es ->
  push_list loop_new (v0 :: base es) = Ok L -> snd (loop_close L) = Ok tt ->
  push_list loop_new (flat ((v0, ms0) :: es)) = Ok L' -> snd (loop_close L') = Ok tt ->
  verts (fst (loop_close L')) = v0 :: base es /\ verts (fst (loop_close L')) = verts (fst (loop_close L)).
Proof. exact pipeline_enrichment_same_start. Qed.

(** the two stored outlines by themselves (nothing about l's own construction is needed) *)
Theorem C10_pipeline_enriched_at_vertex : forall (v0 : V3 R) (ms0 : list (V3 R)) (es : list (V3 R * list (V3 R))) (L' : Loop R),
  (2 <= length es)%nat -> cyc_good (v0, ms0) es ->
  push_list loop_new (flat ((v0, ms0) :: es)) = Ok L' -> snd (loop_close L') = Ok tt ->
  verts (fst (loop_close L')) = v0 :: base es.
Proof. exact build_enriched_at_vertex. Qed.
Theorem C10_pipeline_enriched_at_inserted_point :
  forall (v0 : V3 R) (pre : list (V3 R)) (p0 : V3 R) (post : list (V3 R)) (es : list (V3 R * list (V3 R))) (L' : Loop R),
  (2 <= length es)%nat -> cyc_good (v0, pre ++ p0 :: post) es -> Forall (fun q => vcompare p0 q = false) post ->
  push_list loop_new (p0 :: post ++ flat es ++ v0 :: pre) = Ok L' -> snd (loop_close L') = Ok tt ->
  verts (fst (loop_close L')) = base es ++ [v0].
Proof. exact build_enriched_at_inserted. Qed.

(** the side conditions are those of the CYCLE, whichever entry it is read from (so the rotation chosen inside [enrich] is
    immaterial), and the start point only needs to be distinguishable from its SUCCESSOR on its edge (the later points of the
    edge are farther away in the same coordinate, the parameters being increasing) *)
Theorem C10_enrich_conditions_cyclic : forall (e0 e1 : V3 R * list (V3 R)) (tl : list (V3 R * list (V3 R))),
  cyc_good e0 (e1 :: tl) -> cyc_good e1 (tl ++ [e0]).
Proof. exact cyc_good_rot1. Qed.
Theorem C10_enrich_start_distinct_from_successor : forall (l : list (V3 R)) (v0 : V3 R) (pre : list (V3 R)) (p0 : V3 R) (post : list (V3 R))
    (es : list (V3 R * list (V3 R))),
  genuine_cycle l -> (2 <= length es)%nat -> cyc_shift l (v0 :: base es) -> cyc_good (v0, pre ++ p0 :: post) es ->
  match post with [] => True | q :: _ => vcompare p0 q = false end ->
  enrich l (p0 :: post ++ flat es ++ v0 :: pre).
Proof. exact enrich_at_inserted_succ. Qed.

(** the reported values: same perimeter, same centroid (the mean of the stored vertices -- the same vertices), same number
    of vertices, same Newell vector S (twice the vector area); the area is |n . S| / 2 for the normal n held before close, and
    the reported normal obeys the right-hand rule w.r.t. the same S in both cases *)
Theorem C10_enrichment_measures : forall (l l' : list (V3 R)) (L L' : Loop R),
  enrich l l' ->
  push_list loop_new l = Ok L -> snd (loop_close L) = Ok tt ->
  push_list loop_new l' = Ok L' -> snd (loop_close L') = Ok tt ->
  let C := fst (loop_close L) in let C' := fst (loop_close L') in
  loop_perimeter C' = loop_perimeter C /\ loop_centroid C' = loop_centroid C /\ llen C' = llen C /\
  newell (verts C') = newell (verts C) /\
  loop_area C = Ok (Rabs (vdot (lnormal L) (newell l)) / 2) /\ loop_area C' = Ok (Rabs (vdot (lnormal L') (newell l)) / 2) /\
  0 <= vdot (lnormal C) (newell l) /\ 0 <= vdot (lnormal C') (newell l).
Proof. exact enrichment_measures. Qed.

(** the normal field held before close: for every loop built by pushes from the empty loop, once three vertices are stored
    it is the unit normal of the FIRST stored corner (recomputed by the live push whenever exactly three vertices remain) *)
Theorem C10_normal_before_close_is_first_corner : forall (pts : list (V3 R)) (L : Loop R),
  push_list loop_new pts = Ok L -> (3 <= llen L)%nat ->
  lnormal L = match verts L with a :: b :: c :: _ => vnormalize (vcross (vsub b a) (vsub c b)) | _ => vzero end.
Proof. intros pts L P H3. apply (push_list_normal_inv pts loop_new L P); [cbn; intros; exfalso; apply (Nat.nle_succ_0 _ H) | exact H3]. Qed.

(** area and normal, for an EXACTLY planar outline l (unit normal N, every vertex in the plane through o): the normals held
    before close are N or -N for both inputs (for l' the first stored corner is (v0, v1, v2) or (p0, v1, v2)), hence
    the same area |N . S| / 2 and -- when the area is not zero -- the same reported normal after the right-hand-rule flip.
    (Exact planarity is needed for EQUALITY over the reals: the coplanarity test of push has the tolerance 1e-7, and for a
    merely accepted outline the corner normals, hence |n . S| / 2, differ slightly from corner to corner -- that is the
    starting-vertex dependence that lib/pC10.py samples against its tolerance.) *)
Theorem C10_enrichment_area_normal : forall (l l' : list (V3 R)) (L L' : Loop R) (N o : V3 R),
  enrich l l' ->
  vdot N N = 1 /\ (forall v : V3 R, In v l -> vdot N (vsub v o) = 0) ->
  push_list loop_new l = Ok L -> snd (loop_close L) = Ok tt ->
  push_list loop_new l' = Ok L' -> snd (loop_close L') = Ok tt ->
  let C := fst (loop_close L) in let C' := fst (loop_close L') in
  loop_area C' = loop_area C /\ (vdot N (newell l) <> 0 -> lnormal C' = lnormal C).
Proof. exact enrichment_area_normal_planar. Qed.
(** without planarity: as soon as the two normals held before close agree up to sign *)
Theorem C10_enrichment_area_normal_given_normals : forall (l l' : list (V3 R)) (L L' : Loop R),
  enrich l l' ->
  push_list loop_new l = Ok L -> snd (loop_close L) = Ok tt ->
  push_list loop_new l' = Ok L' -> snd (loop_close L') = Ok tt ->
  (lnormal L' = lnormal L \/ lnormal L' = vneg (lnormal L)) ->
  let C := fst (loop_close L) in let C' := fst (loop_close L') in
  loop_area C' = loop_area C /\ (vdot (lnormal L) (newell l) <> 0 -> lnormal C' = lnormal C).
Proof. exact enrichment_area_normal. Qed.

(** non-vacuity of [enrich] over the reals: the unit square with two extra points on its first edge (1/4, 1/2), one on its
    closing edge, the input starting at the inserted point (1/2, 0, 0) *)
Example C10_enrich_nonvacuous :
  enrich [mkV3 0 0 0; mkV3 1 0 0; mkV3 1 1 0; mkV3 0 1 0]
         [mkV3 (1/2) 0 0; mkV3 1 0 0; mkV3 1 1 0; mkV3 0 1 0; mkV3 0 (1/2) 0; mkV3 0 0 0; mkV3 (1/4) 0 0].
Proof. exact enrich_square. Qed.
(** ... which is exactly planar: N = +z through the origin *)
Example C10_enrich_nonvacuous_planar :
  let N : V3 R := mkV3 0 0 1 in
  vdot N N = 1 /\ (forall v : V3 R, In v [mkV3 0 0 0; mkV3 1 0 0; mkV3 1 1 0; mkV3 0 1 0] -> vdot N (vsub v (mkV3 0 0 0)) = 0).
Proof. exact square_planar. Qed.

(** ... and the executable part on the binary64 instance: the same input is accepted point by point, closes, and the
    stored outline is the four corners (a cyclic shift of the square), area 1, perimeter 4, normal +z, centroid (1/2, 1/2, 0) *)
Example C10_enrich_float_run :
  let pts := [mkV3 0.5 0 0; mkV3 1 0 0; mkV3 1 1 0; mkV3 0 1 0; mkV3 0 0.5 0; mkV3 0 0 0; mkV3 0.25 0 0]%float in
  let r := loop_run loop_new (map (@LPush float) pts ++ [LClose]) in
  snd r = [Ok tt; Ok tt; Ok tt; Ok tt; Ok tt; Ok tt; Ok tt; Ok tt] /\
  verts (fst r) = [mkV3 1 0 0; mkV3 1 1 0; mkV3 0 1 0; mkV3 0 0 0]%float /\
  larea (fst r) = 1%float /\ lperim (fst r) = 4%float /\ lnormal (fst r) = (mkV3 0 0 1)%float /\
  loop_centroid (fst r) = Ok (mkV3 0.5 0.5 0)%float.
Proof. vm_compute. repeat split; reflexivity. Qed.
