(** * C18 (triangulation part) -- a successful refinement honours the requested aspect-ratio bound.
    Statements only; proofs in Proofs/Mesh_refine.v and Proofs/Mesh_cache.v.  The theorems hold for EVERY
    number instance of the model (reals, Flocq floats, and the primitive floats that are executed against
    the crate): they are about the structure of [refine], not about arithmetic.

    What is proved: if [refine] (hence [mesh_polygon]) returns Ok -- i.e. [RDone], not the model's [ROutOfFuel]
    -- then its last pass changed nothing, so every slot is live and is either below the refinement floor
    (cached Heron area < 1e-3) or has an aspect ratio <= max_aspect_ratio, where the aspect ratio is
    [Triangle3D::aspect_ratio] of the slot's own triangle (cache coherence, [C18_cached_ratio_is_triangle_ratio]).
    That [Triangle3D::aspect_ratio] equals circumradius / shortest edge (an independent geometric definition) is
    C19's triangle lemma; on every run the oracle lib/pmesh.py re-measures the ratio of every returned triangle
    exactly (squared, rational) from the vertices.
    NOT claimed: the [max_area] request.  A pass can end with a triangle above [max_area] when its
    circumcentre falls on a vertex of the triangle that contains it ([add_point] then reports "nothing done"). *)
From Coq Require Import ZArith List Floats.
Set Warnings "-inexact-float".
From G3 Require Import Model.Num Model.NumF Model.Base Model.Vec Model.Segment Model.Triangle Model.Loop Model.Polygon Model.Triangulation
  Proofs.Mesh_refine Proofs.Mesh_cache Proofs.Mesh_witness.
Import ListNotations.
Local Open Scope num_scope.

Theorem C18_refine_ok_bound : forall (K : Type) (NK : Num K) (fuel : nat) (max_area max_ar : K) (M M' : Mesh K),
  refine fuel max_area max_ar M = (M', Ok RDone) ->
  Forall (fun t => tp_valid t = true /\ ((tarea (tp_tri t) <? c1em3) = true \/ (tp_ar t >? max_ar) = false)) (tris M').
Proof. exact (fun K NK => @refine_ok_settled K NK). Qed.

Theorem C18_mesh_polygon_ok_bound : forall (K : Type) (NK : Num K) (fuel : nat) (P : Poly K) (max_area max_ar : K) (M : Mesh K),
  mesh_polygon fuel P max_area max_ar = Ok (M, RDone) ->
  Forall (fun t => tp_valid t = true /\ ((tarea (tp_tri t) <? c1em3) = true \/ (tp_ar t >? max_ar) = false)) (tris M).
Proof. exact (fun K NK => @mesh_polygon_ok_settled K NK). Qed.

(** no discarded triangle is handed to the user by a successful refinement *)
Theorem C18_ok_all_valid : forall (K : Type) (NK : Num K) (fuel : nat) (max_area max_ar : K) (M M' : Mesh K),
  refine fuel max_area max_ar M = (M', Ok RDone) -> forallb tp_valid (tris M') = true.
Proof. exact (fun K NK => @refine_ok_all_valid K NK). Qed.

(** the cached ratio (and circumcentre, centroid) of every slot of a meshed polygon is the one Triangle3D
    computes from that slot's triangle *)
Theorem C18_cached_ratio_is_triangle_ratio : forall (K : Type) (NK : Num K) (fuel : nat) (P : Poly K) (max_area max_ar : K) (M : Mesh K) (o : rres),
  mesh_polygon fuel P max_area max_ar = Ok (M, o) ->
  Forall (fun t => tp_ar t = tri_aspect_ratio (tp_tri t) /\ tp_cc t = tri_circumcenter (tp_tri t) /\ tp_cen t = tri_centroid (tp_tri t)) (tris M).
Proof. exact (fun K NK => @mesh_polygon_coherent K NK). Qed.

(** non-vacuity: the unit square refined to max_area 0.1, max_aspect_ratio 1.5 succeeds with >= 10 triangles (binary64) *)
Example C18_nonvacuous : exists M, mesh_polygon 100 w4_poly 0.1%float 1.5%float = Ok (M, RDone) /\ Nat.leb 10 (length (tris M)) = true.
Proof. exact w_square_refined. Qed.
