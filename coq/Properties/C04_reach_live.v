(** * C04, part 3 -- the states that histories of push/close can reach with the LIVE code (after the fix of push/close).
    Every number instance; one induction over operation lists from [loop_new].  Properties/C04_reach.v keeps the same
    analysis of the code BEFORE the fix ([loop_push_pre] / [loop_close_pre]) as the record of the repaired defects. *)
From Coq Require Import ZArith List Floats.
From G3 Require Import Model.Num Model.NumF Model.Base Model.Vec Model.Segment Model.Loop Proofs.C04_loop Proofs.C04_reach Proofs.C04_reach_live.
Import ListNotations.

(** the invariant: a closed flag implies >= 3 vertices and both wrap-around corners tested on the stored list; every
    interior corner of every stored outline passes the collinearity test; open loops have the initial area / perimeter *)
Theorem C04_live_reachable_invariant : forall (K : Type) (NK : Num K) (ops : list (lop K)),
  Live_inv (fst (loop_run (@loop_new K NK) ops)).
Proof. exact (fun K NK => @live_reachable_invariant K NK). Qed.

(** PROPERTY CLAUSE "a closed loop has at least three vertices and no vertex collinear with its two neighbours", in the
    library's own reading of collinear (Point3D::is_collinear = Ok false at every vertex, cyclically), for EVERY reachable
    closed state -- whatever the history, failed closes and repeated closes included *)
Theorem C04_live_closed_no_collinear_vertex : forall (K : Type) (NK : Num K) (ops : list (lop K)),
  let L := fst (loop_run (@loop_new K NK) ops) in let n := llen L in
  lclosed L = true ->
  3 <= n /\
  (forall i, S (S i) < n -> is_collinear (vnth (verts L) i) (vnth (verts L) (S i)) (vnth (verts L) (S (S i))) = Ok false) /\
  is_collinear (vnth (verts L) (n - 2)) (vnth (verts L) (n - 1)) (vnth (verts L) 0) = Ok false /\
  is_collinear (vnth (verts L) (n - 1)) (vnth (verts L) 0) (vnth (verts L) 1) = Ok false.
Proof. exact (fun K NK => @live_closed_no_collinear_vertex K NK). Qed.
(** the interior corners of every reachable state, open loops included (the corner exposed by each drop is re-tested) *)
Theorem C04_live_interior_corners : forall (K : Type) (NK : Num K) (ops : list (lop K)),
  let L := fst (loop_run (@loop_new K NK) ops) in
  forall i, S (S i) < llen L -> is_collinear (vnth (verts L) i) (vnth (verts L) (S i)) (vnth (verts L) (S (S i))) = Ok false.
Proof. exact (fun K NK => @live_interior_corners K NK). Qed.

(** the effect of an accepted push: first points / spike pop / the first [keep] vertices followed by the point, where the
    corner at the last kept vertex passed the test; the normal is the first corner's when exactly three vertices are left,
    ZERO when fewer are left, unchanged otherwise *)
Theorem C04_live_push_effect : forall (K : Type) (NK : Num K) (L L' : Loop K) (p : V3 K), loop_push L p = Ok L' ->
  lclosed L = false /\ push_shape_live (verts L) p (verts L') /\
  L' = mkLoop (verts L') (if Nat.eqb (llen L') 3 then tri_normal (verts L') else if Nat.ltb (llen L') 3 then vzero else lnormal L)
              false (larea L) (lperim L).
Proof. exact (fun K NK => @push_live_effect K NK). Qed.
Theorem C04_live_push_normal : forall (K : Type) (NK : Num K) (L L' : Loop K) (p : V3 K), loop_push L p = Ok L' ->
  lnormal L' = if Nat.eqb (llen L') 3 then tri_normal (verts L') else if Nat.ltb (llen L') 3 then vzero else lnormal L.
Proof. exact (fun K NK => @live_push_normal K NK). Qed.

(** closed states are absorbing, exactly: every operation is refused (class 30) and the loop is unchanged *)
Theorem C04_live_closed_absorbing : forall (K : Type) (NK : Num K) (L : Loop K) (op : lop K), lclosed L = true ->
  fst (loop_step L op) = L /\ snd (loop_step L op) = Err 30%N.
Proof. exact (fun K NK => @live_closed_absorbing K NK). Qed.

(** ** the seven witnesses of Properties/C04_reach.v, on the live code (binary64) *)
Definition lrun (ops : list (lop float)) := @loop_run float NumF (@loop_new float NumF) ops.
Definition Q2 (x y : float) : lop float := LPush (mkV3 x y 0%float).
(** the sliver is never stored: the replacement drops the second vertex as well; close then fails with an OPEN two-vertex loop *)
Example C04_live_sliver : let r := lrun [Q2 0 0; Q2 1 0; Q2 1 0x1p-16; Q2 1.5 0x1p-18; LClose]%float in
  snd r = [Ok tt; Ok tt; Ok tt; Ok tt; Err 33%N] /\ lclosed (fst r) = false /\ verts (fst r) = [mkV3 0 0 0; mkV3 1.5 0x1p-18 0]%float.
Proof. vm_compute. repeat split; reflexivity. Qed.
(** the exactly straight vertex (1,0) is dropped with the replaced one *)
Example C04_live_replacement : let r := lrun [Q2 (-1) (-1); Q2 0 0; Q2 1 0; Q2 1 0x1p-16; Q2 1.5 0; Q2 1.5 1; Q2 (-1) 1; LClose]%float in
  lclosed (fst r) = true /\ verts (fst r) = [mkV3 (-1) (-1) 0; mkV3 0 0 0; mkV3 1.5 0 0; mkV3 1.5 1 0; mkV3 (-1) 1 0]%float.
Proof. vm_compute. split; reflexivity. Qed.
(** no NaN normal: two vertices and a zero normal are left, the next point is accepted *)
Example C04_live_no_nan_normal : let r := lrun [Q2 0 0; Q2 1 0; Q2 1 0x1p-16; Q2 1.5 0; Q2 2 1]%float in
  snd r = [Ok tt; Ok tt; Ok tt; Ok tt; Ok tt] /\ verts (fst r) = [mkV3 0 0 0; mkV3 1.5 0 0; mkV3 2 1 0]%float.
Proof. vm_compute. split; reflexivity. Qed.
(** no stale normal: after the spike pop the two-vertex loop accepts a point of another plane *)
Example C04_live_no_stale_normal : let r := lrun [Q2 0 0; Q2 1 0; Q2 1 1; Q2 1 0; LPush (mkV3 1 0 1)]%float in
  snd r = [Ok tt; Ok tt; Ok tt; Ok tt; Ok tt] /\ llen (fst r) = 3.
Proof. vm_compute. split; reflexivity. Qed.
(** the outline through its own start vertex followed by a spike closes as the rectangle; a second close changes nothing *)
Example C04_live_start_spike : let r := lrun [Q2 0 0; Q2 1 0; Q2 1 1; Q2 (-1) 1; Q2 (-1) 0; Q2 0 0; Q2 0.5 0.5; LClose; LClose]%float in
  snd r = [Ok tt; Ok tt; Ok tt; Ok tt; Ok tt; Ok tt; Ok tt; Ok tt; Err 30%N] /\
  verts (fst r) = [mkV3 1 0 0; mkV3 1 1 0; mkV3 (-1) 1 0; mkV3 (-1) 0 0]%float /\ larea (fst r) = 2%float.
Proof. vm_compute. repeat split; reflexivity. Qed.
(** the wrap-around corner left straight by the first drop is dropped too *)
Example C04_live_wrap : let r := lrun [Q2 0 0; Q2 1 0; Q2 1 2; Q2 0 2; Q2 0 0.25; Q2 0x1p-15 0.125; LClose; LClose]%float in
  snd r = [Ok tt; Ok tt; Ok tt; Ok tt; Ok tt; Ok tt; Ok tt; Err 30%N] /\
  verts (fst r) = [mkV3 0 0 0; mkV3 1 0 0; mkV3 1 2 0; mkV3 0 2 0]%float.
Proof. vm_compute. split; reflexivity. Qed.
