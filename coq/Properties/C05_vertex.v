(** * C05, vertex part -- cast rays that pass EXACTLY through a vertex of the outline (exact tier, real numbers).
    Properties/C05.v proves the point test correct under [edge_generic], which excludes every cast segment that meets a
    vertex.  The property text says "wherever it lies relative to vertices, edge midpoints and the direction of the
    internal test ray"; the code has explicit vertex rules for those rays:
       crossing at the START of an edge (t_a < EPSILON): counted iff  d x (b - a)  has the direction of the loop normal,
       crossing at the END of an edge   (t_a = 1):       counted iff  d x (a - b)  has the direction of the loop normal,
       interior crossing:                                 counted.
    Here these rules are PROVED CORRECT in exact arithmetic: they are the classical half-open rule (an edge through a vertex
    counts iff its other end lies strictly to the left of the directed ray), whose count has the parity of the number of
    fan triangles containing the point = parity of the winding number, for every ray -- through vertices or not.
    The hypothesis is [edge_semigeneric n q d a b] (Proofs/C05_vertex.v), for every edge (a,b):
       a, b in the plane of q;  and EITHER  |(b - a) x d|^2 >= 1e-5  (not parallel within the library's tolerance) and the
       crossing parameter t_a is not in the open sliver (0, EPSILON)  -- t_a = 0 and t_a = 1 exactly ARE allowed --
       OR  (b - a) x d = 0 exactly and a is off the line of the cast segment (a parallel edge beside the ray).
    It is implied by [edge_generic] ([C05_vertex_semigeneric_weakens_generic]).
    What remains excluded, and why:
      - 0 < t_a < EPSILON = 2^-52: an INTERIOR crossing that close to the start vertex is handed to the start-vertex rule
        and dropped when the edge leaves to the right of the ray ([C05_vertex_sliver_crossing_dropped]): the exact-tier
        shadow of the recorded finding C05:vertex-grazing;
      - the cast segment running ALONG an edge, and edges nearly but not exactly parallel to it (finding family F11);
      - "no edge contains q" and exact planarity, as in Properties/C05.v.
    The winding number is counted along ANY generic ray d2 ([Winding.generic]: its line avoids the vertices): the code's
    own ray is not generic here, and [Winding.crd] gives no meaning to a vertex on the counting ray; a generic d2 always
    exists ([C05_vertex_generic_counting_ray_exists]) and all generic rays give the same number
    ([Winding.wn_ray_independent_strong]).
    No new defect: over the reals the half-open rule matches the three branches of the code in every sub-case (reflex
    vertices, both incident edges on one side, parallel edges). *)
From Coq Require Import ZArith Reals Bool List Arith Floats.
From G3 Require Import Model.Num Model.NumF Model.Base Model.Vec Model.Segment Model.Loop
  Theory.RInst Theory.LoopGeom Proofs.C05_pointtest Proofs.C05_examples Proofs.C05_winding Proofs.C05_vertex.
From G3 Require Theory.Cyclic Theory.Winding.
Import ListNotations.
Local Open Scope R_scope.

(** ** the hypothesis is weaker than the one of Properties/C05.v *)
Theorem C05_vertex_semigeneric_weakens_generic : forall n q d a b : V3 R,
  edge_generic n q d a b -> edge_semigeneric n q d a b.
Proof. exact edge_generic_semigeneric. Qed.

(** ** the side tests of the vertex rules: for A, d in the plane with normal n and |A x d|^2 >= 1e-5 the absolute tolerances
    of [is_same_direction] are inactive and the test is the sign of  - n . (A x d) *)
Theorem C05_vertex_side_test_is_a_sign : forall n d A : V3 R,
  vis_zero n = false -> vdot n d = 0 -> vdot n A = 0 -> / 100000 <= vlen2 (vcross A d) ->
  vis_same_direction (vcross d A) n = Rltb 0 (- vdot n (vcross A d)).
Proof. exact same_direction_cross. Qed.

(** ** one edge: the three branches of the code = the half-open indicator
    [halfb3 n q d a b]: exactly one of a, b strictly to the left of the directed line of the cast segment
    ([sideof] > 0), and q, q + d on opposite sides of (or on) the edge's line *)
Theorem C05_vertex_rules_are_half_open : forall (L : Loop R) (q d a b : V3 R),
  let n := lnormal L in
  0 < vdot n n -> vis_zero n = false -> vdot n d = 0 ->
  seg_contains_point (seg_new a b) q = Ok false ->
  edge_semigeneric n q d a b ->
  edge_cross_count L q d (seg_new q (vadd q d)) a b = Ok (false, if halfb3 n q d a b then 1%nat else 0%nat).
Proof. exact edge_cross_count_semigeneric. Qed.

(** ** the whole loop: parity of the half-open crossings of the RAY (the live cast segment passes every vertex) *)
Theorem C05_vertex_test_point_counts_half_open_crossings : forall (L : Loop R) (q : V3 R),
  lclosed L = true -> (2 <= llen L)%nat ->
  let n := lnormal L in let d := test_ray L q in
  vis_zero n = false -> 0 < vdot n n ->
  (forall a b, In (a, b) (cyc_edges (verts L)) -> seg_contains_point (seg_new a b) q = Ok false /\ edge_semigeneric n q d a b) ->
  loop_test_point L q = Ok (Nat.odd (countb (halfray3 n q d) (cyc_edges (verts L)))).
Proof. exact test_point_counts_half_ray_crossings. Qed.

Theorem C05_vertex_plane_coordinates : forall o e1 e2 q d a b : V3 R,
  halfray3 (vcross e1 e2) q d a b = half_cross2 (plane2 o e1 e2 q) (planev e1 e2 d) (plane2 o e1 e2 a) (plane2 o e1 e2 b).
Proof. exact halfray3_plane. Qed.

(** ** planar: the half-open crossing parity of ANY ray (its line may pass through vertices) = parity of the number of fan
    triangles containing q; compared with [C05_ray_parity_is_fan_parity] nothing is asked of [hgt2 q d v] *)
Theorem C05_vertex_half_open_parity_is_fan_parity : forall (q d o : P2) (vs : list P2),
  hgt2 q d o <> 0 ->
  (forall v, In v vs -> orient2 o v q <> 0) ->
  (forall a b, In (a, b) (cyc_edges2 vs) -> orient2 a b q <> 0) ->
  xpar (half_cross2 q d) (cyc_edges2 vs) = xpar (in_tri2 q o) (cyc_edges2 vs).
Proof. exact half_parity_fan. Qed.
(** on a generic edge the half-open rule is the proper-crossing rule, and along a ray through vertices it has the parity of
    the proper crossings of any generic ray *)
Theorem C05_vertex_half_open_is_proper_on_generic_edges : forall q d a b : P2,
  hgt2 q d a <> 0 -> hgt2 q d b <> 0 -> half_cross2 q d a b = ray_cross2 q d a b.
Proof. exact half_cross2_generic. Qed.
Theorem C05_vertex_half_open_parity_is_generic_parity : forall (q d d2 o : P2) (vs : list P2),
  hgt2 q d o <> 0 -> hgt2 q d2 o <> 0 ->
  (forall v, In v vs -> hgt2 q d2 v <> 0 /\ orient2 o v q <> 0) ->
  (forall a b, In (a, b) (cyc_edges2 vs) -> orient2 a b q <> 0) ->
  xpar (half_cross2 q d) (cyc_edges2 vs) = xpar (ray_cross2 q d2) (cyc_edges2 vs).
Proof. exact half_parity_is_generic_parity. Qed.

(** ** assembled: the statements of [C05_test_point_fan_parity_partial], [C05_test_point_is_winding_parity_partial],
    [C05_test_point_is_membership_partial] with [edge_semigeneric] in place of [edge_generic] *)
Theorem C05_vertex_test_point_fan_parity : forall (L : Loop R) (q o e1 e2 : V3 R) (apex : P2),
  lclosed L = true -> (2 <= llen L)%nat ->
  let n := lnormal L in let d := test_ray L q in
  let pr := plane2 o e1 e2 in let q' := pr q in let d' := planev e1 e2 d in
  vis_zero n = false -> 0 < vdot n n -> n = vcross e1 e2 ->
  (forall a b, In (a, b) (cyc_edges (verts L)) -> seg_contains_point (seg_new a b) q = Ok false /\ edge_semigeneric n q d a b) ->
  hgt2 q' d' apex <> 0 ->
  (forall v, In v (verts L) -> orient2 apex (pr v) q' <> 0) ->
  (forall a b, In (a, b) (cyc_edges (verts L)) -> orient2 (pr a) (pr b) q' <> 0) ->
  loop_test_point L q = Ok (xpar (in_tri2 q' apex) (cyc_edges2 (map pr (verts L)))).
Proof. exact test_point_vertex_fan_parity. Qed.

Theorem C05_vertex_test_point_is_winding_parity : forall (L : Loop R) (q o e1 e2 : V3 R) (d2 : P2),
  lclosed L = true -> (2 <= llen L)%nat ->
  let n := lnormal L in let d := test_ray L q in
  let pr := plane2 o e1 e2 in let q' := pr q in
  vis_zero n = false -> 0 < vdot n n -> n = vcross e1 e2 ->
  (forall a b, In (a, b) (cyc_edges (verts L)) -> seg_contains_point (seg_new a b) q = Ok false /\ edge_semigeneric n q d a b) ->
  (forall a b, In (a, b) (cyc_edges (verts L)) -> orient2 (pr a) (pr b) q' <> 0) ->
  Winding.generic d2 q' (map pr (verts L)) ->
  loop_test_point L q = Ok (Z.odd (Winding.wn d2 (map pr (verts L)) q')).
Proof. exact test_point_vertex_wn_parity. Qed.

Theorem C05_vertex_test_point_is_membership : forall (L : Loop R) (q o e1 e2 : V3 R) (d2 : P2),
  lclosed L = true -> (2 <= llen L)%nat ->
  let n := lnormal L in let d := test_ray L q in
  let pr := plane2 o e1 e2 in let q' := pr q in
  vis_zero n = false -> 0 < vdot n n -> n = vcross e1 e2 ->
  (forall a b, In (a, b) (cyc_edges (verts L)) -> seg_contains_point (seg_new a b) q = Ok false /\ edge_semigeneric n q d a b) ->
  (forall a b, In (a, b) (cyc_edges (verts L)) -> orient2 (pr a) (pr b) q' <> 0) ->
  Winding.generic d2 q' (map pr (verts L)) ->
  (0 <= Winding.wn d2 (map pr (verts L)) q' <= 1)%Z ->
  (loop_test_point L q = Ok true <-> Winding.wn d2 (map pr (verts L)) q' = 1%Z).
Proof. exact test_point_vertex_is_membership. Qed.

(** a generic counting ray exists under the same hypotheses (so the two statements above are not vacuous in d2) *)
Theorem C05_vertex_generic_counting_ray_exists : forall (L : Loop R) (q o e1 e2 : V3 R),
  lclosed L = true -> (2 <= llen L)%nat ->
  let n := lnormal L in let d := test_ray L q in
  let pr := plane2 o e1 e2 in let q' := pr q in
  vis_zero n = false -> 0 < vdot n n -> n = vcross e1 e2 ->
  (forall a b, In (a, b) (cyc_edges (verts L)) -> seg_contains_point (seg_new a b) q = Ok false /\ edge_semigeneric n q d a b) ->
  (forall a b, In (a, b) (cyc_edges (verts L)) -> orient2 (pr a) (pr b) q' <> 0) ->
  exists d2, Winding.generic d2 q' (map pr (verts L)) /\ loop_test_point L q = Ok (Z.odd (Winding.wn d2 (map pr (verts L)) q')).
Proof. exact test_point_vertex_wn_parity_exists. Qed.

(** ** the sliver that [edge_semigeneric] excludes is really miscounted by the code (over the reals): a proper interior
    crossing ([crossb3] = true) with 0 < t_a < EPSILON, a strictly left and b strictly right of the ray, contributes 0 *)
Theorem C05_vertex_sliver_crossing_dropped : forall (L : Loop R) (q d a b : V3 R),
  let n := lnormal L in
  0 < vdot n n -> vis_zero n = false -> vdot n d = 0 ->
  seg_contains_point (seg_new a b) q = Ok false ->
  vdot n (vsub b a) = 0 -> vdot n (vsub a q) = 0 -> / 100000 <= vlen2 (vcross (vsub b a) d) ->
  0 < edge_param n q d a b < neps -> 0 < vdot n (vcross (vsub b a) d) ->
  crossb3 n q d a b = true ->
  edge_cross_count L q d (seg_new q (vadd q d)) a b = Ok (false, 0%nat).
Proof. exact sliver_edge_dropped. Qed.

(** ** non-vacuity (rational data): the rectangle [vrect] = (0,0,0) (6,0,0) (6,4,0) (0,4,0), normal (0,0,1), and
    [vq] = (9/2, 2, 0).  The cast segment is d = (600, 800, 0); it passes EXACTLY through the vertex (6,4,0) = vq + d / 400
    (end rule on the edge (6,0)-(6,4): not counted; start rule on the edge (6,4)-(0,4): counted).  Every hypothesis of the
    theorems above holds (plane coordinates (x,y), counting ray (1,0)), the hypothesis [edge_generic] of Properties/C05.v
    does NOT hold, the winding number is 1 and the answer is [true]. *)
Example C05_vertex_rectangle_hypotheses :
  lclosed vrect = true /\ (2 <= llen vrect)%nat /\ vis_zero (lnormal vrect) = false /\ 0 < vdot (lnormal vrect) (lnormal vrect) /\
  lnormal vrect = vcross ve1 ve2 /\
  (forall a b, In (a, b) (cyc_edges (verts vrect)) ->
     seg_contains_point (seg_new a b) vq = Ok false /\ edge_semigeneric (lnormal vrect) vq (test_ray vrect vq) a b) /\
  (forall a b, In (a, b) (cyc_edges (verts vrect)) -> orient2 (plane2 vo ve1 ve2 a) (plane2 vo ve1 ve2 b) (plane2 vo ve1 ve2 vq) <> 0) /\
  Winding.generic (1, 0) (plane2 vo ve1 ve2 vq) (map (plane2 vo ve1 ve2) (verts vrect)) /\
  test_ray vrect vq = mkV3 600 800 0 /\
  vadd vq (vscale (test_ray vrect vq) (/ 400)) = mkV3 6 4 0 /\
  ~ edge_generic (lnormal vrect) vq (test_ray vrect vq) (mkV3 6 0 0) (mkV3 6 4 0) /\
  Winding.wn (1, 0) (map (plane2 vo ve1 ve2) (verts vrect)) (plane2 vo ve1 ve2 vq) = 1%Z /\
  loop_test_point vrect vq = Ok true.
Proof.
  destruct vrect_gates as [G1 [G2 [G3 G4]]]. destruct vrect_planar as [P1 [P2 [P3 P4]]].
  split; [exact G1|]. split; [exact G2|]. split; [exact G3|]. split; [exact G4|]. split; [exact P1|].
  split; [exact vrect_edges|]. split; [exact P2|]. split; [exact P3|]. split; [exact test_ray_vrect|].
  split; [exact vrect_ray_through_vertex|]. split; [exact vrect_not_generic|]. split; [exact P4|].
  (* the answer through the winding-number theorem *)
  rewrite (C05_vertex_test_point_is_winding_parity vrect vq vo ve1 ve2 (1, 0) G1 G2 G3 G4 P1 vrect_edges P2 P3). rewrite P4. reflexivity.
Qed.

(** ** the same input on the binary64 instance of the model (the instance executed against the crate): the cast segment is
    (600, 800, 0) bit for bit, the intersection parameters of the two edges at (6,4,0) are exactly 1 and 0, the vertex rules
    fire, and the answer is [true] (reproduced on the real crate: g3harness replay C05, see NOTES) *)
Local Open Scope float_scope.
Theorem C05_vertex_ray_through_vertex_binary64 :
  @loop_test_point float NumF fvrect (mkV3 4.5 2 0) = Ok true /\
  @loop_ray float NumF fvrect (mkV3 4.5 2 0) = mkV3 600 800 0.
Proof. exact fvrect_vertex_ray. Qed.
