(** * C09 (progress part) -- "... returns a triangulation or an error value within a time bounded by the amount of
    refinement requested".  Statements only; proofs in Proofs/Mesh_progress.v.  EVERY number instance, and NO hypothesis
    on the mesh (no WF / CNT / LNK): the accounting follows the code's own counter [n_valid_triangles] ([nvalid]).

    No bound in terms of the INPUT alone is provable (flips can lift a triangle back above the 1e-3 area floor), but the
    run time is bounded in terms of the OUTPUT -- the amount of refinement actually delivered:
    (1) steps: flip_diagonal / restore_delaunay keep the counter; split_triangle Ok adds 2; split_edge Ok adds 1 (no
        neighbour across the edge) or 2; add_point(_to_triangle) Ok true adds 1 or 2, Ok false leaves the mesh alone;
        and -- thanks to the pre-checks of fix 361bbb9 -- an Err never lowers the counter (split_triangle: unchanged mesh
        or +2).  (That an Err leaves the mesh UNCHANGED on a sound mesh is C08_add_point_err_unchanged_struct.)
    (2) a pass of [refine] never lowers the counter; [any_changes = true] => strictly higher; [false] => mesh untouched.
        So a pass cannot report changes without progress: that is what excludes a runaway recursion.
    (3) [refine_passes] = number of passes = recursion depth of [if any_changes { self.refine(..) }]:
        passes <= (triangles created) + 1; the model's fuel can only run out after [fuel] triangles were created; the
        outcome does not depend on the fuel once it is not ROutOfFuel.
    (4) a pass visits the slots read at loop entry; per slot at most 3 trace events (Proofs/Mesh_refine_trace.v), at most
        one of them a restore_delaunay (<= 30 sweeps, C09_restore_delaunay_bounded); the slot vector never shrinks.
    (5) total: a refine returning Ok performs at most 3 * (final slots) * (created + 1) elementary operations, and its
        final slots are all live (C18): quadratic in the size of the output. *)
From Coq Require Import ZArith List Bool Arith Floats.
Set Warnings "-inexact-float".
From G3 Require Import Model.Num Model.NumF Model.Base Model.Vec Model.Segment Model.Triangle Model.Loop Model.Polygon Model.Triangulation
  Proofs.Mesh_base Proofs.Mesh_conf Proofs.Mesh_witness Proofs.Mesh_refine_trace Proofs.Mesh_progress.
Import ListNotations.

(** (1) the steps *)
Theorem C09_progress_flip_diagonal : forall (K : Type) (NK : Num K) (i : nat) (e : Edge) (M M' : Mesh K),
  flip_diagonal i e M = (M', Ok tt) -> nvalid M' = nvalid M.
Proof. exact (fun K NK => @flip_count K NK). Qed.
Theorem C09_progress_restore_delaunay : forall (K : Type) (NK : Num K) (m : K) (M M' : Mesh K) (u : unit),
  restore_delaunay m M = (M', Ok u) -> nvalid M' = nvalid M.
Proof. exact (fun K NK => @restore_count K NK). Qed.
Theorem C09_progress_split_triangle : forall (K : Type) (NK : Num K) (i : nat) (p : V3 K) (M M' : Mesh K) (r : res unit),
  split_triangle i p M = (M', r) ->
  (exists s, r = Panic s) \/ (M' = M /\ forall u, r <> Ok u) \/ nvalid M' = nvalid M + 2.
Proof. exact (fun K NK => @split_triangle_count K NK). Qed.
Theorem C09_progress_split_edge : forall (K : Type) (NK : Num K) (i : nat) (e : Edge) (p : V3 K) (M M' : Mesh K) (r : res unit),
  split_edge i e p M = (M', r) ->
  (exists s, r = Panic s) \/
  (nvalid M <= nvalid M' /\
   forall u, r = Ok u -> exists t, nth_error (tris M) i = Some t /\
     nvalid M' = nvalid M + match tp_neighbour t e with Some _ => 2 | None => 1 end).
Proof. exact (fun K NK => @split_edge_count K NK). Qed.
Theorem C09_progress_split_edge_ok : forall (K : Type) (NK : Num K) (i : nat) (e : Edge) (p : V3 K) (M M' : Mesh K) (u : unit),
  split_edge i e p M = (M', Ok u) -> nvalid M < nvalid M' /\ nvalid M' <= nvalid M + 2.
Proof. exact (fun K NK => @split_edge_ok_count K NK). Qed.
Theorem C09_progress_add_point_to_triangle : forall (K : Type) (NK : Num K) (i : nat) (p : V3 K) (loc : PIT) (M M' : Mesh K) (r : res bool),
  add_point_to_triangle i p loc M = (M', r) ->
  (exists s, r = Panic s) \/
  (nvalid M <= nvalid M' /\ (r = Ok true -> nvalid M < nvalid M' /\ nvalid M' <= nvalid M + 2) /\ (r = Ok false -> M' = M)).
Proof. exact (fun K NK => @aptt_count K NK). Qed.
Theorem C09_progress_add_point : forall (K : Type) (NK : Num K) (p : V3 K) (M M' : Mesh K) (r : res bool),
  add_point p M = (M', r) ->
  (exists s, r = Panic s) \/
  (nvalid M <= nvalid M' /\ (r = Ok true -> nvalid M < nvalid M' /\ nvalid M' <= nvalid M + 2) /\ (r = Ok false -> M' = M)).
Proof. exact (fun K NK => @add_point_count K NK). Qed.

(** (2) one pass of refine: no pass reports a change without having created a triangle *)
Theorem C09_progress_pass : forall (K : Type) (NK : Num K) (a m : K) (M M' : Mesh K) (any_changes : bool),
  refine_pass a m (length (tris M)) 0 (tris M) false M = (M', Ok any_changes) ->
  nvalid M <= nvalid M' /\ (any_changes = true -> nvalid M < nvalid M') /\ (any_changes = false -> M' = M).
Proof. exact (fun K NK => @refine_pass_progress K NK). Qed.

(** (3) the recursion: passes <= created + 1 *)
Theorem C09_progress_refine : forall (K : Type) (NK : Num K) (a m : K) (fuel : nat) (M M' : Mesh K) (r : rres),
  refine fuel a m M = (M', Ok r) ->
  nvalid M <= nvalid M' /\
  nvalid M + refine_passes fuel a m M <= nvalid M' + match r with RDone => 1 | ROutOfFuel => 0 end /\
  (r = ROutOfFuel -> refine_passes fuel a m M = fuel).
Proof. exact (fun K NK => @refine_progress K NK). Qed.
Theorem C09_progress_recursion_depth : forall (K : Type) (NK : Num K) (a m : K) (fuel : nat) (M M' : Mesh K),
  refine fuel a m M = (M', Ok RDone) -> nvalid M <= nvalid M' /\ refine_passes fuel a m M <= nvalid M' - nvalid M + 1.
Proof. exact (fun K NK => @refine_done_passes K NK). Qed.
Theorem C09_progress_out_of_fuel : forall (K : Type) (NK : Num K) (a m : K) (fuel : nat) (M M' : Mesh K),
  refine fuel a m M = (M', Ok ROutOfFuel) -> nvalid M + fuel <= nvalid M'.
Proof. exact (fun K NK => @refine_out_of_fuel K NK). Qed.
Theorem C09_progress_fuel_adequate : forall (K : Type) (NK : Num K) (a m : K) (fuel B : nat) (M M' : Mesh K) (r : rres),
  refine fuel a m M = (M', Ok r) -> nvalid M' <= B -> B < nvalid M + fuel -> r = RDone.
Proof. exact (fun K NK => @refine_fuel_adequate K NK). Qed.
Theorem C09_progress_fuel_independent : forall (K : Type) (NK : Num K) (a m : K) (fuel k : nat) (M M' : Mesh K) (r : res rres),
  refine fuel a m M = (M', r) -> r <> Ok ROutOfFuel ->
  refine (fuel + k) a m M = (M', r) /\ refine_passes (fuel + k) a m M = refine_passes fuel a m M.
Proof. exact (fun K NK => @refine_fuel_mono K NK). Qed.

(** (4) cost of a pass *)
Theorem C09_progress_slots : forall (K : Type) (NK : Num K) (a m : K) (fuel : nat) (M M' : Mesh K) (r : res rres),
  refine fuel a m M = (M', r) -> length (tris M) <= length (tris M').
Proof. exact (fun K NK => @refine_slots K NK). Qed.
Theorem C09_progress_pass_cost : forall (K : Type) (NK : Num K) (a m : K) (cnt i : nat) (l : list (TriPiece K)) (M : Mesh K),
  length (refine_pass_trace a m cnt i l M) <= 3 * cnt /\
  length (filter is_restore (refine_pass_trace a m cnt i l M)) <= cnt.
Proof. exact (fun K NK => @refine_pass_cost K NK). Qed.

(** (5) total cost *)
Theorem C09_progress_trace_length : forall (K : Type) (NK : Num K) (a m : K) (fuel : nat) (M M' : Mesh K) (r : res rres),
  refine fuel a m M = (M', r) -> length (refine_trace fuel a m M) <= 3 * (refine_passes fuel a m M * length (tris M')).
Proof. exact (fun K NK => @refine_trace_length K NK). Qed.
Theorem C09_progress_cost : forall (K : Type) (NK : Num K) (a m : K) (fuel : nat) (M M' : Mesh K),
  refine fuel a m M = (M', Ok RDone) ->
  length (refine_trace fuel a m M) <= 3 * ((nvalid M' - nvalid M + 1) * length (tris M')) /\
  length (tris M') = count_valid (tris M').
Proof. exact (fun K NK => @refine_cost K NK). Qed.
Theorem C09_progress_final_slots : forall (K : Type) (NK : Num K) (a m : K) (fuel : nat) (M M' : Mesh K),
  refine fuel a m M = (M', Ok RDone) -> length (tris M') = count_valid (tris M') /\ (CNT M' -> length (tris M') = nvalid M').
Proof. exact (fun K NK => @refine_done_slots K NK). Qed.
Theorem C09_progress_mesh_polygon : forall (K : Type) (NK : Num K) (fuel : nat) (P : Poly K) (a m : K) (M0 M' : Mesh K) (r : rres),
  from_polygon P = Ok M0 -> mesh_polygon fuel P a m = Ok (M', r) ->
  refine fuel a m M0 = (M', Ok r) /\ nvalid M0 <= nvalid M' /\
  nvalid M0 + refine_passes fuel a m M0 <= nvalid M' + match r with RDone => 1 | ROutOfFuel => 0 end /\
  (nvalid M' < nvalid M0 + fuel -> r = RDone).
Proof. exact (fun K NK => @mesh_polygon_progress K NK). Qed.

(** non-vacuity (binary64, vm_compute): mesh_polygon of the unit square with max_area = 0.01, max_aspect_ratio = 1.5 and
    fuel 100 returns Ok RDone after 8 passes; 2 -> 152 live triangles in 152 slots, 176 trace events (the bounds
    say: at most 151 passes, at most 3 * 151 * 152 events).  With fuel 3 the model reports ROutOfFuel after 3 passes,
    having created 29 >= 3 triangles. *)
Example C09_progress_nonvacuous :
  exists M0 M' M3 : Mesh float,
    from_polygon w4_poly = Ok M0 /\ nvalid M0 = 2 /\
    mesh_polygon 100 w4_poly 0.01%float 1.5%float = Ok (M', RDone) /\
    refine_passes 100 0.01%float 1.5%float M0 = 8 /\ nvalid M' = 152 /\ length (tris M') = 152 /\
    length (refine_trace 100 0.01%float 1.5%float M0) = 176 /\
    mesh_polygon 3 w4_poly 0.01%float 1.5%float = Ok (M3, ROutOfFuel) /\ nvalid M3 = 31.
Proof.
  eexists. eexists. eexists. split; [vm_compute; reflexivity|]. split; [vm_compute; reflexivity|].
  split; [vm_compute; reflexivity|]. split; [vm_compute; reflexivity|]. split; [vm_compute; reflexivity|].
  split; [vm_compute; reflexivity|]. split; [vm_compute; reflexivity|]. split; vm_compute; reflexivity.
Qed.

Print Assumptions C09_progress_flip_diagonal.
Print Assumptions C09_progress_restore_delaunay.
Print Assumptions C09_progress_split_triangle.
Print Assumptions C09_progress_split_edge.
Print Assumptions C09_progress_split_edge_ok.
Print Assumptions C09_progress_add_point_to_triangle.
Print Assumptions C09_progress_add_point.
Print Assumptions C09_progress_pass.
Print Assumptions C09_progress_refine.
Print Assumptions C09_progress_recursion_depth.
Print Assumptions C09_progress_out_of_fuel.
Print Assumptions C09_progress_fuel_adequate.
Print Assumptions C09_progress_fuel_independent.
Print Assumptions C09_progress_slots.
Print Assumptions C09_progress_pass_cost.
Print Assumptions C09_progress_trace_length.
Print Assumptions C09_progress_cost.
Print Assumptions C09_progress_final_slots.
Print Assumptions C09_progress_mesh_polygon.
Print Assumptions C09_progress_nonvacuous.
