(** * C17 -- the interval quadratic solver ([ApproxFloat::solve_quadratic]) encloses the true roots.
    Float tier: every theorem of the section holds for EVERY binary floating-point format
    [(prec, emax)]; binary64 = (53,1024) and binary32 = (24,128) are instances.  (In the degenerate
    one-bit format (1,2) the literal [4.] overflows; the side condition [disc_ok] is then false, so
    no hypothesis on the format is needed.)
    [NumB] is the Flocq instance of the model; [af_solve_quadratic] (Model/RoundError.v) is the
    line-by-line model that is executed against the crate on every run, [quad_steps] /
    [quad_result] (Model/Quadratic.v) name its intermediates.

    Vocabulary (Theory/IntervalSpec.v, Theory/QuadraticSpec.v):
      [wf I]        finite bounds, low <= high           [contains I x]  x between the (extended) bounds
      [no_zero I]   0 < low or high < 0                   [ext_wf I]      no NaN bound, low <= high (extended)
      [qdisc a b c] = b*b - 4*a*c
      [root_lo a b c], [root_hi a b c]  = min / max of (-b -+ sqrt (qdisc a b c)) / (2*a)
      [disc_ok A B C]   the computed b*b, a*c, a*c*4. are finite and well formed
      [inter_ok A B C]  [disc_ok] and the computed disc, sqrt, b -+ sqrt, q are finite and well formed
                        and the computed q interval excludes zero    (decidable: [inter_okb])
      [rel_u] = 2^(1-prec), [abs_eta] = 2^emin;  [upf t] = t + rel_u |t| + abs_eta,  [dnf t] = t - rel_u |t| - abs_eta
                        (the most one rounding, or one step to the next float, can move a value up / down)
      [ext_le x y]      IEEE [x <= y] (extended order, false on NaN)
      [not_nested X1 X2] = [ext_le (high X1) (high X2)];  [disjoint X1 X2] = IEEE [high X1 < low X2]
    This file contains only statements closed by [exact]. *)
From Coq Require Import ZArith Reals Floats.SpecFloat.
From Flocq Require Import Core BinarySingleNaN.
From G3 Require Import Model.Num Model.Base Model.RoundError Model.Quadratic Model.PinnedQuadratic
  Theory.IntervalSpec Theory.QuadraticSpec Proofs.C07_interval Proofs.C17_quadratic Proofs.C17_width.
Local Open Scope R_scope.

Section C17.
  Variable prec emax : Z.
  Context (Hprec : FLX.Prec_gt_0 prec) (Hmax : Prec_lt_emax prec emax).
  Notation bf := (binary_float prec emax).
  Local Instance NB : Num bf := NumB prec emax Hprec Hmax.
  Notation inter_ok := (inter_ok prec emax Hprec Hmax).
  Notation disc_ok := (disc_ok prec emax Hprec Hmax).

  (** (1) the solver is the composition of its named steps, and the side condition is decidable *)
  Theorem C17_solver_steps : forall A B C : AF bf,
    af_solve_quadratic A B C = quad_result (quad_steps A B C).
  Proof. exact (solve_steps_eq bf NB). Qed.

  Theorem C17_inter_ok_decidable : forall A B C : AF bf,
    (inter_okb A B C = true <-> inter_ok A B C) /\ (disc_okb A B C = true <-> disc_ok A B C).
  Proof. exact (fun A B C => conj (inter_okb_spec prec emax Hprec Hmax A B C) (disc_okb_spec prec emax Hprec Hmax A B C)). Qed.

  (** (2) when roots are returned, for EVERY real coefficient choice inside the coefficient
      intervals: the discriminant is non-negative; the smaller true root lies in the first returned
      interval -- unconditionally; the larger true root lies in the second one provided the two
      returned intervals are not nested; both are well formed and returned in ascending order of
      their lower bounds.
      The hypothesis "q excludes zero" inside [inter_ok] cannot be dropped: [C17_q_zero_refuted]. *)
  Theorem C17_roots_enclosed : forall (A B C X1 X2 : AF bf) (a b c : R),
    wf A -> wf B -> wf C -> no_zero A -> inter_ok A B C ->
    af_solve_quadratic A B C = Some (X1, X2) ->
    contains A a -> contains B b -> contains C c ->
    0 <= qdisc a b c /\
    contains X1 (root_lo a b c) /\
    (not_nested X1 X2 -> contains X2 (root_hi a b c)) /\
    ext_wf X1 /\ ext_wf X2 /\ ext_le (low X1) (low X2).
  Proof. exact (roots_enclosed_af prec emax Hprec Hmax). Qed.

  (** nested or not, each of the two roots is enclosed by one of the two returned intervals
      (the two intervals enclose the two different roots (-b - sqrt D)/2a and (-b + sqrt D)/2a) *)
  Theorem C17_each_root_enclosed : forall (A B C X1 X2 : AF bf) (a b c : R),
    wf A -> wf B -> wf C -> no_zero A -> inter_ok A B C ->
    af_solve_quadratic A B C = Some (X1, X2) ->
    contains A a -> contains B b -> contains C c ->
    (contains X1 (root_minus a b c) /\ contains X2 (root_plus a b c)) \/
    (contains X1 (root_plus a b c) /\ contains X2 (root_minus a b c)).
  Proof. exact (each_root_enclosed_af prec emax Hprec Hmax). Qed.

  (** the nestedness proviso under explicit, checkable margins:
      (a) returned intervals that are disjoint are not nested: the larger root is in the second one *)
  Theorem C17_hi_enclosed_when_disjoint : forall (A B C X1 X2 : AF bf) (a b c : R),
    wf A -> wf B -> wf C -> no_zero A -> inter_ok A B C ->
    af_solve_quadratic A B C = Some (X1, X2) ->
    contains A a -> contains B b -> contains C c ->
    disjoint X1 X2 -> contains X2 (root_hi a b c).
  Proof. exact (hi_enclosed_when_disjoint_af prec emax Hprec Hmax). Qed.

  (** (b) if for SOME admissible choice the two true roots are further apart (sqrt D / |a|) than the
      first returned interval is wide, the returned intervals are not nested *)
  Theorem C17_not_nested_when_separated : forall (A B C X1 X2 : AF bf) (a b c : R),
    wf A -> wf B -> wf C -> no_zero A -> inter_ok A B C ->
    af_solve_quadratic A B C = Some (X1, X2) ->
    contains A a -> contains B b -> contains C c ->
    is_finite (low X1) = true -> is_finite (high X1) = true ->
    width X1 < sqrt (qdisc a b c) / Rabs a ->
    not_nested X1 X2.
  Proof. exact (not_nested_when_separated_af prec emax Hprec Hmax). Qed.

  (** (3) rejection: a negative discriminant for one admissible choice (a fortiori for every choice)
      makes the solver answer "no solution", as soon as b*b, a*c, a*c*4. did not overflow *)
  Theorem C17_none_when_negative : forall (A B C : AF bf) (a b c : R),
    wf A -> wf B -> wf C -> disc_ok A B C ->
    contains A a -> contains B b -> contains C c ->
    qdisc a b c < 0 -> af_solve_quadratic A B C = None.
  Proof. exact (none_when_negative_af prec emax Hprec Hmax). Qed.

  (** acceptance, exactly: roots are returned iff the computed lower bound of the discriminant is
      not [< 0] ... *)
  Theorem C17_some_iff : forall A B C : AF bf,
    (exists XX : AF bf * AF bf, af_solve_quadratic A B C = Some XX) <->
    Bltb (low (q_disc (quad_steps A B C))) (n0 : bf) = false.
  Proof. exact (some_iff_low_disc prec emax Hprec Hmax). Qed.

  (** ... which, for finite operands, holds iff the lower bound computed for b*b is strictly above the
      upper bound computed for a*c*4. (the outward-rounded subtraction of two floats has a negative
      lower bound exactly when minuend <= subtrahend; no format restriction) *)
  Theorem C17_some_iff_disc_operands : forall A B C : AF bf,
    disc_ok A B C ->
    let s := quad_steps A B C in
    ((exists XX : AF bf * AF bf, af_solve_quadratic A B C = Some XX) <-> B2R (high (q_ac4 s)) < B2R (low (q_bb s))).
  Proof. exact (some_iff_operands prec emax Hprec Hmax). Qed.
  (** acceptance under a margin ("returns roots whenever the discriminant is positive by a clear
      relative margin for all choices"): let [mn] be below every product b*b' of two members of the b
      interval (for an interval that excludes zero: the smaller squared bound, i.e. the minimum of b^2)
      and [Mx] above every product a*c.  If mn exceeds 4 Mx by the accumulated slack of the roundings
      (3 down for b*b, 3 up for a*c, 2 up for *4.), roots are returned.  Every format, underflow included.
      When the b interval contains zero, mn is negative (b*b is computed as a general product): this is
      where the statement of the property fails on the code, see known finding C17:spurious-none. *)
  Theorem C17_some_when_margin : forall (A B C : AF bf) (Mx mn : R),
    wf A -> wf B -> wf C -> disc_ok A B C ->
    (forall a c, contains A a -> contains C c -> a * c <= Mx) ->
    (forall b b', contains B b -> contains B b' -> mn <= b * b') ->
    upf prec emax (upf prec emax (upf prec emax (upf prec emax (upf prec emax Mx)) * 4))
      < dnf prec emax (dnf prec emax (dnf prec emax mn)) ->
    exists XX : AF bf * AF bf, af_solve_quadratic A B C = Some XX.
  Proof. exact (some_when_margin_af prec emax Hprec Hmax). Qed.

  (** the same in closed form for prec >= 4:  mn - 4 Mx > 7 u (|mn| + 4 |Mx|) + 24 eta  suffices
      (binary64: u = 2.2e-16, eta = 4.9e-324; the property's "clear margin" 1e-6 is 10^9 times that) *)
  Theorem C17_some_when_relative_margin : (4 <= prec)%Z -> forall (A B C : AF bf) (Mx mn : R),
    wf A -> wf B -> wf C -> disc_ok A B C ->
    (forall a c, contains A a -> contains C c -> a * c <= Mx) ->
    (forall b b', contains B b -> contains B b' -> mn <= b * b') ->
    7 * rel_u prec emax * (Rabs mn + 4 * Rabs Mx) + 24 * abs_eta prec emax < mn - 4 * Mx ->
    exists XX : AF bf * AF bf, af_solve_quadratic A B C = Some XX.
  Proof. exact (some_when_relative_margin_af prec emax Hprec Hmax). Qed.
End C17.

(** non-vacuity: a in [1,1.000001], b in [-3.000003,-3], c in [2,2.000002] (binary64) meets every
    hypothesis of [C17_roots_enclosed], and the solver returns roots *)
Example C17_nonvacuous :
  wf pA /\ wf pB /\ wf pC /\ no_zero pA /\ inter_ok 53 1024 Hprec53 Hmax1024 pA pB pC /\
  (exists X1 X2 : AF b64, af_solve_quadratic pA pB pC = Some (X1, X2)) /\
  contains pA 1 /\ contains pB (- 6755406196455185 / 2251799813685248) /\ contains pC 2.
Proof. exact nonvacuous_proof. Qed.

(** the pinned tree (before fix d71c7af) violated the property: on the same coefficient intervals
    the solver built from the pinned Neg / Sub / Mul<Float> returned x2 = [1.9999985, 2.0000015],
    missing the root 2.000006 of a = 1, b = -3.000003, c = 2 *)
Theorem C17_pinned_refuted :
  exists (A B C X1 X2 : AF b64) (a b c : R),
    wf A /\ wf B /\ wf C /\ no_zero A /\
    af_solve_quadratic_pinned A B C = Some (X1, X2) /\
    contains A a /\ contains B b /\ contains C c /\ 0 <= qdisc a b c /\
    ~ contains X2 (root_hi a b c).
Proof. exact pinned_solver_refuted. Qed.

(** the CURRENT code violates the enclosure when its q interval contains zero (finding
    C17:q-contains-zero): a = 1, b in [-1,1], c = -3/8; all intermediates finite and well formed, the
    solver answers Some, and the root (1 + sqrt 2.5)/2 of a = 1, b = -1, c = -3/8 is in neither interval *)
Theorem C17_q_zero_refuted :
  exists (A B C X1 X2 : AF b64) (a b c : R),
    wf A /\ wf B /\ wf C /\ no_zero A /\
    (let s := quad_steps A B C in
     disc_ok 53 1024 Hprec53 Hmax1024 A B C /\ wf (q_disc s) /\ wf (q_sqrt s) /\ wf (q_pm s) /\ wf (q_q s) /\ ~ no_zero (q_q s)) /\
    af_solve_quadratic A B C = Some (X1, X2) /\
    contains A a /\ contains B b /\ contains C c /\ 0 <= qdisc a b c /\
    ~ contains X1 (root_hi a b c) /\ ~ contains X2 (root_hi a b c).
Proof. exact q_zero_refuted. Qed.

(** the same defect inside the property's domain, on the a, b, c that sphere3d.rs computes for the unit
    sphere and the ray from (1 - 7.5e-15, 0, 0) along (0, 1, 0) with a direction error box of 1e-7
    (a in [0.9999998, 1.0000002], b in [-2e-7, 2e-7], c in [-1.55e-14, -1.47e-14]; case #8 of every
    generated stream): the larger root 2.6e-7 of a = A.low, b = B.low, c = C.low is in neither interval *)
Theorem C17_q_zero_sphere_refuted :
  exists (X1 X2 : AF b64) (a b c : R),
    wf sA /\ wf sB /\ wf sC /\ no_zero sA /\
    (let s := quad_steps sA sB sC in
     disc_ok 53 1024 Hprec53 Hmax1024 sA sB sC /\ wf (q_disc s) /\ wf (q_sqrt s) /\ wf (q_pm s) /\ wf (q_q s) /\ ~ no_zero (q_q s)) /\
    af_solve_quadratic sA sB sC = Some (X1, X2) /\
    contains sA a /\ contains sB b /\ contains sC c /\ 0 <= qdisc a b c /\
    ~ contains X1 (root_hi a b c) /\ ~ contains X2 (root_hi a b c).
Proof. exact q_zero_sphere_refuted. Qed.
