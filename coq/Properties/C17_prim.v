(** * C17 on primitive floats.  The C17 runner executes Flocq binary64 itself, so C17's own correspondence needs no
    bridge; but the sphere / cylinder runners (C02, C03, C13) execute [af_solve_quadratic] on [NumF].  This file states
    that that run is the Flocq binary64 run ([C17_prim_run_is_flocq_run]: same decision None / Some, same order, the
    [P2B]-images of both enclosures) and reads the two enclosure theorems of Properties/C17.v through it.
    [pI] = [P2B] on both bounds of an interval; [wf], [contains], [no_zero], [inter_ok], ... as in Properties/C17.v.
    Axioms: the primitive float / integer specifications besides the classical reals.  Statements only. *)
From Coq Require Import ZArith Reals Floats.
From Flocq Require Import Core BinarySingleNaN.
From G3 Require Import Model.Num Model.NumF Model.Base Model.RoundError Model.Quadratic Theory.PrimBridge
  Theory.IntervalSpec Theory.QuadraticSpec Proofs.C07_interval Proofs.C17_quadratic Proofs.Bridge_interval Proofs.Bridge_C17.
Local Open Scope R_scope.

Theorem C17_prim_run_is_flocq_run : forall a b c : AF prim,
  mapOpt (mapP pI pI) (@af_solve_quadratic _ NumF a b c) = @af_solve_quadratic _ NumB64 (pI a) (pI b) (pI c).
Proof. exact prim_af_solve_quadratic. Qed.

Theorem C17_prim_roots_enclosed : forall (A B C X1 X2 : AF prim) (a b c : R),
  wf (pI A) -> wf (pI B) -> wf (pI C) -> no_zero (pI A) -> inter_ok 53 1024 Hprec53 Hmax1024 (pI A) (pI B) (pI C) ->
  @af_solve_quadratic _ NumF A B C = Some (X1, X2) ->
  contains (pI A) a -> contains (pI B) b -> contains (pI C) c ->
  0 <= qdisc a b c /\
  contains (pI X1) (root_lo a b c) /\
  (not_nested (pI X1) (pI X2) -> contains (pI X2) (root_hi a b c)) /\
  ext_wf (pI X1) /\ ext_wf (pI X2) /\ ext_le (low (pI X1)) (low (pI X2)).
Proof. exact prim_roots_enclosed. Qed.

Theorem C17_prim_each_root_enclosed : forall (A B C X1 X2 : AF prim) (a b c : R),
  wf (pI A) -> wf (pI B) -> wf (pI C) -> no_zero (pI A) -> inter_ok 53 1024 Hprec53 Hmax1024 (pI A) (pI B) (pI C) ->
  @af_solve_quadratic _ NumF A B C = Some (X1, X2) ->
  contains (pI A) a -> contains (pI B) b -> contains (pI C) c ->
  (contains (pI X1) (root_minus a b c) /\ contains (pI X2) (root_plus a b c)) \/
  (contains (pI X1) (root_plus a b c) /\ contains (pI X2) (root_minus a b c)).
Proof. exact prim_each_root_enclosed. Qed.

Example C17_prim_nonvacuous :
  wf (pI fA) /\ wf (pI fB) /\ wf (pI fC) /\ no_zero (pI fA) /\ inter_ok 53 1024 Hprec53 Hmax1024 (pI fA) (pI fB) (pI fC) /\
  (exists X1 X2 : AF prim, @af_solve_quadratic _ NumF fA fB fC = Some (X1, X2)) /\
  contains (pI fA) 1 /\ contains (pI fB) (- 6755406196455185 / 2251799813685248) /\ contains (pI fC) 2.
Proof. exact prim_C17_nonvacuous. Qed.
