(** * C02, part pquadric -- every reported ray / sphere and ray / cylinder hit is a true hit (exact tier, reals).
    Statements only, each closed by [exact].  Vocabulary (Proofs/Quadric_*.v):
    [on_sphere s q]: |q|^2 = r^2;  [on_cyl c q]: x^2 + y^2 = r^2;  [vzero]: the zero error box;
    [sphere_fixup]: the pole fix-up of the code (x := 1e-5 r when |x|,|y| < 1e-5 r);  [in_pole_band]: its guard;
    [phi_of p]: atan2(y, x) brought into [0, 2 pi);  [sph_solvable] / [cyl_solvable]: the ray direction is not
    zero (resp. not parallel to the axis) and the ray does not start ON the quadric tangentially (the one case in
    which the code computes 0/0; unreachable in floats, where the widened discriminant is then negative). *)
From Coq Require Import ZArith Reals List.
From G3 Require Import Model.Num Model.Base Model.Vec Model.BBox Model.RoundError Model.Transform Model.Hit Model.Sphere Model.Cylinder.
From G3 Require Import Proofs.C06_transform Proofs.Quadric_base Proofs.Quadric_sphere Proofs.Quadric_cylinder Proofs.Quadric_place.
Local Open Scope R_scope.

(** ** bridging: on the reals the outward-rounding steps are the identity and the interval operations on
    point intervals are the real operations *)
Theorem C02_interval_ops_exact_on_points : forall a b : R,
  nnext_up a = a /\ nnext_dn a = a /\
  af_from_value_and_error a 0 = pt a /\
  af_add (pt a) (pt b) = pt (a + b) /\ af_sub (pt a) (pt b) = pt (a - b) /\ af_mul (pt a) (pt b) = pt (a * b) /\
  af_div (pt a) (pt b) = pt (a / b) /\ af_mul_f (pt a) b = pt (a * b) /\ af_sub_f (pt a) b = pt (a - b) /\
  af_neg (pt a) = pt (- a) /\ af_sqrt (pt a) = pt (sqrt a) /\ af_as_float (pt a) = a.
Proof.
  exact (fun a b => conj (nnext_up_R a) (conj (nnext_dn_R a) (conj (af_from_ve_0 a) (conj (af_add_pt a b) (conj (af_sub_pt a b)
    (conj (af_mul_pt a b) (conj (af_div_pt a b) (conj (af_mul_f_pt a b) (conj (af_sub_f_pt a b) (conj (af_neg_pt a)
    (conj (af_sqrt_pt a) (af_as_float_pt a)))))))))))).
Qed.

(** ** sphere, zero-width error boxes: the reported point is the pole-fixed image of a point q that lies on the
    sphere and on the ray at a parameter t > 0; it passes the clips; outside the pole band it IS q, on the sphere *)
Theorem C02_sphere_hit_is_true_hit : forall (s : S) (ray : Ray R) (p : V) (phi : R),
  0 < sradius s -> sph_solvable s ray ->
  sphere_basic s ray vzero vzero = Some (p, phi) ->
  exists t, 0 < t /\ let q := ray_project ray t in
    on_sphere s q /\ p = sphere_fixup s q /\ phi = phi_of p /\
    ((- sradius s < szmin s -> szmin s <= vz p) /\ (szmax s < sradius s -> vz p <= szmax s) /\ phi <= sphi_max s) /\
    (~ in_pole_band s q -> p = q /\ on_sphere s p).
Proof. exact sphere_hit_sound. Qed.
(** with the stored limits inside [-r, r], as every constructor leaves them: zmin <= z <= zmax *)
Theorem C02_sphere_hit_within_z_range : forall (s : S) (ray : Ray R) (p : V) (phi : R),
  0 < sradius s -> sph_solvable s ray -> - sradius s <= szmin s -> szmax s <= sradius s ->
  sphere_basic s ray vzero vzero = Some (p, phi) -> szmin s <= vz p <= szmax s.
Proof. exact sphere_hit_z_range. Qed.
(** the pole fix-up, honestly: it keeps y and z, and leaves the sphere by at most (1e-5 r)^2 in squared distance
    (but moves the point off the ray by up to 1e-5 r: see the finding C02:quadric:sphere:pole-fixup) *)
Theorem C02_sphere_pole_fixup_bound : forall (s : S) (q : V), 0 < sradius s -> on_sphere s q ->
  vz (sphere_fixup s q) = vz q /\
  0 <= vlen2 (sphere_fixup s q) - sradius s * sradius s <= (/ 100000 * sradius s) * (/ 100000 * sradius s) /\
  ((~ in_pole_band s q /\ sphere_fixup s q = q) \/
   (in_pole_band s q /\ sphere_fixup s q = mkV3 (/ 100000 * sradius s) (vy q) (vz q))).
Proof. exact (fun s q Hr H => conj (fixup_z s q) (conj (fixup_near_sphere s q Hr H) (fixup_cases s q))). Qed.

(** any error boxes.  PARTIAL: proved = the reported point is the (pole-fixed) radial re-projection of the ray
    point at the midpoint of one of the solver's root intervals whose lower bound is positive, it is on the
    sphere (when that ray point is not the centre) and inside the clips.
    MISSING for the full statement "on the ray at a positive distance": a bound on the distance between the
    re-projected point and the ray in terms of the widths of the error boxes (needs C17's enclosure on R and
    the error bounds of C16 for the boxes produced by [inv_transform_ray]). *)
Theorem C02_sphere_hit_any_error_boxes_partial : forall (s : S) (ray : Ray R) (oe de p : V) (phi : R),
  sphere_basic s ray oe de = Some (p, phi) ->
  exists th : AF R, 0 < low th /\
    let q := ray_project ray (af_as_float th) in
    p = sphere_fixup s (sphere_reproject s q) /\ phi = phi_of p /\
    ((- sradius s < szmin s -> szmin s <= vz p) /\ (szmax s < sradius s -> vz p <= szmax s) /\ phi <= sphi_max s) /\
    (0 < vlen2 q -> on_sphere s (sphere_reproject s q)).
Proof. exact sphere_hit_any_boxes_partial. Qed.

(** ** cylinder, zero-width error boxes *)
Theorem C02_cylinder_hit_is_true_hit : forall (c : C) (ray : Ray R) (p : V) (phi : R),
  0 < cradius c -> cyl_solvable c ray ->
  cyl_basic c ray vzero vzero = Some (p, phi) ->
  exists t, 0 < t /\ p = ray_project ray t /\ on_cyl c p /\ phi = phi_of p /\
            czmin c <= vz p <= czmax c /\ phi <= cphi_max c.
Proof. exact cyl_hit_sound. Qed.
(** any error boxes (PARTIAL, same gap as for the sphere) *)
Theorem C02_cylinder_hit_any_error_boxes_partial : forall (c : C) (ray : Ray R) (oe de p : V) (phi : R),
  cyl_basic c ray oe de = Some (p, phi) ->
  exists th : AF R, 0 < low th /\
    let q := ray_project ray (af_as_float th) in
    p = cyl_reproject c q /\ phi = phi_of p /\ czmin c <= vz p <= czmax c /\ phi <= cphi_max c /\
    (0 < vx q * vx q + vy q * vy q -> on_cyl c p /\ vz p = vz q).
Proof. exact cyl_hit_any_boxes_partial. Qed.

(** [phi] is the polar angle about the z axis, in [0, 2 pi): so [phi <= phi_max] is the angular clip *)
Theorem C02_phi_is_polar_angle : forall p : V, 0 < vx p * vx p + vy p * vy p ->
  let rho := sqrt (vx p * vx p + vy p * vy p) in
  vx p = rho * cos (phi_of p) /\ vy p = rho * sin (phi_of p) /\ 0 <= phi_of p < 2 * PI.
Proof. exact (fun p H => conj (proj1 (phi_of_polar p H)) (conj (proj2 (phi_of_polar p H)) (phi_of_range p))). Qed.

(** ** the generic wrapper, with C06's invariant [Inv t] on the attached transform: the world hit is the image
    of a hit of the local intersection (run on the inverse-transformed ray with the error boxes returned by
    [inv_transform_ray]) and the inverse transform takes it back: it lies on the transformed surface *)
Theorem C02_sphere_world_hit : forall (s : S) (ray : Ray R) (t : T), stransform s = Some t -> Inv t ->
  (forall i, sphere_intersect s ray = Some i ->
     exists lr oe de p phi, tr_inv_ray t ray = (lr, oe, de) /\ sphere_basic s lr oe de = Some (p, phi) /\
       ip i = tr_pt t p /\ tr_inv_pt t (ip i) = p) /\
  (forall P, sphere_simple_intersect s ray = Some P ->
     exists lr oe de p phi, tr_inv_ray t ray = (lr, oe, de) /\ sphere_basic s lr oe de = Some (p, phi) /\
       P = tr_pt t p /\ tr_inv_pt t P = p).
Proof. exact (fun s ray t Ht Hi => conj (fun i => sphere_intersect_world s ray i t Ht Hi) (fun P => sphere_simple_intersect_world s ray P t Ht Hi)). Qed.
Theorem C02_cylinder_world_hit : forall (c : C) (ray : Ray R) (t : T), ctransform c = Some t -> Inv t ->
  (forall i, cyl_intersect c ray = Some i ->
     exists lr oe de p phi, tr_inv_ray t ray = (lr, oe, de) /\ cyl_basic c lr oe de = Some (p, phi) /\
       ip i = tr_pt t p /\ tr_inv_pt t (ip i) = p) /\
  (forall P, cyl_simple_intersect c ray = Some P ->
     exists lr oe de p phi, tr_inv_ray t ray = (lr, oe, de) /\ cyl_basic c lr oe de = Some (p, phi) /\
       P = tr_pt t p /\ tr_inv_pt t P = p).
Proof. exact (fun c ray t Ht Hi => conj (fun i => cyl_intersect_world c ray i t Ht Hi) (fun P => cyl_simple_intersect_world c ray P t Ht Hi)). Qed.
(** ... and a point of the local ray at parameter u is carried to the world ray at parameter dt + u >= u, where
    dt >= 0 is the documented forward nudge of the local origin: local "ahead on the ray" is world "ahead on the ray" *)
Theorem C02_world_ray_parameter : forall (t : T) (ray : Ray R), Inv t ->
  exists dt, 0 <= dt /\ rdir (fst (fst (tr_inv_ray t ray))) = tr_inv_vec t (rdir ray) /\
    forall u, tr_pt t (ray_project (fst (fst (tr_inv_ray t ray))) u) = ray_project ray (dt + u).
Proof. exact inv_ray_world. Qed.
(** without a transform, [intersect] runs the local intersection with zero boxes: the exact statements apply *)
Theorem C02_untransformed_hit : forall (s : S) (c : C) (ray : Ray R),
  (stransform s = None -> forall i, sphere_intersect s ray = Some i -> exists phi, sphere_basic s ray vzero vzero = Some (ip i, phi)) /\
  (ctransform c = None -> forall i, cyl_intersect c ray = Some i -> exists phi, cyl_basic c ray vzero vzero = Some (ip i, phi)).
Proof. exact (fun s c ray => conj (fun H i => sphere_intersect_untransformed s ray i H) (fun H i => cyl_intersect_untransformed c ray i H)). Qed.

(** ** cylinder placement (finding F4).  For the REPAIRED composition order [translate . rotate_z . rotate_y]:
    the placement transform satisfies C06's invariant and maps the local axis point (0,0,s) to
    p0 + (s / |p1-p0|) (p1 - p0): the axis segment [0, |p1-p0|] goes onto [p0, p1], ends to ends *)
Theorem C02_cylinder_placement_maps_axis_onto_segment : forall (p0 p1 : V) (s : R), 0 < vlen2 (vsub p1 p0) ->
  Inv (cyl_placement p0 p1) /\
  tr_pt (cyl_placement p0 p1) (mkV3 0 0 s) = vadd p0 (vscale (vsub p1 p0) (s / vlen (vsub p1 p0))) /\
  tr_pt (cyl_placement p0 p1) (mkV3 0 0 0) = p0 /\ tr_pt (cyl_placement p0 p1) (mkV3 0 0 (vlen (vsub p1 p0))) = p1.
Proof.
  exact (fun p0 p1 s H => conj (Inv_cyl_placement p0 p1) (conj (cyl_placement_axis p0 p1 s H)
          (conj (proj1 (cyl_placement_ends p0 p1 H)) (proj2 (cyl_placement_ends p0 p1 H))))).
Qed.
Theorem C02_cylinder_new_partial_fields : forall (p0 p1 : V) (radius phi_max : R) (c : Cyl R),
  cyl_new_partial p0 p1 radius phi_max = Ok c ->
  cradius c = radius /\ czmin c = 0 /\ czmax c = vlen (vsub p1 p0) /\ ctransform c = Some (cyl_placement p0 p1).
Proof. exact cyl_new_partial_places. Qed.
(** the composition order of the code as it stands ([*= rotate_y] before [*= rotate_z]) misplaces the cylinder:
    from (0,0,0) to (0,2,0) the far end of the axis lands on (2,0,0) *)
Theorem C02_cylinder_placement_pinned_refuted :
  tr_pt (cyl_placement_pinned (mkV3 0 0 0) (mkV3 0 2 0)) (mkV3 0 0 2) = mkV3 2 0 0 /\
  exists p0 p1 : V, 0 < vlen2 (vsub p1 p0) /\ tr_pt (cyl_placement_pinned p0 p1) (mkV3 0 0 (vlen (vsub p1 p0))) <> p1.
Proof. exact (conj cyl_placement_pinned_witness cyl_placement_pinned_misplaces). Qed.

(** non-vacuity: the unit sphere / the unit cylinder of height 2 and the ray from (3, 0, 1/2) towards -x *)
Example C02_quadric_nonvacuous :
  let ray := mkRay (mkV3 3 0 (1/2)) (mkV3 (-1) 0 0) in
  let s := mkSphere 1 (-1) 1 (2 * PI) PI 0 None in
  let c := mkCyl 1 0 2 (2 * PI) None in
  0 < sradius s /\ sph_solvable s ray /\ 0 < cradius c /\ cyl_solvable c ray /\ 0 < vlen2 (vsub (mkV3 0 2 0) (mkV3 0 0 0)).
Proof. exact quadric_nonvacuous_proof. Qed.
