(** * C15, float tier, on the instance that is EXECUTED: Coq's primitive binary64 floats ([NumF]).
    Properties/C15_float.v proves, for every Flocq format, that the computed transformed box contains the computed image of
    every float point of the box.  Run/C15.v executes the model on [NumF] and compares it bit for bit with the f64 build of
    the crate.  [Prim2B] is a homomorphism [NumF -> NumB64] (Theory/PrimBridge.v) and [bbox_by], [mul4x4point],
    [bbox_point_inside] and the evaluable hypothesis [tr_ok_b] commute with it (Proofs/Bridge_model.v,
    Proofs/Bridge_C15.v), so the theorem reads word for word on primitive floats: every term below is a primitive-float
    computation, closed instances are decided by [vm_compute].
    [tr_ok_b m b]: rows 0..2 of [m] finite, bottom row (0,0,0,1), finite corners of [b], no NaN among the eight computed
    corner images.  Statements only; proofs in Proofs/Bridge_C15.v.
    Axioms: the specification axioms of primitive floats / integers, and the classical reals (Flocq). *)
From Coq Require Import ZArith Floats List Bool.
From G3 Require Import Model.Num Model.NumF Model.Base Model.Vec Model.BBox Model.Transform Model.Bounds.
From G3 Require Import Proofs.C15_float Proofs.Bridge_C15.

Notation prim := Coq.Floats.PrimFloat.float (only parsing).

Theorem C15_prim_transformed_box_contains_image : forall (m : M4 prim) (b : BBox prim) (p : V3 prim),
  @tr_ok_b _ NumF m b = true -> @bbox_point_inside _ NumF b p = true ->
  @bbox_point_inside _ NumF (@bbox_by _ NumF m b) (@mul4x4point _ NumF m p) = true.
Proof. exact prim_bbox_by_contains_image. Qed.

(** [transform_bbox] / [transform_pt] and [inv_transform_bbox] / [inv_transform_pt] (the stored inverse matrix) *)
Theorem C15_prim_transform_bbox_contains_image : forall (t : Tr prim) (b : BBox prim) (p : V3 prim),
  @bbox_point_inside _ NumF b p = true ->
  (@tr_ok_b _ NumF (elements t) b = true -> @bbox_point_inside _ NumF (@tr_bbox _ NumF t b) (@tr_pt _ NumF t p) = true) /\
  (@tr_ok_b _ NumF (inv_elements t) b = true -> @bbox_point_inside _ NumF (@tr_inv_bbox _ NumF t b) (@tr_inv_pt _ NumF t p) = true).
Proof. exact prim_tr_bbox_contains. Qed.

(** world bounds of sphere / cylinder (attached transform) and triangle (none) *)
Theorem C15_prim_world_bounds_contain : forall (t : option (Tr prim)) (lb : BBox prim) (p : V3 prim),
  match t with Some t => @tr_ok_b _ NumF (elements t) lb = true | None => True end ->
  @bbox_point_inside _ NumF lb p = true -> @bbox_point_inside _ NumF (@world_bounds _ NumF t lb) (@place_pt _ NumF t p) = true.
Proof. exact prim_world_bounds_contain. Qed.

(** all eight corners are needed in floating point too: [transform_bbox] with its [k]-th corner forgotten loses a point *)
Theorem C15_prim_every_corner_is_needed : forall k, (k < 8)%nat ->
  exists (m : M4 prim) (b : BBox prim) (p : V3 prim),
    @tr_ok_b _ NumF m b = true /\ @bbox_point_inside _ NumF b p = true /\
    @bbox_point_inside _ NumF (@bbox_by _ NumF m b) (@mul4x4point _ NumF m p) = true /\
    @bbox_point_inside _ NumF (@bbox_by_forgetting _ NumF k m b) (@mul4x4point _ NumF m p) = false.
Proof. exact prim_every_corner_is_needed. Qed.

(** the NaN-free hypothesis cannot be dropped: finite matrix [(-2^1023, -2^1023, 0, 0; 0 1 0 0; 0 0 1 0; 0 0 0 1)], finite
    box [0,4] x [-4,1] x [0,1], point (1, 0, 1/2) of the box.  Two corner images overflow to [inf - inf = NaN];
    [from_union_point] replaces the running maximum by the NaN and then the NaN by the next corner, so the computed box is
    [-inf, -inf] in x - no NaN coordinate - and does not contain the finite computed image (-2^1023, 0, 1/2). *)
Theorem C15_prim_nan_corner_outside_hypothesis :
  @rows012_b _ NumF ovM = true /\ @affine_last_b _ NumF ovM = true /\
  @fin3_b _ NumF (bmin ovB) = true /\ @fin3_b _ NumF (bmax ovB) = true /\
  @bbox_point_inside _ NumF ovB ovP = true /\
  @bbox_by_nan_free _ NumF ovM ovB = false /\
  @v_nan_free _ NumF (bmin (@bbox_by _ NumF ovM ovB)) = true /\ @v_nan_free _ NumF (bmax (@bbox_by _ NumF ovM ovB)) = true /\
  @fin3_b _ NumF (@mul4x4point _ NumF ovM ovP) = true /\
  @bbox_point_inside _ NumF (@bbox_by _ NumF ovM ovB) (@mul4x4point _ NumF ovM ovP) = false.
Proof. exact prim_nan_corner_forgets_maximum. Qed.

(** non-vacuity: [translate(1,2,3) . rotate_z(30) . scale(2,-1,1/2)] built by the model's constructors (libm included) on
    primitive floats, its stored inverse, the box [-1,2] x [0,3] x [-2,5] given by swapped corners, an interior point *)
Example C15_prim_nonvacuous :
  @tr_ok_b _ NumF (elements wT) wB = true /\ @tr_ok_b _ NumF (inv_elements wT) wB = true /\ @bbox_point_inside _ NumF wB wP = true.
Proof. exact prim_nonvacuous. Qed.
