(** * C16 on the f32 build -- (S) and (M) of Properties/C16.v at binary32, restated for what is EXECUTED.
    [NumF32] (= [NumF32fast]): primitive binary64 floats holding binary32 values, every operation rounded to binary32.
    [C16_prim32_run_is_flocq_run]: on binary32-valued inputs ([is32M m]: [of_b32 (to_b32 x) = x] for the 16 entries;
    [is32V v]) the four [*_with_error] / [*_propagate_error] functions return, value AND reported error, what the Flocq
    binary32 run returns on the [to_b32]-images ([tM tV]); on embedded binary32 inputs the executed result IS the embedded
    Flocq result ([C16_prim32_embedded_run_is_flocq_run], [C16_prim32_blocks_are_flocq_blocks],
    [C16_prim32_rays_are_flocq_rays]).  Rests on Theory/F32Bridge.v (double rounding innocuous, Properties/C07_prim32.v).
    (S) / (M) below are [C16_S_*] / [C16_M_*] at (24,128) ([u = 2^-24], [Hp8] discharged) read through it.  Statements only. *)
From Coq Require Import ZArith Reals Bool Floats.
From Flocq Require Import Core BinarySingleNaN.
From G3 Require Import Model.Num Model.NumF Model.NumF32 Model.Base Model.Vec Model.BBox Model.Transform Run.FastNum32.
From G3 Require Import Theory.PrimBridge Theory.F32Bridge Proofs.Bridge_model Proofs.Bridge32_model.
From G3 Require Import Proofs.C06_transform Proofs.C16_errbound Proofs.C16_ray Proofs.Bridge32_C16.
Local Open Scope R_scope.

(** ** the bridge *)
Theorem C16_prim32_run_is_flocq_run : forall (m : M4 prim) (p e : V3 prim), is32M m -> is32V p -> is32V e ->
  mapP tV tV (@pt_with_error _ NumF32 m p) = @pt_with_error _ NumB32 (tM m) (tV p) /\
  mapP tV tV (@vec_with_error _ NumF32 m p) = @vec_with_error _ NumB32 (tM m) (tV p) /\
  mapP tV tV (@pt_propagate_error _ NumF32 m p e) = @pt_propagate_error _ NumB32 (tM m) (tV p) (tV e) /\
  mapP tV tV (@vec_propagate_error _ NumF32 m p e) = @vec_propagate_error _ NumB32 (tM m) (tV p) (tV e).
Proof.
  exact (fun m p e Hm Hp He => conj (f32_pt_with_error_is32 m p Hm Hp) (conj (f32_vec_with_error_is32 m p Hm Hp)
    (conj (f32_pt_propagate_error_is32 m p e Hm Hp He) (f32_vec_propagate_error_is32 m p e Hm Hp He)))).
Qed.

Theorem C16_prim32_embedded_run_is_flocq_run : forall (m : M4 b32) (p e : V3 b32),
  @pt_with_error _ NumF32 (oM m) (oV p) = mapP oV oV (@pt_with_error _ NumB32 m p) /\
  @vec_with_error _ NumF32 (oM m) (oV p) = mapP oV oV (@vec_with_error _ NumB32 m p) /\
  @pt_propagate_error _ NumF32 (oM m) (oV p) (oV e) = mapP oV oV (@pt_propagate_error _ NumB32 m p e) /\
  @vec_propagate_error _ NumF32 (oM m) (oV p) (oV e) = mapP oV oV (@vec_propagate_error _ NumB32 m p e).
Proof. exact f32_with_error_embedded. Qed.

Theorem C16_prim32_blocks_are_flocq_blocks : forall (m a : M4 b32) (p : V3 b32) (x y z : b32) (b : BBox b32),
  @mul4x4point _ NumF32 (oM m) (oV p) = oV (@mul4x4point _ NumB32 m p) /\
  @mul4x4vec _ NumF32 (oM m) (oV p) = oV (@mul4x4vec _ NumB32 m p) /\
  @mul4x4_abs _ NumF32 (oM m) (of_b32 x) (of_b32 y) (of_b32 z) = oV (@mul4x4_abs _ NumB32 m x y z) /\
  @mul3x3_abs _ NumF32 (oM m) (of_b32 x) (of_b32 y) (of_b32 z) = oV (@mul3x3_abs _ NumB32 m x y z) /\
  @mul4x4 _ NumF32 (oM m) (oM a) = oM (@mul4x4 _ NumB32 m a) /\
  @bbox_by _ NumF32 (oM m) (oB b) = oB (@bbox_by _ NumB32 m b).
Proof. exact f32_blocks. Qed.

Theorem C16_prim32_rays_are_flocq_rays : forall (m : M4 b32) (r : Ray b32) (oe de : V3 b32),
  @ray_by _ NumF32 (oM m) (oR r) = mapRayRes of_b32 (@ray_by _ NumB32 m r) /\
  @ray_propagate_by _ NumF32 (oM m) (oR r) (oV oe) (oV de) = mapRayRes of_b32 (@ray_propagate_by _ NumB32 m r oe de) /\
  @nudge _ NumF32 (oV (rorigin r)) (oV (rdir r)) (oV oe) = oV (@nudge _ NumB32 (rorigin r) (rdir r) oe).
Proof. exact f32_rays. Qed.

(** ** (S) on the executed f32 instance *)
Theorem C16_prim32_S_vec : forall (m : M4 prim) (v : V3 prim), is32M m -> is32V v ->
  let re := @vec_with_error _ NumF32 m v in
  fin3 24 128 (tV (snd re)) -> safe_prods 24 128 (B2M 24 128 (tM m)) (B2V 24 128 (tV v)) ->
  fin3 24 128 (tV (fst re)) /\
  within 1 (B2V 24 128 (tV (fst re))) (img_vec (B2M 24 128 (tM m)) (B2V 24 128 (tV v))) (B2V 24 128 (tV (snd re))).
Proof. exact f32_S_vec. Qed.

Theorem C16_prim32_S_point : forall (m : M4 prim) (p : V3 prim), is32M m -> is32V p ->
  let re := @pt_with_error _ NumF32 m p in
  affine_last 24 128 (tM m) -> fin3 24 128 (tV (snd re)) -> safe_prods 24 128 (B2M 24 128 (tM m)) (B2V 24 128 (tV p)) ->
  fin3 24 128 (tV (fst re)) /\
  within 1 (B2V 24 128 (tV (fst re))) (img_pt (B2M 24 128 (tM m)) (B2V 24 128 (tV p))) (B2V 24 128 (tV (snd re))).
Proof. exact f32_S_point. Qed.

Theorem C16_prim32_S_vec_box_partial : forall (m : M4 prim) (v e : V3 prim), is32M m -> is32V v -> is32V e ->
  let re := @vec_propagate_error _ NumF32 m v e in
  fin3 24 128 (tV (snd re)) -> safe_prods 24 128 (B2M 24 128 (tM m)) (B2V 24 128 (tV v)) ->
  safe_prods 24 128 (B2M 24 128 (tM m)) (B2V 24 128 (tV e)) ->
  fin3 24 128 (tV (fst re)) /\
  forall x' : V3 R, inbox (B2V 24 128 (tV v)) (B2V 24 128 (tV e)) x' ->
    within (1 + 4 * uro 24) (B2V 24 128 (tV (fst re))) (img_vec (B2M 24 128 (tM m)) x') (B2V 24 128 (tV (snd re))).
Proof. exact f32_S_vec_box. Qed.

Theorem C16_prim32_S_point_box_partial : forall (m : M4 prim) (p e : V3 prim), is32M m -> is32V p -> is32V e ->
  let re := @pt_propagate_error _ NumF32 m p e in
  affine_last 24 128 (tM m) -> fin3 24 128 (tV (snd re)) ->
  safe_prods 24 128 (B2M 24 128 (tM m)) (B2V 24 128 (tV p)) -> safe_prods 24 128 (B2M 24 128 (tM m)) (B2V 24 128 (tV e)) ->
  fin3 24 128 (tV (fst re)) /\
  forall x' : V3 R, inbox (B2V 24 128 (tV p)) (B2V 24 128 (tV e)) x' ->
    within (1 + 4 * uro 24) (B2V 24 128 (tV (fst re))) (img_pt (B2M 24 128 (tM m)) x') (B2V 24 128 (tV (snd re))).
Proof. exact f32_S_point_box. Qed.

(** ** (M) on the executed f32 instance *)
Theorem C16_prim32_M_with_error : forall (m : M4 prim) (p : V3 prim), is32M m -> is32V p ->
  safe_prods 24 128 (B2M 24 128 (tM m)) (B2V 24 128 (tV p)) -> safe_trans 24 128 (B2M 24 128 (tM m)) ->
  fin3 24 128 (tV (snd (@pt_with_error _ NumF32 m p))) ->
  vle (B2V 24 128 (tV (snd (@pt_with_error _ NumF32 m p))))
      (vscaleR 2 (first_order (gamma3 24) (B2M 24 128 (tM m)) (B2V 24 128 (tV p)) V0)).
Proof. exact f32_M_with_error. Qed.

Theorem C16_prim32_M_vec_with_error : forall (m : M4 prim) (v : V3 prim), is32M m -> is32V v ->
  safe_prods 24 128 (B2M 24 128 (tM m)) (B2V 24 128 (tV v)) -> fin3 24 128 (tV (snd (@vec_with_error _ NumF32 m v))) ->
  vle (B2V 24 128 (tV (snd (@vec_with_error _ NumF32 m v))))
      (vscaleR 2 (vscaleR (gamma3 24) (abs_img (B2M 24 128 (tM m)) (B2V 24 128 (tV v))))).
Proof. exact f32_M_vec_with_error. Qed.

Theorem C16_prim32_M_propagate : forall (m : M4 prim) (p e : V3 prim), is32M m -> is32V p -> is32V e ->
  safe_prods 24 128 (B2M 24 128 (tM m)) (B2V 24 128 (tV p)) -> safe_prods 24 128 (B2M 24 128 (tM m)) (B2V 24 128 (tV e)) ->
  safe_trans 24 128 (B2M 24 128 (tM m)) ->
  fin3 24 128 (tV (snd (@pt_propagate_error _ NumF32 m p e))) ->
  vle (B2V 24 128 (tV (snd (@pt_propagate_error _ NumF32 m p e))))
      (vscaleR 2 (first_order (gamma3 24) (B2M 24 128 (tM m)) (B2V 24 128 (tV p)) (B2V 24 128 (tV e)))).
Proof. exact f32_M_propagate. Qed.

Theorem C16_prim32_M_vec_propagate : forall (m : M4 prim) (v e : V3 prim), is32M m -> is32V v -> is32V e ->
  safe_prods 24 128 (B2M 24 128 (tM m)) (B2V 24 128 (tV v)) -> safe_prods 24 128 (B2M 24 128 (tM m)) (B2V 24 128 (tV e)) ->
  fin3 24 128 (tV (snd (@vec_propagate_error _ NumF32 m v e))) ->
  vle (B2V 24 128 (tV (snd (@vec_propagate_error _ NumF32 m v e))))
      (vscaleR 2 (first_order_vec (gamma3 24) (B2M 24 128 (tM m)) (B2V 24 128 (tV v)) (B2V 24 128 (tV e)))).
Proof. exact f32_M_vec_propagate. Qed.

(** non-vacuity of the guards on the executed instance: scale (2,3,1) then translate (1,-2,4), point (1,2,3), box 1/2:
    inputs binary32-valued, all four reported errors finite; the fast instance returns the same *)
Example C16_prim32_nonvacuous :
  is32M w32_m /\ is32V w32_p /\ is32V w32_e /\
  fin3 24 128 (tV (snd (@pt_with_error _ NumF32 w32_m w32_p))) /\ fin3 24 128 (tV (snd (@vec_with_error _ NumF32 w32_m w32_p))) /\
  fin3 24 128 (tV (snd (@pt_propagate_error _ NumF32 w32_m w32_p w32_e))) /\
  fin3 24 128 (tV (snd (@vec_propagate_error _ NumF32 w32_m w32_p w32_e))) /\
  @pt_with_error _ NumF32fast w32_m w32_p = @pt_with_error _ NumF32 w32_m w32_p.
Proof. exact f32_C16_nonvacuous. Qed.
