(** * C13, part pflat -- surface data at a hit is coherent: get_side, IntersectionInfo::new, triangle, disk (with its
    transform), distant source.  Exact tier. *)
From Coq Require Import ZArith Reals List.
From G3 Require Import Model.Num Model.Base Model.Vec Model.BBox Model.Transform Model.Hit Model.Segment Model.Triangle
  Model.Plane Model.Disk Model.Distant
  Proofs.C06_transform Proofs.Flat_base Proofs.Flat_polar Proofs.Flat_triangle Proofs.Flat_disk Proofs.Flat_distant Proofs.Flat_examples.
Local Open Scope R_scope.

(** ** SurfaceSide::get_side *)
Theorem C13_flat_get_side : forall n d : V,
  (vdot n d < 0 -> get_side n d = (n, Front)) /\ (0 < vdot n d -> get_side n d = (vneg n, Back)) /\
  (vdot n d = 0 -> get_side n d = (mkV3 0 0 0, NonApplicable)).
Proof. exact (fun n d => conj (get_side_front n d) (conj (get_side_back n d) (get_side_na n d))). Qed.
(** hence the reported normal faces the incoming ray ... *)
Theorem C13_flat_normal_faces_ray : forall n d : V, vdot n d <> 0 -> vdot (fst (get_side n d)) d < 0.
Proof. exact get_side_faces. Qed.
(** ... and both normal and side flip when the same surface normal is met by a direction on the other side *)
Theorem C13_flat_side_and_normal_flip : forall n d1 d2 : V, vdot n d1 < 0 -> 0 < vdot n d2 ->
  get_side n d1 = (n, Front) /\ get_side n d2 = (vneg n, Back).
Proof. exact get_side_flips. Qed.

(** ** IntersectionInfo::new: normal parallel to dpdv x dpdu, so perpendicular to both tangents; unit; faces the ray *)
Theorem C13_flat_info_new : forall (ray : Ray R) (p dpdu dpdv : V),
  let c := vcross dpdv dpdu in
  let i := info_new ray p dpdu dpdv in
  vlen2 c <> 0 -> vdot c (rdir ray) <> 0 ->
  ip i = p /\ idpdu i = dpdu /\ idpdv i = dpdv /\
  vdot (inormal i) dpdu = 0 /\ vdot (inormal i) dpdv = 0 /\ vlen2 (inormal i) = 1 /\
  vcross (inormal i) c = mkV3 0 0 0 /\ vdot (inormal i) (rdir ray) < 0 /\
  (iside i = Front <-> vdot c (rdir ray) < 0) /\ (iside i = Back <-> 0 < vdot c (rdir ray)).
Proof. exact info_new_spec. Qed.

(** ** triangle: tangents are the edges b-a and c-a; the normal before get_side is (b-a) x (c-a) normalised (right-hand
    rule), so Front is the side that normal points to; unit, perpendicular to the tangents, facing the ray.
    A hit implies the triangle is not degenerate and the ray is not in its plane. *)
Theorem C13_flat_triangle : forall (t : Tri R) (ray : Ray R) (i : Info R),
  tri_intersect t ray = Some i ->
  (exists tt, ctiny < tt /\ ip i = ray_project ray tt) /\ in_triangle t (ip i) /\
  idpdu i = vsub (tb t) (ta t) /\ idpdv i = vsub (tc t) (ta t) /\
  vlen2 (tri_N t) <> 0 /\ vdot (tri_N t) (rdir ray) <> 0 /\
  vdot (inormal i) (rdir ray) < 0 /\ vlen2 (inormal i) = 1 /\
  vdot (inormal i) (idpdu i) = 0 /\ vdot (inormal i) (idpdv i) = 0 /\
  (vdot (tri_N t) (rdir ray) < 0 -> iside i = Front /\ inormal i = vnormalize (tri_N t)) /\
  (0 < vdot (tri_N t) (rdir ray) -> iside i = Back /\ inormal i = vneg (vnormalize (tri_N t))).
Proof. exact tri_intersect_spec. Qed.
(** the normal cached by Triangle3D::new is that same right-hand-rule normal *)
Theorem C13_flat_triangle_stored_normal : forall (a b c : V) (t : Tri R), tri_new a b c = Ok t ->
  ta t = a /\ tb t = b /\ tc t = c /\ tnormal t = vnormalize (tri_N t).
Proof. exact tri_new_normal. Qed.
Theorem C13_flat_triangle_two_sided : forall (t : Tri R) (r1 r2 : Ray R) (i1 i2 : Info R),
  tri_intersect t r1 = Some i1 -> tri_intersect t r2 = Some i2 ->
  vdot (tri_N t) (rdir r1) < 0 -> 0 < vdot (tri_N t) (rdir r2) ->
  iside i1 = Front /\ iside i2 = Back /\ inormal i2 = vneg (inormal i1).
Proof. exact tri_two_sided. Qed.

(** ** disk (local frame): the normal before get_side is the declared (unit) normal, so Front is the side it points to;
    the tangents lie in the disk's plane *)
Theorem C13_flat_disk : forall (d : Disk R) (ray : Ray R) (i : Info R), disk_wf d ->
  disk_intersect_local_ray d ray = Some i ->
  (exists t, 0 < t /\ ip i = ray_project ray t) /\ on_disk d (ip i) /\
  vdot (dk_normal d) (rdir ray) <> 0 /\
  vdot (inormal i) (rdir ray) < 0 /\ vlen2 (inormal i) = 1 /\
  vdot (inormal i) (idpdu i) = 0 /\ vdot (inormal i) (idpdv i) = 0 /\
  vdot (dk_normal d) (idpdu i) = 0 /\ vdot (dk_normal d) (idpdv i) = 0 /\
  (vdot (dk_normal d) (rdir ray) < 0 -> iside i = Front /\ inormal i = dk_normal d) /\
  (0 < vdot (dk_normal d) (rdir ray) -> iside i = Back /\ inormal i = vneg (dk_normal d)).
Proof. exact disk_local_spec. Qed.
Theorem C13_flat_disk_two_sided : forall (d : Disk R) (r1 r2 : Ray R) (i1 i2 : Info R), disk_wf d ->
  disk_intersect_local_ray d r1 = Some i1 -> disk_intersect_local_ray d r2 = Some i2 ->
  vdot (dk_normal d) (rdir r1) < 0 -> 0 < vdot (dk_normal d) (rdir r2) ->
  iside i1 = Front /\ iside i2 = Back /\ inormal i2 = vneg (inormal i1).
Proof. exact disk_two_sided. Qed.

(** ** hit data carried to world space: (M^-T n).(M t) = n.t,  (M^-T n).d_world = n.d_local,  |M^-T n| = |n| when M is rigid *)
Theorem C13_flat_info_transform : forall (t : T) (i : Info R) (dw : V), Inv t ->
  let i' := info_transform i t in
  ip i' = tr_pt t (ip i) /\ iside i' = iside i /\
  vdot (inormal i') (idpdu i') = vdot (inormal i) (idpdu i) /\
  vdot (inormal i') (idpdv i') = vdot (inormal i) (idpdv i) /\
  vdot (inormal i') dw = vdot (inormal i) (tr_inv_vec t dw) /\
  (rigid t -> vlen2 (inormal i') = vlen2 (inormal i)).
Proof. exact info_transform_spec. Qed.
(** rigidity ([rigid t]: the linear part preserves dot products, i.e. M^T M = I) holds for translations, rotations and their products *)
Theorem C13_flat_rigid_transforms : forall (x y z deg : R) (a b : T),
  rigid tr_new /\ rigid (tr_translate x y z) /\ rigid (tr_rotate_x deg) /\ rigid (tr_rotate_y deg) /\ rigid (tr_rotate_z deg) /\
  (Inv a -> Inv b -> rigid a -> rigid b -> rigid (tr_mul_assign a b)).
Proof.
  exact (fun x y z deg a b => conj rigid_new (conj (rigid_translate x y z) (conj (rigid_rotate_x deg) (conj (rigid_rotate_y deg)
          (conj (rigid_rotate_z deg) (rigid_mul_assign a b)))))).
Qed.
(** the transformed disk: world normal faces the world ray, is perpendicular to the world tangents, unit if rigid;
    Front = the side the transformed declared normal M^-T n points to *)
Theorem C13_flat_disk_transformed : forall (d : Disk R) (t : T) (ray : Ray R) (i : Info R),
  disk_wf d -> dk_transform d = Some t -> Inv t -> disk_intersect d ray = Some i ->
  vdot (inormal i) (rdir ray) < 0 /\ vdot (inormal i) (idpdu i) = 0 /\ vdot (inormal i) (idpdv i) = 0 /\
  (rigid t -> vlen2 (inormal i) = 1) /\
  (vdot (tr_normal t (dk_normal d)) (rdir ray) < 0 -> iside i = Front /\ inormal i = tr_normal t (dk_normal d)) /\
  (0 < vdot (tr_normal t (dk_normal d)) (rdir ray) -> iside i = Back /\ inormal i = vneg (tr_normal t (dk_normal d))).
Proof. exact disk_intersect_tr_data. Qed.

(** ** distant source, per the code: hit data of a proxy disk perpendicular to the (unit) source direction; for a source
    of less than a hemisphere (cos(alpha/2) > 0, tan(alpha/2) > 0) every hit is from the Back, the normal is -direction,
    it faces the ray, and both tangents are perpendicular to the direction *)
Theorem C13_flat_distant : forall (s : Distant R) (ray : Ray R) (i : Info R),
  vlen2 (ds_direction s) = 1 -> 0 < ds_cos_half_alpha s -> 0 < ds_tan_half_alpha s ->
  distant_intersect s ray = Ok (Some i) ->
  ds_cos_half_alpha s <= vdot (vnormalize (rdir ray)) (ds_direction s) /\
  ip i = ray_project ray nmaxf /\
  iside i = Back /\ inormal i = vneg (ds_direction s) /\ vdot (inormal i) (rdir ray) < 0 /\ vlen2 (inormal i) = 1 /\
  vdot (ds_direction s) (idpdu i) = 0 /\ vdot (ds_direction s) (idpdv i) = 0 /\
  vdot (inormal i) (idpdu i) = 0 /\ vdot (inormal i) (idpdv i) = 0.
Proof. exact distant_intersect_spec. Qed.

(** ** non-vacuity *)
Example C13_flat_get_side_nonvacuous :
  get_side (mkV3 0 0 1) (mkV3 0 0 (-1)) = (mkV3 0 0 1, Front) /\ get_side (mkV3 0 0 1) (mkV3 0 0 3) = (mkV3 0 0 (-1), Back).
Proof. exact ex_get_side. Qed.
Example C13_flat_info_new_nonvacuous :
  vlen2 (vcross (mkV3 0 1 0) (mkV3 1 0 0)) <> 0 /\ vdot (vcross (mkV3 0 1 0) (mkV3 1 0 0)) (rdir ex_ray_down) <> 0.
Proof. exact ex_info_new. Qed.
Example C13_flat_triangle_two_sided_nonvacuous : exists i1 i2,
  tri_intersect ex_tri ex_ray_down = Some i1 /\ tri_intersect ex_tri ex_ray_up = Some i2 /\
  vdot (tri_N ex_tri) (rdir ex_ray_down) < 0 /\ 0 < vdot (tri_N ex_tri) (rdir ex_ray_up).
Proof. exact ex_tri_two_sided. Qed.
Example C13_flat_disk_two_sided_nonvacuous : exists i1 i2,
  disk_intersect_local_ray ex_disk ex_ray_down = Some i1 /\ disk_intersect_local_ray ex_disk ex_ray_up = Some i2 /\
  vdot (dk_normal ex_disk) (rdir ex_ray_down) < 0 /\ 0 < vdot (dk_normal ex_disk) (rdir ex_ray_up).
Proof. exact ex_disk_two_sided. Qed.
Example C13_flat_disk_transformed_nonvacuous : exists (d : Disk R) (t : T) (ray : Ray R) (pw : V),
  disk_wf d /\ dk_transform d = Some t /\ Inv t /\ rigid t /\ disk_simple_intersect d ray = Some pw /\ exists i, disk_intersect d ray = Some i.
Proof. exact ex_disk_tr_nonvacuous. Qed.
Example C13_flat_distant_nonvacuous : vlen2 (ds_direction ex_sun) = 1 /\ 0 < ds_cos_half_alpha ex_sun /\ 0 < ds_tan_half_alpha ex_sun /\
  exists i, distant_intersect ex_sun ex_ray_up = Ok (Some i).
Proof. exact ex_sun_hit. Qed.
