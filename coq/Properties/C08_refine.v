(** * C08 (triangulation part) -- [refine] (recursive refinement) and [mesh_polygon] preserve the region.  Real instance.
    Statements only; proofs in Proofs/Mesh_refine_trace.v (the trace; every number instance) and Proofs/Mesh_refine_region.v.

    [refine_trace fuel a m M] lists, in order, the elementary steps a call of [refine] performs with outcome Ok: split_edge at the
    midpoint of the longest edge, restore_delaunay, add_point at the cached circumcentre, the fall-back split_triangle at the cached
    centroid; and [TSwallowed c] where an Err of add_point was swallowed.  [refine_tr] = ([refine], [refine_trace]) -- the erasure
    lemma is definitional.  [tr_ok side M tr] replays the trace and asks [side M_k op_k] of every step on the mesh it is applied to:
      split_edge (midpoint p)   : SEPp M p  (p separated from the current vertices) [+ the ray avoids p, for coverage];
      add_point p               : SEPp M p, p in the plane, located Inside => strictly inside (plane coordinates), located on an
                                  edge => EXACTLY between its end points (tri_test_point only locates up to 100 eps:
                                  C08_located_on_edge_is_not_exact) [+ ray];
      fall-back split_triangle  : SEPp M p, p in the plane, strictly inside the triangle;   restore_delaunay : nothing.
    That the midpoint is exactly on the edge and in the plane is PROVED, not asked.  A swallowed Err left the mesh unchanged
    (Proofs/Mesh_atomic.v: on WF + CNT + LNK meshes split_edge / split_triangle return Ok, or M' = M, or Panic 64).
    [INV M] := WF M /\ CNT M /\ GEO M /\ every vertex in the plane of the orthonormal frame /\ every live triangle positive.
    PROVED: from INV M, if [refine] returns Ok and the trace meets [side]: INV M' (so GEO and positive orientation), the same
    doubled area, the same coverage; the corollary for mesh_polygon takes the invariants of from_polygon's result as hypotheses
    (LNKG of from_polygon's result is not proved: Properties/C08_links.v). *)
From Coq Require Import ZArith Reals List Permutation Floats Lra.
Set Warnings "-inexact-float".
From G3 Require Import Model.Num Model.NumF Model.Base Model.Vec Model.Segment Model.Triangle Model.Loop Model.Polygon Model.Triangulation
  Theory.RInst Theory.Cyclic Theory.Winding
  Proofs.Mesh_base Proofs.Mesh_wf Proofs.Mesh_conf Proofs.Mesh_region Proofs.Mesh_atomic Proofs.Mesh_region_ex
  Proofs.Mesh_links Proofs.Mesh_links_steps Proofs.Mesh_links_region Proofs.Mesh_links_ex
  Proofs.Mesh_refine_trace Proofs.Mesh_refine_region Proofs.Mesh_refine_ex.
From G3 Require Proofs.C05_pointtest.
Import ListNotations.

(** erasure: the instrumented function computes [refine] (any fuel) *)
Theorem C08_refine_trace_erasure : forall (K : Type) (NK : Num K) (fuel : nat) (a m : K) (M : Mesh K),
  fst (refine_tr fuel a m M) = refine fuel a m M /\ snd (refine_tr fuel a m M) = refine_trace fuel a m M.
Proof. intros. split; reflexivity. Qed.
(** a swallowed Err: the mesh is unchanged *)
Theorem C08_add_point_err_unchanged_struct : forall (K : Type) (NK : Num K) (p : V3 K) (M M' : Mesh K) (c : N),
  WF M -> CNT M -> LNK M -> add_point p M = (M', Err c) -> M' = M.
Proof. exact (fun K NK => @add_point_err_struct K NK). Qed.

Theorem C08_refine_region_area : forall (o e1 e2 : V3 R),
  vdot e1 e1 = 1%R -> vdot e2 e2 = 1%R -> vdot e1 e2 = 0%R ->
  forall (fuel : nat) (a m : R) (M M' : Mesh R) (r : rres),
    INV o e1 e2 M -> refine fuel a m M = (M', Ok r) -> tr_ok (side o e1 e2 (fun _ => True)) M (refine_trace fuel a m M) ->
    mesh_area2 o e1 e2 M' = mesh_area2 o e1 e2 M.
Proof. exact refine_area. Qed.
Theorem C08_refine_region_cover : forall (o e1 e2 : V3 R),
  vdot e1 e1 = 1%R -> vdot e2 e2 = 1%R -> vdot e1 e2 = 0%R ->
  forall (d q : P2) (fuel : nat) (a m : R) (M M' : Mesh R) (r : rres),
    INV o e1 e2 M -> refine fuel a m M = (M', Ok r) ->
    tr_ok (side o e1 e2 (fun p => hgt d q (C05_pointtest.plane2 o e1 e2 p) <> 0%R)) M (refine_trace fuel a m M) ->
    mesh_cover o e1 e2 d M' q = mesh_cover o e1 e2 d M q.
Proof. exact refine_cover. Qed.
Theorem C08_refine_orientation : forall (o e1 e2 : V3 R),
  vdot e1 e1 = 1%R -> vdot e2 e2 = 1%R -> vdot e1 e2 = 0%R ->
  forall (fuel : nat) (a m : R) (M M' : Mesh R) (r : rres),
    INV o e1 e2 M -> refine fuel a m M = (M', Ok r) -> tr_ok (side o e1 e2 (fun _ => True)) M (refine_trace fuel a m M) ->
    AllPos o e1 e2 M'.
Proof. intros o e1 e2 A B C fuel a m M M' r HV H Htr. exact (proj2 (proj2 (proj2 (proj2 (refine_INV o e1 e2 A B C fuel a m M M' r HV H Htr))))). Qed.
Theorem C08_refine_geo : forall (o e1 e2 : V3 R),
  vdot e1 e1 = 1%R -> vdot e2 e2 = 1%R -> vdot e1 e2 = 0%R ->
  forall (fuel : nat) (a m : R) (M M' : Mesh R) (r : rres),
    INV o e1 e2 M -> refine fuel a m M = (M', Ok r) -> tr_ok (side o e1 e2 (fun _ => True)) M (refine_trace fuel a m M) ->
    WF M' /\ CNT M' /\ GEO M'.
Proof.
  intros o e1 e2 A B C fuel a m M M' r HV H Htr. destruct (refine_INV o e1 e2 A B C fuel a m M M' r HV H Htr) as (W & Cn & G & _). split; [exact W | split; [exact Cn | exact G]].
Qed.
Theorem C08_mesh_polygon_region : forall (o e1 e2 : V3 R),
  vdot e1 e1 = 1%R -> vdot e2 e2 = 1%R -> vdot e1 e2 = 0%R ->
  forall (fuel : nat) (P : Poly R) (a m : R) (M0 M' : Mesh R) (r : rres),
    from_polygon P = Ok M0 -> INV o e1 e2 M0 -> mesh_polygon fuel P a m = Ok (M', r) ->
    tr_ok (side o e1 e2 (fun _ => True)) M0 (refine_trace fuel a m M0) ->
    INV o e1 e2 M' /\ mesh_area2 o e1 e2 M' = mesh_area2 o e1 e2 M0.
Proof. exact mesh_polygon_region. Qed.

(** non-vacuity: binary64 -- refine of the unit-square mesh returns Ok after a trace of at least 10 elementary steps *)
Example C08_refine_trace_nonvacuous :
  exists M' : Mesh float, refine 50 0.1%float 1.5%float sqM = (M', Ok RDone) /\
    Nat.leb 10 (length (refine_trace 50 0.1%float 1.5%float sqM)) = true /\ Nat.leb 8 (length (live_tris M')) = true.
Proof. exact refine_trace_float_nonvacuous. Qed.
(** reals: a mesh, a frame and parameters for which all the hypotheses hold, with a non-empty trace *)
Example C08_refine_hypotheses_nonvacuous :
  exists (M M' : Mesh R) (o e1 e2 : V3 R) (a m : R) (d q : P2),
    vdot e1 e1 = 1%R /\ vdot e2 e2 = 1%R /\ vdot e1 e2 = 0%R /\ INV o e1 e2 M /\ refine 1 a m M = (M', Ok RDone) /\ refine_trace 1 a m M <> [] /\
    tr_ok (side o e1 e2 (fun p => hgt d q (C05_pointtest.plane2 o e1 e2 p) <> 0%R)) M (refine_trace 1 a m M).
Proof. exact refine_hyp_nonvacuous. Qed.
