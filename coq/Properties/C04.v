(** * C04 -- loops admit exactly planar, non-self-crossing outlines (histories of push/close).
    The structural theorems hold for EVERY number instance of the model (reals, Flocq floats and
    primitive floats alike), by induction over operation lists of any length. *)
From Coq Require Import ZArith List Floats.
From G3 Require Import Model.Num Model.NumF Model.Base Model.Vec Model.Segment Model.Loop Proofs.C04_loop.
Import ListNotations.

(** no sequence of push/close operations -- repeated points included -- panics *)
Theorem C04_no_panic : forall (K : Type) (NK : Num K) (ops : list (lop K)) (L : Loop K) (s : N),
  ~ In (Panic s) (snd (loop_run L ops)).
Proof. exact (fun K NK => @run_no_panic K NK). Qed.

(** a refused push (off-plane, crossing, closed loop, coincident points) leaves the loop unchanged *)
Theorem C04_refused_push_unchanged : forall (K : Type) (NK : Num K) (L : Loop K) (p : V3 K),
  snd (loop_step L (LPush p)) <> Ok tt -> fst (loop_step L (LPush p)) = L.
Proof. exact (fun K NK => @refused_push_unchanged K NK). Qed.
Theorem C04_push_on_closed_refused : forall (K : Type) (NK : Num K) (L : Loop K) (p : V3 K),
  lclosed L = true -> loop_push L p = Err 30%N.
Proof. exact (fun K NK => @push_on_closed_refused K NK). Qed.

(** a push is accepted exactly when: the loop is open, the point is within 1e-7 of the loop's plane
    (once three vertices fix it), the new edge does not properly cross any earlier non-adjacent edge
    (Segment3D::intersect), and the point does not coincide with both of the last two vertices *)
Theorem C04_push_acceptance : forall (K : Type) (NK : Num K) (L : Loop K) (p : V3 K),
  is_ok (loop_push L p) = accepts L p.
Proof. exact (fun K NK => @push_accepts K NK). Qed.

(** a successful close yields a closed loop with at least three vertices.
    PARTIAL here; the rest of the clause ("no vertex collinear with its two neighbours") is now a theorem about every
    reachable closed state, in the library's own reading of collinear: Properties/C04_reach_live.v,
    C04_live_closed_no_collinear_vertex (after the fix of push/close; the defects of the code before it are recorded in
    Properties/C04_reach.v).  The exact-rational oracle checks the geometric reading on every closed state. *)
Theorem C04_closed_invariants_partial : forall (K : Type) (NK : Num K) (L : Loop K),
  snd (loop_close L) = Ok tt -> lclosed (fst (loop_close L)) = true /\ 3 <= llen (fst (loop_close L)).
Proof. exact (fun K NK => @close_ok_invariants K NK). Qed.

(** non-vacuity: the unit square is accepted point by point and closes (binary64 instance) *)
Example C04_nonvacuous :
  let sq := [LPush (mkV3 0 0 0); LPush (mkV3 1 0 0); LPush (mkV3 1 1 0); LPush (mkV3 0 1 0); LClose]%float in
  snd (loop_run loop_new sq) = [Ok tt; Ok tt; Ok tt; Ok tt; Ok tt] /\ llen (fst (loop_run loop_new sq)) = 4.
Proof. vm_compute. split; reflexivity. Qed.

(** the pinned tree (before fix 82fdcad) panicked when the same point was pushed three times *)
Theorem C04_pinned_push_panics :
  exists p : V3 float,
    (do L1 <- loop_push_gen true loop_new p; do L2 <- loop_push_gen true L1 p; loop_push_gen true L2 p) = Panic 20%N.
Proof. exists (mkV3 1 2 3)%float. vm_compute. reflexivity. Qed.
