(** * C08 (triangulation part) -- the LINK GEOMETRY as an invariant: clause (i) ("every interior edge is shared by exactly two
    live triangles that reference each other across that edge") in its geometric form, and what it closes.
    Statements only; proofs in Proofs/Mesh_links.v, Proofs/Mesh_links_steps.v (every number instance), Proofs/Mesh_links_region.v (reals).

    [LNKG M]: for every live slot i and edge e with neighbour index j: j <> i, slot j is live and has an edge e' whose two points
             are EXACTLY (Leibniz) the points of e in the opposite order, and slot j's neighbour across e' is i.
    [DIST M]: the three vertices of every live triangle are distinct.
    [SEP M] : on the vertices of the live triangles Point3D::compare (1e-5) decides equality: no two distinct vertices within the
             tolerance (and no NaN); [SEPp M p]: the same for the vertices together with an inserted point p.
    [GEO M] := LNKG M /\ DIST M /\ SEP M.
    PROVED (every number instance): split_triangle, split_edge, flip_diagonal returning Ok re-establish LNKG and DIST (the new
    vertex set is that of M plus p), hence GEO is kept by them under [SEPp M p] / [SEP M], by restore_delaunay and by add_point;
    on WF + CNT + GEO meshes flip_diagonal is Ok, or leaves the mesh unchanged, or Panic 64 -- Err 102 is excluded
    ([C08_flip_struct], formerly [_partial]).
    PROVED (reals): GEO implies [flip_shared] on every edge and the rotation / neighbour halves of the split_edge hypothesis, so
    the region theorems hold WITHOUT an invariant hypothesis: area and coverage along restore_delaunay ([C08_region_restore_delaunay])
    and along histories of split_edge / split_triangle / flip_diagonal / restore_delaunay / add_point steps returning Ok, from any
    mesh with GEO, with each inserted point separated from the current vertices and -- for edge splits -- exactly on (strictly
    inside) the split edge of the named triangle ([C08_region_history_area], [C08_region_history_cover]); and positive orientation
    (orthonormal frame, mesh and inserted points in its plane; restore_delaunay needs no hypothesis: its flips passed is_convex)
    ([C08_orientation_restore_delaunay], [C08_orientation_history]).
    REMAINS: (1) that the result of from_polygon satisfies LNKG is NOT proved (its links are set by mark_neighbourhouds up to
    Segment3D::compare, and the REVERSED orientation of shared edges is the consistency of ear clipping): LNKG is a hypothesis on
    the starting mesh; (2) [refine] is covered separately, through its trace of elementary steps: Properties/C08_refine.v;
    (3) float instance: nothing geometric (SEP needs Leibniz equality = compare). *)
From Coq Require Import ZArith Reals List Permutation Floats Lra.
Set Warnings "-inexact-float".
From G3 Require Import Model.Num Model.NumF Model.Base Model.Vec Model.Segment Model.Triangle Model.Loop Model.Polygon Model.Triangulation
  Theory.RInst Theory.Cyclic Theory.Winding
  Proofs.Mesh_base Proofs.Mesh_wf Proofs.Mesh_conf Proofs.Mesh_region Proofs.Mesh_atomic Proofs.Mesh_region_ex
  Proofs.Mesh_links Proofs.Mesh_links_steps Proofs.Mesh_links_region Proofs.Mesh_links_ex.
From G3 Require Proofs.C05_pointtest.
Import ListNotations.

(** ** the steps re-establish the link geometry (every number instance) *)
Theorem C08_links_flip_diagonal : forall (K : Type) (NK : Num K) (i : nat) (e : Edge) (M M' : Mesh K),
  LNKG M -> SEP M -> DIST M -> flip_diagonal i e M = (M', Ok tt) ->
  LNKG M' /\ DIST M' /\ (forall x, mesh_vert M' x -> mesh_vert M x).
Proof. exact (fun K NK => @flip_LNKG K NK). Qed.
Theorem C08_links_split_triangle : forall (K : Type) (NK : Num K) (i : nat) (p : V3 K) (M M' : Mesh K),
  LNKG M -> DIST M -> SEPp M p -> split_triangle i p M = (M', Ok tt) ->
  LNKG M' /\ DIST M' /\ (forall x, mesh_vert M' x -> mesh_vert M x \/ x = p).
Proof. exact (fun K NK => @split_triangle_LNKG K NK). Qed.
Theorem C08_links_split_edge : forall (K : Type) (NK : Num K) (i : nat) (e : Edge) (p : V3 K) (M M' : Mesh K),
  LNKG M -> DIST M -> SEPp M p -> split_edge i e p M = (M', Ok tt) ->
  LNKG M' /\ DIST M' /\ (forall x, mesh_vert M' x -> mesh_vert M x \/ x = p).
Proof. exact (fun K NK => @split_edge_LNKG K NK). Qed.
Theorem C08_links_give_live_links : forall (K : Type) (NK : Num K) (M : Mesh K), LNKG M -> LNK M.
Proof. exact (fun K NK => @LNKG_LNK K). Qed.

Theorem C08_geo_flip_diagonal : forall (K : Type) (NK : Num K) (i : nat) (e : Edge) (M M' : Mesh K),
  GEO M -> flip_diagonal i e M = (M', Ok tt) -> GEO M'.
Proof. exact (fun K NK => @flip_GEO K NK). Qed.
Theorem C08_geo_split_triangle : forall (K : Type) (NK : Num K) (i : nat) (p : V3 K) (M M' : Mesh K),
  LNKG M -> DIST M -> SEPp M p -> split_triangle i p M = (M', Ok tt) -> GEO M'.
Proof. exact (fun K NK => @split_triangle_GEO K NK). Qed.
Theorem C08_geo_split_edge : forall (K : Type) (NK : Num K) (i : nat) (e : Edge) (p : V3 K) (M M' : Mesh K),
  LNKG M -> DIST M -> SEPp M p -> split_edge i e p M = (M', Ok tt) -> GEO M'.
Proof. exact (fun K NK => @split_edge_GEO K NK). Qed.
Theorem C08_geo_restore_delaunay : forall (K : Type) (NK : Num K) (m : K) (M M' : Mesh K),
  GEO M -> restore_delaunay m M = (M', Ok tt) -> GEO M'.
Proof. exact (fun K NK => @restore_GEO K NK). Qed.
Theorem C08_geo_add_point : forall (K : Type) (NK : Num K) (p : V3 K) (M M' : Mesh K) (b : bool),
  LNKG M -> DIST M -> SEPp M p -> add_point p M = (M', Ok b) -> GEO M'.
Proof. exact (fun K NK => @add_point_GEO K NK). Qed.

(** formerly [C08_flip_struct_partial]: with the link geometry Err 102 cannot occur *)
Theorem C08_flip_struct : forall (K : Type) (NK : Num K) (i : nat) (e : Edge) (M M' : Mesh K) (r : res unit),
  WF M -> CNT M -> GEO M -> flip_diagonal i e M = (M', r) ->
  (r = Ok tt /\ WF M' /\ CNT M' /\ LNK M') \/ M' = M \/ r = Panic 64%N.
Proof. exact (fun K NK => @flip_struct_geo K NK). Qed.

(** ** the geometric hypotheses of Properties/C08_region.v follow from GEO (reals) *)
Theorem C08_geo_gives_flip_shared : forall (M : Mesh R) (i : nat) (e : Edge), GEO M -> flip_shared M i e.
Proof. exact GEO_flip_shared. Qed.
Theorem C08_geo_gives_split_edge_hypothesis : forall (Q : V3 R -> V3 R -> V3 R -> Prop) (M : Mesh R) (i : nat) (e : Edge) (p : V3 R),
  (forall p a b, Q p a b -> Q p b a) -> GEO M -> edge_hyp Q M i e p -> split_edge_ok Q M i e p.
Proof. exact GEO_split_edge_ok. Qed.

(** ** region: no invariant hypothesis any more (formerly [_partial], relative to [Inv]) *)
Theorem C08_region_flip_diagonal_geo : forall (o e1 e2 : V3 R) (i : nat) (e : Edge) (M M' : Mesh R),
  GEO M -> flip_diagonal i e M = (M', Ok tt) -> GEO M' /\ Same o e1 e2 M M'.
Proof. exact region_flip_geo. Qed.
Theorem C08_region_restore_delaunay : forall (o e1 e2 : V3 R) (m : R) (M M' : Mesh R),
  GEO M -> restore_delaunay m M = (M', Ok tt) -> GEO M' /\ Same o e1 e2 M M'.
Proof. exact region_restore_geo. Qed.
Theorem C08_region_split_edge_geo_area : forall (o e1 e2 : V3 R) (i : nat) (e : Edge) (p : V3 R) (M M' : Mesh R),
  GEO M -> SEPp M p -> edge_hyp on_line M i e p -> split_edge i e p M = (M', Ok tt) ->
  GEO M' /\ mesh_area2 o e1 e2 M' = mesh_area2 o e1 e2 M.
Proof. exact region_split_edge_geo_area. Qed.
Theorem C08_region_split_edge_geo_cover : forall (o e1 e2 : V3 R) (i : nat) (e : Edge) (p : V3 R) (M M' : Mesh R) (d q : P2),
  GEO M -> edge_hyp between M i e p -> hgt d q (C05_pointtest.plane2 o e1 e2 p) <> 0%R -> split_edge i e p M = (M', Ok tt) ->
  mesh_cover o e1 e2 d M' q = mesh_cover o e1 e2 d M q.
Proof. exact region_split_edge_geo_cover. Qed.
(** histories: every step returns Ok; each inserted point is separated from the vertices of the mesh it is inserted in and,
    for an edge split, lies on the line of (strictly inside) the named edge of the named triangle ([run_hyp]) *)
Theorem C08_region_history_area : forall (o e1 e2 : V3 R) (ops : list (mop R)) (M : Mesh R),
  GEO M -> run_hyp on_line (fun _ => True) M ops ->
  GEO (fst (mesh_run M ops)) /\ mesh_area2 o e1 e2 (fst (mesh_run M ops)) = mesh_area2 o e1 e2 M.
Proof. exact region_history_geo_area. Qed.
Theorem C08_region_history_cover : forall (o e1 e2 : V3 R) (d q : P2) (ops : list (mop R)) (M : Mesh R),
  GEO M -> run_hyp between (fun p => hgt d q (C05_pointtest.plane2 o e1 e2 p) <> 0%R) M ops ->
  mesh_cover o e1 e2 d (fst (mesh_run M ops)) q = mesh_cover o e1 e2 d M q.
Proof. exact region_history_geo_cover. Qed.

(** ** orientation: [POS M] := GEO M, every mesh vertex in the plane of the orthonormal frame, every live triangle positive *)
Theorem C08_orientation_restore_delaunay : forall (o e1 e2 : V3 R),
  vdot e1 e1 = 1%R -> vdot e2 e2 = 1%R -> vdot e1 e2 = 0%R ->
  forall (m : R) (M M' : Mesh R), POS o e1 e2 M -> restore_delaunay m M = (M', Ok tt) -> POS o e1 e2 M'.
Proof. exact restore_POS. Qed.
Theorem C08_orientation_history : forall (o e1 e2 : V3 R),
  vdot e1 e1 = 1%R -> vdot e2 e2 = 1%R -> vdot e1 e2 = 0%R ->
  forall (ops : list (mop R)) (M : Mesh R), POS o e1 e2 M -> run_pos o e1 e2 M ops -> POS o e1 e2 (fst (mesh_run M ops)).
Proof. exact history_POS. Qed.

(** ** non-vacuity *)
(** binary64: the hand-built unit-square mesh satisfies LNKG, DIST, SEP (and SEPp for an interior point) *)
Example C08_links_nonvacuous : GEO sqM /\ SEPp sqM (q2 0.6 0.2).
Proof. exact sqM_GEO. Qed.
(** a two-step history on it: flip the diagonal, split a triangle; both return Ok and GEO holds at every stage *)
Example C08_links_two_steps :
  exists M1 M2 : Mesh float, GEO sqM /\ flip_diagonal 0 Ca sqM = (M1, Ok tt) /\ GEO M1 /\ SEPp M1 (q2 0.6 0.2) /\
    split_triangle 0 (q2 0.6 0.2) M1 = (M2, Ok tt) /\ GEO M2 /\ length (live_tris M2) = 4%nat.
Proof. exact links_two_steps. Qed.
(** reals: the hypotheses of the history theorems are satisfiable *)
Example C08_history_hypotheses_nonvacuous :
  exists (M : Mesh R) (ops : list (mop R)) (o e1 e2 : V3 R) (d q : P2),
    GEO M /\ ops <> [] /\ run_hyp between (fun p => hgt d q (C05_pointtest.plane2 o e1 e2 p) <> 0%R) M ops.
Proof. exact history_hyp_nonvacuous. Qed.
