(** * C07 -- interval arithmetic on approximate floats encloses the exact result.
    Float tier: every theorem holds for EVERY binary floating-point format [(prec, emax)]
    (binary64 = (53,1024) and binary32 = (24,128) are instances), for ALL finite well-formed
    operand intervals and ALL reals inside them.  [NumB] is the Flocq instance of the model
    in Model/RoundError.v; the same instance is executed against the crate on every run.
    This file contains only statements closed by [exact]. *)
From Coq Require Import ZArith Reals Floats.SpecFloat.
From Flocq Require Import Core BinarySingleNaN.
From G3 Require Import Model.Num Model.Base Model.RoundError Theory.IntervalSpec Proofs.C07_interval.

Section C07.
  Variable prec emax : Z.
  Context (Hprec : FLX.Prec_gt_0 prec) (Hmax : Prec_lt_emax prec emax).
  Notation bf := (binary_float prec emax).
  Local Instance NB : Num bf := NumB prec emax Hprec Hmax.
  Implicit Types I J : AF bf.
  Implicit Types x y : R.
  Implicit Types f : bf.

  (** a result interval that contains a real is well formed (low <= high, no NaN) *)
  Theorem C07_contains_wf : forall I x, contains I x -> ext_wf I.
  Proof. exact (contains_ext_wf prec emax). Qed.

  Theorem C07_neg : forall I x, wf I -> contains I x -> contains (af_neg I) (- x).
  Proof. exact (af_neg_correct prec emax Hprec Hmax). Qed.

  Theorem C07_add : forall I J x y, wf I -> wf J -> contains I x -> contains J y ->
    contains (af_add I J) (x + y).
  Proof. exact (af_add_correct prec emax Hprec Hmax). Qed.

  Theorem C07_sub : forall I J x y, wf I -> wf J -> contains I x -> contains J y ->
    contains (af_sub I J) (x - y).
  Proof. exact (af_sub_correct prec emax Hprec Hmax). Qed.

  Theorem C07_mul : forall I J x y, wf I -> wf J -> contains I x -> contains J y ->
    contains (af_mul I J) (x * y).
  Proof. exact (af_mul_correct prec emax Hprec Hmax). Qed.

  Theorem C07_div : forall I J x y, wf I -> wf J -> no_zero J -> contains I x -> contains J y ->
    contains (af_div I J) (x / y).
  Proof. exact (af_div_correct prec emax Hprec Hmax). Qed.

  Theorem C07_sqrt : forall I x, wf I -> (0 <= B2R (low I))%R -> contains I x ->
    contains (af_sqrt I) (sqrt x).
  Proof. exact (af_sqrt_correct prec emax Hprec Hmax). Qed.

  (** scalar right-hand sides *)
  Theorem C07_add_f : forall I f x, wf I -> is_finite f = true -> contains I x ->
    contains (af_add_f I f) (x + B2R f).
  Proof. exact (af_add_f_correct prec emax Hprec Hmax). Qed.
  Theorem C07_sub_f : forall I f x, wf I -> is_finite f = true -> contains I x ->
    contains (af_sub_f I f) (x - B2R f).
  Proof. exact (af_sub_f_correct prec emax Hprec Hmax). Qed.
  Theorem C07_mul_f : forall I f x, wf I -> is_finite f = true -> contains I x ->
    contains (af_mul_f I f) (x * B2R f).
  Proof. exact (af_mul_f_correct prec emax Hprec Hmax). Qed.
  Theorem C07_div_f : forall I f x, wf I -> is_finite f = true -> B2R f <> 0%R -> contains I x ->
    contains (af_div_f I f) (x / B2R f).
  Proof. exact (af_div_f_correct prec emax Hprec Hmax). Qed.

  (** in-place forms (the model of [a op= b] returns the new value of [a]) *)
  Theorem C07_add_assign : forall I J x y, wf I -> wf J -> contains I x -> contains J y ->
    contains (af_add_assign I J) (x + y).
  Proof. exact (af_add_correct prec emax Hprec Hmax). Qed.
  Theorem C07_sub_assign : forall I J x y, wf I -> wf J -> contains I x -> contains J y ->
    contains (af_sub_assign I J) (x - y).
  Proof. exact (af_sub_correct prec emax Hprec Hmax). Qed.
  Theorem C07_mul_assign : forall I J x y, wf I -> wf J -> contains I x -> contains J y ->
    contains (af_mul_assign I J) (x * y).
  Proof. exact (af_mul_assign_correct prec emax Hprec Hmax). Qed.
  Theorem C07_div_assign : forall I J x y, wf I -> wf J -> no_zero J -> contains I x -> contains J y ->
    contains (af_div_assign I J) (x / y).
  Proof. exact (af_div_assign_correct prec emax Hprec Hmax). Qed.
  Theorem C07_add_assign_f : forall I f x, wf I -> is_finite f = true -> contains I x ->
    contains (af_add_assign_f I f) (x + B2R f).
  Proof. exact (af_add_f_correct prec emax Hprec Hmax). Qed.
  Theorem C07_sub_assign_f : forall I f x, wf I -> is_finite f = true -> contains I x ->
    contains (af_sub_assign_f I f) (x - B2R f).
  Proof. exact (af_sub_f_correct prec emax Hprec Hmax). Qed.
  Theorem C07_mul_assign_f : forall I f x, wf I -> is_finite f = true -> contains I x ->
    contains (af_mul_assign_f I f) (x * B2R f).
  Proof. exact (af_mul_assign_f_correct prec emax Hprec Hmax). Qed.
  Theorem C07_div_assign_f : forall I f x, wf I -> is_finite f = true -> B2R f <> 0%R -> contains I x ->
    contains (af_div_assign_f I f) (x / B2R f).
  Proof. exact (af_div_assign_f_correct prec emax Hprec Hmax). Qed.
End C07.

(** non-vacuity: a concrete binary64 interval meets the hypotheses *)
Example C07_nonvacuous :
  let one := B64ofSF (S754_finite false 4503599627370496 (-52)) in
  let two := B64ofSF (S754_finite false 4503599627370496 (-51)) in
  wf (mkAF one two) /\ contains (mkAF one two) 1.5%R /\ no_zero (mkAF one two).
Proof. exact C07_nonvacuous_proof. Qed.

(** the pinned tree (before fix d71c7af) violated the property: machine-checked witnesses *)
Theorem C07_pinned_neg_refuted : exists I : AF b64, wf I /\ ~ ext_wf (Pinned.af_neg_pinned I).
Proof. exact pinned_neg_refuted. Qed.
Theorem C07_pinned_sub_refuted :
  exists (I J : AF b64) (x y : R), wf I /\ wf J /\ contains I x /\ contains J y /\ ~ contains (Pinned.af_sub_pinned I J) (x - y).
Proof. exact pinned_sub_refuted. Qed.
Theorem C07_pinned_mul_f_refuted :
  exists (I : AF b64) (f : b64) (x : R), wf I /\ is_finite f = true /\ contains I x /\ ~ contains (Pinned.af_mul_f_pinned I f) (x * B2R f).
Proof. exact pinned_mul_f_refuted. Qed.
(** a further defect found while proving the in-place forms (before fix 9777db4):
    next_float_down(+0.0) = +0.0 lost a product that underflowed to -0 *)
Theorem C07_pinned_mul_assign_refuted :
  exists (I J : AF b64) (x y : R), wf I /\ wf J /\ contains I x /\ contains J y /\
    ~ contains (Pinned.af_mul_assign_pinned 53 1024 Hprec53 Hmax1024 I J) (x * y).
Proof. exact pinned_mul_assign_refuted. Qed.
