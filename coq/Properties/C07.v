From Coq Require Import ZArith.
Theorem C07_placeholder : True. Proof. exact I. Qed.
