(** * C06 -- transforms and their inverses stay consistent under composition (exact tier, reals).
    [Inv t]: matrix . stored inverse = stored inverse . matrix = identity and both are affine.
    Statements only, each closed by [exact]. *)
From Coq Require Import ZArith Reals List.
From G3 Require Import Model.Num Model.Base Model.Vec Model.BBox Model.Transform Model.Pinned Proofs.C06_transform.
Import ListNotations.
Local Open Scope R_scope.

(** every chain (any length) of elementary transforms with non-zero scale factors keeps the invariant *)
Theorem C06_chain_invariant : forall l : list elem, Forall elem_ok l -> Inv (chain (map elem_tr l)).
Proof. exact Inv_elem_chain. Qed.
Theorem C06_mul_assign_invariant : forall a b : T, Inv a -> Inv b -> Inv (tr_mul_assign a b).
Proof. exact Inv_mul_assign. Qed.

(** round trips *)
Theorem C06_point_round_trip : forall (t : T) (p : V), Inv t -> tr_inv_pt t (tr_pt t p) = p /\ tr_pt t (tr_inv_pt t p) = p.
Proof. exact (fun t p H => conj (inv_pt_pt t p H) (pt_inv_pt t p H)). Qed.
Theorem C06_vector_round_trip : forall (t : T) (v : V), Inv t -> tr_inv_vec t (tr_vec t v) = v /\ tr_vec t (tr_inv_vec t v) = v.
Proof. exact (fun t p H => conj (inv_vec_vec t p H) (vec_inv_vec t p H)). Qed.
Theorem C06_normal_round_trip : forall (t : T) (n : V), Inv t -> tr_inv_normal t (tr_normal t n) = n /\ tr_normal t (tr_inv_normal t n) = n.
Proof. exact (fun t p H => conj (inv_normal_normal t p H) (normal_inv_normal t p H)). Qed.
(** a ray comes back with the same direction, its origin on the same line, moved forward by the documented nudge *)
Theorem C06_ray_round_trip : forall (t : T) (r : Ray R), Inv t ->
  let '(r1, _, _) := tr_ray t r in
  let '(r2, _, _) := tr_inv_ray t r1 in
  rdir r2 = rdir r /\ exists dt, 0 <= dt /\ rorigin r2 = vadd (rorigin r) (vscale (rdir r) dt).
Proof. exact ray_round_trip. Qed.

(** composing A with B acts as "apply B, then A" -- also for the stored inverse and along whole chains *)
Theorem C06_composition_order : forall (a b : T) (p v : V), Inv a -> Inv b ->
  tr_pt (tr_mul_assign a b) p = tr_pt a (tr_pt b p) /\
  tr_vec (tr_mul_assign a b) v = tr_vec a (tr_vec b v) /\
  tr_inv_pt (tr_mul_assign a b) p = tr_inv_pt b (tr_inv_pt a p).
Proof. exact (fun a b p v Ha Hb => conj (mul_assign_acts_pt a b p Ha Hb) (conj (mul_assign_acts_vec a b v Ha Hb) (mul_assign_acts_inv_pt a b p Ha Hb))). Qed.
Theorem C06_chain_acts : forall (l : list T) (p : V), Forall Inv l -> tr_pt (chain l) p = act l p.
Proof. exact chain_acts. Qed.

(** rotations: rigid (dot products preserved), counter-clockwise for positive angles, axis fixed *)
Theorem C06_rotations_rigid : forall (d : R) (u v : V),
  vdot (tr_vec (tr_rotate_x d) u) (tr_vec (tr_rotate_x d) v) = vdot u v /\
  vdot (tr_vec (tr_rotate_y d) u) (tr_vec (tr_rotate_y d) v) = vdot u v /\
  vdot (tr_vec (tr_rotate_z d) u) (tr_vec (tr_rotate_z d) v) = vdot u v.
Proof. exact rotations_rigid. Qed.
Theorem C06_rotations_ccw : forall d : R, let r := to_radians d in
  tr_vec (tr_rotate_x d) (mkV3 0 1 0) = mkV3 0 (cos r) (sin r) /\
  tr_vec (tr_rotate_y d) (mkV3 0 0 1) = mkV3 (sin r) 0 (cos r) /\
  tr_vec (tr_rotate_z d) (mkV3 1 0 0) = mkV3 (cos r) (sin r) 0.
Proof. exact rotations_ccw. Qed.

(** handedness: reported exactly when the determinant of the linear part is negative;
    it composes like a sign; a scaling mirrors iff the product of its factors is negative *)
Theorem C06_changes_hands_iff_det_negative : forall t : T, tr_changes_hands t = true <-> det3 (elements t) < 0.
Proof. exact changes_hands_spec. Qed.
Theorem C06_changes_hands_composes : forall a b : T, Inv a -> Inv b ->
  tr_changes_hands (tr_mul_assign a b) = xorb (tr_changes_hands a) (tr_changes_hands b).
Proof. exact (fun a b Ha Hb => changes_hands_mul a b Ha Hb (Inv_det_nonzero a Ha) (Inv_det_nonzero b Hb)). Qed.
Theorem C06_scale_mirrors : forall x y z : R, tr_changes_hands (tr_scale x y z) = true <-> x * y * z < 0.
Proof. exact scale_mirrors. Qed.
Theorem C06_rigid_motions_keep_hands : forall (x y z d : R),
  tr_changes_hands (tr_translate x y z) = false /\ tr_changes_hands (tr_rotate_x d) = false /\
  tr_changes_hands (tr_rotate_y d) = false /\ tr_changes_hands (tr_rotate_z d) = false.
Proof. exact rigid_keep_hands. Qed.

(** a normal transformed alongside a surface stays perpendicular to it: (M^-T n).(M v) = n.v *)
Theorem C06_normal_stays_perpendicular : forall (t : T) (n v : V), Inv t -> vdot (tr_normal t n) (tr_vec t v) = vdot n v.
Proof. exact normal_dot_vec. Qed.

(** non-vacuity *)
Example C06_nonvacuous : Forall elem_ok [ETranslate 1 2 3; EScale 2 (-1) (1/2); ERotZ 90].
Proof. exact C06_nonvacuous_proof. Qed.

(** the pinned tree (before fix e164302) broke the invariant at the first composition *)
Theorem C06_pinned_mul_assign_refuted :
  exists a b : T, Inv a /\ Inv b /\ ~ Inv (tr_mul_assign_pinned a b).
Proof. exact pinned_mul_assign_breaks_Inv. Qed.
