(** * C01 (triangulation part) -- triangulation tiles the polygon exactly: the STRUCTURAL facts.
    Statements only; proofs in Proofs/Mesh_fp.v.  Every number instance.

    The geometric half of C01 (signed areas, winding numbers, "no overlap / nothing outside") is NOT attempted
    here; it is to be added on top of Theory/Winding.v and Theory/Shoelace.v.  On every run the exact-rational
    oracle (lib/pmesh.py) checks it on the implementation's outputs: plane, orientation, area sum, coverage of
    sampled points by exact winding numbers.

    Lemma shapes needed from the theory library (all for [L] = the closed merged outline, [q] a generic point of
    the plane, 2-D coordinates after dropping the dominant axis of the normal):
    - Shoelace.ear:      S (l1 ++ v0 :: v1 :: v2 :: l2) = S (l1 ++ v0 :: v2 :: l2) + orient2 v0 v1 v2
                          (removing a vertex changes the doubled signed area by the ear's doubled signed area);
    - Shoelace.collinear: orient2 v0 v1 v2 = 0 -> S is unchanged by removing v1 (the vertices [sanitize] drops; with
                          the code's tolerance |cross| < 1e-5 this is an inequality |dS| <= 1e-5 per dropped vertex:
                          see finding C01:area-sum:collinear-tolerance);
    - Winding.ear:       wn (.. v0 v1 v2 ..) q = wn (.. v0 v2 ..) q + sign (orient2 v0 v1 v2) * [q strictly in v0 v1 v2]
                          for q on none of the lines involved;
    - Winding.two:       wn [a; b] q = 0 (the exit [n == 2]);
    - the reduction      (forall T in tris M, orient2 T > 0) -> #{T | q in T} = wn L q
      by induction over [fp_loop] with the invariant
        signed_area L0 = signed_area L_current + sum (orient2 T) over pushed T   (up to the sanitize drops)
        wn L0 q        = wn L_current q + sum (sgn T * [q in T]) over pushed T.
    The structural theorems below provide exactly the bookkeeping these inductions need: which triangles are
    pushed (consecutive loop vertices), that nothing else changes the triangle list, and the counting.

    FALSE for the faithful model (and the crate), witnesses in Proofs/Mesh_witness.v:
    - "the number of triangles is |L| - 2" holds for sanitize-stable runs only: the periodic [sanitize] may drop a
      vertex that has become collinear without producing a triangle (the former witness now yields |L| - 2:
      [C01_ntriangles_w2_now_exact]); the tiling is unaffected (the dropped vertex lies on the chord) but the mesh
      has a T-junction there;
    - (pinned tree, repaired by fix 4bb2ed8) "is_diagonal implies the ear is positively oriented": an ear was clipped
      at a REFLEX vertex when the chord v0-v2 happened to be an interior diagonal on the other side -- at the bridge
      vertex of a merged hole.  from_polygon now tests convexity and emptiness of the corner; regression witness
      [C01_orientation_w1_now_ok]; that every clipped ear is positively oriented is now a THEOREM (Properties/C01_tiling.v). *)
From Coq Require Import ZArith List Floats.
Set Warnings "-inexact-float".
From G3 Require Import Model.Num Model.NumF Model.Base Model.Vec Model.Segment Model.Triangle Model.Loop Model.Polygon Model.Triangulation
  Proofs.Mesh_fp Proofs.Mesh_witness.
Import ListNotations.

(** on Ok: at most |L| - 2 triangles for the closed merged outline L (one per clipped vertex), and at most 1000 *)
Theorem C01_ntriangles_partial : forall (K : Type) (NK : Num K) (P : Poly K) (M : Mesh K),
  from_polygon P = Ok M ->
  exists Lm : Loop K, poly_get_closed_loop P = Ok Lm /\ snd (loop_close Lm) = Ok tt /\
    length (tris M) + 2 <= llen (fst (loop_close Lm)).
Proof.
  intros K NK P M H. destruct (from_polygon_structure P M H) as (Lm & H1 & H2 & H3 & _). exists Lm. repeat split; assumption.
Qed.

(** on Ok: every triangle's vertices are vertices of L (so they lie in the polygon's plane as far as L does) *)
Theorem C01_vertices_from_loop : forall (K : Type) (NK : Num K) (P : Poly K) (M : Mesh K),
  from_polygon P = Ok M ->
  exists Lm : Loop K, poly_get_closed_loop P = Ok Lm /\
    Forall (fun t => In (ta (tp_tri t)) (verts (fst (loop_close Lm))) /\ In (tb (tp_tri t)) (verts (fst (loop_close Lm))) /\
                     In (tc (tp_tri t)) (verts (fst (loop_close Lm)))) (tris M).
Proof.
  intros K NK P M H. destruct (from_polygon_structure P M H) as (Lm & H1 & H2 & H3 & H4 & _). exists Lm. split; assumption.
Qed.

(** the 8-vertex outline that produced 5 triangles (sanitize dropped a vertex that had become collinear) with the
    pinned ear test now produces |L| - 2 = 6; the equality in general: [C01_ntriangles_stable] (Properties/C01_tiling.v) *)
Theorem C01_ntriangles_w2_now_exact :
  exists (P : Poly float) (M : Mesh float) (Lm : Loop float), from_polygon P = Ok M /\ poly_get_closed_loop P = Ok Lm /\
    snd (loop_close Lm) = Ok tt /\ llen (fst (loop_close Lm)) = 8 /\ length (tris M) = 6.
Proof. destruct w2_triangle_count as (M & Lm & H). exists w2_poly, M, Lm. exact H. Qed.

(** regression witness of fix 4bb2ed8: the unit square with a triangular hole, whose triangulation used to contain a
    triangle opposite to the polygon's normal (covering the hole), now gives 7 = |L| - 2 triangles, none reversed *)
Theorem C01_orientation_w1_now_ok :
  exists (P : Poly float) (M : Mesh float), from_polygon P = Ok M /\ length (pinner P) = 1 /\ length (tris M) = 7 /\
    existsb (fun t => PrimFloat.ltb (vdot (tnormal (tp_tri t)) (pnormal P)) 0%float) (tris M) = false.
Proof. destruct w1_now_positive as (M & H1 & H2 & H3 & H4). exists w1_poly, M. repeat split; assumption. Qed.

(** non-vacuity: the unit square gives 2 = 4 - 2 triangles *)
Example C01_nonvacuous : exists M, from_polygon w4_poly = Ok M /\ length (tris M) = 2 /\ nvalid M = 2.
Proof. exact w_square_ok. Qed.
