(** * C14 on the f32 build -- the float-tier theorems of Properties/C14.v at binary32, restated for what is EXECUTED.
    The f32 build is tied to [NumF32] (executed as [NumF32fast], proved equal): primitive binary64 floats holding binary32
    values, every operation rounded to binary32.  [C14_prim32_run_is_flocq_run]: on binary32-valued inputs ([is32B b],
    [is32R r], [is32V i]: every coordinate [x] satisfies [r32 x = x]) the executed run returns, answer AND path tag, what
    the Flocq binary32 run returns on the [to_b32]-images ([tB tR tV]); equivalently, on embedded binary32 inputs
    ([oB oR oV] = [of_b32] mapped) it is the Flocq run ([C14_prim32_embedded_run_is_flocq_run]).  This rests on
    [Theory/F32Bridge.v]: double rounding through binary64 is innocuous (Properties/C07_prim32.v).
    Thm 2 (the recorded classes of lost rays) and Thm 3 (completeness with the margin [1 + 2u], [u = 2^-24]; the
    counterpart of [C14_float_complete_binary32]) follow for the executed instance.  Statements only. *)
From Coq Require Import ZArith Reals Bool Floats.
From Flocq Require Import Core BinarySingleNaN.
From G3 Require Import Model.Num Model.NumF Model.NumF32 Model.Base Model.Vec Model.BBox Run.FastNum32.
From G3 Require Import Theory.PrimBridge Theory.F32Bridge Proofs.Bridge32_model.
From G3 Require Import Proofs.C14_real Proofs.C14_special Proofs.C14_float Proofs.C14_margin Proofs.Bridge_C14 Proofs.Bridge32_C14.
Local Open Scope R_scope.

(** ** the bridge *)
Theorem C14_prim32_run_is_flocq_run : forall (b : BBox prim) (r : Ray prim) (i : V3 prim),
  is32B b -> is32R r -> is32V i ->
  @bbox_intersect_tag _ NumF32 b r i = @bbox_intersect_tag _ NumB32 (tB b) (tR r) (tV i) /\
  @bbox_intersect _ NumF32 b r i = @bbox_intersect _ NumB32 (tB b) (tR r) (tV i).
Proof. exact (fun b r i Hb Hr Hi => conj (f32_bbox_intersect_tag_is32 b r i Hb Hr Hi) (f32_bbox_intersect_is32 b r i Hb Hr Hi)). Qed.

Theorem C14_prim32_embedded_run_is_flocq_run : forall (b : BBox b32) (r : Ray b32) (i : V3 b32),
  @bbox_intersect_tag _ NumF32 (oB b) (oR r) (oV i) = @bbox_intersect_tag _ NumB32 b r i /\
  @bbox_intersect _ NumF32 (oB b) (oR r) (oV i) = @bbox_intersect _ NumB32 b r i /\
  @bbox_intersect_tag _ NumF32fast (oB b) (oR r) (oV i) = @bbox_intersect_tag _ NumB32 b r i.
Proof.
  exact (fun b r i => conj (f32_bbox_intersect_tag b r i) (conj (f32_bbox_intersect b r i)
    (eq_ind_r (fun N => @bbox_intersect_tag _ N (oB b) (oR r) (oV i) = @bbox_intersect_tag _ NumB32 b r i)
       (f32_bbox_intersect_tag b r i) f32_executed_instance))).
Qed.

(** the corner normalisation of [BBox3D::new] and the caller's reciprocal direction [1.0 / d] commute as well *)
Theorem C14_prim32_box_and_reciprocal : forall (a c d : V3 b32),
  @bbox_new _ NumF32 (oV a) (oV c) = oB (@bbox_new _ NumB32 a c) /\
  @inv_dirN _ NumF32 (oV d) = oV (inv_dirB 24 128 Hprec24 Hmax128 d).
Proof. exact (fun a c d => conj (f32_bbox_new a c) (f32_inv_dir d)). Qed.

(** ** Thm 2 on the executed f32 instance: the two recorded classes of lost rays *)
Theorem C14_prim32_known_class_is_lost : forall (b : BBox prim) (r : Ray prim), is32B b -> is32R r ->
  fin3 24 128 (bmin (tB b)) -> fin3 24 128 (bmax (tB b)) -> fin3 24 128 (rorigin (tR r)) ->
  @known_x_slab_nanN _ NumF32 b r = true ->
  @bbox_intersect _ NumF32 b r (@inv_dirN _ NumF32 (rdir r)) = false.
Proof. exact f32_known_class_is_lost. Qed.

Theorem C14_prim32_neg_zero_face_loses_the_ray : forall (b : BBox prim) (r : Ray prim), is32B b -> is32R r ->
  fin3 24 128 (bmin (tB b)) -> fin3 24 128 (bmax (tB b)) -> fin3 24 128 (rorigin (tR r)) ->
  B2R (vy (bmin (tB b))) <= B2R (vy (bmax (tB b))) -> B2R (vz (bmin (tB b))) <= B2R (vz (bmax (tB b))) ->
  known_neg_zero_face 24 128 Hprec24 Hmax128 (tB b) (tR r) = true ->
  @bbox_intersect _ NumF32 b r (@inv_dirN _ NumF32 (rdir r)) = false.
Proof. exact f32_neg_zero_face_loses_the_ray. Qed.

(** ** Thm 3 on the executed f32 instance: completeness with the relative margin [1 + 2u], [u = 2^-24], on the EXACT
    slab parameters of the real box and ray.  The format conditions are those of binary32 and are discharged. *)
Theorem C14_prim32_float_complete_margin : forall (b : BBox prim) (r : Ray prim) (i : V3 prim),
  is32B b -> is32R r -> is32V i ->
  side 24 128 Hprec24 Hmax128 (tB b) (tR r) (tV i) -> clear_by 24 2 (boxR 24 128 (tB b)) (rayR 24 128 (tR r)) ->
  @bbox_intersect _ NumF32 b r i = true.
Proof. exact f32_float_complete_margin. Qed.

Theorem C14_prim32_margin_side_conditions_checked : forall (b : BBox prim) (r : Ray prim), is32R r ->
  margin_okb 24 128 Hprec24 Hmax128 (tB b) (tR r) = true ->
  side 24 128 Hprec24 Hmax128 (tB b) (tR r) (tV (@inv_dirN _ NumF32 (rdir r))).
Proof. exact f32_margin_side_conditions_checked. Qed.

(** [C14_float_complete_binary32] for what the f32 runner executes *)
Theorem C14_prim32_float_complete_binary32 : forall (b : BBox prim) (r : Ray prim), is32B b -> is32R r ->
  margin_okb 24 128 Hprec24 Hmax128 (tB b) (tR r) = true -> clear_by 24 2 (boxR 24 128 (tB b)) (rayR 24 128 (tR r)) ->
  @bbox_intersect _ NumF32 b r (@inv_dirN _ NumF32 (rdir r)) = true.
Proof. exact f32_float_complete_binary32. Qed.

Theorem C14_prim32_float_complete_binary32_fast : forall (b : BBox prim) (r : Ray prim), is32B b -> is32R r ->
  margin_okb 24 128 Hprec24 Hmax128 (tB b) (tR r) = true -> clear_by 24 2 (boxR 24 128 (tB b)) (rayR 24 128 (tR r)) ->
  @bbox_intersect _ NumF32fast b r (@inv_dirN _ NumF32fast (rdir r)) = true.
Proof. exact f32fast_float_complete_binary32. Qed.

(** non-vacuity: unit cube, origin (-1, 1/4, 1/2), direction (3, 1/2, -1/4) as primitive floats (binary32-valued): the
    side conditions hold by evaluation, the exact parameters have the margin, and the executed run answers [true] *)
Example C14_prim32_margin_nonvacuous :
  (is32B m32_box /\ is32R m32_ray) /\
  margin_okb 24 128 Hprec24 Hmax128 (tB m32_box) (tR m32_ray) = true /\
  clear_by 24 2 (boxR 24 128 (tB m32_box)) (rayR 24 128 (tR m32_ray)) /\
  @bbox_intersect _ NumF32 m32_box m32_ray (@inv_dirN _ NumF32 (rdir m32_ray)) = true /\
  @bbox_intersect _ NumF32fast m32_box m32_ray (@inv_dirN _ NumF32fast (rdir m32_ray)) = true.
Proof. exact f32_margin_nonvacuous. Qed.
