(** * C14 on primitive floats -- the float-tier theorems of Properties/C14.v restated for what is EXECUTED.
    Properties/C14.v Thm 2 / Thm 3 are about [NumB prec emax] (Flocq binary floats, every format); the correspondence
    check (Run/C14.v) runs [bbox_new] / [bbox_intersect_tag] on [NumF] (Coq's primitive binary64 floats) against the f64
    build.  [C14_prim_run_is_flocq_run] closes the gap: the primitive-float run returns, bit for bit, what the
    Flocq binary64 run returns on the [P2B]-images ([P2B = Flocq.IEEE754.PrimFloat.Prim2B], injective, [B2SF (P2B x) =
    Prim2SF x]) -- answer AND path tag.  The theorems below are the binary64 instances of Thm 2 / Thm 3 read through it:
    quantified over primitive floats, [FR x = B2R (P2B x)] the real value of [x], [Ffin x] its finiteness
    ([= PrimFloat.is_finite x], [C14_prim_finite_is_primitive]), [boxRF b], [rayRF r] the real box and ray,
    [inv_dirN d = 1.0 / d] component-wise (the caller's reciprocal), [pB pR pV] = [P2B] mapped over box, ray, vector.
    Axioms: the primitive float / integer specifications (FloatAxioms, Uint63Axioms; these are what links [float] to
    [spec_float]) besides the classical reals of the Flocq theorems.
    Statements only, each closed by [exact]. *)
From Coq Require Import ZArith Reals Bool Floats.
From Flocq Require Import Core BinarySingleNaN.
From G3 Require Import Model.Num Model.NumF Model.Base Model.Vec Model.BBox Theory.PrimBridge.
From G3 Require Import Proofs.C14_real Proofs.C14_special Proofs.C14_float Proofs.C14_margin Proofs.Bridge_C14.
Local Open Scope R_scope.

(** ** the bridge *)
Theorem C14_prim_run_is_flocq_run : forall (b : BBox prim) (r : Ray prim) (i : V3 prim),
  @bbox_intersect_tag _ NumF b r i = @bbox_intersect_tag _ NumB64 (pB b) (pR r) (pV i) /\
  @bbox_intersect _ NumF b r i = @bbox_intersect _ NumB64 (pB b) (pR r) (pV i).
Proof. exact (fun b r i => conj (prim_bbox_intersect_tag b r i) (prim_bbox_intersect b r i)). Qed.

(** the corner normalisation of [BBox3D::new] and the reciprocal direction commute with [P2B] as well *)
Theorem C14_prim_box_and_reciprocal : forall (a c d : V3 prim),
  pB (@bbox_new _ NumF a c) = @bbox_new _ NumB64 (pV a) (pV c) /\ pV (@inv_dirN _ NumF d) = inv64 (pV d).
Proof. exact (fun a c d => conj (prim_bbox_new a c) (prim_inv_dir d)). Qed.

Theorem C14_prim_finite_is_primitive : forall x : prim, Ffin x <-> PrimFloat.is_finite x = true.
Proof. exact Ffin_prim. Qed.

(** ** Thm 2 on primitive floats: the two recorded classes of lost rays, and the rejected ones *)
Theorem C14_prim_x_slab_nan_loses_the_ray : forall (b : BBox prim) (r : Ray prim) (i : V3 prim) (s : bool),
  P2B (vx i) = B754_infinity s -> Ffin (vx (rorigin r)) ->
  (Ffin (vx (bmin b)) /\ FR (vx (rorigin r)) = FR (vx (bmin b))) \/
  (Ffin (vx (bmax b)) /\ FR (vx (rorigin r)) = FR (vx (bmax b))) ->
  @bbox_intersect _ NumF b r i = false.
Proof. exact prim_x_slab_nan_loses_the_ray. Qed.

(** the class as a predicate evaluated ON PRIMITIVE FLOATS ([known_x_slab_nanN]: the text of [known_x_slab_nan]) *)
Theorem C14_prim_known_class_is_lost : forall (b : BBox prim) (r : Ray prim),
  Ffin3 (bmin b) -> Ffin3 (bmax b) -> Ffin3 (rorigin r) ->
  @known_x_slab_nanN _ NumF b r = true ->
  @bbox_intersect _ NumF b r (inv_dirN (rdir r)) = false.
Proof. exact prim_known_class_is_lost. Qed.

Theorem C14_prim_neg_zero_face_loses_the_ray : forall (b : BBox prim) (r : Ray prim),
  Ffin3 (bmin b) -> Ffin3 (bmax b) -> Ffin3 (rorigin r) ->
  FR (vy (bmin b)) <= FR (vy (bmax b)) -> FR (vz (bmin b)) <= FR (vz (bmax b)) ->
  known_neg_zero_face 53 1024 Hprec53 Hmax1024 (pB b) (pR r) = true ->
  @bbox_intersect _ NumF b r (inv_dirN (rdir r)) = false.
Proof. exact prim_neg_zero_face_loses_the_ray. Qed.

Theorem C14_prim_zero_component_outside_slab_is_rejected : forall (b : BBox prim) (r : Ray prim) (i : V3 prim) (s : bool),
  (P2B (vx i) = B754_infinity s -> Ffin (vx (rorigin r)) -> Ffin (vx (bmin b)) -> Ffin (vx (bmax b)) ->
   FR (vx (bmin b)) <= FR (vx (bmax b)) ->
   FR (vx (rorigin r)) < FR (vx (bmin b)) \/ FR (vx (bmax b)) < FR (vx (rorigin r)) -> @bbox_intersect _ NumF b r i = false) /\
  (P2B (vy i) = B754_infinity s -> Ffin (vy (rorigin r)) -> Ffin (vy (bmin b)) -> Ffin (vy (bmax b)) ->
   FR (vy (bmin b)) <= FR (vy (bmax b)) ->
   FR (vy (rorigin r)) < FR (vy (bmin b)) \/ FR (vy (bmax b)) < FR (vy (rorigin r)) -> @bbox_intersect _ NumF b r i = false) /\
  (P2B (vz i) = B754_infinity s -> Ffin (vz (rorigin r)) -> Ffin (vz (bmin b)) -> Ffin (vz (bmax b)) ->
   FR (vz (bmin b)) <= FR (vz (bmax b)) ->
   FR (vz (rorigin r)) < FR (vz (bmin b)) \/ FR (vz (bmax b)) < FR (vz (rorigin r)) -> @bbox_intersect _ NumF b r i = false).
Proof. exact prim_zero_component_outside_slab_is_rejected. Qed.

(** the witnesses of both classes, evaluated on the hardware instance: the point at t = 1.5 is inside the box, the
    answer is [false] *)
Theorem C14_prim_x_slab_nan_refuted :
  (@known_x_slab_nanN _ NumF wF_flat wF_ray = true /\ (@nltb _ NumF n0 wF_t) = true /\
   @bbox_point_inside _ NumF wF_flat (ray_project wF_ray wF_t) = true /\
   @bbox_intersect _ NumF wF_flat wF_ray (inv_dirN (rdir wF_ray)) = false) /\
  (@known_x_slab_nanN _ NumF wF_cube wF_ray = true /\
   @bbox_point_inside _ NumF wF_cube (ray_project wF_ray wF_t) = true /\
   @bbox_intersect _ NumF wF_cube wF_ray (inv_dirN (rdir wF_ray)) = false).
Proof. exact prim_x_slab_nan_witness. Qed.

Theorem C14_prim_neg_zero_face_refuted :
  (known_neg_zero_face 53 1024 Hprec53 Hmax1024 (pB wF_cube) (pR wF_ray_y) = true /\
   @known_x_slab_nanN _ NumF wF_cube wF_ray_y = false /\
   @bbox_point_inside _ NumF wF_cube (ray_project wF_ray_y wF_t) = true /\
   @bbox_intersect _ NumF wF_cube wF_ray_y (inv_dirN (rdir wF_ray_y)) = false) /\
  (known_neg_zero_face 53 1024 Hprec53 Hmax1024 (pB wF_cube) (pR wF_ray_z) = true /\
   @known_x_slab_nanN _ NumF wF_cube wF_ray_z = false /\
   @bbox_point_inside _ NumF wF_cube (ray_project wF_ray_z wF_t) = true /\
   @bbox_intersect _ NumF wF_cube wF_ray_z (inv_dirN (rdir wF_ray_z)) = false).
Proof. exact prim_neg_zero_face_witness. Qed.

(** ** Thm 3 on primitive floats: completeness with the relative margin [1 + 2u], [u = 2^-53], on the EXACT slab
    parameters of the real box [boxRF b] and ray [rayRF r].  Side conditions ([side], Properties/C14.v) on the images;
    the format conditions ([margin_format]) are those of binary64 and are discharged. *)
Theorem C14_prim_float_complete_margin : forall (b : BBox prim) (r : Ray prim) (i : V3 prim),
  side 53 1024 Hprec53 Hmax1024 (pB b) (pR r) (pV i) -> clear_by 53 2 (boxRF b) (rayRF r) ->
  @bbox_intersect _ NumF b r i = true.
Proof. exact prim_float_complete_margin. Qed.

Theorem C14_prim_float_complete_enter_exit : forall (b : BBox prim) (r : Ray prim) (i : V3 prim),
  side 53 1024 Hprec53 Hmax1024 (pB b) (pR r) (pV i) ->
  0 < t_exit (boxRF b) (rayRF r) ->
  (0 < t_enter (boxRF b) (rayRF r) -> t_enter (boxRF b) (rayRF r) * (1 + 2 * uR 53) <= t_exit (boxRF b) (rayRF r)) ->
  @bbox_intersect _ NumF b r i = true.
Proof. exact prim_float_complete_enter_exit. Qed.

Theorem C14_prim_float_complete_point : forall (b : BBox prim) (r : Ray prim) (i : V3 prim) (t : R),
  side 53 1024 Hprec53 Hmax1024 (pB b) (pR r) (pV i) -> 0 < t ->
  let p := ray_project (rayRF r) t in let o := rorigin (rayRF r) in
  (forall a, in_margin 53 (boxRF b) o p a \/ on_flat (boxRF b) p a) ->
  (forall a a', a <> a' -> in_margin 53 (boxRF b) o p a \/ in_margin 53 (boxRF b) o p a') ->
  @bbox_intersect _ NumF b r i = true.
Proof. exact prim_float_complete_point. Qed.

(** the side conditions are decided by evaluation, the reciprocal direction being the [1.0 / d] computed ON PRIMITIVE
    FLOATS; then Thm 3 as the user reads it (the counterpart of [C14_float_complete_binary64]) *)
Theorem C14_prim_margin_side_conditions_checked : forall (b : BBox prim) (r : Ray prim),
  margin_okb 53 1024 Hprec53 Hmax1024 (pB b) (pR r) = true ->
  side 53 1024 Hprec53 Hmax1024 (pB b) (pR r) (pV (@inv_dirN _ NumF (rdir r))).
Proof. exact prim_margin_side_conditions_checked. Qed.

Theorem C14_prim_float_complete_binary64 : forall (b : BBox prim) (r : Ray prim),
  margin_okb 53 1024 Hprec53 Hmax1024 (pB b) (pR r) = true -> clear_by 53 2 (boxRF b) (rayRF r) ->
  @bbox_intersect _ NumF b r (inv_dirN (rdir r)) = true.
Proof. exact prim_float_complete_checked. Qed.

(** non-vacuity: unit cube, origin (-1, 1/4, 1/2), direction (3, 1/2, -1/4) as primitive floats: the side conditions
    hold by evaluation, the exact parameters x [1/3, 2/3], y [-1/2, 3/2], z [-2, 2] have the margin, and the
    primitive-float run answers [true] *)
Example C14_prim_margin_nonvacuous :
  margin_okb 53 1024 Hprec53 Hmax1024 (pB mF_box) (pR mF_ray) = true /\
  clear_by 53 2 (boxRF mF_box) (rayRF mF_ray) /\
  @bbox_intersect _ NumF mF_box mF_ray (inv_dirN (rdir mF_ray)) = true.
Proof. exact prim_margin_nonvacuous. Qed.
