(** * C15, float tier, on the EXECUTED f32 instance ([NumF32]: primitive binary64 floats holding binary32 values, every
    operation rounded to binary32 - what the f32 runners compare bit for bit with the `--features float` build).
    [of_b32 : NumB32 -> NumF32] is a total homomorphism (Theory/F32Bridge.v), so the binary32 instance of
    Properties/C15_float.v reads on [NumF32]: for embedded binary32 inputs, and for binary32-valued primitive floats
    ([is32M m], [is32B b], [is32V p]).  Statements only; proofs in Proofs/Bridge32_C15.v. *)
From Coq Require Import ZArith Floats Bool.
From G3 Require Import Model.Num Model.NumF Model.NumF32 Model.Base Model.Vec Model.BBox Model.Transform.
From G3 Require Import Theory.PrimBridge Theory.F32Bridge Proofs.Bridge32_model Proofs.Bridge32_C16.
From G3 Require Import Proofs.C15_float Proofs.Bridge32_C15.

Theorem C15_prim32_transformed_box_contains_image_embedded : forall (m : M4 b32) (b : BBox b32) (p : V3 b32),
  @tr_ok_b _ NumF32 (oM m) (oB b) = true -> @bbox_point_inside _ NumF32 (oB b) (oV p) = true ->
  @bbox_point_inside _ NumF32 (@bbox_by _ NumF32 (oM m) (oB b)) (@mul4x4point _ NumF32 (oM m) (oV p)) = true.
Proof. exact f32_bbox_by_contains_image_emb. Qed.

Theorem C15_prim32_transformed_box_contains_image : forall (m : M4 prim) (b : BBox prim) (p : V3 prim),
  is32M m -> is32B b -> is32V p ->
  @tr_ok_b _ NumF32 m b = true -> @bbox_point_inside _ NumF32 b p = true ->
  @bbox_point_inside _ NumF32 (@bbox_by _ NumF32 m b) (@mul4x4point _ NumF32 m p) = true.
Proof. exact f32_bbox_by_contains_image. Qed.

Example C15_prim32_nonvacuous :
  is32M w32_m15 /\ is32B w32_b15 /\ is32V w32_p15 /\
  @tr_ok_b _ NumF32 w32_m15 w32_b15 = true /\ @bbox_point_inside _ NumF32 w32_b15 w32_p15 = true.
Proof. exact f32_C15_nonvacuous. Qed.
